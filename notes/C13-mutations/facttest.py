import sys,re,os
sys.path.insert(0, os.path.join(os.path.dirname(os.path.abspath(__file__)), '..', '..', 'tools'))
import facts_c13 as f
def runmod(edit):
    out={}
    log=[]
    def rd(p):
        t=open(os.path.join('/repo',p),errors='replace').read()
        return edit(p,t)
    f.run(rd, lambda n,b: out.__setitem__(n,b), log, None, None)
    return out['Facts_c13.v'], log
base,_=runmod(lambda p,t:t)
def show(name, edit):
    o,log=runmod(edit)
    bl=base.splitlines(); ol=o.splitlines()
    print('==',name)
    for a,b in zip(bl,ol):
        if a!=b: print('   ',b.strip())
    for l in log: print('    log:',l[:160])
def sub(path, old, new, count=1):
    def e(p,t):
        if p==path:
            assert old in t, old
            return t.replace(old,new,count)
        return t
    return e
ce='lib/icinga/clusterevents.cpp'
# R1: state change before the origin check (SetNextCheck handler)
show('R1 reorder', sub(ce, '''	if (origin->FromZone && !origin->FromZone->CanAccessObject(checkable)) {
		Log(LogNotice, "ClusterEvents")
			<< "Discarding 'next check changed' message for checkable '" << checkable->GetName()''','''	checkable->SetNextCheck(params->Get("next_check"), false, origin);
	if (origin->FromZone && !origin->FromZone->CanAccessObject(checkable)) {
		Log(LogNotice, "ClusterEvents")
			<< "Discarding 'next check changed' message for checkable '" << checkable->GetName()'''))
# R2: check nested in a dead block
show('R2 nested', sub(ce, '''	if (origin->FromZone && !origin->FromZone->CanAccessObject(checkable)) {
		Log(LogNotice, "ClusterEvents")
			<< "Discarding 'next check changed' message for checkable '" << checkable->GetName()''','''	if (params->Contains("strict")) if (origin->FromZone && !origin->FromZone->CanAccessObject(checkable)) {
		Log(LogNotice, "ClusterEvents")
			<< "Discarding 'next check changed' message for checkable '" << checkable->GetName()'''))
# R3: harmless: read a value before the check
show('R3 harmless', sub(ce, '''	if (origin->FromZone && !origin->FromZone->CanAccessObject(checkable)) {
		Log(LogNotice, "ClusterEvents")
			<< "Discarding 'next check changed' message for checkable '" << checkable->GetName()''','''	double nextCheck = params->Get("next_check");
	if (origin->FromZone && !origin->FromZone->CanAccessObject(checkable)) {
		Log(LogNotice, "ClusterEvents")
			<< "Discarding 'next check changed' message for checkable '" << checkable->GetName()'''))
# R4: accept_config tested after the object was created (UpdateObject): move flag check below
cs='lib/remote/apilistener-configsync.cpp'
def r4(p,t):
    if p!=cs: return t
    blk=t[t.index('	/* ignore messages if the endpoint does not accept config */'):t.index('	/* update the object */')]
    t=t.replace(blk,'',1)
    return t.replace('	if (!object)\n		return Empty;\n\n	/* update object attributes', blk+'	if (!object)\n		return Empty;\n\n	/* update object attributes',1)
show('R4 flag after create', r4)
# R5: forwarding consults nothing more - add a relay before stage 1
show('R5 relay before stage1', sub(ce, '''	if (!origin->IsLocal()) {
		Endpoint::Ptr endpoint = origin->FromClient->GetEndpoint();

		/* Discard messages from anonymous clients */
		if (!endpoint) {
			Log(LogNotice, "ClusterEvents") << "Discarding 'execute command' message from \'''','''	listener->RelayMessage(origin, nullptr, params, true);
	if (!origin->IsLocal()) {
		Endpoint::Ptr endpoint = origin->FromClient->GetEndpoint();

		/* Discard messages from anonymous clients */
		if (!endpoint) {
			Log(LogNotice, "ClusterEvents") << "Discarding 'execute command' message from \''''))
# R6: forwarding target check dropped
show('R6 drop IsChildOf in forward', sub(ce, '''			if (!endpointZone->IsChildOf(localZone)) {
				return Empty;
			}
''',''))
# R7: new handler registered without check
show('R7 new handler', sub(ce, 'REGISTER_APIFUNCTION(SetRemovalInfo, event, &ClusterEvents::SetRemovalInfoAPIHandler);','REGISTER_APIFUNCTION(SetRemovalInfo, event, &ClusterEvents::SetRemovalInfoAPIHandler);\nREGISTER_APIFUNCTION(Frob, event, &ClusterEvents::SetRemovalInfoAPIHandler);'))
# R8: registration via a different spelling (template arg) the regex cannot parse
show('R8 odd registration', sub(ce, 'REGISTER_APIFUNCTION(SetRemovalInfo, event, &ClusterEvents::SetRemovalInfoAPIHandler);','REGISTER_APIFUNCTION(SetRemovalInfo, event, &ClusterEvents::SetRemovalInfoAPIHandler);\nREGISTER_APIFUNCTION(Frob, event, (&ClusterEvents::SetRemovalInfoAPIHandler));'))
# R9: relay rule: drop "not back to origin zone"
al='lib/remote/apilistener.cpp'
show('R9 relay back to origin zone', sub(al, 'if (origin && origin->FromZone && currentTargetZone == origin->FromZone) {','if (false) {'))
# R10 UpdateObject uses params.zone for something else
show('R10 zone rule', sub(cs, '	if (!objZone.IsEmpty() && !Zone::GetByName(objZone)) {','	if (!objZone.IsEmpty() && !Zone::GetByName(objZone) && objZone != "x") {'))
