open Model
open Vcore

(* ---------------- C04 scheduler ----------------
   sch_unc: UpdateNextCheck over exact rationals (extracted sch_next_units), diffed against the code.
   sch_run: real threads - the model cannot predict the interleaving, it VALIDATES the recorded trace:
            start/end/snapshot events go through the extracted Gallina oracle [sch_oracle]; the timing
            records (N next-check windows, W liveness windows, F forced checks, Q quiescent counters)
            are checked by the glue below against the bounds the theorems state. *)

let q_of_frac n d = { qnum = z_of_int n; qden = pos_of_int d }

let unc_eval a =
  let now = num a "now" 2000000000 in
  let soft = num a "soft" 0 <> 0 and hascr = num a "hascr" 0 <> 0 in
  let ci4 = num a "ci4" 4 and ri4 = num a "ri4" 4 in
  let iv = sch_interval soft hascr (q_of_frac ci4 4) (q_of_frac ri4 4) in
  let i_units = (if soft && hascr then ri4 else ci4) * 2500 in
  (i_units, int_of_z (sch_next_units (q_of_frac now 1) iv (z_of_int (num a "off" 0))))

let op_sch_unc a =
  let (_, u) = unc_eval a in
  emit (Printf.sprintf "unc next=%d" u)

let op_sch_run _ = ()

(* ---- ProcessCheckResult under the virtual clock: post-state from the C01 model (Ck), next check from
   sch_next_units_after with the interval of the POST-state ---- *)
let sch_sstate_of_int = function 0 -> SOK | 1 -> SWarning | 2 -> SCritical | _ -> SUnknown
let pcr_cfg = ref { c_kind = KHost; c_max = z_of_int 3; c_volatile = false }
let pcr_st = ref pending
let pcr_ci4 = ref 20 and pcr_ri4 = ref 4 and pcr_off = ref 0
let pcr_new a =
  pcr_cfg := { c_kind = (if str a "kind" "host" = "svc" then KService else KHost);
               c_max = z_of_int (num a "max" 3); c_volatile = false };
  pcr_st := pending;
  pcr_ci4 := num a "ci4" 20; pcr_ri4 := num a "ri4" 4; pcr_off := num a "off" 0
(* m_CheckRunning of the subject and the before_check stamp of the execution in flight (model of the reset points:
   EVERY ProcessCheckResult entry clears the flag, accepted or rejected - C04_result_clears_flag / C04_no_wedge) *)
let pcr_running = ref false
let pcr_inflight : int option ref = ref None
let pcr_result now start state =
  let r = { r_state = sch_sstate_of_int state; r_start = z_of_int start; r_end = z_of_int start } in
  let (post, io) = step !pcr_cfg (z_of_int now) !pcr_st r in
  pcr_st := post;
  pcr_running := false;
  ((match io with None -> 3 | Some _ -> 0), int_of_z (stype_num post.s_type))
let pcr_step a =
  let now = num a "now" 2000000000 in
  let start = if has a "start" then num a "start" now else now in
  let (res, ty) = pcr_result now start (num a "state" 0) in
  let units =
    if num a "active" 1 <> 0 then
      int_of_z (sch_next_units_after (q_of_frac now 1) (ty = 0) (q_of_frac !pcr_ci4 4) (q_of_frac !pcr_ri4 4) (z_of_int !pcr_off))
    else !pcr_ci4 * 2500 in
  (res, ty, units)
let pcr_remote = ref 0   (* 0 local, 1 command_endpoint not connected, 2 connected *)
let op_sch_cnew a = pcr_new a; pcr_running := false; pcr_inflight := None;
  pcr_remote := (if num a "remote" 0 <> 0 then (if num a "conn" 0 <> 0 then 2 else 1) else 0)
let op_sch_cr a =
  let (res, ty, units) = pcr_step a in
  if res = 0 then emit (Printf.sprintf "pcr res=%d ty=%d next=%d" res ty units)
  else emit (Printf.sprintf "pcr res=%d" res)
let op_sch_exec a =
  let now = num a "now" 2000000000 in
  (* before_check = now; early UpdateNextCheck; optionally a passive result lands in the window before the test-and-set *)
  if has a "race" then ignore (pcr_result (now + 1) (now + 1) (num a "race" 0));
  if !pcr_remote <> 0 && not !pcr_running then begin
    (* command_endpoint branch (SchATaskRemote): nothing runs here; connected: next_check = now + command timeout (60) + 30;
       not connected (outside the cold-start window): UNKNOWN "not connected" goes through ProcessCheckResult; either way
       m_CheckRunning is released before ExecuteCheck returns *)
    if !pcr_remote = 2 then emit "exec remote conn=1 next=900000"
    else begin
      let (res, ty) = pcr_result now now 3 in
      let units = int_of_z (sch_next_units_after (q_of_frac now 1) (ty = 0) (q_of_frac !pcr_ci4 4) (q_of_frac !pcr_ri4 4) (z_of_int !pcr_off)) in
      emit (Printf.sprintf "exec remote conn=0 got=%d ty=%d next=%d" (if res = 0 then 1 else 0) ty units)
    end
  end else
  if !pcr_running then emit "exec started=0"
  else begin pcr_running := true; pcr_inflight := Some now; emit "exec started=1" end
let op_sch_finish a =
  match !pcr_inflight with
  | None -> emit "fin none"
  | Some st ->
    pcr_inflight := None;
    let (res, _) = pcr_result (num a "now" 2000000000) st (num a "state" 0) in
    emit (Printf.sprintf "fin res=%d" res)

(* ---------------- timelines (family tl) ----------------
   The same script steps on the extracted step function [sch_exec]: every environment action of a step is applied, then
   the model is driven by a canonical schedule (scheduler first, then pool tasks, then asynchronous results whose gate is
   open; the clock only moves to make the head of the index due) until it is STABLE in the same sense as the harness:
   no callback under way, no forced or regular check owed that has a free slot, no ungated execution in flight.
   The guard-return cycles of a checkable that is due again while its check is still in flight change nothing that is
   printed and are not simulated unless the dispatch is a forced one (it consumes force_next_check). *)
let rec sch_nat_of_int n = if n <= 0 then O else S (sch_nat_of_int (n - 1))
let rec sch_int_of_nat = function O -> 0 | S n -> 1 + sch_int_of_nat n

type tl_model = {
  mutable tst : sch_state; tn : int; tmax : int; tiv : int;
  tkind : bool array;   (* true = asynchronous *)
  tgate : bool array;   (* open *)
  tstarts : int array; tdones : int array; tclears : int array;
  mutable tstep : int;
  mutable tev : sch_ev list; mutable tfev : sch_fev list;   (* newest first *)
}
let tl_cur : tl_model option ref = ref None

let tl_do m a =
  match sch_exec m.tst a with
  | Some s' ->
    List.iter (fun e -> (match e with SchEvStart c -> let c = int_of_z c in m.tstarts.(c) <- m.tstarts.(c) + 1 | _ -> ()); m.tev <- e :: m.tev) (sch_observe m.tst a);
    List.iter (fun e -> (match e with SchFClear c -> let c = int_of_z c in m.tclears.(c) <- m.tclears.(c) + 1 | _ -> ()); m.tfev <- e :: m.tfev) (sch_fobserve m.tst a);
    m.tst <- s'
  | None -> failwith "tl: model step not enabled"
let tl_ck m c = m.tst.sch_cks (sch_nat_of_int c)
let tl_clock m = int_of_z m.tst.sch_clock
let tl_in l c = sch_mem (sch_nat_of_int c) l
let tl_free m = int_of_z m.tst.sch_pcount < m.tmax
let tl_wanted m c =
  let k = tl_ck m c in
  tl_in m.tst.sch_idle c && tl_free m && (k.sch_force || (k.sch_enable && k.sch_period && not k.sch_running))

(* pool side of the canonical schedule: callbacks, then asynchronous results whose gate is open; false = nothing to do *)
let tl_progress_pool m =
  let st = m.tst in
  let after = z_of_int (tl_clock m + m.tiv) in
  let task = List.find_opt (fun (c, pc) ->
    match pc with
    | SchTRunning -> let c = sch_int_of_nat c in m.tkind.(c) || m.tgate.(c)
    | _ -> true) st.sch_tasks in
  match task with
  | Some (c, SchTQueued) -> tl_do m (SchATaskUpdate (c, after)); true
  | Some (c, SchTUpdated) -> tl_do m (SchATaskTas c); true
  | Some (c, SchTRunning) ->
    let ci = sch_int_of_nat c in
    if m.tkind.(ci) then tl_do m (SchATaskLaunch c)
    else begin tl_do m (SchATaskResult (c, after)); m.tdones.(ci) <- m.tdones.(ci) + 1 end; true
  | Some (c, SchTReturned) -> tl_do m (SchATaskDecrease c); true
  | Some (c, SchTDecr) -> tl_do m (SchATaskFinish c); true
  | None ->
    (match List.find_opt (fun c -> m.tgate.(sch_int_of_nat c)) st.sch_fdone, List.find_opt (fun c -> m.tgate.(sch_int_of_nat c)) st.sch_flights with
     | Some c, _ -> tl_do m (SchAFlightResult (c, after)); let ci = sch_int_of_nat c in m.tdones.(ci) <- m.tdones.(ci) + 1; true
     | None, Some c -> tl_do m (SchAFlightDone c); true
     | None, None -> false)

(* one canonical step; false = nothing to do (stable) *)
let tl_progress m =
  let st = m.tst in
  let after = z_of_int (tl_clock m + m.tiv) in
  match st.sch_pc with
  | SchSHold (c, f) ->
    let k = st.sch_cks c in
    if f || (k.sch_reach && k.sch_enable && k.sch_period) then tl_do m SchADispatch
    else begin tl_do m SchASkip; tl_do m (SchASetNext (c, after)); tl_do m (SchANextCheckChanged c) end; true
  | SchSPostA _ -> tl_do m SchAClearForce; true
  | SchSPostB _ -> tl_do m SchAIncrease; true
  | SchSPostC _ -> tl_do m SchAEnqueue; true
  | SchSIdle ->
    if tl_progress_pool m then true
    else if not (List.exists (fun c -> tl_wanted m c) (List.init m.tn (fun i -> i))) then false
    else begin
      (* head of the next-check index *)
      let head = List.fold_left (fun acc (c, k) -> match acc with
        | Some (_, k0) when int_of_z k0 <= int_of_z k -> acc
        | _ -> Some (c, k)) None st.sch_idle in
      match head with
      | None -> false
      | Some (c, k) ->
        if int_of_z k > tl_clock m then tl_do m (SchATick (z_of_int (int_of_z k - tl_clock m)));
        tl_do m (SchAPick c); true
    end
let tl_settle m =
  let n = ref 0 in
  while tl_progress m do incr n; if !n > 5000 then failwith "tl: model does not settle (free-running checkable in the script?)" done

let tl_line m =
  let b = Buffer.create 80 in
  Buffer.add_string b (Printf.sprintf "tl %d pc=%d" m.tstep (int_of_z m.tst.sch_pcount));
  for c = 0 to m.tn - 1 do
    let k = tl_ck m c in
    let w = if tl_in m.tst.sch_idle c then (if tl_in m.tst.sch_pend c then 'B' else 'i') else if tl_in m.tst.sch_pend c then 'p' else '-' in
    Buffer.add_string b (Printf.sprintf " c%d:s=%d,d=%d,cl=%d,f=%d,w=%c" c m.tstarts.(c) m.tdones.(c) m.tclears.(c) (if k.sch_force then 1 else 0) w)
  done;
  Buffer.contents b
let tl_emit_to m (sink : string -> unit) = tl_settle m; sink (tl_line m); m.tstep <- m.tstep + 1

let tl_new a sink =
  let n = num a "n" 1 and maxc = num a "max" 2 and iv = num a "iv" 150 in
  let kinds = str a "kinds" "s" and gates = str a "gates" "c" in
  let m = { tst = sch_init (fun _ -> true) (fun _ -> z_of_int 0) (z_of_int maxc); tn = n; tmax = maxc; tiv = iv;
            tkind = Array.init n (fun c -> c < String.length kinds && kinds.[c] = 'a');
            tgate = Array.init n (fun c -> c < String.length gates && gates.[c] = 'o');
            tstarts = Array.make n 0; tdones = Array.make n 0; tclears = Array.make n 0; tstep = 0; tev = []; tfev = [] } in
  for c = 0 to n - 1 do
    let cn = sch_nat_of_int c in
    (* object created active and paused, enable_active_checks = false; Checkable::Start puts next_check somewhere into the first interval *)
    tl_do m (SchASetEnv (cn, false, true, true));
    tl_do m (SchASetNext (cn, z_of_int (1 + c)));
    tl_do m (SchASetActive (cn, true)); tl_do m (SchAObjectHandler cn)
  done;
  for c = 0 to n - 1 do
    let cn = sch_nat_of_int c in
    tl_do m (SchASetPaused (cn, false)); tl_do m (SchAObjectHandler cn)
  done;
  tl_cur := Some m;
  tl_emit_to m sink

let tl_step a sink =
  match !tl_cur with
  | None -> failwith "sch_tl_do without sch_tl_new"
  | Some m ->
    let c = num a "c" 0 in
    let cn = sch_nat_of_int c in
    (* a step of the script takes longer than one interval in real time (the harness watches the state for >= 150 ms, intervals
       are <= 100 ms): whatever was re-keyed to "now + interval" before this step is due when it begins *)
    tl_do m (SchATick (z_of_int (m.tiv + 1)));
    let k = tl_ck m c in
    let env en per = tl_do m (SchASetEnv (cn, en, per, k.sch_reach)) in
    (match str a "op" "" with
     | "force" -> tl_do m (SchASetForce (cn, true)); tl_do m (SchASetNext (cn, z_of_int (tl_clock m))); tl_do m (SchANextCheckChanged cn)
     | "enable" -> env true k.sch_period
     | "disable" -> env false k.sch_period
     | "close" -> env k.sch_enable false
     | "open" -> env k.sch_enable true
     | "pause" -> if not k.sch_paused then begin tl_do m (SchASetPaused (cn, true)); tl_do m (SchAObjectHandler cn) end
     | "resume" -> if k.sch_paused then begin tl_do m (SchASetPaused (cn, false)); tl_do m (SchAObjectHandler cn) end
     | "resched" -> tl_do m (SchASetNext (cn, z_of_int (tl_clock m))); tl_do m (SchANextCheckChanged cn)
     | "hold" -> m.tgate.(c) <- false
     | "release" -> m.tgate.(c) <- true
     | o -> failwith ("sch_tl_do: unknown op " ^ o));
    tl_emit_to m sink

let tl_end sink =
  match !tl_cur with
  | None -> failwith "sch_tl_end without sch_tl_new"
  | Some m ->
    (* the scheduler thread is stopped first (it finishes the dispatch it is in, if any), then every gate opens and what is in
       flight finishes; nothing new is dispatched *)
    let n = ref 0 in
    while (match m.tst.sch_pc with SchSIdle -> false | _ -> true) do ignore (tl_progress m); incr n; if !n > 100 then failwith "tl: end" done;
    Array.iteri (fun c _ -> m.tgate.(c) <- true) m.tgate;
    while tl_progress_pool m do incr n; if !n > 5000 then failwith "tl: drain" done;
    let b = Buffer.create 64 in
    Buffer.add_string b (Printf.sprintf "tl end pcount=%d pend=%d" (int_of_z m.tst.sch_pcount) (List.length m.tst.sch_pend));
    for c = 0 to m.tn - 1 do Buffer.add_string b (Printf.sprintf " c%d:s=%d,d=%d" c m.tstarts.(c) m.tdones.(c)) done;
    sink (Buffer.contents b);
    tl_cur := None

let op_sch_tl_new a = tl_new a emit
let op_sch_tl_do a = tl_step a emit
let op_sch_tl_end _ = tl_end emit

let ids_of s = if s = "-" || s = "" then [] else List.map int_of_string (String.split_on_char ',' s)
let quiet_of s =
  if s = "-" || s = "" then [] else
  List.map (fun t -> match String.split_on_char ':' t with
    | [c; b] -> (z_of_int (int_of_string c), b = "1")
    | _ -> failwith "quiet") (String.split_on_char ',' s)

let code_name = function
  | 1 -> "single-flight second-start-while-running"
  | 2 -> "concurrency more-than-max-running"
  | 3 -> "single-flight end-without-start"
  | 4 -> "twice duplicate-in-idle"
  | 5 -> "twice duplicate-in-pending"
  | 6 -> "twice idle-and-pending-overlap"
  | 7 -> "dropped schedulable-checkable-in-neither-set"
  | 8 -> "not-removed unschedulable-checkable-still-in-a-set"
  | n -> "code-" ^ string_of_int n

let oracle_run (a : args) trace =
  let maxc = ref 1 and tend = ref 0 in
  let evs = ref [] and evsrc = ref [] in
  let nrec = ref [] and wrec = ref [] and frec = ref [] and qrec = ref None in
  let snaps = ref [] in   (* (time, idle ids as text, head id, head key, pcount), newest first *)
  (* wedge detection: ExecuteCheck entries (X) per pool thread, executions (entry time, processing-done time) per checkable *)
  let pending_entry : (int, int * int) Hashtbl.t = Hashtbl.create 32 in     (* tid -> (c, t) *)
  let returned = ref [] in                                                  (* (c, t_entry, t_upper) guard returns *)
  let execs_of : (int, (int * int ref) list) Hashtbl.t = Hashtbl.create 64 in (* c -> (entry time, done time ref) newest first *)
  let dmax = ref 0 in
  let starts : (int, int list) Hashtbl.t = Hashtbl.create 64 in      (* c -> start times, newest first *)
  let spans : (int, (int * int) list) Hashtbl.t = Hashtbl.create 64 in (* c -> (start, end) *)
  let open_s : (int, int) Hashtbl.t = Hashtbl.create 64 in
  let nsnap = ref 0 and ncfg = ref 0 and lmax = ref 0 in
  let lineno = ref 0 in
  let fevs : (int, sch_fev list) Hashtbl.t = Hashtbl.create 64 in          (* c -> clears / ExecuteCheck entries, newest first *)
  let deleted : (int, unit) Hashtbl.t = Hashtbl.create 64 in                (* checkables the driver deleted at some point of the run *)
  let fev_add c e = Hashtbl.replace fevs c (e :: (try Hashtbl.find fevs c with Not_found -> [])) in
  let req_idx : (int * int, int) Hashtbl.t = Hashtbl.create 64 in          (* (c, request time) -> line number of the request marker *)
  let entry_idx : (int * int, int) Hashtbl.t = Hashtbl.create 256 in       (* (c, entry time) -> line number of the X record *)
  List.iter (fun l -> if String.length l > 2 && l.[0] = 'P' then incr nsnap) trace;
  let n_ck = ref 1 in
  List.iter (fun l -> match toks_of l with
    | "cfg" :: r -> incr ncfg;
      (match tok_val r "max" with Some v -> maxc := int_of_string v | None -> ());
      (match tok_val r "n" with Some v -> n_ck := max 1 (int_of_string v) | None -> ());
      (match tok_val r "dmax" with Some v -> dmax := int_of_string v | None -> ());
      (match tok_val r "end" with Some v -> tend := int_of_string v | None -> ())
    | _ -> ()) trace;
  (* budget for the quadratic duplicate checks of the Gallina oracle *)
  let keep_every = max 1 ((!nsnap * !n_ck * !n_ck) / 40_000_000 + 1) in
  let si = ref 0 in
  List.iter (fun l ->
    incr lineno;
    match toks_of l with
    | ["Z"; _; c] -> Hashtbl.replace deleted (int_of_string c) ()
    | ["C"; _; c] -> let c = int_of_string c in fev_add c (SchFClear (z_of_int c))
    | ["R"; t; c; "0"] -> Hashtbl.replace req_idx (int_of_string c, int_of_string t) !lineno
    | "X" :: t :: c :: tid :: _ ->
      let t = int_of_string t and c = int_of_string c and tid = int_of_string tid in
      fev_add c (SchFEnter (z_of_int c));
      Hashtbl.replace entry_idx (c, t) !lineno;
      (match Hashtbl.find_opt pending_entry tid with
       | Some (c0, t0) -> returned := (c0, t0, t) :: !returned     (* the previous entry on this thread never started its command *)
       | None -> ());
      Hashtbl.replace pending_entry tid (c, t)
    | "D" :: t :: c :: _ ->
      let t = int_of_string t and c = int_of_string c in
      (match (try Hashtbl.find execs_of c with Not_found -> []) with
       | (_, d) :: _ when !d = max_int -> d := t
       | l -> (match List.find_opt (fun (_, d) -> !d = max_int) l with Some (_, d) -> d := t | None -> ()))
    | "S" :: t :: c :: late :: rest ->
      let t = int_of_string t and c = int_of_string c in
      (match rest with
       | _ :: tid :: _ ->
         let tid = int_of_string tid in
         let entry = (match Hashtbl.find_opt pending_entry tid with
           | Some (c0, t0) when c0 = c -> Hashtbl.remove pending_entry tid; t0
           | _ -> t) in
         Hashtbl.replace execs_of c ((entry, ref max_int) :: (try Hashtbl.find execs_of c with Not_found -> []))
       | _ -> ());
      lmax := max !lmax (int_of_string late);
      evs := SchEvStart (z_of_int c) :: !evs; evsrc := l :: !evsrc;
      Hashtbl.replace starts c (t :: (try Hashtbl.find starts c with Not_found -> []));
      Hashtbl.replace open_s c t
    | ["E"; t; c] ->
      let t = int_of_string t and c = int_of_string c in
      evs := SchEvEnd (z_of_int c) :: !evs; evsrc := l :: !evsrc;
      (match Hashtbl.find_opt open_s c with
       | Some s -> Hashtbl.replace spans c ((s, t) :: (try Hashtbl.find spans c with Not_found -> [])); Hashtbl.remove open_s c
       | None -> ())
    | "P" :: tp :: r ->
      (match tok_val r "h", tok_val r "pc" with
       | Some h, Some pc ->
         let (hid, hkey) = (match String.split_on_char ':' h with [a; b] -> (int_of_string a, int_of_string b) | _ -> (-1, 0)) in
         snaps := (int_of_string tp, (match tok_val r "i" with Some v -> v | None -> "-"), hid, hkey, int_of_string pc) :: !snaps
       | _ -> ());
      incr si;
      if !si mod keep_every = 0 then begin
        let g k = match tok_val r k with Some v -> v | None -> "-" in
        evs := SchEvSnap (List.map z_of_int (ids_of (g "i")), List.map z_of_int (ids_of (g "p")), quiet_of (g "q")) :: !evs;
        evsrc := l :: !evsrc end
    | "N" :: r -> nrec := List.map int_of_string r :: !nrec
    | "W" :: r -> wrec := List.map int_of_string r :: !wrec
    | "F" :: r -> frec := List.map int_of_string r :: !frec
    | "Q" :: r -> qrec := Some r
    | _ -> ()) trace;
  ignore a;
  if !ncfg = 0 then Some "crash no-cfg-line" else
  match sch_oracle (z_of_int !maxc) (List.rev !evs) with
  | Some (idx, code) ->
    let src = try List.nth (List.rev !evsrc) (int_of_z idx) with _ -> "?" in
    let src = if String.length src > 160 then String.sub src 0 160 ^ "..." else src in
    Some (Printf.sprintf "%s max=%d event=%s at: %s" (code_name (int_of_z code)) !maxc (zs idx) src)
  | None ->
    let hiccup = match !qrec with Some r -> (match tok_val r "hiccup" with Some v -> int_of_string v | None -> 0) | None -> 0 in
    let err = ref None in
    let fail m = if !err = None then err := Some m in
    (match !qrec with
     | None -> fail "crash no-quiescence-record"
     | Some r ->
       (match tok_val r "pcount" with
        | Some "0" -> ()
        | Some v -> fail ("slot-leak pending-check-counter=" ^ v ^ " after all checks finished")
        | None -> fail "crash no-pcount"));
    (* next check in (now, now + I] *)
    List.iter (function
      | [c; t0; t1; next; i; pcr] ->
        if not (next > t0) then fail (Printf.sprintf "next-check not-in-future c=%d t0=%d next=%d I=%d pcr=%d" c t0 next i pcr)
        else if not (next <= t1 + i + 5) then fail (Printf.sprintf "next-check beyond-interval c=%d t1=%d next=%d I=%d over=%d pcr=%d" c t1 next i (next - t1 - i) pcr)
      | _ -> fail "crash malformed-N") (List.rev !nrec);
    (match !qrec with
     | Some r -> (match tok_val r "pend" with
                  | Some "0" | None -> ()
                  | Some v -> fail ("pending-leak pending-set-size=" ^ v ^ " after the scheduler stopped and all checks finished"))
     | None -> ());
    (* the single-flight guard must not wedge (C04_no_wedge): an ExecuteCheck() that returned at the guard (entry X on a pool
       thread not followed by the start of its command on that thread) is legitimate only if an execution of the same
       checkable was in flight at some moment between this entry and the next record of the thread: entered before that
       upper bound and its result processing (accepted OR rejected) not over before this entry.  Timing free. *)
    Hashtbl.iter (fun _ (c0, t0) -> returned := (c0, t0, max_int) :: !returned) pending_entry;
    List.iter (fun (c, t0, tup) ->
      let xs = try Hashtbl.find execs_of c with Not_found -> [] in
      if not (List.exists (fun (te, d) -> te <= tup && !d >= t0) xs) then
        let last = List.fold_left (fun acc (_, d) -> if !d < t0 then max acc !d else acc) (-1) xs in
        fail (Printf.sprintf "single-flight wedged c=%d ExecuteCheck entered at %d returned at the running guard although no execution was in flight (last result processing finished at %d)" c t0 last))
      (List.rev !returned);
    (* where force_next_check is cleared: every clear is FOLLOWED by the ExecuteCheck it belongs to (extracted force oracle,
       per checkable, on the complete run: the scheduler thread has been joined and the pool drained) *)
    (* NOT for checkables that were deleted during the run: the entry of ExecuteCheck is observed through
       OnLastCheckStartedChanged, and the generated NotifyLastCheckStarted emits only while the object IsActive().  A checkable
       deactivated between its (forced) dispatch and the moment a pool thread runs the callback executes WITHOUT an entry
       record (seen: thorough seed 1, c=197, clear at 1.8445 s, deleted at ~1.856 s, command started at 1.8807 s - a false
       `forced' alarm of the first version of this rule). *)
    Hashtbl.iter (fun c evs ->
      if Hashtbl.mem deleted c then () else
      match sch_force_oracle [z_of_int c] (List.rev evs) with
      | Some _ -> fail (Printf.sprintf "forced clear-not-followed-by-execution c=%d: force_next_check was set to false and no ExecuteCheck of the checkable was entered afterwards (the consumed request got no dispatch of its own)" c)
      | None -> ()) fevs;
    (* liveness, the timed reading of C04_progress_partial, decided from the snapshots only: the scheduler is STUCK if the
       same head of the next-check index (same object, same key) stays due with a free slot over more than delta.
       Whatever else delays a check - slots taken, earlier-due checkables, a saturated pool, a loaded machine - is not
       a violation.  The only legitimate wait in that situation is the scheduler's own 0.5 s condition-variable timeout
       (a finishing task whose checkable was removed from pending does not notify) plus the time the scheduler thread needs
       to get the CPU, hence delta = 2 s (four such timeouts) + 10 * the largest oversleep observed in this run.
       W records (gaps between starts) are statistics only. *)
    let delta = 2_000_000 + 10 * hiccup in
    let cur = ref None in
    List.iter (fun (t, _, hid, hkey, pc) ->
      if hid >= 0 && hkey < t - 1000 && pc < !maxc then begin
        match !cur with
        | Some (h0, k0, t0) when h0 = hid && k0 = hkey ->
          if t - t0 > delta then
            fail (Printf.sprintf "liveness scheduler-stuck head=%d key=%d due-and-slot-free(pcount=%d<max=%d) from %d to %d (> %d)" hid hkey pc !maxc t0 t delta)
        | _ -> cur := Some (hid, hkey, t)
      end else cur := None) (List.rev !snaps);
    (* forced requests: an unserved forced request is a violation only if the scheduler demonstrably served LATER-DUE work
       while the forced checkable sat in idle: a snapshot (atomic, under m_Mutex) that shows c in idle and a head of the
       next-check index with a key beyond anything c's key can be - impossible for a scheduler that keys c by its next_check
       unless c was skipped and re-keyed.  The bound compares KEYS, not clock readings: after the request c's key is the
       request time, or, when the request fell into a running check, the end of that run + one interval
       (<= request + dmax + Imax); the only real-time quantity in it is the duration of that run, which a loaded machine
       stretches (0.1 s + 10 * the largest oversleep observed). *)
    let snaps_fwd = List.rev !snaps in
    List.iter (function
      | c :: t :: until :: _ :: t2 :: imax :: _ ->
        let ss = try Hashtbl.find starts c with Not_found -> [] in
        let sp = try Hashtbl.find spans c with Not_found -> [] in
        let started = List.exists (fun s -> s >= t && s <= until) ss in
        ignore sp;
        (* THE exception of C04_forced, and nothing wider: a dispatch that entered ExecuteCheck AFTER the request began (in the
           order of the records, which is the order of their critical sections) and returned at the m_CheckRunning guard - the
           request was absorbed by an execution in flight at that moment.  That the guard return itself was legitimate (an
           execution really was in flight) is checked by the wedge rule above. *)
        let ridx = try Hashtbl.find req_idx (c, t) with Not_found -> 0 in
        let running = List.exists (fun (c0, t0, _) ->
          c0 = c && t0 <= until && (match Hashtbl.find_opt entry_idx (c0, t0) with Some i -> i > ridx | None -> false)) !returned in
        if not (started || running) then begin
          let kc_max = t2 + imax + !dmax + 100_000 + 10 * hiccup in
          let cs = string_of_int c in
          let hits = List.filter (fun (ts, idle, hid, hkey, _) ->
            ts > t2 && ts < until && hid >= 0 && hid <> c && hkey > kc_max && List.mem cs (String.split_on_char ',' idle)) snaps_fwd in
          if List.length hits >= 3 then
            (match hits with
             | (ts, _, hid, hkey, _) :: _ ->
               fail (Printf.sprintf "forced c=%d forced-at=%d never-started-until=%d but at %d (and %d more snapshots) it sits in idle behind head=%d with key=%d > %d"
                       c t until ts (List.length hits - 1) hid hkey kc_max)
             | [] -> ())
        end
      | _ -> fail "crash malformed-F") (List.rev !frec);
    ignore !wrec;
    !err

let oracle_c04 script trace =
  match List.filter is_bad_line trace with
  | b :: _ -> Some ("crash " ^ b)
  | [] ->
    let uncs = List.filter (fun l -> String.length l > 4 && String.sub l 0 4 = "unc ") trace in
    let pcrs = ref (List.filter (fun l -> String.length l > 4 && String.sub l 0 4 = "pcr ") trace) in
    let execs = ref (List.filter (fun l -> String.length l > 5 && String.sub l 0 5 = "exec ") trace) in
    let fins = ref (List.filter (fun l -> String.length l > 4 && String.sub l 0 4 = "fin ") trace) in
    let inflight = ref false in
    let tl_expect = ref [] and tl_max = ref 1 and tl_n = ref 0 and tl_seen = ref false in
    let tl_sink l = tl_expect := l :: !tl_expect in
    let ci4 = ref 20 and ri4 = ref 4 in
    let tr = ref uncs and err = ref None in
    let fail m = if !err = None then err := Some m in
    List.iter (fun line ->
      match parse_line line with
      | Some ("sch_unc", a) ->
        (match !tr with
         | [] -> fail "crash missing-unc-observation"
         | l :: rest ->
           tr := rest;
           let (i_units, _) = unc_eval a in
           (match tok_val (toks_of l) "next" with
            | Some v ->
              let v = int_of_string v in
              if not (v > 0) then fail (Printf.sprintf "next-check not-in-future (%s) -> %d" line v)
              else if not (v <= i_units) then fail (Printf.sprintf "next-check beyond-interval (%s) -> %d > %d" line v i_units)
            | None -> fail "crash malformed-unc"))
      | Some ("sch_cnew", a) -> ci4 := num a "ci4" 20; ri4 := num a "ri4" 4; inflight := false
      | Some ("sch_exec", a) ->
        (* C04_no_wedge on the implementation: ExecuteCheck may return at the guard only while an execution is in flight,
           i.e. started and no ProcessCheckResult (own result accepted/rejected, or any other result) since *)
        (match !execs with
         | [] -> fail "crash missing-exec-observation"
         | l :: rest ->
           execs := rest;
           if has a "race" then inflight := false;
           if String.length l > 12 && String.sub l 0 12 = "exec remote " then begin
             (* C04_remote_releases_on_return on the implementation: every ExecuteCheck of a checkable with a command endpoint
                gets as far as the remote branch - next_check = now + timeout + 30 (connected) / the "not connected" result
                arrives (not connected); a call that came back from the guard shows neither *)
             inflight := false;
             let t = toks_of l in
             (match tok_val t "conn", tok_val t "next", tok_val t "got" with
              | Some "1", Some "900000", _ -> ()
              | Some "0", _, Some "1" -> ()
              | _ -> fail (Printf.sprintf "single-flight wedged: (%s) remote execution did not take place: [%s] (m_CheckRunning left set by the previous remote ExecuteCheck)" line l))
           end else
           (match tok_val (toks_of l) "started" with
            | Some "1" ->
              (* C04_single_flight / C04_flag_until_result on the implementation: the command keeps its result (asynchronous);
                 no result has been processed since it started, so ExecuteCheck must return at the guard *)
              if !inflight then
                fail (Printf.sprintf "single-flight second-start-while-running: (%s) started the command again although the previous execution has not delivered its result (m_CheckRunning released before the result was processed)" line);
              inflight := true
            | Some "0" ->
              if not !inflight then
                fail (Printf.sprintf "single-flight wedged: (%s) did not start the command although no execution is in flight (m_CheckRunning left set after a result was processed)" line)
            | _ -> fail "crash malformed-exec"))
      | Some ("sch_finish", _) ->
        (match !fins with
         | [] -> fail "crash missing-fin-observation"
         | l :: rest -> fins := rest; if l <> "fin none" then inflight := false)
      | Some ("sch_cr", a) ->
        (match !pcrs with
         | [] -> fail "crash missing-pcr-observation"
         | l :: rest ->
           pcrs := rest;
           inflight := false;
           let t = toks_of l in
           (match tok_val t "next", tok_val t "ty", tok_val t "res" with
            | Some v, Some ty, Some "0" when num a "active" 1 <> 0 ->
              (* the bound of C04_next_check_after_result with the interval of the state the IMPLEMENTATION reports after the result *)
              let v = int_of_string v and i_units = (if ty = "0" then !ri4 else !ci4) * 2500 in
              if not (v > 0) then fail (Printf.sprintf "next-check not-in-future after-result (%s) -> %d" line v)
              else if not (v <= i_units) then
                fail (Printf.sprintf "next-check beyond-interval after-result post-state-type=%s (%s) -> %d > %d" ty line v i_units)
            | Some _, Some _, Some _ -> ()
            | None, None, Some _ -> ()
            | _ -> fail "crash malformed-pcr"))
      | Some ("sch_run", a) ->
        (match oracle_run a trace with Some m -> fail m | None -> ())
      | Some ("sch_tl_new", a) -> tl_seen := true; tl_max := num a "max" 2; tl_n := num a "n" 1; (try tl_new a tl_sink with Failure m -> fail ("crash model: " ^ m))
      | Some ("sch_tl_do", a) -> (try tl_step a tl_sink with Failure m -> fail ("crash model: " ^ m))
      | Some ("sch_tl_end", _) -> (try tl_end tl_sink with Failure m -> fail ("crash model: " ^ m))
      | _ -> ()) script;
    if !tl_seen then begin
      tl_cur := None;
      (* start/end of executions through the extracted oracle (single flight, concurrency limit); clears of force_next_check and
         ExecuteCheck entries through the extracted force oracle (every clear is followed by the ExecuteCheck it belongs to) *)
      let evs = ref [] and fevs = ref [] and nent = Hashtbl.create 8 and nstart = Hashtbl.create 8 in
      List.iter (fun l -> match toks_of l with
        | ["tlev"; "S"; c] -> evs := SchEvStart (z_of_int (int_of_string c)) :: !evs
        | ["tlev"; "E"; c] -> evs := SchEvEnd (z_of_int (int_of_string c)) :: !evs
        | ["tlev"; "C"; c] -> fevs := SchFClear (z_of_int (int_of_string c)) :: !fevs
        | "tlev" :: "X" :: c :: _ -> fevs := SchFEnter (z_of_int (int_of_string c)) :: !fevs
        | _ -> ()) trace;
      ignore nent; ignore nstart;
      (match sch_oracle (z_of_int !tl_max) (List.rev !evs) with
       | Some (idx, code) -> fail (Printf.sprintf "%s max=%d event=%s (timeline)" (code_name (int_of_z code)) !tl_max (zs idx))
       | None -> ());
      let complete = List.exists (fun l -> String.length l >= 7 && String.sub l 0 7 = "tl end ") trace in
      if complete then
        (match sch_force_oracle (List.init !tl_n (fun c -> z_of_int c)) (List.rev !fevs) with
         | Some c -> fail (Printf.sprintf "forced clear-not-followed-by-execution c=%s: force_next_check was cleared and no ExecuteCheck of the checkable was entered afterwards (timeline)" (zs c))
         | None -> ());
      (* line by line against what the model decided *)
      let got = List.filter (fun l -> String.length l > 3 && String.sub l 0 3 = "tl ") trace in
      let rec cmp i g e = match g, e with
        | [], [] -> ()
        | g0 :: gr, e0 :: er ->
          if g0 = e0 then cmp (i + 1) gr er
          else begin
            (* classify by what differs: fewer starts than the model with the force flag gone = a forced request was lost *)
            let field l c k = match List.find_opt (fun t -> String.length t > 3 && String.sub t 0 (String.length c + 1) = c ^ ":") (toks_of l) with
              | Some t -> (match List.find_opt (fun kv -> String.length kv > String.length k && String.sub kv 0 (String.length k + 1) = k ^ "=")
                                   (String.split_on_char ',' (String.sub t (String.length c + 1) (String.length t - String.length c - 1))) with
                           | Some kv -> (try int_of_string (String.sub kv (String.length k + 1) (String.length kv - String.length k - 1)) with _ -> -1)
                           | None -> -1)
              | None -> -1 in
            let cls = ref "timeline" in
            for c = 0 to !tl_n - 1 do
              let cn = "c" ^ string_of_int c in
              let gs = field g0 cn "s" and es = field e0 cn "s" in
              if gs >= 0 && es >= 0 && gs < es && !cls = "timeline" then cls := "forced execution-missing";
              if gs >= 0 && es >= 0 && gs > es && !cls = "timeline" then cls := "single-flight extra-execution"
            done;
            fail (Printf.sprintf "%s step=%d implementation: [%s] model: [%s]" !cls i g0 e0)
          end
        | g0 :: _, [] -> fail (Printf.sprintf "timeline extra-line [%s]" g0)
        | [], e0 :: _ -> fail (Printf.sprintf "crash timeline missing-line model: [%s]" e0) in
      cmp 0 got (List.rev !tl_expect)
    end;
    !err

let () =
  register_op "sch_unc" op_sch_unc;
  register_op "sch_run" op_sch_run;
  register_op "sch_cnew" op_sch_cnew;
  register_op "sch_cr" op_sch_cr;
  register_op "sch_exec" op_sch_exec;
  register_op "sch_finish" op_sch_finish;
  register_op "sch_tl_new" op_sch_tl_new;
  register_op "sch_tl_do" op_sch_tl_do;
  register_op "sch_tl_end" op_sch_tl_end;
  register_case_end (fun () -> tl_cur := None);
  register_oracle "C04" oracle_c04
