open Model
open Vcore

(* C15 glue: S-expression (hex-encoded in the script line) -> dsl_expr; Coq string <-> OCaml string. *)
let cs_of_string (s : string) : Model.string =
  let n = String.length s in
  let rec go i = if i >= n then EmptyString else
      let c = Char.code s.[i] in
      let b k = (c lsr k) land 1 = 1 in
      String (Ascii (b 0, b 1, b 2, b 3, b 4, b 5, b 6, b 7), go (i + 1)) in
  go 0
let string_of_cs (s : Model.string) : string =
  let b = Buffer.create 64 in
  let rec go = function
    | EmptyString -> ()
    | String (Ascii (b0, b1, b2, b3, b4, b5, b6, b7), t) ->
      let v x k = if x then 1 lsl k else 0 in
      Buffer.add_char b (Char.chr (v b0 0 + v b1 1 + v b2 2 + v b3 3 + v b4 4 + v b5 5 + v b6 6 + v b7 7)); go t in
  go s; Buffer.contents b
let rec nat_of_int n = if n <= 0 then O else S (nat_of_int (n - 1))

type sx = A of string | L of sx list
let parse_sx (s : string) : sx =
  let n = String.length s in
  let pos = ref 0 in
  let rec skip () = while !pos < n && (s.[!pos] = ' ' || s.[!pos] = '\n') do incr pos done
  and item () =
    skip ();
    if !pos >= n then failwith "sexp: eof";
    if s.[!pos] = '(' then begin
      incr pos;
      let acc = ref [] in
      skip ();
      while !pos < n && s.[!pos] <> ')' do acc := item () :: !acc; skip () done;
      incr pos; L (List.rev !acc) end
    else begin
      let st = !pos in
      while !pos < n && s.[!pos] <> ' ' && s.[!pos] <> '(' && s.[!pos] <> ')' && s.[!pos] <> '\n' do incr pos done;
      A (String.sub s st (!pos - st)) end in
  item ()

let binop_of = function
  | "add" -> DbAdd | "sub" -> DbSub | "mul" -> DbMul | "div" -> DbDiv | "mod" -> DbMod | "xor" -> DbXor
  | "band" -> DbAnd | "bor" -> DbOr | "shl" -> DbShl | "shr" -> DbShr | "eq" -> DbEq | "ne" -> DbNe
  | "lt" -> DbLt | "gt" -> DbGt | "le" -> DbLe | "ge" -> DbGe | s -> failwith ("binop " ^ s)
let setop_of = function
  | "set" -> DsSet | "add" -> DsAdd | "sub" -> DsSub | "mul" -> DsMul | "div" -> DsDiv | "mod" -> DsMod
  | "xor" -> DsXor | "band" -> DsAnd | "bor" -> DsOr | s -> failwith ("setop " ^ s)
let hs h = cs_of_string (hex_dec h)

let rec expr_of (x : sx) : dsl_expr =
  match x with
  | L [A "n"; A m; A e] -> DeLit (DvNum (z_of_int (int_of_string m), nat_of_int (int_of_string e)))
  | L [A "s"; A h] -> DeLit (DvStr (hs h))
  | L [A "b"; A v] -> DeLit (DvBool (v = "1"))
  | L [A "null"] -> DeLit DvEmpty
  | L [A "var"; A h] -> DeVar (hs h)
  | L [A "this"] -> DeThis | L [A "locals"] -> DeLocals | L [A "globals"] -> DeGlobals
  | L [A "neg"; a] -> DeNeg (expr_of a)
  | L [A "not"; a] -> DeNot (expr_of a)
  | L [A "bin"; A op; a; b] -> DeBin (binop_of op, expr_of a, expr_of b)
  | L [A "in"; a; b] -> DeIn (expr_of a, expr_of b)
  | L [A "nin"; a; b] -> DeNotIn (expr_of a, expr_of b)
  | L [A "and"; a; b] -> DeAnd (expr_of a, expr_of b)
  | L [A "or"; a; b] -> DeOr (expr_of a, expr_of b)
  | L (A "call" :: f :: args) -> DeCall (expr_of f, List.map expr_of args)
  | L (A "arr" :: es) -> DeArray (List.map expr_of es)
  | L (A "dict" :: A inl :: es) -> DeDict ((inl = "1"), List.map expr_of es)
  | L [A "set"; A op; l; r] -> DeSet (setop_of op, expr_of l, expr_of r)
  | L [A "cond"; c; t] -> DeCond (expr_of c, expr_of t, None)
  | L [A "cond"; c; t; f] -> DeCond (expr_of c, expr_of t, Some (expr_of f))
  | L [A "while"; c; b] -> DeWhile (expr_of c, expr_of b)
  | L [A "for"; A k; A v; c; b] -> DeFor (hs k, hs v, expr_of c, expr_of b)
  | L [A "ret"; a] -> DeReturn (expr_of a)
  | L [A "break"] -> DeBreak | L [A "cont"] -> DeContinue
  | L [A "idx"; a; i] -> DeIndex (expr_of a, expr_of i)
  | L [A "throw"; a] -> DeThrow (expr_of a)
  | L [A "try"; a; b] -> DeTry (expr_of a, expr_of b)
  | L [A "func"; L ps; L cs; body] ->
    DeFunc (List.map (function A h -> hs h | _ -> failwith "param") ps,
            List.map (function L [A h; e] -> (hs h, expr_of e) | _ -> failwith "closed") cs,
            expr_of body)
  | L [A "varu"; L imps; A h] -> DeVarU (List.map expr_of imps, hs h)
  | L [A "ref"; a] -> DeRef (expr_of a)
  | L [A "deref"; a] -> DeDeref (expr_of a)
  | L [A "const"; A h; a] -> DeConst (hs h, expr_of a)
  | L [A "nsdef"; b] -> DeNsDef (expr_of b)
  | _ -> failwith "expr_of: bad form"

let loop_budget = nat_of_int 400
let labels = ["res "; "this "; "locals "; "globals "]

let model_lines ast =
  let o = dsl_run loop_budget ast in
  let obs = List.map string_of_cs (dsl_observe o) in
  let res = List.hd obs in
  (* a deterministic crash of the code (recorded finding): the implementation's trace ends with a CRASH line *)
  if res = "abort:cycle" then (res, ["CRASH"])
  else (res, List.map2 (fun l s -> l ^ s) labels obs @ ["det 1"])

let op_dsl_eval a =
  let ast = expr_of (parse_sx (hex_dec (str a "ast" "-"))) in
  let (_, lines) = model_lines ast in
  List.iter emit lines

let hostile_want a = "hostile " ^ str a "want" "ok" ^ (if has a "show" then " " ^ hex_dec (str a "show" "-") else "")
let hostile_expected a =
  if str a "expect" "ok" = "crash" then "CRASH"
  else if has a "bad" then hex_dec (str a "bad" "-")      (* a recorded wrong-outcome finding: on the unchanged tree it reproduces *)
  else if has a "want" then hostile_want a else "hostile ok"
let op_dsl_hostile a = emit (hostile_expected a)
let retry_expected a =
  "retry ok" ^ (if has a "wa" then " a=" ^ str a "wa" "value" else "") ^ (if has a "wb" then " b=" ^ str a "wb" "error" else "")
let op_dsl_retry a = emit (retry_expected a)
let op_dsl_syntax a = emit (Printf.sprintf "syntax %s:%s" (str a "line" "0") (str a "col" "0"))

(* oracle: the property evaluated on the IMPLEMENTATION's trace, case by case *)
let starts p l = String.length l >= String.length p && String.sub l 0 (String.length p) = p
let oracle_c15 script trace =
  let tr = ref trace in
  let err = ref None in
  let fail m = if !err = None then err := Some m in
  let take () = match !tr with [] -> "MISSING" | l :: r -> tr := r; l in
  List.iteri (fun li line ->
    if !err = None then
    match parse_line line with
    | Some ("dsl_eval", a) ->
      let ast = expr_of (parse_sx (hex_dec (str a "ast" "-"))) in
      let o = dsl_run loop_budget ast in
      let res = string_of_cs (dsl_show_res o) in
      let first = take () in
      if is_bad_line first then
        fail (Printf.sprintf "step=%d crash model=%s impl=%s" li res (List.hd (toks_of first)))
      else begin
        let l2 = take () in let l3 = take () in let l4 = take () in let det = take () in
        let strip p l = if starts p l then String.sub l (String.length p) (String.length l - String.length p) else "?" ^ l in
        if List.exists is_bad_line [l2; l3; l4; det] then fail (Printf.sprintf "step=%d crash model=%s impl=late" li res)
        else if det <> "det 1" then fail (Printf.sprintf "step=%d nondeterministic" li)
        else begin
          let observed = [strip "res " first; strip "this " l2; strip "locals " l3; strip "globals " l4] in
          if not (dsl_oracle loop_budget ast (List.map cs_of_string observed)) then
            fail (Printf.sprintf "step=%d value-mismatch model=%s impl=%s" li res (strip "res " first))
        end
      end
    | Some ("dsl_hostile", a) ->
      let l = take () in
      if is_bad_line l then fail (Printf.sprintf "step=%d crash hostile tag=%s mode=%s impl=%s" li (str a "tag" "none") (str a "mode" "main") (List.hd (toks_of l)))
      else if has a "bad" && l = hex_dec (str a "bad" "-") then
        (* a recorded wrong-value finding: the reproducer still yields the value the language reference does not define *)
        fail (Printf.sprintf "step=%d known-wrong-value tag=%s got=%s" li (str a "tag" "none") l)
      else if has a "want" && l <> hostile_want a then
        fail (Printf.sprintf "step=%d hostile-outcome tag=%s want=%s got=%s" li (str a "tag" "none") (str a "want" "ok") l)
      else if not (has a "want") && l <> "hostile ok" then
        fail (Printf.sprintf "step=%d crash hostile tag=%s mode=%s impl=%s" li (str a "tag" "none") (str a "mode" "main") (List.hd (toks_of l)))
    | Some ("dsl_retry", a) ->
      let l = take () in
      if is_bad_line l then fail (Printf.sprintf "step=%d crash hostile tag=retry:%s mode=%s impl=%s" li (str a "tag" "none") (str a "mode" "main") (List.hd (toks_of l)))
      else if starts "retry inconsistent" l then
        fail (Printf.sprintf "step=%d nondeterministic error-then-retry tag=%s mode=%s %s" li (str a "tag" "none") (str a "mode" "main") l)
      else if l <> retry_expected a then
        fail (Printf.sprintf "step=%d hostile-outcome tag=retry:%s want=%s got=%s" li (str a "tag" "none") (retry_expected a) l)
    | Some ("dsl_syntax", a) ->
      let l = take () in
      let want = Printf.sprintf "syntax %s:%s" (str a "line" "0") (str a "col" "0") in
      if is_bad_line l then fail (Printf.sprintf "step=%d crash syntax" li)
      else if l <> want then fail (Printf.sprintf "step=%d syntax-error-location want=%s got=%s" li want l)
    | _ -> ()) script;
  !err

let () =
  register_op "dsl_eval" op_dsl_eval;
  register_op "dsl_hostile" op_dsl_hostile;
  register_op "dsl_syntax" op_dsl_syntax;
  register_op "dsl_retry" op_dsl_retry;
  register_oracle "C15" oracle_c15
