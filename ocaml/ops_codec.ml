(* C20 - wire codecs: the extracted netstring / JSON models behind the same ops as harness/ops_codec.cpp *)
open Model
open Vcore

let bytes_of_string s = List.map (fun c -> z_of_int (Char.code c)) (List.of_seq (String.to_seq s))
let string_of_bytes l = String.init (List.length l) (let a = Array.of_list l in fun i -> Char.chr ((int_of_z a.(i)) land 255))
let hexl l = hex_enc (string_of_bytes l)

(* ---------------- netstring, buffered variant ---------------- *)
let ns_ctx = ref ns_ctx_init
let ns_max = ref (-1)
let ns_dead = ref false

let op_ns_new a = ns_ctx := ns_ctx_init; ns_max := num a "max" (-1); ns_dead := false

let pump_line op chunk =
  if !ns_dead then emit (op ^ " dead") else begin
    let r = ns_feed (z_of_int !ns_max) !ns_ctx chunk in
    ns_ctx := r.ns_ctx_after;
    let err = (match r.ns_error with Some _ -> true | None -> false) in
    if err then ns_dead := true;
    let items = match r.ns_items with [] -> "." | l -> String.concat "," (List.map hexl l) in
    emit (Printf.sprintf "%s items=%s st=%s size=%d" op items (if err then "err" else "need") (List.length (!ns_ctx).ns_buf))
  end

let op_ns_feed a = pump_line "ns_feed" (bytes_of_string (hex_dec (List.hd a.pos)))
let op_ns_wfeed a = pump_line "ns_wfeed" (ns_write (bytes_of_string (hex_dec (List.hd a.pos))))
let op_ns_write a = emit ("ns_write " ^ hexl (ns_write (bytes_of_string (hex_dec (List.hd a.pos)))))

(* ---------------- netstring, buffered variant up to the end of the stream ---------------- *)
let chunks_of a = List.map (fun h -> bytes_of_string (hex_dec h)) (String.split_on_char ',' (List.hd a.pos))
let end_name = function NsEndEof -> "eof" | NsEndErr _ -> "err" | NsEndFuel -> "loop"

(* the model is run with the chunks of the script as fills (whatever the real stream type makes of them:
   C20_ns_eof_chunking_independent) *)
let op_ns_eof a =
  let ((items, e), size) = ns_read_all (z_of_int (num a "max" (-1))) (chunks_of a) in
  let its = match items with [] -> "." | l -> String.concat "," (List.map hexl l) in
  emit (Printf.sprintf "ns_eof items=%s end=%s size=%s sticky=%s" its (end_name e)
          (match e with NsEndEof -> string_of_int (int_of_z size) | _ -> "-") (match e with NsEndEof -> "1" | _ -> "-"))

(* ConfigObject::RestoreObjects: the same loop, no maxMessageLength; an exception of the reader leaves it *)
let ns_restore_line a =
  let ((_, e), _) = ns_read_all (z_of_int (-1)) (chunks_of a) in
  "ns_restore " ^ (match e with NsEndEof -> "done" | NsEndErr _ -> "err" | NsEndFuel -> "hang")
let op_ns_restore a = emit (ns_restore_line a)

(* the real writers on a payload built inside the harness: expectation from the theorems (C20_ns_writer_boundaries) *)
let ns_wbig_line a =
  let n = num a "n" 0 and max = num a "max" (-1) and tls = (str a "via" "buf" = "tls") in
  let hdr = ns_dec (z_of_int n) @ [z_of_int 58] in
  let back = ns_wbig_back tls (z_of_int max) (z_of_int n) in
  Printf.sprintf "ns_wbig hdr=%s total=%d last=2c same=1 back=%d err=%d" (hexl hdr) (List.length hdr + n + 1) (if back then 1 else 0) (if back then 0 else 1)
let op_ns_wbig a = emit (ns_wbig_line a)

(* ---------------- netstring, stream variant ---------------- *)
let nss_run max input =
  (* -> items, end, rest *)
  let rec go acc input =
    match ns_read_stream (z_of_int max) input with
    | NsSOk (p, rest) -> go (p :: acc) rest
    | NsSErr (_, rest) -> (List.rev acc, "err", List.length rest)
    | NsSShort -> (List.rev acc, "short", 0) in
  go [] input

let op_nss_read a =
  let max = num a "max" (-1) in
  let chunks = List.map hex_dec (String.split_on_char ',' (List.hd a.pos)) in
  let input = bytes_of_string (String.concat "" chunks) in
  let (items, e, rest) = nss_run max input in
  let its = match items with [] -> "." | l -> String.concat "," (List.map hexl l) in
  emit (Printf.sprintf "nss_read items=%s end=%s big=0 rest=%d" its e rest)

(* ---------------- JSON ---------------- *)
(* numbers of the data model are binary64; abstraction: integral doubles in [-2^63, 2^64) are the model's integers *)
type jv = float js_value
let z_of_decimal s = js_int_of_tok (bytes_of_string s)
let fprint (f : float) = bytes_of_string (Printf.sprintf "%.17g" f)
let fparse (l : z list) : float option =
  match float_of_string_opt (string_of_bytes l) with
  | Some f when Float.is_finite f -> Some f
  | _ -> None
let num_of_float (d : float) : jv =
  if Float.is_finite d && Float.is_integer d && d >= -9223372036854775808.0 && d < 18446744073709551616.0
  then JsNum (z_of_decimal (Printf.sprintf "%.0f" d)) else JsFlt d
let float_of_z z = float_of_string (string_of_bytes (js_int z))

let parse_value (s : string) : jv =
  let i = ref 0 in
  let peek () = s.[!i] in
  let next () = let c = s.[!i] in incr i; c in
  let hexrun () = let j = ref !i in
    while !j < String.length s && (match s.[!j] with '0'..'9' | 'a'..'f' | 'A'..'F' -> true | _ -> false) do incr j done;
    let r = String.sub s !i (!j - !i) in i := !j; r in
  let rec value () : jv =
    match next () with
    | 'n' -> JsNull | 't' -> JsBool true | 'f' -> JsBool false
    | 'i' -> let j = ref !i in if s.[!j] = '-' then incr j;
      while !j < String.length s && (match s.[!j] with '0'..'9' -> true | _ -> false) do incr j done;
      let t = String.sub s !i (!j - !i) in i := !j; num_of_float (float_of_string t)
    | 'd' -> let h = String.sub s !i 16 in i := !i + 16; num_of_float (Int64.float_of_bits (Int64.of_string ("0x" ^ h)))
    | '"' -> let h = hexrun () in ignore (next ()); JsStr (bytes_of_string (hex_dec (if h = "" then "-" else h)))
    | '[' -> if peek () = ']' then (incr i; JsArr []) else begin
        let acc = ref [] in
        let fin = ref false in
        while not !fin do acc := value () :: !acc; (match next () with ']' -> fin := true | _ -> ()) done;
        JsArr (List.rev !acc) end
    | '{' -> if peek () = '}' then (incr i; JsObj []) else begin
        let acc = ref [] in
        let fin = ref false in
        while not !fin do
          let h = hexrun () in ignore (next ());
          let v = value () in
          acc := js_obj_set (bytes_of_string (hex_dec (if h = "" then "-" else h))) v !acc;
          (match next () with '}' -> fin := true | _ -> ()) done;
        JsObj !acc end
    | c -> failwith (Printf.sprintf "bad value token %c" c) in
  value ()

let rec canon (b : Buffer.t) (v : jv) =
  let hexs l = match l with [] -> "" | _ -> hexl l in
  match v with
  | JsNull -> Buffer.add_char b 'n'
  | JsBool true -> Buffer.add_char b 't'
  | JsBool false -> Buffer.add_char b 'f'
  | JsNum z -> Buffer.add_string b (Printf.sprintf "d%016Lx" (Int64.bits_of_float (float_of_z z)))
  | JsFlt f -> Buffer.add_string b (Printf.sprintf "d%016Lx" (Int64.bits_of_float f))
  | JsStr s -> Buffer.add_char b '"'; Buffer.add_string b (hexs s); Buffer.add_char b '"'
  | JsArr l -> Buffer.add_char b '['; List.iteri (fun i e -> if i > 0 then Buffer.add_char b ','; canon b e) l; Buffer.add_char b ']'
  | JsObj l -> Buffer.add_char b '{';
    List.iteri (fun i (k, e) -> if i > 0 then Buffer.add_char b ','; Buffer.add_string b (hexs k); Buffer.add_char b ':'; canon b e) l;
    Buffer.add_char b '}'
let canon_s v = let b = Buffer.create 64 in canon b v; Buffer.contents b

(* dec=net: JsonDecode (nesting limit of the source); dec=trusted: JsonDecodeTrusted (the decoder of the state file) *)
let lim_of a = if str a "dec" "net" = "trusted" then (match f_js_trusted_max_depth with Some l -> l | None -> None) else f_js_max_depth

let op_js_rt a =
  let v = parse_value (List.hd a.pos) in
  let enc = js_encode fprint v in
  match js_decode fparse (lim_of a) enc with
  | Some back -> emit (Printf.sprintf "js_rt enc=%s dec=%s" (if num a "cmp" 1 <> 0 then hexl enc else "~") (canon_s back))
  | None -> emit "js_rt err"

(* a very long string = a short well-formed pattern repeated: the encoding of the whole is the encoding of the pattern repeated
   (escaping works code point by code point), and the value comes back (C20_json_roundtrip); computed from the model on the pattern *)
let js_long_line a =
  let pat = bytes_of_string (hex_dec (List.hd a.pos)) in
  let reps = num a "reps" 1 in
  let key = (str a "where" "val" = "key") in
  let e1 = js_encode fprint (JsStr pat) in
  let inner = List.length e1 - 2 in
  let whole1 = if key then js_encode fprint (JsObj [(pat, JsNull)]) else e1 in
  let len = List.length whole1 + (reps - 1) * inner in
  (* first 12 bytes of the encoding: prefix of whole1 up to its string body, then the body repeated *)
  let pre = if key then 2 else 1 in
  let body1 = List.filteri (fun i _ -> i >= 1 && i < 1 + inner) e1 in
  let rec take n l = if n = 0 then [] else match l with [] -> [] | x :: t -> x :: take (n - 1) t in
  let rec rep n = if n = 0 then [] else body1 @ rep (n - 1) in
  let tail = List.filteri (fun i _ -> i >= pre + inner) whole1 in
  let full_head = take 12 (take pre whole1 @ rep (min reps 13) @ tail) in
  Printf.sprintf "js_long len=%d head=%s same=1" len (hexl full_head)
let op_js_long a = emit (js_long_line a)

let op_js_dec a =
  match js_decode fparse (lim_of a) (bytes_of_string (hex_dec (List.hd a.pos))) with
  | Some v -> emit ("js_dec ok " ^ canon_s v)
  | None -> emit "js_dec err"

let op_js_msg a =
  match js_decode_message fparse f_js_max_depth (bytes_of_string (hex_dec (List.hd a.pos))) with
  | Some v -> emit ("js_msg ok " ^ canon_s v)
  | None -> emit "js_msg err"

(* JsonRpc::ReadMessage + JsonRpc::DecodeMessage over the TLS stream, as JsonRpcConnection::HandleIncomingMessages runs them *)
let op_nss_msg a =
  let max = num a "max" (-1) in
  let chunks = List.map hex_dec (String.split_on_char ',' (List.hd a.pos)) in
  let input = bytes_of_string (String.concat "" chunks) in
  let (items, e, _) = nss_run max input in
  let its = match items with [] -> "." | l -> String.concat "," (List.map hexl l) in
  let msgs = match items with [] -> "." | l ->
    String.concat ";" (List.map (fun it -> match js_decode_message fparse f_js_max_depth it with Some v -> canon_s v | None -> "E") l) in
  emit (Printf.sprintf "nss_msg items=%s msgs=%s end=%s" its msgs e)

let js_deep_line a =
  let n = num a "n" 1 and close = num a "close" 1 <> 0 and obj = str a "kind" "a" = "o" in
  let b = Buffer.create (n * 6) in
  for _ = 1 to n do Buffer.add_string b (if obj then "{\"a\":" else "[") done;
  if obj then Buffer.add_char b '0';
  if close then for _ = 1 to n do Buffer.add_string b (if obj then "}" else "]") done;
  match js_decode fparse (lim_of a) (bytes_of_string (Buffer.contents b)) with
  | Some v ->
    let rec depth d (v : jv) = match v with
      | JsArr [] -> d + 1 | JsArr (x :: _) -> depth (d + 1) x
      | JsObj l -> (match List.assoc_opt (bytes_of_string "a") l with Some x -> depth (d + 1) x | None -> d + 1)
      | _ -> d in
    Printf.sprintf "js_deep n=%d ok depth=%d" n (depth 0 v)
  | None -> Printf.sprintf "js_deep n=%d err" n
let op_js_deep a = emit (js_deep_line a)

(* ---------------- oracle: the extracted Gallina checks over the implementation's trace ---------------- *)
let feqb (a : float) (b : float) = Int64.bits_of_float a = Int64.bits_of_float b || (a = 0.0 && b = 0.0)
let fint = float_of_z
let items_of s = if s = "." then [] else List.map (fun h -> bytes_of_string (hex_dec h)) (String.split_on_char ',' s)

let oracle_c20 script trace =
  let err = ref None in
  let fail m = if !err = None then err := Some m in
  let tr = ref trace in
  let max = ref (-1) in
  let feeds = ref [] in          (* (chunk, obs) newest first, of the current reader *)
  let frames = ref None in
  let dead = ref false in
  let flush_reader () =
    let fl = List.rev !feeds in
    (match ns_oracle_buffered (z_of_int !max) ns_ctx_init (z_of_int 0) fl with
     | Some idx -> fail (Printf.sprintf "ns-buffered pump=%s differs-from-model" (zs idx))
     | None -> ());
    (match !frames with
     | Some fr -> if not (ns_oracle_frames (z_of_int !max) fr fl) then fail "ns-chunking frames-not-split-exactly"
     | None -> ());
    feeds := []; frames := None; dead := false in
  let take op =
    match !tr with
    | [] -> fail ("missing-observation op=" ^ op); None
    | l :: rest -> tr := rest;
      if is_bad_line l then (fail (Printf.sprintf "crash op=%s :: %s" op l); None) else Some l in
  List.iter (fun line ->
    if !err = None then
    match parse_line line with
    | Some ("ns_new", a) -> flush_reader (); max := num a "max" (-1)
    | Some ("ns_frames", a) -> frames := Some (items_of (List.hd a.pos))
    | Some (("ns_feed" | "ns_wfeed") as op, a) ->
      (match take line with None -> () | Some l ->
        let t = toks_of l in
        if List.nth_opt t 1 = Some "dead" then (if not !dead then fail "ns-buffered dead-without-error")
        else if !dead then fail "ns-buffered read-after-error"
        else begin
          let payload = bytes_of_string (hex_dec (List.hd a.pos)) in
          let chunk = if op = "ns_wfeed" then ns_write payload else payload in
          match tok_val t "items", tok_val t "st", tok_val t "size" with
          | Some it, Some st, Some sz ->
            let o = { nso_items = items_of it; nso_err = (st = "err"); nso_size = z_of_int (int_of_string sz) } in
            if st = "err" then dead := true;
            feeds := (chunk, o) :: !feeds
          | _ -> fail ("ns-buffered malformed-observation " ^ l)
        end)
    | Some ("ns_write", a) ->
      (match take line with None -> () | Some l ->
        let t = toks_of l in
        let got = bytes_of_string (hex_dec (List.nth t 1)) in
        if not (cd_bytes_eqb got (ns_write (bytes_of_string (hex_dec (List.hd a.pos))))) then fail "ns-write differs-from-model")
    | Some ("ns_eof", a) ->
      (match take line with None -> () | Some l ->
        let t = toks_of l in
        let input = List.concat (chunks_of a) in
        (match tok_val t "items", tok_val t "end", tok_val t "size", tok_val t "sticky" with
         | Some it, Some e, Some sz, Some sticky ->
           let code = (match e with "eof" -> 0 | "err" -> 1 | _ -> 2) in
           let num_or s = (match int_of_string_opt s with Some n -> n | None -> -1) in
           if code = 2 then fail (Printf.sprintf "ns-eof no-terminal-status-within-bound mode=%s (caller loop would not end)" (str a "mode" "chunk"))
           else if not (ns_oracle_eof (z_of_int (num a "max" (-1))) input (items_of it) (z_of_int code) (z_of_int (num_or sz)) (z_of_int (num_or sticky)))
           then fail (Printf.sprintf "ns-eof differs-from-model mode=%s" (str a "mode" "chunk"))
         | _ -> fail ("ns-eof malformed-observation " ^ l)))
    | Some ("ns_restore", a) ->
      (match take line with None -> () | Some l ->
        if l <> ns_restore_line a then
          fail (Printf.sprintf "ns-eof RestoreObjects %s expected=%s" (String.concat "_" (List.tl (toks_of l))) (ns_restore_line a)))
    | Some ("ns_wbig", a) ->
      (match take line with None -> () | Some l ->
        let t = toks_of l in
        (match tok_val t "hdr", tok_val t "total", tok_val t "last", tok_val t "same", tok_val t "back", tok_val t "err" with
         | Some h, Some tot, Some la, Some sa, Some b, Some e ->
           let zi s = z_of_int (match int_of_string_opt s with Some n -> n | None -> -1) in
           if not (ns_oracle_wbig (str a "via" "buf" = "tls") (z_of_int (num a "max" (-1))) (z_of_int (num a "n" 0))
                     (bytes_of_string (hex_dec h)) (zi tot) (bytes_of_string (hex_dec la)) (zi sa) (zi b) (zi e))
           then fail (Printf.sprintf "ns-write boundary n=%d via=%s expected=%s" (num a "n" 0) (str a "via" "buf") (ns_wbig_line a))
         | _ -> fail ("ns-write malformed-observation " ^ l)))
    | Some ("nss_read", a) ->
      (match take line with None -> () | Some l ->
        let t = toks_of l in
        let input = bytes_of_string (String.concat "" (List.map hex_dec (String.split_on_char ',' (List.hd a.pos)))) in
        (match tok_val t "items", tok_val t "end", tok_val t "rest", tok_val t "big" with
         | Some it, Some e, Some r, Some big ->
           if big <> "0" then fail "ns-stream allocation-beyond-limit"
           else if not (nss_oracle (z_of_int (num a "max" (-1))) input (items_of it)
                     (z_of_int (if e = "err" then 1 else 0)) (z_of_int (int_of_string r)) (z_of_int 0))
           then fail ("ns-stream differs-from-model " ^ (str a "mode" "sync"))
         | _ -> fail ("ns-stream malformed-observation " ^ l)))
    | Some ("nss_msg", a) ->
      (match take line with None -> () | Some l ->
        let t = toks_of l in
        let input = bytes_of_string (String.concat "" (List.map hex_dec (String.split_on_char ',' (List.hd a.pos)))) in
        (match tok_val t "items", tok_val t "msgs", tok_val t "end" with
         | Some it, Some ms, Some e ->
           let items = items_of it in
           (* framing: complete frames only, then the error / the end - exactly as established for the model *)
           let (fs, e', _) = nss_run (num a "max" (-1)) input in
           if not (cd_frames_eqb fs items) || e <> e' then
             fail (Printf.sprintf "ns-stream message-framing differs-from-model %s close=%s" (str a "mode" "sync") (str a "close" "clean"))
           else begin
             let ml = if ms = "." then [] else String.split_on_char ';' ms in
             if List.length ml <> List.length items then fail "ns-stream message-count differs-from-frames"
             else List.iter2 (fun it m ->
               let dec = if m = "E" then None else (try Some (parse_value m) with _ -> None) in
               if m <> "E" && dec = None then fail ("json-message malformed-observation " ^ m)
               else if not (js_oracle_msg fparse f_js_max_depth feqb fint it dec) then fail "json-message over-stream differs-from-model") items ml
           end
         | _ -> fail ("ns-stream malformed-observation " ^ l)))
    | Some ("js_rt", a) ->
      (match take line with None -> () | Some l ->
        let t = toks_of l in
        let v = parse_value (List.hd a.pos) in
        let dec = match tok_val t "dec" with Some c -> (try Some (parse_value c) with _ -> None) | None -> None in
        if not (js_oracle_rt feqb fint v dec) then fail "json-roundtrip decoded-value-differs")
    | Some ("js_long", a) ->
      (match take line with None -> () | Some l ->
        if l <> js_long_line a then fail (Printf.sprintf "json-roundtrip long-string reps=%d where=%s expected=%s got=%s" (num a "reps" 1) (str a "where" "val") (js_long_line a) l))
    | Some ("js_dec", a) ->
      (match take line with None -> () | Some l ->
        let t = toks_of l in
        let dec = match t with _ :: "ok" :: c :: _ -> (try Some (parse_value c) with _ -> None) | _ -> None in
        let malformed = (match t with _ :: "ok" :: _ :: _ -> false | [_; "err"] -> false | _ -> true) in
        if malformed then fail ("json-decode malformed-observation " ^ l)
        else if not (js_oracle_dec fparse (lim_of a) feqb fint (bytes_of_string (hex_dec (List.hd a.pos))) dec) then fail (Printf.sprintf "json-decode differs-from-model dec=%s" (str a "dec" "net")))
    | Some ("js_msg", a) ->
      (match take line with None -> () | Some l ->
        let t = toks_of l in
        let dec = match t with _ :: "ok" :: c :: _ -> (try Some (parse_value c) with _ -> None) | _ -> None in
        if not (js_oracle_msg fparse f_js_max_depth feqb fint (bytes_of_string (hex_dec (List.hd a.pos))) dec) then fail "json-message differs-from-model")
    | Some ("js_deep", a) ->
      (* exact: up to the nesting limit of the source the document is decoded, beyond it it is rejected; never a crash *)
      (match take line with None -> () | Some l ->
        let t = toks_of l in
        let crashed = (match t with _ :: _ :: "crash" :: _ -> true | _ -> false) in
        if crashed then fail (Printf.sprintf "crash op=%s :: CRASH in isolated child (%s)" line l)
        else if l <> js_deep_line a then
          fail (Printf.sprintf "json-deep %s expected=%s" (if num a "n" 1 <= 64 then "nesting-within-64-not-decoded" else "nesting-limit-not-enforced-exactly") (js_deep_line a)))
    | _ -> ()) script;
  if !err = None then flush_reader ();
  !err

let () =
  register_op "ns_new" op_ns_new;
  register_op "ns_feed" op_ns_feed;
  register_op "ns_wfeed" op_ns_wfeed;
  register_op "ns_write" op_ns_write;
  register_op "ns_frames" (fun _ -> ());
  register_op "ns_eof" op_ns_eof;
  register_op "ns_restore" op_ns_restore;
  register_op "ns_wbig" op_ns_wbig;
  register_op "nss_read" op_nss_read;
  register_op "nss_msg" op_nss_msg;
  register_op "js_rt" op_js_rt;
  register_op "js_long" op_js_long;
  register_op "js_dec" op_js_dec;
  register_op "js_msg" op_js_msg;
  register_op "js_deep" op_js_deep;
  register_oracle "C20" oracle_c20
