open Model
open Vcore

(* ---------------- C03 notification fixture: glue between scripts and the extracted model ---------------- *)
type nf_ustat = { us_id : int; us_types : int; us_states : int; us_per : bool }

type nf_fix = {
  mutable fx_cfg : nf_cfg;
  mutable fx_st : nf_state;
  mutable fx_ctx : nf_ctx;
  mutable fx_users : nf_ustat list;
  mutable fx_direct : int list;
  mutable fx_group : int list option;
  mutable fx_per : bool;
}

let nf_type_of_bit = function
  | 1 -> NfDowntimeStart | 2 -> NfDowntimeEnd | 4 -> NfDowntimeRemoved | 8 -> NfCustom | 16 -> NfAck
  | 32 -> NfProblem | 64 -> NfRecovery | 128 -> NfFlapStart | 256 -> NfFlapEnd
  | n -> failwith ("bad notification type " ^ string_of_int n)

let id_list s = if s = "-" || s = "" then [] else List.map int_of_string (String.split_on_char ',' s)
let opt_num a k = let v = str a k "-" in if v = "-" then None else Some (z_of_int (int_of_string v))

let nf_default_ctx = {
  cx_users = []; cx_raw = Z0; cx_hard = true; cx_lhsc = Z0; cx_volatile = false; cx_glob_en = true; cx_ck_en = true;
  cx_downtime = false; cx_acked = false; cx_reachable = true; cx_flapping = false; cx_ck_supp_problem = false;
  cx_paused = false; cx_ha = false; cx_auth = true; cx_per_closed = false; cx_has_cr = false; cx_cr_ok = false; cx_soon = false }

let nf_cfg_of a = {
  nfc_svc = (str a "kind" "host" = "svc"); nfc_interval = z_of_int (num a "interval" 1800);
  nfc_types = z_of_int (num a "types" (-1)); nfc_states = z_of_int (num a "states" (-1));
  nfc_begin = opt_num a "begin"; nfc_end = opt_num a "end" }

let nf_users_of a =
  let nu = num a "nu" 1 in
  List.init nu (fun i ->
    let i = i + 1 in
    match String.split_on_char ':' (str a ("u" ^ string_of_int i) "-1:-1:0") with
    | [t; s; p] -> { us_id = i; us_types = int_of_string t; us_states = int_of_string s; us_per = (int_of_string p <> 0) }
    | _ -> failwith "bad user spec")

let nf_ctx_of fx a =
  let en = id_list (str a "uen" "-") and cl = id_list (str a "ucl" "-") in
  let mk (u : nf_ustat) = { nfu_id = z_of_int u.us_id; nfu_enable = List.mem u.us_id en; nfu_types = z_of_int u.us_types;
                            nfu_states = z_of_int u.us_states; nfu_per_closed = u.us_per && List.mem u.us_id cl } in
  let pick ids = List.map mk (List.filter (fun (u : nf_ustat) -> List.mem u.us_id ids) fx.fx_users) in
  let direct = List.concat_map (fun i -> pick [i]) fx.fx_direct in
  let groups = match fx.fx_group with None -> [] | Some g -> [pick g] in
  let cr = num a "cr" (-1) in
  { cx_users = nf_all_users direct groups;
    cx_raw = z_of_int (num a "raw" 0); cx_hard = (num a "hard" 1 <> 0); cx_lhsc = z_of_int (tnum (str a "lhsc" "0"));
    cx_volatile = (num a "vol" 0 <> 0); cx_glob_en = (num a "gen" 1 <> 0); cx_ck_en = (num a "cen" 1 <> 0);
    cx_downtime = (num a "dt" 0 <> 0); cx_acked = (num a "ack" 0 <> 0); cx_reachable = (num a "reach" 1 <> 0);
    cx_flapping = (num a "flap" 0 <> 0); cx_ck_supp_problem = (num a "cks" 0 <> 0); cx_paused = (num a "paused" 0 <> 0);
    cx_ha = (num a "ha" 0 <> 0); cx_auth = (num a "auth" 1 <> 0); cx_per_closed = fx.fx_per && (num a "per" 0 <> 0);
    cx_has_cr = (cr >= 0); cx_cr_ok = (cr = 1); cx_soon = (num a "soon" 0 <> 0) }

let nf_new_fix a =
  let fx = { fx_cfg = nf_cfg_of a; fx_st = nf_init; fx_ctx = nf_default_ctx; fx_users = nf_users_of a;
             fx_direct = id_list (str a "du" "-");
             fx_group = (if str a "g" "-" = "-" then None else Some (id_list (str a "g" "-")));
             fx_per = (num a "per" 0 <> 0) } in
  fx

let nf_fx = ref (nf_new_fix { pos = []; kv = [] })

let join sep f l = String.concat sep (List.map f l)
let dash s = if s = "" then "-" else s
let sorted_ids l = List.sort compare (List.map int_of_z l)

let nf_ev_tokens evs =
  List.concat_map (function
    | NfEvDrop _ -> []
    | NfEvExec e ->
      (if e.ne_type = NfRecovery then ["C"] else [])
      @ (if e.ne_reached then
           [Printf.sprintf "D%s:%s" (zs (nf_type_bit e.ne_type))
              (match sorted_ids e.ne_sent with [] -> "0" | l -> join "+" string_of_int l)]
         else [])) evs

let nf_state_line (s : nf_state) =
  Printf.sprintf "npu=%s lns=%s next=%s nm=%d num=%s last=%s lp=%s sup=%s stash=%s"
    (dash (join "," string_of_int (sorted_ids s.nf_npu)))
    (dash (join "," (fun (k, v) -> Printf.sprintf "%d:%d" k v)
             (List.sort compare (List.map (fun (k, v) -> (int_of_z k, int_of_z v)) s.nf_lns))))
    (zs s.nf_next) (if s.nf_nomore then 1 else 0) (zs s.nf_number) (zs s.nf_last) (zs s.nf_last_problem)
    (zs (nf_supp_mask s.nf_sup))
    (dash (join "," (fun h -> zs (nf_type_bit h.sh_type) ^ (if h.sh_force then "f" else "n")) s.nf_stash))

let nf_line name (s, evs) =
  let cmd = List.concat_map (function
    | NfEvExec e when e.ne_reached -> List.map (fun u -> zs (nf_type_bit e.ne_type) ^ ":" ^ zs u) e.ne_sent
    | _ -> []) evs in
  let cmd = List.sort compare cmd in
  Printf.sprintf "%s ev=%s cmd=%s calls=%d %s" name (dash (String.concat "," (nf_ev_tokens evs)))
    (dash (String.concat "," cmd)) (List.length cmd) (nf_state_line s)

let nf_do name o =
  let fx = !nf_fx in
  let r = nf_step fx.fx_cfg fx.fx_st o in
  fx.fx_st <- fst r;
  emit (nf_line (match o with NfRequest (_, _, ty, _) -> name ^ " rq=" ^ zs (nf_type_bit ty) | _ -> name) r)

(* ---------------- oracle: the extracted statement of C03 over the IMPLEMENTATION's observations ---------------- *)
let nf_parse_evs s =
  if s = "-" then [] else
  List.map (fun t ->
    if t = "C" then NfoClr
    else begin
      let body = String.sub t 1 (String.length t - 1) in
      match String.split_on_char ':' body with
      | [ty; us] ->
        let ids = if us = "0" then [] else List.map (fun x -> z_of_int (int_of_string x)) (String.split_on_char '+' us) in
        NfoDone (nf_type_of_bit (int_of_string ty), ids)
      | _ -> failwith ("bad event token " ^ t)
    end) (String.split_on_char ',' s)

let oracle_c03_case script trace =
  let fx = ref (nf_new_fix { pos = []; kv = [] }) in
  let now = ref 0 in
  let steps = ref [] in
  let err = ref None in
  let tr = ref trace in
  let fail m = if !err = None then err := Some m in
  List.iteri (fun li line ->
    match parse_line line with
    | Some ("nf_new", a) -> fx := nf_new_fix a
    | Some ("nf_ctx", a) -> (!fx).fx_ctx <- nf_ctx_of !fx a
    | Some ("now", a) -> now := tnum (List.hd a.pos)
    | Some (("nf_req" | "nf_tick") as opn, a) ->
      (match !tr with
       | [] -> fail (Printf.sprintf "step=%d missing-observation" li)
       | l :: rest ->
         tr := rest;
         if is_bad_line l then fail (Printf.sprintf "step=%d crash %s" li l) else begin
           let t = toks_of l in
           if List.hd t <> opn then fail (Printf.sprintf "step=%d missing-observation (got %s)" li (List.hd t)) else begin
           let get k = match tok_val t k with Some v -> v | None -> "-" in
           let op = if opn = "nf_req"
             then NfRequest (z_of_int !now, (!fx).fx_ctx, nf_type_of_bit (num a "type" 32), num a "force" 0 <> 0)
             else NfTick (z_of_int !now, (!fx).fx_ctx) in
           let sup = try int_of_string (get "sup") with _ -> 0 in
           let stash = if get "stash" = "-" then [] else
             List.map (fun t ->
               let n = String.length t in
               { sh_type = nf_type_of_bit (int_of_string (String.sub t 0 (n - 1))); sh_force = (t.[n - 1] = 'f'); sh_reminder = false })
               (String.split_on_char ',' (get "stash")) in
           steps := { os_op = op; os_evs = nf_parse_evs (get "ev"); os_stash = stash;
                      os_sup_problem = (sup land 32 <> 0) } :: !steps
           end
         end)
    | _ -> ()) script;
  match !err with
  | Some m -> Some m
  | None ->
    (match nf_oracle (!fx).fx_cfg (List.rev !steps) with
     | (Some (idx, code), _) -> Some (Printf.sprintf "op=%s rule=%s class=delivery-rule" (zs idx) (zs code))
     | (None, Some (idx, code)) ->
       Some (Printf.sprintf "op=%s class=%s" (zs idx) (if int_of_z code = 101 then "nomore-reset" else "unknown-finding-code"))
     | (None, None) -> None)

let () =
  register_op "nf_new" (fun a -> nf_fx := nf_new_fix a);
  register_op "nf_ctx" (fun a -> let fx = !nf_fx in fx.fx_ctx <- nf_ctx_of fx a);
  register_op "nf_req" (fun a ->
    let fx = !nf_fx in
    nf_do "nf_req" (NfRequest (z_of_int !now, fx.fx_ctx, nf_type_of_bit (num a "type" 32), num a "force" 0 <> 0)));
  register_op "nf_tick" (fun _ -> let fx = !nf_fx in nf_do "nf_tick" (NfTick (z_of_int !now, fx.fx_ctx)));
  register_oracle "C03" oracle_c03_case
