(* C06: glue between implementation traces and the extracted Gallina oracle CkAckObs.cka_oracle.
   Parses the script (the operations = inputs) and the implementation's observation lines into
   (now, cka_op, cka_obs) triples; everything that decides is in Gallina. *)
open Model
open Vcore

let cka_sstate_of_int = function 0 -> SOK | 1 -> SWarning | 2 -> SCritical | _ -> SUnknown

(* script line -> operation (same syntax as ops_ckfull.ml; kept separate so that link order does not matter) *)
let cka_parse_op now name (a : args) : cka_op option =
  let b k = num a k 0 <> 0 in
  let z k = z_of_int (if has a k then tnum (str a k "0") else 0) in
  let base o = Some (CkaBase o) in
  match name with
  | "crf" ->
    let t k = z_of_int (if has a k then tnum (str a k "0") else now) in
    base (OpResult { r_state = cka_sstate_of_int (num a "state" 0); r_start = t "start"; r_end = t "end" })
  | "parent" -> base (OpParent (b "up"))
  | "ack" ->
    (match str a "via" "api" with
     | "cluster" -> Some (CkaClusterSet (b "sticky", b "notify", z "expiry"))
     | v -> let v = (match v with "api" -> ViaApi | "ext" -> ViaExt | _ -> ViaExtExpire) in
       base (OpAck (v, b "sticky", b "notify", b "pers", b "eg", z "expiry")))
  | "unack" -> if str a "via" "api" = "cluster" then Some CkaClusterClear else base OpUnack
  | "ackread" -> base OpAckRead
  | "cmtimer" -> base OpCommentTimer
  | "dt_add" -> base (OpDtAdd (z "id", b "fixed", z "start", z "end", z "dur", z "trig", z "parent", b "owned"))
  | "dt_remove" ->
    let r = match str a "reason" "user" with "expired" -> RExpired | "owner" -> RByOwner | _ -> RByUser in
    base (OpDtRemove (z "id", b "children", r))
  | "dt_starttimer" -> base OpDtStartTimer
  | "dt_cleanup" -> base (OpDtCleanup (z "id"))
  | "fire" -> base OpFire
  | "pause" -> base (OpPause (b "p"))
  | "nextcheck" -> base (OpNextCheck (z "t"))
  | _ -> None

let cka_code_text = function
  | 10 -> "rejected-result-moved-acknowledgement"
  | 20 -> "acknowledgement-attribute-after-result"
  | 21 -> "expired-acknowledgement-survived-result"
  | 22 -> "cleared-by-result-without-state-change"
  | 23 -> "normal-acknowledgement-survived-state-change"
  | 24 -> "sticky-acknowledgement-cleared-by-problem-state-change"
  | 25 -> "sticky-acknowledgement-survived-recovery"
  | 26 -> "expiry-attribute-after-result"
  | 27 -> "cleared-event-count-after-result"
  | 28 -> "set-or-notification-event-during-result"
  | 29 -> "acknowledgement-comments-after-result"
  | 30 -> "problem-notification-while-acknowledged"
  | 40 -> "refused-acknowledgement-changed-something"
  | 41 -> "acknowledgement-of-ok-object-accepted"
  | 42 -> "acknowledgement-with-past-expiry-accepted"
  | 43 -> "double-acknowledgement-accepted"
  | 44 -> "accepted-acknowledgement-type"
  | 45 -> "accepted-acknowledgement-expiry-attribute"
  | 46 -> "set-event-count"
  | 47 -> "acknowledgement-notification-count"
  | 48 -> "cleared-event-count"
  | 49 -> "acknowledgement-comment"
  | 50 -> "acknowledgement-wrongly-refused"
  | 60 -> "remove-acknowledgement-still-set"
  | 61 -> "remove-acknowledgement-cleared-event-count"
  | 62 -> "remove-acknowledgement-comments"
  | 63 -> "remove-acknowledgement-other-events"
  | 70 -> "read-value"
  | 71 -> "read-expiry"
  | 72 -> "handled"
  | 73 -> "read-other-effects"
  | 80 -> "comment-timer"
  | 90 -> "unrelated-operation-moved-acknowledgement"
  | n -> "code-" ^ string_of_int n

let cka_count_tok toks t = List.length (List.filter (fun x -> x = t) toks)
let cka_count_pfx toks p =
  let n = String.length p in
  List.length (List.filter (fun x -> String.length x >= n && String.sub x 0 n = p) toks)

let cka_parse_cms s : cka_cm list =
  if s = "-" || s = "" then [] else
    List.map (fun c ->
      match String.split_on_char '/' c with
      | [e; p; x] -> ((z_of_int (tnum e), p <> "0"), z_of_int (tnum x))
      | _ -> failwith ("bad comment token " ^ c)) (String.split_on_char ',' s)

let cka_obs_of_line l : cka_obs =
  let t = toks_of l in
  let geti k = match tok_val t k with Some v -> tnum v | None -> failwith ("missing field " ^ k ^ " in: " ^ l) in
  let opti k = match tok_val t k with Some v -> tnum v | None -> 0 in
  { ko_st = z_of_int (geti "st"); ko_ack = z_of_int (geti "ack"); ko_exp = z_of_int (geti "exp");
    ko_cms = cka_parse_cms (match tok_val t "cms" with Some v -> v | None -> failwith "missing cms");
    ko_nset = z_of_int (cka_count_pfx t "ackset="); ko_settype = z_of_int (opti "ackset");
    ko_nclr = z_of_int (cka_count_tok t "ackclr");
    ko_nnack = z_of_int (cka_count_tok t "nr=16"); ko_nprob = z_of_int (cka_count_tok t "nr=32");
    ko_ref = z_of_int (opti "ref");
    ko_read = z_of_int (opti "a"); ko_handled = (opti "handled" <> 0); ko_depth = z_of_int (opti "depth") }

let oracle_c06_case script trace =
  let kind = ref KHost in
  let now = ref 0 in
  let steps = ref [] in         (* newest first: ((now, op), obs), script line index *)
  let lines = ref [] in
  let err = ref None in
  let tr = ref trace in
  let fail m = if !err = None then err := Some m in
  List.iteri (fun li line ->
    if !err = None then
    match parse_line line with
    | Some ("ckf_new", a) -> kind := (if str a "kind" "host" = "svc" then KService else KHost)
    | Some ("now", a) -> now := tnum (List.hd a.pos)
    | Some (name, a) ->
      (match cka_parse_op !now name a with
       | None -> ()
       | Some o ->
         (match !tr with
          | [] -> fail (Printf.sprintf "line=%d missing-observation" li)
          | l :: rest ->
            tr := rest;
            if is_bad_line l then fail (Printf.sprintf "line=%d crash %s" li l)
            else if (match toks_of l with t0 :: _ -> t0 <> name | [] -> true) then
              fail (Printf.sprintf "line=%d observation-out-of-step %s" li l)
            else
              (try
                 steps := ((z_of_int !now, o), cka_obs_of_line l) :: !steps;
                 lines := (li, line) :: !lines
               with Failure m -> fail (Printf.sprintf "line=%d unparsable-observation %s" li m))))
    | None -> ()) script;
  (match !tr with
   | l :: _ when !err = None && is_bad_line l -> fail ("crash " ^ l)
   | _ -> ());
  match !err with
  | Some m -> Some m
  | None ->
    let (known, bad) = cka_oracle !kind (List.rev !steps) in
    (match bad with
     | Some (idx, code) ->
       let i = int_of_z idx in
       let (li, line) = List.nth (List.rev !lines) i in
       Some (Printf.sprintf "%s step=%d line=%d op=[%s]" (cka_code_text (int_of_z code)) i li line)
     | None -> if known then Some "cluster-ok-accepted acknowledgement-set cluster event accepted for an OK/Up object" else None)

let () = register_oracle "C06" oracle_c06_case
