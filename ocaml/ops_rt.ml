open Model
open Vcore

(* ---------------- C11 cluster routing ---------------- *)
let rec nat_of_int n = if n <= 0 then O else S (nat_of_int (n - 1))
let rec int_of_nat = function O -> 0 | S n -> 1 + int_of_nat n
let onat = function None -> None | Some n -> Some (nat_of_int n)

let rt_cfg_ref : rt_zone list ref = ref []
let rt_zones_int : (int option * bool * int list) list ref = ref []

let id_list s = if s = "-" || s = "" then [] else List.map int_of_string (String.split_on_char '.' s)
let opt_id s = if s = "-" || s = "" then None else Some (int_of_string s)

let rt_parse_topo a =
  let rec go z acc =
    let k = "z" ^ string_of_int z in
    if not (has a k) then List.rev acc else
    match String.split_on_char ',' (str a k "") with
    | [p; g; eps] -> go (z + 1) ((opt_id p, g = "g", id_list eps) :: acc)
    | _ -> failwith "bad zone spec" in
  go 0 []

let rt_cfg_of zones =
  List.map (fun (p, g, eps) -> { rt_zparent = onat p; rt_zglobal = g; rt_zeps = List.map nat_of_int eps }) zones

let op_rt_topo a =
  let zs = rt_parse_topo a in
  rt_zones_int := zs; rt_cfg_ref := rt_cfg_of zs

let ep_name e = Printf.sprintf "e%03d" e
let zone_of_int zones e =
  let rec go i = function [] -> -1 | (_, _, eps) :: r -> if List.mem e eps then i else go (i + 1) r in go 0 zones

let canon zones lz eps =
  let locals = List.filter (fun e -> zone_of_int zones e = lz) eps in
  let foreign = List.filter (fun e -> zone_of_int zones e <> lz) eps in
  let zs = List.sort_uniq compare (List.map (zone_of_int zones) foreign) in
  let parts = List.map ep_name locals @
              List.map (fun z -> Printf.sprintf "z%d*%d" z (List.length (List.filter (fun e -> zone_of_int zones e = z) foreign))) zs in
  match List.sort compare parts with [] -> "-" | l -> String.concat "," l

let names eps = match List.sort compare eps with [] -> "-" | l -> String.concat "." (List.map string_of_int l)

(* the inputs of one step as the model sees them *)
type rt_step_in = { s_me : int; s_lz : int; s_conn : int list; s_origin : rt_origin; s_fz : string;
                    s_target : int; s_log : bool }

let rt_step_input zones cfg a =
  let me = num a "me" 0 in
  let lz = zone_of_int zones me in
  let conn = id_list (str a "conn" "-") in
  let via = str a "via" "local" in
  let oz = opt_id (str a "oz" "-") in
  let origin =
    match via with
    | "local" -> { rt_ofrom = None; rt_ozone = None }
    | "anon" -> rt_recv_origin cfg (nat_of_int lz) None (onat oz)
    | "direct" -> { rt_ofrom = Some (nat_of_int (num a "from" 0)); rt_ozone = onat oz }
    | _ -> rt_recv_origin cfg (nat_of_int lz) (Some (nat_of_int (num a "from" 0))) (onat oz) in
  let fz = match origin.rt_ozone with None -> "-" | Some z -> "z" ^ string_of_int (int_of_nat z) in
  let target = match opt_id (str a "tz" "-") with None -> lz | Some t -> t in
  { s_me = me; s_lz = lz; s_conn = conn; s_origin = origin; s_fz = fz; s_target = target; s_log = (num a "log" 1 <> 0) }

let op_rt_step a =
  let zones = !rt_zones_int and cfg = !rt_cfg_ref in
  let i = rt_step_input zones cfg a in
  let ord z = (List.nth_opt cfg (int_of_nat z) |> function Some zr -> zr.rt_zeps | None -> []) in
  let r = rt_relay cfg (nat_of_int i.s_me) (nat_of_int i.s_lz) (List.map nat_of_int i.s_conn) i.s_origin ord
            (nat_of_int i.s_target) i.s_log in
  let sent = List.map int_of_nat r.rt_sends and skipped = List.map int_of_nat r.rt_skipped in
  let ozout = if sent = [] then "-" else (match r.rt_oz_out with None -> "-" | Some z -> "z" ^ string_of_int (int_of_nat z)) in
  emit (Printf.sprintf "rt fz=%s sent=%s skip=%s persist=%d ozout=%s dup=0 stale=0 bad=0" i.s_fz
          (canon zones i.s_lz sent) (canon zones i.s_lz skipped) (if r.rt_persist then 1 else 0) ozout);
  emit (Printf.sprintf "rtd sent=%s skip=%s persist=%d" (names sent) (names skipped) (if r.rt_persist then 1 else 0))


(* Zone::OnAllConfigLoaded in a given activation order *)
let rtl_line cfg order =
  match rt_load cfg (List.map nat_of_int order) with
  | None -> "rtl error"
  | Some res ->
    "rtl" ^ String.concat "" (List.map (fun (z, (p, all)) ->
      Printf.sprintf " z%d=%s:%s" (int_of_nat z)
        (match p with None -> "-" | Some q -> string_of_int (int_of_nat q))
        (match all with [] -> "-" | l -> String.concat "." (List.map (fun x -> string_of_int (int_of_nat x)) l))) res)

let op_rt_reload a = emit (rtl_line !rt_cfg_ref (id_list (str a "order" "-")))


(* ---------------- the network: a complete multi-hop run (op rt_net) ---------------- *)
let parse_links s =
  if s = "-" || s = "" then [] else
  List.map (fun p -> match String.split_on_char '-' p with
                     | [a; b] -> (int_of_string a, int_of_string b)
                     | _ -> failwith "bad link") (String.split_on_char '.' s)
let nat_links l = List.map (fun (a, b) -> (nat_of_int a, nat_of_int b)) l

let op_rt_net a =
  let cfg = !rt_cfg_ref in
  let s = num a "s" 0 and tz = num a "tz" 0 in
  let links = nat_links (parse_links (str a "links" "-")) in
  let ((k, proc), left) = rt_net_model cfg links (nat_of_int tz) (nat_of_int s) in
  emit "rtn done";
  emit (Printf.sprintf "rtnd deliv=%d left=%d proc=%s" (int_of_nat k) (int_of_nat left)
          (match List.rev_map int_of_nat proc with [] -> "-" | l -> String.concat "." (List.map string_of_int l)))

let oracle_rt_net cfg li a l1 l2 fail =
  let t1 = toks_of l1 and t2 = toks_of l2 in
  let get t k = match tok_val t k with Some v -> v | None -> "?" in
  if l1 <> "rtn done" || List.hd t2 <> "rtnd" then fail (Printf.sprintf "step=%d net-run-aborted [%s] [%s]" li l1 l2) else begin
    let s = num a "s" 0 and tz = num a "tz" 0 in
    let links = nat_links (parse_links (str a "links" "-")) in
    let deliv = int_of_string (get t2 "deliv") and left = int_of_string (get t2 "left") in
    let proc = id_list (get t2 "proc") in
    if left <> 0 then fail (Printf.sprintf "step=%d net-not-quiescent deliv=%d left=%d" li deliv left) else begin
      if not (rt_net_pre_b cfg (nat_of_int tz)) then fail (Printf.sprintf "step=%d generator-precondition" li);
      let k = int_of_nat (rt_net_oracle cfg links (nat_of_int tz) (nat_of_int s) (nat_of_int deliv) (List.map nat_of_int proc)) in
      if k <> 0 then
        fail (Printf.sprintf "step=%d netclause=%d %s deliv=%d proc=%s" li k
                (match k with 1 -> "net-processed-twice" | 2 -> "net-too-many-deliveries" | _ -> "net-incomplete")
                deliv (get t2 "proc"))
    end
  end

(* ---------------- several events in one network (op rt_netm) ---------------- *)
let op_rt_netm _ = emit "rtm done"

(* per EVENT the network oracle of the single-event theorems (claimed when the clock never ran backwards: then
   C11_net_multi_event_complete says nothing is dropped and every event's share is a single-event run), and over the
   delivery log the rule "the handler did not run iff ts < the sender's remote log position" (rt_log_ok) *)
let oracle_rt_netm cfg li a lines fail =
  let get t k = match tok_val t k with Some v -> v | None -> "?" in
  match lines with
  | l1 :: l2 :: evl when l1 = "rtm done" && List.hd (toks_of l2) = "rtmd" ->
    let t2 = toks_of l2 in
    let tz = num a "tz" 0 in
    let links = nat_links (parse_links (str a "links" "-")) in
    let tso = id_list (str a "ts" "-") in
    let rec nondecr = function x :: (y :: _ as r) -> x <= y && nondecr r | _ -> true in
    let mono = nondecr tso in
    let left = int_of_string (get t2 "left") in
    let log = if get t2 "log" = "-" then [] else
      List.map (fun e -> match String.split_on_char '-' e with
                         | [f; t; _; ts; h] -> ((nat_of_int (int_of_string f), nat_of_int (int_of_string t)),
                                                (nat_of_int (int_of_string ts), nat_of_int (int_of_string h)))
                         | _ -> failwith "bad log entry") (String.split_on_char '.' (get t2 "log")) in
    if left <> 0 then fail (Printf.sprintf "step=%d net-not-quiescent left=%d" li left) else begin
      if not (rt_net_pre_b cfg (nat_of_int tz)) then fail (Printf.sprintf "step=%d generator-precondition" li);
      if not (rt_log_ok log) then
        fail (Printf.sprintf "step=%d multi-event-stale-rule (handler ran / did not run against ts < remote log position) log=%s" li (get t2 "log"));
      if mono then
        List.iter (fun l ->
          let t = toks_of l in
          if List.hd t <> "rtme" then fail (Printf.sprintf "step=%d malformed-observation" li) else begin
            let s = int_of_string (get t "s") and deliv = int_of_string (get t "deliv") in
            let proc = id_list (get t "proc") in
            let k = int_of_nat (rt_net_oracle cfg links (nat_of_int tz) (nat_of_int s) (nat_of_int deliv) (List.map nat_of_int proc)) in
            if k <> 0 then
              fail (Printf.sprintf "step=%d netclause=%d multi-event-%s ev=%s ts=%s s=%d deliv=%d proc=%s" li k
                      (match k with 1 -> "processed-twice" | 2 -> "too-many-deliveries" | _ -> "incomplete")
                      (get t "ev") (str a "ts" "-") s deliv (get t "proc"))
          end) evl
    end
  | _ -> fail (Printf.sprintf "step=%d net-run-aborted" li)

(* oracle: the Gallina check [rt_oracle] over every observed step of the IMPLEMENTATION trace *)
let oracle_c11_case script trace =
  let zones = ref [] and cfg = ref [] in
  let tr = ref trace in
  let err = ref None in
  let fail m = if !err = None then err := Some m in
  List.iteri (fun li line ->
    match parse_line line with
    | Some ("rt_topo", a) -> zones := rt_parse_topo a; cfg := rt_cfg_of !zones
    | Some ("rt_reload", a) ->
      (match !tr with
       | l :: rest ->
         tr := rest;
         if is_bad_line l then fail (Printf.sprintf "step=%d crash %s" li l) else begin
         (* every zone must end up with its parent and the full ancestor chain rt_all_parents, whatever the order *)
         let order = id_list (str a "order" "-") in
         let want = "rtl" ^ String.concat "" (List.map (fun z ->
           let zn = nat_of_int z in
           let p = (match List.nth_opt !cfg z with Some zr -> zr.rt_zparent | None -> None) in
           Printf.sprintf " z%d=%s:%s" z (match p with None -> "-" | Some q -> string_of_int (int_of_nat q))
             (match rt_all_parents !cfg zn with [] -> "-" | l -> String.concat "." (List.map (fun x -> string_of_int (int_of_nat x)) l))) order) in
         if l <> want then fail (Printf.sprintf "step=%d ancestor-chain got=[%s] want=[%s]" li l want) end
       | [] -> fail (Printf.sprintf "step=%d missing-observation" li))
    | Some ("rt_net", a) ->
      (match !tr with
       | l1 :: l2 :: rest when not (is_bad_line l1) && not (is_bad_line l2) ->
         tr := rest; oracle_rt_net !cfg li a l1 l2 fail
       | l1 :: _ when is_bad_line l1 -> fail (Printf.sprintf "step=%d crash %s" li l1); tr := []
       | _ -> fail (Printf.sprintf "step=%d missing-observation" li); tr := [])
    | Some ("rt_netm", a) ->
      let n = List.length (id_list (str a "s" "-")) + 2 in
      let rec take k l = if k = 0 then ([], l) else match l with [] -> ([], []) | x :: r -> let (a, b) = take (k - 1) r in (x :: a, b) in
      (match !tr with
       | l1 :: _ when is_bad_line l1 -> fail (Printf.sprintf "step=%d crash %s" li l1); tr := []
       | _ ->
         let (mine, rest) = take n !tr in
         if List.length mine < n || List.exists is_bad_line mine then begin
           fail (Printf.sprintf "step=%d %s" li (if List.exists is_bad_line mine then "crash " ^ List.find is_bad_line mine else "missing-observation")); tr := []
         end else begin tr := rest; oracle_rt_netm !cfg li a mine fail end)
    | Some ("rt_step", a) ->
      (match !tr with
       | l1 :: l2 :: rest when not (is_bad_line l1) && not (is_bad_line l2) ->
         tr := rest;
         let i = rt_step_input !zones !cfg a in
         let t1 = toks_of l1 and t2 = toks_of l2 in
         let get t k = match tok_val t k with Some v -> v | None -> "?" in
         if List.hd t1 <> "rt" || List.hd t2 <> "rtd" then fail (Printf.sprintf "step=%d malformed-observation" li) else begin
         if get t1 "fz" <> i.s_fz then fail (Printf.sprintf "step=%d origin-zone-construction got=%s want=%s" li (get t1 "fz") i.s_fz);
         if get t1 "dup" <> "0" then fail (Printf.sprintf "step=%d duplicate-message-on-one-connection" li);
         if get t1 "stale" <> "0" then fail (Printf.sprintf "step=%d message-on-stale-connection" li);
         let sent = id_list (get t2 "sent") and skipped = id_list (get t2 "skip") in
         let persist = get t2 "persist" = "1" in
         let wantoz = if sent = [] then "-" else i.s_fz in
         if get t1 "ozout" <> wantoz || get t1 "bad" <> "0" then fail (Printf.sprintf "step=%d originZone-stamp got=%s want=%s" li (get t1 "ozout") wantoz);
         if not (rt_pre_b !cfg (nat_of_int i.s_me) (nat_of_int i.s_lz) (nat_of_int i.s_target)) then
           fail (Printf.sprintf "step=%d generator-precondition" li);
         let k = int_of_nat (rt_oracle !cfg (nat_of_int i.s_me) (nat_of_int i.s_lz) (List.map nat_of_int i.s_conn) i.s_origin
                               (nat_of_int i.s_target) i.s_log (List.map nat_of_int sent) (List.map nat_of_int skipped) persist) in
         if k <> 0 then
           fail (Printf.sprintf "step=%d clause=%d %s sent=%s skip=%s persist=%b" li k
                   (match k with 1 -> "send-to-ineligible" | 2 -> "foreign-zone-entered-twice" | 3 -> "persist-decision"
                               | 4 -> "withheld" | _ -> "log-position") (names sent) (names skipped) persist)
         end
       | l1 :: _ when is_bad_line l1 -> fail (Printf.sprintf "step=%d crash %s" li l1); tr := []
       | _ -> fail (Printf.sprintf "step=%d missing-observation" li); tr := [])
    | _ -> ()) script;
  (match !tr with
   | l :: _ when !err = None && is_bad_line l -> fail ("crash " ^ l)
   | _ -> ());
  !err

let () =
  register_op "rt_topo" op_rt_topo;
  register_op "rt_step" op_rt_step;
  register_op "rt_reload" op_rt_reload;
  register_op "rt_net" op_rt_net;
  register_op "rt_netm" op_rt_netm;
  register_oracle "C11" oracle_c11_case
