open Model
open Vcore

(* ---------------- C10: HA authority ---------------- *)
let au_bytes (s : string) = List.map (fun c -> z_of_int (Char.code c)) (List.of_seq (String.to_seq s))

(* decimal printing of a (possibly > max_int) non-negative Z *)
let rec au_dec_pos = function
  | XH -> [1]
  | XO q -> au_dbl (au_dec_pos q) 0
  | XI q -> au_dbl (au_dec_pos q) 1
and au_dbl ds carry = match ds with
  | [] -> if carry = 0 then [] else [carry]
  | d :: r -> let v = 2 * d + carry in (v mod 10) :: au_dbl r (v / 10)
let au_dec = function
  | Z0 -> "0"
  | Zpos p -> String.concat "" (List.rev_map string_of_int (au_dec_pos p))
  | Zneg p -> "-" ^ String.concat "" (List.rev_map string_of_int (au_dec_pos p))

let au_p = au_params_now

type au_conf = { mutable lay : string; mutable na : string; mutable nb : string;
                 mutable objs : au_obj list; mutable kinds : string list }
let au_c = { lay = "none"; na = ""; nb = ""; objs = []; kinds = [] }
let au_sys = ref (au_init [] [] None None [])

let au_kind_of = function
  | "host" -> AuHost | "service" -> AuService | "notification" -> AuNotification
  | "downtime" -> AuDowntime | "comment" -> AuComment | _ -> AuOther

let au_mk name kind once active =
  { au_o_name = au_bytes name; au_o_kind = au_kind_of kind; au_o_active = active; au_o_once = once;
    au_o_paused = true; au_o_pauses = Z0; au_o_resumes = Z0; au_o_stash = Z0; au_o_sent = Z0 }

let au_add name kind once active =
  au_c.objs <- au_c.objs @ [au_mk name kind once active];
  au_c.kinds <- au_c.kinds @ [kind]

let au_zones order =
  let a = au_bytes au_c.na and b = au_bytes au_c.nb in
  match au_c.lay with
  | "none" -> (None, None)
  | "one" -> (Some [a], Some [b])
  | _ -> if order = "ab" then (Some [a; b], Some [b; a]) else (Some [b; a], Some [a; b])

let au_order = ref "ab"

let au_do_cfg a =
  au_c.lay <- str a "lay" "two"; au_c.na <- hex_dec (str a "a" "-"); au_c.nb <- hex_dec (str a "b" "-");
  au_c.objs <- []; au_c.kinds <- [];
  au_order := str a "order" "ab";
  if au_c.lay <> "none" then begin
    let ab = (str a "create" "ab") = "ab" in
    au_add (if ab then au_c.na else au_c.nb) "other" true true;
    au_add (if ab then au_c.nb else au_c.na) "other" true true;
    let zs = str a "z" "0" in
    if au_c.lay = "two" then au_add ("au-z" ^ zs) "other" true true
    else begin au_add ("au-za" ^ zs) "other" true true; au_add ("au-zb" ^ zs) "other" true true end
  end

let au_join a =
  String.concat "!" (List.filter_map (fun k -> if has a k then Some (hex_dec (str a k "-")) else None) ["h"; "s"; "n"])

let au_do_obj a = au_add (au_join a) (str a "kind" "host") (num a "once" 1 <> 0) (num a "active" 1 <> 0)

let au_do_begin () =
  let (za, zb) = au_zones !au_order in
  au_sys := au_init (au_bytes au_c.na) (au_bytes au_c.nb) za zb au_c.objs

let au_b2c b = if b then "1" else "0"
let au_objs_line (n : au_node) =
  "objs" ^ String.concat "" (List.map2 (fun (o : au_obj) k ->
    let name = String.concat "" (List.map (fun z -> String.make 1 (Char.chr (int_of_z z))) o.au_o_name) in
    Printf.sprintf " %s:%s:%s:%s:%s" (hex_enc name) k (au_b2c o.au_o_once) (au_b2c o.au_o_active) (au_b2c o.au_o_paused))
    n.au_n_objs au_c.kinds)

let au_id a = match List.hd a.pos with "A" -> AuA | "B" -> AuB | _ -> failwith "node must be A or B"
let au_dig v = if v < 0 then "?" else if v > 9 then "9" else string_of_int v
let au_vec f l = if l = [] then "-" else String.concat "" (List.map f l)
let au_v (n : au_node) = au_vec (fun (o : au_obj) -> au_b2c o.au_o_paused) n.au_n_objs
let au_delta f (n : au_node) (n' : au_node) =
  if n.au_n_objs = [] then "-" else
  String.concat "" (List.map2 (fun o o' -> au_dig (int_of_z (f o') - int_of_z (f o))) n.au_n_objs n'.au_n_objs)
let au_is_notif (o : au_obj) = (match o.au_o_kind with AuNotification -> true | _ -> false)
let au_sentv (n : au_node) (n' : au_node) =
  if n.au_n_objs = [] then "-" else
  String.concat "" (List.map2 (fun (o : au_obj) (o' : au_obj) ->
    if au_is_notif o then au_dig (int_of_z o'.au_o_sent - int_of_z o.au_o_sent) else ".") n.au_n_objs n'.au_n_objs)
let au_stashv (n : au_node) =
  au_vec (fun (o : au_obj) -> if au_is_notif o then au_dig (int_of_z o.au_o_stash) else ".") n.au_n_objs

let au_event a ev =
  let i = au_id a in
  let n = au_get !au_sys i in
  au_sys := au_step au_p !au_sys (z_of_int !now, ev);
  let n' = au_get !au_sys i in
  let who = List.hd a.pos in
  match ev with
  | AuTimer _ ->
    emit (Printf.sprintf "tm %s v=%s pa=%s re=%s upd=%s idle=%s" who (au_v n')
            (au_delta (fun o -> o.au_o_pauses) n n') (au_delta (fun o -> o.au_o_resumes) n n')
            (au_b2c n'.au_n_updated) (zs (au_idle_count n')))
  | AuRestart _ -> emit (Printf.sprintf "rs %s v=%s" who (au_v n'))
  | AuRun _ -> emit ("rn " ^ who)
  | AuConnect _ | AuDisconnect _ -> emit (Printf.sprintf "cn %s %s" who (au_b2c (n'.au_n_conn && au_c.lay <> "none")))
  | AuNotify _ | AuNcTimer _ ->
    emit (Printf.sprintf "%s %s v=%s pa=%s re=%s sent=%s stash=%s" (match ev with AuNotify _ -> "nf" | _ -> "nt") who (au_v n')
            (au_delta (fun o -> o.au_o_pauses) n n') (au_delta (fun o -> o.au_o_resumes) n n') (au_sentv n n') (au_stashv n'))

let au_ev_of op a =
  let i = au_id a in
  match op with
  | "au_connect" -> AuConnect i | "au_disconnect" -> AuDisconnect i | "au_restart" -> AuRestart i
  | "au_run" -> AuRun i | "au_timer" -> AuTimer i | "au_notify" -> AuNotify i
  | _ -> AuNcTimer (i, num a "ha" 1 <> 0)

(* ---------------- oracle over implementation traces ---------------- *)
let au_digits s = if s = "-" then [] else List.map (fun c -> if c >= '0' && c <= '9' then Char.code c - 48 else 0) (List.of_seq (String.to_seq s))

let au_oracle_case script trace =
  let err = ref None in
  let fail m = if !err = None then err := Some m in
  let tr = ref trace in
  let next li = match !tr with
    | [] -> fail (Printf.sprintf "step=%d missing-observation" li); None
    | l :: rest -> tr := rest; if is_bad_line l then (fail (Printf.sprintf "step=%d crash %s" li l); None) else Some l in
  let steps = ref [] in
  let cnow = ref 0 in
  let begun = ref false in
  List.iteri (fun li line ->
    if !err = None then
    match parse_line line with
    | Some ("now", a) -> cnow := tnum (List.hd a.pos)
    | Some ("au_sdbm", a) ->
      (match next li with
       | Some l -> let want = "sdbm " ^ au_dec (au_sdbm au_p.au_p_signed (au_bytes (hex_dec (List.hd a.pos)))) in
         if l <> want then fail (Printf.sprintf "step=%d sdbm-differs got=%s want=%s" li l want)
       | None -> ())
    | Some ("au_lt", a) ->
      (match next li with
       | Some l -> let want = "lt " ^ au_b2c (au_lt (au_bytes (hex_dec (List.nth a.pos 0))) (au_bytes (hex_dec (List.nth a.pos 1)))) in
         if l <> want then fail (Printf.sprintf "step=%d name-order-differs got=%s want=%s" li l want)
       | None -> ())
    | Some ("au_conc", a) ->
      (match next li with
       | None -> ()
       | Some l ->
         let t = toks_of l in
         if List.hd t <> "cc" then fail (Printf.sprintf "step=%d unexpected-line %s" li l) else
         (match tok_val t "seqs" with
          | None -> fail (Printf.sprintf "step=%d no-sequences %s" li l)
          | Some sq ->
            List.iter (fun tok ->
              match String.split_on_char ':' tok with
              | [p0; seq; fin] ->
                let calls = if seq = "-" then [] else
                  List.map (fun c -> if c = 'R' then AcResumeCall else AcPauseCall) (List.of_seq (String.to_seq seq)) in
                if not (auc_round_ok (p0 = "1") calls (fin = "1")) then
                  fail (Printf.sprintf "kind=concurrent calls=%s (initial-paused:calls:final-paused) violates-C10 step=%d" tok li)
              | _ -> fail (Printf.sprintf "step=%d bad-sequence-token %s" li tok)) (String.split_on_char ',' sq)))
    | Some ("au_cfg", a) -> au_do_cfg a
    | Some ("au_obj", a) -> au_do_obj a
    | Some ("au_begin", _) ->
      (match next li with
       | Some l ->
         let toks = List.tl (toks_of l) in
         if List.length toks <> List.length au_c.objs then fail (Printf.sprintf "step=%d object-list-differs" li) else begin
           (* static part as observed: name, run-once, active; paused feeds the initial check *)
           let paused = List.map2 (fun t (o : au_obj) ->
             match String.split_on_char ':' t with
             | [hx; _; once; act; pz] ->
               let name = String.concat "" (List.map (fun z -> String.make 1 (Char.chr (int_of_z z))) o.au_o_name) in
               if hx <> hex_enc name then fail (Printf.sprintf "step=%d object-name-differs %s" li t);
               if (once = "1") <> o.au_o_once || (act = "1") <> o.au_o_active then fail (Printf.sprintf "step=%d object-flags-differ %s" li t);
               pz = "1"
             | _ -> fail (Printf.sprintf "step=%d bad-objs-token %s" li t); true) toks au_c.objs in
           begun := true;
           let obs = List.map (fun pz -> { au_oo_paused = pz; au_oo_dp = Z0; au_oo_dr = Z0; au_oo_ds = Z0 }) paused in
           steps := { au_ts_now = z_of_int !cnow; au_ts_ev = AuRestart AuB; au_ts_obs = Some obs }
                 :: { au_ts_now = z_of_int !cnow; au_ts_ev = AuRestart AuA; au_ts_obs = Some obs } :: !steps
         end
       | None -> ())
    | Some (op, a) when String.length op > 3 && String.sub op 0 3 = "au_" ->
      if not !begun then fail (Printf.sprintf "step=%d event-before-begin" li) else
      let ev = au_ev_of op a in
      (match next li with
       | None -> ()
       | Some l ->
         let t = toks_of l in
         let want_pfx = (match ev with AuTimer _ -> "tm" | AuRestart _ -> "rs" | AuRun _ -> "rn" | AuConnect _ | AuDisconnect _ -> "cn"
                                     | AuNotify _ -> "nf" | AuNcTimer _ -> "nt") in
         if List.hd t <> want_pfx then fail (Printf.sprintf "step=%d unexpected-line %s" li l) else
         let obs =
           (match tok_val t "v" with
            | None -> None
            | Some v ->
              let pv = au_digits v in
              let get k = match tok_val t k with Some s -> au_digits s | None -> List.map (fun _ -> 0) pv in
              let pa = get "pa" and re = get "re" and sent = get "sent" in
              if List.length pa <> List.length pv || List.length re <> List.length pv || List.length sent <> List.length pv
              then (fail (Printf.sprintf "step=%d ragged-observation %s" li l); None)
              else Some (List.map2 (fun (p, a) (r, s) -> { au_oo_paused = (p = 1); au_oo_dp = z_of_int a; au_oo_dr = z_of_int r; au_oo_ds = z_of_int s })
                           (List.combine pv pa) (List.combine re sent))) in
         steps := { au_ts_now = z_of_int !cnow; au_ts_ev = ev; au_ts_obs = obs } :: !steps)
    | _ -> ()) script;
  match !err with
  | Some m -> Some m
  | None ->
    if not !begun then None else begin
      let (za, zb) = au_zones !au_order in
      let trl = List.rev !steps in
      match au_oracle au_p (au_bytes au_c.na) (au_bytes au_c.nb) za zb au_c.objs trl with
      | None -> None
      | Some idx ->
        let k = int_of_z idx in
        let st = List.nth trl k in
        let evn = (match st.au_ts_ev with AuTimer _ -> "timer" | AuRestart _ -> "restart" | AuNotify _ -> "notify"
                                       | AuNcTimer _ -> "nctimer" | _ -> "other") in
        Some (Printf.sprintf "event=%d kind=%s violates-C10" (k - 2) evn)
    end

let () =
  register_op "au_sdbm" (fun a -> emit ("sdbm " ^ au_dec (au_sdbm au_p.au_p_signed (au_bytes (hex_dec (List.hd a.pos))))));
  register_op "au_lt" (fun a -> emit ("lt " ^ au_b2c (au_lt (au_bytes (hex_dec (List.nth a.pos 0))) (au_bytes (hex_dec (List.nth a.pos 1))))));
  register_op "au_conc" (fun a -> emit (Printf.sprintf "cc n=%d rounds=%d p0=%d mix=%d seqs=?" (num a "n" 4) (num a "rounds" 100) (num a "p0" 1) (num a "mix" 0)));
  register_op "au_cfg" au_do_cfg;
  register_op "au_obj" au_do_obj;
  register_op "au_begin" (fun _ -> au_do_begin (); emit (au_objs_line (au_get !au_sys AuA)));
  List.iter (fun op -> register_op op (fun a -> au_event a (au_ev_of op a)))
    ["au_connect"; "au_disconnect"; "au_restart"; "au_run"; "au_timer"; "au_notify"; "au_nctimer"];
  register_oracle "C10" au_oracle_case
