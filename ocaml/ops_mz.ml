open Model
open Vcore

(* ---------------- C13: cluster message authorisation ---------------- *)
let rec mz_nat n = if n <= 0 then O else S (mz_nat (n - 1))
let rec mz_int = function O -> 0 | S n -> 1 + mz_int n
let rec mz_int_of_pos = function XH -> 1 | XO p -> 2 * mz_int_of_pos p | XI p -> 2 * mz_int_of_pos p + 1
let mz_int_of_n = function N0 -> 0 | Npos p -> mz_int_of_pos p
(* method name -> index into the specification's class table (names come from the extracted table) *)
let mz_name_list = List.map (fun l -> String.concat "" (List.map (fun n -> String.make 1 (Char.chr (mz_int_of_n n))) l)) mz_names
let mz_index meth =
  let rec go i = function [] -> i | x :: r -> if x = meth then i else go (i + 1) r in
  mz_nat (go 0 mz_name_list)     (* unknown method: index past the end = not registered/classified *)

let mz_trees : (int, mz_zinfo list) Hashtbl.t = Hashtbl.create 16

let mz_parse_tree spec =
  List.map (fun tok ->
    match tok with
    | "-" -> { mz_zparent = None; mz_zglobal = false }
    | "g" -> { mz_zparent = None; mz_zglobal = true }
    | p -> { mz_zparent = Some (mz_nat (int_of_string p)); mz_zglobal = false })
    (String.split_on_char ',' spec)

let op_mz_tree a = Hashtbl.replace mz_trees (num a "id" 0) (mz_parse_tree (str a "z" "-"))

let mz_opt_zone s = if s = "-" || s = "x" || s = "" then None else Some (mz_nat (int_of_string s))

(* the model-facing reading of one mz_msg line *)
let mz_decode a =
  let t = try Hashtbl.find mz_trees (num a "t" 0) with Not_found -> [] in
  let c = { mz_local = mz_nat (num a "recv" 0); mz_accept_config = (num a "ac" 0 <> 0); mz_accept_commands = (num a "ak" 0 <> 0) } in
  let snd = str a "snd" "0a" in
  let sz = int_of_string (String.sub snd 0 (String.length snd - 1)) in
  let s = { mz_cauth = (num a "auth" 0 <> 0);
            mz_cident = (if str a "ident" "ep" = "ep" then Some (Some (mz_nat sz)) else None);
            mz_cclaim = mz_opt_zone (str a "claim" "-") } in
  let m = { mz_objzone = mz_opt_zone (str a "oz" "-"); mz_is_cmdep = (num a "ce" 0 <> 0) } in
  (* ts=eq: the message's ts EQUALS the sending endpoint's remote log position (a second event of the same clock tick): "not
     older", i.e. the model's MzTsNew branch - the position is set to the value it already has *)
  let ts = match str a "ts" "none" with "old" -> MzTsOld | "new" | "eq" -> MzTsNew | _ -> MzTsNone in
  (t, c, s, m, ts, str a "m" "")

let b2i b = if b then 1 else 0

(* forwarding family of event::ExecuteCommand: xt= (params.endpoint), xcap=, xh= (params.host exists), rep= (receiver endpoint) *)
let mz_xmode a = str a "m" "" = "event::ExecuteCommand" && str a "xt" "" <> ""
let mz_zone_of_ep ep = int_of_string (String.sub ep 0 (String.length ep - 1))
let mz_decode_x a t =
  let recv = string_of_int (num a "recv" 0) in
  let rep = str a "rep" "a" in
  let snd = str a "snd" "0a" in
  let xt = str a "xt" "-" in
  let tgt = if xt = "-" then MzXNone else if xt = "unk" then MzXUnknown
            else if xt = recv ^ rep then MzXLocalEp else MzXZone (mz_nat (mz_zone_of_ep xt)) in
  let x = { mz_xtgt = tgt; mz_xcap = (num a "xcap" 1 <> 0);
            mz_xhost = (if num a "xh" 0 <> 0 then Some (mz_opt_zone (str a "oz" "-")) else None) } in
  let tarr = Array.of_list t in
  let nep z = let i = mz_int z in
    if i < Array.length tarr && not tarr.(i).mz_zglobal then mz_nat 2 else O in     (* the fixture: two endpoints per non-global zone *)
  let e = { mz_rnep = nep; mz_rself = (snd = recv ^ rep); mz_rmaster = (rep = "a"); mz_rsndmaster = (snd = recv ^ "a") } in
  (x, e)
let mz_zlist zs =
  let l = List.sort_uniq compare (List.map mz_int zs) in
  if l = [] then "-" else String.concat "," (List.map string_of_int l)
let mz_parse_zlist v =
  if v = "-" || v = "" then [] else List.map (fun z -> mz_nat (int_of_string z)) (String.split_on_char ',' v)

(* command-execution family of event::ExecuteCommand: ct= (command_type) src= ("source" present) dl= (deadline passed) cx= (command exists) *)
let mz_qmode a = str a "m" "" = "event::ExecuteCommand" && str a "ct" "" <> ""
let mz_decode_q a =
  { mz_qtype = (match str a "ct" "check" with "check" -> MzCCheck | "event" -> MzCEvent | "notif" -> MzCNotification | _ -> MzCOther);
    mz_qsource = (num a "src" 0 <> 0); mz_qexpired = (num a "dl" 0 <> 0); mz_qexists = (num a "cx" 1 <> 0) }
let mz_ex_letter q = match q.mz_qtype with MzCCheck -> "c" | MzCEvent -> "e" | MzCNotification -> "n" | MzCOther -> "?"

(* multi-object family: ckz= / hz= = zone of the checkable / of the host of the object changed (default: its own zone, oz=) *)
let mz_decode_om a m =
  let rel k = match str a k "" with "" -> m.mz_objzone | v -> mz_opt_zone v in
  { mz_om = m; mz_ockzone = rel "ckz"; mz_ohostzone = rel "hz" }

let mz_decode_zp a = match str a "zp" "" with
    | "" -> (match mz_opt_zone (str a "oz" "-") with None -> MzZEmpty | Some z -> MzZKnown z)   (* the harness sends the object's own zone *)
    | "e" -> MzZEmpty | "x" -> MzZUnknown | z -> MzZKnown (mz_nat (int_of_string z))

let op_mz_msg a =
  let (t, c, s, m, ts, meth) = mz_decode a in
  if mz_qmode a then begin
    let q = mz_decode_q a in
    let o = mz_exq_run t c s m ts q in
    emit (Printf.sprintf "msg rlp=%d app=%d ex=%s rp=%d" (b2i o.mz_qrlp) (b2i o.mz_qexec)
            (if o.mz_qexec then mz_ex_letter q else "-") (mz_int (mz_qreply_code o.mz_qrep)))
  end else
  if mz_xmode a then begin
    let (x, e) = mz_decode_x a t in
    let o = mz_exec_run t c s m x e ts in
    emit (Printf.sprintf "msg rlp=%d app=%d xc=%s xd=%s" (b2i o.mz_xrlp) (b2i o.mz_xapp) (mz_zlist o.mz_xc) (mz_zlist o.mz_xd))
  end else
  let zp = match str a "zp" "" with
    | "" -> (match mz_opt_zone (str a "oz" "-") with None -> MzZEmpty | Some z -> MzZKnown z)   (* the harness sends the object's own zone *)
    | "e" -> MzZEmpty | "x" -> MzZUnknown | z -> MzZKnown (mz_nat (int_of_string z)) in
  let om = mz_decode_om a m in
  let o = mz_run_objk_i t c s om ts (mz_index meth) zp (str a "ro" "c" <> "x") in
  let cz = if str a "cz" "" = "" then "" else
    (match mz_created_zone o (mz_opt_zone (str a "cz" "-")) zp with None -> " cz=-" | Some z -> Printf.sprintf " cz=%d" (mz_int z)) in
  let chz = if num a "chz" 0 = 0 then "" else
    (match mz_changed_zones o om with
     | [] -> " chz=."
     | l -> " chz=" ^ String.concat "," (List.sort_uniq compare (List.map (function None -> "n" | Some z -> string_of_int (mz_int z)) l))) in
  emit (Printf.sprintf "msg rlp=%d app=%d%s%s" (if str a "ts" "none" = "eq" then 0 else b2i o.mz_rlp) (b2i o.mz_applied) chz cz)

let op_mz_zoneless _ = emit "zoneless rejected=1"

let mz_strip l = match String.index_opt l '#' with Some i -> String.trim (String.sub l 0 i) | None -> String.trim l

let oracle_c13_case script trace =
  let err = ref None in
  let fail m = if !err = None then err := Some m in
  let tr = ref trace in
  let idx = ref 0 in
  let next () = match !tr with [] -> None | l :: r -> tr := r; Some l in
  List.iter (fun line ->
    match parse_line line with
    | Some ("mz_tree", a) -> op_mz_tree a
    | Some ("mz_zoneless", _) ->
      (match next () with
       | Some l when mz_strip l = "zoneless rejected=1" -> ()
       | Some l when is_bad_line l -> fail ("crash " ^ l)
       | _ -> fail "zoneless-endpoint-accepted")
    | Some ("mz_msg", a) ->
      incr idx;
      (match next () with
       | None -> fail (Printf.sprintf "msg=%d missing-observation" !idx)
       | Some l when is_bad_line l -> fail (Printf.sprintf "msg=%d crash %s" !idx l)
       | Some l ->
         let l = mz_strip l in
         let toks = toks_of l in
         if List.mem "HANG" toks then fail (Printf.sprintf "msg=%d crash hang" !idx) else begin
         let geti k = match tok_val toks k with Some v -> int_of_string v | None -> -1 in
         let (t, c, s, m, _, meth) = mz_decode a in
         let code =
           if mz_qmode a then begin
             let gets k = match tok_val toks k with Some v -> v | None -> "-" in
             let o = { mz_qrlp = (geti "rlp" = 1); mz_qexec = (gets "ex" <> "-" || geti "app" = 1); mz_qrep = MzQNoReply } in
             mz_int (mz_qoracle t c s m o)
           end else
           if mz_xmode a then begin
             let (x, _) = mz_decode_x a t in
             let gets k = match tok_val toks k with Some v -> v | None -> "-" in
             let o = { mz_xrlp = (geti "rlp" = 1); mz_xapp = (geti "app" = 1);
                       mz_xc = mz_parse_zlist (gets "xc"); mz_xd = mz_parse_zlist (gets "xd") } in
             mz_int (mz_xoracle t c s m x o)
           end else
             let o = { mz_dropped = false; mz_rlp = (geti "rlp" = 1); mz_applied = (geti "app" = 1) } in
             let c1 = mz_int (mz_oracle_i t c s m (mz_index meth) o) in
             (* C13_equal_ts_processed: a message whose ts equals the sender's log position is handled exactly like one
                without ts - if that one is applied, so is this one (ts is a clock value, not an event id) *)
             let c1 = if c1 = 0 && str a "ts" "none" = "eq" && geti "app" = 0 &&
                         (mz_run_objk_i t c s (mz_decode_om a m) MzTsNone (mz_index meth) (mz_decode_zp a) (str a "ro" "c" <> "x")).mz_applied
                      then 14 else c1 in
             if c1 <> 0 || num a "chz" 0 = 0 then c1 else begin
               (* every object that changed must be one the sender is entitled to change *)
               let zs = match tok_val toks "chz" with
                 | None | Some "." -> []
                 | Some v -> List.map (fun z -> if z = "n" then None else Some (mz_nat (try int_of_string z with _ -> 0))) (String.split_on_char ',' v) in
               mz_int (mz_oracle_changed_i t c s m (mz_index meth) zs)
             end in
         if code <> 0 then
           fail (Printf.sprintf "msg=%d code=%d %s m=%s ep=%s" !idx code
                   (match code with 1 -> "unclassified-method-applied" | 2 -> "applied-not-entitled" | 3 -> "inert-method-had-effect"
                                  | 5 -> "log-position-moved-without-endpoint"
                                  | 14 -> "equal-ts-message-not-processed"
                                  | 6 -> "command-handled-for-sender-outside-own-or-parent-zone"
                                  | 7 -> "command-forwarded-to-target-outside-subtree"
                                  | 8 -> "command-handed-to-zone-off-path"
                                  | 9 -> "reply-handed-to-foreign-zone"
                                  | 10 -> "local-execution-relayed"
                                  | 11 -> "command-executed-although-accept_commands-is-off"
                                  | 13 -> "object-changed-sender-not-entitled"
                                  | _ -> "inconsistent")
                   meth (match mz_ep s with None -> "none" | Some _ -> "some"))
         end)
    | _ -> ()) script;
  List.iter (fun l -> if is_bad_line l then fail ("crash " ^ l) else fail ("crash unexpected-line " ^ l)) !tr;
  !err

let () =
  register_op "mz_tree" op_mz_tree;
  register_op "mz_msg" op_mz_msg;
  register_op "mz_zoneless" op_mz_zoneless;
  register_oracle "C13" oracle_c13_case
