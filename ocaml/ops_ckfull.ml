(* model side of the combined checkable fixture (C02/C05/C06) *)
open Model
open Vcore

let fcfg = ref { fc_base = { c_kind = KHost; c_max = z_of_int 3; c_volatile = false };
                 fc_flap_enabled = false; fc_flap_high = z_of_int 3005; fc_flap_low = z_of_int 2505;
                 fc_active_checks = false; fc_check_interval = z_of_int 300 }
let fst_ = ref init_full
(* C05: the clean-up timers of the downtimes (Ck/CkDtTimer.v); printed only under the opt-in obs class "tm" *)
let tms_ : c5_tm list ref = ref []

let sstate_of_int = function 0 -> SOK | 1 -> SWarning | 2 -> SCritical | _ -> SUnknown
let sstate_num = function SOK -> 0 | SWarning -> 1 | SCritical -> 2 | SUnknown -> 3

let out_tok = function
  | ONotify t -> Some ("nr=" ^ zs (ntype_num t))
  | OAckSet a -> Some ("ackset=" ^ zs (ackt_num a))
  | OAckCleared -> Some "ackclr"
  | ODtTriggered id -> Some ("dttrig=" ^ zs id)
  | ODtRemoved id -> Some ("dtrem=" ^ zs id)
  | OStateChange EvHard -> Some "sc=H"
  | OStateChange EvSoft -> Some "sc=S"
  | OStateChange EvNone -> None
  | ONewResult -> Some "ncr"
  | ORefused c -> let c = int_of_z c in Some ("ref=" ^ string_of_int (if c <= 3 then 1 else c))
  | ODone -> None

let full_line (f : full) outs =
  let k = (!fcfg).fc_base.c_kind in
  let s = f.f_st in
  let b = Buffer.create 120 in
  Buffer.add_string b (Printf.sprintf "st=%s ty=%s at=%s lh=%s" (zs (api_state k s.s_raw)) (zs (stype_num s.s_type))
    (zs s.s_attempt) (zs (api_state k s.s_last_hard_raw)));
  Buffer.add_string b (Printf.sprintf " ack=%s exp=%s supp=%s sbs=%d fl=%d" (zs (ackt_num f.f_ack)) (zs f.f_ack_expiry)
    (zs (supp_mask f)) (sstate_num f.f_sbs) (if f.f_flap.fl_flapping then 1 else 0));
  let ds = List.sort compare (List.map (fun d -> (int_of_z d.d_id, int_of_z d.d_trigger)) f.f_dts) in
  Buffer.add_string b " dts=";
  if ds = [] then Buffer.add_string b "-" else
    Buffer.add_string b (String.concat "," (List.map (fun (i, t) -> Printf.sprintf "%d:%d" i t) ds));
  let cs = List.sort compare (List.map (fun c -> Printf.sprintf "%s/%d/%s" (zs c.cm_entry) (if c.cm_persistent then 1 else 0) (zs c.cm_expire)) f.f_comments) in
  Buffer.add_string b " cms=";
  if cs = [] then Buffer.add_string b "-" else Buffer.add_string b (String.concat "," cs);
  let tmtoks = if ev_on "tm" then
      List.map (fun t -> Printf.sprintf "tm=%s:%d:%s:%d" (zs t.tm_id) (if t.tm_armed then 1 else 0) (zs t.tm_due)
                           (if t.tm_paused then 1 else 0)) !tms_ else [] in
  let toks = List.sort compare (tmtoks @ List.filter_map out_tok outs) in
  List.iter (fun t ->
    let pfx = match String.index_opt t '=' with Some i -> String.sub t 0 i | None -> t in
    if ev_on pfx then (Buffer.add_char b ' '; Buffer.add_string b t)) toks;
  Buffer.contents b

(* every operation goes through CkAck.cka_step (= full_step for the operations of CkFull, plus the cluster
   entry points for acknowledgements, script syntax: ack via=cluster ... / unack via=cluster) *)
let apply name o =
  match o with
  | CkaBase bo ->
    (* C05 timer layer: c5_tstep = full_step, except that the clean-up handler runs only if its timer is armed and due,
       and it keeps the timer table *)
    let (ts', outs) = c5_tstep !fcfg (z_of_int !now) { ts_f = !fst_; ts_tms = !tms_ } (XOp bo) in
    fst_ := ts'.ts_f; tms_ := ts'.ts_tms;
    emit (name ^ " " ^ full_line ts'.ts_f outs)
  | _ ->
    let (f', outs) = cka_step !fcfg (z_of_int !now) !fst_ o in
    fst_ := f';
    emit (name ^ " " ^ full_line f' outs)

let op_dt_pause a =
  let id = z_of_int (num a "id" 0) and p = num a "p" 0 <> 0 in
  let (ts', outs) = c5_tstep !fcfg (z_of_int !now) { ts_f = !fst_; ts_tms = !tms_ } (XDtPause (id, p)) in
  fst_ := ts'.ts_f; tms_ := ts'.ts_tms;
  emit ("dt_pause " ^ full_line ts'.ts_f outs)

let parse_op name (a : args) : op option =
  let b k = num a k 0 <> 0 in
  let z k = z_of_int (if has a k then tnum (str a k "0") else 0) in
  match name with
  | "crf" ->
    let t k = z_of_int (if has a k then tnum (str a k "0") else !now) in
    Some (OpResult { r_state = sstate_of_int (num a "state" 0); r_start = t "start"; r_end = t "end" })
  | "parent" -> Some (OpParent (b "up"))
  | "ack" ->
    let v = match str a "via" "api" with "api" -> ViaApi | "ext" -> ViaExt | _ -> ViaExtExpire in
    Some (OpAck (v, b "sticky", b "notify", b "pers", b "eg", z "expiry"))
  | "unack" -> Some OpUnack
  | "cmtimer" -> Some OpCommentTimer
  | "dt_add" -> Some (OpDtAdd (z "id", b "fixed", z "start", z "end", z "dur", z "trig", z "parent", b "owned"))
  | "dt_remove" ->
    let r = match str a "reason" "user" with "expired" -> RExpired | "owner" -> RByOwner | _ -> RByUser in
    Some (OpDtRemove (z "id", b "children", r))
  | "dt_starttimer" -> Some OpDtStartTimer
  | "dt_cleanup" -> Some (OpDtCleanup (z "id"))
  | "fire" -> Some OpFire
  | "pause" -> Some (OpPause (b "p"))
  | "nextcheck" -> Some (OpNextCheck (z "t"))
  | _ -> None

let op_ckf_new a =
  fcfg := { fc_base = { c_kind = (if str a "kind" "host" = "svc" then KService else KHost);
                        c_max = z_of_int (num a "max" 3); c_volatile = (num a "vol" 0 <> 0) };
            fc_flap_enabled = (num a "flap" 0 <> 0); fc_flap_high = z_of_int 3005; fc_flap_low = z_of_int 2505;
            fc_active_checks = (num a "active" 0 <> 0); fc_check_interval = z_of_int (num a "ci" 300) };
  fst_ := init_full; tms_ := []

let cka_of name a : cka_op option =
  let b k = num a k 0 <> 0 in
  let z k = z_of_int (if has a k then tnum (str a k "0") else 0) in
  match name, str a "via" "api" with
  | "ack", "cluster" -> Some (CkaClusterSet (b "sticky", b "notify", z "expiry"))
  | "unack", "cluster" -> Some CkaClusterClear
  | _ -> (match parse_op name a with Some o -> Some (CkaBase o) | None -> None)

let op_ackread _ =
  let f = !fst_ in
  let ((av, f'), outs) = get_ack (z_of_int !now) f in
  (* GetHandled(): GetProblem() && (IsInDowntime() || IsAcknowledged()) *)
  let handled = get_handled !fcfg (z_of_int !now) f in
  fst_ := f';
  emit (Printf.sprintf "ackread a=%s handled=%d depth=%s %s" (zs (ackt_num av)) (if handled then 1 else 0)
          (zs (downtime_depth (z_of_int !now) f')) (full_line f' outs))

let () =
  register_op "ckf_new" op_ckf_new;
  register_op "ackread" op_ackread;
  register_op "dt_pause" op_dt_pause;
  List.iter (fun n -> register_op n (fun a -> match cka_of n a with Some o -> apply n o | None -> ()))
    ["crf"; "parent"; "ack"; "unack"; "cmtimer"; "dt_add"; "dt_remove"; "dt_starttimer"; "dt_cleanup"; "fire"; "pause"; "nextcheck"]
