open Model
open Vcore

(* ---------------- C07: dependency graph fixture ----------------
   Hand-written glue only: script parsing, nat<->int, canonical printing.  Every decision
   (reachability, group states, cycle check, regrouping, oracle verdicts) is made by extracted Gallina. *)

let rec nat_of_int n = if n <= 0 then O else S (nat_of_int (n - 1))
let rec int_of_nat = function O -> 0 | S n -> 1 + int_of_nat n
let ns n = string_of_int (int_of_nat n)

type dgw = {
  mutable g : dg_graph;
  mutable reg : dg_regstate;
  status : (int, dg_status) Hashtbl.t;
  popen : (int, bool) Hashtbl.t;
  mutable q_hosts : int list;
  mutable q_svcs : (int * int * bool) list;   (* service, host, created by an apply rule *)
  mutable q_tps : (int * bool) list;
  mutable q_deps : (dg_dep * bool) list;      (* dependency, created by an apply rule *)
}

let dg_fresh_world () = {
  g = { dgg_nodes = []; dgg_svc = []; dgg_deps = [] }; reg = dg_reg_empty;
  status = Hashtbl.create 16; popen = Hashtbl.create 4;
  q_hosts = []; q_svcs = []; q_tps = []; q_deps = [] }

let dgw = ref (dg_fresh_world ())

let optnat s = if s = "-" then None else Some (nat_of_int (int_of_string s))

let dep_of_args a = {
  dgd_id = nat_of_int (num a "d" 0); dgd_child = nat_of_int (num a "c" 0); dgd_parent = nat_of_int (num a "p" 0);
  dgd_rg = optnat (str a "rg" "-"); dgd_filter = z_of_int (num a "sf" 0); dgd_iss = (num a "iss" 1 <> 0);
  dgd_period = optnat (str a "per" "-"); dgd_dc = (num a "dc" 0 <> 0); dgd_dn = (num a "dn" 1 <> 0) }

let is_svc_in svcs n = List.exists (fun (s, _) -> int_of_nat s = n) svcs

let st_fun w = fun n ->
  let i = int_of_nat n in
  match Hashtbl.find_opt w.status i with
  | Some s -> s
  | None -> dg_status_pending (is_svc_in w.g.dgg_svc i)

let po_fun w = fun p -> match Hashtbl.find_opt w.popen (int_of_nat p) with Some b -> b | None -> true

(* the part of dg_commit/dg_add that both the model run and the oracle share: what the graph and the
   registry look like AFTER an accepted batch *)
let strip_svcs svcs = List.map (fun (s, h, _) -> (s, h)) svcs

(* registry and world after an ACCEPTED load whose resulting graph is g1 *)
let apply_batch w (g1 : dg_graph) (tps : (int * bool) list) (deps : dg_dep list) =
  let old_nodes = List.map int_of_nat w.g.dgg_nodes in
  w.g <- g1;
  List.iter (fun (p, o) -> Hashtbl.replace w.popen p o) tps;
  (* children that were already active take the runtime path, new children push their pending groups on Start *)
  let rt, pend = List.partition (fun d -> List.mem (int_of_nat d.dgd_child) old_nodes) deps in
  List.iter (fun d -> w.reg <- dg_reg_add w.reg d) rt;
  let newch = dg_nat_dedup (List.map (fun d -> d.dgd_child) pend) in
  List.iter (fun c -> w.reg <- dg_reg_push_child pend w.reg c) newch

(* the rounds in which ConfigItem::CommitNewItems commits the Dependency items of ONE load:
   1. apply-rule dependencies of services that are themselves created by `apply Service`
      (nested round while the outer loop is still at type Service),
   2. plain `object Dependency` items,
   3. apply-rule dependencies of plain hosts/services.
   Each round runs the cycle check over its own items only. *)
let load_batches (svcs : (int * int * bool) list) (deps : (dg_dep * bool) list) : dg_dep list list =
  let apply_svc c = List.exists (fun (s, _, ap) -> ap && s = int_of_nat c) svcs in
  let a = List.filter_map (fun (d, ap) -> if ap && apply_svc d.dgd_child then Some d else None) deps in
  let b = List.filter_map (fun (d, ap) -> if not ap then Some d else None) deps in
  let c = List.filter_map (fun (d, ap) -> if ap && not (apply_svc d.dgd_child) then Some d else None) deps in
  List.filter (fun l -> l <> []) [a; b; c]

let graph_with_queued w hosts svcs =
  let svcs = strip_svcs svcs in
  { dgg_nodes = w.g.dgg_nodes @ List.map nat_of_int hosts @ List.map (fun (s, _) -> nat_of_int s) svcs;
    dgg_svc = w.g.dgg_svc @ List.map (fun (s, h) -> (nat_of_int s, nat_of_int h)) svcs;
    dgg_deps = w.g.dgg_deps }

let started_fun w = let old = List.map int_of_nat w.g.dgg_nodes in fun c -> List.mem (int_of_nat c) old

let clear_queue w = w.q_hosts <- []; w.q_svcs <- []; w.q_tps <- []; w.q_deps <- []

let sorted_nodes w = List.sort compare (List.map int_of_nat w.g.dgg_nodes)

let reach_line w n =
  let r a = if dg_reachable dg_max_recursion w.g (st_fun w) (po_fun w) a (nat_of_int n) then "1" else "0" in
  Printf.sprintf "r n=%d %s%s%s" n (r DgState) (r DgChecks) (r DgNotif)

(* canonical rendering of the per-child groups of a registry state; with_st: append the group states *)
let key_repr = function DgKParent p -> (0, int_of_nat p) | DgKGroup n -> (1, int_of_nat n)
let key_str k = let (kind, id) = key_repr k in (if kind = 1 then "G" else "P") ^ string_of_int id

let group_lines w (reg : dg_regstate) with_st =
  let slots = List.map (fun ((c, k), gid) -> (int_of_nat c, key_repr k, k, gid)) reg.dgx_groups in
  let slots = List.sort (fun (c1, k1, _, _) (c2, k2, _, _) -> compare (c1, k1) (c2, k2)) slots in
  let lines = List.map (fun (c, _, k, gid) ->
    let members = match dg_reg_group reg gid with Some gr -> gr.dgr_members | None -> [] in
    let mine = List.sort compare (List.map (fun d -> int_of_nat d.dgd_id)
                 (List.filter (fun d -> int_of_nat d.dgd_child = c) members)) in
    let (c0, _, k0, _) = List.find (fun (_, _, _, g2) -> dg_gid_eqb g2 gid) slots in
    let name = match gid.dgi_name with Some n -> ns n | None -> "-" in
    let st =
      if with_st then
        " st=" ^ String.concat "" (List.map (fun a ->
          zs (dg_gstate_num (dg_group_state_of w.g (st_fun w) (po_fun w) a (nat_of_int c) k))) [DgState; DgChecks; DgNotif])
      else "" in
    Printf.sprintf "g c=%d k=%s name=%s mem=%s tot=%d%s cls=%d:%s" c (key_str k) name
      (String.concat "," (List.map string_of_int mine)) (List.length members) st c0 (key_str k0)) slots in
  lines @ [Printf.sprintf "reg size=%d" (List.length reg.dgx_registry)]

let op_dg_commit _ =
  let w = !dgw in
  let svcs = List.rev w.q_svcs in
  let gq = graph_with_queued w (List.rev w.q_hosts) svcs in
  let deps = List.rev w.q_deps in
  let (g1, ok) = dg_load (started_fun w) gq (load_batches svcs deps) in
  if ok then apply_batch w g1 (List.rev w.q_tps) (List.map fst deps);
  clear_queue w;
  emit (Printf.sprintf "commit ok=%d" (if ok then 1 else 0))

let op_dg_add a =
  let w = !dgw in
  let d = dep_of_args a in
  let (g1, ok) = dg_load (started_fun w) w.g [[d]] in
  if ok then apply_batch w g1 [] [d];
  emit (Printf.sprintf "add d=%s ok=%d" (ns d.dgd_id) (if ok then 1 else 0))

let find_dep w id = List.find_opt (fun d -> int_of_nat d.dgd_id = id) w.g.dgg_deps

let remove_dep w (d : dg_dep) =
  w.g <- dg_remove_dep w.g d.dgd_id;
  w.reg <- dg_reg_remove w.reg d

let op_dg_del a =
  let w = !dgw in
  let id = num a "d" 0 in
  match find_dep w id with
  | None -> emit (Printf.sprintf "del d=%d ok=0" id)
  | Some d -> remove_dep w d; emit (Printf.sprintf "del d=%d ok=1" id)

let op_dg_set a =
  let w = !dgw in
  let n = num a "n" 0 and s = num a "s" 0 and h = num a "h" 1 in
  (* an OK/Up result always yields a hard state (C01); the generator only asks for reachable statuses *)
  let h = if s = 0 then 1 else h in
  Hashtbl.replace w.status n { dgs_checked = true; dgs_state = z_of_int s; dgs_hard = (h <> 0) };
  emit (Printf.sprintf "set n=%d chk=1 s=%d h=%d" n s h)

let op_dg_po a =
  let w = !dgw in
  let p = num a "p" 0 and o = num a "open" 1 in
  Hashtbl.replace w.popen p (o <> 0);
  emit (Printf.sprintf "po p=%d open=%d" p (if o <> 0 then 1 else 0))

let op_dg_q a =
  let w = !dgw in
  List.iter (fun n -> if not (has a "n") || num a "n" 0 = n then emit (reach_line w n)) (sorted_nodes w)
let op_dg_g _ = let w = !dgw in List.iter emit (group_lines w w.reg true)

(* ---------------- oracle over implementation traces ----------------
   The script is replayed on the world description only; every DECISION (accepted or not) is taken from
   the implementation's trace, and each observation is checked against the property:
     - commit/add accepted  <->  the resulting graph incl. implicit edges is acyclic (dg_oracle_commit)
     - the r-lines satisfy the reachability statement, one unfolding (dg_oracle_reach), on graphs of depth <= 256
     - the g-lines equal the grouping of a FRESH LOAD of the surviving dependency set (dg_reg_fresh) *)
let compute_ranks (g : dg_graph) : (nat -> nat) =
  let memo = Hashtbl.create 64 in
  let deps = List.map (fun d -> (int_of_nat d.dgd_child, int_of_nat d.dgd_parent)) g.dgg_deps in
  let rec rk depth c =
    if depth > 2000 then 100000 else
    match Hashtbl.find_opt memo c with
    | Some r -> r
    | None ->
      let r = List.fold_left (fun m (ch, p) -> if ch = c then max m (1 + rk (depth + 1) p) else m) 0 deps in
      Hashtbl.replace memo c r; r in
  let tbl = Hashtbl.create 64 in
  List.iter (fun n -> let i = int_of_nat n in Hashtbl.replace tbl i (nat_of_int (min (rk 0 i) 1000))) g.dgg_nodes;
  fun n -> match Hashtbl.find_opt tbl (int_of_nat n) with Some r -> r | None -> O

let strip_st l =
  String.concat " " (List.filter (fun t -> not (String.length t > 3 && String.sub t 0 3 = "st=")) (toks_of l))

let oracle_c07_case script trace =
  let w = dg_fresh_world () in
  let err = ref None in
  let fail m = if !err = None then err := Some m in
  let tr = ref trace in
  let next () = match !tr with [] -> None | l :: r -> tr := r; Some l in
  let expect li pfx =
    match next () with
    | None -> fail (Printf.sprintf "step=%d missing-observation" li); None
    | Some l when is_bad_line l -> fail (Printf.sprintf "step=%d crash %s" li l); None
    | Some l ->
      if String.length l >= String.length pfx && String.sub l 0 (String.length pfx) = pfx then Some l
      else (fail (Printf.sprintf "step=%d unexpected-line %s" li l); None) in
  let acyclic = ref true in
  let check_commit li what gq deps ok =
    if !acyclic then begin
      if not (dg_oracle_commit gq deps ok) then
        fail (Printf.sprintf "step=%d %s %s" li what (if ok then "cycle-accepted" else "acyclic-rejected"));
      if ok && not (dg_full_check_ok { gq with dgg_deps = gq.dgg_deps @ deps }) then acyclic := false
    end in
  List.iteri (fun li line ->
    if !err = None then
    match parse_line line with
    | Some ("dg_host", a) -> w.q_hosts <- num a "n" 0 :: w.q_hosts
    | Some ("dg_svc", a) -> w.q_svcs <- (num a "n" 0, num a "h" 0, str a "via" "obj" = "apply") :: w.q_svcs
    | Some ("dg_tp", a) -> w.q_tps <- (num a "p" 0, num a "open" 1 <> 0) :: w.q_tps
    | Some ("dg_dep", a) -> w.q_deps <- (dep_of_args a, str a "via" "obj" = "apply") :: w.q_deps
    | Some ("dg_commit", _) ->
      (match expect li "commit ok=" with
       | None -> ()
       | Some l ->
         let ok = (l = "commit ok=1") in
         let gq = graph_with_queued w (List.rev w.q_hosts) (List.rev w.q_svcs) in
         let deps = List.map fst (List.rev w.q_deps) in
         (* the property does not care about batching: accepted iff the union is acyclic *)
         check_commit li "commit" gq deps ok;
         if ok then apply_batch w { gq with dgg_deps = gq.dgg_deps @ deps } (List.rev w.q_tps) deps;
         clear_queue w)
    | Some ("dg_add", a) ->
      (match expect li "add d=" with
       | None -> ()
       | Some l ->
         let ok = (tok_val (toks_of l) "ok" = Some "1") in
         let d = dep_of_args a in
         check_commit li "add" w.g [d] ok;
         if ok then apply_batch w { w.g with dgg_deps = w.g.dgg_deps @ [d] } [] [d])
    | Some ("dg_del", a) ->
      (match expect li "del d=" with
       | None -> ()
       | Some l ->
         let ok = (tok_val (toks_of l) "ok" = Some "1") in
         (match find_dep w (num a "d" 0) with
          | Some d -> if ok then remove_dep w d else fail (Printf.sprintf "step=%d delete-failed" li)
          | None -> if ok then fail (Printf.sprintf "step=%d deleted-unknown-dependency" li)))
    | Some ("dg_set", a) ->
      (match expect li "set n=" with
       | None -> ()
       | Some l ->
         (* the status is an INPUT of the property: take what the implementation reports *)
         let t = toks_of l in
         let geti k = match tok_val t k with Some v -> int_of_string v | None -> -1 in
         Hashtbl.replace w.status (num a "n" 0)
           { dgs_checked = (geti "chk" = 1); dgs_state = z_of_int (geti "s"); dgs_hard = (geti "h" = 1) })
    | Some ("dg_po", a) ->
      (match expect li "po p=" with
       | None -> ()
       | Some l -> Hashtbl.replace w.popen (num a "p" 0) (tok_val (toks_of l) "open" = Some "1"))
    | Some ("dg_q", a) when has a "n" ->
      (* single-node query (long chains): covered by the correspondence run only *)
      ignore (expect li (Printf.sprintf "r n=%d " (num a "n" 0)))
    | Some ("dg_q", _) ->
      let obs = Hashtbl.create 32 in
      List.iter (fun n ->
        match expect li (Printf.sprintf "r n=%d " n) with
        | None -> ()
        | Some l ->
          let bits = List.nth (toks_of l) 2 in
          if String.length bits <> 3 then fail (Printf.sprintf "step=%d malformed %s" li l) else
          List.iteri (fun i a -> Hashtbl.replace obs (n, a) (bits.[i] = '1')) [DgState; DgChecks; DgNotif]) (sorted_nodes w);
      if !err = None then begin
        let obsf a c = match Hashtbl.find_opt obs (int_of_nat c, a) with Some b -> b | None -> false in
        match dg_oracle_reach w.g (st_fun w) (po_fun w) (compute_ranks w.g) obsf with
        | None -> ()
        | Some (c, a) ->
          fail (Printf.sprintf "step=%d reachability node=%s aspect=%s observed=%d statement=%d" li (ns c) (zs (dg_aspect_num a))
                  (if obsf a c then 1 else 0) (if dg_local w.g (st_fun w) (po_fun w) obsf a c then 1 else 0))
      end
    | Some ("dg_g", _) ->
      let fresh = dg_reg_fresh w.g.dgg_deps in
      let want = group_lines w fresh false in
      List.iter (fun wl ->
        if !err = None then
        let pfx = if String.length wl >= 2 && String.sub wl 0 2 = "g " then "g " else "reg " in
        match expect li pfx with
        | None -> ()
        | Some l -> if strip_st l <> wl then fail (Printf.sprintf "step=%d grouping observed=[%s] fresh-load=[%s]" li (strip_st l) wl)) want
    | _ -> ()) script;
  (match !err, !tr with
   | None, l :: _ when is_bad_line l -> fail ("crash " ^ l)
   | None, l :: _ -> fail ("extra-observation " ^ l)
   | _ -> ());
  !err

let () =
  register_op "dg_host" (fun a -> let w = !dgw in w.q_hosts <- num a "n" 0 :: w.q_hosts);
  register_op "dg_svc" (fun a -> let w = !dgw in w.q_svcs <- (num a "n" 0, num a "h" 0, str a "via" "obj" = "apply") :: w.q_svcs);
  register_op "dg_tp" (fun a -> let w = !dgw in w.q_tps <- (num a "p" 0, num a "open" 1 <> 0) :: w.q_tps);
  register_op "dg_dep" (fun a -> let w = !dgw in w.q_deps <- (dep_of_args a, str a "via" "obj" = "apply") :: w.q_deps);
  register_op "dg_commit" op_dg_commit;
  register_op "dg_add" op_dg_add;
  register_op "dg_del" op_dg_del;
  register_op "dg_set" op_dg_set;
  register_op "dg_po" op_dg_po;
  register_op "dg_q" op_dg_q;
  register_op "dg_g" op_dg_g;
  register_case_end (fun () -> dgw := dg_fresh_world ());
  register_oracle "C07" oracle_c07_case
