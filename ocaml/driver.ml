(* vmodel: runs the extracted Coq model on the same operation scripts as vdrive and prints the
   same canonical observation lines.  Hand-written glue: script parsing, Z<->int, printing. *)
open Model

let rec pos_of_int n = if n = 1 then XH else if n land 1 = 0 then XO (pos_of_int (n lsr 1)) else XI (pos_of_int (n lsr 1))
let z_of_int n = if n = 0 then Z0 else if n > 0 then Zpos (pos_of_int n) else Zneg (pos_of_int (-n))
let rec int_of_pos = function XH -> 1 | XO p -> 2 * int_of_pos p | XI p -> 2 * int_of_pos p + 1
let int_of_z = function Z0 -> 0 | Zpos p -> int_of_pos p | Zneg p -> - (int_of_pos p)
let zs z = string_of_int (int_of_z z)

type args = { pos : string list; kv : (string * string) list }
let parse_line line =
  let toks = List.filter (fun s -> s <> "") (String.split_on_char ' ' line) in
  match toks with
  | [] -> None
  | op :: rest ->
    let pos = ref [] and kv = ref [] in
    List.iter (fun t ->
      match String.index_opt t '=' with
      | Some i when i > 0 -> kv := (String.sub t 0 i, String.sub t (i+1) (String.length t - i - 1)) :: !kv
      | _ -> pos := t :: !pos) rest;
    Some (op, { pos = List.rev !pos; kv = !kv })
let has a k = List.mem_assoc k a.kv
let str a k d = try List.assoc k a.kv with Not_found -> d
let num a k d = try int_of_string (List.assoc k a.kv) with Not_found -> d
(* times arrive as whole seconds (possibly written with .0); the model's unit is the second *)
let tnum s = int_of_float (float_of_string s)

let out = ref stdout
let emit s = output_string !out s; output_char !out '\n'

let obs_filter : string list option ref = ref None   (* event prefixes to print; None = all *)
let ev_on p = match !obs_filter with None -> true | Some l -> List.mem p l

(* ---------------- checkable fixture (C01 ...) ---------------- *)
let now = ref 0
let ck_cfg = ref { c_kind = KHost; c_max = z_of_int 3; c_volatile = false }
let ck_st = ref pending
let sstate_of_int = function 0 -> SOK | 1 -> SWarning | 2 -> SCritical | _ -> SUnknown
let triple (a, b, c) = Printf.sprintf "%s/%s/%s" (zs (fst a)) (zs (snd a)) (zs c) [@@warning "-27"]
let vars ((a, b), c) = Printf.sprintf "%s/%s/%s" (zs a) (zs b) (zs c)

let op_ck_new a =
  ck_cfg := { c_kind = (if str a "kind" "host" = "svc" then KService else KHost);
              c_max = z_of_int (num a "max" 3); c_volatile = (num a "vol" 0 <> 0) };
  ck_st := pending

let state_line k (s : st) =
  Printf.sprintf "st=%s ty=%s at=%s lh=%s" (zs (api_state k s.s_raw)) (zs (stype_num s.s_type)) (zs s.s_attempt)
    (zs (api_state k s.s_last_hard_raw))

let op_cr a =
  if str a "on" "" = "host" then emit "hostcr 0" else begin
  let r = { r_state = sstate_of_int (num a "state" 0);
            r_start = z_of_int (if has a "start" then tnum (str a "start" "0") else !now);
            r_end = z_of_int (if has a "end" then tnum (str a "end" "0") else !now) } in
  let pre = !ck_st in
  let (post, io) = step !ck_cfg (z_of_int !now) pre r in
  ck_st := post;
  let k = (!ck_cfg).c_kind in
  match io with
  | None -> emit (Printf.sprintf "cr res=3 %s" (state_line k post))
  | Some i ->
    let o = observe !ck_cfg pre post i in
    let b = Buffer.create 80 in
    Buffer.add_string b (Printf.sprintf "cr res=0 st=%s ty=%s at=%s lh=%s ph=%s vb=%s va=%s"
      (zs o.o_state) (zs o.o_type) (zs o.o_attempt) (zs o.o_last_hard) (zs o.o_prev_hard)
      (match o.o_vars_before with None -> "-" | Some v -> vars v) (vars o.o_vars_after));
    if ev_on "ncr" then Buffer.add_string b " ncr";
    if ev_on "sc" then (match int_of_z o.o_event with 2 -> Buffer.add_string b " sc=H" | 1 -> Buffer.add_string b " sc=S" | _ -> ());
    emit (Buffer.contents b)
  end

(* ---------------- dispatch ---------------- *)
let handle op a =
  match op with
  | "case" -> emit ("case " ^ List.hd a.pos)
  | "end" -> emit "end"
  | "obs" -> obs_filter := Some a.pos
  | "now" -> now := tnum (List.hd a.pos)
  | "ck_new" -> op_ck_new a
  | "cr" -> op_cr a
  | _ -> prerr_endline ("vmodel: unknown op " ^ op); exit 2

(* ---------------- oracle mode: evaluate the extracted property oracle on IMPLEMENTATION traces ------ *)
let read_cases file =
  (* -> list of (case id, lines) in file order *)
  let ic = open_in file in
  let res = ref [] and cur = ref None and acc = ref [] in
  (try while true do
    let l = input_line ic in
    if String.length l > 5 && String.sub l 0 5 = "case " then begin
      cur := Some (int_of_string (String.trim (String.sub l 5 (String.length l - 5)))); acc := [] end
    else if l = "end" then begin
      (match !cur with Some id -> res := (id, List.rev !acc) :: !res | None -> ()); cur := None end
    else if !cur <> None then acc := l :: !acc
  done with End_of_file -> ());
  close_in ic; List.rev !res

let tok_val toks k =
  let pfx = k ^ "=" in
  let n = String.length pfx in
  let rec go = function
    | [] -> None
    | t :: r -> if String.length t >= n && String.sub t 0 n = pfx then Some (String.sub t n (String.length t - n)) else go r in
  go toks
let toks_of l = List.filter (fun s -> s <> "") (String.split_on_char ' ' l)
let is_bad_line l =
  let starts p = String.length l >= String.length p && String.sub l 0 (String.length p) = p in
  starts "CRASH" || starts "HANG" || starts "NOT-RUN" || starts "HARNESS-ERROR" || starts "NOEND" || starts "MISSING"

let oracle_c01_case script trace =
  (* script: op lines; trace: implementation observation lines *)
  let cfg = ref { c_kind = KHost; c_max = z_of_int 3; c_volatile = false } in
  let now = ref 0 in
  let steps = ref [] in           (* accepted osteps, newest first *)
  let last_start = ref None in
  let last_state = ref "" in
  let err = ref None in
  let tr = ref trace in
  let fail m = if !err = None then err := Some m in
  List.iteri (fun li line ->
    match parse_line line with
    | Some ("ck_new", a) -> cfg := { c_kind = (if str a "kind" "host" = "svc" then KService else KHost);
                                     c_max = z_of_int (num a "max" 3); c_volatile = (num a "vol" 0 <> 0) }
    | Some ("now", a) -> now := tnum (List.hd a.pos)
    | Some ("cr", a) when str a "on" "" <> "host" ->
      (match !tr with
       | [] -> fail (Printf.sprintf "step=%d missing-observation" li)
       | l :: rest ->
         tr := rest;
         if is_bad_line l then fail (Printf.sprintf "step=%d crash %s" li l) else begin
         let t = toks_of l in
         let geti k = match tok_val t k with Some v -> int_of_string v | None -> -1 in
         let res = geti "res" in
         let start = if has a "start" then tnum (str a "start" "0") else !now in
         let stale = (match !last_start with Some ls -> ls <= !now && start < ls | None -> false) in
         let stline = String.concat " " (List.filter (fun x -> List.exists (fun p -> String.length x > 3 && String.sub x 0 3 = p) ["st="; "ty="; "at="; "lh="]) t) in
         if res = 3 then begin
           if not stale then fail (Printf.sprintf "step=%d rejected-but-not-stale" li);
           if stline <> !last_state then fail (Printf.sprintf "step=%d rejected-result-changed-state" li)
         end else if res = 0 then begin
           if stale then fail (Printf.sprintf "step=%d stale-result-accepted" li);
           last_start := Some start; last_state := stline;
           let ev = match tok_val t "sc" with Some "H" -> 2 | Some "S" -> 1 | _ -> 0 in
           steps := { os_result = sstate_of_int (num a "state" 0); os_type = z_of_int (geti "ty");
                      os_attempt = z_of_int (geti "at"); os_state = z_of_int (geti "st"); os_event = z_of_int ev } :: !steps
         end else fail (Printf.sprintf "step=%d unexpected-result-code-%d" li res)
         end)
    | _ -> ()) script;
  match !err with
  | Some m -> Some m
  | None ->
    (match oracle_c01 !cfg (List.rev !steps) with
     | None -> None
     | Some idx -> Some (Printf.sprintf "accepted-result=%s violates-C01" (zs idx)))

let oracles : (string * (string list -> string list -> string option)) list ref = ref [ ("C01", oracle_c01_case) ]

let run_oracle pid scriptf tracef outf =
  let f = try List.assoc pid !oracles with Not_found -> (prerr_endline ("no oracle for " ^ pid); exit 2) in
  let scripts = read_cases scriptf and traces = read_cases tracef in
  let oc = open_out outf in
  List.iter (fun (id, sl) ->
    let tl = try List.assoc id traces with Not_found -> ["MISSING"] in
    match f sl tl with
    | None -> Printf.fprintf oc "oracle %d ok\n" id
    | Some m -> Printf.fprintf oc "oracle %d %s\n" id m) scripts;
  close_out oc

let () =
  if Array.length Sys.argv > 1 && Sys.argv.(1) = "--oracle" then begin
    run_oracle Sys.argv.(2) Sys.argv.(3) Sys.argv.(4) Sys.argv.(5); exit 0 end;
  let ic = open_in Sys.argv.(1) in
  if Array.length Sys.argv > 2 then out := open_out Sys.argv.(2);
  (try
    while true do
      let line = input_line ic in
      if String.length line > 0 && line.[0] <> '#' then
        match parse_line line with
        | Some (op, a) -> handle op a
        | None -> ()
    done
  with End_of_file -> ());
  flush !out
