(* vmodel entry point: dispatches script ops to the registered handlers (ops_*.ml). *)
open Vcore

let handle op a =
  match op with
  | "case" -> case_id := int_of_string (List.hd a.pos); emit ("case " ^ List.hd a.pos)
  | "end" -> List.iter (fun f -> f ()) !case_end_hooks; emit "end"
  | "obs" -> obs_filter := Some a.pos
  | "now" -> now := tnum (List.hd a.pos)
  | _ ->
    (match Hashtbl.find_opt ops op with
     | Some f -> f a
     | None -> prerr_endline ("vmodel: unknown op " ^ op); exit 2)

let run_oracle pid scriptf tracef outf =
  let f = match Hashtbl.find_opt oracles pid with Some f -> f | None -> (prerr_endline ("no oracle for " ^ pid); exit 2) in
  let scripts = read_cases scriptf and traces = read_cases tracef in
  let oc = open_out outf in
  List.iter (fun (id, sl) ->
    let tl = try List.assoc id traces with Not_found -> ["MISSING"] in
    match (try f sl tl with e -> Some ("oracle-exception " ^ Printexc.to_string e)) with
    | None -> Printf.fprintf oc "oracle %d ok\n" id
    | Some m -> Printf.fprintf oc "oracle %d %s\n" id m) scripts;
  close_out oc

let () =
  if Array.length Sys.argv > 1 && Sys.argv.(1) = "--oracle" then begin
    run_oracle Sys.argv.(2) Sys.argv.(3) Sys.argv.(4) Sys.argv.(5); exit 0 end;
  let ic = open_in Sys.argv.(1) in
  if Array.length Sys.argv > 2 then out := open_out Sys.argv.(2);
  (try
    while true do
      let line = input_line ic in
      if String.length line > 0 && line.[0] <> '#' then
        match parse_line line with
        | Some (op, a) -> handle op a
        | None -> ()
    done
  with End_of_file -> ());
  flush !out
