(* C02: runs the extracted Gallina oracle (Ck/CkSuppObs.v: oracle_c02) over IMPLEMENTATION traces of the combined
   checkable fixture.  Hand-written here: rebuilding, per step, the state record the oracle's observation function
   reads.  Everything the trace line shows (state type, attempt, acknowledgement + expiry, suppressed bits,
   state_before_suppression, flapping, downtime trigger times) is taken from the implementation's line; what the
   line does not show and C02 does not decide (raw state = the result fed, parent host state, next check, pause
   flag, start time of the last accepted result) follows the script. *)
open Model
open Vcore

let c02_code_name = function
  | 1 -> "two-state-notifications-in-one-step"
  | 2 -> "state-notification-while-suppressed-or-paused"
  | 3 -> "remembered-state-overwritten"
  | 4 -> "suppressed-bits-changed-by-unrelated-operation"
  | 10 -> "request-or-stash-rule"
  | 11 -> "recovery-from-soft-state-volatile"
  | 21 -> "released-by-raw-state-comparison"
  | 22 -> "release-rule"
  | 30 | 31 -> "flapping-notification-on-result"
  | 32 | 33 -> "flapping-notification-on-timer"
  | 34 -> "flapping-bits-changed-by-unrelated-operation"
  | _ -> "unknown"

let oracle_c02_case script trace =
  let cfg = ref !Ops_ckfull.fcfg in
  let shadow = ref init_full in
  (* Vcore.now is what Ops_ckfull.parse_op stamps results with *)
  let obs = ref [] in            (* newest first *)
  let lines = ref [] in
  let err = ref None in
  let tr = ref trace in
  let started = ref false in
  let fail m = if !err = None then err := Some m in
  List.iteri (fun li line ->
    if !err = None then
    match parse_line line with
    | Some ("now", a) -> now := tnum (List.hd a.pos)
    | Some ("ckf_new", a) ->
      cfg := { fc_base = { c_kind = (if str a "kind" "host" = "svc" then KService else KHost);
                           c_max = z_of_int (num a "max" 3); c_volatile = (num a "vol" 0 <> 0) };
               fc_flap_enabled = (num a "flap" 0 <> 0); fc_flap_high = z_of_int 3005; fc_flap_low = z_of_int 2505;
               fc_active_checks = (num a "active" 0 <> 0); fc_check_interval = z_of_int (num a "ci" 300) };
      shadow := init_full; started := true
    | Some (name, a) when !started ->
      let opo = if name = "ackread" then Some OpAckRead else Ops_ckfull.parse_op name a in
      (match opo with
       | None -> ()
       | Some o ->
         (match !tr with
          | [] -> fail (Printf.sprintf "step=%d missing-observation crash" li)
          | l :: rest ->
            tr := rest;
            if is_bad_line l then fail (Printf.sprintf "step=%d crash %s" li l) else begin
            let t = toks_of l in
            if (match t with n :: _ -> n <> name | [] -> true) then fail (Printf.sprintf "step=%d trace-desync crash" li) else begin
            let geti k = match tok_val t k with Some v -> (try int_of_string v with _ -> -1) | None -> -1 in
            let pre = !shadow in
            let znow = z_of_int !now in
            let (m, _) = full_step !cfg znow pre o in
            let refused5 = List.mem "ref=5" t in
            let st_post =
              (match o with
               | OpResult r when not refused5 ->
                 let (s', _) = step_accept (!cfg).fc_base pre.f_st r in s'
               | _ -> pre.f_st) in
            let st_post = { st_post with s_type = (if geti "ty" = 1 then Hard else Soft); s_attempt = z_of_int (geti "at") } in
            let supp = geti "supp" in
            let bit b = supp land b <> 0 in
            let dts_obs =
              (match tok_val t "dts" with
               | None | Some "-" -> []
               | Some s -> List.filter_map (fun e -> match String.split_on_char ':' e with
                                             | [i; tr] -> (try Some (int_of_string i, int_of_string tr) with _ -> None)
                                             | _ -> None) (String.split_on_char ',' s)) in
            let dts = List.filter_map (fun d ->
                match List.assoc_opt (int_of_z d.d_id) dts_obs with
                | Some trg -> Some { d with d_trigger = z_of_int trg }
                | None -> None) m.f_dts in
            let post = { m with
                         f_st = st_post;
                         f_ack = (match geti "ack" with 1 -> AckNormal | 2 -> AckSticky | _ -> AckNone);
                         f_ack_expiry = z_of_int (max 0 (geti "exp"));
                         f_dts = dts;
                         f_sp_problem = bit 32; f_sp_recovery = bit 64; f_sp_fstart = bit 128; f_sp_fend = bit 256;
                         f_sbs = Ops_ckfull.sstate_of_int (geti "sbs");
                         f_flap = { m.f_flap with fl_flapping = (geti "fl" = 1) } } in
            let nrs = List.filter_map (fun x -> if String.length x > 3 && String.sub x 0 3 = "nr="
                                         then (try Some (int_of_string (String.sub x 3 (String.length x - 3))) with _ -> None) else None) t in
            let sn = List.sort compare (List.filter (fun n -> n = 32 || n = 64) nrs) in
            let fn = List.sort compare (List.filter (fun n -> n = 128 || n = 256) nrs) in
            let kind, nw = (match o with
                | OpResult r -> ((if refused5 then 3 else 1), r.r_state)
                | OpFire -> (2, SOK)
                | _ -> (3, SOK)) in
            let ob = c02_mk_obs !cfg znow (z_of_int kind) nw pre post (List.map z_of_int sn) (List.map z_of_int fn) in
            if Sys.getenv_opt "C02_DEBUG" <> None then
              prerr_endline (Printf.sprintf "%s k=%s paused=%b reason=%b rel=%b go=%b indt=%b hard0=%b hard1=%b p0=%b r0=%b p1=%b r1=%b sn=%d"
                name (zs ob.c2_kind) ob.c2_paused ob.c2_reason ob.c2_relcond ob.c2_flapgo ob.c2_indt ob.c2_hard0 ob.c2_hard1 ob.c2_p0 ob.c2_r0 ob.c2_p1 ob.c2_r1 (List.length ob.c2_sn));
            if Sys.getenv_opt "C02_DEBUG" <> None then
              prerr_endline (Printf.sprintf "   likely=%b precent=%b hascr=%b crstart=%s plsc=%s pchk=%b nc=%s"
                (likely_checked_soon !cfg znow pre) (parent_recovered_recently pre) pre.f_st.s_has_cr (zs pre.f_st.s_cr_start) (zs pre.f_parent_lsc) pre.f_parent_checked (zs pre.f_next_check));
            obs := ob :: !obs;
            lines := (li, name, ob) :: !lines;
            shadow := post
            end end))
    | _ -> ()) script;
  match !err with
  | Some m -> Some m
  | None ->
    (match oracle_c02 (!cfg).fc_base (List.rev !obs) with
     | None -> None
     | Some (idx, code) ->
       let i = int_of_z idx and c = int_of_z code in
       let (li, name, ob) = List.nth (List.rev !lines) i in
       let sn s = Ops_ckfull.sstate_num s in
       Some (Printf.sprintf "step=%d line=%d op=%s code=%d %s kind=%s vol=%d raw0=%d hard0=%d sbs0=%d new=%d paused=%d reason=%d"
               i li name c (c02_code_name c)
               (match (!cfg).fc_base.c_kind with KHost -> "host" | KService -> "svc")
               (if (!cfg).fc_base.c_volatile then 1 else 0)
               (sn ob.c2_raw0) (if ob.c2_hard0 then 1 else 0) (sn ob.c2_sbs0) (sn ob.c2_new)
               (if ob.c2_paused then 1 else 0) (if ob.c2_reason then 1 else 0)))

let () = register_oracle "C02" oracle_c02_case
