open Model
open Vcore

(* ---------------- C12 replay log fixture: glue between script lines and the extracted model ---------------- *)
let rec nat_of_int n = if n <= 0 then O else S (nat_of_int (n - 1))
let rec int_of_nat = function O -> 0 | S n -> 1 + int_of_nat n
let zl_of_string s = List.map (fun c -> z_of_int (Char.code c)) (List.of_seq (String.to_seq s))
let string_of_zl l = String.init (List.length l) (fun i -> Char.chr ((int_of_z (List.nth l i)) land 255))
let string_of_zl l = let b = Buffer.create 64 in List.iter (fun z -> Buffer.add_char b (Char.chr ((int_of_z z) land 255))) l; Buffer.contents b

let rl_zone i p g = { rl_z_id = z_of_int i; rl_z_parent = z_of_int p; rl_z_global = g }
let rl_objs =
  List.map (fun (k, z) -> ((zl_of_string "CheckCommand", zl_of_string ("rl-" ^ k)), z_of_int z))
    [("op", 0); ("om", 1); ("oa", 2); ("ob", 3); ("oc", 4); ("og", 5)]
  @ List.map (fun (k, z) -> ((zl_of_string "Zone", zl_of_string ("rl-" ^ k)), z_of_int z))
    [("zp", 0); ("zm", 1); ("za", 2); ("zb", 3); ("zc", 4); ("zg", 5)]
let rl_topo0 = { rl_t_zones = [rl_zone 0 (-1) false; rl_zone 1 0 false; rl_zone 2 1 false; rl_zone 3 1 false; rl_zone 4 2 false; rl_zone 5 (-1) true];
                 rl_t_local = z_of_int 1; rl_t_objs = rl_objs }
let rl_ep_zones = [1; 0; 2; 2; 3; 4]   (* m2 p1 a1 a2 b1 c1 *)
let rl_sec_of_key k =
  if k = "-" || k = "" then None
  else if k.[0] = 'z' then Some (zl_of_string "Zone", zl_of_string ("rl-" ^ k))
  else Some (zl_of_string "CheckCommand", zl_of_string ("rl-" ^ k))

let rl_mk_state durs =
  { rl_files = []; rl_cur = []; rl_lmt = z_of_int !now; rl_cnt = Z0;
    rl_eps = List.mapi (fun i z -> { rl_ep_id = z_of_int (i + 1); rl_ep_zone = z_of_int z; rl_ep_dur = z_of_int (List.nth durs i);
                                     rl_ep_pos = Z0; rl_ep_rpos = Z0; rl_ep_conn = false; rl_ep_sync = false }) rl_ep_zones }
let rl_state = ref (rl_mk_state [86400; 86400; 86400; 86400; 86400; 86400])

let find_num s key =
  let kl = String.length key and sl = String.length s in
  let rec find i = if i + kl > sl then -1 else if String.sub s i kl = key then i + kl else find (i + 1) in
  let p = find 0 in
  if p < 0 || p >= sl || not (s.[p] >= '0' && s.[p] <= '9') then -1
  else begin
    let v = ref 0 and q = ref p and n = ref 0 in
    while !q < sl && s.[!q] >= '0' && s.[!q] <= '9' && !n < 15 do v := !v * 10 + (Char.code s.[!q] - 48); incr q; incr n done;
    !v end

let rl_item_string = function
  | RlOutPos p -> "P" ^ zs p
  | RlOutMsg m ->
    let s = string_of_zl m in
    let sum = ref 0 in String.iter (fun c -> sum := (!sum + Char.code c) land 0xffff) s;
    Printf.sprintf "M%d:%d:%d:%d" (String.length s) !sum (find_num s "\"id\":") (find_num s "\"ts\":")
let rl_items l = if l = [] then "-" else String.concat "," (List.map rl_item_string l)

let rl_get id = match rl_get_ep (!rl_state).rl_eps (z_of_int id) with Some e -> e | None -> failwith "no such endpoint"

let op_rl_init a =
  let durs = List.map int_of_string (String.split_on_char ',' (str a "dur" "86400,86400,86400,86400,86400,86400")) in
  rl_state := rl_mk_state durs

let op_rl_relay a =
  let id = num a "id" 0 in
  let msg = rl_mk_msg (z_of_int id) (z_of_int !now) in
  let r = rl_relay rl_topo0 (z_of_int !now) (rl_sec_of_key (str a "sec" "-")) msg !rl_state in
  rl_state := r.rl_rl_st;
  let live = List.sort compare (List.map int_of_z r.rl_rl_live) in
  let ls = String.concat ";" (List.map (fun i -> Printf.sprintf "%d=%s" i (rl_item_string (RlOutMsg msg))) live) in
  emit (Printf.sprintf "rl_relay logged=%d live=%s" (if r.rl_rl_logged then 1 else 0) (if ls = "" then "-" else ls))

let op_rl_conn a =
  let id = num a "e" 0 in
  let mirror =
    if num a "mirror" 0 <> 0 then begin
      let r1 = rl_replay rl_topo0 (z_of_int !now) (rl_get id) !rl_state in
      rl_state := rl_feed_acks (z_of_int id) r1.rl_rr_out r1.rl_rr_st;
      " mirror=" ^ rl_items r1.rl_rr_out end
    else "" in
  let r = rl_replay rl_topo0 (z_of_int !now) (rl_get id) !rl_state in
  rl_state := r.rl_rr_st;
  emit (Printf.sprintf "rl_conn e=%d%s out=%s%s" id mirror (rl_items r.rl_rr_out) (if r.rl_rr_done then "" else " NOTDONE"))

let op_rl_disc a =
  let st = !rl_state in
  rl_state := rl_set_eps st (rl_upd_ep (rl_ep_set_conn false false) (z_of_int (num a "e" 0)) st.rl_eps)

let op_rl_rotate _ = rl_state := rl_rotate_cycle (z_of_int !now) !rl_state
let op_rl_restart a = rl_state := rl_restart (num a "clean" 0 <> 0) (z_of_int !now) !rl_state

let op_rl_ack a =
  let id = num a "e" 0 in
  if (rl_get id).rl_ep_conn then rl_state := rl_ack (z_of_int id) (z_of_int (num a "p" 0)) !rl_state

let op_rl_recv a =
  let id = num a "e" 0 in
  if (rl_get id).rl_ep_conn then begin
    let (acc, st) = rl_recv (z_of_int id) (z_of_int (num a "ts" 0)) !rl_state in
    rl_state := st;
    emit (Printf.sprintf "rl_recv e=%d accepted=%d" id (if acc then 1 else 0)) end

let op_rl_timer _ =
  rl_state := rl_cleanup rl_topo0 (z_of_int !now) !rl_state;
  let acks = List.map (fun (i, p) -> Printf.sprintf "%s=P%s" (zs i) (zs p)) (rl_timer_acks !rl_state) in
  emit ("rl_timer acks=" ^ (if acks = [] then "-" else String.concat ";" acks))

let rl_damage a f =
  let st = !rl_state in
  let st' = if str a "f" "cur" = "cur" then rl_map_cur f st else rl_map_file (z_of_int (int_of_string (str a "f" "0"))) f st in
  rl_state := rl_open (z_of_int !now) st'
let op_rl_trunc a = rl_damage a (rl_truncate_bytes (z_of_int (num a "k" 0)))
let op_rl_corrupt a = rl_damage a (rl_set_byte (nat_of_int (num a "k" 0)) (z_of_int (num a "b" 0)));
  if num a "lax" 0 <> 0 then emit "rl_corrupt lax"

let op_rl_ls _ =
  let st = !rl_state in
  let fs = List.map (fun (n, b) -> Printf.sprintf "%s:%d" (zs n) (List.length b)) st.rl_files in
  let eps = List.map (fun e -> Printf.sprintf "%s/%s/%d%d" (zs e.rl_ep_pos) (zs e.rl_ep_rpos) (if e.rl_ep_conn then 1 else 0) (if e.rl_ep_sync then 1 else 0)) st.rl_eps in
  emit (Printf.sprintf "rl_ls files=%s cur=%d eps=%s lmt=%s" (if fs = [] then "-" else String.concat "," fs) (List.length st.rl_cur)
          (String.concat "," eps) (zs st.rl_lmt))


(* ---------------- oracle: the extracted Gallina checks (RlObs.v) over the IMPLEMENTATION's trace ---------------- *)
let rl_digest_entry e = { e with rl_e_msg = zl_of_string (rl_item_string (RlOutMsg e.rl_e_msg)) }
let split_on c s = if s = "-" || s = "" then [] else String.split_on_char c s

let oracle_c12_case script trace =
  out := open_out "/dev/null";
  let tr = ref trace and err = ref None in
  let fail m = if !err = None then err := Some m in
  let pop () = match !tr with
    | [] -> fail "crash missing-observation"; ""
    | l :: r -> tr := r; if is_bad_line l then fail ("crash " ^ l); l in
  let main = ref !rl_state and intact = ref !rl_state in
  let on st f = rl_state := !st; f (); st := !rl_state in
  let both f = on main f; on intact f in
  let obs_eps : (int * int) array ref = ref [||] and obs_files = ref [] and obs_cur = ref 0 and have_obs = ref false in
  let damaged = ref false and corrupted = ref false in
  let pending_timer = ref None and pending_restart = ref None in
  let eps_obs () = List.mapi (fun i e -> if !have_obs && i < Array.length !obs_eps
                                then { e with rl_ep_pos = z_of_int (fst (!obs_eps).(i)); rl_ep_rpos = z_of_int (snd (!obs_eps).(i)) } else e) (!main).rl_eps in
  List.iter (fun line -> if !err = None then
    match parse_line line with
    | Some ("now", a) -> now := tnum (List.hd a.pos)
    | Some ("rl_init", a) -> both (fun () -> op_rl_init a); damaged := false; corrupted := false; have_obs := false;
                             pending_timer := None; pending_restart := None
    | Some ("rl_relay", a) -> ignore (pop ()); both (fun () -> op_rl_relay a)
    | Some ("rl_conn", a) ->
      let l = pop () in
      if !err = None then begin
        let id = num a "e" 0 in
        let ep = List.nth (eps_obs ()) (id - 1) in
        let items = split_on ',' (match tok_val (toks_of l) "out" with Some v -> v | None -> "-") in
        let msgs = List.filter (fun s -> String.length s > 0 && s.[0] = 'M') items in
        let delivered = List.map zl_of_string msgs in
        let pos = int_of_z ep.rl_ep_pos in
        List.iter (fun m -> match String.split_on_char ':' m with
                    | [_; _; _; ts] when int_of_string ts >= 0 && int_of_string ts <= pos && not !damaged ->
                      fail (Printf.sprintf "resend e=%d pos=%d item=%s" id pos m)
                    | _ -> ()) msgs;
        if int_of_z ep.rl_ep_dur = 0 then begin
          if msgs <> [] then fail (Printf.sprintf "replay-mismatch e=%d log_duration=0 but got=%s" id (String.concat "," msgs)) end
        else if not !damaged then begin
          let log = List.map rl_digest_entry (rl_log_entries !main) in
          if not (rl_or_replay rl_topo0 ep.rl_ep_zone ep.rl_ep_pos log delivered) then
            fail (Printf.sprintf "%s e=%d pos=%d got=%s" (if num a "mirror" 0 <> 0 then "replay-setlogposition-acks-wrong-log" else "replay-mismatch")
                    id pos (String.concat "," msgs)) end
        else begin
          let log = List.map rl_digest_entry (rl_log_entries !intact) in
          if not (rl_or_damaged rl_topo0 ep.rl_ep_zone ep.rl_ep_pos log delivered) then begin
            if !corrupted && not (rl_strict_b (rl_log_entries !main)) then
              fail (Printf.sprintf "corrupt-timestamp-hides-later-entries e=%d pos=%d got=%s" id pos (String.concat "," msgs))
            else fail (Printf.sprintf "damaged-intact-missing e=%d pos=%d got=%s" id pos (String.concat "," msgs)) end end
      end;
      both (fun () -> op_rl_conn a)
    | Some ("rl_ls", _) ->
      let l = pop () in
      if !err = None then begin
        let t = toks_of l in
        let files = List.map (fun s -> match String.split_on_char ':' s with [n; z] -> (int_of_string n, int_of_string z) | _ -> (0, 0))
                      (split_on ',' (match tok_val t "files" with Some v -> v | None -> "-")) in
        let cur = match tok_val t "cur" with Some v -> int_of_string v | None -> 0 in
        let eps = Array.of_list (List.map (fun s -> match String.split_on_char '/' s with p :: r :: _ -> (int_of_string p, int_of_string r) | _ -> (0, 0))
                      (split_on ',' (match tok_val t "eps" with Some v -> v | None -> "-"))) in
        (match !pending_timer with
         | Some (tnow, before, eps0) ->
           if not (rl_or_cleanup rl_topo0 (z_of_int tnow) eps0 (List.map z_of_int before) (List.map (fun (n, _) -> z_of_int n) files)) then
             fail (Printf.sprintf "cleanup-unsafe now=%d before=%s after=%s" tnow (String.concat "," (List.map string_of_int before))
                     (String.concat "," (List.map (fun (n, _) -> string_of_int n) files)))
         | None -> ());
        (match !pending_restart with
         | Some (bf, bc) ->
           let zp = List.map (fun (n, z) -> (z_of_int n, z_of_int z)) in
           if not (rl_or_restart (zp bf) (zp files) (z_of_int bc) (z_of_int cur)) then fail "restart-lost files or current changed across a crash restart"
         | None -> ());
        pending_timer := None; pending_restart := None;
        obs_eps := eps; obs_files := files; obs_cur := cur; have_obs := true
      end
    | Some ("rl_timer", a) ->
      ignore (pop ());
      if !have_obs then pending_timer := Some (!now, List.map fst !obs_files, eps_obs ());
      both (fun () -> op_rl_timer a)
    | Some ("rl_restart", a) ->
      if !have_obs && num a "clean" 0 = 0 then pending_restart := Some (!obs_files, !obs_cur);
      have_obs := false;
      both (fun () -> op_rl_restart a)
    | Some ("rl_recv", a) ->
      let id = num a "e" 0 in
      rl_state := !main;
      if (rl_get id).rl_ep_conn then begin
        let l = pop () in
        if !err = None && !have_obs then begin
          let rpos = snd (!obs_eps).(id - 1) in
          let acc = (match tok_val (toks_of l) "accepted" with Some "0" -> false | _ -> true) in
          if not (rl_or_recv (z_of_int rpos) (z_of_int (num a "ts" 0)) acc) then
            fail (Printf.sprintf "receiver-accepted-old e=%d ts=%d position=%d" id (num a "ts" 0) rpos) end end;
      have_obs := false;
      both (fun () -> op_rl_recv a)
    | Some ("rl_ack", a) -> have_obs := false; both (fun () -> op_rl_ack a)
    | Some ("rl_disc", a) -> both (fun () -> op_rl_disc a)
    | Some ("rl_rotate", a) -> have_obs := false; both (fun () -> op_rl_rotate a)
    | Some ("rl_trunc", a) -> damaged := true; have_obs := false; both (fun () -> op_rl_trunc a)
    | Some ("rl_corrupt", a) ->
      damaged := true; corrupted := true; have_obs := false;
      if num a "lax" 0 <> 0 then ignore (pop ());
      on main (fun () -> op_rl_corrupt a); on intact (fun () -> op_rl_trunc a)
    | _ -> ()) script;
  !err

let () =
  register_op "rl_init" op_rl_init;
  register_op "rl_relay" op_rl_relay;
  register_op "rl_conn" op_rl_conn;
  register_op "rl_disc" op_rl_disc;
  register_op "rl_rotate" op_rl_rotate;
  register_op "rl_restart" op_rl_restart;
  register_op "rl_ack" op_rl_ack;
  register_op "rl_recv" op_rl_recv;
  register_op "rl_timer" op_rl_timer;
  register_op "rl_trunc" op_rl_trunc;
  register_op "rl_corrupt" op_rl_corrupt;
  register_op "rl_ls" op_rl_ls;
  register_oracle "C12" oracle_c12_case
