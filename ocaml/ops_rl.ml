open Model
open Vcore

(* ---------------- C12 replay log fixture: glue between script lines and the extracted model ---------------- *)
let rec nat_of_int n = if n <= 0 then O else S (nat_of_int (n - 1))
let rec int_of_nat = function O -> 0 | S n -> 1 + int_of_nat n
let zl_of_string s = List.map (fun c -> z_of_int (Char.code c)) (List.of_seq (String.to_seq s))
let string_of_zl l = String.init (List.length l) (fun i -> Char.chr ((int_of_z (List.nth l i)) land 255))
let string_of_zl l = let b = Buffer.create 64 in List.iter (fun z -> Buffer.add_char b (Char.chr ((int_of_z z) land 255))) l; Buffer.contents b

let rl_zone i p g = { rl_z_id = z_of_int i; rl_z_parent = z_of_int p; rl_z_global = g }
let rl_objs =
  List.map (fun (k, z) -> ((zl_of_string "CheckCommand", zl_of_string ("rl-" ^ k)), z_of_int z))
    [("op", 0); ("om", 1); ("oa", 2); ("ob", 3); ("oc", 4); ("og", 5)]
  @ List.map (fun (k, z) -> ((zl_of_string "Zone", zl_of_string ("rl-" ^ k)), z_of_int z))
    [("zp", 0); ("zm", 1); ("za", 2); ("zb", 3); ("zc", 4); ("zg", 5)]
let rl_topo0 = { rl_t_zones = [rl_zone 0 (-1) false; rl_zone 1 0 false; rl_zone 2 1 false; rl_zone 3 1 false; rl_zone 4 2 false; rl_zone 5 (-1) true];
                 rl_t_local = z_of_int 1; rl_t_objs = rl_objs }
let rl_ep_zones = [1; 0; 2; 2; 3; 4]   (* m2 p1 a1 a2 b1 c1 *)
let rl_sec_of_key k =
  if k = "-" || k = "" then None
  else if k.[0] = 'z' then Some (zl_of_string "Zone", zl_of_string ("rl-" ^ k))
  else Some (zl_of_string "CheckCommand", zl_of_string ("rl-" ^ k))

(* ---- the glue state: the byte-level model state (RlModel) and the record-level one (RlCompact).  Both are kept while
   both are meaningful and every observation line is computed from both (a difference is printed as RLX-SELFCHECK and so
   shows up as a mismatch): [bok] is false after an event with a large payload (the byte level is not executed on
   megabytes), [xok] is false after a byte has been overwritten (the record level has no bytes). ---- *)
type rl_glue = { b : rl_st; x : rl_xst; bok : bool; xok : bool }
let rl_mk_eps durs =
  List.mapi (fun i z -> { rl_ep_id = z_of_int (i + 1); rl_ep_zone = z_of_int z; rl_ep_dur = z_of_int (List.nth durs i);
                          rl_ep_pos = Z0; rl_ep_rpos = Z0; rl_ep_conn = false; rl_ep_sync = false }) rl_ep_zones
let rl_mk_state durs =
  { b = { rl_files = []; rl_cur = []; rl_lmt = z_of_int !now; rl_cnt = Z0; rl_eps = rl_mk_eps durs };
    x = { rl_x_files = []; rl_x_cur = []; rl_x_lmt = z_of_int !now; rl_x_cnt = Z0; rl_x_eps = rl_mk_eps durs };
    bok = true; xok = true }
let rl_g = ref (rl_mk_state [86400; 86400; 86400; 86400; 86400; 86400])
let rl_big_threshold = 4096
let rl_eps_now () = if !rl_g.bok then !rl_g.b.rl_eps else !rl_g.x.rl_x_eps

let find_num s key =
  let kl = String.length key and sl = String.length s in
  let rec find i = if i + kl > sl then -1 else if String.sub s i kl = key then i + kl else find (i + 1) in
  let p = find 0 in
  if p < 0 || p >= sl || not (s.[p] >= '0' && s.[p] <= '9') then -1
  else begin
    let v = ref 0 and q = ref p and n = ref 0 in
    while !q < sl && s.[!q] >= '0' && s.[!q] <= '9' && !n < 15 do v := !v * 10 + (Char.code s.[!q] - 48); incr q; incr n done;
    !v end

let rl_msg_string s =
  let sum = ref 0 in String.iter (fun c -> sum := (!sum + Char.code c) land 0xffff) s;
  Printf.sprintf "M%d:%d:%d:%d" (String.length s) !sum (find_num s "\"id\":") (find_num s "\"ts\":")
let rl_item_string = function
  | RlOutPos p -> "P" ^ zs p
  | RlOutMsg m -> rl_msg_string (string_of_zl m)
let rl_items l = if l = [] then "-" else String.concat "," (List.map rl_item_string l)
(* the same item for a run-length encoded message: length and byte sum from the runs; id and ts stand in the literal runs *)
let rl_xmsg_string (m : rl_rle) =
  let lits = String.concat "\001" (List.map (fun (n, p) -> if int_of_z n = 1 then string_of_zl p else "") m) in
  Printf.sprintf "M%d:%d:%d:%d" (int_of_z (rl_x_len m)) ((int_of_z (rl_x_sum m)) land 0xffff) (find_num lits "\"id\":") (find_num lits "\"ts\":")
let rl_xitem_string = function RlXPos p -> "P" ^ zs p | RlXMsg m -> rl_xmsg_string m
let rl_xitems l = if l = [] then "-" else String.concat "," (List.map rl_xitem_string l)

let rl_get id = match rl_get_ep (rl_eps_now ()) (z_of_int id) with Some e -> e | None -> failwith "no such endpoint"

(* print the observation computed from whichever levels are valid *)
let rl_emit2 lb lx =
  let g = !rl_g in
  match g.bok, g.xok with
  | true, true -> let b = lb () and x = lx () in emit b; if b <> x then emit ("RLX-SELFCHECK record-level model prints: " ^ x)
  | true, false -> emit (lb ())
  | false, true -> emit (lx ())
  | false, false -> emit "RLX-UNSUPPORTED script mixes large payloads with byte corruption"

let op_rl_init a =
  let durs = List.map int_of_string (String.split_on_char ',' (str a "dur" "86400,86400,86400,86400,86400,86400")) in
  rl_g := rl_mk_state durs

(* pad=R<n>x<hh>: a member "pad" of n bytes hh (printable ASCII) in the event's params *)
let rl_parse_pad a =
  let p = str a "pad" "-" in
  if p = "-" then (-1, 120)
  else match String.split_on_char 'x' (String.sub p 1 (String.length p - 1)) with
    | [n; h] -> (int_of_string n, int_of_string ("0x" ^ h))
    | _ -> failwith "bad pad"

let op_rl_relay a =
  let id = num a "id" 0 in
  let (pn, pc) = rl_parse_pad a in
  let xm = rl_mk_xmsg (z_of_int id) (z_of_int !now) (z_of_int pn) (z_of_int pc) in
  let g = !rl_g in
  let g = if pn > rl_big_threshold then { g with bok = false } else g in
  let sec = rl_sec_of_key (str a "sec" "-") in
  let line logged live item eps0 eps1 =
    let live = List.sort compare (List.map int_of_z live) in
    let ls = String.concat ";" (List.map (fun i -> Printf.sprintf "%d=%s" i item) live) in
    Printf.sprintf "rl_relay logged=%d live=%s conn=%s pos0=%s pos=%s" (if logged then 1 else 0) (if ls = "" then "-" else ls)
      (String.concat "" (List.map (fun e -> if e.rl_ep_conn then "1" else "0") eps0))
      (String.concat "," (List.map (fun e -> zs e.rl_ep_pos) eps0))
      (String.concat "," (List.map (fun e -> zs e.rl_ep_pos) eps1)) in
  let lb = ref "" and lx = ref "" in
  let g = if g.bok then begin
      let msg = rl_x_expand xm in
      let r = rl_relay rl_topo0 (z_of_int !now) sec msg g.b in
      lb := line r.rl_rl_logged r.rl_rl_live (rl_item_string (RlOutMsg msg)) g.b.rl_eps r.rl_rl_st.rl_eps;
      { g with b = r.rl_rl_st } end else g in
  let g = if g.xok then begin
      let r = rl_x_relay rl_topo0 (z_of_int !now) sec xm g.x in
      lx := line r.rl_xrl_logged r.rl_xrl_live (rl_xmsg_string xm) g.x.rl_x_eps r.rl_xrl_st.rl_x_eps;
      { g with x = r.rl_xrl_st } end else g in
  rl_g := g;
  rl_emit2 (fun () -> !lb) (fun () -> !lx)

let op_rl_conn a =
  let id = num a "e" 0 in
  let zid = z_of_int id and znow = z_of_int !now in
  let mirror = num a "mirror" 0 <> 0 in
  let g = !rl_g in
  let lb = ref "" and lx = ref "" in
  let g = if g.bok then begin
      let ep () = match rl_get_ep !rl_g.b.rl_eps zid with Some e -> e | None -> failwith "no such endpoint" in
      let st = ref g.b in
      let m = if mirror then begin
          let r1 = rl_replay_src rl_topo0 znow (match rl_get_ep !st.rl_eps zid with Some e -> e | None -> ep ()) !st in
          st := rl_feed_acks zid r1.rl_rr_out r1.rl_rr_st;
          " mirror=" ^ rl_items r1.rl_rr_out end else "" in
      let r = rl_replay_src rl_topo0 znow (match rl_get_ep !st.rl_eps zid with Some e -> e | None -> ep ()) !st in
      lb := Printf.sprintf "rl_conn e=%d%s out=%s%s" id m (rl_items r.rl_rr_out) (if r.rl_rr_done then "" else " NOTDONE");
      { g with b = r.rl_rr_st } end else g in
  let g = if g.xok then begin
      let get st = match rl_get_ep st.rl_x_eps zid with Some e -> e | None -> failwith "no such endpoint" in
      let st = ref g.x in
      let m = if mirror then begin
          let r1 = rl_x_replay_src rl_topo0 znow (get !st) !st in
          st := rl_x_feed_acks zid r1.rl_xrr_out r1.rl_xrr_st;
          " mirror=" ^ rl_xitems r1.rl_xrr_out end else "" in
      let r = rl_x_replay_src rl_topo0 znow (get !st) !st in
      lx := Printf.sprintf "rl_conn e=%d%s out=%s%s" id m (rl_xitems r.rl_xrr_out) (if r.rl_xrr_done then "" else " NOTDONE");
      { g with x = r.rl_xrr_st } end else g in
  rl_g := g;
  rl_emit2 (fun () -> !lb) (fun () -> !lx)

(* state-only operations: applied to both levels *)
let rl_both fb fx = let g = !rl_g in rl_g := { g with b = (if g.bok then fb g.b else g.b); x = (if g.xok then fx g.x else g.x) }

let op_rl_disc a =
  let id = z_of_int (num a "e" 0) in
  rl_both (fun st -> rl_set_eps st (rl_upd_ep (rl_ep_set_conn false false) id st.rl_eps))
          (fun st -> rl_x_set_eps st (rl_upd_ep (rl_ep_set_conn false false) id st.rl_x_eps))

let op_rl_rotate _ = rl_both (rl_rotate_cycle (z_of_int !now)) (rl_x_rotate_cycle (z_of_int !now))
let op_rl_restart a = let c = num a "clean" 0 <> 0 in rl_both (rl_restart c (z_of_int !now)) (rl_x_restart c (z_of_int !now))

let op_rl_ack a =
  let id = num a "e" 0 in
  if (rl_get id).rl_ep_conn then rl_both (rl_ack (z_of_int id) (z_of_int (num a "p" 0))) (rl_x_ack (z_of_int id) (z_of_int (num a "p" 0)))

let op_rl_recv a =
  let id = num a "e" 0 in
  if (rl_get id).rl_ep_conn then begin
    let zid = z_of_int id and ts = z_of_int (num a "ts" 0) in
    let g = !rl_g in
    let line acc = Printf.sprintf "rl_recv e=%d accepted=%d" id (if acc then 1 else 0) in
    let lb = ref "" and lx = ref "" in
    let g = if g.bok then (let (acc, st) = rl_recv zid ts g.b in lb := line acc; { g with b = st }) else g in
    let g = if g.xok then (let (acc, st) = rl_x_recv zid ts g.x in lx := line acc; { g with x = st }) else g in
    rl_g := g;
    rl_emit2 (fun () -> !lb) (fun () -> !lx) end

(* rl_from e=ID ts=N sec=K id=N [oz=<zone key>]: RlOrigin.rl_from / rl_x_from *)
let rl_zone_keys = ["zp"; "zm"; "za"; "zb"; "zc"; "zg"]
let rl_zone_id k = let rec f i = function [] -> -1 | x :: r -> if x = k then i else f (i + 1) r in f 0 rl_zone_keys
let op_rl_from a =
  let id = num a "e" 0 in
  if (rl_get id).rl_ep_conn then begin
    let zid = z_of_int id and znow = z_of_int !now and ts = z_of_int (num a "ts" 0) in
    let oz = z_of_int (rl_zone_id (str a "oz" "-")) in
    let sec = rl_sec_of_key (str a "sec" "-") in
    let mid = z_of_int (num a "id" 0) in
    let g = !rl_g in
    let eps0 = rl_eps_now () in
    let fz = int_of_z (rl_from_origin_zone rl_topo0 eps0 zid oz) in
    let zname = if fz >= 0 && fz < List.length rl_zone_keys then Some (zl_of_string ("rl-" ^ List.nth rl_zone_keys fz)) else None in
    let msg = rl_mk_omsg zname mid znow in
    let item = rl_item_string (RlOutMsg msg) in
    let line acc logged live eps1 =
      let live = List.sort compare (List.map int_of_z live) in
      let ls = String.concat ";" (List.map (fun i -> Printf.sprintf "%d=%s" i item) live) in
      Printf.sprintf "rl_from e=%d accepted=%d logged=%d live=%s conn=%s pos0=%s pos=%s" id (if acc then 1 else 0) (if logged then 1 else 0)
        (if ls = "" then "-" else ls)
        (String.concat "" (List.map (fun e -> if e.rl_ep_conn then "1" else "0") eps0))
        (String.concat "," (List.map (fun e -> zs e.rl_ep_pos) eps0))
        (String.concat "," (List.map (fun e -> zs e.rl_ep_pos) eps1)) in
    let lb = ref "" and lx = ref "" in
    let g = if g.bok then begin
        let r = rl_from rl_topo0 znow zid ts oz sec msg g.b in
        lb := line r.rl_fr_acc r.rl_fr_logged r.rl_fr_live r.rl_fr_st.rl_eps;
        { g with b = r.rl_fr_st } end else g in
    let g = if g.xok then begin
        let r = rl_x_from rl_topo0 znow zid ts oz sec [(z_of_int 1, msg)] g.x in
        lx := line r.rl_xfr_acc r.rl_xfr_logged r.rl_xfr_live r.rl_xfr_st.rl_x_eps;
        { g with x = r.rl_xfr_st } end else g in
    rl_g := g;
    rl_emit2 (fun () -> !lb) (fun () -> !lx) end

let op_rl_timer _ =
  rl_both (rl_cleanup rl_topo0 (z_of_int !now)) (rl_x_cleanup rl_topo0 (z_of_int !now));
  let line eps =
    let acks = List.map (fun (i, p) -> Printf.sprintf "%s=P%s" (zs i) (zs p))
        (rl_timer_acks { rl_files = []; rl_cur = []; rl_lmt = Z0; rl_cnt = Z0; rl_eps = eps }) in
    "rl_timer acks=" ^ (if acks = [] then "-" else String.concat ";" acks) in
  rl_emit2 (fun () -> line !rl_g.b.rl_eps) (fun () -> line !rl_g.x.rl_x_eps)

(* damage.  A cut is also defined on records (entries ending at or before the offset stay); an overwritten byte is not *)
let rl_fname a = str a "f" "cur"
let op_rl_trunc a =
  let k = z_of_int (num a "k" 0) in
  let f = rl_fname a in
  rl_both (fun st -> rl_open (z_of_int !now) (if f = "cur" then rl_map_cur (rl_truncate_bytes k) st else rl_map_file (z_of_int (int_of_string f)) (rl_truncate_bytes k) st))
          (fun st -> rl_x_open (z_of_int !now)
              (if f = "cur" then { st with rl_x_cur = rl_x_truncate k st.rl_x_cur }
               else { st with rl_x_files = List.map (fun (n, es) -> if int_of_z n = int_of_string f then (n, rl_x_truncate k es) else (n, es)) st.rl_x_files }));
  (* a partial frame may remain at the end of the file: the record level no longer knows the file's size, nor what an append would do *)
  if !rl_g.bok then rl_g := { !rl_g with xok = false }
let op_rl_corrupt a =
  let f = rl_fname a in
  let fn = rl_set_byte (nat_of_int (num a "k" 0)) (z_of_int (num a "b" 0)) in
  rl_g := { !rl_g with xok = false };
  rl_both (fun st -> rl_open (z_of_int !now) (if f = "cur" then rl_map_cur fn st else rl_map_file (z_of_int (int_of_string f)) fn st)) (fun st -> st);
  if num a "lax" 0 <> 0 then emit "rl_corrupt lax"

let op_rl_ls _ =
  let fmt files cur eps lmt =
    let eps = List.map (fun e -> Printf.sprintf "%s/%s/%d%d" (zs e.rl_ep_pos) (zs e.rl_ep_rpos) (if e.rl_ep_conn then 1 else 0) (if e.rl_ep_sync then 1 else 0)) eps in
    Printf.sprintf "rl_ls files=%s cur=%d eps=%s lmt=%s" (if files = [] then "-" else String.concat "," files) cur (String.concat "," eps) (zs lmt) in
  rl_emit2
    (fun () -> let st = !rl_g.b in
      fmt (List.map (fun (n, b) -> Printf.sprintf "%s:%d" (zs n) (List.length b)) st.rl_files) (List.length st.rl_cur) st.rl_eps st.rl_lmt)
    (fun () -> let st = !rl_g.x in
      fmt (List.map (fun (n, es) -> Printf.sprintf "%s:%d" (zs n) (int_of_z (rl_x_file_size es))) st.rl_x_files)
        (int_of_z (rl_x_file_size st.rl_x_cur)) st.rl_x_eps st.rl_x_lmt)


(* ---------------- oracle: the extracted Gallina checks (RlObs.v) over the IMPLEMENTATION's trace ---------------- *)
let rl_digest_entry e = { e with rl_e_msg = zl_of_string (rl_item_string (RlOutMsg e.rl_e_msg)) }
let rl_xdigest_entry (e : rl_xentry) = { rl_e_ts = e.rl_xe_ts; rl_e_sec = e.rl_xe_sec; rl_e_msg = zl_of_string (rl_xmsg_string e.rl_xe_msg) }
(* the decodable entries of the log a glue state stands for, messages replaced by their printed item *)
let rl_glue_log g = if g.bok then List.map rl_digest_entry (rl_log_entries g.b) else List.map rl_xdigest_entry (rl_x_log_entries g.x)
let rl_glue_raw_log g = if g.bok then rl_log_entries g.b else List.map rl_xdigest_entry (rl_x_log_entries g.x)
let rl_glue_eps g = if g.bok then g.b.rl_eps else g.x.rl_x_eps
let split_on c s = if s = "-" || s = "" then [] else String.split_on_char c s

let oracle_c12_case script trace =
  out := open_out "/dev/null";
  let tr = ref trace and err = ref None in
  let fail m = if !err = None then err := Some m in
  let pop () = match !tr with
    | [] -> fail "crash missing-observation"; ""
    | l :: r -> tr := r; if is_bad_line l then fail ("crash " ^ l); l in
  let main = ref !rl_g and intact = ref !rl_g in
  let on st f = rl_g := !st; f (); st := !rl_g in
  let both f = on main f; on intact f in
  let obs_eps : (int * int) array ref = ref [||] and obs_files = ref [] and obs_cur = ref 0 and have_obs = ref false in
  let damaged = ref false and corrupted = ref false in
  let pending_timer = ref None and pending_restart = ref None in
  (* C12_position_only_moves_for_connected: a position that moved while the endpoint was away is remembered; if a later replay then
     withholds entries owed above the position the endpoint really confirmed, that is reported (the consequence), else the move itself *)
  let pending_move = ref None in
  let eps_obs () = List.mapi (fun i e -> if !have_obs && i < Array.length !obs_eps
                                then { e with rl_ep_pos = z_of_int (fst (!obs_eps).(i)); rl_ep_rpos = z_of_int (snd (!obs_eps).(i)) } else e) (rl_glue_eps !main) in
  (* the observation conn= pos0= pos= of rl_relay / rl_from: positions of endpoints that were not connected did not move *)
  let check_posmove from l =
    let t = toks_of l in
    let gets k = match tok_val t k with Some v -> v | None -> "" in
    let conn = gets "conn" and p0 = List.map int_of_string (split_on ',' (gets "pos0")) and p1 = List.map int_of_string (split_on ',' (gets "pos")) in
    if String.length conn = List.length p0 && List.length p0 = List.length p1 && p0 <> [] then begin
      let obs = List.mapi (fun i b -> (((conn.[i] = '1', false), z_of_int b), z_of_int (List.nth p1 i))) p0 in
      if not (rl_or_posmove obs) && !pending_move = None then begin
        let k = ref 0 in
        List.iteri (fun i b -> if !k = 0 && conn.[i] <> '1' && b <> List.nth p1 i then k := i + 1) p0;
        pending_move := Some (!k, Printf.sprintf "position-moved-while-away e=%d from=%s before=%d after=%d" !k from
                                    (List.nth p0 (max 0 (!k - 1))) (List.nth p1 (max 0 (!k - 1)))) end end
    else fail ("crash malformed position observation: " ^ l) in
  List.iter (fun line -> if !err = None then
    match parse_line line with
    | Some ("now", a) -> now := tnum (List.hd a.pos)
    | Some ("rl_init", a) -> both (fun () -> op_rl_init a); damaged := false; corrupted := false; have_obs := false;
                             pending_timer := None; pending_restart := None;
                             (match !pending_move with Some (_, m) -> fail m | None -> ())
    | Some ("rl_from", a) ->
      let id = num a "e" 0 in
      rl_g := !main;
      if (rl_get id).rl_ep_conn then begin
        let l = pop () in
        if !err = None then begin
          check_posmove (string_of_int id) l end end;
      have_obs := false;
      both (fun () -> op_rl_from a)
    | Some ("rl_relay", a) ->
      let l = pop () in
      if !err = None then check_posmove "local" l;
      have_obs := false (* the log and the positions of skipped endpoints change *); both (fun () -> op_rl_relay a)
    | Some ("rl_conn", a) ->
      let l = pop () in
      if !err = None then begin
        let id = num a "e" 0 in
        let ep = List.nth (eps_obs ()) (id - 1) in
        let items = split_on ',' (match tok_val (toks_of l) "out" with Some v -> v | None -> "-") in
        let msgs = List.filter (fun s -> String.length s > 0 && s.[0] = 'M') items in
        let delivered = List.map zl_of_string msgs in
        let pos = int_of_z ep.rl_ep_pos in
        List.iter (fun m -> match String.split_on_char ':' m with
                    | [_; _; _; ts] when int_of_string ts >= 0 && int_of_string ts <= pos && not !damaged ->
                      fail (Printf.sprintf "resend e=%d pos=%d item=%s" id pos m)
                    | _ -> ()) msgs;
        (* an endpoint whose position moved while it was away: judged by the position the MODEL holds (= the one it confirmed) *)
        if (match !pending_move with Some (k, _) -> k = id | None -> false) && not !damaged && int_of_z ep.rl_ep_dur <> 0 then begin
          let mep = List.nth (rl_glue_eps !main) (id - 1) in
          let log = rl_glue_log !main in
          if rl_strict_b log && not (rl_or_damaged rl_topo0 mep.rl_ep_zone mep.rl_ep_pos log delivered) then
            fail (Printf.sprintf "away-endpoint-not-replayed e=%d confirmed=%s got=%s (%s)" id (zs mep.rl_ep_pos) (String.concat "," msgs)
                    (match !pending_move with Some (_, m) -> m | None -> "")) end;
        if !err <> None then ()
        else if int_of_z ep.rl_ep_dur = 0 then begin
          if msgs <> [] then fail (Printf.sprintf "replay-mismatch e=%d log_duration=0 but got=%s" id (String.concat "," msgs)) end
        else if not !damaged then begin
          let log = rl_glue_log !main in
          if not (rl_or_replay rl_topo0 ep.rl_ep_zone ep.rl_ep_pos log delivered) then
            fail (Printf.sprintf "%s e=%d pos=%d got=%s" (if num a "mirror" 0 <> 0 then "replay-setlogposition-acks-wrong-log" else "replay-mismatch")
                    id pos (String.concat "," msgs))
          (* timestamps that do not strictly increase in log order (the sender's clock did not advance or stepped back between two
             relays): the statement still owes the endpoint every persisted entry above its position *)
          else if not (rl_strict_b log) && num a "mirror" 0 = 0 && not (rl_or_damaged rl_topo0 ep.rl_ep_zone ep.rl_ep_pos log delivered) then
            fail (Printf.sprintf "nonincreasing-timestamps-not-replayed e=%d pos=%d got=%s" id pos (String.concat "," msgs)) end
        else begin
          let log = rl_glue_log !intact in
          if not (rl_or_damaged rl_topo0 ep.rl_ep_zone ep.rl_ep_pos log delivered) then begin
            if !corrupted && not (rl_strict_b (rl_glue_raw_log !main)) then
              fail (Printf.sprintf "corrupt-timestamp-hides-later-entries e=%d pos=%d got=%s" id pos (String.concat "," msgs))
            else fail (Printf.sprintf "damaged-intact-missing e=%d pos=%d got=%s" id pos (String.concat "," msgs)) end end
      end;
      both (fun () -> op_rl_conn a)
    | Some ("rl_ls", _) ->
      let l = pop () in
      if !err = None then begin
        let t = toks_of l in
        let files = List.map (fun s -> match String.split_on_char ':' s with [n; z] -> (int_of_string n, int_of_string z) | _ -> (0, 0))
                      (split_on ',' (match tok_val t "files" with Some v -> v | None -> "-")) in
        let cur = match tok_val t "cur" with Some v -> int_of_string v | None -> 0 in
        let eps = Array.of_list (List.map (fun s -> match String.split_on_char '/' s with p :: r :: _ -> (int_of_string p, int_of_string r) | _ -> (0, 0))
                      (split_on ',' (match tok_val t "eps" with Some v -> v | None -> "-"))) in
        (match !pending_timer with
         | Some (tnow, before, eps0) ->
           if not (rl_or_cleanup rl_topo0 (z_of_int tnow) eps0 (List.map z_of_int before) (List.map (fun (n, _) -> z_of_int n) files)) then
             fail (Printf.sprintf "cleanup-unsafe now=%d before=%s after=%s" tnow (String.concat "," (List.map string_of_int before))
                     (String.concat "," (List.map (fun (n, _) -> string_of_int n) files)))
         | None -> ());
        (match !pending_restart with
         | Some (bf, bc) ->
           let zp = List.map (fun (n, z) -> (z_of_int n, z_of_int z)) in
           if not (rl_or_restart (zp bf) (zp files) (z_of_int bc) (z_of_int cur)) then fail "restart-lost files or current changed across a crash restart"
         | None -> ());
        pending_timer := None; pending_restart := None;
        obs_eps := eps; obs_files := files; obs_cur := cur; have_obs := true
      end
    | Some ("rl_timer", a) ->
      ignore (pop ());
      if !have_obs then pending_timer := Some (!now, List.map fst !obs_files, eps_obs ());
      both (fun () -> op_rl_timer a)
    | Some ("rl_restart", a) ->
      if !have_obs && num a "clean" 0 = 0 then pending_restart := Some (!obs_files, !obs_cur);
      have_obs := false;
      both (fun () -> op_rl_restart a)
    | Some ("rl_recv", a) ->
      let id = num a "e" 0 in
      rl_g := !main;
      if (rl_get id).rl_ep_conn then begin
        let l = pop () in
        if !err = None && !have_obs then begin
          let rpos = snd (!obs_eps).(id - 1) in
          let acc = (match tok_val (toks_of l) "accepted" with Some "0" -> false | _ -> true) in
          if not (rl_or_recv (z_of_int rpos) (z_of_int (num a "ts" 0)) acc) then
            fail (Printf.sprintf "receiver-accepted-old e=%d ts=%d position=%d" id (num a "ts" 0) rpos) end end;
      have_obs := false;
      both (fun () -> op_rl_recv a)
    | Some ("rl_ack", a) -> have_obs := false; both (fun () -> op_rl_ack a)
    | Some ("rl_disc", a) -> both (fun () -> op_rl_disc a)
    | Some ("rl_rotate", a) -> have_obs := false; both (fun () -> op_rl_rotate a)
    | Some ("rl_trunc", a) -> damaged := true; have_obs := false; both (fun () -> op_rl_trunc a)
    | Some ("rl_corrupt", a) ->
      damaged := true; corrupted := true; have_obs := false;
      if num a "lax" 0 <> 0 then ignore (pop ());
      on main (fun () -> op_rl_corrupt a); on intact (fun () -> op_rl_trunc a)
    | _ -> ()) script;
  (match !pending_move with Some (_, m) -> fail m | None -> ());
  !err

let () =
  register_op "rl_init" op_rl_init;
  register_op "rl_relay" op_rl_relay;
  register_op "rl_conn" op_rl_conn;
  register_op "rl_disc" op_rl_disc;
  register_op "rl_rotate" op_rl_rotate;
  register_op "rl_restart" op_rl_restart;
  register_op "rl_ack" op_rl_ack;
  register_op "rl_recv" op_rl_recv;
  register_op "rl_timer" op_rl_timer;
  register_op "rl_from" op_rl_from;
  register_op "rl_trunc" op_rl_trunc;
  register_op "rl_corrupt" op_rl_corrupt;
  register_op "rl_ls" op_rl_ls;
  register_oracle "C12" oracle_c12_case
