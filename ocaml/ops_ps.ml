open Model
open Vcore

(* ---------------- C14 persistence: glue between scripts and the extracted model ---------------- *)
let ps_n_of_int n = if n = 0 then N0 else Npos (pos_of_int n)
let ps_int_of_n = function N0 -> 0 | Npos p -> int_of_pos p
(* strings <-> byte lists without deep recursion (values of several MiB); the 256 byte values are shared *)
let ps_byte_tab = Array.init 256 ps_n_of_int
let ps_key_of_string s =
  let r = ref [] in
  for i = String.length s - 1 downto 0 do r := ps_byte_tab.(Char.code s.[i]) :: !r done; !r
let ps_string_of_key k =
  let b = Buffer.create 64 in
  List.iter (fun n -> Buffer.add_char b (Char.chr (ps_int_of_n n))) k; Buffer.contents b
let ps_hex s =
  if s = "" then "-" else begin
    let b = Buffer.create (2 * String.length s) in
    String.iter (fun c -> Buffer.add_string b (Printf.sprintf "%02x" (Char.code c))) s; Buffer.contents b end
let ps_unhex s =
  if s = "-" then "" else begin
    let hv c = match c with '0'..'9' -> Char.code c - 48 | 'a'..'f' -> Char.code c - 87 | 'A'..'F' -> Char.code c - 55 | _ -> failwith "bad hex" in
    String.init (String.length s / 2) (fun i -> Char.chr (16 * hv s.[2 * i] + hv s.[2 * i + 1])) end
let ps_key_hex k = ps_hex (ps_string_of_key k)

(* decimals: "12.5" <-> (125, 1) normalised *)
let ps_num_of_string s =
  let neg = String.length s > 0 && s.[0] = '-' in
  let s = if neg then String.sub s 1 (String.length s - 1) else s in
  let ip, fp = match String.index_opt s '.' with
    | Some i -> String.sub s 0 i, String.sub s (i + 1) (String.length s - i - 1)
    | None -> s, "" in
  let fp = ref fp in
  while String.length !fp > 0 && !fp.[String.length !fp - 1] = '0' do fp := String.sub !fp 0 (String.length !fp - 1) done;
  let m = int_of_string (ip ^ !fp) in
  (z_of_int (if neg then -m else m), ps_n_of_int (String.length !fp))
let ps_string_of_num m k =
  let m = int_of_z m and k = ps_int_of_n k in
  let neg = m < 0 in
  let d = ref (string_of_int (abs m)) in
  while String.length !d < k + 1 do d := "0" ^ !d done;
  let ip = String.sub !d 0 (String.length !d - k) and fp = ref (String.sub !d (String.length !d - k) k) in
  while String.length !fp > 0 && !fp.[String.length !fp - 1] = '0' do fp := String.sub !fp 0 (String.length !fp - 1) done;
  (if neg then "-" else "") ^ ip ^ (if !fp = "" then "" else "." ^ !fp)

(* compact forms for large values - the same rules as harness/ops_ps.cpp:
   R<n>x<hex> (string > 64 bytes with a period <= 8), G<n>(v) (array > 16 elements, all equal),
   K<n>(v) (dictionary k000000.. > 16 entries, all values equal); W<k>(v) / V<k>(v) input only *)
let ps_canon_str s =
  let n = String.length s in
  let res = ref None in
  if n > 64 then begin
    let p = ref 1 in
    while !res = None && !p <= 8 do
      let ok = ref true and i = ref !p in
      while !ok && !i < n do (if s.[!i] <> s.[!i - !p] then ok := false); incr i done;
      if !ok then res := Some (Printf.sprintf "R%dx%s" n (ps_hex (String.sub s 0 !p)));
      incr p
    done
  end;
  match !res with Some r -> r | None -> "S" ^ ps_hex s

let ps_kname i = Printf.sprintf "k%06d" i

let rec ps_canon v =
  match v with
  | PsEmpty -> "N"
  | PsBool b -> if b then "T" else "F"
  | PsNum (m, k) -> "D" ^ ps_string_of_num m k
  | PsStr s -> ps_canon_str (ps_string_of_key s)
  | PsArr l ->
    let items = List.rev (List.rev_map ps_canon l) in
    (match items with
     | c0 :: _ when List.length items > 16 && List.for_all (fun c -> c = c0) items -> Printf.sprintf "G%d(%s)" (List.length items) c0
     | _ -> "A(" ^ String.concat "," items ^ ")")
  | PsDict d ->
    let items = List.rev (List.rev_map (fun (k, x) -> (ps_string_of_key k, ps_canon x)) d) in
    (match items with
     | (_, c0) :: _ when List.length items > 16 && List.for_all (fun (_, c) -> c = c0) items
                         && (let i = ref (-1) in List.for_all (fun (k, _) -> incr i; k = ps_kname !i) items) ->
       Printf.sprintf "K%d(%s)" (List.length items) c0
     | _ -> "M(" ^ String.concat "," (List.rev (List.rev_map (fun (k, c) -> ps_hex k ^ ":" ^ c) items)) ^ ")")
  | PsObj (tn, _) -> "O" ^ ps_key_hex tn

(* sorted insert (bytewise) while parsing, as Dictionary::Set does *)
let ps_sorted_set k v d =
  let ks = ps_string_of_key k in
  let rec go = function
    | [] -> [(k, v)]
    | (k', v') :: t ->
      let c = compare ks (ps_string_of_key k') in
      if c = 0 then (k, v) :: t else if c < 0 then (k, v) :: (k', v') :: t else (k', v') :: go t in
  go d

let ps_parse s =
  let i = ref 0 in
  let tok () =
    let j = ref !i in
    while !j < String.length s && s.[!j] <> ',' && s.[!j] <> ')' && s.[!j] <> ':' do incr j done;
    let t = String.sub s !i (!j - !i) in i := !j; t in
  let cnt () =
    let j = ref !i in
    while !j < String.length s && s.[!j] >= '0' && s.[!j] <= '9' do incr j done;
    let n = int_of_string (String.sub s !i (!j - !i)) in i := !j; n in
  let rec value () =
    let c = s.[!i] in
    incr i;
    match c with
    | 'N' -> PsEmpty
    | 'T' -> PsBool true
    | 'F' -> PsBool false
    | 'D' -> let (m, k) = ps_num_of_string (tok ()) in PsNum (m, k)
    | 'S' -> PsStr (ps_key_of_string (ps_unhex (tok ())))
    | 'R' ->
      let n = cnt () in
      incr i;
      let pat = ps_unhex (tok ()) in
      let pl = String.length pat in
      PsStr (ps_key_of_string (String.init n (fun j -> pat.[j mod pl])))
    | 'O' -> PsObj (ps_key_of_string (ps_unhex (tok ())), [])
    | 'A' ->
      incr i;
      let items = ref [] in
      while s.[!i] <> ')' do items := value () :: !items; if s.[!i] = ',' then incr i done;
      incr i; PsArr (List.rev !items)
    | 'M' ->
      incr i;
      let d = ref [] in
      while s.[!i] <> ')' do
        let k = ps_key_of_string (ps_unhex (tok ())) in
        incr i;
        let x = value () in
        d := ps_sorted_set k x !d;
        if s.[!i] = ',' then incr i
      done;
      incr i; PsDict !d
    | 'G' | 'K' | 'W' | 'V' ->
      let n = cnt () in
      incr i;
      let x = value () in
      incr i;
      (match c with
       | 'G' -> PsArr (List.init n (fun _ -> x))
       | 'K' -> PsDict (List.init n (fun j -> (ps_key_of_string (ps_kname j), x)))
       | 'W' -> let r = ref x in for _ = 1 to n do r := PsArr [!r] done; !r
       | _ -> let r = ref x in for _ = 1 to n do r := PsDict [(ps_key_of_string "k", !r)] done; !r)
    | _ -> failwith "bad value syntax" in
  value ()

(* a string argument: hex, or the compact form R<n>x<hex> *)
let ps_str_arg s = if String.length s > 0 && s.[0] = 'R' then (match ps_parse s with PsStr k -> k | _ -> []) else ps_key_of_string (ps_unhex s)

let ps_k = ps_key_of_string
let ps_fenv = [
  (ps_k "vars", { ps_fi_config = true; ps_fi_nomod = false; ps_fi_kind = ps_n_of_int 1 });
  (ps_k "check_interval", { ps_fi_config = true; ps_fi_nomod = false; ps_fi_kind = ps_n_of_int 2 });
  (ps_k "notes", { ps_fi_config = true; ps_fi_nomod = false; ps_fi_kind = ps_n_of_int 3 });
  (ps_k "__name", { ps_fi_config = true; ps_fi_nomod = true; ps_fi_kind = ps_n_of_int 3 });
  (ps_k "version", { ps_fi_config = false; ps_fi_nomod = true; ps_fi_kind = ps_n_of_int 2 }) ]
let ps_tenv = [ (ps_k "Host", []); (ps_k "Service", []); (ps_k "CheckResult", []) ]

(* the population: object i is called "<i>" *)
let ps_oname i = ps_k (string_of_int i)
let ps_pop : ps_pobj list ref = ref []
let ps_pop0 : ps_pobj list ref = ref []
let ps_multi = ref false
let ps_slots : (string * ps_value) list ref = ref []

let ps_mk_obj vars ci notes orig ver =
  { ps_m_fields = [ (ps_k "check_interval", ci); (ps_k "notes", notes); (ps_k "vars", vars) ]; ps_m_orig = orig; ps_m_version = ver }

let ps_state_line tag ok i (o : ps_mobj) =
  let f n = ps_canon (ps_dget (ps_k n) o.ps_m_fields) in
  Printf.sprintf "%s%s ok=%d vars=%s ci=%s notes=%s orig=%s ver=%s" tag (if !ps_multi then Printf.sprintf " obj=%d" i else "")
    (if ok then 1 else 0) (f "vars") (f "check_interval") (f "notes")
    (match o.ps_m_orig with None -> "N" | Some d -> ps_canon (PsDict d)) (zs o.ps_m_version)

let ps_get i = match ps_pop_find (ps_oname i) !ps_pop with Some o -> o | None -> failwith "no such object"
let ps_emit_pop tag ok = List.iteri (fun i po -> emit (ps_state_line tag ok i po.ps_p_obj)) !ps_pop

let op_ps_mnew a =
  let n = num a "n" 1 in
  ps_multi := has a "n";
  ps_pop := List.init n (fun i ->
    let sfx = if i = 0 then "" else string_of_int i in
    let vars = if has a ("vars" ^ sfx) then ps_parse (str a ("vars" ^ sfx) "N") else PsEmpty in
    let notes = PsStr (ps_k (ps_unhex (str a ("notes" ^ sfx) "-"))) in
    let ci = let (m, k) = ps_num_of_string (str a ("ci" ^ sfx) "300") in PsNum (m, k) in
    { ps_p_name = ps_oname i; ps_p_obj = ps_mk_obj vars ci notes None Z0 });
  ps_pop0 := !ps_pop;
  ps_slots := [];
  ps_emit_pop "mnew" true

let op_ps_mod a =
  let i = num a "obj" 0 in
  let (ok, o) = ps_modify_attribute ps_fenv (ps_k (ps_unhex (str a "path" "-"))) (ps_parse (str a "val" "N")) true (z_of_int !now) (ps_get i) in
  ps_pop := ps_pop_set (ps_oname i) o !ps_pop; emit (ps_state_line "mod" ok i o)

let op_ps_res a =
  let i = num a "obj" 0 in
  let (ok, o) = ps_restore_attribute ps_fenv (ps_k (ps_unhex (str a "path" "-"))) true (z_of_int !now) (ps_get i) in
  ps_pop := ps_pop_set (ps_oname i) o !ps_pop; emit (ps_state_line "res" ok i o)

(* FNV-1a-64 of the text the Gallina writer (C17's cw_emit_value, via PsText.ps_block_text) generates for the body of an
   object's block of modified-attributes.conf; the harness prints the digest of the bytes the real ConfigWriter wrote *)
let ps_fnv (bytes : n list) =
  let h = ref 0xcbf29ce484222325L in
  List.iter (fun b -> h := Int64.mul (Int64.logxor !h (Int64.of_int (ps_int_of_n b))) 0x100000001b3L) bytes;
  Printf.sprintf "%016Lx" !h
let ps_txt_of blocks i =
  match List.find_opt (fun b -> b.ps_b_name = ps_oname i) blocks with
  | Some b -> ps_fnv (ps_block_text b)
  | None -> "-"
let ps_emit_pop_txt tag ok blocks =
  List.iteri (fun i po -> emit (ps_state_line tag ok i po.ps_p_obj ^ " txt=" ^ ps_txt_of blocks i)) !ps_pop

(* DumpModifiedAttributes over the population; the file as TEXT (writer model), compiled (lexer + parser model: a syntax
   error anywhere means nothing is evaluated), the blocks evaluated on the population as configured *)
let op_ps_dma _ =
  match ps_pop_dump !ps_pop with
  | None -> emit "dma ok=0"
  | Some blocks ->
    let (ok, r) = ps_pop_replay_text ps_fenv (z_of_int !now) blocks !ps_pop0 in
    ps_pop := r; ps_emit_pop_txt "dma" ok blocks

(* stop/start: state file (version) + modified-attributes.conf as text *)
let op_ps_restart _ =
  match ps_pop_dump !ps_pop, ps_pop_restart_text ps_fenv (z_of_int !now) !ps_pop !ps_pop0 with
  | Some blocks, Some (ok, r) -> ps_pop := r; ps_emit_pop_txt "rst" ok blocks
  | _, _ -> emit "rst ok=0 dump-throws"

(* the final dump at shutdown next to a periodic dump: the Gallina two-thread model (PsShutdown.v) run on the directed
   schedule says whether OnShutdown's dump throws and whether the files lack the change; the change made inside the op
   (notes of object 0) and the reload are the population model's *)
let op_ps_dumpstate _ = emit "dumpstate"
let op_ps_shutdown a =
  let sched = str a "sched" "parked" in
  let (mok, o) = ps_modify_attribute ps_fenv (ps_k "notes") (ps_parse (str a "val" "S78")) true (z_of_int !now) (ps_get 0) in
  ps_pop := ps_pop_set (ps_oname 0) o !ps_pop;
  emit (ps_state_line "mod" mok 0 o);
  let (threw, stale) = psd_observe psd_src_skip (match sched with "late" -> if psd_src_serial then psd_sched_late_serial else psd_sched_late | "parked" -> psd_sched_parked | _ -> psd_sched_free) in
  emit (Printf.sprintf "shut threw=%d stale=%d" (if threw then 1 else 0) (if stale then 1 else 0));
  if sched <> "late" then begin
    (match ps_pop_dump !ps_pop, ps_pop_restart_text ps_fenv (z_of_int !now) !ps_pop !ps_pop0 with
     | Some blocks, Some (ok, r) -> ps_pop := r; ps_emit_pop_txt "rst" ok blocks
     | _, _ -> emit "rst ok=0 dump-throws");
    emit "st all=1 diff=-"
  end

let ps_set_slot n v = if List.mem_assoc n !ps_slots then ps_slots := List.map (fun (k, x) -> if k = n then (k, v) else (k, x)) !ps_slots
  else ps_slots := !ps_slots @ [(n, v)]

let op_ps_snew _ = ps_slots := []; ps_multi := false
let op_ps_cr a =
  let on = str a "on" "host" in
  ps_set_slot (on ^ ".last_check_result.command") (if has a "cmd" then ps_parse (str a "cmd" "N") else PsEmpty);
  ps_set_slot (on ^ ".last_check_result.output") (PsStr (ps_str_arg (str a "out" "-")));
  ps_set_slot (on ^ ".last_check_result.performance_data") (if has a "perf" then ps_parse (str a "perf" "N") else PsEmpty);
  emit "cr res=0"
let op_ps_ack _ = emit "ack"
let op_ps_exec a = ps_set_slot (str a "on" "host" ^ ".executions") (ps_parse (str a "val" "N")); emit "exec"

let ps_roundtrip v = ps_deserialize ps_tenv ps_FAState (ps_serialize ps_tenv ps_FAState v)
let ps_ends n sfx = String.length n >= String.length sfx && String.sub n (String.length n - String.length sfx) (String.length sfx) = sfx
(* "executions" is a Dictionary::Ptr field: SetField rejects an instantiated object, DeserializeObject then stores null *)
let ps_roundtrip_slot n v =
  let v' = ps_roundtrip v in
  match v' with PsObj _ when ps_ends n "executions" -> PsEmpty | _ -> v'
(* how many containers enclose the slot's value in the record {name,type,update:{..}} of its object *)
let ps_slot_outer n = if ps_ends n "executions" then 2 else 3
let ps_slot_obj n = String.sub n 0 (String.index n '.')
(* a lower bound of the record's JSON length: the bytes of the strings of the value *)
let rec ps_bytes v = match v with
  | PsStr s -> List.length s
  | PsArr l -> List.fold_left (fun acc x -> acc + 1 + ps_bytes x) 2 l
  | PsDict d -> List.fold_left (fun acc (k, x) -> acc + 4 + List.length k + ps_bytes x) 2 d
  | _ -> 1
(* what the read side makes of the record of object [o] given the slots supplied for it: `Lost = skipped (nesting beyond the
   decoder's limit), `Throws = the frame reader rejects it *)
let ps_record_fate slots o =
  let mine = List.filter (fun (n, _) -> ps_slot_obj n = o) slots in
  let len = List.fold_left (fun acc (_, v) -> acc + ps_bytes v) 0 mine in
  if not (ps_src_frame_fits (ps_n_of_int len)) then `Throws
  else if List.exists (fun (n, v) -> not (ps_src_depth_fits (ps_n_of_int (ps_slot_outer n)) (ps_serialize ps_tenv ps_FAState v))) mine then `Lost
  else `Read
let op_ps_dumprestore _ =
  let objs = List.sort_uniq compare (List.map (fun (n, _) -> ps_slot_obj n) !ps_slots) in
  let fates = List.map (fun o -> (o, ps_record_fate !ps_slots o)) objs in
  let fate n = List.assoc (ps_slot_obj n) fates in
  let after = List.map (fun (n, v) -> (n, v, if fate n = `Read then ps_roundtrip_slot n v else PsEmpty)) !ps_slots in
  let throws = List.exists (fun (_, f) -> f = `Throws) fates in
  let diff = (if throws then ["RESTORE-THROWS"] else [])
             @ List.sort compare (List.filter_map (fun (o, f) -> if f <> `Read && List.exists (fun (n, v, v') -> ps_slot_obj n = o && not (ps_veqb v v')) after then Some (o ^ ".*") else None) fates
                                  @ List.filter_map (fun (n, v, v') -> if fate n = `Read && not (ps_veqb v v') then Some n else None) after) in
  emit (Printf.sprintf "rt all=%d diff=%s" (if diff = [] then 1 else 0) (if diff = [] then "-" else String.concat "," diff));
  List.iter (fun (n, _, v') -> emit ("slot " ^ n ^ " " ^ ps_canon v')) after;
  ps_slots := List.map (fun (n, _, v') -> (n, v')) after

let ps_sys_name = function
  | PsOpenTemp _ -> "open-temp" | PsChmodTemp _ -> "chmod-temp" | PsWriteTemp _ -> "write" | PsFsyncTemp _ -> "fsync"
  | PsCloseTemp _ -> "close" | PsRename _ -> "rename" | PsUnlinkTemp _ -> "unlink-temp" | PsTruncFinal -> "trunc-final"
  | PsWriteFinal _ -> "write-final" | PsUnlinkFinal -> "unlink-final"
let op_ps_atomic _ =
  List.iter (fun c -> emit ("sys " ^ ps_sys_name c)) (ps_atomic_trace (ps_n_of_int 1) [[ps_n_of_int 1]]);
  emit "sysend"
let op_ps_kill _ = emit "kill ok=1 loadable=1"
let op_ps_fault _ = emit "fault ok=1 loadable=1 finished=1"

(* ---------------- oracle: the property evaluated on the IMPLEMENTATION's observations ---------------- *)
let ps_starts l p = String.length l >= String.length p && String.sub l 0 (String.length p) = p

(* (ok, object index, state) of a mnew/mod/res/dma/rst line; state None for the short failure forms *)
let ps_parse_state l =
  let t = toks_of l in
  let g k = match tok_val t k with Some v -> v | None -> failwith ("missing " ^ k) in
  let ok = g "ok" = "1" in
  let i = match tok_val t "obj" with Some v -> int_of_string v | None -> 0 in
  if tok_val t "vars" = None then (ok, i, None) else
  let orig = match g "orig" with "N" -> None | s -> (match ps_parse s with PsDict d -> Some d | _ -> None) in
  let ver = try z_of_int (int_of_string (g "ver")) with _ -> z_of_int (-1) in
  (ok, i, Some (ps_mk_obj (ps_parse (g "vars")) (ps_parse (g "ci")) (ps_parse (g "notes")) orig ver))

let rec ps_is_prefix a b = match a, b with [] , _ -> true | x :: a', y :: b' -> x = y && ps_is_prefix a' b' | _ -> false
let ps_comparable p q = let a = ps_split p and b = ps_split q in ps_is_prefix a b || ps_is_prefix b a

let oracle_c14_case script trace =
  let tr = ref trace in
  let err = ref None in
  let fail m = if !err = None then err := Some m in
  let next () = match !tr with [] -> fail "missing-observation"; "MISSING" | l :: r -> tr := r; if is_bad_line l then fail ("crash " ^ l); l in
  (* per object index: the configured object, the current object *)
  let initial : (int, ps_mobj) Hashtbl.t = Hashtbl.create 8 and cur : (int, ps_mobj) Hashtbl.t = Hashtbl.create 8 in
  let nobj = ref 1 in
  (* per (object, explicitly modified path): (dict pre-value seen, other comparable successful ops seen) since it became modified *)
  let open_mods : ((int * ps_key) * (bool ref * bool ref)) list ref = ref [] in
  let slots = ref [] in
  let vstr z = zs z in
  List.iter (fun line ->
    if !err = None then
    match parse_line line with
    | Some ("ps_mnew", a) ->
      nobj := num a "n" 1;
      Hashtbl.reset initial; Hashtbl.reset cur; open_mods := []; slots := [];
      for _ = 1 to !nobj do
        let l = next () in
        if !err = None then
          (match ps_parse_state l with
           | (_, i, Some o) -> Hashtbl.replace initial i o; Hashtbl.replace cur i o
           | _ -> fail "bad-mnew-line")
      done
    | Some ("ps_snew", _) -> slots := []
    | Some ("ps_mod", a) ->
      let l = next () in
      if !err = None then begin
        let p = ps_k (ps_unhex (str a "path" "-")) in
        let (ok, i, o) = ps_parse_state l in
        if i <> num a "obj" 0 then fail "wrong-object-line";
        (match Hashtbl.find_opt cur i, o with
         | Some pre, Some _ when ok ->
           List.iter (fun ((j, q), (_, ov)) -> if j = i && q <> p && ps_comparable p q then ov := true) !open_mods;
           let isd = ps_is_dict (ps_get_attr p pre) in
           (match List.assoc_opt (i, p) !open_mods with
            | Some (d, _) -> if isd then d := true
            | None ->
              let other = List.exists (fun ((j, q), _) -> j = i && q <> p && ps_comparable p q) !open_mods in
              open_mods := ((i, p), (ref isd, ref other)) :: !open_mods)
         | _ -> ());
        (match o with Some o -> Hashtbl.replace cur i o | None -> ())
      end
    | Some ("ps_res", a) ->
      let l = next () in
      if !err = None then begin
        let p = ps_k (ps_unhex (str a "path" "-")) in
        let (ok, i, o) = ps_parse_state l in
        if i <> num a "obj" 0 then fail "wrong-object-line";
        (* restoring a top-level attribute that original_attributes does not list must not change it *)
        (match Hashtbl.find_opt cur i, o with
         | Some pre, Some post when ok && List.length (ps_split p) = 1 && not (ps_orig_mentions p pre) ->
           if not (ps_veqb (ps_get_attr p pre) (ps_get_attr p post)) then
             fail (Printf.sprintf "restore-unmodified path=%s before=%s after=%s" (ps_key_hex p) (ps_canon (ps_get_attr p pre)) (ps_canon (ps_get_attr p post)))
         | _ -> ());
        (* FRAME of RestoreAttribute(p) (C14_restore_frame; executable check in the glue, not an extracted predicate): every
           original_attributes entry whose key is neither p nor below / above p TOKEN-wise (a plain string prefix such as
           vars.os / vars.os_family does not count) keeps its entry, and the attribute at that key keeps its value -
           whether the call reports success or not *)
        (match Hashtbl.find_opt cur i, o with
         | Some pre, Some post when !err = None ->
           List.iter (fun (k, x) ->
             if !err = None && not (ps_comparable p k) then begin
               let kept = match post.ps_m_orig with Some d -> List.exists (fun (k', x') -> k' = k && ps_veqb x x') d | None -> false in
               if not kept then
                 fail (Printf.sprintf "restore-touches-sibling path=%s sibling=%s entry-lost-or-changed" (ps_key_hex p) (ps_key_hex k))
               else if not (ps_veqb (ps_get_attr k pre) (ps_get_attr k post)) then
                 fail (Printf.sprintf "restore-touches-sibling path=%s sibling=%s before=%s after=%s" (ps_key_hex p) (ps_key_hex k)
                         (ps_canon (ps_get_attr k pre)) (ps_canon (ps_get_attr k post)))
             end) (match pre.ps_m_orig with Some d -> d | None -> [])
         | _ -> ());
        (match Hashtbl.find_opt initial i, o with
         | Some ini, Some post when ok && !err = None ->
           List.iter (fun ((j, q), (_, ov)) -> if j = i && q <> p && ps_comparable p q then ov := true) !open_mods;
           (match List.assoc_opt (i, p) !open_mods with
            | Some (d, ov) ->
              let before = ps_get_attr p ini and after = ps_get_attr p post in
              if not (ps_oracle_restore before after (ps_orig_mentions p post)) then
                fail (Printf.sprintf "restore-mismatch path=%s olddict=%d overlap=%d original=%s got=%s mentioned=%d" (ps_key_hex p)
                        (if !d then 1 else 0) (if !ov then 1 else 0) (ps_canon before) (ps_canon after) (if ps_orig_mentions p post then 1 else 0));
              open_mods := List.filter (fun (k, _) -> k <> (i, p)) !open_mods
            | None -> ())
         | _ -> ());
        (match o with Some o -> Hashtbl.replace cur i o | None -> ())
      end
    | Some ("ps_dumpstate", _) -> let l = next () in if !err = None && l <> "dumpstate" then fail ("periodic-dump-failed " ^ l)
    | Some (("ps_dma" | "ps_restart" | "ps_shutdown") as opn, a) when
        (opn <> "ps_shutdown" ||
         begin
           (* the change made inside the op, then the observation at the return of OnShutdown's dump *)
           let l = next () in
           (if !err = None then match (try Some (ps_parse_state l) with _ -> None) with
              | Some (_, i, Some o) -> Hashtbl.replace cur i o
              | _ -> fail ("shutdown-bad-line " ^ l));
           let l = next () in
           (if !err = None then begin
              let t = toks_of l in
              match tok_val t "threw", tok_val t "stale" with
              | Some th, Some sl when tok_val t "pto" = None ->
                let c = ps_int_of_n (psd_orc (th = "1") (sl = "1")) in
                if c = 41 then fail (Printf.sprintf "shutdown-dump-threw sched=%s stale=%s" (str a "sched" "parked") sl)
                else if c = 40 then fail (Printf.sprintf "shutdown-dump-stale sched=%s" (str a "sched" "parked"))
              | _ -> fail ("shutdown-bad-line " ^ l)
            end);
           !err = None && str a "sched" "parked" <> "late"
         end) ->
      let full = opn <> "ps_dma" in
      let l = next () in
      if !err = None then begin
        let (ok0, _, o0) = ps_parse_state l in
        if o0 = None then fail (if full then "restart-failed " ^ l else "modattr-dump-failed") else begin
          let lines = ref [l] in
          for _ = 2 to !nobj do lines := next () :: !lines done;
          if !err = None then
          List.iter (fun l ->
            let (ok, i, o) = ps_parse_state l in
            match Hashtbl.find_opt cur i, o with
            | _, None -> fail "modattr-dump-failed"
            | None, _ -> fail "modattr-no-prestate"
            | Some pre, Some post ->
              (* every runtime-modified attribute (= key of original_attributes) has the same value after the reload *)
              let keys = match pre.ps_m_orig with Some d -> List.map fst d | None -> [] in
              let post_keys = match post.ps_m_orig with Some d -> List.map fst d | None -> [] in
              (* C14_history_reload / C14_population_reload: the reloaded object lists exactly the keys that were listed at the
                 dump (a stale or missing file shows here), every listed attribute reads as before, and the object has ITS OWN
                 version back *)
              let same = ok && List.for_all (fun k -> ps_veqb (ps_get_attr k pre) (ps_get_attr k post) && ps_orig_mentions k post) keys
                         && List.for_all (fun k -> List.mem k keys) post_keys in
              if not same then begin
                let bad = List.filter (fun k -> not (ps_veqb (ps_get_attr k pre) (ps_get_attr k post) && ps_orig_mentions k post)) keys in
                match bad with
                | k :: _ when ok -> fail (Printf.sprintf "modattr-mismatch ok=1 key=%s before=%s after=%s mentioned=%d" (ps_key_hex k)
                                           (ps_canon (ps_get_attr k pre)) (ps_canon (ps_get_attr k post)) (if ps_orig_mentions k post then 1 else 0))
                | [] when ok -> fail (Printf.sprintf "modattr-mismatch ok=1 extra-keys listed-after=%s listed-before=%s"
                                        (String.concat "," (List.map ps_key_hex post_keys)) (String.concat "," (List.map ps_key_hex keys)))
                | _ -> fail "modattr-mismatch ok=0 reload-failed"
              end
              else if (keys <> [] || full) && pre.ps_m_version <> post.ps_m_version then
                fail (Printf.sprintf "modattr-version obj=%d before=%s after=%s" i (vstr pre.ps_m_version) (vstr post.ps_m_version))
              else if full && not (ps_veqb (PsDict (match pre.ps_m_orig with Some d -> d | None -> []))
                                           (PsDict (match post.ps_m_orig with Some d -> d | None -> []))) then
                fail (Printf.sprintf "restart-originals obj=%d" i);
              Hashtbl.replace cur i post) (List.rev !lines);
          ignore ok0;
          (* a path that is still listed after the reload stays under observation: a later restore must return the
             configured value (the replay re-recorded it) *)
          open_mods := List.filter (fun ((i, p), _) -> match Hashtbl.find_opt cur i with Some o -> ps_orig_mentions p o | None -> false) !open_mods
        end
      end;
      (* the runtime state of every host as restored from the files the shutdown dump left *)
      if opn = "ps_shutdown" && !err = None then begin
        let l = next () in
        if !err = None && l <> "st all=1 diff=-" then fail ("shutdown-state-lost " ^ l)
      end
    | Some ("ps_cr", a) ->
      let l = next () in
      if !err = None && l <> "cr res=0" then fail ("check-result-not-processed " ^ l);
      let on = str a "on" "host" in
      let set n v = slots := (n, v) :: List.remove_assoc n !slots in
      set (on ^ ".last_check_result.command") (if has a "cmd" then ps_parse (str a "cmd" "N") else PsEmpty);
      set (on ^ ".last_check_result.output") (PsStr (ps_str_arg (str a "out" "-")));
      set (on ^ ".last_check_result.performance_data") (if has a "perf" then ps_parse (str a "perf" "N") else PsEmpty)
    | Some ("ps_crall", _) -> ignore (next ())
    | Some ("ps_ack", _) -> ignore (next ())
    | Some ("ps_exec", a) -> ignore (next ()); slots := (str a "on" "host" ^ ".executions", ps_parse (str a "val" "N")) :: List.remove_assoc (str a "on" "host" ^ ".executions") !slots
    | Some ("ps_dumprestore", _) ->
      let l = next () in
      if !err = None then begin
        let t = toks_of l in
        let all_same = tok_val t "all" = Some "1" in
        let diff = match tok_val t "diff" with Some d -> d | None -> "?" in
        let obs = ref [] in
        while (match !tr with l :: _ when ps_starts l "slot " -> true | _ -> false) do
          (match toks_of (next ()) with [_; n; v] -> obs := (n, ps_parse v) :: !obs | _ -> fail "bad-slot-line")
        done;
        let pairs = List.filter_map (fun (n, v) -> match List.assoc_opt n !obs with Some v' -> Some (n, (v, v')) | None -> None) !slots in
        if List.length pairs <> List.length !slots then fail "slot-missing";
        if not (ps_oracle_roundtrip all_same (List.map snd pairs)) then begin
          let bad = List.filter_map (fun (n, (v, v')) -> if ps_veqb v v' then None else Some n) pairs in
          fail (Printf.sprintf "state-roundtrip diff=%s slots=%s" diff (String.concat "," (List.sort compare bad)))
        end;
        slots := List.map (fun (n, (_, v')) -> (n, v')) pairs
      end
    | Some ("ps_atomic", _) ->
      let calls = ref [] in
      let bad = ref None in
      let fin = ref false in
      while not !fin && !tr <> [] do
        let l = next () in
        if l = "sysend" then fin := true else
        if not (ps_starts l "sys ") then bad := Some l else
        let t = ps_n_of_int 1 in
        let i = List.length !calls in
        (match String.sub l 4 (String.length l - 4) with
         | "open-temp" -> calls := PsOpenTemp t :: !calls
         | "chmod-temp" -> calls := PsChmodTemp t :: !calls
         | "write" -> calls := PsWriteTemp (t, [ps_n_of_int (i + 1)]) :: !calls
         | "fsync" -> calls := PsFsyncTemp t :: !calls
         | "close" -> calls := PsCloseTemp t :: !calls
         | "rename" -> calls := PsRename t :: !calls
         | "unlink-temp" -> calls := PsUnlinkTemp t :: !calls
         | "trunc-final" -> calls := PsTruncFinal :: !calls
         | "write-final" -> calls := PsWriteFinal [ps_n_of_int (i + 1)] :: !calls
         | "unlink-final" -> calls := PsUnlinkFinal :: !calls
         | "openw-final" -> ()
         | other -> bad := Some ("unmodelled-call " ^ other))
      done;
      (match !bad with
       | Some b -> fail ("atomic-trace " ^ b)
       | None ->
         (* the old content is some non-empty content different from anything written now *)
         match ps_oracle_atomic (Some [N0]) (ps_n_of_int 1) (List.rev !calls) with
         | None -> ()
         | Some n -> fail (Printf.sprintf "atomic-violated prefix=%d calls=%s" (let rec len = function O -> 0 | S m -> 1 + len m in len n)
                             (String.concat "," (List.rev_map ps_sys_name !calls))))
    | Some ("ps_kill", _) ->
      let l = next () in
      if !err = None && not (ps_starts l "kill beyond") then begin
        let t = toks_of l in
        if tok_val t "ok" <> Some "1" || tok_val t "loadable" <> Some "1" then fail ("kill-leaves-bad-file " ^ l)
      end
    | Some ("ps_fault", _) ->
      let l = next () in
      if !err = None && not (ps_starts l "fault beyond") then begin
        let t = toks_of l in
        if tok_val t "ok" <> Some "1" || tok_val t "loadable" <> Some "1" then fail ("fault-leaves-bad-file " ^ l)
        else if tok_val t "finished" <> Some "1" then fail ("fault-kills-process " ^ l)
      end
    | _ -> ()) script;
  !err

let () =
  register_op "ps_mnew" op_ps_mnew;
  register_op "ps_mod" op_ps_mod;
  register_op "ps_res" op_ps_res;
  register_op "ps_dma" op_ps_dma;
  register_op "ps_restart" op_ps_restart;
  register_op "ps_dumpstate" op_ps_dumpstate;
  register_op "ps_shutdown" op_ps_shutdown;
  register_op "ps_snew" op_ps_snew;
  register_op "ps_cr" op_ps_cr;
  register_op "ps_crall" (fun a -> emit (Printf.sprintf "crall n=%d" (num a "n" 0)));
  register_op "ps_ack" op_ps_ack;
  register_op "ps_exec" op_ps_exec;
  register_op "ps_dumprestore" op_ps_dumprestore;
  register_op "ps_atomic" op_ps_atomic;
  register_op "ps_kill" op_ps_kill;
  register_op "ps_fault" op_ps_fault;
  register_oracle "C14" oracle_c14_case
