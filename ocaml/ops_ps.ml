open Model
open Vcore

(* ---------------- C14 persistence: glue between scripts and the extracted model ---------------- *)
let ps_n_of_int n = if n = 0 then N0 else Npos (pos_of_int n)
let ps_int_of_n = function N0 -> 0 | Npos p -> int_of_pos p
let ps_key_of_string s = List.map (fun c -> ps_n_of_int (Char.code c)) (List.of_seq (String.to_seq s))
let ps_string_of_key k = String.init (List.length k) (fun i -> Char.chr (ps_int_of_n (List.nth k i)))
let ps_key_hex k = hex_enc (ps_string_of_key k)

(* decimals: "12.5" <-> (125, 1) normalised *)
let ps_num_of_string s =
  let neg = String.length s > 0 && s.[0] = '-' in
  let s = if neg then String.sub s 1 (String.length s - 1) else s in
  let ip, fp = match String.index_opt s '.' with
    | Some i -> String.sub s 0 i, String.sub s (i + 1) (String.length s - i - 1)
    | None -> s, "" in
  let fp = ref fp in
  while String.length !fp > 0 && !fp.[String.length !fp - 1] = '0' do fp := String.sub !fp 0 (String.length !fp - 1) done;
  let m = int_of_string (ip ^ !fp) in
  (z_of_int (if neg then -m else m), ps_n_of_int (String.length !fp))
let ps_string_of_num m k =
  let m = int_of_z m and k = ps_int_of_n k in
  let neg = m < 0 in
  let d = ref (string_of_int (abs m)) in
  while String.length !d < k + 1 do d := "0" ^ !d done;
  let ip = String.sub !d 0 (String.length !d - k) and fp = ref (String.sub !d (String.length !d - k) k) in
  while String.length !fp > 0 && !fp.[String.length !fp - 1] = '0' do fp := String.sub !fp 0 (String.length !fp - 1) done;
  (if neg then "-" else "") ^ ip ^ (if !fp = "" then "" else "." ^ !fp)

let rec ps_canon v =
  match v with
  | PsEmpty -> "N"
  | PsBool b -> if b then "T" else "F"
  | PsNum (m, k) -> "D" ^ ps_string_of_num m k
  | PsStr s -> "S" ^ ps_key_hex s
  | PsArr l -> "A(" ^ String.concat "," (List.map ps_canon l) ^ ")"
  | PsDict d -> "M(" ^ String.concat "," (List.map (fun (k, x) -> ps_key_hex k ^ ":" ^ ps_canon x) d) ^ ")"
  | PsObj (tn, _) -> "O" ^ ps_key_hex tn

(* sorted insert (bytewise) while parsing, as Dictionary::Set does *)
let ps_sorted_set k v d =
  let ks = ps_string_of_key k in
  let rec go = function
    | [] -> [(k, v)]
    | (k', v') :: t ->
      let c = compare ks (ps_string_of_key k') in
      if c = 0 then (k, v) :: t else if c < 0 then (k, v) :: (k', v') :: t else (k', v') :: go t in
  go d

let ps_parse s =
  let i = ref 0 in
  let tok () =
    let j = ref !i in
    while !j < String.length s && s.[!j] <> ',' && s.[!j] <> ')' && s.[!j] <> ':' do incr j done;
    let t = String.sub s !i (!j - !i) in i := !j; t in
  let rec value () =
    let c = s.[!i] in
    incr i;
    match c with
    | 'N' -> PsEmpty
    | 'T' -> PsBool true
    | 'F' -> PsBool false
    | 'D' -> let (m, k) = ps_num_of_string (tok ()) in PsNum (m, k)
    | 'S' -> PsStr (ps_key_of_string (hex_dec (tok ())))
    | 'O' -> PsObj (ps_key_of_string (hex_dec (tok ())), [])
    | 'A' ->
      incr i;
      let items = ref [] in
      while s.[!i] <> ')' do items := value () :: !items; if s.[!i] = ',' then incr i done;
      incr i; PsArr (List.rev !items)
    | 'M' ->
      incr i;
      let d = ref [] in
      while s.[!i] <> ')' do
        let k = ps_key_of_string (hex_dec (tok ())) in
        incr i;
        let x = value () in
        d := ps_sorted_set k x !d;
        if s.[!i] = ',' then incr i
      done;
      incr i; PsDict !d
    | _ -> failwith "bad value syntax" in
  value ()

let ps_k = ps_key_of_string
let ps_fenv = [
  (ps_k "vars", { ps_fi_config = true; ps_fi_nomod = false; ps_fi_kind = ps_n_of_int 1 });
  (ps_k "check_interval", { ps_fi_config = true; ps_fi_nomod = false; ps_fi_kind = ps_n_of_int 2 });
  (ps_k "notes", { ps_fi_config = true; ps_fi_nomod = false; ps_fi_kind = ps_n_of_int 3 });
  (ps_k "__name", { ps_fi_config = true; ps_fi_nomod = true; ps_fi_kind = ps_n_of_int 3 });
  (ps_k "version", { ps_fi_config = false; ps_fi_nomod = true; ps_fi_kind = ps_n_of_int 2 }) ]
let ps_tenv = [ (ps_k "Host", []); (ps_k "Service", []); (ps_k "CheckResult", []) ]

let ps_obj = ref { ps_m_fields = []; ps_m_orig = None; ps_m_version = Z0 }
let ps_obj0 = ref !ps_obj
let ps_slots : (string * ps_value) list ref = ref []

let ps_mk_obj vars ci notes orig ver =
  { ps_m_fields = [ (ps_k "check_interval", ci); (ps_k "notes", notes); (ps_k "vars", vars) ]; ps_m_orig = orig; ps_m_version = ver }

let ps_state_line tag ok (o : ps_mobj) =
  let f n = ps_canon (ps_dget (ps_k n) o.ps_m_fields) in
  Printf.sprintf "%s ok=%d vars=%s ci=%s notes=%s orig=%s ver=%s" tag (if ok then 1 else 0) (f "vars") (f "check_interval") (f "notes")
    (match o.ps_m_orig with None -> "N" | Some d -> ps_canon (PsDict d)) (zs o.ps_m_version)

let op_ps_mnew a =
  let vars = if has a "vars" then ps_parse (str a "vars" "N") else PsEmpty in
  let notes = PsStr (ps_k (hex_dec (str a "notes" "-"))) in
  let ci = let (m, k) = ps_num_of_string (str a "ci" "300") in PsNum (m, k) in
  ps_obj := ps_mk_obj vars ci notes None Z0;
  ps_obj0 := !ps_obj;
  ps_slots := [];
  emit (ps_state_line "mnew" true !ps_obj)

let op_ps_mod a =
  let (ok, o) = ps_modify_attribute ps_fenv (ps_k (hex_dec (str a "path" "-"))) (ps_parse (str a "val" "N")) true (z_of_int !now) !ps_obj in
  ps_obj := o; emit (ps_state_line "mod" ok o)

let op_ps_res a =
  let (ok, o) = ps_restore_attribute ps_fenv (ps_k (hex_dec (str a "path" "-"))) true (z_of_int !now) !ps_obj in
  ps_obj := o; emit (ps_state_line "res" ok o)

let op_ps_dma _ =
  match ps_dump_modattrs !ps_obj with
  | None -> emit "dma ok=0"
  | Some script ->
    let (ok, o) = ps_replay_modattrs ps_fenv script (!ps_obj).ps_m_version (z_of_int !now) !ps_obj0 in
    ps_obj := o; emit (ps_state_line "dma" ok o)

let ps_set_slot n v = if List.mem_assoc n !ps_slots then ps_slots := List.map (fun (k, x) -> if k = n then (k, v) else (k, x)) !ps_slots
  else ps_slots := !ps_slots @ [(n, v)]

let op_ps_snew _ = ps_slots := []
let op_ps_cr a =
  let on = str a "on" "host" in
  ps_set_slot (on ^ ".last_check_result.command") (if has a "cmd" then ps_parse (str a "cmd" "N") else PsEmpty);
  ps_set_slot (on ^ ".last_check_result.output") (PsStr (ps_k (hex_dec (str a "out" "-"))));
  ps_set_slot (on ^ ".last_check_result.performance_data") (if has a "perf" then ps_parse (str a "perf" "N") else PsEmpty);
  emit "cr res=0"
let op_ps_ack _ = emit "ack"
let op_ps_exec a = ps_set_slot (str a "on" "host" ^ ".executions") (ps_parse (str a "val" "N")); emit "exec"

let ps_roundtrip v = ps_deserialize ps_tenv ps_FAState (ps_serialize ps_tenv ps_FAState v)
(* "executions" is a Dictionary::Ptr field: SetField rejects an instantiated object, DeserializeObject then stores null *)
let ps_roundtrip_slot n v =
  let v' = ps_roundtrip v in
  let is_exec = String.length n >= 10 && String.sub n (String.length n - 10) 10 = "executions" in
  match v' with PsObj _ when is_exec -> PsEmpty | _ -> v'
let op_ps_dumprestore _ =
  let after = List.map (fun (n, v) -> (n, v, ps_roundtrip_slot n v)) !ps_slots in
  let diff = List.sort compare (List.filter_map (fun (n, v, v') -> if ps_veqb v v' then None else Some n) after) in
  emit (Printf.sprintf "rt all=%d diff=%s" (if diff = [] then 1 else 0) (if diff = [] then "-" else String.concat "," diff));
  List.iter (fun (n, _, v') -> emit ("slot " ^ n ^ " " ^ ps_canon v')) after;
  ps_slots := List.map (fun (n, _, v') -> (n, v')) after

let ps_sys_name = function
  | PsOpenTemp _ -> "open-temp" | PsChmodTemp _ -> "chmod-temp" | PsWriteTemp _ -> "write" | PsFsyncTemp _ -> "fsync"
  | PsCloseTemp _ -> "close" | PsRename _ -> "rename" | PsUnlinkTemp _ -> "unlink-temp" | PsTruncFinal -> "trunc-final"
  | PsWriteFinal _ -> "write-final" | PsUnlinkFinal -> "unlink-final"
let op_ps_atomic _ =
  List.iter (fun c -> emit ("sys " ^ ps_sys_name c)) (ps_atomic_trace (ps_n_of_int 1) [[ps_n_of_int 1]]);
  emit "sysend"
let op_ps_kill _ = emit "kill ok=1 loadable=1"

(* ---------------- oracle: the property evaluated on the IMPLEMENTATION's observations ---------------- *)
let ps_starts l p = String.length l >= String.length p && String.sub l 0 (String.length p) = p

let ps_parse_state l =
  let t = toks_of l in
  let g k = match tok_val t k with Some v -> v | None -> failwith ("missing " ^ k) in
  let ok = g "ok" = "1" in
  if List.length t <= 2 then (ok, None) else
  let orig = match g "orig" with "N" -> None | s -> (match ps_parse s with PsDict d -> Some d | _ -> None) in
  (ok, Some (ps_mk_obj (ps_parse (g "vars")) (ps_parse (g "ci")) (ps_parse (g "notes")) orig Z0))

let rec ps_is_prefix a b = match a, b with [] , _ -> true | x :: a', y :: b' -> x = y && ps_is_prefix a' b' | _ -> false
let ps_comparable p q = let a = ps_split p and b = ps_split q in ps_is_prefix a b || ps_is_prefix b a

let oracle_c14_case script trace =
  let tr = ref trace in
  let err = ref None in
  let fail m = if !err = None then err := Some m in
  let next () = match !tr with [] -> fail "missing-observation"; "MISSING" | l :: r -> tr := r; if is_bad_line l then fail ("crash " ^ l); l in
  let initial = ref None and cur = ref None in
  (* per explicitly modified path: (dict pre-value seen, other comparable successful ops seen) since it became modified *)
  let open_mods : (ps_key * (bool ref * bool ref)) list ref = ref [] in
  let slots = ref [] in
  List.iter (fun line ->
    if !err = None then
    match parse_line line with
    | Some ("ps_mnew", _) ->
      let (_, o) = ps_parse_state (next ()) in initial := o; cur := o; open_mods := []; slots := []
    | Some ("ps_snew", _) -> slots := []
    | Some ("ps_mod", a) ->
      let l = next () in
      if !err = None then begin
        let p = ps_k (hex_dec (str a "path" "-")) in
        let (ok, o) = ps_parse_state l in
        (match !cur, o with
         | Some pre, Some _ when ok ->
           List.iter (fun (q, (_, ov)) -> if q <> p && ps_comparable p q then ov := true) !open_mods;
           let isd = ps_is_dict (ps_get_attr p pre) in
           (match List.assoc_opt p !open_mods with
            | Some (d, _) -> if isd then d := true
            | None ->
              let other = List.exists (fun (q, _) -> q <> p && ps_comparable p q) !open_mods in
              open_mods := (p, (ref isd, ref other)) :: !open_mods)
         | _ -> ());
        if o <> None then cur := o
      end
    | Some ("ps_res", a) ->
      let l = next () in
      if !err = None then begin
        let p = ps_k (hex_dec (str a "path" "-")) in
        let (ok, o) = ps_parse_state l in
        (* restoring a top-level attribute that original_attributes does not list must not change it *)
        (match !cur, o with
         | Some pre, Some post when ok && List.length (ps_split p) = 1 && not (ps_orig_mentions p pre) ->
           if not (ps_veqb (ps_get_attr p pre) (ps_get_attr p post)) then
             fail (Printf.sprintf "restore-unmodified path=%s before=%s after=%s" (ps_key_hex p) (ps_canon (ps_get_attr p pre)) (ps_canon (ps_get_attr p post)))
         | _ -> ());
        (match !initial, o with
         | Some ini, Some post when ok && !err = None ->
           List.iter (fun (q, (_, ov)) -> if q <> p && ps_comparable p q then ov := true) !open_mods;
           (match List.assoc_opt p !open_mods with
            | Some (d, ov) ->
              let before = ps_get_attr p ini and after = ps_get_attr p post in
              if not (ps_oracle_restore before after (ps_orig_mentions p post)) then
                fail (Printf.sprintf "restore-mismatch path=%s olddict=%d overlap=%d original=%s got=%s mentioned=%d" (ps_key_hex p)
                        (if !d then 1 else 0) (if !ov then 1 else 0) (ps_canon before) (ps_canon after) (if ps_orig_mentions p post then 1 else 0));
              open_mods := List.filter (fun (q, _) -> q <> p) !open_mods
            | None -> ())
         | _ -> ());
        if o <> None then cur := o
      end
    | Some ("ps_dma", _) ->
      let l = next () in
      if !err = None then begin
        let (ok, o) = ps_parse_state l in
        match !cur, o with
        | _, None -> fail "modattr-dump-failed"
        | Some pre, Some post ->
          (* every runtime-modified attribute (= key of original_attributes) has the same value after the reload *)
          let keys = match pre.ps_m_orig with Some d -> List.map fst d | None -> [] in
          let post_keys = match post.ps_m_orig with Some d -> List.map fst d | None -> [] in
          (* C14_history_reload: the reloaded object lists exactly the keys that were listed at the dump (a stale or
             missing file shows here), and every listed attribute reads as before *)
          let same = ok && List.for_all (fun k -> ps_veqb (ps_get_attr k pre) (ps_get_attr k post) && ps_orig_mentions k post) keys
                     && List.for_all (fun k -> List.mem k keys) post_keys in
          if not same then begin
            let bad = List.filter (fun k -> not (ps_veqb (ps_get_attr k pre) (ps_get_attr k post) && ps_orig_mentions k post)) keys in
            match bad with
            | k :: _ when ok -> fail (Printf.sprintf "modattr-mismatch ok=1 key=%s before=%s after=%s mentioned=%d" (ps_key_hex k)
                                       (ps_canon (ps_get_attr k pre)) (ps_canon (ps_get_attr k post)) (if ps_orig_mentions k post then 1 else 0))
            | [] when ok -> fail (Printf.sprintf "modattr-mismatch ok=1 extra-keys listed-after=%s listed-before=%s"
                                    (String.concat "," (List.map ps_key_hex post_keys)) (String.concat "," (List.map ps_key_hex keys)))
            | _ -> fail "modattr-mismatch ok=0 reload-failed"
          end;
          cur := o; open_mods := []
        | None, _ -> fail "modattr-no-prestate"
      end
    | Some ("ps_cr", a) ->
      let l = next () in
      if !err = None && l <> "cr res=0" then fail ("check-result-not-processed " ^ l);
      let on = str a "on" "host" in
      let set n v = slots := (n, v) :: List.remove_assoc n !slots in
      set (on ^ ".last_check_result.command") (if has a "cmd" then ps_parse (str a "cmd" "N") else PsEmpty);
      set (on ^ ".last_check_result.output") (PsStr (ps_k (hex_dec (str a "out" "-"))));
      set (on ^ ".last_check_result.performance_data") (if has a "perf" then ps_parse (str a "perf" "N") else PsEmpty)
    | Some ("ps_ack", _) -> ignore (next ())
    | Some ("ps_exec", a) -> ignore (next ()); slots := (str a "on" "host" ^ ".executions", ps_parse (str a "val" "N")) :: List.remove_assoc (str a "on" "host" ^ ".executions") !slots
    | Some ("ps_dumprestore", _) ->
      let l = next () in
      if !err = None then begin
        let t = toks_of l in
        let all_same = tok_val t "all" = Some "1" in
        let diff = match tok_val t "diff" with Some d -> d | None -> "?" in
        let obs = ref [] in
        while (match !tr with l :: _ when ps_starts l "slot " -> true | _ -> false) do
          (match toks_of (next ()) with [_; n; v] -> obs := (n, ps_parse v) :: !obs | _ -> fail "bad-slot-line")
        done;
        let pairs = List.filter_map (fun (n, v) -> match List.assoc_opt n !obs with Some v' -> Some (n, (v, v')) | None -> None) !slots in
        if List.length pairs <> List.length !slots then fail "slot-missing";
        if not (ps_oracle_roundtrip all_same (List.map snd pairs)) then begin
          let bad = List.filter_map (fun (n, (v, v')) -> if ps_veqb v v' then None else Some n) pairs in
          fail (Printf.sprintf "state-roundtrip diff=%s slots=%s" diff (String.concat "," (List.sort compare bad)))
        end;
        slots := List.map (fun (n, (_, v')) -> (n, v')) pairs
      end
    | Some ("ps_atomic", _) ->
      let calls = ref [] in
      let bad = ref None in
      let fin = ref false in
      while not !fin && !tr <> [] do
        let l = next () in
        if l = "sysend" then fin := true else
        if not (ps_starts l "sys ") then bad := Some l else
        let t = ps_n_of_int 1 in
        let i = List.length !calls in
        (match String.sub l 4 (String.length l - 4) with
         | "open-temp" -> calls := PsOpenTemp t :: !calls
         | "chmod-temp" -> calls := PsChmodTemp t :: !calls
         | "write" -> calls := PsWriteTemp (t, [ps_n_of_int (i + 1)]) :: !calls
         | "fsync" -> calls := PsFsyncTemp t :: !calls
         | "close" -> calls := PsCloseTemp t :: !calls
         | "rename" -> calls := PsRename t :: !calls
         | "unlink-temp" -> calls := PsUnlinkTemp t :: !calls
         | "trunc-final" -> calls := PsTruncFinal :: !calls
         | "write-final" -> calls := PsWriteFinal [ps_n_of_int (i + 1)] :: !calls
         | "unlink-final" -> calls := PsUnlinkFinal :: !calls
         | "openw-final" -> ()
         | other -> bad := Some ("unmodelled-call " ^ other))
      done;
      (match !bad with
       | Some b -> fail ("atomic-trace " ^ b)
       | None ->
         (* the old content is some non-empty content different from anything written now *)
         match ps_oracle_atomic (Some [N0]) (ps_n_of_int 1) (List.rev !calls) with
         | None -> ()
         | Some n -> fail (Printf.sprintf "atomic-violated prefix=%d calls=%s" (let rec len = function O -> 0 | S m -> 1 + len m in len n)
                             (String.concat "," (List.rev_map ps_sys_name !calls))))
    | Some ("ps_kill", _) ->
      let l = next () in
      if !err = None && not (ps_starts l "kill beyond") then begin
        let t = toks_of l in
        if tok_val t "ok" <> Some "1" || tok_val t "loadable" <> Some "1" then fail ("kill-leaves-bad-file " ^ l)
      end
    | _ -> ()) script;
  !err

let () =
  register_op "ps_mnew" op_ps_mnew;
  register_op "ps_mod" op_ps_mod;
  register_op "ps_res" op_ps_res;
  register_op "ps_dma" op_ps_dma;
  register_op "ps_snew" op_ps_snew;
  register_op "ps_cr" op_ps_cr;
  register_op "ps_ack" op_ps_ack;
  register_op "ps_exec" op_ps_exec;
  register_op "ps_dumprestore" op_ps_dumprestore;
  register_op "ps_atomic" op_ps_atomic;
  register_op "ps_kill" op_ps_kill;
  register_oracle "C14" oracle_c14_case
