(* C05 oracle glue: rebuilds, from the script and the IMPLEMENTATION's observation lines, the per-step
   records (downtimes before/after, events) and hands them to the extracted Gallina oracle c5_oracle.
   No op handlers here: the ops are those of ops_ckfull.ml. *)
open Model
open Vcore

let c5_sstate = function 0 -> SOK | 1 -> SWarning | 2 -> SCritical | _ -> SUnknown

let c5_parse_op name (a : args) : op option =
  let b k = num a k 0 <> 0 in
  let z k = z_of_int (if has a k then tnum (str a k "0") else 0) in
  match name with
  | "crf" ->
    let t k nowv = z_of_int (if has a k then tnum (str a k "0") else nowv) in
    Some (OpResult { r_state = c5_sstate (num a "state" 0); r_start = t "start" !now; r_end = t "end" !now })
  | "parent" -> Some (OpParent (b "up"))
  | "ack" -> Some (OpAck (ViaApi, b "sticky", b "notify", b "pers", b "eg", z "expiry"))
  | "unack" -> Some OpUnack
  | "ackread" -> Some OpAckRead
  | "cmtimer" -> Some OpCommentTimer
  | "dt_add" -> Some (OpDtAdd (z "id", b "fixed", z "start", z "end", z "dur", z "trig", z "parent", b "owned"))
  | "dt_remove" ->
    let r = match str a "reason" "user" with "expired" -> RExpired | "owner" -> RByOwner | _ -> RByUser in
    Some (OpDtRemove (z "id", b "children", r))
  | "dt_starttimer" -> Some OpDtStartTimer
  | "dt_cleanup" -> Some (OpDtCleanup (z "id"))
  | "fire" -> Some OpFire
  | "pause" -> Some (OpPause (b "p"))
  | "nextcheck" -> Some (OpNextCheck (z "t"))
  | _ -> None

let c5_check_names = [| ""; "trigger-time-changed-or-attributes-changed"; "triggered-outside-window";
  "removal-events"; "downtime-end-count"; "owned-downtime-removed-by-user"; "cleanup-of-expired";
  "trigger-on-result"; "trigger-on-add"; "downtime-start-count"; "triggered-event-missing"; "downtime-depth"; "chain-not-propagated";
  "changed-although-timer-not-due"; "cleanup-timer-not-armed-for-expiry" |]
let c5_finding_names = [| "none"; "unused"; "lost-start"; "unused" |]

let oracle_c05_case script trace =
  let kind = ref KHost in
  let nowr = ref 0 in
  let paused = ref false in
  let has_cr = ref false in
  let last_st = ref 0 in
  let pre = ref [] in               (* reconstructed downtime records, creation order *)
  let tm_pre = ref [] in            (* the observed clean-up timers after the previous operation *)
  let steps = ref [] in
  let lines = ref [] in
  let err = ref None in
  let tr = ref trace in
  let fail m = if !err = None then err := Some m in
  List.iteri (fun li line ->
    if !err = None then
    match parse_line line with
    | Some ("ckf_new", a) -> kind := (if str a "kind" "host" = "svc" then KService else KHost)
    | Some ("now", a) -> nowr := tnum (List.hd a.pos)
    | Some (("obs" | "case" | "end"), _) -> ()
    | Some (name, a) ->
      now := !nowr;
      let parsed = if name = "dt_pause" then Some (OpPause (num a "p" 0 <> 0), XDtPause (z_of_int (num a "id" 0), num a "p" 0 <> 0))
        else (match c5_parse_op name a with Some o -> Some (o, XOp o) | None -> None) in
      (match parsed with
       | None -> ()
       | Some (o, xo) ->
         (match !tr with
          | [] -> fail (Printf.sprintf "step=%d missing-observation" li)
          | l :: rest ->
            tr := rest;
            if is_bad_line l then fail (Printf.sprintf "step=%d crash %s" li l) else begin
              let t = toks_of l in
              let geti k = match tok_val t k with Some v -> int_of_string v | None -> -1 in
              (* candidates: what existed before, plus what this operation creates *)
              let cand = match o with
                | OpDtAdd (id, fixed, start, end_, dur, trig_by, parent, owned) ->
                  let d = { d_id = id; d_fixed = fixed; d_start = start; d_end = end_; d_duration = dur;
                            d_entry = z_of_int !nowr; d_trigger = z_of_int 0; d_triggers = []; d_parent = parent; d_owned = owned } in
                  let l0 = !pre @ [d] in
                  if int_of_z trig_by = 0 then l0
                  else List.map (fun p -> if int_of_z p.d_id = int_of_z trig_by && not (List.exists (fun c -> int_of_z c = int_of_z id) p.d_triggers)
                                          then { p with d_triggers = p.d_triggers @ [id] } else p) l0
                | _ -> !pre in
              let dts = match tok_val t "dts" with Some "-" | None -> [] | Some v ->
                List.map (fun e -> match String.split_on_char ':' e with
                                   | [i; tt] -> (int_of_string i, int_of_string tt)
                                   | _ -> (-1, 0)) (String.split_on_char ',' v) in
              let post = List.filter_map (fun d ->
                  match List.assoc_opt (int_of_z d.d_id) dts with
                  | Some tt -> Some { d with d_trigger = z_of_int tt }
                  | None -> None) cand in
              if List.exists (fun (i, _) -> not (List.exists (fun d -> int_of_z d.d_id = i) cand)) dts then
                fail (Printf.sprintf "step=%d unknown-downtime-in-observation %s" li l);
              let outs = List.concat_map (fun tok ->
                  match String.index_opt tok '=' with
                  | Some i ->
                    let k = String.sub tok 0 i and v = String.sub tok (i + 1) (String.length tok - i - 1) in
                    (match k, v with
                     | "nr", "1" -> [ONotify NDowntimeStart]
                     | "nr", "2" -> [ONotify NDowntimeEnd]
                     | "dttrig", v -> [ODtTriggered (z_of_int (int_of_string v))]
                     | "dtrem", v -> [ODtRemoved (z_of_int (int_of_string v))]
                     | "ref", "4" -> [ORefused (z_of_int 4)]
                     | _ -> [])
                  | None -> []) (List.tl t) in
              let accepted = List.mem "ncr" t in
              let problem = !has_cr && !last_st <> 0 in
              let s = { c5_now = z_of_int !nowr; c5_paused = !paused; c5_problem = problem; c5_checked = !has_cr;
                        c5_accepted = (match o with OpResult _ -> accepted | _ -> true);
                        c5_op = o; c5_pre = !pre; c5_post = post; c5_outs = outs;
                        c5_depth = (match o with OpAckRead -> Some (z_of_int (geti "depth")) | _ -> None) } in
              let tm_post = List.filter_map (fun tok ->
                  if String.length tok > 3 && String.sub tok 0 3 = "tm=" then
                    (match String.split_on_char ':' (String.sub tok 3 (String.length tok - 3)) with
                     | [i; ar; due; pa] -> Some { tm_id = z_of_int (int_of_string i); tm_armed = (ar = "1");
                                                  tm_paused = (pa = "1"); tm_due = z_of_int (int_of_string due) }
                     | _ -> None)
                  else None) t in
              let s = { ct_base = s; ct_xop = xo; ct_tm_pre = !tm_pre; ct_tm_post = tm_post } in
              tm_pre := tm_post;
              steps := s :: !steps;
              lines := (li, line) :: !lines;
              pre := post;
              (match xo with XOp (OpPause p) -> paused := p | _ -> ());
              (match o with OpResult _ -> if accepted then has_cr := true | _ -> ());
              last_st := geti "st"
            end))
    | None -> ()) script;
  match !err with
  | Some m -> Some m
  | None ->
    let lines = Array.of_list (List.rev !lines) in
    (match c5_toracle !kind (List.rev !steps) with
     | [] -> None
     | fails ->
       let descr ((idx, n), e) =
         let idx = int_of_z idx and n = int_of_z n and e = int_of_z e in
         let (li, line) = if idx < Array.length lines then lines.(idx) else (-1, "?") in
         Printf.sprintf "finding=%s check=%d:%s step=%d op=[%s]" c5_finding_names.(e) n c5_check_names.(n) li line in
       (* an unexplained failure takes precedence over explained ones *)
       let unexplained = List.filter (fun (_, e) -> int_of_z e = 0) fails in
       (match unexplained with
        | f :: _ -> Some (descr f)
        | [] -> Some (descr (List.hd fails))))

let () = register_oracle "C05" oracle_c05_case
