open Model
open Vcore

(* ---------------- C09 fixture: macro / argument resolution, plugin execution ---------------- *)
let mx_n_of_int i = if i = 0 then N0 else Npos (pos_of_int i)
let mx_int_of_n = function N0 -> 0 | Npos p -> int_of_pos p
let mx_b (s : string) : mx_bytes = List.map (fun c -> mx_n_of_int (Char.code c)) (List.of_seq (String.to_seq s))
let mx_s (b : mx_bytes) : string = String.init (List.length b) (fun i -> Char.chr ((mx_int_of_n (List.nth b i)) land 255))
let mx_s (b : mx_bytes) : string =
  let buf = Buffer.create 64 in List.iter (fun n -> Buffer.add_char buf (Char.chr ((mx_int_of_n n) land 255))) b; Buffer.contents buf
let mx_hex b = hex_enc (mx_s b)
let mx_unhex h = mx_b (hex_dec h)
let mx_hexlist l = if l = [] then "[]" else String.concat "," (List.map mx_hex l)

type mx_state = {
  mutable vars : (string * (mx_bytes * mxv)) list;     (* level, (name, value)  in script order *)
  mutable attrs : (string * (mx_bytes * mxv)) list;
  mutable envs : (mx_bytes * mxv) list;
  mutable cmd_arr : bool;
  mutable cmd : mx_bytes list;
  mutable have_args : bool;
  mutable args : mx_argspec list;
  mutable plug_exit : int;
  mutable plug_out : string;
  mutable plug_sig : int;
  mutable plug_sleep : int;
  mutable plug_term : string;
  mutable plug_gchild : int;
}
let mx_fresh () = { vars = []; attrs = []; envs = []; cmd_arr = true; cmd = []; have_args = false; args = [];
                    plug_exit = 0; plug_out = "-"; plug_sig = 0; plug_sleep = 0; plug_term = ""; plug_gchild = 0 }
let mx_st = ref (mx_fresh ())

let mx_scalar spec =
  let body = String.sub spec 2 (String.length spec - 2) in
  match spec.[0] with
  | 's' -> MxStr (mx_unhex body)
  | 'n' -> MxNum (z_of_int (int_of_string body))
  | 'b' -> MxBool (body = "1")
  | _ -> MxEmpty

let mx_value a =
  let t = str a "t" "s" in
  if t = "a" then MxArr (List.init (num a "n" 0) (fun i -> mx_scalar (str a (Printf.sprintf "e%d" i) "e:")))
  else if t = "d" then
    (* a DSL dictionary literal: later duplicates win, look-ups only *)
    MxDict (List.rev (List.init (num a "n" 0) (fun i -> (mx_unhex (str a (Printf.sprintf "k%d" i) "-"), mx_scalar (str a (Printf.sprintf "e%d" i) "e:")))))
  else mx_scalar (t ^ ":" ^ str a "v" (if t = "s" then "-" else "0"))

(* the same state changes the harness makes *)
let mx_apply st op a =
  match op with
  | "mx_new" -> mx_st := mx_fresh ()
  | "mx_var" -> st.vars <- st.vars @ [ (str a "lvl" "host", (mx_unhex (str a "name" "-"), mx_value a)) ]
  | "mx_attr" -> st.attrs <- st.attrs @ [ (str a "lvl" "host", (mx_b (str a "name" ""), MxStr (mx_unhex (str a "v" "-")))) ]
  | "mx_env" -> st.envs <- st.envs @ [ (mx_b (str a "name" ""), MxStr (mx_unhex (str a "v" "-"))) ]
  | "mx_cmd" -> st.cmd_arr <- (str a "kind" "arr" = "arr"); st.cmd <- []
  | "mx_cel" -> st.cmd <- st.cmd @ [ mx_unhex (str a "v" "-") ]
  | "mx_args" -> st.have_args <- true
  | "mx_arg" ->
    st.have_args <- true;
    let dict = num a "dict" 1 <> 0 in
    let opt k = if has a k then Some (mx_unhex (str a k "-")) else None in
    let sv k = match opt k with Some b -> MxStr b | None -> MxEmpty in
    st.args <- st.args @ [ {
      mx_as_name = mx_unhex (str a "name" "-"); mx_as_isdict = dict;
      mx_as_key = (if dict then opt "key" else None);
      mx_as_value = sv "val";
      mx_as_required = dict && num a "req" 0 <> 0;
      mx_as_skip_key = dict && num a "skip" 0 <> 0;
      mx_as_repeat_key = (if dict && has a "rep" then num a "rep" 1 <> 0 else true);
      mx_as_order = z_of_int (if dict then num a "order" 0 else 0);
      mx_as_sep = (if dict then opt "sep" else None);
      mx_as_set_if = (if dict then sv "sif" else MxEmpty) } ]
  | "mx_plug" ->
    st.plug_exit <- num a "exit" 0; st.plug_out <- str a "out" "-"; st.plug_sig <- num a "sig" 0; st.plug_sleep <- num a "sleep" 0;
    st.plug_term <- str a "term" ""; st.plug_gchild <- num a "gchild" 0
  | _ -> ()

let mx_level st lvl name =
  (* a DSL dictionary literal keeps the LAST of duplicate keys; mx_assoc finds the first *)
  let vars = List.rev (List.filter_map (fun (l, kv) -> if l = lvl then Some kv else None) st.vars) in
  let attrs = List.filter_map (fun (l, kv) -> if l = lvl then Some kv else None) st.attrs in
  { mx_lv_name = mx_b name; mx_lv_short = true; mx_lv_vars = Some vars; mx_lv_macros = [];
    mx_lv_fields = attrs @ [ (mx_b "vars", MxDict vars) ] }

let mx_env st svc =
  (if svc then [ mx_level st "svc" "service" ] else [])
  @ [ mx_level st "host" "host"; mx_level st "cmd" "command";
      { mx_lv_name = mx_b "icinga"; mx_lv_short = true; mx_lv_vars = None; mx_lv_macros = []; mx_lv_fields = [] };
      { mx_lv_name = mx_b "env"; mx_lv_short = false; mx_lv_vars = None; mx_lv_macros = st.envs; mx_lv_fields = [] } ]

let mx_command st = if st.cmd_arr then MxArr (List.map (fun b -> MxStr b) st.cmd) else (match st.cmd with b :: _ -> MxStr b | [] -> MxStr [])
let mx_arguments st = if st.have_args then Some (mx_dict_sort st.args) else None

let mx_res_line = function
  | MxCmdArr l -> String.concat " " ("res arr" :: List.map mx_hex l)
  | MxCmdStr s -> "res sh " ^ mx_hex s
  | MxCmdThrow _ -> "res err"

let mx_plug_exit st = if st.plug_sig <> 0 || st.plug_sleep <> 0 || st.plug_gchild <> 0 then 128 else st.plug_exit

(* timeout scenarios (the generator makes the plugin, or a grandchild holding the pipe, outlive the timeout by a wide
   margin): the course of Process::DoEvents calls the scenario forces.  Only the facts "soft / hard deadline passed"
   matter (C09_timeout_unknown), so one representative course per scenario is enough. *)
let mx_timeout_scenario st = st.plug_sleep <> 0 || st.plug_gchild <> 0
let mx_timeout_events st : mx_pev list =
  let ev soft hard rd w = { mx_ev_past_soft = soft; mx_ev_past_hard = hard; mx_ev_read = rd; mx_ev_wait = w } in
  let out = mx_unhex st.plug_out in
  let first = ev false false (MxReadAgain out) MxWaitFail in
  let term = ev true false (MxReadAgain []) MxWaitFail in
  let killed w = ev true true (MxReadAgain []) w in
  if st.plug_gchild <> 0 && st.plug_sleep = 0 then
    (* the plugin has exited on its own, the pipe stays open: SIGTERM (to a zombie), then SIGKILL to the group *)
    [ first; term; killed (MxWaitExit (z_of_int st.plug_exit)) ]
  else if st.plug_term = "ignore" then [ first; term; killed (MxWaitSignal (mx_b "9 (Killed)")) ]
  else if String.length st.plug_term > 5 && String.sub st.plug_term 0 5 = "exit:" then begin
    match String.split_on_char ':' st.plug_term with
    | [ _; code; delay ] when int_of_string delay <= 50 ->
      [ first; term; ev true false (MxReadEof (mx_b "trapped")) (MxWaitExit (z_of_int (int_of_string code))) ]
    | _ -> [ first; term; killed (MxWaitSignal (mx_b "9 (Killed)")) ]
  end
  else [ first; term; ev true false (MxReadEof []) (MxWaitSignal (mx_b "15 (Terminated)")) ]

let mx_exec_line st (o : mx_obs_exec) argv_unknown =
  let b = Buffer.create 128 in
  Buffer.add_string b ("exec argv=" ^ (match o.mx_oe_argv with Some l -> mx_hexlist l | None -> if argv_unknown then "?" else "none"));
  if mx_timeout_scenario st && o.mx_oe_argv <> None then begin
    (match mx_timeout_observe (mx_timeout_events st) with
     | Some ((s, e), m) -> Buffer.add_string b (Printf.sprintf " state=%s exit=%s tmo=%d" (zs s) (zs e) (if m then 1 else 0))
     | None -> Buffer.add_string b " state=? exit=? tmo=?");
    if st.plug_gchild <> 0 then Buffer.add_string b " gc=dead"
  end else
  Buffer.add_string b (Printf.sprintf " state=%s exit=%s" (zs o.mx_oe_state) (zs o.mx_oe_exit));
  (match o.mx_oe_out with
   | Some (t, pd) when st.plug_sig = 0 && not (mx_timeout_scenario st) -> Buffer.add_string b (Printf.sprintf " out=%s pd=%s" (mx_hex t) (mx_hexlist pd))
   | _ -> ());
  Buffer.contents b

let () =
  List.iter (fun op -> register_op op (fun a -> mx_apply !mx_st op a))
    [ "mx_new"; "mx_var"; "mx_attr"; "mx_env"; "mx_cmd"; "mx_cel"; "mx_args"; "mx_arg"; "mx_plug" ];
  register_op "mx_resolve" (fun a ->
    let st = !mx_st in
    emit (mx_res_line (mx_resolve_arguments (mx_env st (num a "svc" 0 <> 0)) (mx_command st) (mx_arguments st))));
  register_op "mx_exec" (fun a ->
    let st = !mx_st in
    let env = mx_env st (num a "svc" 0 <> 0) in
    let r = mx_resolve_arguments env (mx_command st) (mx_arguments st) in
    let o = mx_observe_exec env (mx_command st) (mx_arguments st) (z_of_int (mx_plug_exit st)) (mx_unhex st.plug_out) in
    emit (mx_exec_line st o (mx_plugin_argv r = MxArgvUnknown)));
  register_op "mx_replay" (fun a ->
    let st = !mx_st in
    let env = mx_env st (num a "svc" 0 <> 0) in
    (match mx_remote false env [] (mx_command st) (mx_arguments st) with
     | None -> emit "rcoll err"
     | Some r ->
       emit "rcoll ok";
       emit ("r" ^ mx_res_line r);
       if num a "run" 0 <> 0 then
         emit (Printf.sprintf "rexec argv=%s exit=%d"
                 (match mx_plugin_argv r with MxArgv l -> mx_hexlist l | MxArgvUnknown -> "?" | MxArgvNone -> "none")
                 (match r with MxCmdThrow _ -> 3 | _ -> mx_plug_exit st))));
  register_op "mx_esc" (fun a -> emit ("esc " ^ mx_hex (mx_escape_shell_arg (mx_unhex (str a "v" "-")))));
  register_op "mx_exit" (fun a -> emit ("exit " ^ zs (mx_exit_to_state (z_of_int (num a "st" 0)))));
  register_op "mx_out" (fun a ->
    let (t, p) = mx_parse_check_output (mx_unhex (str a "v" "-")) in
    emit (Printf.sprintf "out text=%s perf=%s pd=%s" (mx_hex t) (mx_hex p) (mx_hexlist (mx_split_perfdata p))));
  register_case_end (fun () -> mx_st := mx_fresh ())

(* ---------------- oracle: the extracted Gallina checks over the implementation's lines ---------------- *)
let mx_code_name c =
  match int_of_z c with
  | 1 -> "failure-expected-but-command-produced" | 2 -> "unexpected-failure" | 3 -> "array-vs-string"
  | 4 -> "argv-count" | 5 -> "argv-content" | 6 -> "shell-string"
  | 11 -> "plugin-started-after-failed-resolution" | 12 -> "shell-string-outside-model" | 13 -> "argv-through-sh" | 14 -> "argv-execvp"
  | 15 -> "failure-not-unknown" | 16 -> "exit-status" | 17 -> "exit-map" | 18 -> "output-text" | 19 -> "perfdata"
  | 50 -> "timeout-not-unknown" | 51 -> "timeout-marker" | 52 -> "timeout-scenario" | 53 -> "grandchild-survived"
  | 60 -> "replay-parent-outcome" | 61 -> "replay-differs-from-local" | 62 -> "replay-argv" | 63 -> "replay-exit"
  | 20 -> "escape" | 21 -> "escape-not-one-word" | 30 -> "exit-map" | 40 -> "output-text" | 41 -> "output-perf" | 42 -> "perfdata"
  | n -> "code-" ^ string_of_int n

let mx_unhexlist s = if s = "[]" then [] else List.map mx_unhex (String.split_on_char ',' s)

let oracle_c09_case script trace =
  let st = ref (mx_fresh ()) in
  mx_st := !st;
  let tr = ref trace in
  let err = ref None in
  let fail m = if !err = None then err := Some m in
  let next () = match !tr with [] -> None | l :: r -> tr := r; Some l in
  List.iteri (fun li line ->
    match parse_line line with
    | Some (op, a) when List.mem op [ "mx_new"; "mx_var"; "mx_attr"; "mx_env"; "mx_cmd"; "mx_cel"; "mx_args"; "mx_arg"; "mx_plug" ] ->
      mx_apply !mx_st op a
    | Some ("mx_replay", a) ->
      let st = !mx_st in
      let env = mx_env st (num a "svc" 0 <> 0) in
      let cmd = mx_command st and args = mx_arguments st in
      let bad l = fail (Printf.sprintf "step=%d crash %s" li l) in
      let code c = fail (Printf.sprintf "step=%d mx_replay %s" li (mx_code_name c)) in
      (match next () with
       | None -> fail (Printf.sprintf "step=%d missing-observation" li)
       | Some l when is_bad_line l -> bad l
       | Some l when toks_of l <> [ "rcoll"; "ok" ] ->
         (match mx_oracle_replay env [] cmd args None with None -> () | Some c -> code c)
       | Some _ ->
         (match next () with
          | None -> fail (Printf.sprintf "step=%d missing-observation" li)
          | Some l when is_bad_line l -> bad l
          | Some l ->
            (match toks_of l with
             | "rres" :: kind :: rest ->
               let obs = (match kind with
                          | "arr" -> MxCmdArr (List.map mx_unhex rest)
                          | "sh" -> MxCmdStr (mx_unhex (match rest with h :: _ -> h | [] -> "-"))
                          | _ -> MxCmdThrow MxErrFuel) in
               (match mx_oracle_replay env [] cmd args (Some obs) with None -> () | Some c -> code c)
             | _ -> code (z_of_int 98)));
         if num a "run" 0 <> 0 then
           (match next () with
            | None -> fail (Printf.sprintf "step=%d missing-observation" li)
            | Some l when is_bad_line l -> bad l
            | Some l ->
              let t = toks_of l in
              if List.exists (fun x -> String.length x >= 4 && String.sub x 0 4 = "HANG") t || List.mem "exception" t then code (z_of_int 99) else
              (match mx_remote false env [] cmd args with
               | None -> code (z_of_int 60)
               | Some r ->
                 let argv = (match tok_val t "argv" with Some "none" | None -> None | Some s -> Some (mx_unhexlist s)) in
                 let ex = (match tok_val t "exit" with Some v -> int_of_string v | None -> -1) in
                 if not (mx_argv_beq (mx_plugin_argv r) argv) then code (z_of_int 62)
                 else if ex <> (match r with MxCmdThrow _ -> 3 | _ -> mx_plug_exit st) then code (z_of_int 63))))
    | Some (op, a) when List.mem op [ "mx_resolve"; "mx_exec"; "mx_esc"; "mx_exit"; "mx_out" ] ->
      let st = !mx_st in
      (match next () with
       | None -> fail (Printf.sprintf "step=%d missing-observation" li)
       | Some l when is_bad_line l -> fail (Printf.sprintf "step=%d crash %s" li l)
       | Some l ->
         let t = toks_of l in
         let verdict =
           (match op, t with
            | "mx_resolve", "res" :: kind :: rest ->
              let obs = (match kind with
                         | "arr" -> MxCmdArr (List.map mx_unhex rest)
                         | "sh" -> MxCmdStr (mx_unhex (match rest with h :: _ -> h | [] -> "-"))
                         | _ -> MxCmdThrow MxErrFuel) in
              mx_oracle_resolve (mx_env st (num a "svc" 0 <> 0)) (mx_command st) (mx_arguments st) obs
            | "mx_exec", "exec" :: _ ->
              let geti k = match tok_val t k with Some v -> int_of_string v | None -> -1 in
              let argv = (match tok_val t "argv" with Some "none" | None -> None | Some s -> Some (mx_unhexlist s)) in
              let out = (match tok_val t "out", tok_val t "pd" with Some o, Some p -> Some (mx_unhex o, mx_unhexlist p) | _ -> None) in
              if List.exists (fun x -> String.length x >= 4 && String.sub x 0 4 = "HANG") t then Some (z_of_int 99) else
              if mx_timeout_scenario st && argv <> None then begin
                if tok_val t "gc" = Some "alive" then Some (z_of_int 53) else
                mx_oracle_timeout (mx_timeout_events st) (z_of_int (geti "state")) (z_of_int (geti "exit")) (tok_val t "tmo" = Some "1")
              end else
              mx_oracle_exec (mx_env st (num a "svc" 0 <> 0)) (mx_command st) (mx_arguments st) (z_of_int (mx_plug_exit st)) (mx_unhex st.plug_out)
                { mx_oe_argv = argv; mx_oe_state = z_of_int (geti "state"); mx_oe_exit = z_of_int (geti "exit"); mx_oe_out = out }
            | "mx_esc", [ "esc"; h ] -> mx_oracle_escape (mx_unhex (str a "v" "-")) (mx_unhex h)
            | "mx_exit", [ "exit"; s ] -> mx_oracle_exit (z_of_int (num a "st" 0)) (z_of_int (int_of_string s))
            | "mx_out", "out" :: _ ->
              let g k = match tok_val t k with Some v -> v | None -> "-" in
              mx_oracle_output (mx_unhex (str a "v" "-")) (mx_unhex (g "text")) (mx_unhex (g "perf")) (mx_unhexlist (g "pd"))
            | _ -> Some (z_of_int 98)) in
         (match verdict with
          | None -> ()
          | Some c -> fail (Printf.sprintf "step=%d %s %s" li op (mx_code_name c))))
    | _ -> ()) script;
  mx_st := mx_fresh ();
  !err

let () = register_oracle "C09" oracle_c09_case
