open Model
open Vcore

(* C16 - apply rules / fast path.  Glue only: script syntax -> extracted Gallina terms, printing. *)

let ar_of_string (s : string) : ar_str = List.map (fun c -> z_of_int (Char.code c)) (List.of_seq (String.to_seq s))
let string_of_ar (a : ar_str) : string = String.init (List.length a) (fun i -> Char.chr (int_of_z (List.nth a i)))
let hx (a : ar_str) = hex_enc (string_of_ar a)

(* ---- expression syntax (see harness/ops_ar.cpp) ---- *)
exception Ar_syntax of string
type cursor = { s : string; mutable p : int }
let peek c = if c.p < String.length c.s then c.s.[c.p] else '\000'
let expect c ch = if peek c <> ch then raise (Ar_syntax (Printf.sprintf "expected %c at %d in %s" ch c.p c.s)); c.p <- c.p + 1
let word c =
  let b = c.p in
  while c.p < String.length c.s && (match c.s.[c.p] with 'a'..'z' | 'A'..'Z' | '0'..'9' | '_' | '-' -> true | _ -> false) do c.p <- c.p + 1 done;
  String.sub c.s b (c.p - b)
let at_end c = c.p >= String.length c.s

let rec p_value c : ar_value =
  let w = word c in
  match w with
  | "t" -> AVBool true | "f" -> AVBool false | "null" -> AVEmpty
  | _ ->
    expect c '(';
    let r = match w with
      | "s" -> AVStr (ar_of_string (hex_dec (word c)))
      | "n" -> AVNum (z_of_int (int_of_string (word c)))
      | "arr" ->
        let l = ref [] and first = ref true in
        while peek c <> ')' do (if not !first then expect c ','); first := false; l := p_value c :: !l done;
        AVArr (List.rev !l)
      | "dict" ->
        let l = ref [] and first = ref true in
        while peek c <> ')' do
          (if not !first then expect c ','); first := false;
          let k = ar_of_string (hex_dec (word c)) in expect c '='; l := (k, p_value c) :: !l done;
        AVDict (List.rev !l)
      | _ -> raise (Ar_syntax ("not a literal: " ^ c.s)) in
    expect c ')'; r

let rec p_expr c : ar_expr =
  let start = c.p in
  let w = word c in
  match w with
  | "t" -> AELit (AVBool true) | "f" -> AELit (AVBool false) | "null" -> AELit AVEmpty | "this" -> AEThis
  | "s" | "n" | "arr" | "dict" -> c.p <- start; AELit (p_value c)
  | _ ->
    expect c '(';
    let two mk = let a = p_expr c in expect c ','; let b = p_expr c in mk a b in
    let r = match w with
      | "var" -> AEVar (ar_of_string (word c))
      | "dot" -> let a = p_expr c in expect c ','; AEIndex (a, AELit (AVStr (ar_of_string (word c))))
      | "ix" -> two (fun a b -> AEIndex (a, b))
      | "eq" -> two (fun a b -> AEEq (a, b))
      | "ne" -> two (fun a b -> AENe (a, b))
      | "and" -> two (fun a b -> AEAnd (a, b))
      | "or" -> two (fun a b -> AEOr (a, b))
      | "in" -> two (fun a b -> AEIn (a, b))
      | "not" -> AENot (p_expr c)
      | "call" -> let f = ar_of_string (word c) in expect c ','; two (fun a b -> AECall (f, a, b))
      | _ -> raise (Ar_syntax ("unknown node " ^ w ^ " in " ^ c.s)) in
    expect c ')'; r

let expr_of s = let c = { s; p = 0 } in let e = p_expr c in if not (at_end c) then raise (Ar_syntax ("trailing " ^ s)); e
let value_of s = let c = { s; p = 0 } in p_value c
let bindings_of s = (* id:V,id:V *)
  let c = { s; p = 0 } in
  let l = ref [] and first = ref true in
  while not (at_end c) do
    (if not !first then expect c ','); first := false;
    let id = word c in expect c ':'; l := (ar_of_string id, p_value c) :: !l done;
  List.rev !l
let exprs_of s = (* E;E *)
  let c = { s; p = 0 } in
  let l = ref [] in
  while not (at_end c) do (if !l <> [] then expect c ';'); l := p_expr c :: !l done;
  List.rev !l

let rec show (v : ar_value) : string =
  match v with
  | AVStr s -> "s(" ^ hx s ^ ")"
  | AVEmpty -> "null"
  | AVBool b -> if b then "t" else "f"
  | AVNum z -> "n(" ^ zs z ^ ")"
  | AVArr l -> "arr(" ^ String.concat "," (List.map show l) ^ ")"
  | AVDict d -> "dict(" ^ String.concat "," (List.map (fun (k, x) -> hx k ^ "=" ^ show x) d) ^ ")"
  | AVObj _ -> "obj"
  | AVErr -> "err"

(* the one opaque function the generators use: match(pattern, text) = Utility::Match (glob, * and ?) *)
let lower = String.lowercase_ascii
let rec glob p i t j =
  if i = String.length p then j = String.length t
  else if p.[i] = '*' then (glob p (i + 1) t j) || (j < String.length t && glob p i t (j + 1))
  else j < String.length t && (p.[i] = '?' || p.[i] = t.[j]) && glob p (i + 1) t (j + 1)
let ar_fn_impl (f : ar_str) (a : ar_value) (b : ar_value) : ar_value =
  match string_of_ar f, a, b with
  | "match", AVStr p, AVStr t -> AVBool (glob (lower (string_of_ar p)) 0 (lower (string_of_ar t)) 0)
  | "match", AVStr p, AVEmpty -> AVBool (glob (lower (string_of_ar p)) 0 "" 0)
  | _ -> AVErr

(* ---- per-case state, shared by the model run and the oracle ---- *)
type st = {
  mutable globals : (ar_str * ar_value) list;
  mutable hosts : (string * (ar_str * ar_value) list) list;          (* in script order *)
  mutable svcs : (string * ar_svc) list;                              (* (host, svc) in script order *)
  mutable rules : ar_rule list; mutable wrules : ar_rule list;
}
let fresh () = { globals = []; hosts = []; svcs = []; rules = []; wrules = [] }
let cur = ref (fresh ())

let s_vars = ar_of_string "vars" and s_groups = ar_of_string "groups" and s_dn = ar_of_string "display_name"

let add_glob st a = st.globals <- st.globals @ [ (ar_of_string (str a "n" ""), value_of (str a "v" "null")) ]
let add_host st a =
  let n = hex_dec (str a "n" "-") in
  let fields = [ (s_vars, if has a "vars" then value_of (str a "vars" "") else AVEmpty);
                 (s_groups, if has a "groups" then value_of (str a "groups" "") else AVArr []);
                 (s_dn, AVStr (ar_of_string (if has a "dn" then hex_dec (str a "dn" "-") else n))) ] in
  st.hosts <- st.hosts @ [ (n, fields) ]
let add_svc st a =
  let h = hex_dec (str a "h" "-") and n = hex_dec (str a "n" "-") in
  let fields = [ (s_vars, if has a "vars" then value_of (str a "vars" "") else AVEmpty); (s_dn, AVStr (ar_of_string n)) ] in
  st.svcs <- st.svcs @ [ (h, { ar_sv_name = ar_of_string n; ar_sv_fields = fields }) ]
let add_rule st a =
  let assigns = List.filter_map (fun k -> if has a k then Some (expr_of (str a k "")) else None) [ "a"; "a2" ] in
  let ignores = List.filter_map (fun k -> if has a k then Some (expr_of (str a k "")) else None) [ "i"; "i2" ] in
  let mk f = { ar_r_kind = z_of_int (num a "kind" 0);
               ar_r_to_svc = (num a "kind" 0 <> 0 && str a "to" "host" = "svc");
               ar_r_name = ar_of_string (str a "name" "r");
               ar_r_filter = f;
               ar_r_for = (if has a "ft" then Some ((ar_of_string (str a "fk" "k"), ar_of_string (str a "fv" "")), expr_of (str a "ft" "")) else None);
               ar_r_use = (if has a "use" then bindings_of (str a "use" "") else []);
               ar_r_body = (if has a "body" then exprs_of (str a "body" "") else []);
               ar_r_parent = ar_of_string (hex_dec (str a "parent" "-")) } in
  st.rules <- st.rules @ [ mk (ar_combine assigns ignores) ];
  st.wrules <- st.wrules @ [ mk (ar_combine (List.map ar_wrap assigns) ignores) ]

let inventory st : ar_host list =
  List.map (fun (n, fields) ->
      { ar_h_name = ar_of_string n; ar_h_fields = fields;
        ar_h_svcs = List.filter_map (fun (h, s) -> if h = n then Some s else None) st.svcs }) st.hosts
(* a service whose host is missing, or a Dependency whose parent host is missing, fails the load *)
let broken st =
  List.exists (fun (h, _) -> not (List.mem_assoc h st.hosts)) st.svcs
  || List.exists (fun r -> int_of_z r.ar_r_kind = 2 && not (List.mem_assoc (string_of_ar r.ar_r_parent) st.hosts)) st.rules
let genv st : ar_env = { ar_locals = []; ar_globals = st.globals; ar_this = AVObj []; ar_fn = ar_fn_impl }

(* values of the navigation fields at evaluation: every generated host/service has check_command "arcc"
   (an object), no check_period / event_command / command_endpoint (null) *)
let navv (_ : ar_target) (n : ar_str) : ar_value = if string_of_ar n = "check_command" then AVObj [] else AVEmpty

let index_str r =
  match ar_rule_index r with
  | AIRegular -> "R"
  | AIHosts ns -> "H:" ^ String.concat "" (List.map (fun n -> n ^ ",") (List.sort_uniq compare (List.map hx ns)))
  | AIServices ps -> "S:" ^ String.concat "" (List.map (fun n -> n ^ ",") (List.sort_uniq compare (List.map (fun (h, s) -> hx h ^ "!" ^ hx s) ps)))

let obj_line tag (o : ar_obj) =
  Printf.sprintf "%s-obj k=%s n=%s h=%s s=%s p=%s b=%s" tag (zs o.ar_o_kind) (hx o.ar_o_name) (hx o.ar_o_host) (hx o.ar_o_svc)
    (hx o.ar_o_parent) (if o.ar_o_body = [] then "-" else String.concat ";" (List.map show o.ar_o_body))

let print_load tag rules res =
  List.iteri (fun i r -> emit (Printf.sprintf "%s-rule %d idx=%s" tag i (index_str r))) rules;
  match res with
  | None -> emit (tag ^ "-load fail")
  | Some objs ->
    let lines = List.sort compare (List.map (obj_line tag) objs) in
    emit (Printf.sprintf "%s-load ok n=%d" tag (List.length lines));
    List.iter emit lines

let keys_str = function
  | None -> "err"
  | Some ks -> "ok:" ^ String.concat "" (List.map (fun k -> k ^ ",")
      (List.sort_uniq compare (List.map (fun (h, s) -> if s = [] then hx h else hx h ^ "!" ^ hx s) ks)))

(* the inventory the API sees is the one after the (wrapped = last) load: apply-created services included.
   Generated API cases carry no Service rules; then it is the plain inventory. *)
let op_api st a =
  let to_svc = str a "to" "host" = "svc" in
  let fv = if has a "fv" then bindings_of (str a "fv" "") else [] in
  let f = expr_of (str a "f" "") in
  let inv = inventory st and g = genv st in
  let fast = ar_api_vars_ok to_svc fv && (if to_svc then ar_target_services (Some fv) f <> None else ar_target_hosts (Some fv) f <> None) in
  emit (Printf.sprintf "api fast=%d plain=%s wrapped=%s" (if fast then 1 else 0) (keys_str (ar_api_fast g navv inv to_svc fv f)) (keys_str (ar_api_plain g navv inv to_svc fv (ar_wrap f))))

(* ---- ar_order: every file order of the rules (lexicographic, as std::next_permutation enumerates them) ---- *)
let rec ar_perms_of (l : int list) : int list list =
  match l with
  | [] -> [ [] ]
  | _ -> List.concat_map (fun x -> List.map (fun p -> x :: p) (ar_perms_of (List.filter (fun y -> y <> x) l))) l
let ar_order_plan n : int list list =
  let id = List.init n (fun i -> i) in
  if n <= 4 then ar_perms_of id
  else
    let rot r = List.init n (fun i -> (i + r) mod n) in
    id :: List.rev id :: List.init (n - 1) (fun r -> rot (r + 1))
let ar_order_params j = (* j >= 1 *) ((if j mod 2 = 1 then 1 else 4), j mod 4 >= 2)
let ar_order_head w p thr rev =
  Printf.sprintf "o-load w=%d perm=%s thr=%d rev=%d" w
    (if p = [] then "-" else String.concat "-" (List.map string_of_int p)) thr (if rev then 1 else 0)
let rev_inventory st : ar_host list =
  List.rev_map (fun h -> { h with ar_h_svcs = List.rev h.ar_h_svcs }) (inventory st)

let op_order st =
  let n = List.length st.rules in
  let g = genv st in
  let check = try Sys.getenv "VERIF_AR_ORDER_MODEL" <> "0" with Not_found -> true in
  List.iteri (fun w (rules, run) ->
      let base = if broken st then None else run g (inventory st) rules in
      List.iteri (fun j0 p ->
          let (thr, rev) = ar_order_params (j0 + 1) in
          (* the theorems say "same"; the permuted load is computed all the same (set VERIF_AR_ORDER_MODEL=0 to skip) *)
          let same =
            (not check) || broken st ||
            (let r = run g (if rev then rev_inventory st else inventory st) (List.map (List.nth rules) p) in
             int_of_z (ar_order_oracle base r) = 0) in
          emit (ar_order_head w p thr rev ^ (if same then " same" else " differs(model)")))
        (ar_order_plan n))
    [ (st.rules, ar_apply_fast); (st.wrules, ar_apply) ]

(* ---- oracle: re-reads the script, parses the implementation's observation lines ---- *)
let parse_obj l =
  let t = toks_of l in
  let g k = match tok_val t k with Some v -> v | None -> "-" in
  let body = if g "b" = "-" then [] else List.map value_of (String.split_on_char ';' (g "b")) in
  { ar_o_kind = z_of_int (int_of_string (g "k")); ar_o_name = ar_of_string (hex_dec (g "n")); ar_o_short = [];
    ar_o_host = ar_of_string (hex_dec (g "h")); ar_o_svc = ar_of_string (hex_dec (g "s"));
    ar_o_parent = ar_of_string (hex_dec (g "p")); ar_o_body = body }

let parse_keys s =
  if s = "err" then None
  else
    let body = String.sub s 3 (String.length s - 3) in
    Some (List.filter_map (fun k ->
        if k = "" then None
        else match String.index_opt k '!' with
          | Some i -> Some (ar_of_string (hex_dec (String.sub k 0 i)), ar_of_string (hex_dec (String.sub k (i + 1) (String.length k - i - 1))))
          | None -> Some (ar_of_string (hex_dec k), []))
        (String.split_on_char ',' body))

let starts l p = String.length l >= String.length p && String.sub l 0 (String.length p) = p

let oracle_c16 script trace =
  let st = fresh () in
  let tr = ref trace in
  let err = ref None in
  let last_plain = ref None and last_wrapped = ref None in
  let fail m = if !err = None then err := Some m in
  let next () = match !tr with [] -> None | l :: r -> tr := r; Some l in
  (* read one "<tag>-rule.. / <tag>-load .. / <tag>-obj .." block *)
  let read_block tag nrules =
    let idx = ref [] in
    for _ = 1 to nrules do
      match next () with
      | Some l when starts l (tag ^ "-rule") -> idx := (match tok_val (toks_of l) "idx" with Some v -> v | None -> "?") :: !idx
      | Some l -> fail ("crash-or-garbled " ^ l)
      | None -> fail "crash missing-observation"
    done;
    let res =
      match next () with
      | Some l when l = tag ^ "-load fail" -> None
      | Some l when starts l (tag ^ "-load ok") ->
        let n = match tok_val (toks_of l) "n" with Some v -> int_of_string v | None -> 0 in
        let objs = ref [] in
        for _ = 1 to n do
          match next () with
          | Some l when starts l (tag ^ "-obj") -> objs := parse_obj l :: !objs
          | Some l -> fail ("crash-or-garbled " ^ l)
          | None -> fail "crash missing-observation"
        done;
        Some (List.rev !objs)
      | Some l -> fail ("crash-or-garbled " ^ l); None
      | None -> fail "crash missing-observation"; None in
    (List.rev !idx, res) in
  List.iteri (fun li line ->
      if !err = None then
        match parse_line line with
        | Some ("ar_glob", a) -> add_glob st a
        | Some ("ar_host", a) -> add_host st a
        | Some ("ar_svc", a) -> add_svc st a
        | Some ("ar_rule", a) -> add_rule st a
        | Some ("ar_load", _) ->
          let n = List.length st.rules in
          let (pidx, plain) = read_block "p" n in
          let (_, wrapped) = read_block "w" n in
          last_plain := plain; last_wrapped := wrapped;
          if !err = None then begin
            if broken st then (if plain <> None || wrapped <> None then fail (Printf.sprintf "step=%d load-with-missing-host-accepted" li)) else
            let inv = inventory st and g = genv st in
            (* how many rules the implementation indexed: reported, and a wrapped rule must never be indexed *)
            ignore pidx;
            let code = int_of_z (ar_oracle g inv st.rules st.wrules plain wrapped) in
            let cls = int_of_z (ar_premise_class g inv st.rules) in
            let why = match cls with 2 -> " premise=for-error-on-unindexed-target" | _ -> "" in
            match code with
            | 0 -> ()
            | 1 -> fail (Printf.sprintf "step=%d created-set-depends-on-fast-path" li)
            | 2 -> fail (Printf.sprintf "step=%d created-set-is-not-the-matching-targets" li)
            | 3 -> fail (Printf.sprintf "step=%d indexed-load-differs-from-its-model%s" li why)
            | 4 -> fail (Printf.sprintf "step=%d unindexed-load-differs-from-its-model%s" li why)
            | _ -> fail (Printf.sprintf "step=%d recorded-divergence%s" li why)
          end
        | Some ("ar_order", _) ->
          (* 2 x (number of file orders) lines "o-load ..": same | differs fail | differs ok n=K + K object lines *)
          let n = List.length st.rules in
          List.iteri (fun w base ->
              List.iter (fun _ ->
                  if !err = None then
                    match next () with
                    | Some l when starts l "o-load" ->
                      let t = toks_of l in
                      if List.mem "same" (String.split_on_char ' ' l) then ()
                      else begin
                        let other =
                          if List.mem "fail" (String.split_on_char ' ' l) then None
                          else begin
                            let k = match tok_val t "n" with Some v -> int_of_string v | None -> 0 in
                            let objs = ref [] in
                            for _ = 1 to k do
                              match next () with
                              | Some l when starts l "o-obj" -> objs := parse_obj l :: !objs
                              | Some l -> fail ("crash-or-garbled " ^ l)
                              | None -> fail "crash missing-observation"
                            done;
                            Some (List.rev !objs)
                          end in
                        if !err = None && int_of_z (ar_order_oracle base other) <> 0 then
                          fail (Printf.sprintf "step=%d created-set-depends-on-order w=%d perm=%s thr=%s rev=%s" li w
                                  (match tok_val t "perm" with Some v -> v | None -> "?")
                                  (match tok_val t "thr" with Some v -> v | None -> "?")
                                  (match tok_val t "rev" with Some v -> v | None -> "?"))
                      end
                    | Some l -> fail ("crash-or-garbled " ^ l)
                    | None -> fail "crash missing-observation")
                (ar_order_plan n))
            [ !last_plain; !last_wrapped ]
        | Some ("ar_api", a) ->
          (match next () with
           | Some l when starts l "api " ->
             let t = toks_of l in
             let g k = match tok_val t k with Some v -> v | None -> "err" in
             let to_svc = str a "to" "host" = "svc" in
             let fv = if has a "fv" then bindings_of (str a "fv" "") else [] in
             let f = expr_of (str a "f" "") in
             let code = int_of_z (ar_api_oracle (genv st) navv (inventory st) to_svc fv f (parse_keys (g "plain")) (parse_keys (g "wrapped"))) in
             let why = if ar_api_premises (inventory st) then "" else " premise=name-with-bang" in
             (match code with
              | 0 -> ()
              | 1 -> fail (Printf.sprintf "step=%d api-result-depends-on-fast-path" li)
              | 2 -> fail (Printf.sprintf "step=%d api-result-is-not-the-matching-objects" li)
              | 3 -> fail (Printf.sprintf "step=%d api-indexed-query-differs-from-its-model%s" li why)
              | 4 -> fail (Printf.sprintf "step=%d api-unindexed-query-differs-from-its-model%s" li why)
              | _ -> fail (Printf.sprintf "step=%d api-recorded-divergence%s" li why))
           | Some l -> fail ("crash-or-garbled " ^ l)
           | None -> fail "crash missing-observation")
        | _ -> ()) script;
  (match !tr with
   | l :: _ when !err = None && is_bad_line l -> fail ("crash " ^ l)
   | _ -> ());
  !err

let () =
  register_op "ar_glob" (fun a -> add_glob !cur a);
  register_op "ar_host" (fun a -> add_host !cur a);
  register_op "ar_svc" (fun a -> add_svc !cur a);
  register_op "ar_rule" (fun a -> add_rule !cur a);
  register_op "ar_load" (fun _ ->
      let st = !cur in
      let inv = inventory st and g = genv st in
      if broken st then (print_load "p" st.rules None; print_load "w" st.wrules None) else begin
      print_load "p" st.rules (ar_apply_fast g inv st.rules);
      (* a wrapped rule is never indexed; its rules print R by construction of ar_rule_index *)
      print_load "w" st.wrules (ar_apply g inv st.wrules) end);
  register_op "ar_order" (fun _ -> op_order !cur);
  register_op "ar_api" (fun a -> op_api !cur a);
  register_case_end (fun () -> cur := fresh ());
  register_oracle "C16" oracle_c16
