(* vmodel: runs the extracted Coq model on the same operation scripts as vdrive and prints the
   same canonical observation lines.  Hand-written glue: script parsing, Z<->int, printing. *)
open Model
(* Coq's String.string, when some model uses it, is extracted as a type named [string]: keep OCaml's *)
type string = Stdlib.String.t

let rec pos_of_int n = if n = 1 then XH else if n land 1 = 0 then XO (pos_of_int (n lsr 1)) else XI (pos_of_int (n lsr 1))
let z_of_int n = if n = 0 then Z0 else if n > 0 then Zpos (pos_of_int n) else Zneg (pos_of_int (-n))
let rec int_of_pos = function XH -> 1 | XO p -> 2 * int_of_pos p | XI p -> 2 * int_of_pos p + 1
let int_of_z = function Z0 -> 0 | Zpos p -> int_of_pos p | Zneg p -> - (int_of_pos p)
let zs z = string_of_int (int_of_z z)

type args = { pos : string list; kv : (string * string) list }
let parse_line line =
  let toks = List.filter (fun s -> s <> "") (String.split_on_char ' ' line) in
  match toks with
  | [] -> None
  | op :: rest ->
    let pos = ref [] and kv = ref [] in
    List.iter (fun t ->
      match String.index_opt t '=' with
      | Some i when i > 0 -> kv := (String.sub t 0 i, String.sub t (i+1) (String.length t - i - 1)) :: !kv
      | _ -> pos := t :: !pos) rest;
    Some (op, { pos = List.rev !pos; kv = !kv })
let has a k = List.mem_assoc k a.kv
let str a k d = try List.assoc k a.kv with Not_found -> d
let num a k d = try int_of_string (List.assoc k a.kv) with Not_found -> d
(* times arrive as whole seconds (possibly written with .0); the model's unit is the second *)
let tnum s = int_of_float (float_of_string s)

let out = ref stdout
let emit s = output_string !out s; output_char !out '\n'

let obs_filter : string list option ref = ref None   (* event prefixes to print; None = all *)
let ev_on p = match !obs_filter with None -> true | Some l -> List.mem p l


(* ---------------- registries ---------------- *)
let ops : (string, args -> unit) Hashtbl.t = Hashtbl.create 64
let oracles : (string, string list -> string list -> string option) Hashtbl.t = Hashtbl.create 32
let case_end_hooks : (unit -> unit) list ref = ref []
let register_op name f = Hashtbl.replace ops name f
let register_oracle pid f = Hashtbl.replace oracles pid f
let register_case_end f = case_end_hooks := f :: !case_end_hooks
let now = ref 0
let case_id = ref 0
let hex_dec s =
  if s = "-" then "" else String.init (String.length s / 2) (fun i -> Char.chr (int_of_string ("0x" ^ String.sub s (2*i) 2)))
let hex_enc s =
  if s = "" then "-" else String.concat "" (List.map (fun c -> Printf.sprintf "%02x" (Char.code c)) (List.of_seq (String.to_seq s)))
(* ---------------- oracle mode: evaluate the extracted property oracle on IMPLEMENTATION traces ------ *)
let read_cases file =
  (* -> list of (case id, lines) in file order *)
  let ic = open_in file in
  let res = ref [] and cur = ref None and acc = ref [] in
  (try while true do
    let l = input_line ic in
    if String.length l > 5 && String.sub l 0 5 = "case " then begin
      cur := Some (int_of_string (String.trim (String.sub l 5 (String.length l - 5)))); acc := [] end
    else if l = "end" then begin
      (match !cur with Some id -> res := (id, List.rev !acc) :: !res | None -> ()); cur := None end
    else if !cur <> None then acc := l :: !acc
  done with End_of_file -> ());
  close_in ic; List.rev !res

let tok_val toks k =
  let pfx = k ^ "=" in
  let n = String.length pfx in
  let rec go = function
    | [] -> None
    | t :: r -> if String.length t >= n && String.sub t 0 n = pfx then Some (String.sub t n (String.length t - n)) else go r in
  go toks
let toks_of l = List.filter (fun s -> s <> "") (String.split_on_char ' ' l)
let is_bad_line l =
  let starts p = String.length l >= String.length p && String.sub l 0 (String.length p) = p in
  starts "CRASH" || starts "HANG" || starts "NOT-RUN" || starts "HARNESS-ERROR" || starts "NOEND" || starts "MISSING"

