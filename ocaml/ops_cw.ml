open Model
open Vcore

(* ---------------- C17: config writer / lexer / runtime object transactions ---------------- *)
let n_of_int i = if i = 0 then N0 else Npos (pos_of_int i)
let int_of_n = function N0 -> 0 | Npos p -> int_of_pos p
let cwb (s : string) : n list = List.map (fun c -> n_of_int (Char.code c)) (List.of_seq (String.to_seq s))
let cws (b : n list) : string = String.concat "" (List.map (fun x -> String.make 1 (Char.chr ((int_of_n x) land 255))) b)
let hexb s = cwb (hex_dec (if s = "" then "-" else s))
let bhex b = hex_enc (cws b)
let bhex0 b = let s = cws b in if s = "" then "" else hex_enc s

(* value codec, identical to harness/ops_cw.cpp *)
let digits s = List.map (fun c -> n_of_int (Char.code c - 48)) (List.of_seq (String.to_seq s))
let rec cw_dec (s : string) (p : int ref) : cw_value =
  let c = s.[!p] in incr p;
  let upto ch = let e = String.index_from s !p ch in let r = String.sub s !p (e - !p) in p := e + 1; r in
  match c with
  | 'n' -> CwNull | 't' -> CwBool true | 'f' -> CwBool false
  | 'd' ->
    let d = upto ';' in
    let neg, d = if String.length d > 0 && d.[0] = '-' then true, String.sub d 1 (String.length d - 1) else false, d in
    (match String.index_opt d '.' with
     | Some i -> CwNum (neg, digits (String.sub d 0 i), digits (String.sub d (i + 1) (String.length d - i - 1)))
     | None -> CwNum (neg, digits d, []))
  | 's' -> CwStr (hexb (upto ';'))
  | 'a' ->
    let rec items () = if s.[!p] = ';' then (incr p; VNil) else let v = cw_dec s p in VCons (v, items ()) in
    CwArr (items ())
  | 'o' ->
    let rec ents () = if s.[!p] = ';' then (incr p; DNil) else
        let k = hexb (upto ':') in let v = cw_dec s p in DCons (k, v, ents ()) in
    CwDict (ents ())
  | _ -> failwith "cw value: bad tag"
let cw_decode s = let p = ref 0 in cw_dec s p

let dstr l = String.concat "" (List.map (fun d -> string_of_int (int_of_n d)) l)
let rec strip_trailing0 s = let n = String.length s in if n > 0 && s.[n - 1] = '0' then strip_trailing0 (String.sub s 0 (n - 1)) else s
let rec strip_leading0 s = let n = String.length s in if n > 1 && s.[0] = '0' then strip_leading0 (String.sub s 1 (n - 1)) else s
let cw_num_str neg ip fp =
  let i = strip_leading0 (dstr ip) and f = strip_trailing0 (dstr fp) in
  let i = if i = "" then "0" else i in
  let body = if f = "" then i else i ^ "." ^ f in
  if neg && body <> "0" then "-" ^ body else body
let rec cw_enc (v : cw_value) : string =
  match v with
  | CwNull -> "n" | CwBool true -> "t" | CwBool false -> "f"
  | CwNum (neg, ip, fp) -> "d" ^ cw_num_str neg ip fp ^ ";"
  | CwStr s -> "s" ^ bhex0 s ^ ";"
  | CwArr l -> let rec go = function VNil -> "" | VCons (v, r) -> cw_enc v ^ go r in "a" ^ go l ^ ";"
  | CwDict d -> "o" ^ cw_enc_entries (cw_dcopy d DNil) ^ ";"      (* std::map order *)
and cw_enc_entries = function DNil -> "" | DCons (k, v, r) -> bhex0 k ^ ":" ^ cw_enc v ^ cw_enc_entries r

let split_comma s = if s = "" || s = "-" then [] else String.split_on_char ',' s
let rec dlist_of = function CwDict d -> d | _ -> DNil
let nat_of_int n = let rec go k = if k <= 0 then O else S (go (k - 1)) in go n

(* the field tables of the type (all fields / config fields relevant to the generator) are passed in by the script
   (allf= cfgf=) so that they are an explicit input. *)
let fields a k = List.map cwb (split_comma (str a k ""))
let imports_of a = List.map hexb (split_comma (str a "tmpl" ""))
let version_of t = CwNum (false, digits (string_of_int t), [])

(* name composers: 0 = none, 2 = Service (exactly host!name), 3 = host!name | host!service!name *)
let nc_kind = function
  | "Service" -> 2
  | "Notification" | "Dependency" | "ScheduledDowntime" | "Comment" | "Downtime" -> 3
  | _ -> 0
let part_keys ty = if ty = "Dependency" then ("child_host_name", "child_service_name") else ("host_name", "service_name")

let config_at t a =
  let ty = str a "type" "Host" in
  let attrs = if has a "attrs" then dlist_of (cw_decode (str a "attrs" "o;")) else DNil in
  if nc_kind ty = 3 then
    let (hk, sk) = part_keys ty in
    cw_create_config3 (fields a "allf") (fields a "cfgf") (cwb hk) (cwb sk) (cwb ty) (hexb (str a "name" "-"))
      (num a "ign" 0 <> 0) (imports_of a) attrs (version_of t)
  else
  cw_create_config (fields a "allf") (fields a "cfgf") (ty = "Service") (cwb ty) (hexb (str a "name" "-"))
    (num a "ign" 0 <> 0) (imports_of a) attrs (version_of t)
let config_of a = config_at !now a

let op_cw_str a = emit ("cw_str " ^ bhex (cw_emit_string (hexb (str a "s" "-"))))
let op_cw_id a =
  let s = hexb (str a "s" "-") in
  if num a "ia" 1 <> 0 then emit ("cw_id " ^ bhex (cw_emit_key cw_src_mode s))
  else match cw_emit_identifier cw_src_mode s with Some b -> emit ("cw_id " ^ bhex b) | None -> emit "cw_id EXC"
let op_cw_val a = emit ("cw_val " ^ bhex (cw_emit_value cw_src_mode (nat_of_int (num a "ind" 2)) (cw_decode (str a "v" "n"))))
let op_cw_item a = match config_of a with Some b -> emit ("cw_item " ^ bhex b) | None -> emit "cw_item EXC"
let rt tag text = match cw_parse_literal text with Some v -> emit (tag ^ " " ^ cw_enc v) | None -> emit (tag ^ " ERR")
let op_cw_rt a = rt "cw_rt" (cw_emit_value cw_src_mode (nat_of_int (num a "ind" 2)) (cw_decode (str a "v" "n")) @ [n_of_int 10])
let op_cw_rtraw a = rt "cw_rtraw" (hexb (str a "t" "-") @ [n_of_int 10])

(* ---- transactions ---- *)
let store = ref cw_store0
let tracked : (string * string) list ref = ref []      (* (type, raw name) in order of first use *)
let key t n = (cwb t, cwb n)
let track_hook = ref (fun () -> ())
let track t n = if not (List.mem (t, n) !tracked) then (tracked := !tracked @ [(t, n)]; !track_hook ())
let flags_str (f : cw_flags) =
  (if f.fl_obj then (if f.fl_active then "A" else "o") else "-") ^ (if f.fl_obj then (if f.fl_runtime then "r" else "s") else "-")
  ^ (if f.fl_item then "i" else "-") ^ (if f.fl_file then "f" else "-")
(* FNV-1a, 64 bit: the digest vdrive prints for the bytes of a file *)
let fnv64 (s : string) =
  let h = ref 0xcbf29ce484222325L in
  String.iter (fun c -> h := Int64.mul (Int64.logxor !h (Int64.of_int (Char.code c))) 0x100000001b3L) s;
  Printf.sprintf "%016Lx" !h
let index_of x l = let rec go i = function [] -> -1 | y :: r -> if y = x then i else go (i + 1) r in go 0 l
(* the stages of the other packages (Gallina: ww_foreign of the world) *)
let foreign : cw_pfile list ref = ref []
let world () = { ww_store = !store; ww_foreign = !foreign }
let tree_str () =
  let keys = List.map (fun (t, n) -> key t n) !tracked in
  let tr = cw_ftree_of keys !store in
  let ts = List.map (fun (k, c) -> Printf.sprintf "T%d:%s" (index_of k keys) (fnv64 (cws c))) tr in
  let ps = List.sort compare (List.map (fun (_, (k, c)) -> (index_of k keys, fnv64 (cws c))) !foreign) in
  let ps = List.map (fun (i, d) -> Printf.sprintf "P%d:%s" i d) ps in
  if ts @ ps = [] then "-" else String.concat "," (ts @ ps)
(* objects that are not (yet) tracked by the script - vdrive folds them into its "others" digest *)
let untracked () = List.filter (fun o -> not (List.exists (fun (t, n) -> key t n = o.co_key) !tracked)) (!store).cs_objs
let others_base = ref []
let store_line () =
  let b = Buffer.create 80 in
  List.iter (fun (t, n) -> Buffer.add_string b (Printf.sprintf " %s:%s=%s" t (hex_enc n) (flags_str (cw_flags_of !store (key t n))))) !tracked;
  Buffer.add_string b (Printf.sprintf " nobj=%d nfiles=%d files=%s g=same others=same" (List.length (!store).cs_objs) (List.length (!store).cs_files + List.length !foreign) (tree_str ()));
  let r = Buffer.contents b in
  if untracked () = !others_base then r else String.concat "others=CHANGED" (Str.split_delim (Str.regexp_string "others=same") r)
let () = track_hook := (fun () -> others_base := untracked ())
let split_bang n = match String.index_opt n '!' with Some i -> (String.sub n 0 i, String.sub n (i + 1) (String.length n - i - 1)) | None -> ("", n)
let no_path = CwStr (cwb "<no-such-path>")

(* the objects a request refers to (DependencyGraph edges: every name(T) / array(name(T)) field, and the parts of a
   composed name): from the type, the requested name and the top-level attributes.  [name-part references, attribute references] *)
let ref_table = function
  | "Host" -> [("check_command", "CheckCommand"); ("event_command", "EventCommand"); ("check_period", "TimePeriod"); ("groups", "HostGroup")]
  | "Service" -> [("check_command", "CheckCommand"); ("event_command", "EventCommand"); ("check_period", "TimePeriod"); ("groups", "ServiceGroup")]
  | "User" -> [("groups", "UserGroup"); ("period", "TimePeriod")]
  | "HostGroup" -> [("groups", "HostGroup")]
  | "ServiceGroup" -> [("groups", "ServiceGroup")]
  | "UserGroup" -> [("groups", "UserGroup")]
  | "Notification" -> [("command", "NotificationCommand"); ("users", "User"); ("user_groups", "UserGroup"); ("period", "TimePeriod")]
  | "Dependency" -> [("period", "TimePeriod")]
  | _ -> []
let rec strings_of = function
  | CwStr s -> [cws s]
  | CwArr l -> let rec go = function VNil -> [] | VCons (v, r) -> strings_of v @ go r in go l
  | _ -> []
let refs_of ty name (attrs : cw_dlist) : (string * string) list * (string * string) list =
  let parts = String.split_on_char '!' name in
  let by_name = match nc_kind ty, parts with
    | 2, h :: _ :: _ -> [("Host", h)]
    | 3, [h; _] -> [("Host", h)]
    | 3, h :: sv :: _ :: _ -> if sv = "" then [("Host", h)] else [("Host", h); ("Service", h ^ "!" ^ sv)]
    | _ -> [] in
  let get k = match cw_dget (cwb k) attrs with Some (CwStr s) -> Some (cws s) | _ -> None in
  let parent = if ty <> "Dependency" then [] else
      match get "parent_host_name", get "parent_service_name" with
      | Some ph, Some ps when ps <> "" -> [("Host", ph); ("Service", ph ^ "!" ^ ps)]
      | Some ph, _ -> [("Host", ph)]
      | None, _ -> [] in
  let by_attr = List.concat_map (fun (k, t) -> match cw_dget (cwb k) attrs with Some v -> List.map (fun n -> (t, n)) (strings_of v) | None -> []) (ref_table ty) in
  (by_name @ parent, List.filter (fun (_, n) -> n <> "") by_attr)

let op_cw_create a =
  let ty = str a "type" "Host" and name = hex_dec (str a "name" "-") in
  track ty name;
  let kind = nc_kind ty in
  let nc = kind <> 0 in
  let attrs0 = if has a "attrs" then dlist_of (cw_decode (str a "attrs" "o;")) else DNil in
  let supplied = if has a "attrs" then Some attrs0 else None in
  let cfg = config_of a in
  let item = match cfg with None -> None | Some c -> cw_parse_text c in
  let (must_refs, attr_refs) = refs_of ty name (cw_dcopy attrs0 DNil) in
  (* a reference to a fixture object of the harness (never tracked) is not part of the model's store *)
  let deps = List.map (fun (t, n) -> key t n) (must_refs @ List.filter (fun r -> List.mem r !tracked) attr_refs) in
  let outcome, obj =
    match item with
    | None -> (CwoCompileErr, DNil)
    | Some it ->
      let obj = cw_eval_body it.cwi_body DNil in
      (* the fixture knows exactly one template; importing anything else fails at commit *)
      let unknown_import = List.exists (function CwImport t -> not (cw_beq t (cwb "cwtmpl")) | _ -> false) it.cwi_body in
      (match (if unknown_import then "commit" else str a "exp" "ok") with
       | "commit" -> (CwoCommitErr, obj)
       | "eval" -> (CwoEvalErr, obj)
       | _ ->
         if kind = 2 then
           let host = match cw_dget (cwb "host_name") obj with Some (CwStr h) -> h | _ -> [] in
           (CwoOk (host @ [n_of_int 33] @ it.cwi_name, deps), obj)
         else if kind = 3 then
           let (hk, sk) = part_keys ty in
           (match cw_effective_name3 (cwb hk) (cwb sk) it.cwi_name obj with
            | Some eff -> (CwoOk (eff, deps), obj)
            | None -> (CwoCommitErr, obj))
         else (CwoOk (it.cwi_name, deps), obj)) in
  let (st', res) = match cfg with
    | None -> (!store, CwrFail)                  (* CreateObjectConfig throws: nothing was written *)
    | Some c -> let (w, r) = cw_wcreate (world ()) (cwb ty) (cwb name) nc c outcome in foreign := w.ww_foreign; (w.ww_store, r) in
  store := st';
  let b = Buffer.create 80 in
  Buffer.add_string b ("cw_create res=" ^ (match res with CwrOk -> "ok" | _ -> "fail"));
  let exists = (cw_flags_of !store (key ty name)).fl_obj in
  (match res, supplied with
   | CwrOk, Some sup when exists ->
     let rec go = function
       | DNil -> ""
       | DCons (k, _, r) ->
         let v = match cw_get_path (cw_split (n_of_int 46) k []) (CwDict obj) with Some v -> v | None -> no_path in
         bhex0 k ^ ":" ^ cw_enc v ^ go r in
     Buffer.add_string b (" attrs=o" ^ go (cw_dcopy sup DNil) ^ ";")
   | _ -> ());
  if res = CwrOk && exists && List.mem (cwb "vars") (fields a "allf") then
    Buffer.add_string b (" vars=" ^ (match cw_dget (cwb "vars") obj with Some v -> cw_enc v | None -> "n"));
  Buffer.add_string b (store_line ());
  emit (Buffer.contents b)

let op_cw_static a =
  let ty = str a "type" "Host" and name = hex_dec (str a "name" "-") in
  track ty name;
  let k = key ty name in
  let exists = (cw_flags_of !store k).fl_obj in
  let attrs = if ty = "Dependency" then
      DCons (cwb "parent_host_name", CwStr (cwb (if has a "parent" then hex_dec (str a "parent" "-") else fst (split_bang name))), DNil) else DNil in
  let (must_refs, _) = refs_of ty name attrs in
  let deps = List.map (fun (t, n) -> key t n) must_refs in
  let deps_ok = List.for_all (fun d -> (cw_flags_of !store d).fl_obj) deps in
  if exists || not deps_ok then emit ("cw_static res=fail" ^ store_line ())
  else if has a "pkg" then begin
    (* deployed through the config package with that name: the Gallina world decides what it is *)
    let w = cw_wload (world ()) k (nc_kind ty <> 0) deps (CwPkg (hexb (str a "pkg" "-"))) (hexb (str a "text" "-")) in
    store := w.ww_store; foreign := w.ww_foreign; emit ("cw_static res=ok" ^ store_line ())
  end
  else begin store := cw_add_static !store k (nc_kind ty <> 0) deps; emit ("cw_static res=ok" ^ store_line ()) end

let op_cw_delete a =
  let ty = str a "type" "Host" and name = hex_dec (str a "name" "-") in
  track ty name;
  let (w, res) = cw_wdelete (world ()) (key ty name) (num a "cascade" 0 <> 0) in
  store := w.ww_store; foreign := w.ww_foreign;
  emit ("cw_delete res=" ^ (match res with CwrOk -> "ok" | CwrFail -> "fail" | CwrNoSuch -> "nosuch") ^ store_line ())

let op_cw_global _ = emit "cw_global ok"

(* what a restart finds: every run-time object comes back from its file, nothing else appears, the load succeeds
   (every reference of a run-time object resolves) *)
let op_cw_restart _ =
  let st = !store in
  if List.exists (fun o -> not (co_runtime o)) st.cs_objs then emit "cw_restart res=skipped" else
  let rt = List.filter co_runtime st.cs_objs in
  let has_file k = List.exists (fun (k', _) -> k' = k) st.cs_files in
  let missing = List.length (List.filter (fun o -> not (has_file o.co_key)) rt) in
  let extra = List.length (List.filter (fun (k, _) -> not (List.exists (fun o -> o.co_key = k) rt)) st.cs_files) in
  let dangling = List.exists (fun (k, _) -> match cw_find k st with
      | Some o -> List.exists (fun d -> cw_find d st = None) o.co_deps | None -> false) st.cs_files in
  emit (Printf.sprintf "cw_restart res=%s missing=%d extra=%d changed=0 nfiles=%d" (if dangling then "fail" else "ok") missing extra (List.length st.cs_files))

(* ---------------- oracle: the statement of C17 evaluated on the IMPLEMENTATION's observations ------- *)
let parse_flags s =
  { fl_obj = s.[0] <> '-'; fl_active = s.[0] = 'A'; fl_runtime = s.[1] = 'r'; fl_item = s.[2] = 'i'; fl_file = s.[3] = 'f' }
(* tracked entries of an observation line: (type, hexname, flags) *)
let is_type_name t = String.length t > 0 && t.[0] >= 'A' && t.[0] <= 'Z' && String.for_all (fun c -> (c >= 'a' && c <= 'z') || (c >= 'A' && c <= 'Z')) t
let entries toks =
  List.filter_map (fun t ->
    match String.index_opt t ':', String.index_opt t '=' with
    | Some i, Some j when j > i && (String.length t - j - 1) = 4 && is_type_name (String.sub t 0 i) ->
      Some (String.sub t 0 i, String.sub t (i + 1) (j - i - 1), parse_flags (String.sub t (j + 1) 4))
    | _ -> None) toks
let geti toks k = match tok_val toks k with Some v -> (try int_of_string v with _ -> -1) | None -> -1
let starts l p = String.length l >= String.length p && String.sub l 0 (String.length p) = p
(* files=T0:<digest>,?<hexpath>:<digest> -> file tree keyed by the tracked (type, name) / by ("?", path) *)
let parse_tree (trk : (string * string) list) (s : string) : (cw_key * n list) list =
  if s = "-" || s = "" then [] else
    List.map (fun e ->
      let (id, dg) = match String.index_opt e ':' with Some i -> (String.sub e 0 i, String.sub e (i + 1) (String.length e - i - 1)) | None -> (e, "") in
      let k = if String.length id > 1 && id.[0] = 'T' then
          (match int_of_string_opt (String.sub id 1 (String.length id - 1)) with
           | Some i when i < List.length trk -> let (t, n) = List.nth trk i in key t n
           | _ -> (cwb "?", cwb id))
        else if String.length id > 1 && id.[0] = 'P' then
          (* a file deployed through ANOTHER package: never the file of a runtime object, whoever it declares *)
          (match int_of_string_opt (String.sub id 1 (String.length id - 1)) with
           | Some i when i < List.length trk -> let (t, n) = List.nth trk i in (cwb ("P!" ^ t), cwb n)
           | _ -> (cwb "?", cwb id))
        else (cwb "?", cwb id) in
      (k, cwb dg)) (String.split_on_char ',' s)

let code_label c = match c with
  | 0 -> "ok" | 1 -> "number-precision" | 2 -> "nul-truncation" | 3 -> "structure"
  | 13 -> "valid-create-refused" | 10 -> "failure-not-clean" | 11 -> "success-incomplete" | 12 -> "globals-or-others-changed"
  | 14 -> "failed-create-changed-files" | 15 -> "create-touched-other-files" | 16 -> "file-content-differs"
  | 20 -> "failed-delete-changed-state" | 21 -> "delete-left-remains" | 22 -> "non-runtime-deleted" | 23 -> "delete-touched-others"
  | 24 -> "delete-files-wrong" | 25 -> "cascade-closure-wrong" | 30 -> "restart-differs"
  | _ -> "unknown"

let stmt_code exp got =
  match exp, got with
  | CwImport a, CwImport b -> if cw_beq a b then 0 else 3
  | CwAssign (k, i, v), CwAssign (k', i', v') ->
    if cw_beq k k' && List.length i = List.length i' && List.for_all2 cw_beq i i' then int_of_n (cw_orc_value v v') else 3
  | _ -> 3

let oracle_c17_case script trace =
  let err = ref None in
  let fail li op c = if !err = None && c <> 0 then err := Some (Printf.sprintf "step=%d op=%s code=%d %s" li op c (code_label c)) in
  let crash li l = if !err = None then err := Some (Printf.sprintf "step=%d crash %s" li l) in
  let tr = ref trace in
  let prev_entries = ref [] and prev_nobj = ref 0 and prev_nfiles = ref 0 and prev_tree = ref [] in
  let trk : (string * string) list ref = ref [] in
  let deps_tbl : ((string * string) * cw_key list) list ref = ref [] in
  let nowv = ref 0 in
  List.iteri (fun li line ->
    match parse_line line with
    | Some ("now", a) -> nowv := tnum (List.hd a.pos)
    | Some (op, a) when String.length op > 3 && String.sub op 0 3 = "cw_" ->
      (match !tr with
       | [] -> if !err = None then err := Some (Printf.sprintf "step=%d crash missing-observation" li)
       | l :: rest ->
         tr := rest;
         if is_bad_line l then crash li l else begin
         let t = toks_of l in
         let second = match t with _ :: x :: _ -> x | _ -> "" in
         (match op with
          | "cw_str" ->
            let s = hexb (str a "s" "-") in
            (match cw_lex_string (hexb second) with
             | Some s' -> fail li op (int_of_n (cw_orc_value (CwStr s) (CwStr s')))
             | None -> fail li op 3)
          | "cw_val" ->
            let v = cw_decode (str a "v" "n") in
            fail li op (int_of_n (cw_orc_rt v (cw_parse_literal (hexb second @ [n_of_int 10]))))
          | "cw_rt" ->
            let v = cw_decode (str a "v" "n") in
            if second = "ERR" then () else if second = "EXTRA" then fail li op 3
            else fail li op (int_of_n (cw_orc_rt v (Some (cw_decode second))))
          | "cw_item" ->
            if second = "EXC" then () else begin
              let ty = str a "type" "Host" in
              let full = hexb (str a "name" "-") in
              let attrs = if has a "attrs" then dlist_of (cw_decode (str a "attrs" "o;")) else DNil in
              let version = CwNum (false, digits (string_of_int !nowv), []) in
              let expected =
                if nc_kind ty = 3 then
                  (match cw_name_parts3 full with
                   | Some ((name, h), sv) -> let (hk, sk) = part_keys ty in Some (name, cw_all_attrs3 (cwb hk) (cwb sk) h sv attrs version)
                   | None -> None)
                else (match cw_name_parts (ty = "Service") full with
                    | Some (name, host) -> Some (name, cw_all_attrs host attrs version)
                    | None -> None) in
              match cw_parse_text (hexb second), expected with
              | None, _ -> ()        (* does not compile: nothing is created *)
              | Some _, None -> fail li op 3
              | Some it, Some (name, all) ->
                let rec top = function DNil -> [] | DCons (k, v, r) ->
                  let ks = cw_split (n_of_int 46) k [] in CwAssign (List.hd ks, List.tl ks, v) :: top r in
                let exp_body = List.map (fun s -> CwImport s) (imports_of a) @ top all in
                if not (cw_beq it.cwi_type (cwb ty) && cw_beq it.cwi_name name && it.cwi_ign = (num a "ign" 0 <> 0)) then fail li op 3
                else if List.length exp_body <> List.length it.cwi_body then fail li op 3
                else List.iter2 (fun e g -> fail li op (stmt_code e g)) exp_body it.cwi_body
            end
          | "cw_restart" ->
            (* the package directory, loaded the way a restart loads it, yields exactly the live run-time objects *)
            if tok_val t "res" = Some "skipped" then () else
            if not (tok_val t "res" = Some "ok" && tok_val t "missing" = Some "0" && tok_val t "extra" = Some "0" && tok_val t "changed" = Some "0"
                    && geti t "nfiles" = !prev_nfiles) then fail li op 30
          | "cw_create" | "cw_delete" | "cw_static" ->
            let ty = str a "type" "Host" and hn = str a "name" "-" in
            let name = hex_dec hn in
            if not (List.mem (ty, name) !trk) then trk := !trk @ [(ty, name)];
            let es = entries t in
            let nobj = geti t "nobj" and nfiles = geti t "nfiles" in
            let tree = parse_tree !trk (match tok_val t "files" with Some f -> f | None -> "-") in
            let find l = try let (_, _, f) = List.find (fun (t', n', _) -> t' = ty && n' = hn) l in f with Not_found -> cw_flags_none in
            let pre = find !prev_entries and post = find es in
            let gsame = tok_val t "g" = Some "same" and osame = tok_val t "others" = Some "same" in
            let old_of (t', n', _) = try let (_, _, f0) = List.find (fun (a', b', _) -> a' = t' && b' = n') !prev_entries in f0 with Not_found -> cw_flags_none in
            let changed ((_, _, f) as e) = not (cw_flags_eqb (old_of e) f) in
            let others = List.filter (fun (t', n', _) -> not (t' = ty && n' = hn)) es in
            let res = match tok_val t "res" with Some r -> r | None -> "?" in
            let attrs = if has a "attrs" then dlist_of (cw_decode (str a "attrs" "o;")) else DNil in
            (if op = "cw_create" then begin
               let content = match config_at !nowv a with Some c -> Some (cwb (fnv64 (cws c))) | None -> None in
               let b = { cb_ok = (res = "ok"); cb_pre = pre; cb_post = post;
                         cb_nobj_pre = n_of_int !prev_nobj; cb_nobj_post = n_of_int nobj;
                         cb_nfiles_pre = n_of_int !prev_nfiles; cb_nfiles_post = n_of_int nfiles;
                         cb_globals_same = gsame; cb_others_same = osame; cb_rest_same = not (List.exists changed others);
                         cb_key = key ty name; cb_tree_pre = !prev_tree; cb_tree_post = tree; cb_content = content } in
               fail li op (int_of_n (cw_orc_create (nc_kind ty <> 0) b));
               (* a request the script marks as valid (fresh or freed name, valid attributes) must be created *)
               if str a "must" "" = "ok" && res <> "ok" then fail li op 13;
               if res = "ok" then begin
                 let (r1, r2) = refs_of ty name (cw_dcopy attrs DNil) in
                 deps_tbl := ((ty, name), List.map (fun (t', n') -> key t' n') (r1 @ r2)) :: List.remove_assoc (ty, name) !deps_tbl
               end;
               if res = "ok" && has a "attrs" then begin
                 let sup0 = cw_dcopy attrs DNil in
                 (* the parts of a composed name are authoritative: a supplied name-part attribute reads back as the part *)
                 let sup = match nc_kind ty with
                   | 2 -> (match cw_name_parts true (cwb name) with
                       | Some (_, Some h) when cw_dget (cwb "host_name") sup0 <> None -> cw_dset (cwb "host_name") (CwStr h) sup0
                       | _ -> sup0)
                   | 3 -> (match cw_name_parts3 (cwb name) with
                       | Some ((_, h), sv) ->
                         let (hk, sk) = part_keys ty in
                         let s1 = if cw_dget (cwb hk) sup0 <> None then cw_dset (cwb hk) (CwStr h) sup0 else sup0 in
                         (match sv with Some x when cw_dget (cwb sk) s1 <> None -> cw_dset (cwb sk) (CwStr x) s1 | _ -> s1)
                       | None -> sup0)
                   | _ -> sup0 in
                 (match tok_val t "attrs" with
                  | Some g -> fail li op (int_of_n (cw_orc_attrs sup (dlist_of (cw_decode g))))
                  | None -> ());
                 (* the whole custom variable dictionary: nothing beyond what was supplied *)
                 let rec top = function DNil -> [] | DCons (k, v, r) ->
                   let ks = cw_split (n_of_int 46) k [] in CwAssign (List.hd ks, List.tl ks, v) :: top r in
                 let expv = match cw_dget (cwb "vars") (cw_eval_body (top sup) DNil) with Some v -> v | None -> CwNull in
                 (match tok_val t "vars" with
                  | Some g -> fail li op (int_of_n (cw_orc_value expv (cw_decode g)))
                  | None -> ())
               end
             end else if op = "cw_delete" then begin
               let ents = List.map (fun ((t', n', f) as e) ->
                   let nm = hex_dec n' in
                   { de_key = key t' nm; de_pre = old_of e; de_post = f;
                     de_deps = (try List.assoc (t', nm) !deps_tbl with Not_found -> []) }) es in
               let b = { db_res = (match res with "ok" -> CwrOk | "fail" -> CwrFail | _ -> CwrNoSuch);
                         db_cascade = (num a "cascade" 0 <> 0); db_key = key ty name; db_ents = ents;
                         db_globals_same = gsame; db_others_same = osame;
                         db_tree_pre = !prev_tree; db_tree_post = tree } in
               fail li op (int_of_n (cw_orc_delete b))
             end else begin
               if not (gsame && osame) then fail li op 12;
               (* loading ordinary configuration never touches the packages; deploying through a package adds exactly its own file *)
               let own = if not (has a "pkg") then None
                 else if hex_dec (str a "pkg" "-") = "_api" then Some (key ty name) else Some (cwb ("P!" ^ ty), cwb name) in
               let tree' = match own with Some k when res = "ok" -> cw_fremove k tree | _ -> tree in
               if not (cw_ftree_eqb !prev_tree tree') then fail li op 14;
               if res = "ok" then begin
                 let sattrs = if ty = "Dependency" then
                     DCons (cwb "parent_host_name", CwStr (cwb (if has a "parent" then hex_dec (str a "parent" "-") else fst (split_bang name))), DNil) else DNil in
                 let (r1, _) = refs_of ty name sattrs in
                 deps_tbl := ((ty, name), List.map (fun (t', n') -> key t' n') r1) :: List.remove_assoc (ty, name) !deps_tbl
               end
             end);
            prev_entries := es; prev_nobj := nobj; prev_nfiles := nfiles; prev_tree := tree
          | _ -> ())
         end)
    | _ -> ()) script;
  !err

let () =
  register_op "cw_str" op_cw_str;
  register_op "cw_id" op_cw_id;
  register_op "cw_val" op_cw_val;
  register_op "cw_item" op_cw_item;
  register_op "cw_rt" op_cw_rt;
  register_op "cw_rtraw" op_cw_rtraw;
  register_op "cw_create" op_cw_create;
  register_op "cw_static" op_cw_static;
  register_op "cw_delete" op_cw_delete;
  register_op "cw_global" op_cw_global;
  register_op "cw_restart" op_cw_restart;
  register_case_end (fun () -> store := cw_store0; foreign := []; tracked := []; others_base := []);
  register_oracle "C17" oracle_c17_case
