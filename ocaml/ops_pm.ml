open Model
open Vcore

(* ---------------- C18: API authorisation (model side of harness/ops_pm.cpp) ---------------- *)
let pm_zs (s : string) : pm_str = List.map (fun c -> z_of_int (Char.code c)) (List.of_seq (String.to_seq s))
let pm_sz (l : pm_str) : string = String.concat "" (List.map (fun z -> String.make 1 (Char.chr (int_of_z z))) l)
let pm_hex a k = hex_dec (str a k "-")
let pm_split sep s = if s = "" || s = "-" then [] else String.split_on_char sep s

type pm_spec = { ps_svc : bool; ps_host : string; ps_name : string; ps_vars : (pm_str * pm_str) list;
                 ps_cc : string; ps_cp : string; ps_ec : string; ps_ce : string }
let pm_specs : pm_spec list ref = ref []          (* newest first *)
let pm_inv : pm_obj list ref = ref []
let pm_user : pm_entry list ref = ref []

let pm_globals : (pm_str * pm_fval) list ref = ref []    (* the global constants declared by pm_glob, newest first *)

(* a free-name value: <hex> = string, @<hex>+<hex>.. = array of strings *)
let pm_fval_of (v : string) : pm_fval =
  if String.length v > 0 && v.[0] = '@' then
    let r = String.sub v 1 (String.length v - 1) in
    PmVA (if r = "" then [] else List.map (fun x -> pm_zs (hex_dec x)) (String.split_on_char '+' r))
  else PmVS (pm_zs (hex_dec v))
let pm_env_of s : (pm_str * pm_fval) list = List.map (fun kv -> match String.split_on_char ':' kv with
  | [k; v] -> (pm_zs (hex_dec k), pm_fval_of v) | _ -> failwith "bad env") (pm_split ',' s)
let pm_glob_of a : pm_str * pm_fval =
  (pm_zs (pm_hex a "name"),
   if has a "a" then PmVA (List.map (fun x -> pm_zs (hex_dec x)) (pm_split ',' (str a "a" "-"))) else PmVS (pm_zs (pm_hex a "s")))
(* a later declaration of the same name replaces the earlier one *)
let pm_glob_add g (l : (pm_str * pm_fval) list) = g :: List.filter (fun (k, _) -> k <> fst g) l

let pm_vars s = List.map (fun kv -> match String.split_on_char ':' kv with
  | [k; v] -> (pm_zs (hex_dec k), pm_zs (hex_dec v)) | _ -> failwith "bad vars") (pm_split ',' s)

let pm_scope_of = function 'h' -> PmScHost | 's' -> PmScService | 'o' -> PmScObj
  | 'k' -> PmScNav PmNCheckCommand | 'p' -> PmScNav PmNCheckPeriod | 'e' -> PmScNav PmNEventCommand
  | 'z' -> PmScNav PmNCommandEndpoint | _ -> failwith "bad scope"

let pm_filter_of_rpn (rpn : string) : pm_filter =
  let st = ref [] in
  let pop () = match !st with x :: r -> st := r; x | [] -> failwith "rpn underflow" in
  List.iter (fun tk ->
    match tk with
    | "t" -> st := PmFTrue :: !st
    | "f" -> st := PmFFalse :: !st
    | "and" -> let b = pop () in let a = pop () in st := PmFAnd (a, b) :: !st
    | "or" -> let b = pop () in let a = pop () in st := PmFOr (a, b) :: !st
    | "not" -> let a = pop () in st := PmFNot a :: !st
    | _ ->
      let p = String.split_on_char ':' tk in
      let hd = List.hd p in
      let sc = pm_scope_of hd.[1] in
      (match hd.[0], p with
       | ('n' | 'N'), [_; n] -> st := PmFName (sc, pm_zs (hex_dec n)) :: !st
       | 'v', [_; k; v] -> st := PmFVar (sc, pm_zs (hex_dec k), pm_zs (hex_dec v)) :: !st
       | ('c' | 'C'), [_; x] -> st := PmFNameVar (sc, pm_zs (hex_dec x)) :: !st
       | 'w', [_; k; x] -> st := PmFVarFree (sc, pm_zs (hex_dec k), pm_zs (hex_dec x)) :: !st
       | 'i', [_; x] -> st := PmFNameIn (sc, pm_zs (hex_dec x)) :: !st
       | 'm', [_; x] -> st := PmFMatch (sc, pm_zs (hex_dec x)) :: !st
       | 'M', [_; x] -> st := PmFMatchVar (sc, pm_zs (hex_dec x)) :: !st
       | 'l', [_; n] -> st := PmFLen (sc, z_of_int (int_of_string n)) :: !st
       | 'r', [_; x] -> st := PmFRegex (sc, pm_zs (hex_dec x)) :: !st
       | _ -> failwith ("bad atom " ^ tk))) (pm_split ',' rpn);
  match !st with [f] -> f | _ -> failwith "bad rpn"

let pm_user_of (s : string) : pm_entry list =
  if s = "none" then [] else
  List.map (fun e ->
    match String.index_opt e '@' with
    | None -> { pe_perm = pm_zs (hex_dec e); pe_filter = None }
    | Some i ->
      let rp = String.sub e (i + 1) (String.length e - i - 1) in
      { pe_perm = pm_zs (hex_dec (String.sub e 0 i));
        pe_filter = (if rp = "" then None else Some (pm_filter_of_rpn rp)) }) (pm_split ';' s)

let pm_spec_of svc a =
  { ps_svc = svc; ps_host = (if svc then pm_hex a "host" else ""); ps_name = pm_hex a "name"; ps_vars = pm_vars (str a "vars" "-");
    ps_cc = pm_hex a "cc"; ps_cp = pm_hex a "cp"; ps_ec = pm_hex a "ec"; ps_ce = pm_hex a "ce" }
let pm_optz s = if s = "" then None else Some (pm_zs s)
let pm_build_inv (specs : pm_spec list) : pm_obj list =
  let specs = List.rev specs in
  List.map (fun s ->
    if not s.ps_svc then
      { po_type = PmHost; po_name = pm_zs s.ps_name; po_short = pm_zs s.ps_name; po_host = pm_zs s.ps_name;
        po_vars = s.ps_vars; po_hvars = s.ps_vars; po_cc = Some (pm_zs (if s.ps_cc = "" then "pmdummy" else s.ps_cc));
        po_cp = pm_optz s.ps_cp; po_ec = pm_optz s.ps_ec; po_ce = pm_optz s.ps_ce }
    else
      let hv = try (List.find (fun h -> not h.ps_svc && h.ps_name = s.ps_host) specs).ps_vars with Not_found -> [] in
      { po_type = PmService; po_name = pm_zs (s.ps_host ^ "!" ^ s.ps_name); po_short = pm_zs s.ps_name;
        po_host = pm_zs s.ps_host; po_vars = s.ps_vars; po_hvars = hv;
        po_cc = Some (pm_zs (if s.ps_cc = "" then "pmdummy" else s.ps_cc));
        po_cp = pm_optz s.ps_cp; po_ec = pm_optz s.ps_ec; po_ce = pm_optz s.ps_ce }) specs

let pm_tyname = function PmHost -> "Host" | PmService -> "Service"
let pm_keystr ((t, n) : pm_type * pm_str) = pm_tyname t ^ ":" ^ hex_enc (pm_sz n)
let pm_join_sorted l = match List.sort compare l with [] -> "-" | l -> String.concat "," l
let pm_key_of_str (s : string) : (pm_type * pm_str) option =
  match String.index_opt s ':' with
  | None -> None
  | Some i ->
    let t = String.sub s 0 i and n = String.sub s (i + 1) (String.length s - i - 1) in
    (match t with
     | "Host" -> Some (PmHost, pm_zs (hex_dec n))
     | "Service" -> Some (PmService, pm_zs (hex_dec n))
     | _ -> None)

let pm_types_of a =
  let l = pm_split ',' (str a "types" "-") in
  (* std::set<String> order: Host < Service *)
  (if List.mem "Host" l then [PmHost] else []) @ (if List.mem "Service" l then [PmService] else [])

let pm_qtype_of = function "Host" -> PmQHost | "Service" -> PmQService | "User" | "Comment" | "Downtime" -> PmQOtherValid | _ -> PmQInvalid

let pm_query_of a : pm_query =
  let o k = if has a k then Some (pm_zs (pm_hex a k)) else None in
  let ol k = if has a k then Some (List.map (fun x -> pm_zs (hex_dec x)) (pm_split ',' (str a k "-"))) else None in
  { pq_host = o "host"; pq_service = o "service"; pq_hosts = ol "hosts"; pq_services = ol "services";
    pq_type = (if has a "type" then Some (pm_qtype_of (str a "type" "")) else None);
    pq_filter = (if has a "filter" then Some (pm_filter_of_rpn (str a "filter" "")) else None);
    pq_fvars = (if has a "fv" then pm_env_of (str a "fv" "-") else []) }

let b01 b = if b then "1" else "0"

let pm_q_line ob =
  let cons = match ob.pv_cons with None -> "-" | Some b -> b01 b in
  match ob.pv_res with
  | None -> Printf.sprintf "pm_q has=%s cons=%s res=err" (b01 ob.pv_has) cons
  | Some keys -> Printf.sprintf "pm_q has=%s cons=%s res=ok objs=%s" (b01 ob.pv_has) cons (pm_join_sorted (List.map pm_keystr keys))

let pm_errclass = function
  | PmErrPerm | PmErrDenied | PmErrScript -> "script"
  | PmErrNoObj | PmErrNoType | PmErrBadType | PmErrTypeNotInQd -> "arg"

(* ---- the HTTP handlers: which QueryDescription / params each of them builds *)
type pm_http = { ph_perm : pm_str; ph_tys : pm_type list; ph_q : pm_query; ph_kind : string }
let pm_http_of a : pm_http =
  let kind = str a "kind" "query" in
  let q = pm_query_of a in
  if kind = "action" then
    { ph_perm = pm_zs ("actions/" ^ str a "act" "reschedule-check"); ph_tys = [PmHost; PmService]; ph_q = q; ph_kind = kind }
  else begin
    let t = if str a "ptype" "hosts" = "services" then PmService else PmHost in
    let q = { q with pq_type = Some (match t with PmHost -> PmQHost | PmService -> PmQService) } in
    let q = if has a "name" then
        (match t with PmHost -> { q with pq_host = Some (pm_zs (pm_hex a "name")) }
                    | PmService -> { q with pq_service = Some (pm_zs (pm_hex a "name")) })
      else q in
    { ph_perm = pm_zs ("objects/" ^ kind ^ "/" ^ pm_tyname t); ph_tys = [t]; ph_q = q; ph_kind = kind }
  end

let pm_dedup l = List.sort_uniq compare l

(* ---- joins: which navigation prefixes the request selects, and how a serialised joined object is printed *)
let pm_nav_of_prefix = function
  | "host" -> Some PmScHost | "check_command" -> Some (PmScNav PmNCheckCommand) | "check_period" -> Some (PmScNav PmNCheckPeriod)
  | "event_command" -> Some (PmScNav PmNEventCommand) | "command_endpoint" -> Some (PmScNav PmNCommandEndpoint) | _ -> None
let pm_prefix_of_nav = function
  | PmScHost -> "host" | PmScNav PmNCheckCommand -> "check_command" | PmScNav PmNCheckPeriod -> "check_period"
  | PmScNav PmNEventCommand -> "event_command" | PmScNav PmNCommandEndpoint -> "command_endpoint" | _ -> "?"
let pm_jtyname = function PmJHost -> "Host" | PmJCheckCommand -> "CheckCommand" | PmJTimePeriod -> "TimePeriod"
  | PmJEventCommand -> "EventCommand" | PmJEndpoint -> "Endpoint"
let pm_jtype_of_name = function "Host" -> Some PmJHost | "CheckCommand" -> Some PmJCheckCommand | "TimePeriod" -> Some PmJTimePeriod
  | "EventCommand" -> Some PmJEventCommand | "Endpoint" -> Some PmJEndpoint | _ -> None
(* (selected prefixes, all_joins) of a pm_http line: joins=1 -> ["host.name"; "check_command"], joins=2 -> all_joins,
   jsel=<prefix,prefix..> -> those prefixes in the given order *)
let pm_join_sel a : pm_scope list * bool =
  let from_jsel = List.filter_map pm_nav_of_prefix (pm_split ',' (str a "jsel" "-")) in
  match num a "joins" 0 with
  | 2 -> (from_jsel, true)
  | 1 -> (PmScHost :: PmScNav PmNCheckCommand :: from_jsel, false)
  | _ -> (from_jsel, false)
let pm_join_requested a = num a "joins" 0 <> 0 || has a "jsel"
let pm_jline ((v, (t, n)) : pm_scope * (pm_jtype * pm_str)) = pm_prefix_of_nav v ^ ">" ^ pm_jtyname t ^ ":" ^ hex_enc (pm_sz n)

let op_pm_http a =
  let h = pm_http_of a in
  let (_, r) = pm_filter_targets !pm_globals true !pm_user h.ph_perm h.ph_tys h.ph_q !pm_inv in
  match r with
  | PmErr _ -> emit "pm_http code=404"
  | PmOk l ->
    let keys = List.map (fun o -> pm_keystr (pm_key_of o)) l in
    (match h.ph_kind with
     | "action" ->
       if l = [] then emit "pm_http code=404"
       else emit (Printf.sprintf "pm_http code=ok objs=%s" (pm_join_sorted (pm_dedup keys)))
     | "modify" ->
       emit (Printf.sprintf "pm_http code=ok objs=%s changed=%s" (pm_join_sorted keys) (pm_join_sorted (pm_dedup keys)))
     | "query" when pm_join_requested a ->
       let (sel, all) = pm_join_sel a in
       let t = (match h.ph_tys with [t] -> t | _ -> PmHost) in
       let js = List.map pm_jline (pm_joins !pm_globals !pm_user !pm_inv t sel all l) in
       emit (Printf.sprintf "pm_http code=ok objs=%s joins=%s" (pm_join_sorted keys) (pm_join_sorted js))
     | _ -> emit (Printf.sprintf "pm_http code=ok objs=%s" (pm_join_sorted keys)))

let op_pm_q a =
  let perm = pm_zs (pm_hex a "perm") in
  let prov = num a "prov" 0 <> 0 in
  let r = pm_filter_targets !pm_globals (not prov) !pm_user perm (pm_types_of a) (pm_query_of a) !pm_inv in
  let has = fst (pm_has_permission !pm_user perm) in
  let ob = pm_observe prov has r in
  match snd r with
  | PmErr e -> emit (pm_q_line ob ^ ":" ^ pm_errclass e)
  | PmOk _ -> emit (pm_q_line ob)

let op_pm_perm a =
  let perm = pm_zs (pm_hex a "perm") in
  let (found, pf) = pm_has_permission !pm_user perm in
  let adm = List.map (fun (k, e) -> pm_keystr k ^ (if e then "!E" else "")) (pm_allows !pm_globals !pm_user perm !pm_inv) in
  emit (Printf.sprintf "pm_perm has=%s has2=%s check=%s filtered=%s admits=%s" (b01 found) (b01 found)
          (if found then "ok" else "script") (b01 (pf <> None)) (pm_join_sorted adm))

(* ---------------- round 5 (f): attribute selection of the object query handler ---------------- *)
let pm_fnv (s : string) : int =
  let h = ref 2166136261 in
  String.iter (fun c -> h := ((!h lxor (Char.code c)) * 16777619) land 0xFFFFFFFF) s; !h
let pm_digest (l : string list) : string =
  match List.sort_uniq compare l with
  | [] -> "-"
  | v when List.length v <= 6 -> String.concat "+" v
  | v -> Printf.sprintf "#%d:%08x" (List.length v) (pm_fnv (String.concat "," v))
let pm_hexlist a k : pm_str list option =
  if has a k then Some (List.map (fun x -> pm_zs (hex_dec x)) (pm_split ',' (str a k "-"))) else None
let pm_areq_of a : pm_areq =
  { ar_attrs = pm_hexlist a "attrs"; ar_joins = pm_hexlist a "aj"; ar_all_joins = (num a "alljoins" 0 <> 0); ar_meta = pm_hexlist a "meta" }
let pm_aq_http a : pm_http =
  let t = if str a "ptype" "hosts" = "services" then PmService else PmHost in
  let q = pm_query_of a in
  let q = { q with pq_type = Some (match t with PmHost -> PmQHost | PmService -> PmQService) } in
  let q = if has a "name" then
      (match t with PmHost -> { q with pq_host = Some (pm_zs (pm_hex a "name")) }
                  | PmService -> { q with pq_service = Some (pm_zs (pm_hex a "name")) })
    else q in
  { ph_perm = pm_zs ("objects/query/" ^ pm_tyname t); ph_tys = [t]; ph_q = q; ph_kind = "query" }
let pm_fnames (fs : pm_field list) = List.map (fun f -> pm_sz f.pf_name) fs

let op_pm_fields a =
  let tbl = pm_cur_table (pm_zs (str a "type" "")) in
  if tbl = [] then emit "pm_fields n=-" else begin
    let b x = if x then "1" else "0" in
    let rows = String.concat "" (List.sort compare (List.map (fun f ->
      pm_sz f.pf_name ^ "/" ^ (if f.pf_nav then pm_sz f.pf_navname else "-") ^ "/" ^ b f.pf_config ^ b f.pf_state ^ b f.pf_nav
      ^ b f.pf_hidden ^ b f.pf_objval ^ ";") tbl)) in
    if Sys.getenv_opt "PM_FIELDS_DUMP" <> None then prerr_endline rows;
    let names p = pm_join_sorted (List.map (fun f -> pm_sz f.pf_name) (List.filter p tbl)) in
    emit (Printf.sprintf "pm_fields n=%d d=%08x nav=%s obj=%s" (List.length tbl) (pm_fnv rows)
            (names (fun f -> f.pf_nav)) (names (fun f -> f.pf_objval)))
  end

let op_pm_aq a =
  let h = pm_aq_http a in
  let (_, r) = pm_filter_targets !pm_globals true !pm_user h.ph_perm h.ph_tys h.ph_q !pm_inv in
  match r with
  | PmErr _ -> emit "pm_aq code=404"
  | PmOk objs ->
    let t = (match h.ph_tys with [t] -> t | _ -> PmHost) in
    (match pm_aquery pm_cur_table !pm_globals !pm_user !pm_inv t (pm_areq_of a) objs with
     | PmA400 -> emit "pm_aq code=400"
     | PmA200 l ->
       let keys = List.map (fun o -> pm_keystr o.ao_key) l in
       let akeys = match l with [] -> "-" | x :: _ -> pm_digest (pm_fnames x.ao_attrs) in
       let js = List.concat_map (fun x -> List.map (fun ((v, k), _) -> pm_jline (v, k)) x.ao_joins) l in
       let jk = List.fold_left (fun acc x -> List.fold_left (fun acc ((v, _), fs) ->
           let p = pm_prefix_of_nav v in if List.mem_assoc p acc then acc else (p, pm_digest (pm_fnames fs)) :: acc) acc x.ao_joins) [] l in
       let jk = List.sort compare jk in
       let emb = List.map (fun (f, (jt, n)) -> pm_sz f ^ ">" ^ pm_jtyname jt ^ ":" ^ hex_enc (pm_sz n)) (pm_aobs_embeds !pm_inv l) in
       emit (Printf.sprintf "pm_aq code=ok objs=%s akeys=%s joins=%s jkeys=%s embed=%s hidden=%d" (pm_join_sorted keys) akeys
               (pm_join_sorted js) (if jk = [] then "-" else String.concat "/" (List.map (fun (p, d) -> p ^ "=" ^ d) jk))
               (pm_join_sorted emb) (int_of_z (pm_aobs_hidden l))))

(* <path>>Type:hexname,... -> (type, name) list *)
let pm_parse_jkeys (s : string) : ((pm_jtype * pm_str) list, string) result =
  try Ok (List.map (fun x ->
      let i = String.index x '>' in
      let r = String.sub x (i + 1) (String.length x - i - 1) in
      let c = String.index r ':' in
      match pm_jtype_of_name (String.sub r 0 c) with
      | Some jt -> (jt, pm_zs (hex_dec (String.sub r (c + 1) (String.length r - c - 1))))
      | None -> failwith "type") (pm_split ',' s))
  with _ -> Error s

(* ---------------- round 5 (e): check-then-act, directed schedule (model side of pm_race) ---------------- *)
let rec pm_nat_of_int n = if n <= 0 then O else S (pm_nat_of_int (n - 1))
let rec pm_int_of_nat = function O -> 0 | S n -> 1 + pm_int_of_nat n
let pm_index_of (inv : pm_obj list) (k : pm_type * pm_str) : int option =
  let rec go i = function [] -> None | o :: r -> if pm_key_of o = k then Some i else go (i + 1) r in go 0 inv
(* the spec list with the target's spec replaced by the new object's (vars / references from nvars, ncp, nec, nce) *)
let pm_race_specs (specs : pm_spec list) a : pm_spec list =
  let svc = str a "ptype" "hosts" = "services" in
  let target = pm_hex a "target" in
  List.map (fun sp ->
    let full = if sp.ps_svc then sp.ps_host ^ "!" ^ sp.ps_name else sp.ps_name in
    if sp.ps_svc = svc && full = target then
      { sp with ps_vars = pm_vars (str a "nvars" "-"); ps_cp = pm_hex a "ncp"; ps_ec = pm_hex a "nec"; ps_ce = pm_hex a "nce" }
    else sp) specs
type pm_race_res = { pr_code404 : bool; pr_objs : (pm_type * pm_str) list; pr_old : bool; pr_new : bool; pr_bad : bool }
let pm_race_model glob user inv specs a : pm_race_res * pm_obj list =
  let kind = str a "kind" "modify" in
  let h = pm_http_of a in
  let t = if str a "ptype" "hosts" = "services" then PmService else PmHost in
  let k = (t, pm_zs (pm_hex a "target")) in
  let inv' = pm_build_inv (pm_race_specs specs a) in
  let (_, r) = pm_filter_targets glob true user h.ph_perm h.ph_tys h.ph_q inv in
  match r, pm_index_of inv k, pm_index_of inv' k with
  | PmOk l, Some x, Some x' when not (kind = "action" && l = []) ->
    let onew = List.nth inv' x' in
    let auth = List.filter_map (fun o -> pm_index_of inv (pm_key_of o)) l in
    let lock = num a "lock" 1 <> 0 && (kind = "modify" || kind = "delete") in
    let cfg = { pc_lock = lock; pc_reresolve = false } in
    let sched = pm_race_schedule lock k (List.map pm_nat_of_int auth) onew in
    (match pm_crun (fun o -> pm_spec_allow glob user h.ph_perm o) cfg sched (pm_cinit (pm_world_of inv)) with
     | Some s ->
       let acts = List.map pm_int_of_nat s.pcs_acts in
       ({ pr_code404 = false; pr_objs = List.map pm_key_of l; pr_old = List.mem x acts; pr_new = List.mem (List.length inv) acts; pr_bad = false }, inv')
     | None -> ({ pr_code404 = false; pr_objs = []; pr_old = false; pr_new = false; pr_bad = true }, inv'))
  | _, _, _ -> ({ pr_code404 = true; pr_objs = []; pr_old = false; pr_new = false; pr_bad = false }, inv')
let op_pm_race a =
  let kind = str a "kind" "modify" in
  let (r, _) = pm_race_model !pm_globals !pm_user !pm_inv !pm_specs a in
  pm_specs := pm_race_specs !pm_specs a;
  pm_inv := pm_build_inv !pm_specs;
  if r.pr_bad then emit "pm_race model-precondition-failed"
  else if r.pr_code404 then emit "pm_race parked=? code=404 acted=-"
  else begin
    let keys = pm_join_sorted (pm_dedup (List.map pm_keystr r.pr_objs)) in
    let o = r.pr_old && kind <> "delete" and n = r.pr_new in
    emit (Printf.sprintf "pm_race parked=? code=ok objs=%s acted=%s" keys
            (if o && n then "old+new" else if o then "old" else if n then "new" else "-"))
  end

(* ---------------- round 6: histories - mutable ApiUser objects, requests on keep-alive connections ---------------- *)
(* the configuration of Perm/PmUsers.v that describes this source tree (PmUsersFacts.pmu_cfg_tree ties it to the source facts) *)
let pmu_tree : pmu_cfg = { pmu_memo = false; pmu_invalidate = false; pmu_sticky = false }
let pmu_w : pmu_world ref = ref (pmu_world0 pmu_core0)
let pmu_uid : int ref = ref (-1)                 (* the object the direct ops hand to the handlers (l_User) *)
let pmu_conns : (int, pmu_conn) Hashtbl.t = Hashtbl.create 7
let pmu_pmuser = "pmuser"
let pmu_entries a = pm_user_of (str a "perms" "-")
let pmu_opt_int = function Some n -> Some (pm_int_of_nat n) | None -> None
(* after every change: the list HasPermission iterates for the object the direct ops use *)
let pmu_sync () =
  if !pmu_uid >= 0 then begin
    let (perms, w') = pmu_read pmu_tree !pmu_w (pm_nat_of_int !pmu_uid) in
    pmu_w := w'; pm_user := perms
  end
let pmu_do_create (w : pmu_world ref) (uid : int ref) name pass cn perms : bool =
  let op = PmuCreate (pm_zs name, pm_zs pass, pm_zs cn, perms) in
  match pmu_born !w.pmu_c op with
  | None -> false
  | Some id -> w := pmu_apply pmu_tree !w op; if name = pmu_pmuser then uid := pm_int_of_nat id; true
let pmu_hdr_of (s : string) : pmu_hdr =
  if s = "none" then PmuNoHdr
  else if String.length s >= 2 && String.sub s 0 2 = "b:" then PmuBasic (pm_zs (hex_dec (String.sub s 2 (String.length s - 2))))
  else PmuOtherScheme
(* GET /v1/objects/<type>[/<name>] as a connection request: the handler's QueryDescription *)
let pmu_creq_http a : pm_http = pm_http_of { a with kv = ("kind", "query") :: List.remove_assoc "kind" a.kv }
let pmu_decide (h : pm_http) (perms : pm_entry list) () : pm_result =
  snd (pm_filter_targets !pm_globals true perms h.ph_perm h.ph_tys h.ph_q !pm_inv)

let op_pm_auser a =
  let ok = pmu_do_create pmu_w pmu_uid (pm_hex a "name") (pm_hex a "pass") (pm_hex a "cn") (pmu_entries a) in
  pmu_sync ();
  emit (Printf.sprintf "pm_auser created=%s" (b01 ok))
let pmu_named_op (w : pmu_world ref) a (mk : pm_str -> pmu_op) : bool =
  let n = pm_zs (pm_hex a "name") in
  match pmu_find_name !w.pmu_c n with
  | None -> false
  | Some _ -> w := pmu_apply pmu_tree !w (mk n); true
let op_pm_uset a =
  let p = pmu_entries a in
  let ok = pmu_named_op pmu_w a (fun n -> PmuSet (n, p)) in pmu_sync (); emit ("pm_uset done=" ^ b01 ok)
let op_pm_urestore a =
  let ok = pmu_named_op pmu_w a (fun n -> PmuRestore n) in pmu_sync (); emit ("pm_urestore done=" ^ b01 ok)
let op_pm_udel a =
  let ok = pmu_named_op pmu_w a (fun n -> PmuDelete n) in pmu_sync (); emit ("pm_udel done=" ^ b01 ok)
let op_pm_copen a =
  let cert = if has a "cn" then Some (pm_zs (pm_hex a "cn")) else None in
  Hashtbl.replace pmu_conns (num a "conn" 0) (pmu_connect !pmu_w.pmu_c cert)
let op_pm_creq a =
  let id = num a "conn" 0 in
  let k = Hashtbl.find pmu_conns id in
  let h = pmu_creq_http a in
  let close = num a "close" 0 <> 0 in
  let ((r, w'), k') = pmu_request (pmu_decide h) pmu_tree !pmu_w k (pmu_hdr_of (str a "hdr" "none")) () close in
  pmu_w := w'; Hashtbl.replace pmu_conns id k';
  match r with
  | PmuClosed -> emit "pm_creq closed"
  | Pmu401 -> emit "pm_creq code=401 eof=1"
  | PmuAns (PmErr _) -> emit ("pm_creq code=404" ^ (if close then " eof=1" else ""))
  | PmuAns (PmOk l) ->
    emit (Printf.sprintf "pm_creq code=ok objs=%s%s" (pm_join_sorted (List.map (fun o -> pm_keystr (pm_key_of o)) l)) (if close then " eof=1" else ""))

(* ---------------- oracle: the statement of C18 evaluated on the IMPLEMENTATION's lines ---------------- *)
let pm_parse_keys (s : string) : ((pm_type * pm_str) list, string) result =
  let rec go acc = function
    | [] -> Ok (List.rev acc)
    | x :: r ->
      let x = if String.length x > 2 && String.sub x (String.length x - 2) 2 = "!E" then "" else x in
      if x = "" then go acc r else
      (match pm_key_of_str x with Some k -> go (k :: acc) r | None -> Error x) in
  go [] (pm_split ',' s)

let oracle_c18_case script trace =
  let specs = ref [] and user = ref [] and inv = ref [] and glob = ref [] in
  (* round 6: the ApiUser objects as the script's operations leave them; `user` is the list of the object the direct ops use *)
  let ow = ref (pmu_world0 pmu_core0) and ouid = ref (-1) and oconns : (int, pmu_conn) Hashtbl.t = Hashtbl.create 7 in
  let olds : pm_entry list list ref = ref [] in        (* earlier permission lists of that object *)
  let uhist : (int, pm_entry list list) Hashtbl.t = Hashtbl.create 7 in      (* per user OBJECT: the lists it has had, newest first *)
  let osync () =
    List.iteri (fun i _ ->
        let cur = pmu_perms_of !ow.pmu_c (pm_nat_of_int i) in
        match Hashtbl.find_opt uhist i with
        | Some (x :: _) when x = cur -> ()
        | Some l -> Hashtbl.replace uhist i (cur :: l)
        | None -> Hashtbl.replace uhist i [cur]) !ow.pmu_c.pmu_heap;
    if !ouid >= 0 then begin
      let p = pmu_perms_of !ow.pmu_c (pm_nat_of_int !ouid) in
      if p <> !user then olds := !user :: !olds;
      user := p end in
  let tr = ref trace in
  let err = ref None in
  let fail m = if !err = None then err := Some m in
  (* a failed judgement that an EARLIER list of the same user object would have passed *)
  let stale (judge : pm_entry list -> bool) = if List.exists judge !olds then " decided-on-an-earlier-permission-list" else "" in
  let next li = match !tr with
    | [] -> fail (Printf.sprintf "step=%d missing-observation" li); None
    | l :: r -> tr := r; if is_bad_line l then (fail (Printf.sprintf "step=%d crash %s" li l); None) else Some l in
  List.iteri (fun li line ->
    if !err = None then
    match parse_line line with
    | Some ("pm_glob", a) -> glob := pm_glob_add (pm_glob_of a) !glob
    | Some ("pm_host", a) -> specs := pm_spec_of false a :: !specs
    | Some ("pm_svc", a) -> specs := pm_spec_of true a :: !specs
    | Some ("pm_user", a) -> user := pm_user_of (str a "perms" "-")
    | Some ("pm_load", _) -> inv := pm_build_inv !specs; ignore (next li);
      ignore (pmu_do_create ow ouid pmu_pmuser "pw" "" !user); osync ()
    | Some ("pm_auser", a) -> ignore (next li); ignore (pmu_do_create ow ouid (pm_hex a "name") (pm_hex a "pass") (pm_hex a "cn") (pmu_entries a)); osync ()
    | Some ("pm_uset", a) -> ignore (next li); let p = pmu_entries a in ignore (pmu_named_op ow a (fun n -> PmuSet (n, p))); osync ()
    | Some ("pm_urestore", a) -> ignore (next li); ignore (pmu_named_op ow a (fun n -> PmuRestore n)); osync ()
    | Some ("pm_udel", a) -> ignore (next li); ignore (pmu_named_op ow a (fun n -> PmuDelete n)); osync ()
    | Some ("pm_copen", a) ->
      Hashtbl.replace oconns (num a "conn" 0) (pmu_connect !ow.pmu_c (if has a "cn" then Some (pm_zs (pm_hex a "cn")) else None))
    | Some ("pm_creq", a) ->
      (match next li with
       | None -> ()
       | Some l when l = "pm_creq closed" -> ()          (* nothing was granted *)
       | Some l ->
         let t = toks_of l in
         let h = pmu_creq_http a in
         let code = match tok_val t "code" with Some c -> c | None -> "?" in
         let cu = (try (Hashtbl.find oconns (num a "conn" 0)).pmu_cuser with Not_found -> None) in
         let hdr = pmu_hdr_of (str a "hdr" "none") in
         (match (match tok_val t "objs" with None -> Ok [] | Some s -> pm_parse_keys s) with
          | Error _ -> fail (Printf.sprintf "step=%d unparsable-object" li)
          | Ok keys ->
            let judge perms (c404, ks) =
              let has = pm_spec_has perms h.ph_perm in
              if not has then c404
              else pm_oracle_q !glob perms h.ph_perm h.ph_tys h.ph_q !inv { pv_has = has; pv_cons = None; pv_res = (if c404 then None else Some ks) } in
            let obs = if code = "401" then None else Some (code = "404", keys) in
            if code <> "401" && code <> "404" && code <> "ok" then fail (Printf.sprintf "step=%d identity: unexpected-status %s" li code)
            else if not (pmu_oracle_req judge !ow.pmu_c cu hdr obs) then begin
              let who = match cu with Some u -> Some u | None -> pmu_auth !ow.pmu_c hdr in
              match who, obs with
              | None, Some _ -> fail (Printf.sprintf "step=%d identity: request-served-without-valid-credentials-of-its-own" li)
              | Some _, None -> fail (Printf.sprintf "step=%d identity: valid-credentials-answered-401" li)
              | Some u, Some o ->
                let earlier = match Hashtbl.find_opt uhist (pm_int_of_nat u) with Some (_ :: r) -> r | _ -> [] in
                (* another user's CURRENT list explains the answer: an identity mix-up rather than a stale list *)
                let other = List.exists (fun i -> i <> u && judge (pmu_perms_of !ow.pmu_c i) o) !ow.pmu_c.pmu_reg in
                if (not other) && List.exists (fun l -> judge l o) earlier then
                  fail (Printf.sprintf "step=%d connection request of the right user, but decided-on-an-earlier-permission-list" li)
                else fail (Printf.sprintf "step=%d identity: not-decided-on-the-permissions-of-the-user-this-request-identifies" li)
              | _, _ -> ()
            end))
    | Some ("pm_match", a) ->
      (match next li with
       | None -> ()
       | Some l ->
         let want = pm_match (pm_zs (pm_hex a "pat")) (pm_zs (pm_hex a "text")) in
         (match tok_val (toks_of l) "r" with
          | Some v when v = b01 want -> ()
          | _ -> fail (Printf.sprintf "step=%d match-differs-from-glob-spec" li)))
    | Some ("pm_perm", a) ->
      (match next li with
       | None -> ()
       | Some l ->
         let t = toks_of l in
         let perm = pm_zs (pm_hex a "perm") in
         let has = tok_val t "has" = Some "1" in
         (match pm_parse_keys (match tok_val t "admits" with Some s -> s | None -> "?") with
          | Error x -> fail (Printf.sprintf "step=%d unparsable-object %s" li x)
          | Ok keys ->
            if tok_val t "has2" <> tok_val t "has" then fail (Printf.sprintf "step=%d has-permission-depends-on-out-parameter" li)
            else if (tok_val t "check" = Some "ok") <> has then fail (Printf.sprintf "step=%d check-permission-disagrees-with-has-permission" li)
            else if not (pm_oracle_perm !glob !user perm !inv has keys) then
              fail (Printf.sprintf "step=%d perm: %s%s" li
                      (if has <> pm_spec_has !user perm then "has-permission-differs-from-match-spec" else "filter-admits-unpermitted-object")
                      (stale (fun u -> pm_oracle_perm !glob u perm !inv has keys)))))
    | Some ("pm_q", a) ->
      (match next li with
       | None -> ()
       | Some l ->
         let t = toks_of l in
         let perm = pm_zs (pm_hex a "perm") in
         let has = tok_val t "has" = Some "1" in
         let cons = match tok_val t "cons" with Some "1" -> Some true | Some "0" -> Some false | _ -> None in
         let res = match tok_val t "res" with
           | Some "ok" -> (match pm_parse_keys (match tok_val t "objs" with Some s -> s | None -> "?") with
               | Ok k -> Ok (Some k) | Error x -> Error x)
           | Some _ -> Ok None
           | None -> Error "no-res" in
         (match res with
          | Error x -> fail (Printf.sprintf "step=%d unparsable-object %s" li x)
          | Ok r ->
            let ob = { pv_has = has; pv_cons = cons; pv_res = r } in
            let tys = pm_types_of a and q = pm_query_of a in
            if not (pm_oracle_q !glob !user perm tys q !inv ob) then
              fail (Printf.sprintf "step=%d targets: %s" li
                      (if has <> pm_spec_has !user perm then "has-permission-differs-from-match-spec"
                       else if not has then "no-permission-but-not-rejected-first"
                       else "unpermitted-object-returned-or-forbidden-name-not-rejected")
                    ^ stale (fun u -> pm_oracle_q !glob u perm tys q !inv ob))))
    | Some ("pm_http", a) ->
      (match next li with
       | None -> ()
       | Some l ->
         let t = toks_of l in
         let h = pm_http_of a in
         let code = match tok_val t "code" with Some c -> c | None -> "?" in
         let keys_of k = match tok_val t k with None -> Ok [] | Some s -> pm_parse_keys s in
         (* joins=<prefix>>Type:hexname,..  -> (type, name) of every serialised joined object *)
         let jkeys = match tok_val t "joins" with
           | None -> Ok []
           | Some s ->
             (try Ok (List.map (fun x ->
                 let i = String.index x '>' in
                 let r = String.sub x (i + 1) (String.length x - i - 1) in
                 let c = String.index r ':' in
                 match pm_jtype_of_name (String.sub r 0 c) with
                 | Some jt -> (jt, pm_zs (hex_dec (String.sub r (c + 1) (String.length r - c - 1))))
                 | None -> failwith "type") (pm_split ',' s))
              with _ -> Error s) in
         (match keys_of "objs", keys_of "changed", jkeys with
          | Ok o, Ok c, Ok j ->
            let has = pm_spec_has !user h.ph_perm in
            let acted = o @ c in
            let ob = { pv_has = has; pv_cons = None; pv_res = (if code = "404" then None else Some acted) } in
            let st () = stale (fun u -> let hs = pm_spec_has u h.ph_perm in
                                (hs || (code = "404" && acted = [])) && pm_oracle_q !glob u h.ph_perm h.ph_tys h.ph_q !inv { ob with pv_has = hs }) in
            if (not has) && (code <> "404" || acted <> []) then fail (Printf.sprintf "step=%d http: no-permission-but-request-served%s" li (st ()))
            else if not (pm_oracle_q !glob !user h.ph_perm h.ph_tys h.ph_q !inv ob) then
              fail (Printf.sprintf "step=%d http: unpermitted-object-acted-on-or-forbidden-name-not-rejected%s" li (st ()))
            else if not (pm_oracle_joins !glob !user !inv j) then
              fail (Printf.sprintf "step=%d http: unpermitted-joined-object-serialised" li)
          | _ -> fail (Printf.sprintf "step=%d unparsable-object" li)))
    | Some ("pm_race", a) ->
      (match next li with
       | None -> ()
       | Some l ->
         let t = toks_of l in
         let h = pm_http_of a in
         let ty = if str a "ptype" "hosts" = "services" then PmService else PmHost in
         let k = (ty, pm_zs (pm_hex a "target")) in
         let specs' = pm_race_specs !specs a in
         let inv' = pm_build_inv specs' in
         let code = match tok_val t "code" with Some c -> c | None -> "?" in
         let acted = match tok_val t "acted" with Some c -> c | None -> "?" in
         let a_old = (acted = "old" || acted = "old+new") and a_new = (acted = "new" || acted = "old+new") in
         let allow_of i = match pm_lookup i (fst k) (snd k) with Some o -> pm_spec_allow !glob !user h.ph_perm o | None -> false in
         let has = pm_spec_has !user h.ph_perm in
         (match (match tok_val t "objs" with None -> Ok [] | Some s -> pm_parse_keys s) with
          | Error _ -> fail (Printf.sprintf "step=%d unparsable-object" li)
          | Ok o ->
            let ob = { pv_has = has; pv_cons = None; pv_res = (if code = "404" then None else Some o) } in
            if acted = "?" then fail (Printf.sprintf "step=%d missing-observation" li)
            else if (not has) && (code <> "404" || a_old || a_new) then fail (Printf.sprintf "step=%d race: no-permission-but-request-served" li)
            else if not (pm_oracle_race (allow_of !inv) (allow_of inv') a_old a_new) then
              fail (Printf.sprintf "step=%d race: acted-on-an-object-that-was-not-authorised acted=%s (filter true of the object authorised: %b, of the object that has the name now: %b)"
                      li acted (allow_of !inv) (allow_of inv'))
            else if not (pm_oracle_q !glob !user h.ph_perm h.ph_tys h.ph_q !inv ob) then
              fail (Printf.sprintf "step=%d race: unpermitted-object-acted-on-or-forbidden-name-not-rejected" li));
         specs := specs'; inv := inv')
    | Some ("pm_fields", _) -> ignore (next li)
    | Some ("pm_aq", a) ->
      (match next li with
       | None -> ()
       | Some l ->
         let t = toks_of l in
         let h = pm_aq_http a in
         let code = match tok_val t "code" with Some c -> c | None -> "?" in
         let has = pm_spec_has !user h.ph_perm in
         if code <> "ok" then begin
           if code <> "404" && code <> "400" then fail (Printf.sprintf "step=%d attrs: unexpected-status" li)
           else if (not has) && code <> "404" then fail (Printf.sprintf "step=%d attrs: no-permission-but-request-served%s" li (stale (fun u -> pm_spec_has u h.ph_perm)))
         end else begin
           let keys = match tok_val t "objs" with None -> Error "?" | Some s -> pm_parse_keys s in
           let jk = match tok_val t "joins" with None -> Error "?" | Some s -> pm_parse_jkeys s in
           let ek = match tok_val t "embed" with None -> Error "?" | Some s -> pm_parse_jkeys s in
           let hid = match tok_val t "hidden" with Some s -> (try Some (int_of_string s) with _ -> None) | None -> None in
           (match keys, jk, ek, hid with
            | Ok o, Ok j, Ok e, Some hn ->
              let ob = { pv_has = has; pv_cons = None; pv_res = Some o } in
              let st () = stale (fun u -> let hs = pm_spec_has u h.ph_perm in hs && pm_oracle_q !glob u h.ph_perm h.ph_tys h.ph_q !inv { ob with pv_has = hs }) in
              if not has then fail (Printf.sprintf "step=%d attrs: no-permission-but-request-served%s" li (st ()))
              else if not (pm_oracle_q !glob !user h.ph_perm h.ph_tys h.ph_q !inv ob) then
                fail (Printf.sprintf "step=%d attrs: unpermitted-object-acted-on-or-forbidden-name-not-rejected%s" li (st ()))
              else if not (pm_oracle_aq !glob !user !inv j [] (z_of_int 0)) then
                fail (Printf.sprintf "step=%d attrs: unpermitted-joined-object-serialised" li)
              else if not (pm_oracle_aq !glob !user !inv [] e (z_of_int 0)) then
                fail (Printf.sprintf "step=%d attrs: embedded-object-of-unpermitted-type-or-filter %s" li
                        (match tok_val t "embed" with Some s -> s | None -> ""))
              else if not (pm_oracle_aq !glob !user !inv [] [] (z_of_int hn)) then
                fail (Printf.sprintf "step=%d attrs: hidden-field-serialised" li)
            | _ -> fail (Printf.sprintf "step=%d unparsable-object" li))
         end)
    | _ -> ()) script;
  !err

let () =
  register_op "pm_match" (fun a ->
    emit ("pm_match r=" ^ b01 (pm_match (pm_zs (pm_hex a "pat")) (pm_zs (pm_hex a "text")))));
  register_op "pm_host" (fun a ->
    pm_specs := pm_spec_of false a :: !pm_specs);
  register_op "pm_svc" (fun a ->
    pm_specs := pm_spec_of true a :: !pm_specs);
  register_op "pm_user" (fun a -> pm_user := pm_user_of (str a "perms" "-"));
  register_op "pm_glob" (fun a -> pm_globals := pm_glob_add (pm_glob_of a) !pm_globals);
  register_op "pm_load" (fun _ ->
    ignore (pmu_do_create pmu_w pmu_uid pmu_pmuser "pw" "" !pm_user);
    pm_inv := pm_build_inv !pm_specs;
    emit (Printf.sprintf "pm_load n=%d" (List.length !pm_inv)));
  register_op "pm_perm" op_pm_perm;
  register_op "pm_q" op_pm_q;
  register_op "pm_http" op_pm_http;
  register_op "pm_fields" op_pm_fields;
  register_op "pm_aq" op_pm_aq;
  register_op "pm_race" op_pm_race;
  register_op "pm_auser" op_pm_auser;
  register_op "pm_uset" op_pm_uset;
  register_op "pm_urestore" op_pm_urestore;
  register_op "pm_udel" op_pm_udel;
  register_op "pm_copen" op_pm_copen;
  register_op "pm_creq" op_pm_creq;
  register_op "pm_cclose" (fun a -> Hashtbl.remove pmu_conns (num a "conn" 0));
  register_case_end (fun () -> pm_specs := []; pm_inv := []; pm_user := []; pm_globals := [];
                               pmu_w := pmu_world0 pmu_core0; pmu_uid := -1; Hashtbl.reset pmu_conns);
  register_oracle "C18" oracle_c18_case
