open Model
open Vcore

(* ---------------- TimePeriod fixture (C08) ---------------- *)
type tp_fix = {
  mutable f_st : tp_st;                       (* model state / last observed state (oracle) *)
  mutable f_prefer : bool;
  mutable f_inc : string list;
  mutable f_exc : string list;
  mutable f_own : (z * z) list;
  mutable f_ranges : (string * tp_dayrange * (z * z) list) list;   (* key string, day definition, time ranges *)
  mutable f_active : bool;                    (* started (tp_start): the timer handler visits it *)
  mutable f_n0 : int;                         (* clock at tp_start *)
  mutable f_snap : (z * z) list list * (z * z) list list;   (* oracle: the referenced periods' observed segments at the last round that recomputed *)
  f_own_at : (int, bool) Hashtbl.t;           (* oracle: what the period's own written ranges say at a probe (memo) *)
  mutable f_hole : (int * int) option;        (* oracle: after a Start() on a restored state whose valid_end lies beyond everything Start()
                                                 produced: (end of what was produced, restored valid_end] - finding restart-keeps-valid-end *)
}

let tp_tab : (string, tp_fix) Hashtbl.t = Hashtbl.create 16
let tp_pts : int list ref = ref []
let tp_order : string list ref = ref []                  (* creation order = the order of the timer handler *)
let tp_zone : (z * (z * z) list) ref = ref (Z0, [])      (* base offset, transitions *)

let split_c s sep = if s = "-" || s = "" then [] else String.split_on_char sep s

(* "b-e", b and e possibly negative: split at the '-' that follows a digit *)
let parse_seg s =
  let n = String.length s in
  let rec go i = if i >= n then failwith "seg" else if s.[i] = '-' && s.[i-1] >= '0' && s.[i-1] <= '9' then i else go (i + 1) in
  let i = go 1 in
  (z_of_int (tnum (String.sub s 0 i)), z_of_int (tnum (String.sub s (i + 1) (n - i - 1))))

let oz = function None -> "-" | Some z -> zs z
let tp_state_line name (s : tp_st) ins =
  Printf.sprintf "tp %s segs=%s vb=%s ve=%s in=%s" name
    (if s.tp_segs = [] then "-" else String.concat "," (List.map (fun (b, e) -> zs b ^ "-" ^ zs e) s.tp_segs))
    (oz s.tp_vb) (oz s.tp_ve)
    (if ins = [] then "-" else String.concat "" (List.map (fun b -> if b then "1" else "0") ins))

let tp_get a = try Hashtbl.find tp_tab (str a "name" "") with Not_found -> failwith "no such period"
let tp_emit_state a =
  let f = tp_get a in
  emit (tp_state_line (str a "name" "") f.f_st (List.map (fun t -> tp_is_inside f.f_st (z_of_int t)) !tp_pts))

let tp_new_fix a = { f_st = tp_empty; f_prefer = (num a "prefer" 1 <> 0); f_inc = split_c (str a "inc" "-") ',';
                     f_exc = split_c (str a "exc" "-") ','; f_own = []; f_ranges = [];
                     f_active = false; f_n0 = 0; f_snap = ([], []); f_own_at = Hashtbl.create 64; f_hole = None }

(* ---- day definitions / time ranges as printed by the generator (ast=...) ----
   spec:  d.Y.M.D | m.MON.N (MON=-1: "day N") | w.WDAY.N.MON (N=0: plain weekday, MON=-1: no month)
   day definition: spec[~spec][/stride]      time ranges: tr=b-e,b-e (seconds of day as written) *)
let parse_spec s =
  match String.split_on_char '.' s with
  | ["d"; y; m; d] -> TpDate (z_of_int (int_of_string y), z_of_int (int_of_string m), z_of_int (int_of_string d))
  | ["m"; mon; n] -> TpMonthDay ((let m = int_of_string mon in if m < 0 then None else Some (z_of_int m)), z_of_int (int_of_string n))
  | ["w"; wd; n; mon] ->
    TpWeekday (z_of_int (int_of_string wd),
               (let k = int_of_string n in if k = 0 then None else Some (z_of_int k)),
               (let m = int_of_string mon in if m < 0 then None else Some (z_of_int m)))
  | _ -> failwith ("bad spec " ^ s)

let parse_daydef s =
  let s, stride = match String.index_opt s '/' with
    | Some i -> String.sub s 0 i, int_of_string (String.sub s (i + 1) (String.length s - i - 1))
    | None -> s, 1 in
  match String.index_opt s '~' with
  | Some i -> { tp_dr_first = parse_spec (String.sub s 0 i);
                tp_dr_last = Some (parse_spec (String.sub s (i + 1) (String.length s - i - 1)));
                tp_dr_stride = z_of_int stride }
  | None -> { tp_dr_first = parse_spec s; tp_dr_last = None; tp_dr_stride = z_of_int stride }

(* the day definition and the time ranges are what the MODEL'S parser (Tp/TpParse.v) makes of the strings the code gets *)
let tp_bytes s = List.map (fun c -> z_of_int (Char.code c)) (List.of_seq (String.to_seq s))
let tp_hexarg a k = let v = str a k "-" in if v = "-" then "" else hex_dec v

let tp_apply_range f a =
  let k = tp_hexarg a "k" in
  let dd = match tp_parse_daydef (tp_bytes k) with Some d -> d | None -> failwith ("day definition rejected by the parser model: " ^ k) in
  let trs = match tp_parse_timeranges (tp_bytes (tp_hexarg a "v")) with
    | Some t -> t | None -> failwith ("time ranges rejected by the parser model: " ^ tp_hexarg a "v") in
  (* Dictionary = std::map: key-sorted, a repeated key replaces the value *)
  let rest = List.filter (fun (k', _, _) -> k' <> k) f.f_ranges in
  f.f_ranges <- List.sort (fun (k1, _, _) (k2, _, _) -> compare k1 k2) ((k, dd, trs) :: rest)

(* TimePeriod::ValidateRanges on one entry, by the parser model; v defaults to "00:00-24:00" *)
let tp_validate a =
  let v = if str a "v" "" = "" then "00:00-24:00" else tp_hexarg a "v" in
  tp_validate_entry (tp_bytes (tp_hexarg a "k")) (tp_bytes v)

(* the generator prints the parsed form it MEANT next to the string (ast= / tr=): the parser model has to agree *)
let tp_printer_agrees a =
  let ok_dd = match str a "ast" "" with
    | "" -> true
    | ast -> (match tp_parse_daydef (tp_bytes (tp_hexarg a "k")) with Some d -> d = parse_daydef ast | None -> false) in
  let ok_tr = match str a "tr" "" with
    | "" -> true
    | tr -> (match tp_parse_timeranges (tp_bytes (tp_hexarg a "v")) with
        | Some t -> t = List.map parse_seg (split_c tr ',') | None -> false) in
  ok_dd && ok_tr

let tp_existing names = List.filter_map (fun n -> Hashtbl.find_opt tp_tab n) names

let tp_upd_fun f =
  if f.f_ranges = [] then (fun _ _ -> f.f_own)
  else
    let (base, tab) = !tp_zone in
    (* the form of IsInTimeRange's day number and of ScriptFunc's day loop is the one the source has now
       (Facts_c08, regenerated on every run) *)
    (fun b e -> tp_script_func (tp_tab_off base tab) (tp_tab_mk base tab) tp_src_stride_round tp_src_lookback
        (List.map (fun (_, dd, trs) -> (dd, trs)) f.f_ranges) b e)

let op_tp_upd a =
  let f = tp_get a in
  let incs = List.map (fun g -> g.f_st.tp_segs) (tp_existing f.f_inc) in
  let excs = List.map (fun g -> g.f_st.tp_segs) (tp_existing f.f_exc) in
  (* the form of UpdateRegion (early return / merge in every round) is the one the source has now (Facts_c08) *)
  f.f_st <- tp_update_region_ma true tp_src_merge_always (tp_upd_fun f) f.f_prefer incs excs
      (z_of_int (tnum (str a "b" "0"))) (z_of_int (tnum (str a "e" "0"))) (num a "clear" 1 <> 0) f.f_st;
  tp_emit_state a

(* Start(): UpdateRegion(now, now + 24 h, true); the timer handler: every started period in creation order *)
let op_tp_start a =
  let f = tp_get a in
  let incs = List.map (fun g -> g.f_st.tp_segs) (tp_existing f.f_inc) in
  let excs = List.map (fun g -> g.f_st.tp_segs) (tp_existing f.f_exc) in
  let nowz = z_of_int !now in
  f.f_active <- true;
  (* the state Start() finds is the empty one or the one restored from the state file (tp_reload) *)
  f.f_st <- tp_roll_start_on tp_src_start_resets (tp_upd_fun f) f.f_prefer ((nowz, incs), excs) f.f_st;
  tp_emit_state a

(* tp_reload: restart with an edited configuration - a new object (new prefer / includes / excludes, no ranges yet, not
   started, last in creation order) that carries the old object's state attributes *)
let op_tp_reload a =
  let old = tp_get a in
  let name = str a "name" "" in
  let f = tp_new_fix a in
  f.f_st <- old.f_st;
  Hashtbl.replace tp_tab name f;
  tp_order := List.filter (fun n -> n <> name) !tp_order @ [name];
  tp_emit_state a

let op_tp_timer _ =
  List.iter (fun name ->
    match Hashtbl.find_opt tp_tab name with
    | Some f when f.f_active ->
      let incs = List.map (fun g -> g.f_st.tp_segs) (tp_existing f.f_inc) in
      let excs = List.map (fun g -> g.f_st.tp_segs) (tp_existing f.f_exc) in
      f.f_st <- tp_roll_round tp_src_merge_always (tp_upd_fun f) f.f_prefer ((z_of_int !now, incs), excs) f.f_st;
      emit (tp_state_line name f.f_st (List.map (fun t -> tp_is_inside f.f_st (z_of_int t)) !tp_pts))
    | _ -> ()) !tp_order

(* ---------------- oracle over implementation traces ---------------- *)
let parse_state_line l =
  (* -> name, state, ins *)
  match toks_of l with
  | "tp" :: name :: rest ->
    let g k = match tok_val rest k with Some v -> v | None -> failwith "field" in
    let segs = List.map parse_seg (split_c (g "segs") ',') in
    let o s = if s = "-" then None else Some (z_of_int (tnum s)) in
    let ins = if g "in" = "-" then [] else List.map (fun c -> c = '1') (List.of_seq (String.to_seq (g "in"))) in
    Some (name, { tp_segs = segs; tp_vb = o (g "vb"); tp_ve = o (g "ve") }, ins)
  | _ -> None

let oracle_c08_case script trace =
  let fx : (string, tp_fix) Hashtbl.t = Hashtbl.create 8 in
  let pts = ref [] in
  let zone = ref (Z0, []) in
  let clock = ref 0 in
  let err = ref None in
  let tr = ref trace in
  let order = ref [] in
  (* the latest clock value of the script: the rolling cases are judged up to 24 h after it *)
  let nmax = List.fold_left (fun m line -> match parse_line line with
      | Some ("now", a) -> max m (tnum (List.hd a.pos)) | _ -> m) 0 script in
  let fail m = if !err = None then err := Some m in
  let hole_hit = ref None in    (* the same for the known class restart-keeps-valid-end *)
  let stale = ref None in       (* a hit of the known staleness class does not stop the judgement of the rest of the case *)
  let next li k =
    match !tr with
    | [] -> fail (Printf.sprintf "step=%d missing-observation" li)
    | l :: rest -> tr := rest; if is_bad_line l then fail (Printf.sprintf "step=%d crash %s" li l) else k l in
  List.iteri (fun li line ->
    if !err = None then
    match parse_line line with
    | Some ("now", a) -> clock := tnum (List.hd a.pos)
    | Some ("tp_pts", a) -> pts := List.map tnum (split_c (List.hd a.pos) ',')
    | Some ("tp_tz", a) ->
      zone := (z_of_int (num a "base" 0),
               List.map (fun s -> match String.split_on_char ':' s with
                   | [t; o] -> (z_of_int (int_of_string t), z_of_int (int_of_string o)) | _ -> failwith "tab")
                 (split_c (str a "tab" "-") ','));
      next li (fun l -> if l <> "tp_tz ok" then fail (Printf.sprintf "step=%d tz-table %s" li l))
    | Some ("tp_mk", a) ->
      (* the only thing the theorems ask of mktime (tp_good): a local time that exists exactly once is mapped to its
         instant; inside a skipped / repeated hour nothing is claimed (compared with the model only) *)
      let (base, tab) = !zone in
      let ls = List.map (fun s -> z_of_int (int_of_string s)) (split_c (str a "l" "-") ',') in
      next li (fun l ->
        match tok_val (toks_of l) "r" with
        | None -> fail (Printf.sprintf "step=%d unexpected-line %s" li l)
        | Some r ->
          let rs = List.map int_of_string (split_c r ',') in
          if List.length rs <> List.length ls then fail (Printf.sprintf "step=%d op=tp_mk wrong-number-of-answers" li)
          else List.iter2 (fun lz r ->
              if tp_tab_good_b base tab lz && int_of_z (tp_tab_mk base tab lz) <> r then
                fail (Printf.sprintf "step=%d op=tp_mk mktime-of-an-exactly-once-local-time l=%s got=%d" li (zs lz) r)) ls rs)
    | Some ("tp_parse", a) ->
      next li (fun l ->
        let want = if tp_validate a then "ok" else "rejected" in
        match tok_val (toks_of l) "res" with
        | Some r when r = want -> ()
        | Some "hang" -> fail (Printf.sprintf "step=%d op=tp_parse day-definition-never-finishes (validation hangs)" li)
        | Some r -> fail (Printf.sprintf "step=%d op=tp_parse res=%s expected=%s" li r want)
        | None -> fail (Printf.sprintf "step=%d unexpected-line %s" li l))
    | Some ("tp_new", a) -> Hashtbl.replace fx (str a "name" "") (tp_new_fix a); order := !order @ [str a "name" ""]
    | Some ("tp_reload", a) ->
      (* restart with an edited configuration: the new object (new prefer / includes / excludes; its ranges follow) carries the
         state attributes the implementation shows after ConfigObject::RestoreObject - that is the state Start() will find *)
      let name = str a "name" "" in
      next li (fun l ->
        match parse_state_line l with
        | Some (n, post, _) when n = name ->
          let f = tp_new_fix a in
          f.f_st <- post;
          Hashtbl.replace fx name f;
          order := List.filter (fun n -> n <> name) !order @ [name]
        | _ -> fail (Printf.sprintf "step=%d unexpected-line %s" li l))
    | Some ("tp_timer", _) ->
      (* one expiry of the update timer: every started period, in creation order, is judged by the statement of
         C08_rolling_updates at every probe from one hour before the round (not before its start) up to its valid_end *)
      List.iter (fun name ->
        match Hashtbl.find_opt fx name with
        | Some f when f.f_active && !err = None ->
          next li (fun l ->
            match parse_state_line l with
            | Some (n, post, ins) when n = name ->
              let probes = List.map z_of_int !pts in
              let existing names = List.filter_map (fun n -> Hashtbl.find_opt fx n) names in
              let pre = f.f_st in
              let nowz = z_of_int !clock in
              let e = z_of_int (!clock + 86400) in
              let r = ((nowz, List.map (fun g -> g.f_st.tp_segs) (existing f.f_inc)), List.map (fun g -> g.f_st.tp_segs) (existing f.f_exc)) in
              let effective = tp_roll_effective r pre in
              (* the view of the referenced periods the state reflects: the last round that recomputed (early-return form)
                 / every round (merge-in-every-round form) *)
              if effective || tp_src_merge_always then f.f_snap <- (snd (fst r), snd r);
              let lo = max f.f_n0 (!clock - 3600) in
              let (base, tab) = !zone in
              let rg = List.map (fun (_, dd, trs) -> (dd, trs)) f.f_ranges in
              let own_at t =
                if f.f_ranges = [] then tp_inside_segs f.f_own (z_of_int t)
                else match Hashtbl.find_opt f.f_own_at t with
                  | Some b -> b
                  | None ->
                    let b = tp_spec_inside (tp_tab_off base tab) (tp_tab_mk base tab) false None tp_back rg (z_of_int t) in
                    Hashtbl.replace f.f_own_at t b; b in
              let verdict =
                if not (tp_ins_ok post probes ins) then Some "rolling is_inside-answers-disagree-with-observed-segments"
                else if not (tp_covers_b post (z_of_int lo) (if effective then e else tp_ve_num pre)) then
                  Some "rolling window (valid_begin later than one hour before the round, or valid_end short of now + 24 h)"
                else if effective && f.f_ranges <> []
                        && not (tp_cal_hyps_ok tp_src_stride_round tp_src_lookback base tab rg (tp_ve_num (tp_purge (z_of_int (!clock - 3600)) pre)) e) then
                  Some "calendar-hypotheses-not-met (table / exists-exactly-once check failed)"
                else begin
                  let (si, sx) = f.f_snap in
                  let answers = List.map2 (fun t o ->
                      ((z_of_int t, (o, own_at t)), (tp_inside_any si (z_of_int t), tp_inside_any sx (z_of_int t)))) !pts ins in
                  (* "outside" between the end of what a Start() on restored state produced and the restored valid_end is the
                     known class restart-keeps-valid-end: judged apart, everything else as before *)
                  let in_hole ((t, (o, _)), _) = match f.f_hole with
                    | Some (hl, hh) -> let t = int_of_z t in t >= hl && t <= hh && not o | None -> false in
                  let (holed, judged) = List.partition in_hole answers in
                  match tp_roll_answers_ok f.f_prefer (z_of_int lo) (tp_ve_num post) judged with
                  | None ->
                    (match tp_roll_answers_ok f.f_prefer (z_of_int lo) (tp_ve_num post) holed with
                     | Some t when !hole_hit = None ->
                       hole_hit := Some (Printf.sprintf "step=%d op=tp_timer name=%s now=%d violates-C08 restart-keeps-valid-end t=%s: reported outside although the definition says inside, between the end of what Start() computed and the valid_end restored from the state file" li name !clock (zs t))
                     | _ -> ());
                    None
                  | Some t -> Some (Printf.sprintf "rolling t=%s (IsInside differs from the statement inside the valid window)" (zs t))
                end in
              f.f_st <- post;
              (match verdict with
               | None -> ()
               | Some what -> fail (Printf.sprintf "step=%d op=tp_timer name=%s now=%d violates-C08 %s" li name !clock what))
            | _ -> fail (Printf.sprintf "step=%d unexpected-line %s" li l))
        | _ -> ()) !order
    | Some ("tp_own", a) -> (Hashtbl.find fx (str a "name" "")).f_own <- List.map parse_seg (split_c (str a "segs" "-") ',')
    | Some ("tp_range", a) ->
      if not (tp_printer_agrees a) then fail (Printf.sprintf "step=%d op=tp_range parse-roundtrip: the parser model does not return the parsed form the generator printed" li)
      else tp_apply_range (Hashtbl.find fx (str a "name" "")) a
    | Some ("tp_now", a) ->
      let f = Hashtbl.find fx (str a "name" "") in
      next li (fun l ->
        let want = tp_is_inside f.f_st (z_of_int !clock) in
        let got = tok_val (toks_of l) "is_inside" in
        if got <> Some (if want then "1" else "0") then
          fail (Printf.sprintf "step=%d op=now is_inside-attribute-disagrees-with-segments" li)
        else if f.f_active && !clock >= f.f_n0 then begin
          (* a started period at the present instant: the property read literally - "lies in an included / excluded
             period" is what that period's own definition says (recursively), whatever has been computed so far *)
          let (base, tab) = !zone in
          let tz = z_of_int !clock in
          let own_of g =
            if g.f_ranges = [] then tp_inside_segs g.f_own tz
            else tp_spec_inside (tp_tab_off base tab) (tp_tab_mk base tab) false None tp_back
                (List.map (fun (_, dd, trs) -> (dd, trs)) g.f_ranges) tz in
          let rec truth depth g =
            if depth > 6 || not g.f_active then None
            else
              let sub names = List.fold_left (fun acc n ->
                  match acc, Hashtbl.find_opt fx n with
                  | None, _ -> None
                  | acc, None -> acc                                   (* a name that does not exist is skipped *)
                  | Some b, Some h -> (match truth (depth + 1) h with Some x -> Some (b || x) | None -> None)) (Some false) names in
              match sub g.f_inc, sub g.f_exc with
              | Some i, Some x -> Some (tp_region_spec g.f_prefer (own_of g) i x)
              | _ -> None in
          match truth 0 f with
          | Some t when t <> want && (not want) && (match f.f_hole with Some (hl, hh) -> !clock >= hl && !clock <= hh | None -> false) ->
            if !hole_hit = None then
              hole_hit := Some (Printf.sprintf "step=%d op=now name=%s now=%d violates-C08 restart-keeps-valid-end: is_inside at the clock is false although the definition says inside, between the end of what Start() computed and the valid_end restored from the state file" li (str a "name" "") !clock)
          | Some t when t <> want ->
            let (si, sx) = f.f_snap in
            let snap = tp_region_spec f.f_prefer (own_of f) (tp_inside_any si tz) (tp_inside_any sx tz) in
            if snap = want then begin
              if !stale = None then
                stale := Some (Printf.sprintf "step=%d op=now name=%s now=%d violates-C08 stale-reference: is_inside at the clock differs from the statement and equals the statement with the referenced periods as they were when the period last recomputed" li (str a "name" "") !clock)
            end else
              fail (Printf.sprintf "step=%d op=now name=%s now=%d violates-C08 rolling now (is_inside at the clock differs from the statement)" li (str a "name" "") !clock)
          | _ -> ()
        end)
    | Some (("tp_add" | "tp_rm" | "tp_purge" | "tp_upd" | "tp_start") as opn, a) ->
      let name = str a "name" "" in
      let f = Hashtbl.find fx name in
      (* tp_start = UpdateRegion(now, now + 24 h, true) *)
      let zi k = if opn = "tp_start" then z_of_int (match k with "b" -> !clock | "e" -> !clock + 86400 | _ -> 0)
                 else z_of_int (tnum (str a k "0")) in
      next li (fun l ->
        match parse_state_line l with
        | Some (n, post, ins) when n = name ->
          let probes = List.map z_of_int !pts in
          let existing names = List.filter_map (fun n -> Hashtbl.find_opt fx n) names in
          let incs = List.map (fun g -> g.f_st.tp_segs) (existing f.f_inc) in
          let excs = List.map (fun g -> g.f_st.tp_segs) (existing f.f_exc) in
          let pre = f.f_st in
          let verdict =
            match opn with
            | "tp_add" -> if tp_step_ok tp_src_merge_always probes (TpOpAdd (zi "b", zi "e")) pre post ins then None else Some "add"
            | "tp_rm" -> if tp_step_ok tp_src_merge_always probes (TpOpRemove (zi "b", zi "e")) pre post ins then None else Some "remove"
            | "tp_purge" -> if tp_step_ok tp_src_merge_always probes (TpOpPurge (zi "t")) pre post ins then None else Some "purge"
            | _ ->
              let clear = opn = "tp_start" || num a "clear" 1 <> 0 in
              if opn = "tp_start" then begin
                f.f_active <- true; f.f_n0 <- !clock; f.f_snap <- (incs, excs);
                (* segments are half-open: the end of the last one is the first instant nothing was produced for; [now, now + 24 h] is Start()'s own region *)
                let produced = List.fold_left (fun m (_, e) -> max m (int_of_z e)) (!clock + 86400 + 1) post.tp_segs in
                f.f_hole <- (if int_of_z (tp_ve_num pre) >= produced && pre.tp_ve <> None then Some (produced, int_of_z (tp_ve_num pre)) else None)
              end;
              if f.f_ranges = [] then
                (if tp_step_ok tp_src_merge_always probes (TpOpUpdate (f.f_own, f.f_prefer, incs, excs, zi "b", zi "e", clear)) pre post ins
                 then None else Some "update-region")
              else begin
                let (base, tab) = !zone in
                let rg = List.map (fun (_, dd, trs) -> (dd, trs)) f.f_ranges in
                let noop = (not clear) && int_of_z (zi "e") < int_of_z (tp_ve_num pre) in
                if (not noop) && not (tp_cal_hyps_ok tp_src_stride_round tp_src_lookback base tab rg (tp_upd_begin (zi "b") clear pre) (zi "e")) then
                  Some "calendar-hypotheses-not-met (table / exists-exactly-once check failed)"
                else
                (* where to look is asked of the WRITTEN ranges of every period of the case (tp_spec_bounds), not of
                   anything the implementation produced *)
                let allr = Hashtbl.fold (fun _ g acc -> List.map (fun (_, dd, trs) -> (dd, trs)) g.f_ranges @ acc) fx [] in
                if opn = "tp_start" && not (tp_probes_cover probes (tp_spec_bounds base tab allr (zi "b") (z_of_int (nmax + 86400)))) then
                  Some "calendar t=0 class=7"
                else
                match tp_cal_step_ok base tab tp_src_merge_always allr rg
                        f.f_prefer incs excs (zi "b") (zi "e") clear probes pre post ins with
                | None -> None
                | Some (t, cls) -> Some (Printf.sprintf "calendar t=%s class=%s" (zs t) (zs (tp_class_name cls)))
              end in
          f.f_st <- post;
          (match verdict with
           | None -> ()
           | Some what -> fail (Printf.sprintf "step=%d op=%s name=%s violates-C08 %s" li opn name what))
        | _ -> fail (Printf.sprintf "step=%d unexpected-line %s" li l))
    | _ -> ()) script;
  (match !err with Some _ -> !err | None -> (match !stale with Some _ -> !stale | None -> !hole_hit))

let () =
  register_op "tp_pts" (fun a -> tp_pts := List.map tnum (split_c (List.hd a.pos) ','));
  register_op "tp_tz" (fun a ->
    tp_zone := (z_of_int (num a "base" 0),
                List.map (fun s -> match String.split_on_char ':' s with
                    | [t; o] -> (z_of_int (int_of_string t), z_of_int (int_of_string o)) | _ -> failwith "tab")
                  (split_c (str a "tab" "-") ','));
    emit "tp_tz ok");
  register_op "tp_mk" (fun a ->
    let (base, tab) = !tp_zone in
    let ls = split_c (str a "l" "-") ',' in
    emit ("tp_mk r=" ^ (if ls = [] then "-" else
      String.concat "," (List.map (fun s -> zs (tp_tab_mk base tab (z_of_int (int_of_string s)))) ls))));
  register_op "tp_parse" (fun a ->
    emit ("tp_parse res=" ^ (if tp_validate a then "ok" else "rejected")));
  register_op "tp_new" (fun a -> Hashtbl.replace tp_tab (str a "name" "") (tp_new_fix a); tp_order := !tp_order @ [str a "name" ""]);
  register_op "tp_start" op_tp_start;
  register_op "tp_reload" op_tp_reload;
  register_op "tp_timer" op_tp_timer;
  register_op "tp_own" (fun a -> (tp_get a).f_own <- List.map parse_seg (split_c (str a "segs" "-") ','));
  register_op "tp_range" (fun a -> tp_apply_range (tp_get a) a);
  register_op "tp_add" (fun a -> let f = tp_get a in
    f.f_st <- tp_add (z_of_int (tnum (str a "b" "0"))) (z_of_int (tnum (str a "e" "0"))) f.f_st; tp_emit_state a);
  register_op "tp_rm" (fun a -> let f = tp_get a in
    f.f_st <- tp_remove true (z_of_int (tnum (str a "b" "0"))) (z_of_int (tnum (str a "e" "0"))) f.f_st; tp_emit_state a);
  register_op "tp_purge" (fun a -> let f = tp_get a in
    f.f_st <- tp_purge (z_of_int (tnum (str a "t" "0"))) f.f_st; tp_emit_state a);
  register_op "tp_upd" op_tp_upd;
  register_op "tp_now" (fun a -> let f = tp_get a in
    emit (Printf.sprintf "tp_now %s is_inside=%s" (str a "name" "") (if tp_is_inside f.f_st (z_of_int !now) then "1" else "0")));
  register_case_end (fun () -> Hashtbl.reset tp_tab; tp_pts := []; tp_order := []);
  register_oracle "C08" oracle_c08_case
