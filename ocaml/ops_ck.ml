open Model
open Vcore

(* ---------------- checkable fixture (C01 ...) ---------------- *)
let ck_cfg = ref { c_kind = KHost; c_max = z_of_int 3; c_volatile = false }
let ck_st = ref pending
let sstate_of_int = function 0 -> SOK | 1 -> SWarning | 2 -> SCritical | _ -> SUnknown
let triple (a, b, c) = Printf.sprintf "%s/%s/%s" (zs (fst a)) (zs (snd a)) (zs c) [@@warning "-27"]
let vars ((a, b), c) = Printf.sprintf "%s/%s/%s" (zs a) (zs b) (zs c)

let op_ck_new a =
  ck_cfg := { c_kind = (if str a "kind" "host" = "svc" then KService else KHost);
              c_max = z_of_int (num a "max" 3); c_volatile = (num a "vol" 0 <> 0) };
  ck_st := pending

let state_line k (s : st) =
  Printf.sprintf "st=%s ty=%s at=%s lh=%s" (zs (api_state k s.s_raw)) (zs (stype_num s.s_type)) (zs s.s_attempt)
    (zs (api_state k s.s_last_hard_raw))

let op_cr a =
  if str a "on" "" = "host" then emit "hostcr 0" else begin
  let r = { r_state = sstate_of_int (num a "state" 0);
            r_start = z_of_int (if has a "start" then tnum (str a "start" "0") else !now);
            r_end = z_of_int (if has a "end" then tnum (str a "end" "0") else !now) } in
  let pre = !ck_st in
  let (post, io) = step !ck_cfg (z_of_int !now) pre r in
  ck_st := post;
  let k = (!ck_cfg).c_kind in
  match io with
  | None -> emit (Printf.sprintf "cr res=3 %s" (state_line k post))
  | Some i ->
    let o = observe !ck_cfg pre post i in
    let b = Buffer.create 80 in
    Buffer.add_string b (Printf.sprintf "cr res=0 st=%s ty=%s at=%s lh=%s ph=%s vb=%s va=%s"
      (zs o.o_state) (zs o.o_type) (zs o.o_attempt) (zs o.o_last_hard) (zs o.o_prev_hard)
      (match o.o_vars_before with None -> "-" | Some v -> vars v) (vars o.o_vars_after));
    if ev_on "ncr" then Buffer.add_string b " ncr";
    if ev_on "sc" then (match int_of_z o.o_event with 2 -> Buffer.add_string b " sc=H" | 1 -> Buffer.add_string b " sc=S" | _ -> ());
    emit (Buffer.contents b)
  end


(* ---- concurrent results (coq/Ck/CkConc.v): the outcomes depend on the thread schedule, vmodel prints the inputs only ---- *)
let int_list s = if s = "" then [] else List.map int_of_string (List.filter (fun x -> x <> "") (String.split_on_char ',' s))

let op_ck_conc a =
  let states = int_list (str a "states" "2,2") in
  emit (Printf.sprintf "ckc n=%d park=%s reps=%d obs=? pto=?" (List.length states) (str a "park" "-") (num a "reps" 100))

let conc_jobs a now =
  let states = int_list (str a "states" "2,2") in
  let ds = int_list (str a "d" "") in
  List.mapi (fun j sx ->
    let d = (try List.nth ds j with _ -> 0) in
    (z_of_int now, { r_state = sstate_of_int sx; r_start = z_of_int (now + d); r_end = z_of_int (now + d) })) states

(* one outcome "st.ty.at.lh/res:ncr:sc,..." -> Ok (fields, reports) | Error why *)
let conc_parse_outcome tok =
  match String.split_on_char '/' tok with
  | [f; ths] ->
    (match List.map int_of_string (String.split_on_char '.' f) with
     | [a1; a2; a3; a4] ->
       let bad = ref None in
       let outs = List.map (fun t ->
         match String.split_on_char ':' t with
         | [res; ncr; sc] ->
           (match res, ncr, sc with
            | "0", "1", "-" -> CcAccepted EvNone
            | "0", "1", "S" -> CcAccepted EvSoft
            | "0", "1", "H" -> CcAccepted EvHard
            | "3", "0", "-" -> CcRejected
            | _ -> bad := Some t; CcRejected)
         | _ -> bad := Some t; CcRejected) (String.split_on_char ',' ths) in
       (match !bad with
        | Some t -> Error ("events-or-result-code " ^ t)
        | None -> Ok ((((z_of_int a1, z_of_int a2), z_of_int a3), z_of_int a4), outs))
     | _ -> Error "fields"
     | exception _ -> Error "fields")
  | _ -> Error "shape"

(* 0 = explained by a serial order; 1 = event kinds only (second load of the state type); 2 = accepted calls in some
   order explain the fields but no serial order does (second critical section for last_check_result); 3 = neither *)
let conc_judge cfg s0 js tok =
  match conc_parse_outcome tok with
  | Error why -> (3, why)
  | Ok (fin, outs) ->
    if List.length outs <> List.length js then (3, "thread-count") else
    if cc_strict_ok cfg s0 js fin outs then (0, "") else
    let relaxed = cc_relaxed_ok cfg s0 js fin outs in
    let noev = cc_strict_noev_ok cfg s0 js fin outs in
    if relaxed && noev && cc_cfg_now.cc_ev_reread then (1, "")
    else if relaxed && (not noev) && cc_cfg_now.cc_cr_split then (2, "")
    else (3, if relaxed then "shape-of-the-tree-excludes-it" else "lost-update-or-foreign-state")

let oracle_c01_case script trace =
  (* script: op lines; trace: implementation observation lines *)
  let cfg = ref { c_kind = KHost; c_max = z_of_int 3; c_volatile = false } in
  let now = ref 0 in
  let steps = ref [] in           (* accepted osteps, newest first *)
  let last_start = ref None in
  let last_state = ref "" in
  let mst = ref pending in        (* model state, for the start state of ck_conc *)
  let err = ref None in
  let tr = ref trace in
  let fail m = if !err = None then err := Some m in
  List.iteri (fun li line ->
    match parse_line line with
    | Some (("ck_new" | "ckf_new"), a) -> cfg := { c_kind = (if str a "kind" "host" = "svc" then KService else KHost);
                                     c_max = z_of_int (num a "max" 3); c_volatile = (num a "vol" 0 <> 0) };
                                     mst := pending
    | Some ("ck_conc", a) ->
      (match !tr with
       | [] -> fail (Printf.sprintf "step=%d missing-observation" li)
       | l :: rest ->
         tr := rest;
         if is_bad_line l then fail (Printf.sprintf "step=%d crash %s" li l) else begin
           let t = toks_of l in
           if List.hd t <> "ckc" then fail (Printf.sprintf "step=%d crash unexpected-line %s" li l) else
           match tok_val t "obs" with
           | None | Some "" -> fail (Printf.sprintf "step=%d crash no-outcomes %s" li l)
           | Some obs ->
             let js = conc_jobs a !now in
             let worst = ref (0, "", "") in
             List.iter (fun tok ->
               let (k, why) = conc_judge !cfg !mst js tok in
               let (wk, _, _) = !worst in
               if k > wk then worst := (k, tok, why)) (String.split_on_char '|' obs);
             (match !worst with
              | (1, tok, _) -> fail (Printf.sprintf "kind=conc-event-reread outcome=%s (fields.../result:new-result-events:state-change-events per thread) step=%d" tok li)
              | (2, tok, _) -> fail (Printf.sprintf "kind=conc-cr-gap outcome=%s (fields.../result:new-result-events:state-change-events per thread) step=%d" tok li)
              | (3, tok, why) -> fail (Printf.sprintf "kind=conc-not-serialisable outcome=%s why=%s violates-C01 step=%d" tok why li)
              | _ -> ())
         end)
    | Some ("now", a) -> now := tnum (List.hd a.pos)
    | Some (("ack" | "unack" | "ackread" | "cmtimer" | "dt_add" | "dt_remove" | "dt_starttimer" | "dt_cleanup"
            | "fire" | "parent" | "pause" | "nextcheck") as opn, _) ->
      (* combined fixture (CkLayer.v: C01_full_other_ops): no other operation touches state / state type / attempt *)
      (match !tr with
       | [] -> fail (Printf.sprintf "step=%d missing-observation" li)
       | l :: rest ->
         tr := rest;
         if is_bad_line l then fail (Printf.sprintf "step=%d crash %s" li l) else begin
           let t = toks_of l in
           let stline = String.concat " " (List.filter (fun x -> List.exists (fun p -> String.length x > 3 && String.sub x 0 3 = p) ["st="; "ty="; "at="; "lh="]) t) in
           if !last_state <> "" && stline <> !last_state then
             fail (Printf.sprintf "step=%d layering %s-changed-state" li opn)
         end)
    | Some (("cr" | "crf") as opn, a) when str a "on" "" <> "host" ->
      (match !tr with
       | [] -> fail (Printf.sprintf "step=%d missing-observation" li)
       | l :: rest ->
         tr := rest;
         if is_bad_line l then fail (Printf.sprintf "step=%d crash %s" li l) else begin
         let t = toks_of l in
         let geti k = match tok_val t k with Some v -> int_of_string v | None -> -1 in
         (* combined fixture: a rejected (stale) result raises no new-result event *)
         let res = if opn = "crf" then (if List.mem "ncr" t then 0 else 3) else geti "res" in
         let start = if has a "start" then tnum (str a "start" "0") else !now in
         if opn = "cr" then begin
           let r = { r_state = sstate_of_int (num a "state" 0); r_start = z_of_int start;
                     r_end = z_of_int (if has a "end" then tnum (str a "end" "0") else !now) } in
           mst := fst (step !cfg (z_of_int !now) !mst r)
         end;
         let stale = (match !last_start with Some ls -> ls <= !now && start < ls | None -> false) in
         let stline = String.concat " " (List.filter (fun x -> List.exists (fun p -> String.length x > 3 && String.sub x 0 3 = p) ["st="; "ty="; "at="; "lh="]) t) in
         if res = 3 then begin
           if not stale then fail (Printf.sprintf "step=%d rejected-but-not-stale" li);
           if stline <> !last_state then fail (Printf.sprintf "step=%d rejected-result-changed-state" li)
         end else if res = 0 then begin
           if stale then fail (Printf.sprintf "step=%d stale-result-accepted" li);
           last_start := Some start; last_state := stline;
           let ev = match tok_val t "sc" with Some "H" -> 2 | Some "S" -> 1 | _ -> 0 in
           steps := { os_result = sstate_of_int (num a "state" 0); os_type = z_of_int (geti "ty");
                      os_attempt = z_of_int (geti "at"); os_state = z_of_int (geti "st"); os_event = z_of_int ev } :: !steps
         end else fail (Printf.sprintf "step=%d unexpected-result-code-%d" li res)
         end)
    | _ -> ()) script;
  match !err with
  | Some m -> Some m
  | None ->
    (match oracle_c01 !cfg (List.rev !steps) with
     | None -> None
     | Some idx -> Some (Printf.sprintf "accepted-result=%s violates-C01" (zs idx)))


let () =
  register_op "ck_new" op_ck_new;
  register_op "cr" op_cr;
  register_op "ck_conc" op_ck_conc;
  register_oracle "C01" oracle_c01_case
