(* C19 (sandbox): the extracted evaluator [sb_eval] over the extracted current facts table predicts, per probe,
   "stopped before the marker / marker reached", whether the protected component changes and whether a hidden
   value is fetched.  Hand-written glue: names <-> N, building the AST/store that mirrors the harness fixture. *)
open Model
open Vcore

(* ---- names: base-256 numbers of the ASCII spelling ---- *)
let n_of_str (s : String.t) : n =
  let bits = ref [] in
  String.iter (fun ch -> let c = Char.code ch in for i = 7 downto 0 do bits := ((c lsr i) land 1 = 1) :: !bits done) s;
  let bits = List.rev !bits in
  let rec drop = function false :: r -> drop r | l -> l in
  match drop bits with
  | [] -> N0
  | _ :: rest -> Npos (List.fold_left (fun p b -> if b then XI p else XO p) XH rest)
let str_of_n (x : n) : String.t =
  match x with
  | N0 -> ""
  | Npos p ->
    let rec bits p acc = match p with XH -> true :: acc | XO q -> bits q (false :: acc) | XI q -> bits q (true :: acc) in
    let b = bits p [] in
    let pad = (8 - (List.length b mod 8)) mod 8 in
    let b = List.init pad (fun _ -> false) @ b in
    let buf = Buffer.create 16 in
    let rec go = function
      | b7 :: b6 :: b5 :: b4 :: b3 :: b2 :: b1 :: b0 :: r ->
        let v = List.fold_left (fun a x -> a * 2 + (if x then 1 else 0)) 0 [b7; b6; b5; b4; b3; b2; b1; b0] in
        Buffer.add_char buf (Char.chr v); go r
      | _ -> () in
    go b; Buffer.contents buf
let rec nat_of_int k = if k <= 0 then O else S (nat_of_int (k - 1))

let nm = n_of_str
let lit_s s = SbLiteral (SbLStr (nm s))
let var s = SbVariable (nm s, [])
let lnum = SbLiteral SbLNum
let marker = SbThrow (lit_s "SBMARK")

let ty_array = nm "Array" and ty_dict = nm "Dictionary" and ty_ns = nm "Namespace" and ty_host = nm "Host"

(* ---- the model counterpart of the harness fixture ----
   shared heap: 0 globals, 1 SbArr, 2 SbDict, 3 the Host object sbh, 4 host.vars, 5 receiver of shared method calls *)
let fixture (extra_globals : (sb_name * sb_val) list) (recv_ty : sb_name) (obj_fields : (sb_name * sb_val) list) =
  let globals =
    [ (nm "SbArr", SbVObj (ty_array, SbShared (nat_of_int 1)));
      (nm "SbDict", SbVObj (ty_dict, SbShared (nat_of_int 2)));
      (nm "Host", SbVType ty_host);
      (nm "sbrecv", SbVObj (recv_ty, SbShared (nat_of_int 5))) ] @ extra_globals in
  { sbs_shared = [ globals; [ (N0, SbVOpaque) ]; [ (nm "a", SbVOpaque) ]; [ (nm "vars", SbVObj (ty_dict, SbShared (nat_of_int 4))) ];
                   [ (nm "os", SbVOpaque) ]; obj_fields ];
    sbs_extern = []; sbs_local = [ [ (nm "host", SbVObj (ty_host, SbShared (nat_of_int 3))); (nm "obj", SbVObj (ty_host, SbShared (nat_of_int 3))) ] ];
    sbs_calls = []; sbs_reads = []; sbs_choices = [] }

(* [sbfr_top]: is the frame on top of the frame stack sandboxed while the user's code runs - from the source facts
   (frame declarations of GetFilterTargets/FilteredAddTarget/EvaluateFilter, ProcessEvent, Push, ExecuteScriptHelper) *)
let frame_of_o mode (outer : bool list) =
  if mode = "console" then
    { sbfr_sandboxed = sb_cur_console_flag outer; sbfr_top = sb_cur_console_top outer; sbfr_self = SbVObj (ty_dict, SbLocal O);
      sbfr_locals = Some (SbVObj (ty_dict, SbLocal O)) }
  else if mode = "filter" || mode = "filterperm" then
    { sbfr_sandboxed = sb_cur_filter_flag outer; sbfr_top = sb_cur_filter_top outer; sbfr_self = SbVObj (ty_ns, SbLocal O); sbfr_locals = None }
  else
    { sbfr_sandboxed = (if mode = "inbox" then sb_cur_inbox_flag outer else sb_cur_event_flag outer);
      sbfr_top = (if mode = "inbox" then sb_cur_inbox_top outer else sb_cur_event_top outer);
      sbfr_self = SbVObj (ty_ns, SbLocal O); sbfr_locals = Some (SbVObj (ty_dict, SbLocal O)) }
(* [outer]: the Sandboxed flags of the script frames already on the thread's stack when the entry point is called (probe token
   outer=1: a non-sandboxed ScriptFrame, outer=2: the frame of a native run through Function::Invoke - also non-sandboxed) *)
let outer_of (a : args) : bool list = if num a "outer" 0 <> 0 then [ false ] else []

(* ---- statement forms: AST with the sub-expression [m] where the generator puts the marker resp. a plain value ---- *)
let glob = SbGetScope SbScopeGlobal
let form_ast (form : String.t) (m : sb_expr) : sb_expr option =
  let wrap e = SbArray [ e; m ] in        (* [ e, m ] *)
  match form with
  | "set_local" -> Some (SbSet (false, false, var "x", m))
  | "set_global" -> Some (SbSet (false, false, SbIndexer (glob, lit_s "SbG"), m))
  | "set_objattr" -> Some (SbSet (false, false, SbIndexer (SbIndexer (var "host", lit_s "vars"), lit_s "os"), m))
  | "set_shared_elem" -> Some (SbSet (false, false, SbIndexer (var "SbDict", lit_s "a"), m))
  | "set_add" -> Some (SbSet (false, true, var "SbArr", m))
  | "var" -> Some (sb_parse_var false (var "x") m)
  | "const" -> Some (SbSetConst (nm "SbC", m))
  | "namespace" -> Some (SbSet (false, false, SbIndexer (glob, lit_s "SbN"), SbNamespace m))
  | "function" -> Some (SbSet (false, false, SbIndexer (glob, lit_s "sbf"), SbFunction ([], [ m ], lnum)))
  | "apply" -> Some (SbApply m)
  | "object" | "template" -> Some (SbObject (var "Host", m))
  | "import" -> Some (SbImport (m, SbLiteral SbLEmpty))
  | "include" | "include_recursive" | "include_zones" -> Some (SbInclude (m, SbLiteral SbLEmpty))
  | "library" -> Some (SbLibrary m)
  | "for" -> Some (SbFor (nm "x", m, SbLiteral SbLEmpty))
  | "while" -> Some (SbWhile (m, SbBreak))
  | "dict_literal" -> Some (sb_parse_dict [ SbSet (false, false, var "a", m) ])     (* the parser: BindToScope(.., ScopeThis) *)
  (* forms that are not refused: the marker is reached / the plain form evaluates *)
  | "try" -> Some (SbTryExcept (SbThrow (lit_s "x"), m))
  | "using" -> Some m
  | "debugger" -> Some (SbDict (true, [ SbBreakpoint; m ]))
  | "throw" -> Some (SbDict (true, [ m; SbThrow (lit_s "x") ]))
  | "if" -> Some (SbConditional (m, lnum, Some lnum))
  | "return" -> Some (SbReturn m)
  | "lambda" -> Some (wrap (SbFunction ([ nm "x" ], [], var "x")))
  | "closure" -> Some (wrap (SbFunction ([], [], lnum)))
  | "ref" -> Some (wrap (SbRef (var "SbArr")))
  | "deref" -> Some (wrap (SbDeref (SbRef (var "SbArr"))))
  | "empty_dict" -> Some (wrap (SbDict (false, [])))
  | "array_literal" -> Some (wrap lnum)
  | "arith" -> Some (SbBinary (SbAdd, lnum, m))
  | "compare" -> Some (SbBinary (SbLessThan, lnum, m))
  | "in" -> Some (SbIn (m, SbArray [ lnum ]))
  | "not_in" -> Some (SbNotIn (m, SbArray [ lnum ]))
  | "and" -> Some (SbLogicalAnd (SbLiteral (SbLBool true), m))
  | "or" -> Some (SbLogicalOr (SbLiteral (SbLBool false), m))
  | "not" -> Some (SbLogicalNegate m)
  | "negate" -> Some (SbNegate m)
  | "indexer" -> Some (SbIndexer (var "SbDict", m))
  | "scope_this" -> Some (wrap (SbGetScope SbScopeThis))
  | "scope_locals" -> Some (wrap (SbGetScope SbScopeLocal))
  | "scope_globals" -> Some (wrap glob)
  | "read_attr" -> Some (wrap (SbIndexer (SbIndexer (var "host", lit_s "vars"), lit_s "os")))
  | _ -> None

(* ---- writers x positions x left-hand sides (kind=wpos): the syntax tree the parser builds for the probe text, from its
   description tokens.  Dictionary literals go through the extracted [sb_parse_dict] (BindToScope(.., ScopeThis)). ---- *)
let idx e k = SbIndexer (e, lit_s k)
let call f args = SbFunctionCall (f, args)
let this_ = SbGetScope SbScopeThis
let btrue = SbLiteral (SbLBool true) and bfalse = SbLiteral (SbLBool false)
let host_call = call (var "get_object") [ var "Host"; lit_s "sbh" ]
let hosts_call = call (var "get_objects") [ var "Host" ]
let scope es = SbDict (true, es)

let lhs_ast = function
  | "ident_new" -> Some (var "sbx") | "ident_global" -> Some (var "SbNum") | "strkey" -> Some (lit_s "sbk")
  | "this" -> Some (idx this_ "sbx") | "locals" -> Some (idx (SbGetScope SbScopeLocal) "sbx")
  | "globals_new" -> Some (idx glob "SbW") | "globals_num" -> Some (idx glob "SbNum")
  | "call_attr" -> Some (idx host_call "display_name") | "call_vars" -> Some (idx (idx host_call "vars") "num")
  | "call_idx_vars" -> Some (idx (idx (SbIndexer (hosts_call, lnum)) "vars") "num")
  | "call_idx_new" -> Some (idx (idx (SbIndexer (hosts_call, lnum)) "vars") "added")
  | "live_attr" -> Some (idx (idx (var "host") "vars") "num") | "live_dict" -> Some (idx (var "SbDict") "a")
  | "live_arr" -> Some (SbIndexer (var "SbArr", lnum)) | "live_ns" -> Some (idx (var "SbNs") "x")
  | "deref" -> Some (SbDeref (SbRef (idx glob "SbNum")))
  | "deref_call" -> Some (SbDeref (SbRef (idx (idx host_call "vars") "num")))
  | "nested_lhs" -> Some (idx (idx (idx glob "SbNest") "d") "z")
  | "array_root" -> Some (idx (SbIndexer (SbArray [ idx (var "SbNest") "d" ], lnum)) "z")
  | _ -> None

let writer_ast w op lhs =
  match w with
  | "set" -> (match lhs_ast lhs with Some l -> Some (SbSet (false, op <> "set", l, lit_s "sbv")) | None -> None)
  | "const" -> Some (SbSetConst (nm "SbWC", lnum))
  | "var" -> Some (sb_parse_var false (var "sbv") lnum)
  | "namespace" -> Some (SbSet (false, false, sb_bind_scope SbScopeGlobal (var "SbWN"), SbNamespace (scope [])))
  | "function" -> Some (SbSet (false, false, idx this_ "sbwf", SbFunction ([], [], scope [])))
  | "function_use" -> Some (SbSet (false, false, idx this_ "sbwf", SbFunction ([], [ lnum ], scope [])))
  | "for" | "for_kv" -> Some (SbFor (nm "q", SbArray [ lnum ], scope []))
  | "while" -> Some (SbWhile (bfalse, scope []))
  | "apply" -> Some (SbApply (lit_s "sbwa"))
  | "object" | "template" -> Some (SbObject (var "Host", lit_s "sbwo"))
  | "include" | "include_recursive" | "include_zones" -> Some (SbInclude (lit_s "/nonexistent", SbLiteral SbLEmpty))
  | "import" -> Some (SbImport (lit_s "sbtmpl", SbLiteral SbLEmpty))
  | "library" -> Some (SbLibrary (lit_s "methods"))
  | "using" -> Some (SbLiteral SbLEmpty)
  | _ -> None

let seta k v = SbSet (false, false, var k, v)
let form_w form w =
  match form with
  | "stmt" -> Some w
  | "dict" -> Some (sb_parse_dict [ w ])
  | "dict_after" -> Some (sb_parse_dict [ seta "sba" lnum; w ])
  | "dict_before" -> Some (sb_parse_dict [ w; seta "sbz" lnum ])
  | "dict_nested" -> Some (sb_parse_dict [ seta "sba" (sb_parse_dict [ w ]) ])
  | "dict_nested_arr" -> Some (sb_parse_dict [ seta "sba" (SbArray [ sb_parse_dict [ w ] ]) ])
  | "dict3" -> Some (sb_parse_dict [ seta "sba" (sb_parse_dict [ seta "sbb" (sb_parse_dict [ w ]) ]) ])
  | "if_true" -> Some (SbConditional (btrue, scope [ w ], None))
  | "if_else" -> Some (SbConditional (bfalse, scope [ lnum ], Some (scope [ w ])))
  | "else_if" -> Some (SbConditional (bfalse, scope [ lnum ], Some (SbConditional (btrue, scope [ w ], None))))
  | "try_body" -> Some (SbTryExcept (scope [ w ], scope [ lnum ]))
  | "try_except" -> Some (SbTryExcept (scope [ SbThrow (lit_s "x") ], scope [ w ]))
  | "lambda_call" -> Some (call (SbFunction ([], [], scope [ w ])) [])
  | "closure" | "function_body" -> Some (SbFunction ([], [], scope [ w ]))
  | "lambda_map" -> Some (call (idx (SbArray [ lnum ]) "map") [ SbFunction ([ nm "x" ], [], scope [ w ]) ])
  | "while_body" -> Some (SbWhile (btrue, scope [ w; SbBreak ]))
  | "for_body" -> Some (SbFor (nm "q", SbArray [ lnum ], scope [ w ]))
  | "namespace_body" -> Some (SbSet (false, false, idx glob "SbWNb", SbNamespace (scope [ w ])))
  | _ -> None

let ctx_w ctx r =
  let pre p = String.length ctx > String.length p && String.sub ctx 0 (String.length p) = p in
  let suf p = String.sub ctx (String.length p) (String.length ctx - String.length p) in
  match ctx with
  | "none" -> Some r
  | "array_elem" -> Some (SbArray [ lnum; r ])
  | "arg_len" -> Some (call (var "len") [ r ]) | "arg_json" -> Some (call (idx (var "Json") "encode") [ r ])
  | "arg_typeof" -> Some (call (var "typeof") [ r ]) | "arg_keys" -> Some (call (var "keys") [ r ])
  | "arg_match2" -> Some (call (var "match") [ lit_s "*"; r ]) | "arg_union2" -> Some (call (var "union") [ SbArray [ lnum ]; r ])
  | "cond_if" -> Some (SbConditional (r, scope [ lnum ], None)) | "cond_ternary" -> Some (SbConditional (r, lnum, Some lnum))
  | "ternary_then" -> Some (SbConditional (btrue, r, Some lnum)) | "ternary_else" -> Some (SbConditional (bfalse, lnum, Some r))
  | "and_rhs" -> Some (SbLogicalAnd (btrue, r)) | "or_rhs" -> Some (SbLogicalOr (bfalse, r))
  | "and_lhs" -> Some (SbLogicalAnd (r, btrue)) | "or_lhs" -> Some (SbLogicalOr (r, btrue))
  | "not" -> Some (SbLogicalNegate r) | "eq" -> Some (SbBinary (SbEqual, r, lnum)) | "plus" -> Some (SbBinary (SbAdd, lnum, r))
  | "in_lhs" -> Some (SbIn (r, SbArray [ lnum ])) | "in_rhs" -> Some (SbIn (lnum, r))
  | "receiver_len" -> Some (call (idx r "len") []) | "receiver_keys" -> Some (call (idx r "keys") [])
  | "receiver_contains" -> Some (call (idx r "contains") [ lit_s "a" ])
  | "index" -> Some (SbIndexer (var "SbDict", r)) | "member_of" -> Some (idx r "a")
  | "throw" -> Some (SbThrow r) | "use" -> Some (SbFunction ([], [ r ], scope [ lnum ]))
  | "using" -> Some (SbVariable (nm "sbfoo", [ r ])) | "deref" -> Some (SbDeref r)
  | "ctor" -> Some (call (var "String") [ r ]) | "call_arg_obj" -> Some (call (var "get_object") [ var "Host"; r ])
  | "try" -> Some (SbTryExcept (scope [ r ], scope [ lnum ]))
  | _ when pre "cb_" -> Some (call (idx (SbArray [ lnum; lnum ]) (suf "cb_")) [ r ])
  | _ when pre "recv_" -> Some (call (idx (SbArray [ r ]) (suf "recv_")) [ var "bool" ])
  | _ -> None

(* the fixture of these probes.  shared heap: 0 globals, 1 SbArr, 2 SbDict, 3 the Host sbh, 4 its vars, 5 SbNs, 6 SbNest,
   7 SbNest.d, 8 the Json namespace, 9 the console session's locals (shared between the requests of a session); local heap: 0 Self/Locals of the frame (binds `host` in filter mode), 1 the array
   get_objects(Host) hands back.  [ret]: what the (pure, hence opaque) natives of the left-hand side return. *)
let fixture_w (lhs : String.t) =
  let sh k = nat_of_int k in
  let o ty k = SbVObj (ty, SbShared (sh k)) in
  let native g r = (nm g, SbVFun (SbNative (nm r))) in
  let hostv = o ty_host 3 in
  let globals =
    [ (nm "SbArr", o ty_array 1); (nm "SbDict", o ty_dict 2); (nm "Host", SbVType ty_host); (nm "String", SbVType (nm "String"));
      (nm "SbNum", SbVBool false); (nm "SbNs", o ty_ns 5); (nm "SbNest", o ty_dict 6); (nm "Json", o ty_ns 8);
      native "get_object" "System#get_object"; native "get_objects" "System#get_objects"; native "len" "System#len";
      native "typeof" "System#typeof"; native "keys" "System#keys"; native "match" "System#match"; native "union" "System#union";
      native "bool" "System#bool" ] in
  let ret = if lhs = "call_idx_vars" || lhs = "call_idx_new" then SbVObj (ty_array, SbLocal (sh 1)) else hostv in
  { sbs_shared = [ globals; [ (N0, SbVBool false) ]; [ (nm "a", SbVBool false) ];
                   [ (nm "display_name", SbVBool false); (nm "vars", o ty_dict 4) ]; [ (nm "num", SbVBool false) ];
                   [ (nm "x", SbVBool false) ]; [ (nm "d", o ty_dict 7) ]; [ (nm "z", SbVBool false) ];
                   [ (nm "encode", SbVFun (SbNative (nm "Json#encode"))) ]; [ (nm "sbsession", SbVBool false) ] ];
    sbs_extern = []; sbs_local = [ [ (nm "host", hostv) ]; [ (N0, hostv) ] ];
    sbs_calls = []; sbs_reads = []; sbs_choices = List.init 12 (fun _ -> { sbc_b = false; sbc_v = ret }) }

(* ConsoleHandler::ExecuteScriptHelper: frame.Locals = frame.Self = the session's dictionary, which outlives the request *)
let frame_of_w mode outer =
  let fr = frame_of_o mode outer in
  if mode = "console" then
    let l = SbVObj (ty_dict, SbShared (nat_of_int 9)) in
    { fr with sbfr_self = l; sbfr_locals = Some l }
  else fr

let wpos_model (a : args) : (sb_expr * sb_st) option =
  let lhs = str a "lhs" "-" in
  match writer_ast (str a "w" "") (str a "op" "set") lhs with
  | None -> None
  | Some w ->
    (match form_w (str a "form" "") w with
     | None -> None
     | Some r -> (match ctx_w (str a "ctx" "none") r with Some e -> Some (e, fixture_w lhs) | None -> None))

let hexs a k = hex_dec (str a k "-")
let num_of a = num a "marker" 0 <> 0

(* AST + store of a probe, from the description tokens of the script line *)
let probe_model (a : args) : (sb_expr * sb_st) option =
  let mk = num_of a in
  let m = if mk then marker else lnum in
  match str a "kind" "" with
  | "wpos" -> wpos_model a
  | "form" ->
    (match form_ast (str a "form" "") m with
     | Some e -> Some (e, fixture [] ty_dict [])
     | None -> None)
  | "call" ->
    let fn = nm (hexs a "fn") and rty = nm (hexs a "rty") and key = lit_s (hexs a "key") in
    let cbname = hexs a "cbn" in
    let callee, extra =
      match str a "recv" "none" with
      | "none" -> SbVariable (fn, []), [ (fn, SbVFun (SbNative fn)) ]
      | "lit" ->
        let r =
          if rty = ty_array then SbArray [ lnum; lnum ]
          else if rty = ty_dict then SbDict (false, [])
          else if rty = nm "Boolean" then SbLiteral (SbLBool true)
          else if rty = nm "Number" then lnum
          else if rty = nm "String" then lit_s "abc"
          else SbFunctionCall (var "sbtype", []) in
        SbIndexer (r, key), [ (nm "sbtype", SbVType rty) ]
      | "type" -> SbIndexer (var "Host", key), []
      | "fn" -> SbIndexer (var "sbfn", key), [ (nm "sbfn", SbVFun (SbNative (nm "System#regex"))) ]
      | "ref" -> SbIndexer (SbRef (var "SbArr"), key), []
      | _ -> SbIndexer (var "sbrecv", key), [] in
    let extra = if cbname = "" then extra else (nm "sbcb", SbVFun (SbNative (nm cbname))) :: extra in
    let args =
      if mk then [ marker ]
      else match str a "cb" "none" with
        | "lambda" -> [ SbFunction ([ nm "x" ], [], var "x") ]
        | "native" -> [ var "sbcb" ]
        | _ ->
          (* [shpos]: the argument positions that hold a live shared container (the global array SbArr, shared cell 1):
             what a native that is not established pure can reach - and, in the model, write - through its arguments *)
          let sh = String.split_on_char ',' (str a "shpos" "-") in
          List.init (num a "nargs" 0) (fun q -> if List.mem (string_of_int q) sh then var "SbArr" else lnum) in
    Some (SbFunctionCall (callee, args), fixture extra rty [ (N0, SbVOpaque) ])
  | "ctor" ->
    let t = nm (hexs a "ty") in
    (* T(), T(1), T("a", 1): VMOps::ConstructorCall -> type->Instantiate(args) *)
    Some ((if mk then SbFunctionCall (var "sbtype", [ marker ])
           else SbFunctionCall (var "sbtype", List.init (num a "nargs" 0) (fun _ -> lnum))),
          fixture [ (nm "sbtype", SbVType t) ] ty_dict [])
  | "read" ->
    let t = nm (hexs a "ty") and f = hexs a "field" in
    let e = SbIndexer (var "sbrecv", lit_s f) in
    Some ((if mk then SbArray [ e; marker ] else e), fixture [] t [ (nm f, SbVOpaque) ])
  | "global" ->
    let g = nm (hexs a "name") in
    let e = SbVariable (g, []) in
    Some ((if mk then SbArray [ e; marker ] else e), fixture [ (g, SbVOpaque) ] ty_dict [])
  | "using" ->
    (* `using <object>` followed by the bare name of one of its fields *)
    let t = nm (hexs a "ty") and f = hexs a "field" in
    let e = SbVariable (nm f, [ var "sbrecv" ]) in
    Some ((if mk then SbArray [ e; marker ] else e), fixture [] t [ (nm f, SbVOpaque) ])
  | "retobj" ->
    (* the expression itself only hands back a reference; what the console handler then serialises is outside
       the evaluator (finding F-C19-c) *)
    Some (var "sbrecv", fixture [] (nm (hexs a "ty")) [ (nm "password", SbVOpaque) ])
  | _ -> None

let verdict_str r = match int_of_z (match sb_verdict_of r with N0 -> Z0 | Npos p -> Zpos p) with
  | 1 -> "allowed" | 2 -> "stopped"
  | _ -> (match r with SbRErr _ -> "stopped" | SbRFuel -> "fuel" | _ -> "ok")

let op_sb_probe a =
  let mode = str a "mode" "console" in
  let id = str a "id" "0" in
  match probe_model a with
  | None -> emit (Printf.sprintf "sb_probe id=%s mode=%s MODEL-UNKNOWN-PROBE" id mode)
  | Some (e, s) ->
    let fr = if str a "kind" "" = "wpos" then frame_of_w mode (outer_of a) else frame_of_o mode (outer_of a) in
    let (r, s') = sb_eval sb_cur_facts (nat_of_int 40) fr e s in
    let changed = (s'.sbs_shared <> s.sbs_shared) || (s'.sbs_extern <> s.sbs_extern) in
    (* the console handler serialises the returned object with all its fields: modelled here, outside the evaluator *)
    let console_reads = match r with
      | SbROk v when mode = "console" -> sb_console_result sb_cur_facts sb_cur_console_returns_hidden v
      | _ -> [] in
    let hidden = (s'.sbs_reads <> s.sbs_reads) || (str a "kind" "" = "retobj" && console_reads <> []) in
    let v = if num_of a then (let v = verdict_str r in
                                if (mode = "event" || mode = "inbox") && v <> "allowed" then "nomark" else v) else "-" in
    emit (Printf.sprintf "sb_probe id=%s mode=%s verdict=%s changed=%d hidden=%d" id mode v
            (if changed then 1 else 0) (if hidden then 1 else 0))

(* the live registry is enumerated by the harness; per live function the model says what the SOURCE FACTS say *)
let op_sb_enum _ = ()
let op_sb_fn a =
  let name = hexs a "name" in
  let flag = match List.assoc_opt (nm name) sb_cur_facts.sbf_funcs with
    | Some true -> "1" | Some false -> "0" | None -> "?" in
  emit (Printf.sprintf "fn name=%s safe=%s" name flag)

(* ---- oracle over implementation traces ---- *)
let libs_unused = sb_cur_func_libs
let oracle_c19 script trace =
  let tr = ref (List.filter (fun l -> not (String.length l > 1 && String.sub l 0 2 = "# ") &&
                                      not (String.length l > 2 && String.sub l 0 3 = "fn ")) trace) in
  ignore libs_unused;
  let err = ref None in
  let fail m = if !err = None then err := Some m in
  List.iter (fun line ->
      match parse_line line with
      | Some ("sb_probe", a) ->
        (match !tr with
         | [] -> fail (Printf.sprintf "probe=%s clause=crash missing-observation" (str a "id" "?"))
         | l :: rest ->
           tr := rest;
           let t = toks_of l in
           let bad = is_bad_line l || tok_val t "changed" = None in
           let get k = match tok_val t k with Some v -> v | None -> "" in
           let o = { sbo_bad = bad; sbo_changed = (get "changed" = "1"); sbo_hidden = (get "hidden" = "1");
                     sbo_unsafe_call = (str a "kind" "" = "call" && get "verdict" = "allowed" && str a "lsafe" "1" = "0") } in
           (match sb_oracle o with
            | None -> ()
            | Some k ->
              let clause = match int_of_z (match k with N0 -> Z0 | Npos p -> Zpos p) with
                | 1 -> "changed" | 2 -> "hidden" | 3 -> "unsafe-call" | _ -> "crash" in
              let what = match str a "kind" "" with
                | "form" -> "form:" ^ str a "form" ""
                | "wpos" -> (if str a "w" "" = "set" then "set-" ^ str a "op" "" ^ "-" ^ str a "lhs" "" else str a "w" "")
                            ^ "@" ^ str a "form" "" ^ (if str a "ctx" "none" = "none" then "" else "." ^ str a "ctx" "")
                | "call" -> "call:" ^ hexs a "fn"
                | "ctor" -> "construct:" ^ hexs a "ty"
                | "read" -> "read:" ^ hexs a "ty" ^ "." ^ hexs a "field"
                | "using" -> "using:" ^ hexs a "ty" ^ "." ^ hexs a "field"
                | "global" -> "global:" ^ hexs a "name"
                | "retobj" -> "retobj:" ^ hexs a "ty"
                | k -> k in
              fail (Printf.sprintf "probe=%s clause=%s what=%s mode=%s diff=%s" (str a "id" "?") clause what (str a "mode" "")
                      (get "i_diff"))))
      | Some ("sb_fn", a) ->
        (* a live function the source facts do not know, or know with another flag, is a correspondence matter *)
        ()
      | _ -> ()) script;
  (match !tr with l :: _ when is_bad_line l -> fail ("clause=crash " ^ l) | _ -> ());
  !err

let () =
  register_op "sb_probe" op_sb_probe;
  register_op "sb_enum" op_sb_enum;
  register_op "sb_fn" op_sb_fn;
  register_oracle "C19" oracle_c19
