(* C19 (sandbox): the extracted evaluator [sb_eval] over the extracted current facts table predicts, per probe,
   "stopped before the marker / marker reached", whether the protected component changes and whether a hidden
   value is fetched.  Hand-written glue: names <-> N, building the AST/store that mirrors the harness fixture. *)
open Model
open Vcore

(* ---- names: base-256 numbers of the ASCII spelling ---- *)
let n_of_str (s : String.t) : n =
  let bits = ref [] in
  String.iter (fun ch -> let c = Char.code ch in for i = 7 downto 0 do bits := ((c lsr i) land 1 = 1) :: !bits done) s;
  let bits = List.rev !bits in
  let rec drop = function false :: r -> drop r | l -> l in
  match drop bits with
  | [] -> N0
  | _ :: rest -> Npos (List.fold_left (fun p b -> if b then XI p else XO p) XH rest)
let str_of_n (x : n) : String.t =
  match x with
  | N0 -> ""
  | Npos p ->
    let rec bits p acc = match p with XH -> true :: acc | XO q -> bits q (false :: acc) | XI q -> bits q (true :: acc) in
    let b = bits p [] in
    let pad = (8 - (List.length b mod 8)) mod 8 in
    let b = List.init pad (fun _ -> false) @ b in
    let buf = Buffer.create 16 in
    let rec go = function
      | b7 :: b6 :: b5 :: b4 :: b3 :: b2 :: b1 :: b0 :: r ->
        let v = List.fold_left (fun a x -> a * 2 + (if x then 1 else 0)) 0 [b7; b6; b5; b4; b3; b2; b1; b0] in
        Buffer.add_char buf (Char.chr v); go r
      | _ -> () in
    go b; Buffer.contents buf
let rec nat_of_int k = if k <= 0 then O else S (nat_of_int (k - 1))

let nm = n_of_str
let lit_s s = SbLiteral (SbLStr (nm s))
let var s = SbVariable (nm s, [])
let lnum = SbLiteral SbLNum
let marker = SbThrow (lit_s "SBMARK")

let ty_array = nm "Array" and ty_dict = nm "Dictionary" and ty_ns = nm "Namespace" and ty_host = nm "Host"

(* ---- the model counterpart of the harness fixture ----
   shared heap: 0 globals, 1 SbArr, 2 SbDict, 3 the Host object sbh, 4 host.vars, 5 receiver of shared method calls *)
let fixture (extra_globals : (sb_name * sb_val) list) (recv_ty : sb_name) (obj_fields : (sb_name * sb_val) list) =
  let globals =
    [ (nm "SbArr", SbVObj (ty_array, SbShared (nat_of_int 1)));
      (nm "SbDict", SbVObj (ty_dict, SbShared (nat_of_int 2)));
      (nm "Host", SbVType ty_host);
      (nm "sbrecv", SbVObj (recv_ty, SbShared (nat_of_int 5))) ] @ extra_globals in
  { sbs_shared = [ globals; [ (N0, SbVOpaque) ]; [ (nm "a", SbVOpaque) ]; [ (nm "vars", SbVObj (ty_dict, SbShared (nat_of_int 4))) ];
                   [ (nm "os", SbVOpaque) ]; obj_fields ];
    sbs_extern = []; sbs_local = [ [ (nm "host", SbVObj (ty_host, SbShared (nat_of_int 3))); (nm "obj", SbVObj (ty_host, SbShared (nat_of_int 3))) ] ];
    sbs_calls = []; sbs_reads = []; sbs_choices = [] }

(* [sbfr_top]: is the frame on top of the frame stack sandboxed while the user's code runs - from the source facts
   (frame declarations of GetFilterTargets/FilteredAddTarget/EvaluateFilter, ProcessEvent, Push, ExecuteScriptHelper) *)
let frame_of mode =
  if mode = "console" then
    { sbfr_sandboxed = true; sbfr_top = sb_cur_console_top; sbfr_self = SbVObj (ty_dict, SbLocal O);
      sbfr_locals = Some (SbVObj (ty_dict, SbLocal O)) }
  else if mode = "filter" || mode = "filterperm" then
    { sbfr_sandboxed = true; sbfr_top = sb_cur_filter_top; sbfr_self = SbVObj (ty_ns, SbLocal O); sbfr_locals = None }
  else
    { sbfr_sandboxed = true; sbfr_top = (if mode = "inbox" then sb_cur_inbox_top else sb_cur_event_top);
      sbfr_self = SbVObj (ty_ns, SbLocal O); sbfr_locals = Some (SbVObj (ty_dict, SbLocal O)) }

(* ---- statement forms: AST with the sub-expression [m] where the generator puts the marker resp. a plain value ---- *)
let glob = SbGetScope SbScopeGlobal
let form_ast (form : String.t) (m : sb_expr) : sb_expr option =
  let wrap e = SbArray [ e; m ] in        (* [ e, m ] *)
  match form with
  | "set_local" -> Some (SbSet (false, var "x", m))
  | "set_global" -> Some (SbSet (false, SbIndexer (glob, lit_s "SbG"), m))
  | "set_objattr" -> Some (SbSet (false, SbIndexer (SbIndexer (var "host", lit_s "vars"), lit_s "os"), m))
  | "set_shared_elem" -> Some (SbSet (false, SbIndexer (var "SbDict", lit_s "a"), m))
  | "set_add" -> Some (SbSet (true, var "SbArr", m))
  | "var" -> Some (SbSet (false, SbIndexer (SbGetScope SbScopeLocal, lit_s "x"), m))
  | "const" -> Some (SbSetConst (nm "SbC", m))
  | "namespace" -> Some (SbSet (false, SbIndexer (glob, lit_s "SbN"), SbNamespace m))
  | "function" -> Some (SbSet (false, SbIndexer (glob, lit_s "sbf"), SbFunction ([], [ m ], lnum)))
  | "apply" -> Some (SbApply m)
  | "object" | "template" -> Some (SbObject (var "Host", m))
  | "import" -> Some (SbImport (m, SbLiteral SbLEmpty))
  | "include" | "include_recursive" | "include_zones" -> Some (SbInclude (m, SbLiteral SbLEmpty))
  | "library" -> Some (SbLibrary m)
  | "for" -> Some (SbFor (nm "x", m, SbLiteral SbLEmpty))
  | "while" -> Some (SbWhile (m, SbBreak))
  | "dict_literal" -> Some (SbDict (false, [ SbSet (false, SbIndexer (SbGetScope SbScopeThis, lit_s "a"), m) ]))
  (* forms that are not refused: the marker is reached / the plain form evaluates *)
  | "try" -> Some (SbTryExcept (SbThrow (lit_s "x"), m))
  | "using" -> Some m
  | "debugger" -> Some (SbDict (true, [ SbBreakpoint; m ]))
  | "throw" -> Some (SbDict (true, [ m; SbThrow (lit_s "x") ]))
  | "if" -> Some (SbConditional (m, lnum, Some lnum))
  | "return" -> Some (SbReturn m)
  | "lambda" -> Some (wrap (SbFunction ([ nm "x" ], [], var "x")))
  | "closure" -> Some (wrap (SbFunction ([], [], lnum)))
  | "ref" -> Some (wrap (SbRef (var "SbArr")))
  | "deref" -> Some (wrap (SbDeref (SbRef (var "SbArr"))))
  | "empty_dict" -> Some (wrap (SbDict (false, [])))
  | "array_literal" -> Some (wrap lnum)
  | "arith" -> Some (SbBinary (SbAdd, lnum, m))
  | "compare" -> Some (SbBinary (SbLessThan, lnum, m))
  | "in" -> Some (SbIn (m, SbArray [ lnum ]))
  | "not_in" -> Some (SbNotIn (m, SbArray [ lnum ]))
  | "and" -> Some (SbLogicalAnd (SbLiteral (SbLBool true), m))
  | "or" -> Some (SbLogicalOr (SbLiteral (SbLBool false), m))
  | "not" -> Some (SbLogicalNegate m)
  | "negate" -> Some (SbNegate m)
  | "indexer" -> Some (SbIndexer (var "SbDict", m))
  | "scope_this" -> Some (wrap (SbGetScope SbScopeThis))
  | "scope_locals" -> Some (wrap (SbGetScope SbScopeLocal))
  | "scope_globals" -> Some (wrap glob)
  | "read_attr" -> Some (wrap (SbIndexer (SbIndexer (var "host", lit_s "vars"), lit_s "os")))
  | _ -> None

let hexs a k = hex_dec (str a k "-")
let num_of a = num a "marker" 0 <> 0

(* AST + store of a probe, from the description tokens of the script line *)
let probe_model (a : args) : (sb_expr * sb_st) option =
  let mk = num_of a in
  let m = if mk then marker else lnum in
  match str a "kind" "" with
  | "form" ->
    (match form_ast (str a "form" "") m with
     | Some e -> Some (e, fixture [] ty_dict [])
     | None -> None)
  | "call" ->
    let fn = nm (hexs a "fn") and rty = nm (hexs a "rty") and key = lit_s (hexs a "key") in
    let cbname = hexs a "cbn" in
    let callee, extra =
      match str a "recv" "none" with
      | "none" -> SbVariable (fn, []), [ (fn, SbVFun (SbNative fn)) ]
      | "lit" ->
        let r =
          if rty = ty_array then SbArray [ lnum; lnum ]
          else if rty = ty_dict then SbDict (false, [])
          else if rty = nm "Boolean" then SbLiteral (SbLBool true)
          else if rty = nm "Number" then lnum
          else if rty = nm "String" then lit_s "abc"
          else SbFunctionCall (var "sbtype", []) in
        SbIndexer (r, key), [ (nm "sbtype", SbVType rty) ]
      | "type" -> SbIndexer (var "Host", key), []
      | "fn" -> SbIndexer (var "sbfn", key), [ (nm "sbfn", SbVFun (SbNative (nm "System#regex"))) ]
      | "ref" -> SbIndexer (SbRef (var "SbArr"), key), []
      | _ -> SbIndexer (var "sbrecv", key), [] in
    let extra = if cbname = "" then extra else (nm "sbcb", SbVFun (SbNative (nm cbname))) :: extra in
    let args =
      if mk then [ marker ]
      else match str a "cb" "none" with
        | "lambda" -> [ SbFunction ([ nm "x" ], [], var "x") ]
        | "native" -> [ var "sbcb" ]
        | _ ->
          (* [shpos]: the argument positions that hold a live shared container (the global array SbArr, shared cell 1):
             what a native that is not established pure can reach - and, in the model, write - through its arguments *)
          let sh = String.split_on_char ',' (str a "shpos" "-") in
          List.init (num a "nargs" 0) (fun q -> if List.mem (string_of_int q) sh then var "SbArr" else lnum) in
    Some (SbFunctionCall (callee, args), fixture extra rty [ (N0, SbVOpaque) ])
  | "ctor" ->
    let t = nm (hexs a "ty") in
    Some ((if mk then SbFunctionCall (var "sbtype", [ marker ]) else SbFunctionCall (var "sbtype", [])),
          fixture [ (nm "sbtype", SbVType t) ] ty_dict [])
  | "read" ->
    let t = nm (hexs a "ty") and f = hexs a "field" in
    let e = SbIndexer (var "sbrecv", lit_s f) in
    Some ((if mk then SbArray [ e; marker ] else e), fixture [] t [ (nm f, SbVOpaque) ])
  | "global" ->
    let g = nm (hexs a "name") in
    let e = SbVariable (g, []) in
    Some ((if mk then SbArray [ e; marker ] else e), fixture [ (g, SbVOpaque) ] ty_dict [])
  | "using" ->
    (* `using <object>` followed by the bare name of one of its fields *)
    let t = nm (hexs a "ty") and f = hexs a "field" in
    let e = SbVariable (nm f, [ var "sbrecv" ]) in
    Some ((if mk then SbArray [ e; marker ] else e), fixture [] t [ (nm f, SbVOpaque) ])
  | "retobj" ->
    (* the expression itself only hands back a reference; what the console handler then serialises is outside
       the evaluator (finding F-C19-c) *)
    Some (var "sbrecv", fixture [] (nm (hexs a "ty")) [ (nm "password", SbVOpaque) ])
  | _ -> None

let verdict_str r = match int_of_z (match sb_verdict_of r with N0 -> Z0 | Npos p -> Zpos p) with
  | 1 -> "allowed" | 2 -> "stopped"
  | _ -> (match r with SbRErr _ -> "stopped" | SbRFuel -> "fuel" | _ -> "ok")

let op_sb_probe a =
  let mode = str a "mode" "console" in
  let id = str a "id" "0" in
  match probe_model a with
  | None -> emit (Printf.sprintf "sb_probe id=%s mode=%s MODEL-UNKNOWN-PROBE" id mode)
  | Some (e, s) ->
    let fr = frame_of mode in
    let (r, s') = sb_eval sb_cur_facts (nat_of_int 40) fr e s in
    let changed = (s'.sbs_shared <> s.sbs_shared) || (s'.sbs_extern <> s.sbs_extern) in
    (* the console handler serialises the returned object with all its fields: modelled here, outside the evaluator *)
    let console_reads = match r with
      | SbROk v when mode = "console" -> sb_console_result sb_cur_facts sb_cur_console_returns_hidden v
      | _ -> [] in
    let hidden = (s'.sbs_reads <> s.sbs_reads) || (str a "kind" "" = "retobj" && console_reads <> []) in
    let v = if num_of a then (let v = verdict_str r in
                                if (mode = "event" || mode = "inbox") && v <> "allowed" then "nomark" else v) else "-" in
    emit (Printf.sprintf "sb_probe id=%s mode=%s verdict=%s changed=%d hidden=%d" id mode v
            (if changed then 1 else 0) (if hidden then 1 else 0))

(* the live registry is enumerated by the harness; per live function the model says what the SOURCE FACTS say *)
let op_sb_enum _ = ()
let op_sb_fn a =
  let name = hexs a "name" in
  let flag = match List.assoc_opt (nm name) sb_cur_facts.sbf_funcs with
    | Some true -> "1" | Some false -> "0" | None -> "?" in
  emit (Printf.sprintf "fn name=%s safe=%s" name flag)

(* ---- oracle over implementation traces ---- *)
let libs_unused = sb_cur_func_libs
let oracle_c19 script trace =
  let tr = ref (List.filter (fun l -> not (String.length l > 1 && String.sub l 0 2 = "# ") &&
                                      not (String.length l > 2 && String.sub l 0 3 = "fn ")) trace) in
  ignore libs_unused;
  let err = ref None in
  let fail m = if !err = None then err := Some m in
  List.iter (fun line ->
      match parse_line line with
      | Some ("sb_probe", a) ->
        (match !tr with
         | [] -> fail (Printf.sprintf "probe=%s clause=crash missing-observation" (str a "id" "?"))
         | l :: rest ->
           tr := rest;
           let t = toks_of l in
           let bad = is_bad_line l || tok_val t "changed" = None in
           let get k = match tok_val t k with Some v -> v | None -> "" in
           let o = { sbo_bad = bad; sbo_changed = (get "changed" = "1"); sbo_hidden = (get "hidden" = "1");
                     sbo_unsafe_call = (str a "kind" "" = "call" && get "verdict" = "allowed" && str a "lsafe" "1" = "0") } in
           (match sb_oracle o with
            | None -> ()
            | Some k ->
              let clause = match int_of_z (match k with N0 -> Z0 | Npos p -> Zpos p) with
                | 1 -> "changed" | 2 -> "hidden" | 3 -> "unsafe-call" | _ -> "crash" in
              let what = match str a "kind" "" with
                | "form" -> "form:" ^ str a "form" ""
                | "call" -> "call:" ^ hexs a "fn"
                | "ctor" -> "ctor:" ^ hexs a "ty"
                | "read" -> "read:" ^ hexs a "ty" ^ "." ^ hexs a "field"
                | "using" -> "using:" ^ hexs a "ty" ^ "." ^ hexs a "field"
                | "global" -> "global:" ^ hexs a "name"
                | "retobj" -> "retobj:" ^ hexs a "ty"
                | k -> k in
              fail (Printf.sprintf "probe=%s clause=%s what=%s mode=%s diff=%s" (str a "id" "?") clause what (str a "mode" "")
                      (get "i_diff"))))
      | Some ("sb_fn", a) ->
        (* a live function the source facts do not know, or know with another flag, is a correspondence matter *)
        ()
      | _ -> ()) script;
  (match !tr with l :: _ when is_bad_line l -> fail ("clause=crash " ^ l) | _ -> ());
  !err

let () =
  register_op "sb_probe" op_sb_probe;
  register_op "sb_enum" op_sb_enum;
  register_op "sb_fn" op_sb_fn;
  register_oracle "C19" oracle_c19
