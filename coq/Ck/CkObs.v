(* What the correspondence run observes after each check result (C01 layer), and the
   executable property oracle that is run over the IMPLEMENTATION's traces. *)
From Icv Require Import Base.Tac Ck.CkState Ck.CkStateProofs.
Local Open Scope Z_scope.

Definition stype_num (t : stype) : Z := match t with Soft => 0 | Hard => 1 end.

(* API-level state: HostUp=0/HostDown=1 for hosts, the service state for services *)
Definition api_state (k : kind) (s : sstate) : Z :=
  match k with
  | KHost => if host_up s then 0 else 1
  | KService => sstate_num s
  end.

Definition event_num (e : event) : Z := match e with EvNone => 0 | EvSoft => 1 | EvHard => 2 end.

Record obs := {
  o_state : Z; o_type : Z; o_attempt : Z; o_last_hard : Z;
  o_prev_hard : Z;
  o_vars_before : option (Z * Z * Z);
  o_vars_after : Z * Z * Z;
  o_event : Z
}.

Definition vars_of (s : st) : Z * Z * Z := (sstate_num (s_raw s), stype_num (s_type s), s_attempt s).

Definition observe (c : cfg) (pre post : st) (i : info) : obs :=
  {| o_state := api_state (c_kind c) (s_raw post);
     o_type := stype_num (s_type post);
     o_attempt := s_attempt post;
     o_last_hard := api_state (c_kind c) (s_last_hard_raw post);
     o_prev_hard := i_prev_hard i;
     o_vars_before := if s_has_cr pre then Some (vars_of pre) else None;
     o_vars_after := vars_of post;
     o_event := event_num (i_event i) |}.

(* ---- the property as an executable check over an observed trace ----
   A trace is the list of accepted results (state fed, observation made), oldest first.
   [oracle_c01] returns the index (from 0) of the first step at which the statement of C01
   is falsified by the OBSERVATIONS, or None. *)

Record ostep := { os_result : sstate; os_type : Z; os_attempt : Z; os_state : Z; os_event : Z }.

Definition ok_step (c : cfg) (seen_ok : bool) (n : Z) (prev : option (sstate * Z)) (o : ostep) : bool :=
  let k := c_kind c in
  let r := os_result o in
  let okr := is_ok k r in
  (* universal invariants, required from the very first result *)
  let univ :=
    (if okr then (os_type o =? 1) && (os_attempt o =? 1) else true)
    && (if os_type o =? 1 then os_attempt o =? 1 else true)
    && (1 <=? os_attempt o) && (os_attempt o <=? c_max c)
    && (os_state o =? api_state k r) in
  (* characterisation, once an OK/Up result has been seen *)
  let seen' := seen_ok || okr in
  let n' := if okr then 0 else n + 1 in
  let chr :=
    if seen' then
      (os_type o =? stype_num (char_type c n')) && (os_attempt o =? char_attempt c n')
    else true in
  (* event rule: needs a previous step inside the characterised region *)
  let evr :=
    match prev with
    | Some (praw, ptype) =>
        if seen_ok && (negb (c_volatile c) || (ptype =? 1)) then
          let pre := {| s_raw := praw; s_type := if ptype =? 1 then Hard else Soft; s_attempt := 0;
                        s_last_hard_raw := SOK; s_hard_states := 0; s_soft_states := 0;
                        s_has_cr := true; s_cr_start := 0 |} in
          os_event o =? event_num (spec_event c pre r (if os_type o =? 1 then Hard else Soft))
        else true
    | None => true
    end in
  univ && chr && evr.

Fixpoint oracle_from (c : cfg) (seen_ok : bool) (n : Z) (nonok_run : Z) (prev : option (sstate * Z))
         (idx : Z) (t : list ostep) : option Z :=
  match t with
  | [] => None
  | o :: rest =>
      let okr := is_ok (c_kind c) (os_result o) in
      let run' := if okr then 0 else nonok_run + 1 in
      (* hard is reached after at most max consecutive non-OK results *)
      let within := if c_max c <=? run' then os_type o =? 1 else true in
      if ok_step c seen_ok n prev o && within then
        oracle_from c (seen_ok || okr) (if okr then 0 else n + 1) run'
                    (Some (os_result o, os_type o)) (idx + 1) rest
      else Some idx
  end.

Definition oracle_c01 (c : cfg) (t : list ostep) : option Z := oracle_from c false 0 0 None 0 t.
