(* The layering of the combined checkable model (DESIGN 1.6): the C01 layer (state / state type / attempt /
   event) of CkFull is EXACTLY CkState, whatever the flapping configuration, acknowledgement, downtimes,
   suppression bits, parent state and pause flag:
     - do_result computes its state layer by CkState.step and emits exactly the new-result / state-change
       events of that step (and rejects a stale result exactly when CkState.step does);
     - no other operation touches the state layer;
     - hence along every operation sequence the state layer is the CkState run over the results fed,
       and every C01 theorem transfers to the combined model. *)
From Icv Require Import Base.Tac Ck.CkState Ck.CkStateProofs Ck.CkFull Ck.CkAck Ck.CkAckProofs.
Local Open Scope Z_scope.

(* the events of the C01 layer *)
Definition ckl_is_st (x : out) : bool :=
  match x with ONewResult | OStateChange _ => true | _ => false end.

(* what CkState.step says should be emitted *)
Definition ckl_step_events (io : option info) : list out :=
  match io with Some i => [ONewResult; OStateChange (i_event i)] | None => [] end.

(* ---- outputs of the downtime machinery are downtime events ---- *)
Definition ckl_dtk (x : out) : Prop :=
  match x with ONotify NDowntimeStart | ONotify NDowntimeEnd | ODtTriggered _ | ODtRemoved _ => True | _ => False end.

Lemma ckl_trigger_dt fuel : forall now paused id t ds, Forall ckl_dtk (snd (trigger_dt fuel now paused id t ds)).
Proof.
  induction fuel as [|fuel IH]; intros now paused id t ds; cbn [trigger_dt]; [constructor|].
  destruct (find_dt id ds) as [d|]; [|constructor].
  destruct (negb (dt_can_be_triggered now d)); [constructor|].
  set (ds1 := if d_trigger d =? 0 then upd_trigger id t ds else ds). clearbody ds1.
  assert (forall l acc, Forall ckl_dtk (snd acc) ->
            Forall ckl_dtk (snd (fold_left (fun (acc : list dt * list out) cid =>
               let '(dsa, oa) := acc in
               let '(dsb, ob) := trigger_dt fuel now paused cid t dsa in (dsb, oa ++ ob)) l acc))) as Hf.
  { induction l as [|x l IHl]; intros [dsa oa] Ha; [exact Ha|].
    cbn [fold_left]. apply IHl.
    pose proof (IH now paused x t dsa) as Hx.
    destruct (trigger_dt fuel now paused x t dsa) as [dsb ob]. cbn [snd] in *. apply Forall_app; auto. }
  specialize (Hf (d_triggers d) (ds1, []) (Forall_nil _)).
  destruct (fold_left _ (d_triggers d) (ds1, [])) as [ds2 o2]. cbn [snd] in *.
  apply Forall_app; split; [assumption|]. apply Forall_app; split.
  - destruct (negb (d_fixed d) && negb paused); repeat constructor.
  - repeat constructor.
Qed.

Lemma ckl_trigger_all now paused t ds : Forall ckl_dtk (snd (trigger_all now paused t ds)).
Proof.
  unfold trigger_all.
  assert (forall l acc, Forall ckl_dtk (snd acc) ->
            Forall ckl_dtk (snd (fold_left (fun (acc : list dt * list out) id =>
               let '(dsa, oa) := acc in
               let '(dsb, ob) := trigger_dt (chain_fuel dsa) now paused id t dsa in (dsb, oa ++ ob)) l acc))) as Hf.
  { induction l as [|x l IHl]; intros [dsa oa] Ha; [exact Ha|].
    cbn [fold_left]. apply IHl.
    pose proof (ckl_trigger_dt (chain_fuel dsa) now paused x t dsa) as Hx.
    destruct (trigger_dt (chain_fuel dsa) now paused x t dsa) as [dsb ob]. cbn [snd] in *. apply Forall_app; auto. }
  apply Hf. constructor.
Qed.

Lemma ckl_filter_dtk o : Forall ckl_dtk o -> filter ckl_is_st o = [].
Proof.
  intros H. induction H as [|x l Hx _ IH]; [reflexivity|].
  cbn [filter]. destruct x as [[]| | | | | | | |]; cbn in Hx; try contradiction; exact IH.
Qed.

(* ---- (1) the check result ---- *)

Theorem ckl_do_result c now r f :
  f_st (fst (do_result c now r f)) = fst (step (fc_base c) now (f_st f) r) /\
  filter ckl_is_st (snd (do_result c now r f)) = ckl_step_events (snd (step (fc_base c) now (f_st f) r)).
Proof.
  unfold step. destruct (rejected now (f_st f) r) eqn:Hrej.
  { unfold do_result. rewrite Hrej. split; reflexivity. }
  unfold do_result. rewrite Hrej. cbv zeta.
  destruct (step_accept (fc_base c) (f_st f) r) as [s' i] eqn:Esa. cbn [fst snd ckl_step_events].
  match goal with
  | |- context [ack_on_change ?k ?n ?sc ?ns ?f0] =>
      pose proof (ack_change_then_read k n sc ns f0) as H; rewrite ak_of_set_core in H;
      destruct (ack_on_change k n sc ns f0) as [f1 o1]
  end.
  destruct (get_ack now f1) as [[a3 f2] o2].
  revert H.
  destruct (ak_read now (ak_of f)) as [s1 p1] eqn:Erd.
  assert (filter ckl_is_st p1 = []) as Hp1.
  { unfold ak_read in Erd. destruct (ak_expired now (ak_of f)); inversion Erd; reflexivity. }
  match goal with |- context [if ?b then (ak_clear s1, _) else _] =>
    destruct (if b then (ak_clear s1, [OAckCleared]) else (s1, [])) as [s2 p2] eqn:Ecl;
    assert (filter ckl_is_st p2 = []) as Hp2 by (destruct b; inversion Ecl; reflexivity);
    clear Ecl
  end.
  intros (Hf2 & Ho12 & Ha3 & Hst2 & _ & Hne).
  cbn [set_core f_st] in Hst2.
  match goal with |- context [if ?b then trigger_all ?n ?p ?t ?d else ?e] =>
    assert (Forall ckl_dtk (snd (if b then trigger_all n p t d else e))) as Hi3
      by (destruct b; [apply ckl_trigger_all|constructor]);
    destruct (if b then trigger_all n p t d else e) as [ds3 o3] end.
  cbn [snd] in Hi3.
  pose proof (get_ack_ak now (set_dts f2 ds3)) as H4.
  rewrite ak_of_set_dts, Hf2, (ak_read_idle now s2 Hne) in H4.
  destruct (get_ack now (set_dts f2 ds3)) as [[a4 f4] o4]. cbn [fst snd] in H4.
  destruct H4 as (_ & _ & Ho4 & Hst4 & _).
  cbn [set_dts f_st] in Hst4.
  set (f5 := if ackt_eqb a3 AckNone then remove_ack_comments (Some (r_end r)) f4 else f4).
  assert (f_st f5 = s') as Hst5.
  { unfold f5. destruct (ackt_eqb a3 AckNone); cbn [remove_ack_comments set_comments f_st]; congruence. }
  clearbody f5.
  match goal with |- context [if negb (is_flapping c (f_flap f5)) && ?x then ?A else ?B] =>
    set (EFL := if negb (is_flapping c (f_flap f5)) && x then A else B) end.
  assert (filter ckl_is_st (snd EFL) = []) as Hfl.
  { unfold EFL. repeat match goal with |- context [if ?b then _ else _] => destruct b end; reflexivity. }
  destruct EFL as [[sup_fs sup_fe] o_fl]. cbn [snd] in Hfl.
  match goal with |- context [if ?b then ?T else (false, false, @nil out)] =>
    lazymatch T with context [ackt_eqb a4 AckNone] => set (EST := if b then T else (false, false, @nil out)) end end.
  assert (filter ckl_is_st (snd EST) = []) as Hst_.
  { unfold EST. repeat match goal with |- context [if ?b then _ else _] => destruct b end; reflexivity. }
  destruct EST as [[sup_p sup_r] o_st]. cbn [snd] in Hst_.
  cbn [fst snd]. split.
  - destruct (sup_fs || sup_fe || sup_p || sup_r); exact Hst5.
  - rewrite (app_assoc o1 o2), Ho12. rewrite !filter_app, Hp1, Hp2, Hfl, Hst_, (ckl_filter_dtk o3 Hi3).
    subst o4. reflexivity.
Qed.

Lemma ckl_remove_dt fuel : forall now paused id children r ds,
  Forall ckl_dtk (snd (fst (remove_dt fuel now paused id children r ds))).
Proof.
  induction fuel as [|fuel IH]; intros now paused id children r ds; cbn [remove_dt]; [constructor|].
  destruct (find_dt id ds) as [d|]; [|constructor].
  destruct (d_owned d && match r with RByUser => true | _ => false end); [constructor|].
  set (kids := if children then map d_id (filter (fun x => d_parent x =? id) ds) else []). clearbody kids.
  assert (forall l (acc : list dt * list out * bool), Forall ckl_dtk (snd (fst acc)) ->
            Forall ckl_dtk (snd (fst (fold_left (fun (acc : list dt * list out * bool) (k : Z) =>
               let '(dsa, oa, oka) := acc in
               if (oka : bool) then
                 let '(dsb, ob, okb) := remove_dt fuel now paused k true r dsa in (dsb, oa ++ ob, okb)
               else acc) l acc)))) as Hf.
  { induction l as [|x l IHl]; intros [[dsa oa] oka] Ha; [exact Ha|].
    cbn [fold_left]. apply IHl. destruct oka; [|exact Ha].
    pose proof (IH now paused x true r dsa) as Hx.
    destruct (remove_dt fuel now paused x true r dsa) as [[dsb ob] okb]. cbn [fst snd] in *. apply Forall_app; auto. }
  specialize (Hf kids (ds, [], true) (Forall_nil _)).
  destruct (fold_left _ kids (ds, [], true)) as [[ds1 o1] ok1]. cbn [fst snd] in *.
  destruct (negb ok1); [exact Hf|].
  destruct (find_dt id ds1) as [d1|]; [|exact Hf]. cbn [fst snd].
  apply Forall_app; split; [assumption|]. apply Forall_app; split; [repeat constructor|].
  destruct (dt_is_triggered now d1 && negb paused); repeat constructor.
Qed.

Lemma ckl_dt_remove now id children r f : filter ckl_is_st (snd (do_dt_remove now id children r f)) = [].
Proof.
  unfold do_dt_remove.
  pose proof (ckl_remove_dt (chain_fuel (f_dts f)) now (f_paused f) id children r (f_dts f)) as H.
  destruct (remove_dt (chain_fuel (f_dts f)) now (f_paused f) id children r (f_dts f)) as [[ds o] ok].
  cbn [fst snd] in *. rewrite filter_app, (ckl_filter_dtk _ H). destruct ok; reflexivity.
Qed.

Lemma ckl_dt_start_timer now f : filter ckl_is_st (snd (do_dt_start_timer now f)) = [].
Proof.
  unfold do_dt_start_timer.
  assert (forall l acc, Forall ckl_dtk (snd acc) ->
            Forall ckl_dtk (snd (fold_left (fun (acc : list dt * list out) id =>
               let '(dsa, oa) := acc in
               match find_dt id dsa with
               | Some d =>
                   if dt_can_be_triggered now d && d_fixed d
                   then let '(dsb, ob) := trigger_dt (chain_fuel dsa) now (f_paused f) id
                                                     (Z.max (d_start d) (d_entry d)) dsa in
                        (dsb, oa ++ (if negb (f_paused f) then [ONotify NDowntimeStart] else []) ++ ob)
                   else acc
               | None => acc
               end) l acc))) as Hf.
  { induction l as [|x l IHl]; intros [dsa oa] Ha; [exact Ha|].
    cbn [fold_left]. apply IHl.
    destruct (find_dt x dsa) as [d|]; [|exact Ha].
    destruct (dt_can_be_triggered now d && d_fixed d); [|exact Ha].
    pose proof (ckl_trigger_dt (chain_fuel dsa) now (f_paused f) x (Z.max (d_start d) (d_entry d)) dsa) as Hx.
    destruct (trigger_dt (chain_fuel dsa) now (f_paused f) x (Z.max (d_start d) (d_entry d)) dsa) as [dsb ob].
    cbn [snd] in *. repeat (apply Forall_app; split); auto. destruct (negb (f_paused f)); repeat constructor. }
  specialize (Hf (map d_id (f_dts f)) (f_dts f, []) (Forall_nil _)).
  destruct (fold_left _ (map d_id (f_dts f)) (f_dts f, [])) as [ds o]. cbn [fst snd] in *.
  apply ckl_filter_dtk. assumption.
Qed.

Lemma ckl_fire c now f : filter ckl_is_st (snd (do_fire c now f)) = [].
Proof.
  unfold do_fire.
  destruct (f_paused f); [reflexivity|].
  destruct (negb (f_sp_problem f || f_sp_recovery f || f_sp_fstart f || f_sp_fend f)); [reflexivity|].
  destruct (f_sp_problem f || f_sp_recovery f).
  2:{ cbn. repeat match goal with |- context [if ?b then _ else _] => destruct b end; reflexivity. }
  destruct (negb (notif_reachable f) || in_downtime now f) eqn:Es1.
  { cbn. repeat match goal with |- context [if ?b then _ else _] => destruct b end; reflexivity. }
  rewrite get_ack_spec. destruct (cka_expired now f) eqn:Ex.
  - cbn [negb ackt_eqb ackt_num Z.eqb].
    change (notif_reachable (fst (clear_ack f))) with (notif_reachable f).
    change (in_downtime now (fst (clear_ack f))) with (in_downtime now f). rewrite Es1.
    rewrite get_ack_spec, cka_expired_cleared. cbn [fst snd clear_ack f_ack negb ackt_eqb ackt_num Z.eqb andb].
    repeat match goal with |- context [if ?b then _ else _] => destruct b end; reflexivity.
  - destruct (f_ack f) eqn:Ea; cbn [negb ackt_eqb ackt_num Z.eqb].
    + rewrite Es1, get_ack_spec, Ex, Ea. cbn [negb ackt_eqb ackt_num Z.eqb].
      repeat match goal with |- context [if ?b then _ else _] => destruct b end; reflexivity.
    + cbn [andb]. repeat match goal with |- context [if ?b then _ else _] => destruct b end; reflexivity.
    + cbn [andb]. repeat match goal with |- context [if ?b then _ else _] => destruct b end; reflexivity.
Qed.

(* ---- (2) every other operation leaves the state layer alone ---- *)

Theorem ckl_other_ops c now f o :
  (forall r, o <> OpResult r) -> f_st (fst (full_step c now f o)) = f_st f.
Proof.
  intros Hno. pose proof (cka_step_st c now f (CkaBase o)) as H. cbn [cka_step] in H.
  destruct o; try exact H. exfalso. eapply Hno. reflexivity.
Qed.

Theorem ckl_other_ops_events c now f o :
  (forall r, o <> OpResult r) -> filter ckl_is_st (snd (full_step c now f o)) = [].
Proof.
  intros Hno. destruct o; cbn [full_step snd]; try reflexivity.
  - exfalso. eapply Hno. reflexivity.
  - (* acknowledge *)
    pose proof (do_ack_facts c now v sticky notify persistent expiry_given expiry f) as _.
    unfold do_ack. rewrite get_ack_spec.
    repeat match goal with
           | |- context [match ?v with ViaApi => _ | ViaExt => _ | ViaExtExpire => _ end] => destruct v
           | |- context [if ?b then _ else _] => destruct b
           end; cbn; try reflexivity;
      destruct (f_ack f); cbn;
      repeat match goal with |- context [if ?b then _ else _] => destruct b end; reflexivity.
  - unfold do_unack, clear_ack. cbn. destruct (negb (ackt_eqb (f_ack f) AckNone)); reflexivity.
  - rewrite get_ack_spec. destruct (cka_expired now f); reflexivity.
  - (* dt_add *)
    unfold do_dt_add.
    match goal with |- context [if ?b then trigger_dt ?a1 ?a2 ?a3 ?a4 ?a5 ?a6 else ?e] =>
      assert (Forall ckl_dtk (snd (if b then trigger_dt a1 a2 a3 a4 a5 a6 else e))) as H1
        by (destruct b; [apply ckl_trigger_dt|constructor]);
      destruct (if b then trigger_dt a1 a2 a3 a4 a5 a6 else e) as [ds1 o1] end.
    cbn [snd] in H1.
    assert (forall X : list dt * list out,
              X = match find_dt id ds1 with
                  | Some d1 =>
                      if fixed && dt_can_be_triggered now d1
                      then let '(dsx, ox) := trigger_dt (chain_fuel ds1) now (f_paused f) id (Z.max start now) ds1 in
                           (dsx, (if negb (f_paused f) then [ONotify NDowntimeStart] else []) ++ ox)
                      else (ds1, [])
                  | None => (ds1, [])
                  end -> Forall ckl_dtk (snd X)) as H2.
    { intros X ->. destruct (find_dt id ds1) as [d1|]; [|constructor].
      destruct (fixed && dt_can_be_triggered now d1); [|constructor].
      pose proof (ckl_trigger_dt (chain_fuel ds1) now (f_paused f) id (Z.max start now) ds1) as Hx.
      destruct (trigger_dt (chain_fuel ds1) now (f_paused f) id (Z.max start now) ds1) as [dsx ox]. cbn [snd] in *.
      apply Forall_app; split; [destruct (negb (f_paused f)); repeat constructor|assumption]. }
    specialize (H2 _ eq_refl).
    match goal with H2 : Forall ckl_dtk (snd ?X) |- _ => destruct X as [ds2 o2] end. cbn [snd] in *.
    rewrite !filter_app, (ckl_filter_dtk _ H1), (ckl_filter_dtk _ H2). reflexivity.
  - (* dt_remove *)
    apply ckl_dt_remove.
  - apply ckl_dt_start_timer.
  - unfold do_dt_cleanup. destruct (find_dt id (f_dts f)) as [d|]; [|reflexivity].
    destruct (dt_is_expired now d); [apply ckl_dt_remove|reflexivity].
  - apply ckl_fire.
Qed.

Theorem ckl_other_ops_both c now f o :
  (forall r, o <> OpResult r) ->
  f_st (fst (full_step c now f o)) = f_st f /\ filter ckl_is_st (snd (full_step c now f o)) = [].
Proof. intros H. split; [exact (ckl_other_ops c now f o H)|exact (ckl_other_ops_events c now f o H)]. Qed.

(* ---- (3) along every operation sequence ---- *)

Fixpoint ckl_run (c : fcfg) (f : full) (h : list (Z * op)) : full :=
  match h with
  | [] => f
  | (now, o) :: t => ckl_run c (fst (full_step c now f o)) t
  end.

Fixpoint ckl_outs (c : fcfg) (f : full) (h : list (Z * op)) : list out :=
  match h with
  | [] => []
  | (now, o) :: t => snd (full_step c now f o) ++ ckl_outs c (fst (full_step c now f o)) t
  end.

(* the check results fed along a history, each with the clock value at which it is processed *)
Fixpoint ckl_results (h : list (Z * op)) : list (Z * cres) :=
  match h with
  | [] => []
  | (now, OpResult r) :: t => (now, r) :: ckl_results t
  | _ :: t => ckl_results t
  end.

(* the C01-layer events of a CkState history *)
Fixpoint ckl_events (b : cfg) (s : st) (h : list (Z * cres)) : list out :=
  match h with
  | [] => []
  | (now, r) :: t => ckl_step_events (snd (step b now s r)) ++ ckl_events b (fst (step b now s r)) t
  end.

Lemma run_cons b s now r t : run b s ((now, r) :: t) = run b (fst (step b now s r)) t.
Proof. reflexivity. Qed.

Theorem ckl_projection c h : forall f,
  f_st (ckl_run c f h) = run (fc_base c) (f_st f) (ckl_results h) /\
  filter ckl_is_st (ckl_outs c f h) = ckl_events (fc_base c) (f_st f) (ckl_results h).
Proof.
  induction h as [|[now o] t IH]; intros f; [split; reflexivity|].
  cbn [ckl_run ckl_outs]. rewrite filter_app.
  destruct (IH (fst (full_step c now f o))) as [IH1 IH2]. rewrite IH1, IH2.
  assert ((exists r, o = OpResult r) \/ (forall r, o <> OpResult r)) as [[r ->]|Hno].
  { destruct o; try (right; intros r0; discriminate). left. eexists. reflexivity. }
  - cbn [ckl_results full_step ckl_events]. rewrite run_cons.
    destruct (ckl_do_result c now r f) as [A B]. rewrite A, B. split; reflexivity.
  - rewrite (ckl_other_ops c now f o Hno), (ckl_other_ops_events c now f o Hno).
    destruct o; try (split; reflexivity). exfalso. eapply Hno. reflexivity.
Qed.

(* the same for histories that also contain the cluster events of CkAck *)
Fixpoint ckl_results_cka (h : list (Z * cka_op)) : list (Z * cres) :=
  match h with
  | [] => []
  | (now, CkaBase (OpResult r)) :: t => (now, r) :: ckl_results_cka t
  | _ :: t => ckl_results_cka t
  end.

Theorem ckl_projection_cka c h : forall f,
  f_st (cka_run c f h) = run (fc_base c) (f_st f) (ckl_results_cka h).
Proof.
  induction h as [|[now o] t IH]; intros f; [reflexivity|].
  cbn [cka_run]. rewrite IH, (cka_step_st c now f o).
  destruct o as [b|s n e|]; [destruct b|..]; try reflexivity.
  cbn [ckl_results_cka]. rewrite run_cons. unfold step.
  destruct (rejected now (f_st f) r); [reflexivity|].
  destruct (step_accept (fc_base c) (f_st f) r); reflexivity.
Qed.

(* ---- transfer of the C01 theorems ---- *)

(* C01_characterisation holds of the combined model: (state type, attempt) after ANY operation sequence -
   acknowledgements, downtimes, flapping, suppression, parent results, pause interleaved at will - is the
   stated function of the streak of non-OK results since the last OK/Up result *)
Theorem ckl_characterisation c f h n :
  1 <= c_max (fc_base c) -> nondecreasing (s_cr_start (f_st f)) (ckl_results h) ->
  streak (c_kind (fc_base c)) (map (fun nr => r_state (snd nr)) (ckl_results h)) = Some n ->
  Char (fc_base c) (f_st (ckl_run c f h)) n.
Proof.
  intros Hmax Hnd Hs. destruct (ckl_projection c h f) as [-> _].
  apply characterisation_run; assumption.
Qed.

(* C01_stale_rejected in the combined model: a stale result leaves the state layer alone and emits none of its events *)
Theorem ckl_stale_rejected c now f r :
  s_has_cr (f_st f) = true -> s_cr_start (f_st f) <= now -> r_start r < s_cr_start (f_st f) ->
  f_st (fst (full_step c now f (OpResult r))) = f_st f /\
  filter ckl_is_st (snd (full_step c now f (OpResult r))) = [].
Proof.
  intros H1 H2 H3. cbn [full_step]. destruct (ckl_do_result c now r f) as [A B].
  rewrite A, B, (stale_rejected (fc_base c) now (f_st f) r H1 H2 H3). split; reflexivity.
Qed.

(* the event of an accepted result in the combined model is the one C01_events characterises *)
Theorem ckl_event c now f r :
  rejected now (f_st f) r = false ->
  post_ok_shape (fc_base c) (f_st f) -> (c_volatile (fc_base c) = true -> s_type (f_st f) = Hard) ->
  filter ckl_is_st (snd (full_step c now f (OpResult r))) =
  [ONewResult; OStateChange (spec_event (fc_base c) (f_st f) (r_state r)
                                        (s_type (f_st (fst (full_step c now f (OpResult r))))))].
Proof.
  intros Hrej Hshape Hvol. cbn [full_step]. destruct (ckl_do_result c now r f) as [A B].
  rewrite A, B. unfold step. rewrite Hrej.
  pose proof (events (fc_base c) (f_st f) r Hshape Hvol) as He.
  destruct (step_accept (fc_base c) (f_st f) r) as [s' i]. cbn [fst snd ckl_step_events]. rewrite He. reflexivity.
Qed.
