(* C06: the oracle that is run over implementation traces accepts every trace of the model (part 2:
   remaining checks, the invariant between oracle state and model state, induction over histories). *)
From Icv Require Import Base.Tac Ck.CkState Ck.CkStateProofs Ck.CkFull Ck.CkAck Ck.CkAckObs Ck.CkAckProofs Ck.CkAckThms
  Ck.CkAckOracleLemmas.
Local Open Scope Z_scope.

Lemma chk_read_ok now st hascr s nprob ref depth :
  ak_wf s ->
  let r := ak_step now AkRead s in
  let a := if ak_expired now s then AckNone else ak_ack s in
  cka_chk_read now (ak_os st hascr s)
    (ak_obs st (fst r) (snd r) nprob ref (ackt_num a)
            ((hascr && negb (st =? 0)) && ((0 <? depth) || negb (ackt_eqb a AckNone))) depth) = 0.
Proof.
  intros Hwf. cbv zeta. destruct s as [a e cms n p]. unfold ak_wf in Hwf. cbn [ak_ack ak_exp] in Hwf.
  unfold cka_chk_read. ak_unfold.
  destruct a; [rewrite (Hwf eq_refl)|..]; destruct hascr; or_crush.
  all: rewrite eqb_reflx; reflexivity.
Qed.

Lemma chk_cmtimer_ok now st hascr s nprob ref read handled depth :
  let r := ak_step now AkCmTimer s in
  cka_chk_cmtimer now (ak_os st hascr s) (ak_obs st (fst r) (snd r) nprob ref read handled depth) = 0.
Proof.
  cbv zeta. destruct s as [a e cms n p]. unfold cka_chk_cmtimer. ak_unfold.
  rewrite filter_map_cm.
  change (fun c : comment => negb (negb (cka_cm_expire (cka_cm_of c) =? 0) && (cka_cm_expire (cka_cm_of c) <? now))
                             || cka_cm_pers (cka_cm_of c))
    with (fun c : comment => negb (negb (cm_expire c =? 0) && (cm_expire c <? now)) || cm_persistent c).
  destruct a; or_crush.
Qed.

Lemma chk_other_ok now i may_read st hascr s nprob ref read handled depth :
  ak_wf s ->
  (i = AkNop \/ (exists p, i = AkPause p) \/ (may_read = true /\ i = AkRead)) ->
  let r := ak_step now i s in
  (ak_ack (fst r) <> AckNone -> nprob = 0) ->
  cka_chk_other now may_read (ak_os st hascr s) (ak_obs st (fst r) (snd r) nprob ref read handled depth) = 0.
Proof.
  intros Hwf Hi. cbv zeta. intros Hnp. apply nprob_cases in Hnp. revert Hnp.
  destruct s as [a e cms n p]. unfold ak_wf in Hwf. cbn [ak_ack ak_exp] in Hwf.
  unfold cka_chk_other.
  destruct Hi as [-> | [[q ->] | [-> ->]]]; ak_unfold; unfold cka_o_expired; cbn [ks_ack ks_exp];
    (destruct a; [rewrite (Hwf eq_refl)|..]; intros [-> | Hd]; revert Hd || idtac; or_crush).
Qed.

(* ---------------------------------------------------------------- invariants of the abstract machine *)

Lemma ak_step_wf now i s : ak_wf s -> ak_wf (fst (ak_step now i s)).
Proof.
  unfold ak_wf. destruct s as [a e cms n p]. cbn [ak_ack ak_exp]. intros Hwf.
  destruct i; unfold ak_step, ak_read, ak_expired, ak_clear, ak_set_cms; cbn [ak_ack ak_exp ak_cms ak_next ak_paused];
    repeat match goal with |- context [if ?b then _ else _] => destruct b end;
    cbn; auto; try discriminate; destruct sticky; discriminate.
Qed.

Lemma ak_step_paused now i s :
  ak_paused (fst (ak_step now i s)) = match i with AkPause p => p | _ => ak_paused s end.
Proof.
  destruct s as [a e cms n p].
  destruct i; unfold ak_step, ak_read, ak_expired, ak_clear, ak_set_cms; cbn [ak_ack ak_exp ak_cms ak_next ak_paused];
    repeat match goal with |- context [if ?b then _ else _] => destruct b end; reflexivity.
Qed.

Lemma step_accept_has_cr b s r : s_has_cr (fst (step_accept b s r)) = true.
Proof. unfold step_accept. repeat (dmatch; try reflexivity). Qed.

Lemma ref_code_none o : filter cka_is_ref o = [] -> cka_ref_code o = 0.
Proof.
  unfold cka_ref_code. induction o as [|x o IH]; [reflexivity|].
  destruct x; cbn [filter cka_is_ref find]; try exact IH. discriminate.
Qed.

Lemma do_ack_ref_code c now v sticky notify pers eg expiry f :
  let outs := snd (cka_step c now f (CkaBase (OpAck v sticky notify pers eg expiry))) in
  cka_ref_code outs = if cka_count cka_is_set outs =? 0 then 1 else 0.
Proof.
  cbv zeta.
  destruct (entry_state_ok c f) eqn:E1.
  { destruct (cka_ack_refused c now v sticky notify pers eg expiry f (or_introl E1)) as (n & Hn & ->).
    cbn. destruct (n <=? 3) eqn:E; [reflexivity|lia]. }
  destruct (cka_expiry_bad now v eg expiry) eqn:E3.
  { destruct (cka_ack_refused c now v sticky notify pers eg expiry f (or_intror (or_intror E3))) as (n & Hn & ->).
    cbn. destruct (n <=? 3) eqn:E; [reflexivity|lia]. }
  destruct (ackt_eqb (cka_eff_ack now f) AckNone) eqn:E2.
  - apply ackt_eqb_eq in E2.
    destruct (cka_ack_accepted c now v sticky notify pers eg expiry f E1 E2 E3) as (_ & _ & _ & A & _ & _ & B).
    rewrite A, B. reflexivity.
  - assert (cka_eff_ack now f <> AckNone) as E2' by (intros E; rewrite E in E2; discriminate).
    destruct (cka_ack_refused c now v sticky notify pers eg expiry f (or_intror (or_introl E2'))) as (n & Hn & ->).
    cbn. destruct (n <=? 3) eqn:E; [reflexivity|lia].
Qed.

(* ---------------------------------------------------------------- the invariant and the step *)

Definition cka_oinv (c : fcfg) (s : cka_os) (f : full) : Prop :=
  s = ak_os (cka_api_state (c_kind (fc_base c)) (s_raw (f_st f))) (s_has_cr (f_st f)) (ak_of f) /\ ak_wf (ak_of f).

Lemma ak_os_paused st h s p :
  ak_paused s = p ->
  {| ks_st := st; ks_hascr := h; ks_ack := ackt_num (ak_ack s); ks_exp := ak_exp s;
     ks_cms := map cka_cm_of (ak_cms s); ks_paused := p |} = ak_os st h s.
Proof. intros <-. reflexivity. Qed.

Lemma os_next_eq o st h s st' s' evs np ref rd hd dp h' :
  (h || match o with CkaBase (OpResult _) => negb (ref =? 5) | _ => false end) = h' ->
  match o with CkaBase (OpPause p) => p | _ => ak_paused s end = ak_paused s' ->
  cka_os_next o (ak_os st h s) (ak_obs st' s' evs np ref rd hd dp) = ak_os st' h' s'.
Proof.
  intros <- Hp. unfold cka_os_next, ak_os, ak_obs.
  cbn [ko_st ko_ref ko_ack ko_exp ko_cms ks_hascr ks_paused]. rewrite Hp. reflexivity.
Qed.

Lemma is_ok_api_entry c f :
  entry_state_ok c f = (cka_api_state (c_kind (fc_base c)) (s_raw (f_st f)) =? 0).
Proof. unfold entry_state_ok, cka_api_state. destruct (c_kind (fc_base c)), (s_raw (f_st f)); reflexivity. Qed.

Lemma oracle_step c now f o s :
  cka_oinv c s f ->
  let f' := fst (cka_step c now f o) in
  let b := cka_observe c now f f' (snd (cka_step c now f o)) in
  fst (cka_check now o s b) = 0 /\ cka_oinv c (cka_os_next o s b) f'.
Proof.
  intros [-> Hwf]. cbv zeta.
  destruct (cka_step_sim c now f o) as (i & Habs & A & B).
  pose proof (cka_step_st c now f o) as Hst.
  pose proof (cka_step_no_problem c now f o) as Hnp.
  pose proof (ak_step_wf now i (ak_of f) Hwf) as Hwf'. rewrite <- A in Hwf'.
  pose proof (ak_step_paused now i (ak_of f)) as Hpa.
  assert (ak_ack (fst (ak_step now i (ak_of f))) <> AckNone ->
          cka_count cka_is_nprob (snd (cka_step c now f o)) = 0) as Hnp'.
  { rewrite <- A. intros E. unfold cka_count. rewrite (Hnp E). reflexivity. }
  rewrite observe_ak, B. unfold cka_oinv. rewrite A at 1 2.
  split; [|split; [|exact Hwf']].
  - (* the check *)
    destruct o as [b|st_ n_ e_|]; [destruct b|..]; cbn [cka_abs] in Habs; cbn [cka_check fst]; rewrite Hst.
    + (* result *)
      destruct (rejected now (f_st f) r) eqn:Hrej.
      * subst i. rewrite (cka_result_rejected c now r f Hrej). cbn [snd cka_ref_code find].
        destruct (ak_of f) as [a e cms n p]. unfold cka_chk_result. ak_unfold. unfold cka_o_expired; cbn [ks_ack ks_exp].
        destruct a; or_crush.
      * subst i. rewrite step_accept_raw.
        pose proof (do_result_facts c now r f Hrej) as H. cbv zeta in H. cbn [cka_step full_step] in *.
        destruct (do_result c now r f) as [f' outs]. cbn [fst snd] in *. destruct H as (_ & _ & _ & _ & Href).
        rewrite (ref_code_none _ Href).
        apply chk_result_ok; auto.
        -- rewrite state_change_api. f_equal. apply Z.eqb_sym.
        -- apply is_ok_api.
    + subst i. apply chk_other_ok; auto.
    + subst i. rewrite do_ack_ref_code. rewrite (count_through_ev cka_is_set _ set_is_ev), B.
      rewrite is_ok_api_entry. apply chk_ack_ok; assumption.
    + subst i. apply (chk_unack_ok now false).
    + subst i. rewrite cka_handled_rule.
      change (cka_eff_ack now f) with (if ak_expired now (ak_of f) then AckNone else ak_ack (ak_of f)).
      apply chk_read_ok; assumption.
    + subst i. apply chk_cmtimer_ok.
    + subst i. apply chk_other_ok; auto.
    + subst i. apply chk_other_ok; auto.
    + subst i. apply chk_other_ok; auto.
    + subst i. apply chk_other_ok; auto.
    + apply chk_other_ok; auto. destruct Habs as [-> | ->]; auto.
    + subst i. apply chk_other_ok; eauto.
    + subst i. apply chk_other_ok; auto.
    + subst i. apply chk_cluster_set_ok; assumption.
    + subst i. apply (chk_unack_ok now true).
  - (* the next oracle state *)
    rewrite A. apply os_next_eq.
    + rewrite Hst. destruct o as [b|st_ n_ e_|]; [destruct b|..]; try apply orb_false_r.
      destruct (rejected now (f_st f) r) eqn:Hrej.
      * rewrite (cka_result_rejected c now r f Hrej). cbn. apply orb_false_r.
      * rewrite step_accept_has_cr.
        pose proof (do_result_facts c now r f Hrej) as H. cbv zeta in H. cbn [cka_step full_step] in *.
        destruct (do_result c now r f) as [f' outs]. cbn [fst snd] in *. destruct H as (_ & _ & _ & _ & Href).
        rewrite (ref_code_none _ Href). cbn. apply orb_true_r.
    + rewrite Hpa.
      destruct o as [b|st_ n_ e_|]; [destruct b|..]; cbn [cka_abs] in Habs; try (subst i; reflexivity).
      * destruct (rejected now (f_st f) r); subst i; reflexivity.
      * destruct Habs as [-> | ->]; reflexivity.
Qed.

Lemma oracle_from_model c h : forall f s known idx,
  cka_oinv c s f -> snd (cka_oracle_from s known idx (cka_model_trace c f h)) = None.
Proof.
  induction h as [|[now o] t IH]; intros f s known idx Hinv; [reflexivity|].
  cbn [cka_model_trace].
  pose proof (oracle_step c now f o s Hinv) as H. cbv zeta in H.
  destruct (cka_step c now f o) as [f' outs] eqn:E. cbn [fst snd] in H.
  cbn [cka_oracle_from].
  destruct (cka_check now o s (cka_observe c now f f' outs)) as [code kn]. cbn [fst] in H.
  destruct H as [-> Hinv']. cbn [Z.eqb]. apply IH. exact Hinv'.
Qed.

Theorem cka_oracle_accepts_model c h :
  snd (cka_oracle (c_kind (fc_base c)) (cka_model_trace c init_full h)) = None.
Proof.
  unfold cka_oracle. apply oracle_from_model. split; [reflexivity|]. intros _. reflexivity.
Qed.
