(* Specification and proofs for the C01 layer. *)
From Icv Require Import Base.Tac Ck.CkState.
Local Open Scope Z_scope.

(* ---------- specification vocabulary ---------- *)

(* number of consecutive non-OK results at the END of a history since the last OK/Up one;
   None when the history contains no OK/Up result at all *)
Fixpoint streak_rev (k : kind) (h : list sstate) : option Z :=   (* newest first *)
  match h with
  | [] => None
  | s :: older =>
      if is_ok k s then Some 0
      else match streak_rev k older with Some n => Some (n + 1) | None => None end
  end.
Definition streak (k : kind) (h : list sstate) : option Z := streak_rev k (rev h).

(* the statement's characterisation of (state type, attempt) from the streak *)
Definition char_type (c : cfg) (n : Z) : stype := if (n =? 0) || (c_max c <=? n) then Hard else Soft.
Definition char_attempt (c : cfg) (n : Z) : Z := if (n =? 0) || (c_max c <=? n) then 1 else n.

Definition Char (c : cfg) (s : st) (n : Z) : Prop :=
  0 <= n /\ (is_ok (c_kind c) (s_raw s) = true <-> n = 0) /\
  s_type s = char_type c n /\ s_attempt s = char_attempt c n.

Definition run_acc (c : cfg) (s : st) (h : list cres) : st :=
  fold_left (fun s r => fst (step_accept c s r)) h s.

Definition differs (k : kind) (a b : sstate) : bool :=
  match k with
  | KService => negb (sstate_eqb a b)
  | KHost => negb (Bool.eqb (host_up a) (host_up b))
  end.

(* the statement's event rule, written from the property text *)
Definition spec_event (c : cfg) (pre : st) (new_state : sstate) (post_type : stype) : event :=
  let k := c_kind c in
  let pre_ok := is_ok k (s_raw pre) in
  let new_ok := is_ok k new_state in
  let pre_hard := stype_eqb (s_type pre) Hard in
  let d := differs k (s_raw pre) new_state in
  let enters_hard_problem := negb new_ok && stype_eqb post_type Hard && (pre_ok || negb pre_hard) in
  let hard_problem_changes := pre_hard && negb pre_ok && negb new_ok && d in
  let returns_ok := negb pre_ok && new_ok in
  let volatile_again := c_volatile c && pre_hard && negb new_ok in
  if enters_hard_problem || hard_problem_changes || returns_ok || volatile_again then EvHard
  else if d || stype_eqb post_type Soft then EvSoft
  else EvNone.

(* ---------- one step ---------- *)

Lemma sstate_eqb_eq a b : sstate_eqb a b = true <-> a = b.
Proof. destruct a, b; simpl; split; intro H; try reflexivity; try discriminate. Qed.

Lemma step_accept_raw c s r : s_raw (fst (step_accept c s r)) = r_state r.
Proof.
  unfold step_accept. repeat (dmatch; try reflexivity).
Qed.

Lemma step_accept_ok c s r :
  is_ok (c_kind c) (r_state r) = true ->
  s_type (fst (step_accept c s r)) = Hard /\ s_attempt (fst (step_accept c s r)) = 1.
Proof. intros H. unfold step_accept. rewrite H. simpl. auto. Qed.

Lemma step_accept_nonok c s r :
  is_ok (c_kind c) (r_state r) = false ->
  let s' := fst (step_accept c s r) in
  let k := c_kind c in
  let at2 := if stype_eqb (s_type s) Soft && negb (is_ok k (s_raw s)) then s_attempt s + 1 else 1 in
  (c_max c <= at2 -> s_type s' = Hard /\ s_attempt s' = 1) /\
  (at2 < c_max c ->
     s_attempt s' = at2 /\
     s_type s' = if is_ok k (s_raw s) then Soft else s_type s).
Proof.
  intros H. unfold step_accept. rewrite H.
  destruct (is_ok (c_kind c) (s_raw s)) eqn:Hok; destruct (s_type s) eqn:Hty; simpl;
  split; intros Hc;
  repeat match goal with
         | |- context [?a <=? ?b] => destruct (Z.leb_spec a b); try lia
         end; simpl; auto.
Qed.

Ltac cmp_cases :=
  repeat match goal with
         | H : context [?a <=? ?b] |- _ => destruct (Z.leb_spec a b)
         | H : context [?a =? ?b] |- _ => destruct (Z.eqb_spec a b)
         | |- context [?a <=? ?b] => destruct (Z.leb_spec a b)
         | |- context [?a =? ?b] => destruct (Z.eqb_spec a b)
         end.
Ltac fin :=
  cbn [orb andb negb] in *; repeat split; intros; subst;
  try reflexivity; try discriminate; try lia; try congruence; try (exfalso; lia).

Lemma char_step c s r n :
  1 <= c_max c -> Char c s n ->
  Char c (fst (step_accept c s r))
       (if is_ok (c_kind c) (r_state r) then 0 else n + 1).
Proof.
  intros Hmax (Hn & Hok & Hty & Hat).
  destruct (is_ok (c_kind c) (r_state r)) eqn:Hr.
  - destruct (step_accept_ok c s r Hr) as [H1 H2].
    unfold Char. rewrite step_accept_raw, Hr, H1, H2. unfold char_type, char_attempt.
    cmp_cases; fin.
  - pose proof (step_accept_nonok c s r Hr) as Hs. cbv zeta in Hs.
    destruct Hs as [Hhard Hsoft].
    unfold Char. rewrite step_accept_raw, Hr.
    unfold char_type, char_attempt in *.
    destruct (is_ok (c_kind c) (s_raw s)) eqn:Hpre.
    + (* previous result was OK: n = 0 *)
      assert (n = 0) by (apply Hok; reflexivity). subst n.
      rewrite andb_false_r in Hhard, Hsoft.
      destruct (Z.le_gt_cases (c_max c) 1) as [Hc|Hc].
      * destruct (Hhard Hc) as [A B]. rewrite A, B. cmp_cases; fin.
      * destruct (Hsoft Hc) as [A B]. rewrite A, B. cmp_cases; fin.
    + assert (n <> 0) by (intro; assert (false = true) by (apply Hok; assumption); discriminate).
      rewrite Hty, Hat in Hhard, Hsoft.
      destruct (Z.eqb_spec n 0); [contradiction|].
      destruct (Z.leb_spec (c_max c) n); cbn [orb stype_eqb andb negb] in Hhard, Hsoft.
      * destruct (Z.le_gt_cases (c_max c) 1) as [Hc|Hc].
        -- destruct (Hhard Hc) as [A B]. rewrite A, B. cmp_cases; fin.
        -- destruct (Hsoft Hc) as [A B]. rewrite A, B. cmp_cases; fin.
      * destruct (Z.le_gt_cases (c_max c) (n + 1)) as [Hc|Hc].
        -- destruct (Hhard Hc) as [A B]. rewrite A, B. cmp_cases; fin.
        -- destruct (Hsoft Hc) as [A B]. rewrite A, B. cmp_cases; fin.
Qed.

(* a state right after an OK/Up result satisfies the characterisation with streak 0, whatever came before *)
Lemma char_after_ok c s r :
  is_ok (c_kind c) (r_state r) = true -> Char c (fst (step_accept c s r)) 0.
Proof.
  intros Hr. destruct (step_accept_ok c s r Hr) as [H1 H2].
  unfold Char. rewrite step_accept_raw, Hr, H1, H2. unfold char_type, char_attempt. simpl.
  repeat split; auto; lia.
Qed.

(* ---------- histories ---------- *)

Lemma run_acc_app c s h1 h2 : run_acc c s (h1 ++ h2) = run_acc c (run_acc c s h1) h2.
Proof. unfold run_acc. apply fold_left_app. Qed.

Theorem characterisation c s h n :
  1 <= c_max c ->
  streak (c_kind c) (map r_state h) = Some n ->
  Char c (run_acc c s h) n.
Proof.
  intros Hmax. revert n. induction h as [|r h IH] using rev_ind; intros n Hs.
  - discriminate.
  - rewrite run_acc_app. cbn [run_acc fold_left].
    unfold streak in Hs. rewrite map_app, rev_app_distr in Hs. cbn [map rev app streak_rev] in Hs.
    destruct (is_ok (c_kind c) (r_state r)) eqn:Hr.
    + inv Hs. apply char_after_ok. assumption.
    + fold (streak (c_kind c) (map r_state h)) in Hs.
      destruct (streak (c_kind c) (map r_state h)) as [m|] eqn:Hm; [|discriminate].
      inv Hs. specialize (IH m eq_refl).
      pose proof (char_step c _ r m Hmax IH) as H. rewrite Hr in H. exact H.
Qed.

(* with non-decreasing timestamps nothing is rejected, so [run] is [run_acc] *)
Fixpoint nondecreasing (last : Z) (h : list (Z * cres)) : Prop :=
  match h with
  | [] => True
  | (_, r) :: t => last <= r_start r /\ nondecreasing (r_start r) t
  end.

Lemma step_accept_start c s r : s_cr_start (fst (step_accept c s r)) = r_start r.
Proof. unfold step_accept. repeat (dmatch; try reflexivity). Qed.

Lemma run_is_run_acc c s h :
  nondecreasing (s_cr_start s) h -> run c s h = run_acc c s (map snd h).
Proof.
  revert s. induction h as [|[now r] t IH]; intros s Hnd; [reflexivity|].
  destruct Hnd as [H1 H2]. cbn [run run_acc fold_left map fst snd].
  unfold step at 2. unfold rejected.
  replace (r_start r <? s_cr_start s) with false by (symmetry; apply Z.ltb_ge; assumption).
  rewrite andb_false_r.
  destruct (step_accept c s r) as [s' i] eqn:E. cbn [fst].
  change s' with (fst (s', i)). rewrite <- E.
  apply IH. rewrite step_accept_start. assumption.
Qed.

Theorem characterisation_run c s h n :
  1 <= c_max c -> nondecreasing (s_cr_start s) h ->
  streak (c_kind c) (map (fun nr => r_state (snd nr)) h) = Some n ->
  Char c (run c s h) n.
Proof.
  intros Hmax Hnd Hs. rewrite run_is_run_acc by assumption.
  apply characterisation; [assumption|]. rewrite map_map. exact Hs.
Qed.

(* ---------- events ---------- *)

Definition post_ok_shape (c : cfg) (s : st) : Prop :=
  is_ok (c_kind c) (s_raw s) = true -> s_type s = Hard.

Lemma char_post_ok_shape c s n : Char c s n -> post_ok_shape c s.
Proof.
  intros (Hn & Hok & Hty & _) H. apply Hok in H. subst n. rewrite Hty. reflexivity.
Qed.

Theorem events c s r :
  post_ok_shape c s ->
  (c_volatile c = true -> s_type s = Hard) ->
  let '(s', i) := step_accept c s r in
  i_event i = spec_event c s (r_state r) (s_type s').
Proof.
  intros Hshape Hvol. unfold post_ok_shape in Hshape.
  unfold step_accept, spec_event, differs.
  destruct c as [k mx vol]; cbn [c_kind c_max c_volatile] in *.
  destruct s as [raw ty att lh hs ss hc cs]; cbn [s_raw s_type s_attempt] in *.
  destruct r as [rs rstart rend]; cbn [r_state] in *.
  destruct vol; [specialize (Hvol eq_refl); subst ty|clear Hvol];
  destruct k; destruct raw; destruct rs; cbn [is_ok host_up sstate_eqb negb andb orb stype_eqb Bool.eqb];
  try (destruct ty; cbn [stype_eqb andb orb negb];
       try (specialize (Hshape eq_refl); discriminate));
  repeat match goal with
         | |- context [?a <=? ?b] => destruct (Z.leb_spec a b)
         end; cbn; try reflexivity; try lia.
Qed.

(* ---------- never-checked start: the universal invariants ---------- *)

Definition Univ (c : cfg) (s : st) : Prop :=
  (is_ok (c_kind c) (s_raw s) = true -> s_type s = Hard /\ s_attempt s = 1) /\
  (s_type s = Hard -> s_attempt s = 1) /\
  1 <= s_attempt s <= c_max c.

Lemma univ_step c s r :
  1 <= c_max c -> 1 <= s_attempt s -> Univ c (fst (step_accept c s r)).
Proof.
  intros Hmax Hat. unfold Univ.
  destruct (is_ok (c_kind c) (r_state r)) eqn:Hr.
  - destruct (step_accept_ok c s r Hr) as [A B]. rewrite A, B. repeat split; auto; lia.
  - rewrite step_accept_raw, Hr.
    pose proof (step_accept_nonok c s r Hr) as Hs. cbv zeta in Hs. destruct Hs as [Hh Hsf].
    set (at2 := if stype_eqb (s_type s) Soft && negb (is_ok (c_kind c) (s_raw s)) then s_attempt s + 1 else 1) in *.
    assert (1 <= at2) by (unfold at2; dmatch; lia).
    destruct (Z.le_gt_cases (c_max c) at2) as [Hle|Hgt].
    + destruct (Hh Hle) as [A B]. rewrite A, B. repeat split; auto; try lia; intros; discriminate.
    + destruct (Hsf Hgt) as [A B]. rewrite A, B.
      split; [intros; discriminate|]. split; [|lia].
      unfold at2. destruct (is_ok (c_kind c) (s_raw s)); [intros; discriminate|].
      destruct (s_type s); simpl; auto. intros; discriminate.
Qed.

Theorem pending_invariants c h :
  1 <= c_max c -> h <> [] -> Univ c (run_acc c pending h).
Proof.
  intros Hmax Hne.
  assert (forall h s, 1 <= s_attempt s -> 1 <= s_attempt (run_acc c s h)) as Hat.
  { clear h Hne. induction h as [|r t IH]; intros s Hs; [exact Hs|].
    cbn [run_acc fold_left]. apply IH.
    pose proof (univ_step c s r Hmax Hs) as (_ & _ & H). lia. }
  destruct (exists_last Hne) as (h' & r & ->).
  rewrite run_acc_app. cbn [run_acc fold_left].
  apply univ_step; [assumption|]. apply Hat. simpl. lia.
Qed.

(* hard is reached after at most max consecutive non-OK results, from any state with attempt >= 1 *)
Lemma nonok_run c h : forall s,
  1 <= c_max c -> 1 <= s_attempt s ->
  Forall (fun r => is_ok (c_kind c) (r_state r) = false) h -> h <> [] ->
  let s' := run_acc c s h in
  is_ok (c_kind c) (s_raw s') = false /\
  (s_type s' = Hard \/ (s_type s' = Soft /\ Z.of_nat (length h) <= s_attempt s' < c_max c)).
Proof.
  induction h as [|r t IH] using rev_ind; intros s Hmax Hat Hall Hne; [congruence|].
  apply Forall_app in Hall. destruct Hall as [Ht Hr]. inv Hr.
  match goal with H : is_ok _ _ = false |- _ => rename H into Hr end.
  cbv zeta. rewrite run_acc_app. cbn [run_acc fold_left].
  fold (run_acc c s t). set (m := run_acc c s t).
  rewrite step_accept_raw. split; [assumption|].
  pose proof (step_accept_nonok c m r Hr) as Hs. cbv zeta in Hs. destruct Hs as [Hh Hsf].
  rewrite app_length. cbn [length]. rewrite Nat.add_1_r, Nat2Z.inj_succ.
  destruct t as [|r0 t0].
  - (* first non-OK result *)
    subst m. cbn [run_acc fold_left] in *.
    set (at2 := if stype_eqb (s_type s) Soft && negb (is_ok (c_kind c) (s_raw s)) then s_attempt s + 1 else 1) in *.
    assert (1 <= at2) by (unfold at2; dmatch; lia).
    destruct (Z.le_gt_cases (c_max c) at2) as [Hle|Hgt].
    + left. apply Hh. assumption.
    + destruct (Hsf Hgt) as [A B]. rewrite A, B.
      destruct (is_ok (c_kind c) (s_raw s)); [right; simpl; split; [reflexivity|lia]|].
      destruct (s_type s); [right; simpl; split; [reflexivity|lia]|left; reflexivity].
  - assert (r0 :: t0 <> []) as Hne' by congruence.
    destruct (IH s Hmax Hat Ht Hne') as [Hnok Hcase]. fold m in Hnok, Hcase.
    rewrite Hnok in Hh, Hsf.
    destruct Hcase as [Hhard|[Hsoft Hrange]].
    + rewrite Hhard in Hh, Hsf. simpl in Hh, Hsf.
      destruct (Z.le_gt_cases (c_max c) 1) as [Hle|Hgt].
      * left. apply Hh. assumption.
      * left. apply Hsf. assumption.
    + rewrite Hsoft in Hh, Hsf. simpl in Hh, Hsf.
      destruct (Z.le_gt_cases (c_max c) (s_attempt m + 1)) as [Hle|Hgt].
      * left. apply Hh. assumption.
      * right. destruct (Hsf Hgt) as [A B]. rewrite A, B. split; [reflexivity|lia].
Qed.

Theorem hard_within_max c s h :
  1 <= c_max c -> 1 <= s_attempt s ->
  Forall (fun r => is_ok (c_kind c) (r_state r) = false) h ->
  c_max c <= Z.of_nat (length h) ->
  s_type (run_acc c s h) = Hard.
Proof.
  intros Hmax Hat Hall Hlen.
  assert (h <> []) as Hne by (destruct h; [simpl in Hlen; lia|congruence]).
  destruct (nonok_run c h s Hmax Hat Hall Hne) as [_ [H|[_ H]]]; [assumption|lia].
Qed.

(* ---------- hosts: only Up/Down matters ---------- *)

Definition hproj (s : st) : bool * stype * Z * bool :=
  (host_up (s_raw s), s_type s, s_attempt s, host_up (s_last_hard_raw s)).

Theorem host_collapse c s1 s2 r1 r2 :
  c_kind c = KHost ->
  hproj s1 = hproj s2 -> host_up (r_state r1) = host_up (r_state r2) ->
  hproj (fst (step_accept c s1 r1)) = hproj (fst (step_accept c s2 r2)) /\
  i_event (snd (step_accept c s1 r1)) = i_event (snd (step_accept c s2 r2)) /\
  i_state_change (snd (step_accept c s1 r1)) = i_state_change (snd (step_accept c s2 r2)) /\
  i_hard_change (snd (step_accept c s1 r1)) = i_hard_change (snd (step_accept c s2 r2)).
Proof.
  intros Hk Hp Hr. unfold hproj in Hp. inversion Hp as [[Hraw Hty Hat Hlh]]. clear Hp.
  unfold step_accept, hproj. rewrite Hk. cbn [is_ok].
  rewrite Hraw, Hty, Hat, Hr.
  destruct (host_up (r_state r2)) eqn:Hr2; destruct (host_up (s_raw s2)); destruct (s_type s2);
    cbn [negb andb orb stype_eqb Bool.eqb];
    repeat match goal with
           | |- context [?a <=? ?b] => destruct (Z.leb_spec a b)
           end;
    destruct (c_volatile c);
    cbn [fst snd s_raw s_type s_attempt s_last_hard_raw i_event i_state_change i_hard_change
         negb andb orb stype_eqb];
    rewrite ?Hr, ?Hr2, ?Hlh; auto.
Qed.

(* ---------- stale results ---------- *)

Theorem stale_rejected c now s r :
  s_has_cr s = true -> s_cr_start s <= now -> r_start r < s_cr_start s ->
  step c now s r = (s, None).
Proof.
  intros Hc Hnow Hold. unfold step, rejected. rewrite Hc.
  replace (now <? s_cr_start s) with false by (symmetry; apply Z.ltb_ge; assumption).
  replace (r_start r <? s_cr_start s) with true by (symmetry; apply Z.ltb_lt; assumption).
  reflexivity.
Qed.
