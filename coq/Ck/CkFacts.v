(* The constants and small predicates the C01 model relies on, re-checked against the facts
   srcfacts regenerates from /repo on every run.  An unrecognised fact (None) degrades to
   "covered by the correspondence run only"; a recognised fact that differs breaks this file. *)
From Icv Require Import Base.Tac Ck.CkState Ck.CkObs Facts.Facts_enums Facts.Facts_c01.
Local Open Scope Z_scope.

Definition opt_is {A} (o : option A) (P : A -> Prop) : Prop := match o with Some v => P v | None => True end.

Lemma facts_enum_values :
  sstate_num SOK = f_ServiceOK /\ sstate_num SWarning = f_ServiceWarning /\
  sstate_num SCritical = f_ServiceCritical /\ sstate_num SUnknown = f_ServiceUnknown /\
  stype_num Soft = f_StateTypeSoft /\ stype_num Hard = f_StateTypeHard /\
  api_state KHost SOK = f_HostUp /\ api_state KHost SCritical = f_HostDown.
Proof. repeat split; reflexivity. Qed.

Lemma facts_pending_defaults :
  opt_is f_default_check_attempt (fun v => s_attempt pending = v) /\
  opt_is f_default_state_raw (fun v => sstate_num (s_raw pending) = v) /\
  opt_is f_default_state_type (fun v => stype_num (s_type pending) = v) /\
  opt_is f_default_last_hard_state_raw (fun v => sstate_num (s_last_hard_raw pending) = v) /\
  opt_is f_default_last_hard_states_raw (fun v => s_hard_states pending = v).
Proof. repeat split; reflexivity. Qed.

Lemma facts_state_predicates :
  opt_is f_calculate_state
    (fun t => forall s, In (sstate_num s, if host_up s then f_HostUp else f_HostDown) t) /\
  (f_host_is_state_ok_is_up = true -> forall s, is_ok KHost s = host_up s) /\
  opt_is f_service_ok_state (fun v => forall s, is_ok KService s = (sstate_num s =? v)).
Proof.
  split; [|split].
  - unfold opt_is. destruct f_calculate_state as [t|] eqn:E; [|exact I].
    vm_compute in E. first [discriminate E | injection E as <-; intros s; destruct s; simpl; auto 6].
  - intros _ s; reflexivity.
  - unfold opt_is. destruct f_service_ok_state as [v|] eqn:E; [|exact I].
    vm_compute in E. first [discriminate E | injection E as <-; intros s; destruct s; reflexivity].
Qed.
