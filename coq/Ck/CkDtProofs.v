(* C05 - lemmas about the downtime layer of the combined model (Ck/CkFull.v).
   Part 1: how Downtime::TriggerDowntime (trigger_dt) and its callers change the list of downtimes. *)
From Icv Require Import Base.Tac Ck.CkState Ck.CkFull Ck.CkDtDefs.
Local Open Scope Z_scope.
Arguments chain_fuel : simpl never.

(* ------------------------------------------------------------------ generic *)

Lemma fold_left_inv {A B} (f : A -> B -> A) (Q : A -> Prop) l a :
  Q a -> (forall a x, In x l -> Q a -> Q (f a x)) -> Q (fold_left f l a).
Proof.
  revert a. induction l as [|x l IH]; intros a Ha Hf; cbn; [exact Ha|].
  apply IH; [apply Hf; [left; reflexivity|exact Ha]|]. intros a' y Hy. apply Hf. right. exact Hy.
Qed.

Lemma nodup_app_l {A} (l1 l2 : list A) : NoDup (l1 ++ l2) -> NoDup l1.
Proof.
  induction l1 as [|a l1 IH]; cbn; intros H; [constructor|]. inversion H; subst. constructor.
  - intros Hin. apply H2. apply in_or_app. left. exact Hin.
  - apply IH. assumption.
Qed.
Lemma nodup_app_disj {A} (l1 l2 : list A) x : NoDup (l1 ++ l2) -> In x l1 -> In x l2 -> False.
Proof.
  induction l1 as [|a l1 IH]; cbn; intros H H1 H2; [destruct H1|]. inversion H; subst.
  destruct H1 as [->|H1]; [apply H4; apply in_or_app; right; exact H2|]. apply IH; assumption.
Qed.

Definition set_trig (d : dt) (t : Z) : dt :=
  {| d_id := d_id d; d_fixed := d_fixed d; d_start := d_start d; d_end := d_end d;
     d_duration := d_duration d; d_entry := d_entry d; d_trigger := t;
     d_triggers := d_triggers d; d_parent := d_parent d; d_owned := d_owned d |}.

Definition ids (ds : list dt) : list Z := map d_id ds.

Lemma find_dt_some id ds d : find_dt id ds = Some d -> In d ds /\ d_id d = id.
Proof. unfold find_dt. intros H. apply find_some in H. destruct H as [H1 H2]. split; [exact H1|lia]. Qed.

Lemma find_dt_none id ds : find_dt id ds = None -> ~ In id (ids ds).
Proof.
  unfold find_dt, ids. intros H Hin. apply in_map_iff in Hin. destruct Hin as (d & Hd & Hin).
  pose proof (find_none _ _ H d Hin) as Hn. cbn in Hn. lia.
Qed.

Lemma find_dt_nodup ds d : NoDup (ids ds) -> In d ds -> find_dt (d_id d) ds = Some d.
Proof.
  unfold find_dt, ids. induction ds as [|x ds IH]; intros Hnd Hin; [destruct Hin|].
  cbn in *. inversion Hnd as [|? ? Hx Hnd']; subst.
  destruct Hin as [->|Hin]; [rewrite Z.eqb_refl; reflexivity|].
  destruct (d_id x =? d_id d) eqn:E; [|apply IH; assumption].
  exfalso. apply Hx. apply Z.eqb_eq in E. rewrite E. apply in_map. exact Hin.
Qed.

Lemma find_dt_app_fresh id ds d : ~ In id (ids ds) -> d_id d = id -> find_dt id (ds ++ [d]) = Some d.
Proof.
  unfold find_dt, ids. induction ds as [|x ds IH]; intros Hn Hid; cbn.
  - subst. rewrite Z.eqb_refl. reflexivity.
  - cbn in Hn. destruct (d_id x =? id) eqn:E; [exfalso; apply Hn; left; lia|]. apply IH; [tauto|exact Hid].
Qed.

Lemma find_dt_app_old id ds d : d_id d <> id -> find_dt id (ds ++ [d]) = find_dt id ds.
Proof.
  unfold find_dt. intros Hn. induction ds as [|x ds IH]; cbn.
  - destruct (d_id d =? id) eqn:E; [lia|reflexivity].
  - destruct (d_id x =? id); [reflexivity|exact IH].
Qed.

(* ------------------------------------------------------------------ the four predicates *)

Ltac zb :=
  repeat match goal with
         | |- context [?a <? ?b] => destruct (Z.ltb_spec a b)
         | |- context [?a <=? ?b] => destruct (Z.leb_spec a b)
         | |- context [?a =? ?b] => destruct (Z.eqb_spec a b)
         end; cbn; try reflexivity; try discriminate; try lia; try (intros; discriminate); try (intros; lia).

Lemma can_untriggered now d : d_trigger d = 0 -> dt_can_be_triggered now d = c5_inwin now d.
Proof.
  intros H. unfold dt_can_be_triggered, dt_is_expired, dt_is_triggered, dt_in_effect, c5_inwin. rewrite H.
  destruct (d_fixed d); zb.
Qed.

Lemma can_inwin now d : dt_can_be_triggered now d = true -> c5_inwin now d = true.
Proof.
  unfold dt_can_be_triggered, c5_inwin. intros H.
  destruct (dt_is_triggered now d && (d_fixed d || dt_in_effect now d)); [discriminate|].
  destruct (dt_is_expired now d); [discriminate|].
  destruct ((now <? d_start d) || (d_end d <? now)) eqn:E; [discriminate|]. lia.
Qed.

(* trigger times that lie in (0, now]: what holds when the clock does not run backwards and results
   are not stamped in the future *)
Definition trig_sane (now : Z) (d : dt) : Prop := d_trigger d = 0 \/ 0 < d_trigger d <= now.

Lemma flex_can_untriggered now d :
  trig_sane now d -> d_fixed d = false -> dt_can_be_triggered now d = true -> d_trigger d = 0.
Proof.
  intros [H|H] Hf Hc; [exact H|]. exfalso. revert Hc.
  unfold dt_can_be_triggered, dt_is_expired, dt_is_triggered, dt_in_effect. rewrite Hf. zb.
Qed.

Lemma fixed_can_triggered now d :
  trig_sane now d -> d_fixed d = true -> dt_can_be_triggered now d = true -> d_trigger d <> 0 -> now = d_end d.
Proof.
  intros [H|H] Hf Hc Hn; [contradiction|]. revert Hc.
  unfold dt_can_be_triggered, dt_is_expired, dt_is_triggered, dt_in_effect. rewrite Hf. zb.
Qed.

(* since /repo 51cd8e9 a fixed downtime that was triggered is never triggerable again *)
Lemma fixed_can_untriggered now d :
  trig_sane now d -> d_fixed d = true -> dt_can_be_triggered now d = true -> d_trigger d = 0.
Proof.
  intros [H|H] Hf Hc; [exact H|]. exfalso. revert Hc.
  unfold dt_can_be_triggered, dt_is_expired, dt_is_triggered, dt_in_effect. rewrite Hf. zb.
Qed.

(* ------------------------------------------------------------------ the step relation on one downtime *)

Definition R1 (now t : Z) (d d' : dt) : Prop :=
  d' = d \/ (d_trigger d = 0 /\ c5_inwin now d = true /\ d' = set_trig d t).
Definition Rl (now t : Z) : list dt -> list dt -> Prop := Forall2 (R1 now t).

Lemma R1_refl now t d : R1 now t d d. Proof. left. reflexivity. Qed.
Lemma Rl_refl now t ds : Rl now t ds ds.
Proof. induction ds; constructor; [apply R1_refl|assumption]. Qed.

Lemma R1_trans now t a b c : R1 now t a b -> R1 now t b c -> R1 now t a c.
Proof.
  intros [->|(H1 & H2 & ->)] [->|(H3 & H4 & ->)].
  - left; reflexivity.
  - right. auto.
  - right. auto.
  - right. repeat split; try assumption.
Qed.

Lemma Rl_trans now t a b c : Rl now t a b -> Rl now t b c -> Rl now t a c.
Proof.
  intros H. revert c. induction H; intros c Hc; inversion Hc; subst; constructor.
  - eapply R1_trans; eassumption.
  - apply IHForall2. assumption.
Qed.

Lemma R1_id now t d d' : R1 now t d d' -> d_id d' = d_id d.
Proof. intros [->|(_ & _ & ->)]; reflexivity. Qed.

Lemma Rl_ids now t ds ds' : Rl now t ds ds' -> ids ds' = ids ds.
Proof. unfold ids. induction 1; cbn; [reflexivity|]. f_equal; [eapply R1_id; eassumption|assumption]. Qed.

Lemma Rl_length now t ds ds' : Rl now t ds ds' -> length ds' = length ds.
Proof. induction 1; cbn; [reflexivity|]. f_equal. assumption. Qed.

Lemma Rl_in now t ds ds' d' : Rl now t ds ds' -> In d' ds' -> exists d, In d ds /\ R1 now t d d'.
Proof.
  induction 1; intros Hin; [destruct Hin|]. destruct Hin as [<-|Hin].
  - eexists; split; [left; reflexivity|assumption].
  - destruct (IHForall2 Hin) as (d & Hd & HR). exists d. split; [right; exact Hd|exact HR].
Qed.

Lemma Rl_in_l now t ds ds' d : Rl now t ds ds' -> In d ds -> exists d', In d' ds' /\ R1 now t d d'.
Proof.
  induction 1; intros Hin; [destruct Hin|]. destruct Hin as [<-|Hin].
  - eexists; split; [left; reflexivity|assumption].
  - destruct (IHForall2 Hin) as (d' & Hd & HR). exists d'. split; [right; exact Hd|exact HR].
Qed.

Lemma upd_trigger_Rl now t id ds d :
  NoDup (ids ds) -> find_dt id ds = Some d -> d_trigger d = 0 -> c5_inwin now d = true ->
  Rl now t ds (upd_trigger id t ds).
Proof.
  intros Hnd Hf Ht Hw. apply find_dt_some in Hf. destruct Hf as [Hin Hid]. subst id.
  unfold upd_trigger, Rl.
  assert (forall l, incl l ds -> Forall2 (R1 now t) l (map (fun d0 => if d_id d0 =? d_id d then set_trig d0 t else d0) l)) as H.
  { induction l as [|x l IH]; intros Hincl; cbn; constructor.
    - destruct (d_id x =? d_id d) eqn:E; [|left; reflexivity].
      assert (x = d) as ->.
      { assert (In x ds) as Hx by (apply Hincl; left; reflexivity).
        pose proof (find_dt_nodup ds x Hnd Hx) as F1. pose proof (find_dt_nodup ds d Hnd Hin) as F2.
        apply Z.eqb_eq in E. rewrite E in F1. congruence. }
      right. auto.
    - apply IH. intros y Hy. apply Hincl. right. exact Hy. }
  apply H. apply incl_refl.
Qed.

(* the main structural lemma: whatever TriggerDowntime does, every downtime is either untouched or was
   untriggered, inside its window, and now carries the trigger time passed in *)
Lemma trigger_dt_Rl fuel : forall now p id t ds,
  NoDup (ids ds) -> Rl now t ds (fst (trigger_dt fuel now p id t ds)).
Proof.
  induction fuel as [|fuel IH]; intros now p id t ds Hnd; cbn; [apply Rl_refl|].
  destruct (find_dt id ds) as [d|] eqn:Hf; [|apply Rl_refl].
  destruct (dt_can_be_triggered now d) eqn:Hc; cbn; [|apply Rl_refl].
  set (ds1 := if d_trigger d =? 0 then upd_trigger id t ds else ds).
  assert (Rl now t ds ds1) as H1.
  { unfold ds1. destruct (d_trigger d =? 0) eqn:E; [|apply Rl_refl].
    apply upd_trigger_Rl with d; try assumption; [lia|apply can_inwin; exact Hc]. }
  match goal with |- context [fold_left ?f ?l ?a] =>
    assert (Rl now t ds (fst (fold_left f l a))) as H2 end.
  { apply fold_left_inv with (Q := fun acc => Rl now t ds (fst acc)); [exact H1|].
    intros [dsa oa] cid _ Ha. cbn in Ha.
    pose proof (IH now p cid t dsa) as Hi.
    destruct (trigger_dt fuel now p cid t dsa) as [dsb ob]. cbn in *.
    eapply Rl_trans; [exact Ha|]. apply Hi. rewrite (Rl_ids _ _ _ _ Ha). exact Hnd. }
  match goal with |- context [fold_left ?f ?l ?a] => destruct (fold_left f l a) as [ds2 o2] end.
  exact H2.
Qed.

(* events of TriggerDowntime: only DowntimeStart requests and OnDowntimeTriggered *)
Definition trig_out (o : out) : Prop :=
  match o with ONotify NDowntimeStart | ODtTriggered _ => True | _ => False end.

Lemma trigger_dt_outs fuel : forall now p id t ds, Forall trig_out (snd (trigger_dt fuel now p id t ds)).
Proof.
  induction fuel as [|fuel IH]; intros now p id t ds; cbn; [constructor|].
  destruct (find_dt id ds) as [d|]; [|constructor].
  destruct (dt_can_be_triggered now d); cbn; [|constructor].
  match goal with |- context [fold_left ?f ?l ?a] =>
    assert (Forall trig_out (snd (fold_left f l a))) as H2 end.
  { apply fold_left_inv with (Q := fun acc => Forall trig_out (snd acc)); [constructor|].
    intros [dsa oa] cid _ Ha. cbn in Ha. pose proof (IH now p cid t dsa) as Hi.
    destruct (trigger_dt fuel now p cid t dsa) as [dsb ob]. cbn in *. apply Forall_app. split; assumption. }
  match goal with |- context [fold_left ?f ?l ?a] => destruct (fold_left f l a) as [ds2 o2] end.
  cbn in *. apply Forall_app. split; [exact H2|]. apply Forall_app. split.
  - destruct (negb (d_fixed d) && negb p); repeat constructor.
  - repeat constructor.
Qed.

(* Checkable::TriggerDowntimes *)
Lemma trigger_all_Rl now p t ds : NoDup (ids ds) -> Rl now t ds (fst (trigger_all now p t ds)).
Proof.
  intros Hnd. unfold trigger_all.
  apply fold_left_inv with (Q := fun acc => Rl now t ds (fst acc)); [apply Rl_refl|].
  intros [dsa oa] id _ Ha. cbn in Ha.
  pose proof (trigger_dt_Rl (chain_fuel dsa) now p id t dsa) as Hi.
  destruct (trigger_dt (chain_fuel dsa) now p id t dsa) as [dsb ob]. cbn in *.
  eapply Rl_trans; [exact Ha|]. apply Hi. rewrite (Rl_ids _ _ _ _ Ha). exact Hnd.
Qed.

Lemma trigger_all_outs now p t ds : Forall trig_out (snd (trigger_all now p t ds)).
Proof.
  unfold trigger_all.
  apply fold_left_inv with (Q := fun acc => Forall trig_out (snd acc)); [constructor|].
  intros [dsa oa] id _ Ha. cbn in Ha.
  pose proof (trigger_dt_outs (chain_fuel dsa) now p id t dsa) as Hi.
  destruct (trigger_dt (chain_fuel dsa) now p id t dsa) as [dsb ob]. cbn in *. apply Forall_app. split; assumption.
Qed.

(* completeness of one TriggerDowntime call on the downtime it is called for *)
Lemma trigger_dt_self fuel now p id t ds d :
  NoDup (ids ds) -> find_dt id ds = Some d -> dt_can_be_triggered now d = true -> d_trigger d = 0 ->
  find_dt id (fst (trigger_dt (S fuel) now p id t ds)) = Some (set_trig d t).
Proof.
  intros Hnd Hf Hc Ht. cbn. rewrite Hf, Hc. cbn. replace (d_trigger d =? 0) with true by lia.
  assert (NoDup (ids (upd_trigger id t ds))) as Hnd1.
  { rewrite (Rl_ids now t ds); [exact Hnd|]. apply upd_trigger_Rl with d; auto. apply can_inwin; exact Hc. }
  assert (find_dt id (upd_trigger id t ds) = Some (set_trig d t)) as Hf1.
  { destruct (find_dt_some _ _ _ Hf) as [Hin Hid].
    assert (In (set_trig d t) (upd_trigger id t ds)) as Hin'.
    { unfold upd_trigger. apply in_map_iff. exists d. split; [|exact Hin].
      replace (d_id d =? id) with true by lia. reflexivity. }
    pose proof (find_dt_nodup _ _ Hnd1 Hin') as F. cbn in F. rewrite Hid in F. exact F. }
  match goal with |- context [fold_left ?f ?l ?a] =>
    assert (let r := fold_left f l a in
            Rl now t (upd_trigger id t ds) (fst r)) as H2 end.
  { apply fold_left_inv with (Q := fun acc => Rl now t (upd_trigger id t ds) (fst acc)); [apply Rl_refl|].
    intros [dsa oa] cid _ Ha. cbn in Ha.
    pose proof (trigger_dt_Rl fuel now p cid t dsa) as Hi.
    destruct (trigger_dt fuel now p cid t dsa) as [dsb ob]. cbn in *.
    eapply Rl_trans; [exact Ha|]. apply Hi. rewrite (Rl_ids _ _ _ _ Ha). exact Hnd1. }
  match goal with |- context [fold_left ?f ?l ?a] => destruct (fold_left f l a) as [ds2 o2] end.
  cbn in *.
  destruct (find_dt_some _ _ _ Hf1) as [Hin1 Hid1].
  destruct (Rl_in_l _ _ _ _ _ H2 Hin1) as (d' & Hd' & HR).
  assert (d' = set_trig d t) as ->.
  { destruct HR as [->|(_ & _ & ->)]; [reflexivity|]. reflexivity. }
  assert (NoDup (ids ds2)) as Hnd2 by (rewrite (Rl_ids _ _ _ _ H2); exact Hnd1).
  pose proof (find_dt_nodup _ _ Hnd2 Hd') as F. cbn in F.
  destruct (find_dt_some _ _ _ Hf) as [_ Hid]. rewrite Hid in F. exact F.
Qed.

(* a downtime related by R1 to an untriggered one in its window ends up with trigger t once TriggerDowntime
   has been called for it *)
Lemma R1_after_set now t d a b :
  R1 now t d a -> a = set_trig d t -> R1 now t a b -> b = set_trig d t.
Proof.
  intros _ -> [->|(_ & _ & ->)]; reflexivity.
Qed.

(* completeness of a loop of TriggerDowntime calls (with at least one unit of fuel each): every untriggered
   downtime inside its window whose name is in the list gets trigger time t *)
Lemma fold_trigger_complete (fu : list dt -> nat) now p t ds d :
  (forall dsa, exists n, fu dsa = S n) ->
  NoDup (ids ds) -> In d ds -> d_trigger d = 0 -> c5_inwin now d = true ->
  forall l acc,
    Rl now t ds (fst acc) ->
    (In (d_id d) l \/ find_dt (d_id d) (fst acc) = Some (set_trig d t)) ->
    find_dt (d_id d)
      (fst (fold_left (fun acc id => let '(dsa, oa) := acc in
                                     let '(dsb, ob) := trigger_dt (fu dsa) now p id t dsa in
                                     (dsb, oa ++ ob)) l acc)) = Some (set_trig d t) /\
    Rl now t ds
      (fst (fold_left (fun acc id => let '(dsa, oa) := acc in
                                     let '(dsb, ob) := trigger_dt (fu dsa) now p id t dsa in
                                     (dsb, oa ++ ob)) l acc)).
Proof.
  intros Hfu Hnd Hin Ht Hw.
  induction l as [|id l IH]; intros [dsa oa] Ha Hor; cbn [fold_left].
  - destruct Hor as [[]|Hor]. split; [exact Hor|exact Ha].
  - cbn [fst] in Ha. assert (NoDup (ids dsa)) as Hnda by (rewrite (Rl_ids _ _ _ _ Ha); exact Hnd).
    pose proof (trigger_dt_Rl (fu dsa) now p id t dsa Hnda) as Hi.
    destruct (trigger_dt (fu dsa) now p id t dsa) as [dsb ob] eqn:Etr. cbn [fst] in Hi.
    assert (NoDup (ids dsb)) as Hndb by (rewrite (Rl_ids _ _ _ _ Hi); exact Hnda).
    apply IH; [cbn [fst]; eapply Rl_trans; eassumption|]. cbn [fst].
    destruct (Rl_in_l _ _ _ _ _ Ha Hin) as (da & Hda & HRa).
    assert (find_dt (d_id d) dsa = Some da) as Fa.
    { pose proof (find_dt_nodup _ _ Hnda Hda) as F. rewrite (R1_id _ _ _ _ HRa) in F. exact F. }
    destruct (Rl_in_l _ _ _ _ _ Hi Hda) as (db & Hdb & HRb).
    assert (find_dt (d_id d) dsb = Some db) as Fb.
    { pose proof (find_dt_nodup _ _ Hndb Hdb) as F. rewrite (R1_id _ _ _ _ HRb), (R1_id _ _ _ _ HRa) in F. exact F. }
    assert (da = set_trig d t -> db = set_trig d t) as Hkeep.
    { intros ->. destruct HRb as [->|(_ & _ & ->)]; reflexivity. }
    cbn [fst] in Hor. destruct Hor as [[Hid|Hl]|Hdone].
    + right. rewrite Fb. f_equal. destruct HRa as [->|(_ & _ & ->)]; [|apply Hkeep; reflexivity].
      subst id. destruct (Hfu dsa) as (n & Hn). rewrite Hn in Etr.
      pose proof (trigger_dt_self n now p (d_id d) t dsa d Hnda Fa) as Hs.
      rewrite Etr in Hs. cbn [fst] in Hs. rewrite Fb in Hs.
      rewrite can_untriggered in Hs by exact Ht. specialize (Hs Hw Ht). congruence.
    + left. exact Hl.
    + right. rewrite Fb. f_equal. apply Hkeep. congruence.
Qed.

(* completeness of TriggerDowntimes: every untriggered downtime inside its window gets trigger time t *)
Lemma trigger_all_complete now p t ds d :
  NoDup (ids ds) -> In d ds -> d_trigger d = 0 -> c5_inwin now d = true ->
  find_dt (d_id d) (fst (trigger_all now p t ds)) = Some (set_trig d t).
Proof.
  intros Hnd Hin Ht Hw. unfold trigger_all.
  apply (fold_trigger_complete chain_fuel now p t ds d); try assumption.
  - intros dsa. unfold chain_fuel. eauto.
  - apply Rl_refl.
  - left. unfold ids. apply in_map. exact Hin.
Qed.

(* chained triggers: triggering a downtime (with at least two units of fuel, which chain_fuel always provides)
   triggers every downtime directly chained to it that is untriggered and inside its own window *)
Lemma trigger_dt_children n now p id t ds d c :
  NoDup (ids ds) -> find_dt id ds = Some d -> dt_can_be_triggered now d = true ->
  In (d_id c) (d_triggers d) -> In c ds -> d_trigger c = 0 -> c5_inwin now c = true ->
  find_dt (d_id c) (fst (trigger_dt (S (S n)) now p id t ds)) = Some (set_trig c t).
Proof.
  intros Hnd Hf Hc Hch Hin Ht Hw. cbn [trigger_dt]. rewrite Hf, Hc. cbn [negb].
  set (ds1 := if d_trigger d =? 0 then upd_trigger id t ds else ds).
  assert (Rl now t ds ds1) as H1.
  { unfold ds1. destruct (d_trigger d =? 0) eqn:E; [|apply Rl_refl].
    apply upd_trigger_Rl with d; try assumption; [lia|apply can_inwin; exact Hc]. }
  destruct (fold_trigger_complete (fun _ => S n) now p t ds c (fun _ => ex_intro _ n eq_refl) Hnd Hin Ht Hw
              (d_triggers d) (ds1, []) H1 (or_introl Hch)) as [HF _].
  match goal with |- context [fold_left ?f ?l ?a] => set (F := fold_left f l a) end.
  change (find_dt (d_id c) (fst F) = Some (set_trig c t)) in HF.
  destruct F as [ds2 o2]. cbn [fst] in *. exact HF.
Qed.

(* ================================================================== Part 2: whole operations *)

(* weak form of R1: the trigger time passed in is existential (the start timer uses one per downtime) *)
Definition Rw (now : Z) (d d' : dt) : Prop :=
  d' = d \/ (d_trigger d = 0 /\ c5_inwin now d = true /\ exists t, d' = set_trig d t).
Definition Rwl (now : Z) : list dt -> list dt -> Prop := Forall2 (Rw now).

Lemma R1_Rw now t d d' : R1 now t d d' -> Rw now d d'.
Proof. intros [->|(H1 & H2 & ->)]; [left; reflexivity|right; eauto]. Qed.
Lemma Rl_Rwl now t ds ds' : Rl now t ds ds' -> Rwl now ds ds'.
Proof. induction 1; constructor; [eapply R1_Rw; eassumption|assumption]. Qed.
Lemma Rwl_refl now ds : Rwl now ds ds.
Proof. induction ds; constructor; [left; reflexivity|assumption]. Qed.
Lemma Rw_trans now a b c : Rw now a b -> Rw now b c -> Rw now a c.
Proof.
  intros [->|(H1 & H2 & t & ->)] [->|(H3 & H4 & t' & ->)].
  - left; reflexivity.
  - right; eauto.
  - right; eauto.
  - right. repeat split; try assumption. exists t'. reflexivity.
Qed.
Lemma Rwl_trans now a b c : Rwl now a b -> Rwl now b c -> Rwl now a c.
Proof.
  intros H. revert c. induction H; intros c Hc; inversion Hc; subst; constructor.
  - eapply Rw_trans; eassumption.
  - apply IHForall2. assumption.
Qed.
Lemma Rw_id now d d' : Rw now d d' -> d_id d' = d_id d.
Proof. intros [->|(_ & _ & t & ->)]; reflexivity. Qed.
Lemma Rwl_ids now ds ds' : Rwl now ds ds' -> ids ds' = ids ds.
Proof. unfold ids. induction 1; cbn; [reflexivity|]. f_equal; [eapply Rw_id; eassumption|assumption]. Qed.
Lemma Rwl_in now ds ds' d' : Rwl now ds ds' -> In d' ds' -> exists d, In d ds /\ Rw now d d'.
Proof.
  induction 1; intros Hin; [destruct Hin|]. destruct Hin as [<-|Hin].
  - eexists; split; [left; reflexivity|assumption].
  - destruct (IHForall2 Hin) as (d & Hd & HR). exists d. split; [right; exact Hd|exact HR].
Qed.
Lemma Rwl_in_l now ds ds' d : Rwl now ds ds' -> In d ds -> exists d', In d' ds' /\ Rw now d d'.
Proof.
  induction 1; intros Hin; [destruct Hin|]. destruct Hin as [<-|Hin].
  - eexists; split; [left; reflexivity|assumption].
  - destruct (IHForall2 Hin) as (d' & Hd & HR). exists d'. split; [right; exact Hd|exact HR].
Qed.

Lemma same_static_refl d : c5_same_static d d = true.
Proof. unfold c5_same_static. rewrite !Z.eqb_refl, !eqb_reflx. reflexivity. Qed.
Lemma same_static_set d t : c5_same_static d (set_trig d t) = true.
Proof. unfold c5_same_static. cbn. rewrite !Z.eqb_refl, !eqb_reflx. reflexivity. Qed.
Lemma same_static_inwin now a b : c5_same_static a b = true -> c5_inwin now b = c5_inwin now a.
Proof.
  unfold c5_same_static, c5_inwin. intros H.
  repeat (apply andb_prop in H; destruct H as [H ?]).
  replace (d_start b) with (d_start a) by lia. replace (d_end b) with (d_end a) by lia. reflexivity.
Qed.

(* what every operation guarantees for each downtime that exists afterwards *)
Definition Mono (now : Z) (pre post : list dt) : Prop :=
  forall d', In d' post ->
    exists d, In d pre /\ d_id d = d_id d' /\ c5_same_static d d' = true /\
              ((d_trigger d = 0 /\ (d_trigger d' <> 0 -> c5_inwin now d = true)) \/ d_trigger d' = d_trigger d).

Lemma Rwl_Mono now pre post : Rwl now pre post -> Mono now pre post.
Proof.
  intros H d' Hin. destruct (Rwl_in _ _ _ _ H Hin) as (d & Hd & HR). exists d. split; [exact Hd|].
  destruct HR as [->|(H1 & H2 & t & ->)].
  - repeat split; [apply same_static_refl|right; reflexivity].
  - repeat split; [apply same_static_set|left; auto].
Qed.

Lemma Mono_filter now pre post g : Mono now pre post -> Mono now pre (filter g post).
Proof. intros H d' Hin. apply filter_In in Hin. apply H. tauto. Qed.

Lemma Mono_refl now ds : Mono now ds ds.
Proof. apply Rwl_Mono, Rwl_refl. Qed.

Lemma Mono_add_trigger now pre post p c : Mono now pre post -> Mono now pre (add_trigger p c post).
Proof.
  intros H d' Hin. unfold add_trigger in Hin. apply in_map_iff in Hin. destruct Hin as (x & <- & Hx).
  destruct (H x Hx) as (d & Hd & Hid & Hs & Ht). exists d.
  destruct ((d_id x =? p) && negb (existsb (Z.eqb c) (d_triggers x))); [|auto].
  cbn. repeat split; try assumption.
Qed.

Lemma add_trigger_ids p c ds : ids (add_trigger p c ds) = ids ds.
Proof.
  unfold ids, add_trigger. rewrite map_map. apply map_ext. intros x.
  destruct ((d_id x =? p) && negb (existsb (Z.eqb c) (d_triggers x))); reflexivity.
Qed.

(* from Mono to the two executable checks *)
Lemma Mono_checks now pre added post :
  NoDup (ids (pre ++ added)) -> Forall (fun d => d_trigger d = 0) added ->
  Mono now (pre ++ added) post ->
  forallb (fun d' =>
             match find_dt (d_id d') pre with
             | Some d => c5_same_static d d' && ((d_trigger d =? 0) || (d_trigger d' =? d_trigger d))
             | None => existsb (fun a => d_id d' =? d_id a) added
             end) post = true
  /\ forallb (c5_inwin now) (c5_newly pre post) = true.
Proof.
  intros Hnd Hadd HM. split.
  - apply forallb_forall. intros d' Hin. destruct (HM d' Hin) as (d & Hd & Hid & Hs & Ht).
    apply in_app_or in Hd. destruct Hd as [Hd|Hd].
    + assert (NoDup (ids pre)) as Hnd1.
      { unfold ids in *. rewrite map_app in Hnd. apply nodup_app_l in Hnd. exact Hnd. }
      rewrite <- Hid, (find_dt_nodup pre d Hnd1 Hd). rewrite Hs. cbn. destruct Ht as [[Ht _]|Ht]; lia.
    + destruct (find_dt (d_id d') pre) as [x|] eqn:F.
      * exfalso. apply find_dt_some in F. destruct F as [Fx Fid].
        unfold ids in Hnd. rewrite map_app in Hnd.
        apply (nodup_app_disj _ _ (d_id d') Hnd); [rewrite <- Fid; apply in_map; exact Fx|rewrite <- Hid; apply in_map; exact Hd].
      * apply existsb_exists. exists d. split; [exact Hd|lia].
  - apply forallb_forall. intros d' Hin. unfold c5_newly in Hin. apply filter_In in Hin.
    destruct Hin as [Hin Hp]. destruct (HM d' Hin) as (d & Hd & Hid & Hs & Ht).
    rewrite (same_static_inwin now d d' Hs).
    assert (d_trigger d = 0) as Hd0.
    { apply in_app_or in Hd. destruct Hd as [Hd|Hd].
      - assert (NoDup (ids pre)) as Hnd1.
        { unfold ids in *. rewrite map_app in Hnd. apply nodup_app_l in Hnd. exact Hnd. }
        unfold c5_trig_of in Hp. rewrite <- Hid, (find_dt_nodup pre d Hnd1 Hd) in Hp. lia.
      - rewrite Forall_forall in Hadd. apply Hadd. exact Hd. }
    destruct Ht as [[_ Ht]|Ht]; [apply Ht; lia|lia].
Qed.

(* ------------------------------------------------------------------ ProcessCheckResult, projected on the downtimes *)

Definition plain (o : out) : Prop :=
  match o with
  | ONotify NDowntimeStart | ONotify NDowntimeEnd | ODtTriggered _ | ODtRemoved _ | ORefused _ => False
  | _ => True
  end.

Lemma clear_ack_facts f :
  f_dts (fst (clear_ack f)) = f_dts f /\ f_paused (fst (clear_ack f)) = f_paused f /\
  f_lsc (fst (clear_ack f)) = f_lsc f /\ Forall plain (snd (clear_ack f)).
Proof.
  unfold clear_ack. cbn. repeat split. destruct (negb (ackt_eqb (f_ack f) AckNone)); repeat constructor.
Qed.

Lemma get_ack_facts now f :
  f_dts (snd (fst (get_ack now f))) = f_dts f /\ f_paused (snd (fst (get_ack now f))) = f_paused f /\
  f_lsc (snd (fst (get_ack now f))) = f_lsc f /\ Forall plain (snd (get_ack now f)).
Proof.
  unfold get_ack. destruct (negb (ackt_eqb (f_ack f) AckNone) && negb (f_ack_expiry f =? 0) && (f_ack_expiry f <? now)).
  - pose proof (clear_ack_facts f) as H. destruct (clear_ack f) as [f' o]. cbn in *. exact H.
  - cbn. repeat split. constructor.
Qed.

Lemma ack_on_change_facts k now sc ns f :
  let r := ack_on_change k now sc ns f in
  f_dts (fst r) = f_dts f /\ f_paused (fst r) = f_paused f /\ f_lsc (fst r) = f_lsc f /\ Forall plain (snd r).
Proof.
  unfold ack_on_change. destruct sc; [|cbn; repeat split; constructor].
  pose proof (get_ack_facts now f) as H1. destruct (get_ack now f) as [[a fa] oa]. cbn [fst snd] in H1.
  destruct H1 as (A1 & A2 & A3 & A4).
  destruct (ackt_eqb a AckNormal).
  - pose proof (clear_ack_facts fa) as H2. destruct (clear_ack fa) as [fb ob]. cbn [fst snd] in *.
    destruct H2 as (B1 & B2 & B3 & B4). repeat split; try congruence. apply Forall_app; split; assumption.
  - pose proof (get_ack_facts now fa) as H2. destruct (get_ack now fa) as [[a2 fa2] oa2]. cbn [fst snd] in H2.
    destruct H2 as (B1 & B2 & B3 & B4).
    destruct (ackt_eqb a2 AckSticky && is_ok k ns).
    + pose proof (clear_ack_facts fa2) as H3. destruct (clear_ack fa2) as [fb ob]. cbn [fst snd] in *.
      destruct H3 as (C1 & C2 & C3 & C4). repeat split; try congruence.
      apply Forall_app; split; [assumption|]. apply Forall_app; split; assumption.
    + cbn [fst snd]. repeat split; try congruence. apply Forall_app; split; assumption.
Qed.

Lemma do_result_shape c now r f :
  rejected now (f_st f) r = false ->
  let tr := if negb (is_ok (c_kind (fc_base c)) (r_state r))
            then trigger_all now (f_paused f) (r_end r) (f_dts f) else (f_dts f, []) in
  f_dts (fst (do_result c now r f)) = fst tr /\
  (f_lsc (fst (do_result c now r f)) = f_lsc f \/ f_lsc (fst (do_result c now r f)) = r_end r) /\
  exists oa ob, snd (do_result c now r f) = oa ++ snd tr ++ ob /\ Forall plain oa /\ Forall plain ob.
Proof.
  intros Hrej tr. unfold do_result. rewrite Hrej.
  destruct (step_accept (fc_base c) (f_st f) r) as [s' i].
  match goal with |- context [ack_on_change ?k ?n ?sc ?ns ?f0] =>
    pose proof (ack_on_change_facts k n sc ns f0) as H1; destruct (ack_on_change k n sc ns f0) as [f1 o1] end.
  cbn [fst snd set_core f_dts f_paused f_lsc] in H1. destruct H1 as (A1 & A2 & A3 & A4).
  pose proof (get_ack_facts now f1) as H2. destruct (get_ack now f1) as [[a3 f2] o2]. cbn [fst snd] in H2.
  destruct H2 as (B1 & B2 & B3 & B4).
  rewrite B1, B2, A1, A2.
  fold tr. destruct tr as [ds3 o3].
  match goal with |- context [get_ack now ?f3] =>
    pose proof (get_ack_facts now f3) as H3; destruct (get_ack now f3) as [[a4 f4] o4] end.
  cbn [fst snd set_dts f_dts f_paused f_lsc] in H3. destruct H3 as (C1 & C2 & C3 & C4).
  remember (if ackt_eqb a3 AckNone then remove_ack_comments (Some (r_end r)) f4 else f4) as f5 eqn:E5.
  assert (f_dts f5 = f_dts f4 /\ f_lsc f5 = f_lsc f4) as (D1 & D3).
  { subst f5. destruct (ackt_eqb a3 AckNone); split; reflexivity. }
  clear E5.
  match goal with |- context [match ?X with pair _ _ => _ end] =>
    destruct X as [[sup_fs sup_fe] o_fl] eqn:EX end.
  assert (Forall plain o_fl) as P1.
  { revert EX. repeat match goal with |- context [if ?b then _ else _] => destruct b end;
      intros EX; inversion EX; subst; repeat constructor. }
  clear EX.
  match goal with |- context [match ?X with pair _ _ => _ end] =>
    destruct X as [[sup_p sup_r] o_st] eqn:EY end.
  assert (Forall plain o_st) as P2.
  { revert EY. repeat match goal with |- context [if ?b then _ else _] => destruct b end;
      intros EY; inversion EY; subst; repeat constructor. }
  clear EY.
  split; [|split].
  - destruct (sup_fs || sup_fe || sup_p || sup_r); cbn [fst set_core f_dts]; congruence.
  - destruct (sup_fs || sup_fe || sup_p || sup_r); cbn [fst set_core f_lsc]; rewrite D3, C3, B3, A3;
      destruct (i_state_change i); auto.
  - exists (o1 ++ o2), (o4 ++ [ONewResult] ++ [OStateChange (i_event i)] ++ o_fl ++ o_st).
    split; [|split].
    + destruct (sup_fs || sup_fe || sup_p || sup_r); cbn [snd]; rewrite <- !app_assoc; reflexivity.
    + apply Forall_app; split; assumption.
    + apply Forall_app; split; [assumption|]. repeat (apply Forall_cons; [exact I|]).
      apply Forall_app; split; assumption.
Qed.

(* ------------------------------------------------------------------ AddDowntime *)
Definition new_dt (now id : Z) (fixed : bool) (start end_ duration parent : Z) (owned : bool) : dt :=
  {| d_id := id; d_fixed := fixed; d_start := start; d_end := end_; d_duration := duration;
     d_entry := now; d_trigger := 0; d_triggers := []; d_parent := parent; d_owned := owned |}.

Lemma ids_app ds d : ids (ds ++ [d]) = ids ds ++ [d_id d].
Proof. unfold ids. rewrite map_app. reflexivity. Qed.

Lemma nodup_snoc (l : list Z) x : NoDup l -> ~ In x l -> NoDup (l ++ [x]).
Proof.
  induction l as [|a l IH]; cbn; intros H Hn; [repeat constructor; auto|].
  inversion H; subst. constructor.
  - intros Hin. apply in_app_or in Hin. destruct Hin as [Hin|[->|[]]]; [auto|]. apply Hn. left. reflexivity.
  - apply IH; [assumption|]. intros Hin. apply Hn. right. exact Hin.
Qed.

Lemma do_dt_add_Rwl c now id fixed start end_ dur trig_by parent owned f :
  NoDup (ids (f_dts f)) -> ~ In id (ids (f_dts f)) ->
  exists ds2,
    Rwl now (f_dts f ++ [new_dt now id fixed start end_ dur parent owned]) ds2 /\
    f_dts (fst (do_dt_add c now id fixed start end_ dur trig_by parent owned f)) =
      (if trig_by =? 0 then ds2 else add_trigger trig_by id ds2) /\
    f_lsc (fst (do_dt_add c now id fixed start end_ dur trig_by parent owned f)) = f_lsc f.
Proof.
  intros Hnd Hfresh. unfold do_dt_add. fold (new_dt now id fixed start end_ dur parent owned).
  set (d := new_dt now id fixed start end_ dur parent owned).
  set (ds0 := f_dts f ++ [d]).
  assert (NoDup (ids ds0)) as Hnd0.
  { unfold ds0. rewrite ids_app. apply nodup_snoc; assumption. }
  match goal with |- context [let '(ds1, o1) := ?X in _] => remember X as x1 eqn:E1 end.
  assert (Rwl now ds0 (fst x1)) as H1.
  { subst x1. destruct (negb fixed && s_has_cr (f_st f) && negb (is_ok (c_kind (fc_base c)) (s_raw (f_st f)))).
    - eapply Rl_Rwl. apply trigger_dt_Rl. exact Hnd0.
    - apply Rwl_refl. }
  clear E1. destruct x1 as [ds1 o1]. cbn [fst] in H1.
  assert (NoDup (ids ds1)) as Hnd1 by (rewrite (Rwl_ids _ _ _ H1); exact Hnd0).
  match goal with |- context [let '(ds2, o2) := ?X in _] => remember X as x2 eqn:E2 end.
  assert (Rwl now ds1 (fst x2)) as H2.
  { subst x2. destruct (find_dt id ds1) as [d1|]; [|apply Rwl_refl].
    destruct (fixed && dt_can_be_triggered now d1); [|apply Rwl_refl].
    pose proof (trigger_dt_Rl (chain_fuel ds1) now (f_paused f) id (Z.max start now) ds1 Hnd1) as Hi.
    destruct (trigger_dt (chain_fuel ds1) now (f_paused f) id (Z.max start now) ds1) as [dsx ox].
    cbn [fst] in *. eapply Rl_Rwl. exact Hi. }
  clear E2. destruct x2 as [ds2 o2]. cbn [fst] in H2.
  exists ds2. split; [eapply Rwl_trans; eassumption|]. split; reflexivity.
Qed.

(* ------------------------------------------------------------------ start timer *)
Lemma do_dt_start_timer_Rwl now f :
  NoDup (ids (f_dts f)) ->
  Rwl now (f_dts f) (f_dts (fst (do_dt_start_timer now f))) /\
  f_lsc (fst (do_dt_start_timer now f)) = f_lsc f.
Proof.
  intros Hnd. unfold do_dt_start_timer.
  match goal with |- context [fold_left ?g ?l ?a] =>
    assert (Rwl now (f_dts f) (fst (fold_left g l a))) as H end.
  { apply fold_left_inv with (Q := fun acc => Rwl now (f_dts f) (fst acc)); [apply Rwl_refl|].
    intros [dsa oa] id _ Ha. cbn [fst] in Ha.
    destruct (find_dt id dsa) as [d|]; [|exact Ha].
    destruct (dt_can_be_triggered now d && d_fixed d); [|exact Ha].
    assert (NoDup (ids dsa)) as Hnda by (rewrite (Rwl_ids _ _ _ Ha); exact Hnd).
    pose proof (trigger_dt_Rl (chain_fuel dsa) now (f_paused f) id (Z.max (d_start d) (d_entry d)) dsa Hnda) as Hi.
    destruct (trigger_dt (chain_fuel dsa) now (f_paused f) id (Z.max (d_start d) (d_entry d)) dsa) as [dsb ob].
    cbn [fst] in *. eapply Rwl_trans; [exact Ha|]. eapply Rl_Rwl. exact Hi. }
  match goal with |- context [fold_left ?g ?l ?a] => destruct (fold_left g l a) as [ds o] end.
  cbn [fst set_dts f_dts f_lsc] in *. split; [exact H|reflexivity].
Qed.

(* ------------------------------------------------------------------ RemoveDowntime: the survivors are a filter *)
Lemma filter_filter {A} (g1 g2 : A -> bool) l : filter g2 (filter g1 l) = filter (fun x => g1 x && g2 x) l.
Proof.
  induction l as [|a l IH]; cbn; [reflexivity|]. destruct (g1 a); cbn; [destruct (g2 a)|]; rewrite IH; reflexivity.
Qed.
Lemma filter_true {A} (l : list A) : filter (fun _ => true) l = l.
Proof. induction l; cbn; congruence. Qed.

Lemma remove_dt_filter fuel : forall now p id ch r ds,
  exists g, fst (fst (remove_dt fuel now p id ch r ds)) = filter g ds.
Proof.
  induction fuel as [|fuel IH]; intros now p id ch r ds; cbn [remove_dt].
  - exists (fun _ => true). cbn. symmetry. apply filter_true.
  - destruct (find_dt id ds) as [d|]; [|exists (fun _ => true); cbn; symmetry; apply filter_true].
    destruct (d_owned d && match r with RByUser => true | _ => false end);
      [exists (fun _ => true); cbn; symmetry; apply filter_true|].
    match goal with |- context [fold_left ?g ?l ?a] =>
      assert (exists g0, fst (fst (fold_left g l a)) = filter g0 ds) as H end.
    { apply fold_left_inv with (Q := fun acc => exists g0, fst (fst acc) = filter g0 ds).
      - exists (fun _ => true). cbn. symmetry. apply filter_true.
      - intros [[dsa oa] oka] k _ (g0 & Hg). cbn [fst] in Hg. destruct oka; [|exists g0; exact Hg].
        destruct (IH now p k true r dsa) as (g1 & Hg1).
        destruct (remove_dt fuel now p k true r dsa) as [[dsb ob] okb]. cbn [fst] in *.
        exists (fun x => g0 x && g1 x). rewrite Hg1, Hg. apply filter_filter. }
    match goal with |- context [fold_left ?g ?l ?a] => destruct (fold_left g l a) as [[ds1 o1] ok1] end.
    cbn [fst] in H. destruct H as (g0 & Hg0).
    destruct (negb ok1); [exists g0; exact Hg0|].
    destruct (find_dt id ds1); [|exists g0; exact Hg0].
    cbn [fst]. exists (fun x => g0 x && negb (d_id x =? id)). rewrite Hg0. apply filter_filter.
Qed.

Lemma nodup_ids_filter g ds : NoDup (ids ds) -> NoDup (ids (filter g ds)).
Proof.
  unfold ids. induction ds as [|a l IH]; cbn; intros H; [constructor|]. inversion H; subst.
  destruct (g a); cbn; [constructor|]; auto.
  intros Hin. apply H2. apply in_map_iff in Hin. destruct Hin as (x & Hx & Hin). apply filter_In in Hin.
  apply in_map_iff. exists x. tauto.
Qed.

Lemma do_dt_remove_filter now id ch r f :
  exists g, f_dts (fst (do_dt_remove now id ch r f)) = filter g (f_dts f) /\
            f_lsc (fst (do_dt_remove now id ch r f)) = f_lsc f.
Proof.
  unfold do_dt_remove.
  destruct (remove_dt_filter (chain_fuel (f_dts f)) now (f_paused f) id ch r (f_dts f)) as (g & Hg).
  destruct (remove_dt (chain_fuel (f_dts f)) now (f_paused f) id ch r (f_dts f)) as [[ds o] ok].
  cbn [fst] in *. exists g. split; [exact Hg|reflexivity].
Qed.

Lemma do_dt_cleanup_filter now id f :
  exists g, f_dts (fst (do_dt_cleanup now id f)) = filter g (f_dts f) /\
            f_lsc (fst (do_dt_cleanup now id f)) = f_lsc f.
Proof.
  unfold do_dt_cleanup.
  destruct (find_dt id (f_dts f)) as [d|]; [|exists (fun _ => true); split; [symmetry; apply filter_true|reflexivity]].
  destruct (dt_is_expired now d); [apply do_dt_remove_filter|].
  exists (fun _ => true); split; [symmetry; apply filter_true|reflexivity].
Qed.

(* ================================================================== Part 3: RemoveDowntime in full *)

Definition is_user (r : rreason) : bool := match r with RByUser => true | _ => false end.

Lemma cnt_app p a b : c5_cnt p (a ++ b) = c5_cnt p a + c5_cnt p b.
Proof. unfold c5_cnt. rewrite filter_app, app_length. lia. Qed.
Lemma rem_ids_app a b : c5_rem_ids (a ++ b) = c5_rem_ids a ++ c5_rem_ids b.
Proof. induction a as [|x a IH]; cbn; [reflexivity|]. destruct x; cbn; rewrite ?IH; reflexivity. Qed.
Lemma trig_ids_app a b : c5_trig_ids (a ++ b) = c5_trig_ids a ++ c5_trig_ids b.
Proof. induction a as [|x a IH]; cbn; [reflexivity|]. destruct x; cbn; rewrite ?IH; reflexivity. Qed.
Lemma mem_app i a b : c5_mem i (a ++ b) = c5_mem i a || c5_mem i b.
Proof. unfold c5_mem. apply existsb_app. Qed.
Lemma mem_In i l : c5_mem i l = true <-> In i l.
Proof.
  unfold c5_mem. rewrite existsb_exists. split.
  - intros (x & Hx & E). apply Z.eqb_eq in E. subst. exact Hx.
  - intros H. exists i. split; [exact H|apply Z.eqb_refl].
Qed.

Definition RemSpec (now : Z) (p : bool) (r : rreason) (ds ds' : list dt) (o : list out) : Prop :=
  ds' = filter (fun x => negb (c5_mem (d_id x) (c5_rem_ids o))) ds /\
  NoDup (c5_rem_ids o) /\
  (forall i, In i (c5_rem_ids o) -> exists d, In d ds /\ d_id d = i /\ d_owned d && is_user r = false) /\
  c5_cnt c5_is_end o =
    (if p then 0 else Z.of_nat (length (filter (dt_is_triggered now)
                                               (filter (fun x => c5_mem (d_id x) (c5_rem_ids o)) ds)))) /\
  c5_cnt c5_is_start o = 0 /\ c5_cnt c5_is_ref4 o = 0.

Lemma RemSpec_nil now p r ds : RemSpec now p r ds ds [].
Proof.
  unfold RemSpec. cbn. repeat split.
  - symmetry. apply filter_true.
  - constructor.
  - intros i [].
  - destruct p; [reflexivity|]. induction ds; cbn; auto.
Qed.

Lemma filter_ext_in' {A} (f g : A -> bool) l : (forall x, In x l -> f x = g x) -> filter f l = filter g l.
Proof.
  induction l as [|a l IH]; intros H; cbn; [reflexivity|].
  rewrite (H a (or_introl eq_refl)). rewrite IH; [reflexivity|]. intros x Hx. apply H. right. exact Hx.
Qed.

Lemma split_count (T : dt -> bool) (ma mb : dt -> bool) ds :
  length (filter T (filter (fun x => ma x || mb x) ds)) =
  (length (filter T (filter ma ds)) + length (filter T (filter mb (filter (fun x => negb (ma x)) ds))))%nat.
Proof.
  induction ds as [|x ds IH]; cbn; [reflexivity|].
  destruct (ma x); cbn.
  - destruct (T x); cbn; rewrite IH; reflexivity.
  - destruct (mb x); cbn; [destruct (T x); cbn|]; rewrite IH; lia.
Qed.

Lemma RemSpec_compose now p r ds dsa dsb oa ob :
  NoDup (ids ds) -> RemSpec now p r ds dsa oa -> RemSpec now p r dsa dsb ob -> RemSpec now p r ds dsb (oa ++ ob).
Proof.
  intros Hnd (A1 & A2 & A3 & A4 & A5 & A6) (B1 & B2 & B3 & B4 & B5 & B6).
  unfold RemSpec. rewrite rem_ids_app, !cnt_app.
  assert (forall i, In i (c5_rem_ids ob) -> ~ In i (c5_rem_ids oa)) as Hdisj.
  { intros i Hb Ha. destruct (B3 i Hb) as (d & Hd & Hid & _). rewrite A1 in Hd. apply filter_In in Hd.
    destruct Hd as [_ Hd]. apply negb_true_iff in Hd. rewrite Hid in Hd.
    apply mem_In in Ha. congruence. }
  repeat split.
  - rewrite B1, A1, filter_filter. apply filter_ext_in'. intros x _. rewrite mem_app, negb_orb. reflexivity.
  - clear - A2 B2 Hdisj. induction (c5_rem_ids oa) as [|a l IH]; cbn; [exact B2|].
    inversion A2; subst. constructor.
    + intros Hin. apply in_app_or in Hin. destruct Hin as [Hin|Hin]; [auto|]. apply (Hdisj a Hin). left. reflexivity.
    + apply IH; [assumption|]. intros i Hb Ha. apply (Hdisj i Hb). right. exact Ha.
  - intros i Hin. apply in_app_or in Hin. destruct Hin as [Hin|Hin]; [apply A3; exact Hin|].
    destruct (B3 i Hin) as (d & Hd & Hid & Ho). exists d. rewrite A1 in Hd. apply filter_In in Hd.
    repeat split; tauto.
  - rewrite A4, B4. destruct p; [reflexivity|].
    rewrite (filter_ext_in' (fun x => c5_mem (d_id x) (c5_rem_ids oa ++ c5_rem_ids ob))
                            (fun x => c5_mem (d_id x) (c5_rem_ids oa) || c5_mem (d_id x) (c5_rem_ids ob)))
      by (intros x _; apply mem_app).
    rewrite split_count. rewrite <- A1. lia.
  - lia.
  - lia.
Qed.

Lemma filter_id_single ds d id :
  NoDup (ids ds) -> find_dt id ds = Some d -> filter (fun x => d_id x =? id) ds = [d].
Proof.
  unfold find_dt, ids. induction ds as [|x ds IH]; cbn; intros Hnd Hf; [discriminate|].
  inversion Hnd; subst. destruct (d_id x =? id) eqn:E.
  - inversion Hf; subst. f_equal.
    assert (forall l, ~ In (d_id d) (map d_id l) -> filter (fun x => d_id x =? id) l = []) as Hn.
    { induction l as [|y l IHl]; cbn; intros Hni; [reflexivity|].
      destruct (d_id y =? id) eqn:E2; [exfalso; apply Hni; left; lia|]. apply IHl. tauto. }
    apply Hn. exact H1.
  - apply IH; assumption.
Qed.

Lemma RemSpec_single now p r ds d id :
  NoDup (ids ds) -> find_dt id ds = Some d -> d_owned d && is_user r = false ->
  RemSpec now p r ds (filter (fun x => negb (d_id x =? id)) ds)
          ([ODtRemoved id] ++ (if dt_is_triggered now d && negb p then [ONotify NDowntimeEnd] else [])).
Proof.
  intros Hnd Hf Ho.
  assert (c5_rem_ids ([ODtRemoved id] ++ (if dt_is_triggered now d && negb p then [ONotify NDowntimeEnd] else [])) = [id]) as Hr.
  { cbn. destruct (dt_is_triggered now d && negb p); reflexivity. }
  unfold RemSpec. rewrite Hr. repeat split.
  - apply filter_ext_in'. intros x _. unfold c5_mem. cbn. rewrite orb_false_r. reflexivity.
  - repeat constructor. intros [].
  - intros i [<-|[]]. exists d. destruct (find_dt_some _ _ _ Hf). repeat split; assumption.
  - rewrite (filter_ext_in' (fun x => c5_mem (d_id x) [id]) (fun x => d_id x =? id))
      by (intros x _; unfold c5_mem; cbn; rewrite orb_false_r; reflexivity).
    rewrite (filter_id_single ds d id Hnd Hf). cbn.
    destruct (dt_is_triggered now d), p; reflexivity.
  - cbn. destruct (dt_is_triggered now d && negb p); reflexivity.
  - cbn. destruct (dt_is_triggered now d && negb p); reflexivity.
Qed.

Lemma RemSpec_nodup now p r ds ds' o : NoDup (ids ds) -> RemSpec now p r ds ds' o -> NoDup (ids ds').
Proof. intros Hnd (A1 & _). rewrite A1. apply nodup_ids_filter. exact Hnd. Qed.

Lemma remove_dt_spec fuel : forall now p id ch r ds,
  NoDup (ids ds) ->
  let res := remove_dt fuel now p id ch r ds in
  RemSpec now p r ds (fst (fst res)) (snd (fst res)).
Proof.
  induction fuel as [|fuel IH]; intros now p id ch r ds Hnd; cbn [remove_dt]; cbn zeta.
  - cbn. apply RemSpec_nil.
  - destruct (find_dt id ds) as [d|] eqn:Hf; [|cbn; apply RemSpec_nil].
    fold (is_user r).
    destruct (d_owned d && is_user r) eqn:Ho; [cbn; apply RemSpec_nil|].
    match goal with |- context [fold_left ?g ?l ?a] =>
      assert (RemSpec now p r ds (fst (fst (fold_left g l a))) (snd (fst (fold_left g l a)))) as H end.
    { apply fold_left_inv with (Q := fun acc => RemSpec now p r ds (fst (fst acc)) (snd (fst acc))).
      - cbn. apply RemSpec_nil.
      - intros [[dsa oa] oka] k _ Ha. cbn [fst snd] in Ha. destruct oka; [|exact Ha].
        pose proof (IH now p k true r dsa (RemSpec_nodup _ _ _ _ _ _ Hnd Ha)) as Hi. cbn zeta in Hi.
        destruct (remove_dt fuel now p k true r dsa) as [[dsb ob] okb]. cbn [fst snd] in *.
        eapply RemSpec_compose; eassumption. }
    match goal with |- context [fold_left ?g ?l ?a] => destruct (fold_left g l a) as [[ds1 o1] ok1] end.
    cbn [fst snd] in H.
    destruct (negb ok1); [exact H|].
    destruct (find_dt id ds1) as [d1|] eqn:Hf1; [|exact H].
    cbn [fst snd].
    eapply RemSpec_compose; [exact Hnd|exact H|].
    apply RemSpec_single; [eapply RemSpec_nodup; eassumption|exact Hf1|].
    (* d1 is d *)
    destruct H as (A1 & _). destruct (find_dt_some _ _ _ Hf1) as [Hin1 Hid1].
    rewrite A1 in Hin1. apply filter_In in Hin1. destruct Hin1 as [Hin1 _].
    pose proof (find_dt_nodup ds d1 Hnd Hin1) as F. rewrite Hid1, Hf in F. inversion F; subst. exact Ho.
Qed.

(* ------------------------------------------------------------------ events of the non-removing operations *)
Definition quiet (o : list out) : Prop :=
  c5_rem_ids o = [] /\ c5_cnt c5_is_end o = 0 /\ c5_cnt c5_is_ref4 o = 0.

Lemma quiet_nil : quiet []. Proof. repeat split. Qed.
Lemma quiet_app a b : quiet a -> quiet b -> quiet (a ++ b).
Proof.
  intros (A1 & A2 & A3) (B1 & B2 & B3). unfold quiet. rewrite rem_ids_app, !cnt_app, A1, B1. repeat split; lia.
Qed.
Lemma trig_out_quiet o : Forall trig_out o -> quiet o.
Proof.
  induction 1 as [|x l Hx _ IH]; [apply quiet_nil|]. change (x :: l) with ([x] ++ l). apply quiet_app; [|exact IH].
  destruct x; try destruct Hx; try (destruct t; try destruct Hx); repeat split.
Qed.
Lemma plain_quiet o : Forall plain o -> quiet o /\ c5_cnt c5_is_start o = 0 /\ c5_trig_ids o = [].
Proof.
  induction 1 as [|x l Hx _ (IH1 & IH2 & IH3)]; [repeat split|].
  change (x :: l) with ([x] ++ l). rewrite cnt_app, trig_ids_app, IH2, IH3.
  split; [apply quiet_app; [|exact IH1]|];
    destruct x; try destruct Hx; try (destruct t; try destruct Hx); repeat split.
Qed.

Lemma has_true_in id ds : In id (ids ds) -> c5_has id ds = true.
Proof.
  intros Hin. unfold c5_has. destruct (find_dt id ds) eqn:E; [reflexivity|].
  exfalso. exact (find_dt_none _ _ E Hin).
Qed.

Lemma gone_nil pre post : incl (ids pre) (ids post) -> c5_gone pre post = [].
Proof.
  intros Hi. unfold c5_gone.
  assert (forall l, incl l pre -> filter (fun d => negb (c5_has (d_id d) post)) l = []) as H.
  { induction l as [|x l IH]; intros Hl; cbn; [reflexivity|].
    rewrite has_true_in; [cbn; apply IH; intros y Hy; apply Hl; right; exact Hy|].
    apply Hi. unfold ids. apply in_map. apply Hl. left. reflexivity. }
  apply H. apply incl_refl.
Qed.

(* the events of each non-removing operation are quiet *)
Lemma trigger_fold_outs_add c now id fixed start end_ dur trig_by parent owned f :
  quiet (snd (do_dt_add c now id fixed start end_ dur trig_by parent owned f)).
Proof.
  unfold do_dt_add.
  match goal with |- context [let '(ds1, o1) := ?X in _] => remember X as x1 eqn:E1 end.
  assert (Forall trig_out (snd x1)) as H1.
  { subst x1. destruct (negb fixed && s_has_cr (f_st f) && negb (is_ok (c_kind (fc_base c)) (s_raw (f_st f)))); [apply trigger_dt_outs|constructor]. }
  clear E1. destruct x1 as [ds1 o1]. cbn [snd] in H1.
  match goal with |- context [let '(ds2, o2) := ?X in _] => remember X as x2 eqn:E2 end.
  assert (Forall trig_out (snd x2)) as H2.
  { subst x2. destruct (find_dt id ds1) as [d1|]; [|constructor].
    destruct (fixed && dt_can_be_triggered now d1); [|constructor].
    pose proof (trigger_dt_outs (chain_fuel ds1) now (f_paused f) id (Z.max start now) ds1) as Hi.
    destruct (trigger_dt (chain_fuel ds1) now (f_paused f) id (Z.max start now) ds1) as [dsx ox]. cbn [snd] in *.
    apply Forall_app. split; [destruct (negb (f_paused f)); repeat constructor|exact Hi]. }
  clear E2. destruct x2 as [ds2 o2]. cbn [snd] in *.
  apply quiet_app; [apply trig_out_quiet; exact H1|]. apply quiet_app; [apply trig_out_quiet; exact H2|].
  repeat split.
Qed.

Lemma start_timer_outs now f : Forall trig_out (snd (do_dt_start_timer now f)).
Proof.
  unfold do_dt_start_timer.
  match goal with |- context [fold_left ?g ?l ?a] =>
    assert (Forall trig_out (snd (fold_left g l a))) as H end.
  { apply fold_left_inv with (Q := fun acc => Forall trig_out (snd acc)); [constructor|].
    intros [dsa oa] id _ Ha. cbn [snd] in Ha.
    destruct (find_dt id dsa) as [d|]; [|exact Ha].
    destruct (dt_can_be_triggered now d && d_fixed d); [|exact Ha].
    pose proof (trigger_dt_outs (chain_fuel dsa) now (f_paused f) id (Z.max (d_start d) (d_entry d)) dsa) as Hi.
    destruct (trigger_dt (chain_fuel dsa) now (f_paused f) id (Z.max (d_start d) (d_entry d)) dsa) as [dsb ob].
    cbn [snd] in *. apply Forall_app. split; [exact Ha|]. apply Forall_app. split; [|exact Hi].
    destruct (negb (f_paused f)); repeat constructor. }
  match goal with |- context [fold_left ?g ?l ?a] => destruct (fold_left g l a) as [ds o] end.
  exact H.
Qed.

Lemma result_outs_quiet c now r f : quiet (snd (do_result c now r f)).
Proof.
  destruct (rejected now (f_st f) r) eqn:Hrej.
  - unfold do_result. rewrite Hrej. repeat split.
  - destruct (do_result_shape c now r f Hrej) as (_ & _ & oa & ob & -> & Ha & Hb). cbn zeta.
    apply quiet_app; [apply plain_quiet; exact Ha|]. apply quiet_app; [|apply plain_quiet; exact Hb].
    destruct (negb (is_ok (c_kind (fc_base c)) (r_state r))); [apply trig_out_quiet, trigger_all_outs|apply quiet_nil].
Qed.

(* ------------------------------------------------------------------ the removal checks on a model step *)
Lemma gone_filter pre rem :
  NoDup (ids pre) ->
  c5_gone pre (filter (fun x => negb (c5_mem (d_id x) rem)) pre) = filter (fun x => c5_mem (d_id x) rem) pre.
Proof.
  intros Hnd. unfold c5_gone. apply filter_ext_in'. intros d Hd.
  destruct (c5_mem (d_id d) rem) eqn:E.
  - unfold c5_has. destruct (find_dt (d_id d) (filter (fun x => negb (c5_mem (d_id x) rem)) pre)) as [x|] eqn:F; [|reflexivity].
    apply find_dt_some in F. destruct F as [Fx Fid]. apply filter_In in Fx. destruct Fx as [_ Fx].
    rewrite Fid, E in Fx. discriminate.
  - rewrite has_true_in; [reflexivity|]. unfold ids. apply in_map. apply filter_In. split; [exact Hd|]. rewrite E. reflexivity.
Qed.

Lemma nodup_same_length (l1 l2 : list Z) :
  NoDup l1 -> NoDup l2 -> incl l1 l2 -> incl l2 l1 -> length l1 = length l2.
Proof.
  intros N1 N2 I1 I2. pose proof (NoDup_incl_length N1 I1). pose proof (NoDup_incl_length N2 I2). lia.
Qed.

Lemma RemSpec_checks now p r pre post o tail_ :
  NoDup (ids pre) -> RemSpec now p r pre post o -> c5_rem_ids tail_ = [] -> c5_cnt c5_is_end tail_ = 0 ->
  let gone := c5_gone pre post in
  let rem := c5_rem_ids (o ++ tail_) in
  (forallb (fun d => c5_mem (d_id d) rem) gone && forallb (fun i => c5_mem i (map d_id gone)) rem
   && (Z.of_nat (length rem) =? Z.of_nat (length gone))) = true /\
  c5_cnt c5_is_end (o ++ tail_) =
    (if p then 0 else Z.of_nat (length (filter (dt_is_triggered now) gone))) /\
  forallb (fun d => negb (d_owned d && is_user r) || c5_has (d_id d) post) pre = true.
Proof.
  intros Hnd (A1 & A2 & A3 & A4 & _ & _) Ht1 Ht2. cbn zeta.
  rewrite rem_ids_app, Ht1, app_nil_r, cnt_app, Ht2, Z.add_0_r.
  assert (c5_gone pre post = filter (fun x => c5_mem (d_id x) (c5_rem_ids o)) pre) as Hg.
  { rewrite A1. apply gone_filter. exact Hnd. }
  rewrite Hg. split; [|split].
  - apply andb_true_intro. split; [apply andb_true_intro; split|].
    + apply forallb_forall. intros d Hd. apply filter_In in Hd. tauto.
    + apply forallb_forall. intros i Hi. destruct (A3 i Hi) as (d & Hd & Hid & _).
      apply mem_In. rewrite <- Hid. apply in_map. apply filter_In. split; [exact Hd|].
      rewrite Hid. apply mem_In. exact Hi.
    + apply Z.eqb_eq. f_equal.
      rewrite <- (map_length d_id (filter (fun x => c5_mem (d_id x) (c5_rem_ids o)) pre)).
      apply nodup_same_length; [exact A2|apply (nodup_ids_filter _ _ Hnd)| |].
      * intros i Hi. destruct (A3 i Hi) as (d & Hd & Hid & _). rewrite <- Hid. apply in_map. apply filter_In.
        split; [exact Hd|]. rewrite Hid. apply mem_In. exact Hi.
      * intros i Hi. apply in_map_iff in Hi. destruct Hi as (d & Hid & Hd). apply filter_In in Hd.
        rewrite <- Hid. apply mem_In. tauto.
  - exact A4.
  - apply forallb_forall. intros d Hd. destruct (d_owned d && is_user r) eqn:Ho; [|reflexivity]. cbn.
    apply has_true_in. rewrite A1. unfold ids. apply in_map. apply filter_In. split; [exact Hd|].
    apply negb_true_iff. destruct (c5_mem (d_id d) (c5_rem_ids o)) eqn:E; [|reflexivity].
    apply mem_In in E. destruct (A3 _ E) as (d2 & Hd2 & Hid2 & Ho2).
    pose proof (find_dt_nodup pre d Hnd Hd) as F1. pose proof (find_dt_nodup pre d2 Hnd Hd2) as F2.
    rewrite Hid2 in F2. rewrite F1 in F2. inversion F2; subst. congruence.
Qed.

(* ================================================================== Part 4: counting DowntimeStart requests *)

(* number of downtimes that have not been triggered yet *)
Definition U (ds : list dt) : Z := Z.of_nat (length (filter (fun d => d_trigger d =? 0) ds)).
Definition sane (now : Z) (ds : list dt) : Prop := Forall (trig_sane now) ds.
(* no fixed downtime is chained to another downtime *)
Definition nofixedchain (ds : list dt) : Prop :=
  forall p cid c, In p ds -> In cid (d_triggers p) -> find_dt cid ds = Some c -> d_fixed c = false.

Lemma U_cons d ds : U (d :: ds) = (if d_trigger d =? 0 then 1 else 0) + U ds.
Proof. unfold U. cbn [filter]. destruct (d_trigger d =? 0); cbn [length]; lia. Qed.

Lemma Rl_sane now t ds ds' : 0 < t <= now -> sane now ds -> Rl now t ds ds' -> sane now ds'.
Proof.
  intros Ht Hs HR. unfold sane in *. induction HR; [constructor|]. inversion Hs; subst. constructor; [|apply IHHR; assumption].
  destruct H as [->|(_ & _ & ->)]; [assumption|]. right. cbn. exact Ht.
Qed.

Lemma R1_static now t d d' : R1 now t d d' -> d_triggers d' = d_triggers d /\ d_fixed d' = d_fixed d.
Proof. intros [->|(_ & _ & ->)]; split; reflexivity. Qed.

Lemma Rl_nofixedchain now t ds ds' : NoDup (ids ds) -> nofixedchain ds -> Rl now t ds ds' -> nofixedchain ds'.
Proof.
  intros Hnd Hn HR p' cid c' Hp' Hcid Hf.
  destruct (Rl_in _ _ _ _ _ HR Hp') as (p & Hp & Rp).
  destruct (find_dt_some _ _ _ Hf) as [Hc' Hid'].
  destruct (Rl_in _ _ _ _ _ HR Hc') as (c & Hc & Rc).
  destruct (R1_static _ _ _ _ Rp) as [Tp _]. destruct (R1_static _ _ _ _ Rc) as [_ Fc].
  rewrite Fc. apply (Hn p cid c Hp); [rewrite <- Tp; exact Hcid|].
  pose proof (find_dt_nodup ds c Hnd Hc) as F. rewrite <- (R1_id _ _ _ _ Rc), Hid' in F. exact F.
Qed.

Lemma upd_notin id t ds : ~ In id (ids ds) -> upd_trigger id t ds = ds.
Proof.
  unfold upd_trigger, ids. induction ds as [|x ds IH]; cbn; intros H; [reflexivity|].
  destruct (d_id x =? id) eqn:E; [exfalso; apply H; left; lia|]. f_equal. apply IH. tauto.
Qed.

Lemma U_upd t ds d :
  NoDup (ids ds) -> In d ds -> d_trigger d = 0 -> t <> 0 -> U (upd_trigger (d_id d) t ds) = U ds - 1.
Proof.
  unfold ids. induction ds as [|x ds IH]; intros Hnd Hin Ht Hn; [destruct Hin|].
  cbn [map] in Hnd. inversion Hnd; subst. destruct Hin as [->|Hin].
  - unfold upd_trigger. cbn [map]. rewrite Z.eqb_refl. fold (upd_trigger (d_id d) t ds).
    rewrite (upd_notin _ _ _ H1). rewrite !U_cons. cbn [d_trigger]. rewrite Ht.
    replace (0 =? 0) with true by reflexivity. replace (t =? 0) with false by lia. lia.
  - assert (d_id x =? d_id d = false) as E.
    { apply Z.eqb_neq. intros E. apply H1. rewrite E. apply in_map. exact Hin. }
    unfold upd_trigger. cbn [map]. rewrite E. fold (upd_trigger (d_id d) t ds). rewrite !U_cons, IH by assumption. lia.
Qed.

(* what one TriggerDowntime call contributes on top of the downtimes it newly triggers: a fixed downtime
   triggered by the call itself gets no DowntimeStart from TriggerDowntime (its caller sends it) *)
Definition extra_fixed (now : Z) (id : Z) (ds : list dt) : Z :=
  match find_dt id ds with
  | Some d => if d_fixed d && dt_can_be_triggered now d && (d_trigger d =? 0) then 1 else 0
  | None => 0
  end.

Lemma start_count_trigger fuel : forall now p id t ds,
  NoDup (ids ds) -> sane now ds -> 0 < t <= now -> nofixedchain ds ->
  (fuel <> O \/ extra_fixed now id ds = 0) ->
  c5_cnt c5_is_start (snd (trigger_dt fuel now p id t ds)) =
  (if p then 0 else U ds - U (fst (trigger_dt fuel now p id t ds)) - extra_fixed now id ds).
Proof.
  induction fuel as [|fuel IH]; intros now p id t ds Hnd Hs Ht Hn Hfu.
  - cbn. destruct Hfu as [Hfu|Hfu]; [contradiction|]. rewrite Hfu. destruct p; lia.
  - cbn [trigger_dt]. unfold extra_fixed. destruct (find_dt id ds) as [d|] eqn:Hf; [|cbn; destruct p; lia].
    destruct (dt_can_be_triggered now d) eqn:Hc; cbn [negb];
      [|cbn [fst snd]; rewrite andb_false_r; cbn; destruct p; lia].
    destruct (find_dt_some _ _ _ Hf) as [Hin Hid].
    assert (trig_sane now d) as Hsd by (unfold sane in Hs; rewrite Forall_forall in Hs; apply Hs; exact Hin).
    set (ds1 := if d_trigger d =? 0 then upd_trigger id t ds else ds).
    assert (Rl now t ds ds1) as H1.
    { unfold ds1. destruct (d_trigger d =? 0) eqn:E; [|apply Rl_refl].
      apply upd_trigger_Rl with d; try assumption; [lia|apply can_inwin; exact Hc]. }
    assert (U ds1 = U ds - (if d_trigger d =? 0 then 1 else 0)) as HU1.
    { unfold ds1. destruct (d_trigger d =? 0) eqn:E; [|lia]. rewrite <- Hid. apply U_upd; try assumption; lia. }
    assert (d_fixed d = false -> d_trigger d = 0) as Hflex.
    { intros Hfx. apply (flex_can_untriggered now d Hsd Hfx Hc). }
    (* the loop over the chained downtimes *)
    match goal with |- context [fold_left ?g ?l ?a] =>
      assert (let r := fold_left g l a in
              Rl now t ds1 (fst r) /\
              c5_cnt c5_is_start (snd r) = (if p then 0 else U ds1 - U (fst r))) as H2 end.
    { apply fold_left_inv with
        (Q := fun acc => Rl now t ds1 (fst acc) /\ c5_cnt c5_is_start (snd acc) = (if p then 0 else U ds1 - U (fst acc))).
      - split; [apply Rl_refl|]. cbn. destruct p; lia.
      - intros [dsa oa] cid Hcid [Ha Hca]. cbn [fst snd] in Ha, Hca.
        assert (Rl now t ds dsa) as Ha0 by (apply (Rl_trans _ _ _ _ _ H1 Ha)).
        assert (NoDup (ids dsa)) as Hnda by (rewrite (Rl_ids _ _ _ _ Ha0); exact Hnd).
        assert (sane now dsa) as Hsa by (apply (Rl_sane now t ds dsa Ht Hs Ha0)).
        assert (nofixedchain dsa) as Hna by (apply (Rl_nofixedchain now t ds dsa Hnd Hn Ha0)).
        assert (extra_fixed now cid dsa = 0) as Hex.
        { unfold extra_fixed. destruct (find_dt cid dsa) as [cc|] eqn:Fc; [|reflexivity].
          (* cid is chained to d: it is not fixed *)
          destruct (Rl_in_l _ _ _ _ _ Ha0 Hin) as (da & Hda & Rda).
          destruct (R1_static _ _ _ _ Rda) as [Tda _].
          rewrite (Hna da cid cc Hda); [reflexivity|rewrite Tda; exact Hcid|exact Fc]. }
        pose proof (IH now p cid t dsa Hnda Hsa Ht Hna (or_intror Hex)) as Hi.
        pose proof (trigger_dt_Rl fuel now p cid t dsa Hnda) as HRi.
        destruct (trigger_dt fuel now p cid t dsa) as [dsb ob]. cbn [fst snd] in *.
        split; [eapply Rl_trans; eassumption|]. rewrite cnt_app, Hca, Hi, Hex. destruct p; lia. }
    match goal with |- context [fold_left ?g ?l ?a] => destruct (fold_left g l a) as [ds2 o2] end.
    cbn zeta in H2. cbn [fst snd] in *. destruct H2 as [_ H2].
    rewrite !cnt_app, H2, HU1.
    change (c5_cnt c5_is_start [ODtTriggered id]) with 0.
    destruct (d_fixed d) eqn:Hfx; cbn [negb andb].
    + change (c5_cnt c5_is_start []) with 0. destruct (d_trigger d =? 0), p; lia.
    + rewrite (Hflex eq_refl). replace (0 =? 0) with true by reflexivity.
      destruct p; cbn [negb]; [change (c5_cnt c5_is_start []) with 0|change (c5_cnt c5_is_start [ONotify NDowntimeStart]) with 1]; lia.
Qed.

(* ---- number of newly triggered downtimes = decrease of U ---- *)
Definition Cmp (pre post : list dt) : Prop :=
  Forall2 (fun d d' => d_id d' = d_id d /\ (d_trigger d' = d_trigger d \/ d_trigger d = 0)) pre post.

Lemma Rwl_Cmp now a b : Rwl now a b -> Cmp a b.
Proof.
  induction 1; constructor; [|assumption].
  destruct H as [->|(H1 & _ & t & ->)]; split; auto.
Qed.

Lemma Cmp_add_trigger pre post p c : Cmp pre post -> Cmp pre (add_trigger p c post).
Proof.
  induction 1; cbn; constructor; [|assumption].
  destruct ((d_id y =? p) && negb (existsb (Z.eqb c) (d_triggers y))); assumption.
Qed.

Lemma U_add_trigger p c ds : U (add_trigger p c ds) = U ds.
Proof.
  unfold U, add_trigger. f_equal. induction ds as [|x ds IH]; cbn; [reflexivity|].
  destruct ((d_id x =? p) && negb (existsb (Z.eqb c) (d_triggers x))); cbn [d_trigger];
    destruct (d_trigger x =? 0); cbn; rewrite IH; reflexivity.
Qed.

Lemma newly_count pre post :
  NoDup (ids pre) -> Cmp pre post -> Z.of_nat (length (c5_newly pre post)) = U pre - U post.
Proof.
  intros Hnd HC. unfold c5_newly.
  assert (forall l l', Forall2 (fun d d' => d_id d' = d_id d /\ (d_trigger d' = d_trigger d \/ d_trigger d = 0)) l l' ->
            incl l pre ->
            Z.of_nat (length (filter (fun d' => negb (d_trigger d' =? 0) && (c5_trig_of (d_id d') pre =? 0)) l')) = U l - U l') as H.
  { induction 1 as [|d d' l l' [Hid Ht] _ IH]; intros Hi; [reflexivity|].
    assert (In d pre) as Hd by (apply Hi; left; reflexivity).
    assert (c5_trig_of (d_id d') pre = d_trigger d) as Hl.
    { unfold c5_trig_of. rewrite Hid, (find_dt_nodup pre d Hnd Hd). reflexivity. }
    cbn [filter]. rewrite Hl, !U_cons.
    assert (incl l pre) as Hi' by (intros y Hy; apply Hi; right; exact Hy). specialize (IH Hi').
    destruct (d_trigger d' =? 0) eqn:E1, (d_trigger d =? 0) eqn:E2; cbn [negb andb length]; try lia. }
  apply H; [exact HC|apply incl_refl].
Qed.

Lemma newly_app_fresh pre dnew post :
  ~ In (d_id dnew) (ids pre) -> d_trigger dnew = 0 -> c5_newly pre post = c5_newly (pre ++ [dnew]) post.
Proof.
  intros Hf Ht. unfold c5_newly. apply filter_ext_in'. intros d' _. f_equal. f_equal.
  unfold c5_trig_of. destruct (Z.eq_dec (d_id dnew) (d_id d')) as [E|E].
  - rewrite <- E, (find_dt_app_fresh (d_id dnew) pre dnew Hf eq_refl), Ht.
    destruct (find_dt (d_id dnew) pre) eqn:F; [|reflexivity]. exfalso. apply find_dt_some in F.
    destruct F as [F1 F2]. apply Hf. rewrite <- F2. unfold ids. apply in_map. exact F1.
  - rewrite (find_dt_app_old _ pre dnew E). reflexivity.
Qed.

(* ---- TriggerDowntimes ---- *)
Lemma start_count_trigger_all now p t ds :
  NoDup (ids ds) -> sane now ds -> 0 < t <= now -> nofixedchain ds ->
  existsb (fun d => d_fixed d && (d_trigger d =? 0) && c5_inwin now d) ds = false ->
  c5_cnt c5_is_start (snd (trigger_all now p t ds)) = (if p then 0 else U ds - U (fst (trigger_all now p t ds))).
Proof.
  intros Hnd Hs Ht Hn Hex. unfold trigger_all.
  match goal with |- context [fold_left ?g ?l ?a] =>
    assert (let r := fold_left g l a in
            Rl now t ds (fst r) /\ c5_cnt c5_is_start (snd r) = (if p then 0 else U ds - U (fst r))) as H end.
  { apply fold_left_inv with
      (Q := fun acc => Rl now t ds (fst acc) /\ c5_cnt c5_is_start (snd acc) = (if p then 0 else U ds - U (fst acc))).
    - split; [apply Rl_refl|]. cbn [fst snd]. change (c5_cnt c5_is_start []) with 0. destruct p; lia.
    - intros [dsa oa] id _ [Ha Hca]. cbn [fst snd] in Ha, Hca.
      assert (NoDup (ids dsa)) as Hnda by (rewrite (Rl_ids _ _ _ _ Ha); exact Hnd).
      assert (sane now dsa) as Hsa by (apply (Rl_sane now t ds dsa Ht Hs Ha)).
      assert (nofixedchain dsa) as Hna by (apply (Rl_nofixedchain now t ds dsa Hnd Hn Ha)).
      assert (extra_fixed now id dsa = 0) as Hx.
      { unfold extra_fixed. destruct (find_dt id dsa) as [da|] eqn:Fa; [|reflexivity].
        destruct (d_fixed da && dt_can_be_triggered now da && (d_trigger da =? 0)) eqn:E; [|reflexivity].
        exfalso. apply andb_prop in E. destruct E as [E E3]. apply andb_prop in E. destruct E as [E1 E2].
        destruct (find_dt_some _ _ _ Fa) as [Hda _].
        destruct (Rl_in _ _ _ _ _ Ha Hda) as (d & Hd & HR).
        assert (da = d) as ->.
        { destruct HR as [->|(_ & _ & ->)]; [reflexivity|]. cbn in E3. lia. }
        assert (existsb (fun d => d_fixed d && (d_trigger d =? 0) && c5_inwin now d) ds = true) as Hc.
        { apply existsb_exists. exists d. split; [exact Hd|]. rewrite E1, E3, (can_inwin _ _ E2). reflexivity. }
        congruence. }
      pose proof (start_count_trigger (chain_fuel dsa) now p id t dsa Hnda Hsa Ht Hna (or_intror Hx)) as Hi.
      pose proof (trigger_dt_Rl (chain_fuel dsa) now p id t dsa Hnda) as HRi.
      destruct (trigger_dt (chain_fuel dsa) now p id t dsa) as [dsb ob]. cbn [fst snd] in *.
      split; [eapply Rl_trans; eassumption|]. rewrite cnt_app, Hca, Hi, Hx. destruct p; lia. }
  match goal with |- context [fold_left ?g ?l ?a] => destruct (fold_left g l a) as [ds2 o2] end.
  cbn zeta in H. cbn [fst snd] in *. apply H.
Qed.

(* ---- the start timer ---- *)
Lemma Rw_static now d d' :
  Rw now d d' -> d_triggers d' = d_triggers d /\ d_fixed d' = d_fixed d /\ d_end d' = d_end d /\ d_entry d' = d_entry d.
Proof. intros [->|(_ & _ & t & ->)]; repeat split; reflexivity. Qed.

Lemma Rwl_nofixedchain now ds ds' : NoDup (ids ds) -> nofixedchain ds -> Rwl now ds ds' -> nofixedchain ds'.
Proof.
  intros Hnd Hn HR p' cid c' Hp' Hcid Hf.
  destruct (Rwl_in _ _ _ _ HR Hp') as (p & Hp & Rp).
  destruct (find_dt_some _ _ _ Hf) as [Hc' Hid'].
  destruct (Rwl_in _ _ _ _ HR Hc') as (c & Hc & Rc).
  destruct (Rw_static _ _ _ Rp) as (Tp & _). destruct (Rw_static _ _ _ Rc) as (_ & Fc & _).
  rewrite Fc. apply (Hn p cid c Hp); [rewrite <- Tp; exact Hcid|].
  pose proof (find_dt_nodup ds c Hnd Hc) as F. rewrite <- (Rw_id _ _ _ Rc), Hid' in F. exact F.
Qed.

Definition entries_sane (now : Z) (ds : list dt) : Prop := Forall (fun d => 0 < d_entry d <= now) ds.

Lemma start_count_timer now f :
  NoDup (ids (f_dts f)) -> sane now (f_dts f) -> entries_sane now (f_dts f) -> nofixedchain (f_dts f) ->
  c5_cnt c5_is_start (snd (do_dt_start_timer now f)) =
    (if f_paused f then 0 else U (f_dts f) - U (f_dts (fst (do_dt_start_timer now f)))) /\
  sane now (f_dts (fst (do_dt_start_timer now f))).
Proof.
  intros Hnd Hs He Hn. unfold do_dt_start_timer. set (p := f_paused f). set (ds := f_dts f) in *.
  match goal with |- context [fold_left ?g ?l ?a] =>
    assert (let r := fold_left g l a in
            Rwl now ds (fst r) /\ sane now (fst r) /\
            c5_cnt c5_is_start (snd r) = (if p then 0 else U ds - U (fst r))) as H end.
  { apply fold_left_inv with
      (Q := fun acc => Rwl now ds (fst acc) /\ sane now (fst acc) /\
                       c5_cnt c5_is_start (snd acc) = (if p then 0 else U ds - U (fst acc))).
    - split; [apply Rwl_refl|]. split; [exact Hs|]. cbn [fst snd]. change (c5_cnt c5_is_start []) with 0. destruct p; lia.
    - intros [dsa oa] id _ (Ha & Hsa & Hca). cbn [fst snd] in Ha, Hsa, Hca.
      destruct (find_dt id dsa) as [da|] eqn:Fa; [|repeat split; assumption].
      destruct (dt_can_be_triggered now da && d_fixed da) eqn:E; [|repeat split; assumption].
      apply andb_prop in E. destruct E as [Ec Ef].
      assert (NoDup (ids dsa)) as Hnda by (rewrite (Rwl_ids _ _ _ Ha); exact Hnd).
      assert (nofixedchain dsa) as Hna by (apply (Rwl_nofixedchain now ds dsa Hnd Hn Ha)).
      destruct (find_dt_some _ _ _ Fa) as [Hda Hida].
      destruct (Rwl_in _ _ _ _ Ha Hda) as (d & Hd & HRd). destruct (Rw_static _ _ _ HRd) as (_ & Sf & Se & Sn).
      assert (trig_sane now da) as Hsda by (unfold sane in Hsa; rewrite Forall_forall in Hsa; apply Hsa; exact Hda).
      assert (d_trigger da = 0) as Ht0 by (apply (fixed_can_untriggered now da Hsda Ef Ec)).
      assert (0 < Z.max (d_start da) (d_entry da) <= now) as Ht.
      { pose proof (can_inwin _ _ Ec) as Hw. unfold c5_inwin in Hw.
        unfold entries_sane in He. rewrite Forall_forall in He. pose proof (He d Hd) as Hen. rewrite <- Sn in Hen. lia. }
      assert (extra_fixed now id dsa = 1) as Hx.
      { unfold extra_fixed. rewrite Fa, Ef, Ec, Ht0. reflexivity. }
      assert (chain_fuel dsa <> O) as Hfu by (unfold chain_fuel; discriminate).
      pose proof (start_count_trigger (chain_fuel dsa) now p id (Z.max (d_start da) (d_entry da)) dsa Hnda Hsa Ht Hna
                    (or_introl Hfu)) as Hi.
      pose proof (trigger_dt_Rl (chain_fuel dsa) now p id (Z.max (d_start da) (d_entry da)) dsa Hnda) as HRi.
      destruct (trigger_dt (chain_fuel dsa) now p id (Z.max (d_start da) (d_entry da)) dsa) as [dsb ob]. cbn [fst snd] in *.
      split; [eapply Rwl_trans; [exact Ha|eapply Rl_Rwl; exact HRi]|].
      split; [apply (Rl_sane now _ dsa dsb Ht Hsa HRi)|].
      rewrite !cnt_app, Hca, Hi, Hx. destruct p; cbn [negb].
      + change (c5_cnt c5_is_start []) with 0. lia.
      + change (c5_cnt c5_is_start [ONotify NDowntimeStart]) with 1. lia. }
  match goal with |- context [fold_left ?g ?l ?a] => destruct (fold_left g l a) as [ds2 o2] end.
  cbn zeta in H. cbn [fst snd set_dts f_dts] in *. destruct H as (_ & H2 & H3). split; assumption.
Qed.

(* ---- AddDowntime ---- *)
Ltac cnt_eval :=
  repeat match goal with |- context [c5_cnt ?p ?l] =>
    let v := eval compute in (c5_cnt p l) in change (c5_cnt p l) with v end.

Lemma trigger_dt_noop n now p id t ds d :
  find_dt id ds = Some d -> dt_can_be_triggered now d = false -> trigger_dt (S n) now p id t ds = (ds, []).
Proof. intros Hf Hc. cbn [trigger_dt]. rewrite Hf, Hc. reflexivity. Qed.

Lemma trigger_dt_leaf n now p id t ds d :
  find_dt id ds = Some d -> d_triggers d = [] -> dt_can_be_triggered now d = true ->
  trigger_dt (S n) now p id t ds =
  ((if d_trigger d =? 0 then upd_trigger id t ds else ds),
   (if negb (d_fixed d) && negb p then [ONotify NDowntimeStart] else []) ++ [ODtTriggered id]).
Proof. intros Hf Hl Hc. cbn [trigger_dt]. rewrite Hf, Hc, Hl. cbn [negb fold_left app]. reflexivity. Qed.

Lemma add_count c now id fixed start end_ dur trig_by parent owned f :
  NoDup (ids (f_dts f)) -> ~ In id (ids (f_dts f)) -> 0 < now -> f_lsc f <= now ->
  let dnew := new_dt now id fixed start end_ dur parent owned in
  let ds0 := f_dts f ++ [dnew] in
  let r := do_dt_add c now id fixed start end_ dur trig_by parent owned f in
  c5_cnt c5_is_start (snd r) = (if f_paused f then 0 else U ds0 - U (f_dts (fst r))) /\
  (sane now ds0 -> sane now (f_dts (fst r))).
Proof.
  intros Hnd Hfresh Hnow Hlsc dnew ds0 r.
  assert (NoDup (ids ds0)) as Hnd0 by (unfold ds0; rewrite ids_app; apply nodup_snoc; assumption).
  assert (find_dt id ds0 = Some dnew) as F0 by (apply find_dt_app_fresh; [exact Hfresh|reflexivity]).
  assert (dt_can_be_triggered now dnew = c5_inwin now dnew) as Hcan by (apply can_untriggered; reflexivity).
  assert (In dnew ds0) as Hin0 by (unfold ds0; apply in_or_app; right; left; reflexivity).
  assert (forall T, 0 < T <= now -> c5_inwin now dnew = true ->
            U (upd_trigger id T ds0) = U ds0 - 1 /\ (sane now ds0 -> sane now (upd_trigger id T ds0))) as Hupd.
  { intros T HT Hw. split.
    - apply (U_upd T ds0 dnew Hnd0 Hin0 eq_refl). lia.
    - intros Hs. apply (Rl_sane now T ds0 _ HT Hs). apply upd_trigger_Rl with dnew; auto. }
  assert (exists ds2 o12,
            r = (set_dts f (if trig_by =? 0 then ds2 else add_trigger trig_by id ds2), o12) /\
            c5_cnt c5_is_start o12 = (if f_paused f then 0 else U ds0 - U ds2) /\
            (sane now ds0 -> sane now ds2)) as (ds2 & o12 & E & Hc & Hs2).
  { unfold r, do_dt_add. cbv zeta.
    change (f_dts f ++ [{| d_id := id; d_fixed := fixed; d_start := start; d_end := end_; d_duration := dur;
                           d_entry := now; d_trigger := 0; d_triggers := []; d_parent := parent; d_owned := owned |}])
      with ds0.
    destruct fixed; cbn [negb andb].
    - rewrite F0, Hcan. case_eq (c5_inwin now dnew); intros Hw; rewrite Hw in Hcan.
      + unfold chain_fuel. rewrite (trigger_dt_leaf _ now (f_paused f) id _ ds0 dnew F0 eq_refl Hcan).
        cbn [d_trigger dnew new_dt d_fixed negb andb app]. replace (0 =? 0) with true by reflexivity.
        assert (0 < Z.max start now <= now) as HT by (unfold c5_inwin in Hw; cbn in Hw; lia).
        destruct (Hupd _ HT Hw) as [HU HS].
        eexists _, _. split; [reflexivity|]. split; [|exact HS].
        rewrite HU. destruct (f_paused f); cbn [negb app]; cbv iota.
        * cnt_eval. lia.
        * cnt_eval. lia.
      + eexists _, _. split; [reflexivity|]. split; [|auto].
        cnt_eval. destruct (f_paused f); cbv iota; lia.
    - destruct (s_has_cr (f_st f) && negb (is_ok (c_kind (fc_base c)) (s_raw (f_st f)))) eqn:Hnok.
      + case_eq (c5_inwin now dnew); intros Hw; rewrite Hw in Hcan.
        * unfold chain_fuel. rewrite (trigger_dt_leaf _ now (f_paused f) id _ ds0 dnew F0 eq_refl Hcan).
          cbn [d_trigger dnew new_dt d_fixed negb andb app]. replace (0 =? 0) with true by reflexivity.
          assert (0 < Z.max (Z.max start now) (f_lsc f) <= now) as HT by (unfold c5_inwin in Hw; cbn in Hw; lia).
          destruct (Hupd _ HT Hw) as [HU HS].
          destruct (find_dt id (upd_trigger id (Z.max (Z.max start now) (f_lsc f)) ds0));
            (eexists _, _; split; [reflexivity|]; split; [|exact HS]; rewrite HU; destruct (f_paused f); cbn [negb app]; cbv iota;
             [cnt_eval; lia
             |cnt_eval; lia]).
        * unfold chain_fuel. rewrite (trigger_dt_noop _ _ _ _ _ _ dnew F0) by exact Hcan.
          rewrite F0. eexists _, _. split; [reflexivity|]. split; [|auto].
          cnt_eval. destruct (f_paused f); cbv iota; lia.
      + rewrite F0. eexists _, _. split; [reflexivity|]. split; [|auto].
        cnt_eval. destruct (f_paused f); cbv iota; lia. }
  rewrite E. cbn [fst snd set_dts f_dts]. split.
  - rewrite Hc. destruct (trig_by =? 0); [reflexivity|]. rewrite U_add_trigger. reflexivity.
  - intros Hs. specialize (Hs2 Hs). destruct (trig_by =? 0); [exact Hs2|].
    unfold sane, add_trigger in *. rewrite Forall_forall in *. intros x Hx. apply in_map_iff in Hx.
    destruct Hx as (y & <- & Hy). specialize (Hs2 y Hy).
    destruct ((d_id y =? trig_by) && negb (existsb (Z.eqb id) (d_triggers y))); exact Hs2.
Qed.

(* ================================================================== Part 5: OnDowntimeTriggered for everything that changes *)

Definition Rto (o : list out) (d d' : dt) : Prop :=
  d' = d \/ (In (d_id d) (c5_trig_ids o) /\ exists t, d' = set_trig d t).
Definition Rtol (o : list out) : list dt -> list dt -> Prop := Forall2 (Rto o).

Lemma Rtol_refl o ds : Rtol o ds ds.
Proof. induction ds; constructor; [left; reflexivity|assumption]. Qed.

Lemma Rto_mono o o' d d' : (forall i, In i (c5_trig_ids o) -> In i (c5_trig_ids o')) -> Rto o d d' -> Rto o' d d'.
Proof. intros H [->|(Hi & t & ->)]; [left; reflexivity|right; split; [apply H; exact Hi|eauto]]. Qed.
Lemma Rtol_mono o o' ds ds' : (forall i, In i (c5_trig_ids o) -> In i (c5_trig_ids o')) -> Rtol o ds ds' -> Rtol o' ds ds'.
Proof. intros H. induction 1; constructor; [eapply Rto_mono; eassumption|assumption]. Qed.

Lemma Rto_trans o a b c : Rto o a b -> Rto o b c -> Rto o a c.
Proof.
  intros [->|(Hi & t & ->)] [->|(Hi' & t' & ->)].
  - left; reflexivity.
  - right; eauto.
  - right; eauto.
  - right. split; [exact Hi|]. exists t'. reflexivity.
Qed.
Lemma Rtol_trans o a b c : Rtol o a b -> Rtol o b c -> Rtol o a c.
Proof.
  intros H. revert c. induction H; intros c Hc; inversion Hc; subst; constructor.
  - eapply Rto_trans; eassumption.
  - apply IHForall2. assumption.
Qed.
Lemma Rtol_app o1 o2 a b c : Rtol o1 a b -> Rtol o2 b c -> Rtol (o1 ++ o2) a c.
Proof.
  intros H1 H2. apply Rtol_trans with b.
  - eapply Rtol_mono; [|exact H1]. intros i Hi. rewrite trig_ids_app. apply in_or_app. left. exact Hi.
  - eapply Rtol_mono; [|exact H2]. intros i Hi. rewrite trig_ids_app. apply in_or_app. right. exact Hi.
Qed.

Lemma upd_trigger_Rtol id t ds : Rtol [ODtTriggered id] ds (upd_trigger id t ds).
Proof.
  unfold upd_trigger. induction ds as [|x ds IH]; cbn [map]; constructor; [|exact IH].
  destruct (d_id x =? id) eqn:E; [|left; reflexivity].
  right. split; [cbn; left; lia|]. exists t. reflexivity.
Qed.

Lemma trigger_dt_Rtol fuel : forall now p id t ds,
  Rtol (snd (trigger_dt fuel now p id t ds)) ds (fst (trigger_dt fuel now p id t ds)).
Proof.
  induction fuel as [|fuel IH]; intros now p id t ds; cbn [trigger_dt]; [apply Rtol_refl|].
  destruct (find_dt id ds) as [d|]; [|apply Rtol_refl].
  destruct (dt_can_be_triggered now d); cbn [negb]; [|apply Rtol_refl].
  set (ds1 := if d_trigger d =? 0 then upd_trigger id t ds else ds).
  assert (Rtol [ODtTriggered id] ds ds1) as H1.
  { unfold ds1. destruct (d_trigger d =? 0); [apply upd_trigger_Rtol|apply Rtol_refl]. }
  match goal with |- context [fold_left ?g ?l ?a] =>
    assert (Rtol (snd (fold_left g l a)) ds1 (fst (fold_left g l a))) as H2 end.
  { apply fold_left_inv with (Q := fun acc => Rtol (snd acc) ds1 (fst acc)); [apply Rtol_refl|].
    intros [dsa oa] cid _ Ha. cbn [fst snd] in Ha. pose proof (IH now p cid t dsa) as Hi.
    destruct (trigger_dt fuel now p cid t dsa) as [dsb ob]. cbn [fst snd] in *. eapply Rtol_app; eassumption. }
  match goal with |- context [fold_left ?g ?l ?a] => destruct (fold_left g l a) as [ds2 o2] end.
  cbn [fst snd] in *.
  apply Rtol_trans with ds1.
  - eapply Rtol_mono; [|exact H1]. intros i Hi. rewrite !trig_ids_app. apply in_or_app. right. apply in_or_app. right. exact Hi.
  - eapply Rtol_mono; [|exact H2]. intros i Hi. rewrite trig_ids_app. apply in_or_app. left. exact Hi.
Qed.

Lemma trigger_all_Rtol now p t ds : Rtol (snd (trigger_all now p t ds)) ds (fst (trigger_all now p t ds)).
Proof.
  unfold trigger_all.
  apply fold_left_inv with (Q := fun acc => Rtol (snd acc) ds (fst acc)); [apply Rtol_refl|].
  intros [dsa oa] id _ Ha. cbn [fst snd] in Ha.
  pose proof (trigger_dt_Rtol (chain_fuel dsa) now p id t dsa) as Hi.
  destruct (trigger_dt (chain_fuel dsa) now p id t dsa) as [dsb ob]. cbn [fst snd] in *. eapply Rtol_app; eassumption.
Qed.

Lemma start_timer_Rtol now f :
  Rtol (snd (do_dt_start_timer now f)) (f_dts f) (f_dts (fst (do_dt_start_timer now f))).
Proof.
  unfold do_dt_start_timer.
  match goal with |- context [fold_left ?g ?l ?a] =>
    assert (Rtol (snd (fold_left g l a)) (f_dts f) (fst (fold_left g l a))) as H end.
  { apply fold_left_inv with (Q := fun acc => Rtol (snd acc) (f_dts f) (fst acc)); [apply Rtol_refl|].
    intros [dsa oa] id _ Ha. cbn [fst snd] in Ha.
    destruct (find_dt id dsa) as [d|]; [|exact Ha].
    destruct (dt_can_be_triggered now d && d_fixed d); [|exact Ha].
    pose proof (trigger_dt_Rtol (chain_fuel dsa) now (f_paused f) id (Z.max (d_start d) (d_entry d)) dsa) as Hi.
    destruct (trigger_dt (chain_fuel dsa) now (f_paused f) id (Z.max (d_start d) (d_entry d)) dsa) as [dsb ob].
    cbn [fst snd] in *. eapply Rtol_app; [exact Ha|].
    eapply Rtol_mono; [|exact Hi]. intros i Hi'. rewrite trig_ids_app. apply in_or_app. right. exact Hi'. }
  match goal with |- context [fold_left ?g ?l ?a] => destruct (fold_left g l a) as [ds o] end.
  exact H.
Qed.

(* from Rtol (up to a map that keeps id and trigger) to the executable check *)
Lemma Rtol_trigev o pre0 pre post :
  NoDup (ids pre0) ->
  (forall i, c5_trig_of i pre = c5_trig_of i pre0) ->
  Forall2 (fun d d' => d_id d' = d_id d /\ (d_trigger d' = d_trigger d \/ In (d_id d) (c5_trig_ids o))) pre0 post ->
  forallb (fun d => c5_mem (d_id d) (c5_trig_ids o)) (c5_newly pre post) = true.
Proof.
  intros Hnd Hext HF. apply forallb_forall. intros d' Hin. unfold c5_newly in Hin. apply filter_In in Hin.
  destruct Hin as [Hin Hp]. apply andb_prop in Hp. destruct Hp as [Hp1 Hp2].
  assert (forall l l', Forall2 (fun d d' => d_id d' = d_id d /\ (d_trigger d' = d_trigger d \/ In (d_id d) (c5_trig_ids o))) l l' ->
            incl l pre0 -> In d' l' -> c5_mem (d_id d') (c5_trig_ids o) = true) as H.
  { induction 1 as [|x x' l l' [Hid Hx] _ IH]; intros Hi Hd; [destruct Hd|].
    destruct Hd as [<-|Hd]; [|apply IH; [intros y Hy; apply Hi; right; exact Hy|exact Hd]].
    assert (In x pre0) as Hx0 by (apply Hi; left; reflexivity).
    rewrite Hext in Hp2. unfold c5_trig_of in Hp2. rewrite Hid, (find_dt_nodup pre0 x Hnd Hx0) in Hp2.
    destruct Hx as [Hx|Hx]; [lia|]. rewrite Hid. apply mem_In. exact Hx. }
  apply (H pre0 post HF); [apply incl_refl|exact Hin].
Qed.

Lemma Rtol_cmp o a b :
  Rtol o a b -> Forall2 (fun d d' => d_id d' = d_id d /\ (d_trigger d' = d_trigger d \/ In (d_id d) (c5_trig_ids o))) a b.
Proof.
  induction 1; constructor; [|assumption].
  destruct H as [->|(Hi & t & ->)]; split; auto.
Qed.
