(* C05 - lemmas about the downtime layer of the combined model (Ck/CkFull.v).
   Part 1: how Downtime::TriggerDowntime (trigger_dt) and its callers change the list of downtimes. *)
From Icv Require Import Base.Tac Ck.CkState Ck.CkFull Ck.CkDtDefs.
Local Open Scope Z_scope.
Arguments chain_fuel : simpl never.

(* ------------------------------------------------------------------ generic *)

Lemma fold_left_inv {A B} (f : A -> B -> A) (Q : A -> Prop) l a :
  Q a -> (forall a x, In x l -> Q a -> Q (f a x)) -> Q (fold_left f l a).
Proof.
  revert a. induction l as [|x l IH]; intros a Ha Hf; cbn; [exact Ha|].
  apply IH; [apply Hf; [left; reflexivity|exact Ha]|]. intros a' y Hy. apply Hf. right. exact Hy.
Qed.

Lemma nodup_app_l {A} (l1 l2 : list A) : NoDup (l1 ++ l2) -> NoDup l1.
Proof.
  induction l1 as [|a l1 IH]; cbn; intros H; [constructor|]. inversion H; subst. constructor.
  - intros Hin. apply H2. apply in_or_app. left. exact Hin.
  - apply IH. assumption.
Qed.
Lemma nodup_app_disj {A} (l1 l2 : list A) x : NoDup (l1 ++ l2) -> In x l1 -> In x l2 -> False.
Proof.
  induction l1 as [|a l1 IH]; cbn; intros H H1 H2; [destruct H1|]. inversion H; subst.
  destruct H1 as [->|H1]; [apply H4; apply in_or_app; right; exact H2|]. apply IH; assumption.
Qed.

Definition set_trig (d : dt) (t : Z) : dt :=
  {| d_id := d_id d; d_fixed := d_fixed d; d_start := d_start d; d_end := d_end d;
     d_duration := d_duration d; d_entry := d_entry d; d_trigger := t;
     d_triggers := d_triggers d; d_parent := d_parent d; d_owned := d_owned d |}.

Definition ids (ds : list dt) : list Z := map d_id ds.

Lemma find_dt_some id ds d : find_dt id ds = Some d -> In d ds /\ d_id d = id.
Proof. unfold find_dt. intros H. apply find_some in H. destruct H as [H1 H2]. split; [exact H1|lia]. Qed.

Lemma find_dt_none id ds : find_dt id ds = None -> ~ In id (ids ds).
Proof.
  unfold find_dt, ids. intros H Hin. apply in_map_iff in Hin. destruct Hin as (d & Hd & Hin).
  pose proof (find_none _ _ H d Hin) as Hn. cbn in Hn. lia.
Qed.

Lemma find_dt_nodup ds d : NoDup (ids ds) -> In d ds -> find_dt (d_id d) ds = Some d.
Proof.
  unfold find_dt, ids. induction ds as [|x ds IH]; intros Hnd Hin; [destruct Hin|].
  cbn in *. inversion Hnd as [|? ? Hx Hnd']; subst.
  destruct Hin as [->|Hin]; [rewrite Z.eqb_refl; reflexivity|].
  destruct (d_id x =? d_id d) eqn:E; [|apply IH; assumption].
  exfalso. apply Hx. apply Z.eqb_eq in E. rewrite E. apply in_map. exact Hin.
Qed.

Lemma find_dt_app_fresh id ds d : ~ In id (ids ds) -> d_id d = id -> find_dt id (ds ++ [d]) = Some d.
Proof.
  unfold find_dt, ids. induction ds as [|x ds IH]; intros Hn Hid; cbn.
  - subst. rewrite Z.eqb_refl. reflexivity.
  - cbn in Hn. destruct (d_id x =? id) eqn:E; [exfalso; apply Hn; left; lia|]. apply IH; [tauto|exact Hid].
Qed.

Lemma find_dt_app_old id ds d : d_id d <> id -> find_dt id (ds ++ [d]) = find_dt id ds.
Proof.
  unfold find_dt. intros Hn. induction ds as [|x ds IH]; cbn.
  - destruct (d_id d =? id) eqn:E; [lia|reflexivity].
  - destruct (d_id x =? id); [reflexivity|exact IH].
Qed.

(* ------------------------------------------------------------------ the four predicates *)

Ltac zb :=
  repeat match goal with
         | |- context [?a <? ?b] => destruct (Z.ltb_spec a b)
         | |- context [?a <=? ?b] => destruct (Z.leb_spec a b)
         | |- context [?a =? ?b] => destruct (Z.eqb_spec a b)
         end; cbn; try reflexivity; try discriminate; try lia; try (intros; discriminate); try (intros; lia).

Lemma can_untriggered now d : d_trigger d = 0 -> dt_can_be_triggered now d = c5_inwin now d.
Proof.
  intros H. unfold dt_can_be_triggered, dt_is_expired, dt_is_triggered, dt_in_effect, c5_inwin. rewrite H.
  destruct (d_fixed d); zb.
Qed.

Lemma can_inwin now d : dt_can_be_triggered now d = true -> c5_inwin now d = true.
Proof.
  unfold dt_can_be_triggered, c5_inwin. intros H.
  destruct (dt_in_effect now d && dt_is_triggered now d); [discriminate|].
  destruct (dt_is_expired now d); [discriminate|].
  destruct ((now <? d_start d) || (d_end d <? now)) eqn:E; [discriminate|]. lia.
Qed.

(* trigger times that lie in (0, now]: what holds when the clock does not run backwards and results
   are not stamped in the future *)
Definition trig_sane (now : Z) (d : dt) : Prop := d_trigger d = 0 \/ 0 < d_trigger d <= now.

Lemma flex_can_untriggered now d :
  trig_sane now d -> d_fixed d = false -> dt_can_be_triggered now d = true -> d_trigger d = 0.
Proof.
  intros [H|H] Hf Hc; [exact H|]. exfalso. revert Hc.
  unfold dt_can_be_triggered, dt_is_expired, dt_is_triggered, dt_in_effect. rewrite Hf. zb.
Qed.

Lemma fixed_can_triggered now d :
  trig_sane now d -> d_fixed d = true -> dt_can_be_triggered now d = true -> d_trigger d <> 0 -> now = d_end d.
Proof.
  intros [H|H] Hf Hc Hn; [contradiction|]. revert Hc.
  unfold dt_can_be_triggered, dt_is_expired, dt_is_triggered, dt_in_effect. rewrite Hf. zb.
Qed.

(* ------------------------------------------------------------------ the step relation on one downtime *)

Definition R1 (now t : Z) (d d' : dt) : Prop :=
  d' = d \/ (d_trigger d = 0 /\ c5_inwin now d = true /\ d' = set_trig d t).
Definition Rl (now t : Z) : list dt -> list dt -> Prop := Forall2 (R1 now t).

Lemma R1_refl now t d : R1 now t d d. Proof. left. reflexivity. Qed.
Lemma Rl_refl now t ds : Rl now t ds ds.
Proof. induction ds; constructor; [apply R1_refl|assumption]. Qed.

Lemma R1_trans now t a b c : R1 now t a b -> R1 now t b c -> R1 now t a c.
Proof.
  intros [->|(H1 & H2 & ->)] [->|(H3 & H4 & ->)].
  - left; reflexivity.
  - right. auto.
  - right. auto.
  - right. repeat split; try assumption.
Qed.

Lemma Rl_trans now t a b c : Rl now t a b -> Rl now t b c -> Rl now t a c.
Proof.
  intros H. revert c. induction H; intros c Hc; inversion Hc; subst; constructor.
  - eapply R1_trans; eassumption.
  - apply IHForall2. assumption.
Qed.

Lemma R1_id now t d d' : R1 now t d d' -> d_id d' = d_id d.
Proof. intros [->|(_ & _ & ->)]; reflexivity. Qed.

Lemma Rl_ids now t ds ds' : Rl now t ds ds' -> ids ds' = ids ds.
Proof. unfold ids. induction 1; cbn; [reflexivity|]. f_equal; [eapply R1_id; eassumption|assumption]. Qed.

Lemma Rl_length now t ds ds' : Rl now t ds ds' -> length ds' = length ds.
Proof. induction 1; cbn; [reflexivity|]. f_equal. assumption. Qed.

Lemma Rl_in now t ds ds' d' : Rl now t ds ds' -> In d' ds' -> exists d, In d ds /\ R1 now t d d'.
Proof.
  induction 1; intros Hin; [destruct Hin|]. destruct Hin as [<-|Hin].
  - eexists; split; [left; reflexivity|assumption].
  - destruct (IHForall2 Hin) as (d & Hd & HR). exists d. split; [right; exact Hd|exact HR].
Qed.

Lemma Rl_in_l now t ds ds' d : Rl now t ds ds' -> In d ds -> exists d', In d' ds' /\ R1 now t d d'.
Proof.
  induction 1; intros Hin; [destruct Hin|]. destruct Hin as [<-|Hin].
  - eexists; split; [left; reflexivity|assumption].
  - destruct (IHForall2 Hin) as (d' & Hd & HR). exists d'. split; [right; exact Hd|exact HR].
Qed.

Lemma upd_trigger_Rl now t id ds d :
  NoDup (ids ds) -> find_dt id ds = Some d -> d_trigger d = 0 -> c5_inwin now d = true ->
  Rl now t ds (upd_trigger id t ds).
Proof.
  intros Hnd Hf Ht Hw. apply find_dt_some in Hf. destruct Hf as [Hin Hid]. subst id.
  unfold upd_trigger, Rl.
  assert (forall l, incl l ds -> Forall2 (R1 now t) l (map (fun d0 => if d_id d0 =? d_id d then set_trig d0 t else d0) l)) as H.
  { induction l as [|x l IH]; intros Hincl; cbn; constructor.
    - destruct (d_id x =? d_id d) eqn:E; [|left; reflexivity].
      assert (x = d) as ->.
      { assert (In x ds) as Hx by (apply Hincl; left; reflexivity).
        pose proof (find_dt_nodup ds x Hnd Hx) as F1. pose proof (find_dt_nodup ds d Hnd Hin) as F2.
        apply Z.eqb_eq in E. rewrite E in F1. congruence. }
      right. auto.
    - apply IH. intros y Hy. apply Hincl. right. exact Hy. }
  apply H. apply incl_refl.
Qed.

(* the main structural lemma: whatever TriggerDowntime does, every downtime is either untouched or was
   untriggered, inside its window, and now carries the trigger time passed in *)
Lemma trigger_dt_Rl fuel : forall now p id t ds,
  NoDup (ids ds) -> Rl now t ds (fst (trigger_dt fuel now p id t ds)).
Proof.
  induction fuel as [|fuel IH]; intros now p id t ds Hnd; cbn; [apply Rl_refl|].
  destruct (find_dt id ds) as [d|] eqn:Hf; [|apply Rl_refl].
  destruct (dt_can_be_triggered now d) eqn:Hc; cbn; [|apply Rl_refl].
  set (ds1 := if d_trigger d =? 0 then upd_trigger id t ds else ds).
  assert (Rl now t ds ds1) as H1.
  { unfold ds1. destruct (d_trigger d =? 0) eqn:E; [|apply Rl_refl].
    apply upd_trigger_Rl with d; try assumption; [lia|apply can_inwin; exact Hc]. }
  match goal with |- context [fold_left ?f ?l ?a] =>
    assert (Rl now t ds (fst (fold_left f l a))) as H2 end.
  { apply fold_left_inv with (Q := fun acc => Rl now t ds (fst acc)); [exact H1|].
    intros [dsa oa] cid _ Ha. cbn in Ha.
    pose proof (IH now p cid t dsa) as Hi.
    destruct (trigger_dt fuel now p cid t dsa) as [dsb ob]. cbn in *.
    eapply Rl_trans; [exact Ha|]. apply Hi. rewrite (Rl_ids _ _ _ _ Ha). exact Hnd. }
  match goal with |- context [fold_left ?f ?l ?a] => destruct (fold_left f l a) as [ds2 o2] end.
  exact H2.
Qed.

(* events of TriggerDowntime: only DowntimeStart requests and OnDowntimeTriggered *)
Definition trig_out (o : out) : Prop :=
  match o with ONotify NDowntimeStart | ODtTriggered _ => True | _ => False end.

Lemma trigger_dt_outs fuel : forall now p id t ds, Forall trig_out (snd (trigger_dt fuel now p id t ds)).
Proof.
  induction fuel as [|fuel IH]; intros now p id t ds; cbn; [constructor|].
  destruct (find_dt id ds) as [d|]; [|constructor].
  destruct (dt_can_be_triggered now d); cbn; [|constructor].
  match goal with |- context [fold_left ?f ?l ?a] =>
    assert (Forall trig_out (snd (fold_left f l a))) as H2 end.
  { apply fold_left_inv with (Q := fun acc => Forall trig_out (snd acc)); [constructor|].
    intros [dsa oa] cid _ Ha. cbn in Ha. pose proof (IH now p cid t dsa) as Hi.
    destruct (trigger_dt fuel now p cid t dsa) as [dsb ob]. cbn in *. apply Forall_app. split; assumption. }
  match goal with |- context [fold_left ?f ?l ?a] => destruct (fold_left f l a) as [ds2 o2] end.
  cbn in *. apply Forall_app. split; [exact H2|]. apply Forall_app. split.
  - destruct (negb (d_fixed d) && negb p); repeat constructor.
  - repeat constructor.
Qed.

(* Checkable::TriggerDowntimes *)
Lemma trigger_all_Rl now p t ds : NoDup (ids ds) -> Rl now t ds (fst (trigger_all now p t ds)).
Proof.
  intros Hnd. unfold trigger_all.
  apply fold_left_inv with (Q := fun acc => Rl now t ds (fst acc)); [apply Rl_refl|].
  intros [dsa oa] id _ Ha. cbn in Ha.
  pose proof (trigger_dt_Rl (chain_fuel dsa) now p id t dsa) as Hi.
  destruct (trigger_dt (chain_fuel dsa) now p id t dsa) as [dsb ob]. cbn in *.
  eapply Rl_trans; [exact Ha|]. apply Hi. rewrite (Rl_ids _ _ _ _ Ha). exact Hnd.
Qed.

Lemma trigger_all_outs now p t ds : Forall trig_out (snd (trigger_all now p t ds)).
Proof.
  unfold trigger_all.
  apply fold_left_inv with (Q := fun acc => Forall trig_out (snd acc)); [constructor|].
  intros [dsa oa] id _ Ha. cbn in Ha.
  pose proof (trigger_dt_outs (chain_fuel dsa) now p id t dsa) as Hi.
  destruct (trigger_dt (chain_fuel dsa) now p id t dsa) as [dsb ob]. cbn in *. apply Forall_app. split; assumption.
Qed.

(* completeness of one TriggerDowntime call on the downtime it is called for *)
Lemma trigger_dt_self fuel now p id t ds d :
  NoDup (ids ds) -> find_dt id ds = Some d -> dt_can_be_triggered now d = true -> d_trigger d = 0 ->
  find_dt id (fst (trigger_dt (S fuel) now p id t ds)) = Some (set_trig d t).
Proof.
  intros Hnd Hf Hc Ht. cbn. rewrite Hf, Hc. cbn. replace (d_trigger d =? 0) with true by lia.
  assert (NoDup (ids (upd_trigger id t ds))) as Hnd1.
  { rewrite (Rl_ids now t ds); [exact Hnd|]. apply upd_trigger_Rl with d; auto. apply can_inwin; exact Hc. }
  assert (find_dt id (upd_trigger id t ds) = Some (set_trig d t)) as Hf1.
  { destruct (find_dt_some _ _ _ Hf) as [Hin Hid].
    assert (In (set_trig d t) (upd_trigger id t ds)) as Hin'.
    { unfold upd_trigger. apply in_map_iff. exists d. split; [|exact Hin].
      replace (d_id d =? id) with true by lia. reflexivity. }
    pose proof (find_dt_nodup _ _ Hnd1 Hin') as F. cbn in F. rewrite Hid in F. exact F. }
  match goal with |- context [fold_left ?f ?l ?a] =>
    assert (let r := fold_left f l a in
            Rl now t (upd_trigger id t ds) (fst r)) as H2 end.
  { apply fold_left_inv with (Q := fun acc => Rl now t (upd_trigger id t ds) (fst acc)); [apply Rl_refl|].
    intros [dsa oa] cid _ Ha. cbn in Ha.
    pose proof (trigger_dt_Rl fuel now p cid t dsa) as Hi.
    destruct (trigger_dt fuel now p cid t dsa) as [dsb ob]. cbn in *.
    eapply Rl_trans; [exact Ha|]. apply Hi. rewrite (Rl_ids _ _ _ _ Ha). exact Hnd1. }
  match goal with |- context [fold_left ?f ?l ?a] => destruct (fold_left f l a) as [ds2 o2] end.
  cbn in *.
  destruct (find_dt_some _ _ _ Hf1) as [Hin1 Hid1].
  destruct (Rl_in_l _ _ _ _ _ H2 Hin1) as (d' & Hd' & HR).
  assert (d' = set_trig d t) as ->.
  { destruct HR as [->|(_ & _ & ->)]; [reflexivity|]. reflexivity. }
  assert (NoDup (ids ds2)) as Hnd2 by (rewrite (Rl_ids _ _ _ _ H2); exact Hnd1).
  pose proof (find_dt_nodup _ _ Hnd2 Hd') as F. cbn in F.
  destruct (find_dt_some _ _ _ Hf) as [_ Hid]. rewrite Hid in F. exact F.
Qed.

(* a downtime related by R1 to an untriggered one in its window ends up with trigger t once TriggerDowntime
   has been called for it *)
Lemma R1_after_set now t d a b :
  R1 now t d a -> a = set_trig d t -> R1 now t a b -> b = set_trig d t.
Proof.
  intros _ -> [->|(_ & _ & ->)]; reflexivity.
Qed.

(* completeness of a loop of TriggerDowntime calls (with at least one unit of fuel each): every untriggered
   downtime inside its window whose name is in the list gets trigger time t *)
Lemma fold_trigger_complete (fu : list dt -> nat) now p t ds d :
  (forall dsa, exists n, fu dsa = S n) ->
  NoDup (ids ds) -> In d ds -> d_trigger d = 0 -> c5_inwin now d = true ->
  forall l acc,
    Rl now t ds (fst acc) ->
    (In (d_id d) l \/ find_dt (d_id d) (fst acc) = Some (set_trig d t)) ->
    find_dt (d_id d)
      (fst (fold_left (fun acc id => let '(dsa, oa) := acc in
                                     let '(dsb, ob) := trigger_dt (fu dsa) now p id t dsa in
                                     (dsb, oa ++ ob)) l acc)) = Some (set_trig d t) /\
    Rl now t ds
      (fst (fold_left (fun acc id => let '(dsa, oa) := acc in
                                     let '(dsb, ob) := trigger_dt (fu dsa) now p id t dsa in
                                     (dsb, oa ++ ob)) l acc)).
Proof.
  intros Hfu Hnd Hin Ht Hw.
  induction l as [|id l IH]; intros [dsa oa] Ha Hor; cbn [fold_left].
  - destruct Hor as [[]|Hor]. split; [exact Hor|exact Ha].
  - cbn [fst] in Ha. assert (NoDup (ids dsa)) as Hnda by (rewrite (Rl_ids _ _ _ _ Ha); exact Hnd).
    pose proof (trigger_dt_Rl (fu dsa) now p id t dsa Hnda) as Hi.
    destruct (trigger_dt (fu dsa) now p id t dsa) as [dsb ob] eqn:Etr. cbn [fst] in Hi.
    assert (NoDup (ids dsb)) as Hndb by (rewrite (Rl_ids _ _ _ _ Hi); exact Hnda).
    apply IH; [cbn [fst]; eapply Rl_trans; eassumption|]. cbn [fst].
    destruct (Rl_in_l _ _ _ _ _ Ha Hin) as (da & Hda & HRa).
    assert (find_dt (d_id d) dsa = Some da) as Fa.
    { pose proof (find_dt_nodup _ _ Hnda Hda) as F. rewrite (R1_id _ _ _ _ HRa) in F. exact F. }
    destruct (Rl_in_l _ _ _ _ _ Hi Hda) as (db & Hdb & HRb).
    assert (find_dt (d_id d) dsb = Some db) as Fb.
    { pose proof (find_dt_nodup _ _ Hndb Hdb) as F. rewrite (R1_id _ _ _ _ HRb), (R1_id _ _ _ _ HRa) in F. exact F. }
    assert (da = set_trig d t -> db = set_trig d t) as Hkeep.
    { intros ->. destruct HRb as [->|(_ & _ & ->)]; reflexivity. }
    cbn [fst] in Hor. destruct Hor as [[Hid|Hl]|Hdone].
    + right. rewrite Fb. f_equal. destruct HRa as [->|(_ & _ & ->)]; [|apply Hkeep; reflexivity].
      subst id. destruct (Hfu dsa) as (n & Hn). rewrite Hn in Etr.
      pose proof (trigger_dt_self n now p (d_id d) t dsa d Hnda Fa) as Hs.
      rewrite Etr in Hs. cbn [fst] in Hs. rewrite Fb in Hs.
      rewrite can_untriggered in Hs by exact Ht. specialize (Hs Hw Ht). congruence.
    + left. exact Hl.
    + right. rewrite Fb. f_equal. apply Hkeep. congruence.
Qed.

(* completeness of TriggerDowntimes: every untriggered downtime inside its window gets trigger time t *)
Lemma trigger_all_complete now p t ds d :
  NoDup (ids ds) -> In d ds -> d_trigger d = 0 -> c5_inwin now d = true ->
  find_dt (d_id d) (fst (trigger_all now p t ds)) = Some (set_trig d t).
Proof.
  intros Hnd Hin Ht Hw. unfold trigger_all.
  apply (fold_trigger_complete chain_fuel now p t ds d); try assumption.
  - intros dsa. unfold chain_fuel. eauto.
  - apply Rl_refl.
  - left. unfold ids. apply in_map. exact Hin.
Qed.

(* chained triggers: triggering a downtime (with at least two units of fuel, which chain_fuel always provides)
   triggers every downtime directly chained to it that is untriggered and inside its own window *)
Lemma trigger_dt_children n now p id t ds d c :
  NoDup (ids ds) -> find_dt id ds = Some d -> dt_can_be_triggered now d = true ->
  In (d_id c) (d_triggers d) -> In c ds -> d_trigger c = 0 -> c5_inwin now c = true ->
  find_dt (d_id c) (fst (trigger_dt (S (S n)) now p id t ds)) = Some (set_trig c t).
Proof.
  intros Hnd Hf Hc Hch Hin Ht Hw. cbn [trigger_dt]. rewrite Hf, Hc. cbn [negb].
  set (ds1 := if d_trigger d =? 0 then upd_trigger id t ds else ds).
  assert (Rl now t ds ds1) as H1.
  { unfold ds1. destruct (d_trigger d =? 0) eqn:E; [|apply Rl_refl].
    apply upd_trigger_Rl with d; try assumption; [lia|apply can_inwin; exact Hc]. }
  destruct (fold_trigger_complete (fun _ => S n) now p t ds c (fun _ => ex_intro _ n eq_refl) Hnd Hin Ht Hw
              (d_triggers d) (ds1, []) H1 (or_introl Hch)) as [HF _].
  match goal with |- context [fold_left ?f ?l ?a] => set (F := fold_left f l a) end.
  change (find_dt (d_id c) (fst F) = Some (set_trig c t)) in HF.
  destruct F as [ds2 o2]. cbn [fst] in *. exact HF.
Qed.

(* ================================================================== Part 2: whole operations *)

(* weak form of R1: the trigger time passed in is existential (the start timer uses one per downtime) *)
Definition Rw (now : Z) (d d' : dt) : Prop :=
  d' = d \/ (d_trigger d = 0 /\ c5_inwin now d = true /\ exists t, d' = set_trig d t).
Definition Rwl (now : Z) : list dt -> list dt -> Prop := Forall2 (Rw now).

Lemma R1_Rw now t d d' : R1 now t d d' -> Rw now d d'.
Proof. intros [->|(H1 & H2 & ->)]; [left; reflexivity|right; eauto]. Qed.
Lemma Rl_Rwl now t ds ds' : Rl now t ds ds' -> Rwl now ds ds'.
Proof. induction 1; constructor; [eapply R1_Rw; eassumption|assumption]. Qed.
Lemma Rwl_refl now ds : Rwl now ds ds.
Proof. induction ds; constructor; [left; reflexivity|assumption]. Qed.
Lemma Rw_trans now a b c : Rw now a b -> Rw now b c -> Rw now a c.
Proof.
  intros [->|(H1 & H2 & t & ->)] [->|(H3 & H4 & t' & ->)].
  - left; reflexivity.
  - right; eauto.
  - right; eauto.
  - right. repeat split; try assumption. exists t'. reflexivity.
Qed.
Lemma Rwl_trans now a b c : Rwl now a b -> Rwl now b c -> Rwl now a c.
Proof.
  intros H. revert c. induction H; intros c Hc; inversion Hc; subst; constructor.
  - eapply Rw_trans; eassumption.
  - apply IHForall2. assumption.
Qed.
Lemma Rw_id now d d' : Rw now d d' -> d_id d' = d_id d.
Proof. intros [->|(_ & _ & t & ->)]; reflexivity. Qed.
Lemma Rwl_ids now ds ds' : Rwl now ds ds' -> ids ds' = ids ds.
Proof. unfold ids. induction 1; cbn; [reflexivity|]. f_equal; [eapply Rw_id; eassumption|assumption]. Qed.
Lemma Rwl_in now ds ds' d' : Rwl now ds ds' -> In d' ds' -> exists d, In d ds /\ Rw now d d'.
Proof.
  induction 1; intros Hin; [destruct Hin|]. destruct Hin as [<-|Hin].
  - eexists; split; [left; reflexivity|assumption].
  - destruct (IHForall2 Hin) as (d & Hd & HR). exists d. split; [right; exact Hd|exact HR].
Qed.
Lemma Rwl_in_l now ds ds' d : Rwl now ds ds' -> In d ds -> exists d', In d' ds' /\ Rw now d d'.
Proof.
  induction 1; intros Hin; [destruct Hin|]. destruct Hin as [<-|Hin].
  - eexists; split; [left; reflexivity|assumption].
  - destruct (IHForall2 Hin) as (d' & Hd & HR). exists d'. split; [right; exact Hd|exact HR].
Qed.

Lemma same_static_refl d : c5_same_static d d = true.
Proof. unfold c5_same_static. rewrite !Z.eqb_refl, !eqb_reflx. reflexivity. Qed.
Lemma same_static_set d t : c5_same_static d (set_trig d t) = true.
Proof. unfold c5_same_static. cbn. rewrite !Z.eqb_refl, !eqb_reflx. reflexivity. Qed.
Lemma same_static_inwin now a b : c5_same_static a b = true -> c5_inwin now b = c5_inwin now a.
Proof.
  unfold c5_same_static, c5_inwin. intros H.
  repeat (apply andb_prop in H; destruct H as [H ?]).
  replace (d_start b) with (d_start a) by lia. replace (d_end b) with (d_end a) by lia. reflexivity.
Qed.

(* what every operation guarantees for each downtime that exists afterwards *)
Definition Mono (now : Z) (pre post : list dt) : Prop :=
  forall d', In d' post ->
    exists d, In d pre /\ d_id d = d_id d' /\ c5_same_static d d' = true /\
              ((d_trigger d = 0 /\ (d_trigger d' <> 0 -> c5_inwin now d = true)) \/ d_trigger d' = d_trigger d).

Lemma Rwl_Mono now pre post : Rwl now pre post -> Mono now pre post.
Proof.
  intros H d' Hin. destruct (Rwl_in _ _ _ _ H Hin) as (d & Hd & HR). exists d. split; [exact Hd|].
  destruct HR as [->|(H1 & H2 & t & ->)].
  - repeat split; [apply same_static_refl|right; reflexivity].
  - repeat split; [apply same_static_set|left; auto].
Qed.

Lemma Mono_filter now pre post g : Mono now pre post -> Mono now pre (filter g post).
Proof. intros H d' Hin. apply filter_In in Hin. apply H. tauto. Qed.

Lemma Mono_refl now ds : Mono now ds ds.
Proof. apply Rwl_Mono, Rwl_refl. Qed.

Lemma Mono_add_trigger now pre post p c : Mono now pre post -> Mono now pre (add_trigger p c post).
Proof.
  intros H d' Hin. unfold add_trigger in Hin. apply in_map_iff in Hin. destruct Hin as (x & <- & Hx).
  destruct (H x Hx) as (d & Hd & Hid & Hs & Ht). exists d.
  destruct ((d_id x =? p) && negb (existsb (Z.eqb c) (d_triggers x))); [|auto].
  cbn. repeat split; try assumption.
Qed.

Lemma add_trigger_ids p c ds : ids (add_trigger p c ds) = ids ds.
Proof.
  unfold ids, add_trigger. rewrite map_map. apply map_ext. intros x.
  destruct ((d_id x =? p) && negb (existsb (Z.eqb c) (d_triggers x))); reflexivity.
Qed.

(* from Mono to the two executable checks *)
Lemma Mono_checks now pre added post :
  NoDup (ids (pre ++ added)) -> Forall (fun d => d_trigger d = 0) added ->
  Mono now (pre ++ added) post ->
  forallb (fun d' =>
             match find_dt (d_id d') pre with
             | Some d => c5_same_static d d' && ((d_trigger d =? 0) || (d_trigger d' =? d_trigger d))
             | None => existsb (fun a => d_id d' =? d_id a) added
             end) post = true
  /\ forallb (c5_inwin now) (c5_newly pre post) = true.
Proof.
  intros Hnd Hadd HM. split.
  - apply forallb_forall. intros d' Hin. destruct (HM d' Hin) as (d & Hd & Hid & Hs & Ht).
    apply in_app_or in Hd. destruct Hd as [Hd|Hd].
    + assert (NoDup (ids pre)) as Hnd1.
      { unfold ids in *. rewrite map_app in Hnd. apply nodup_app_l in Hnd. exact Hnd. }
      rewrite <- Hid, (find_dt_nodup pre d Hnd1 Hd). rewrite Hs. cbn. destruct Ht as [[Ht _]|Ht]; lia.
    + destruct (find_dt (d_id d') pre) as [x|] eqn:F.
      * exfalso. apply find_dt_some in F. destruct F as [Fx Fid].
        unfold ids in Hnd. rewrite map_app in Hnd.
        apply (nodup_app_disj _ _ (d_id d') Hnd); [rewrite <- Fid; apply in_map; exact Fx|rewrite <- Hid; apply in_map; exact Hd].
      * apply existsb_exists. exists d. split; [exact Hd|lia].
  - apply forallb_forall. intros d' Hin. unfold c5_newly in Hin. apply filter_In in Hin.
    destruct Hin as [Hin Hp]. destruct (HM d' Hin) as (d & Hd & Hid & Hs & Ht).
    rewrite (same_static_inwin now d d' Hs).
    assert (d_trigger d = 0) as Hd0.
    { apply in_app_or in Hd. destruct Hd as [Hd|Hd].
      - assert (NoDup (ids pre)) as Hnd1.
        { unfold ids in *. rewrite map_app in Hnd. apply nodup_app_l in Hnd. exact Hnd. }
        unfold c5_trig_of in Hp. rewrite <- Hid, (find_dt_nodup pre d Hnd1 Hd) in Hp. lia.
      - rewrite Forall_forall in Hadd. apply Hadd. exact Hd. }
    destruct Ht as [[_ Ht]|Ht]; [apply Ht; lia|lia].
Qed.

(* ------------------------------------------------------------------ ProcessCheckResult, projected on the downtimes *)

Definition plain (o : out) : Prop :=
  match o with
  | ONotify NDowntimeStart | ONotify NDowntimeEnd | ODtTriggered _ | ODtRemoved _ | ORefused _ => False
  | _ => True
  end.

Lemma clear_ack_facts f :
  f_dts (fst (clear_ack f)) = f_dts f /\ f_paused (fst (clear_ack f)) = f_paused f /\
  f_lsc (fst (clear_ack f)) = f_lsc f /\ Forall plain (snd (clear_ack f)).
Proof.
  unfold clear_ack. cbn. repeat split. destruct (negb (ackt_eqb (f_ack f) AckNone)); repeat constructor.
Qed.

Lemma get_ack_facts now f :
  f_dts (snd (fst (get_ack now f))) = f_dts f /\ f_paused (snd (fst (get_ack now f))) = f_paused f /\
  f_lsc (snd (fst (get_ack now f))) = f_lsc f /\ Forall plain (snd (get_ack now f)).
Proof.
  unfold get_ack. destruct (negb (ackt_eqb (f_ack f) AckNone) && negb (f_ack_expiry f =? 0) && (f_ack_expiry f <? now)).
  - pose proof (clear_ack_facts f) as H. destruct (clear_ack f) as [f' o]. cbn in *. exact H.
  - cbn. repeat split. constructor.
Qed.

Lemma ack_on_change_facts k now sc ns f :
  let r := ack_on_change k now sc ns f in
  f_dts (fst r) = f_dts f /\ f_paused (fst r) = f_paused f /\ f_lsc (fst r) = f_lsc f /\ Forall plain (snd r).
Proof.
  unfold ack_on_change. destruct sc; [|cbn; repeat split; constructor].
  pose proof (get_ack_facts now f) as H1. destruct (get_ack now f) as [[a fa] oa]. cbn [fst snd] in H1.
  destruct H1 as (A1 & A2 & A3 & A4).
  destruct (ackt_eqb a AckNormal).
  - pose proof (clear_ack_facts fa) as H2. destruct (clear_ack fa) as [fb ob]. cbn [fst snd] in *.
    destruct H2 as (B1 & B2 & B3 & B4). repeat split; try congruence. apply Forall_app; split; assumption.
  - pose proof (get_ack_facts now fa) as H2. destruct (get_ack now fa) as [[a2 fa2] oa2]. cbn [fst snd] in H2.
    destruct H2 as (B1 & B2 & B3 & B4).
    destruct (ackt_eqb a2 AckSticky && is_ok k ns).
    + pose proof (clear_ack_facts fa2) as H3. destruct (clear_ack fa2) as [fb ob]. cbn [fst snd] in *.
      destruct H3 as (C1 & C2 & C3 & C4). repeat split; try congruence.
      apply Forall_app; split; [assumption|]. apply Forall_app; split; assumption.
    + cbn [fst snd]. repeat split; try congruence. apply Forall_app; split; assumption.
Qed.

Lemma do_result_shape c now r f :
  rejected now (f_st f) r = false ->
  let tr := if negb (is_ok (c_kind (fc_base c)) (r_state r))
            then trigger_all now (f_paused f) (r_end r) (f_dts f) else (f_dts f, []) in
  f_dts (fst (do_result c now r f)) = fst tr /\
  (f_lsc (fst (do_result c now r f)) = f_lsc f \/ f_lsc (fst (do_result c now r f)) = r_end r) /\
  exists oa ob, snd (do_result c now r f) = oa ++ snd tr ++ ob /\ Forall plain oa /\ Forall plain ob.
Proof.
  intros Hrej tr. unfold do_result. rewrite Hrej.
  destruct (step_accept (fc_base c) (f_st f) r) as [s' i].
  match goal with |- context [ack_on_change ?k ?n ?sc ?ns ?f0] =>
    pose proof (ack_on_change_facts k n sc ns f0) as H1; destruct (ack_on_change k n sc ns f0) as [f1 o1] end.
  cbn [fst snd set_core f_dts f_paused f_lsc] in H1. destruct H1 as (A1 & A2 & A3 & A4).
  pose proof (get_ack_facts now f1) as H2. destruct (get_ack now f1) as [[a3 f2] o2]. cbn [fst snd] in H2.
  destruct H2 as (B1 & B2 & B3 & B4).
  rewrite B1, B2, A1, A2.
  fold tr. destruct tr as [ds3 o3].
  match goal with |- context [get_ack now ?f3] =>
    pose proof (get_ack_facts now f3) as H3; destruct (get_ack now f3) as [[a4 f4] o4] end.
  cbn [fst snd set_dts f_dts f_paused f_lsc] in H3. destruct H3 as (C1 & C2 & C3 & C4).
  remember (if ackt_eqb a3 AckNone then remove_ack_comments (Some (r_end r)) f4 else f4) as f5 eqn:E5.
  assert (f_dts f5 = f_dts f4 /\ f_lsc f5 = f_lsc f4) as (D1 & D3).
  { subst f5. destruct (ackt_eqb a3 AckNone); split; reflexivity. }
  clear E5.
  match goal with |- context [match ?X with pair _ _ => _ end] =>
    destruct X as [[sup_fs sup_fe] o_fl] eqn:EX end.
  assert (Forall plain o_fl) as P1.
  { revert EX. repeat match goal with |- context [if ?b then _ else _] => destruct b end;
      intros EX; inversion EX; subst; repeat constructor. }
  clear EX.
  match goal with |- context [match ?X with pair _ _ => _ end] =>
    destruct X as [[sup_p sup_r] o_st] eqn:EY end.
  assert (Forall plain o_st) as P2.
  { revert EY. repeat match goal with |- context [if ?b then _ else _] => destruct b end;
      intros EY; inversion EY; subst; repeat constructor. }
  clear EY.
  split; [|split].
  - destruct (sup_fs || sup_fe || sup_p || sup_r); cbn [fst set_core f_dts]; congruence.
  - destruct (sup_fs || sup_fe || sup_p || sup_r); cbn [fst set_core f_lsc]; rewrite D3, C3, B3, A3;
      destruct (i_state_change i); auto.
  - exists (o1 ++ o2), (o4 ++ [ONewResult] ++ [OStateChange (i_event i)] ++ o_fl ++ o_st).
    split; [|split].
    + destruct (sup_fs || sup_fe || sup_p || sup_r); cbn [snd]; rewrite <- !app_assoc; reflexivity.
    + apply Forall_app; split; assumption.
    + apply Forall_app; split; [assumption|]. repeat (apply Forall_cons; [exact I|]).
      apply Forall_app; split; assumption.
Qed.

(* ------------------------------------------------------------------ AddDowntime *)
Definition new_dt (now id : Z) (fixed : bool) (start end_ duration parent : Z) (owned : bool) : dt :=
  {| d_id := id; d_fixed := fixed; d_start := start; d_end := end_; d_duration := duration;
     d_entry := now; d_trigger := 0; d_triggers := []; d_parent := parent; d_owned := owned |}.

Lemma ids_app ds d : ids (ds ++ [d]) = ids ds ++ [d_id d].
Proof. unfold ids. rewrite map_app. reflexivity. Qed.

Lemma nodup_snoc (l : list Z) x : NoDup l -> ~ In x l -> NoDup (l ++ [x]).
Proof.
  induction l as [|a l IH]; cbn; intros H Hn; [repeat constructor; auto|].
  inversion H; subst. constructor.
  - intros Hin. apply in_app_or in Hin. destruct Hin as [Hin|[->|[]]]; [auto|]. apply Hn. left. reflexivity.
  - apply IH; [assumption|]. intros Hin. apply Hn. right. exact Hin.
Qed.

Lemma do_dt_add_Rwl c now id fixed start end_ dur trig_by parent owned f :
  NoDup (ids (f_dts f)) -> ~ In id (ids (f_dts f)) ->
  exists ds2,
    Rwl now (f_dts f ++ [new_dt now id fixed start end_ dur parent owned]) ds2 /\
    f_dts (fst (do_dt_add c now id fixed start end_ dur trig_by parent owned f)) =
      (if trig_by =? 0 then ds2 else add_trigger trig_by id ds2) /\
    f_lsc (fst (do_dt_add c now id fixed start end_ dur trig_by parent owned f)) = f_lsc f.
Proof.
  intros Hnd Hfresh. unfold do_dt_add. fold (new_dt now id fixed start end_ dur parent owned).
  set (d := new_dt now id fixed start end_ dur parent owned).
  set (ds0 := f_dts f ++ [d]).
  assert (NoDup (ids ds0)) as Hnd0.
  { unfold ds0. rewrite ids_app. apply nodup_snoc; assumption. }
  match goal with |- context [let '(ds1, o1) := ?X in _] => remember X as x1 eqn:E1 end.
  assert (Rwl now ds0 (fst x1)) as H1.
  { subst x1. destruct (negb fixed && negb (is_ok (c_kind (fc_base c)) (s_raw (f_st f)))).
    - eapply Rl_Rwl. apply trigger_dt_Rl. exact Hnd0.
    - apply Rwl_refl. }
  clear E1. destruct x1 as [ds1 o1]. cbn [fst] in H1.
  assert (NoDup (ids ds1)) as Hnd1 by (rewrite (Rwl_ids _ _ _ H1); exact Hnd0).
  match goal with |- context [let '(ds2, o2) := ?X in _] => remember X as x2 eqn:E2 end.
  assert (Rwl now ds1 (fst x2)) as H2.
  { subst x2. destruct (find_dt id ds1) as [d1|]; [|apply Rwl_refl].
    destruct (fixed && dt_can_be_triggered now d1); [|apply Rwl_refl].
    pose proof (trigger_dt_Rl (chain_fuel ds1) now (f_paused f) id (Z.max start now) ds1 Hnd1) as Hi.
    destruct (trigger_dt (chain_fuel ds1) now (f_paused f) id (Z.max start now) ds1) as [dsx ox].
    cbn [fst] in *. eapply Rl_Rwl. exact Hi. }
  clear E2. destruct x2 as [ds2 o2]. cbn [fst] in H2.
  exists ds2. split; [eapply Rwl_trans; eassumption|]. split; reflexivity.
Qed.

(* ------------------------------------------------------------------ start timer *)
Lemma do_dt_start_timer_Rwl now f :
  NoDup (ids (f_dts f)) ->
  Rwl now (f_dts f) (f_dts (fst (do_dt_start_timer now f))) /\
  f_lsc (fst (do_dt_start_timer now f)) = f_lsc f.
Proof.
  intros Hnd. unfold do_dt_start_timer.
  match goal with |- context [fold_left ?g ?l ?a] =>
    assert (Rwl now (f_dts f) (fst (fold_left g l a))) as H end.
  { apply fold_left_inv with (Q := fun acc => Rwl now (f_dts f) (fst acc)); [apply Rwl_refl|].
    intros [dsa oa] id _ Ha. cbn [fst] in Ha.
    destruct (find_dt id dsa) as [d|]; [|exact Ha].
    destruct (dt_can_be_triggered now d && d_fixed d); [|exact Ha].
    assert (NoDup (ids dsa)) as Hnda by (rewrite (Rwl_ids _ _ _ Ha); exact Hnd).
    pose proof (trigger_dt_Rl (chain_fuel dsa) now (f_paused f) id (Z.max (d_start d) (d_entry d)) dsa Hnda) as Hi.
    destruct (trigger_dt (chain_fuel dsa) now (f_paused f) id (Z.max (d_start d) (d_entry d)) dsa) as [dsb ob].
    cbn [fst] in *. eapply Rwl_trans; [exact Ha|]. eapply Rl_Rwl. exact Hi. }
  match goal with |- context [fold_left ?g ?l ?a] => destruct (fold_left g l a) as [ds o] end.
  cbn [fst set_dts f_dts f_lsc] in *. split; [exact H|reflexivity].
Qed.

(* ------------------------------------------------------------------ RemoveDowntime: the survivors are a filter *)
Lemma filter_filter {A} (g1 g2 : A -> bool) l : filter g2 (filter g1 l) = filter (fun x => g1 x && g2 x) l.
Proof.
  induction l as [|a l IH]; cbn; [reflexivity|]. destruct (g1 a); cbn; [destruct (g2 a)|]; rewrite IH; reflexivity.
Qed.
Lemma filter_true {A} (l : list A) : filter (fun _ => true) l = l.
Proof. induction l; cbn; congruence. Qed.

Lemma remove_dt_filter fuel : forall now p id ch r ds,
  exists g, fst (fst (remove_dt fuel now p id ch r ds)) = filter g ds.
Proof.
  induction fuel as [|fuel IH]; intros now p id ch r ds; cbn [remove_dt].
  - exists (fun _ => true). cbn. symmetry. apply filter_true.
  - destruct (find_dt id ds) as [d|]; [|exists (fun _ => true); cbn; symmetry; apply filter_true].
    destruct (d_owned d && match r with RByUser => true | _ => false end);
      [exists (fun _ => true); cbn; symmetry; apply filter_true|].
    match goal with |- context [fold_left ?g ?l ?a] =>
      assert (exists g0, fst (fst (fold_left g l a)) = filter g0 ds) as H end.
    { apply fold_left_inv with (Q := fun acc => exists g0, fst (fst acc) = filter g0 ds).
      - exists (fun _ => true). cbn. symmetry. apply filter_true.
      - intros [[dsa oa] oka] k _ (g0 & Hg). cbn [fst] in Hg. destruct oka; [|exists g0; exact Hg].
        destruct (IH now p k true r dsa) as (g1 & Hg1).
        destruct (remove_dt fuel now p k true r dsa) as [[dsb ob] okb]. cbn [fst] in *.
        exists (fun x => g0 x && g1 x). rewrite Hg1, Hg. apply filter_filter. }
    match goal with |- context [fold_left ?g ?l ?a] => destruct (fold_left g l a) as [[ds1 o1] ok1] end.
    cbn [fst] in H. destruct H as (g0 & Hg0).
    destruct (negb ok1); [exists g0; exact Hg0|].
    destruct (find_dt id ds1); [|exists g0; exact Hg0].
    cbn [fst]. exists (fun x => g0 x && negb (d_id x =? id)). rewrite Hg0. apply filter_filter.
Qed.

Lemma nodup_ids_filter g ds : NoDup (ids ds) -> NoDup (ids (filter g ds)).
Proof.
  unfold ids. induction ds as [|a l IH]; cbn; intros H; [constructor|]. inversion H; subst.
  destruct (g a); cbn; [constructor|]; auto.
  intros Hin. apply H2. apply in_map_iff in Hin. destruct Hin as (x & Hx & Hin). apply filter_In in Hin.
  apply in_map_iff. exists x. tauto.
Qed.

Lemma do_dt_remove_filter now id ch r f :
  exists g, f_dts (fst (do_dt_remove now id ch r f)) = filter g (f_dts f) /\
            f_lsc (fst (do_dt_remove now id ch r f)) = f_lsc f.
Proof.
  unfold do_dt_remove.
  destruct (remove_dt_filter (chain_fuel (f_dts f)) now (f_paused f) id ch r (f_dts f)) as (g & Hg).
  destruct (remove_dt (chain_fuel (f_dts f)) now (f_paused f) id ch r (f_dts f)) as [[ds o] ok].
  cbn [fst] in *. exists g. split; [exact Hg|reflexivity].
Qed.

Lemma do_dt_cleanup_filter now id f :
  exists g, f_dts (fst (do_dt_cleanup now id f)) = filter g (f_dts f) /\
            f_lsc (fst (do_dt_cleanup now id f)) = f_lsc f.
Proof.
  unfold do_dt_cleanup.
  destruct (find_dt id (f_dts f)) as [d|]; [|exists (fun _ => true); split; [symmetry; apply filter_true|reflexivity]].
  destruct (dt_is_expired now d); [apply do_dt_remove_filter|].
  exists (fun _ => true); split; [symmetry; apply filter_true|reflexivity].
Qed.
