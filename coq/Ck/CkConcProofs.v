(* C01 - concurrent ProcessCheckResult at lock granularity: proofs about the model in CkConc.v. *)
From Coq Require Import Permutation.
From Icv Require Import Base.Tac Ck.CkState Ck.CkConc.
Local Open Scope Z_scope.

(* ---------- small facts about the state record ---------- *)

(* the state fields without last_check_result *)
Definition cc_nf (s : st) : st := cc_keep_cr pending s.

Lemma cc_mix_same s : cc_mix s s = s.
Proof. destruct s; reflexivity. Qed.

Lemma cc_nf_keep cur s : cc_nf (cc_keep_cr cur s) = cc_nf s.
Proof. reflexivity. Qed.

Lemma cc_nf_set_cr s r : cc_nf (cc_set_cr s r) = cc_nf s.
Proof. reflexivity. Qed.

(* step_accept does not look at last_check_result *)
Lemma cc_step_accept_nf c s r : step_accept c s r = step_accept c (cc_nf s) r.
Proof. reflexivity. Qed.

Lemma cc_step_accept_feq c a b r : cc_nf a = cc_nf b -> step_accept c a r = step_accept c b r.
Proof. intros H. rewrite (cc_step_accept_nf c a), (cc_step_accept_nf c b), H. reflexivity. Qed.

Lemma cc_nf_eq a b : cc_nf a = cc_nf b -> s_has_cr a = s_has_cr b -> s_cr_start a = s_cr_start b -> a = b.
Proof.
  destruct a, b; unfold cc_nf, cc_keep_cr; simpl. intros H H1 H2. inversion H; subst. reflexivity.
Qed.

Lemma cc_step_accept_cr c s r :
  s_has_cr (fst (step_accept c s r)) = true /\ s_cr_start (fst (step_accept c s r)) = r_start r.
Proof.
  unfold step_accept.
  destruct (if is_ok (c_kind c) (r_state r) then _ else _) as [[ty a] rc].
  simpl. auto.
Qed.

(* the event with the state type this very step wrote is the event of the step *)
Lemma cc_event_own c s r :
  cc_event c (snd (step_accept c s r)) r (s_type (fst (step_accept c s r))) = i_event (snd (step_accept c s r)).
Proof.
  unfold step_accept, cc_event.
  destruct (if is_ok (c_kind c) (r_state r) then _ else _) as [[ty a] rc].
  simpl. reflexivity.
Qed.

(* ---------- the serial references, extended at the end ---------- *)

Lemma cc_serial_snoc c jobs s l i :
  cc_serial c jobs s (l ++ [i]) =
  let '(sf, outs) := cc_serial c jobs s l in
  let '(s', oi) := step c (fst (jobs i)) sf (snd (jobs i)) in
  (s', outs ++ [(i, cc_out_of oi)]).
Proof.
  revert s. induction l as [|j l IH]; intros s; cbn [cc_serial app].
  - destruct (step c (fst (jobs i)) s (snd (jobs i))); reflexivity.
  - destruct (step c (fst (jobs j)) s (snd (jobs j))) as [s1 o1]. rewrite IH.
    destruct (cc_serial c jobs s1 l) as [sf outs].
    destruct (step c (fst (jobs i)) sf (snd (jobs i))); reflexivity.
Qed.

Lemma cc_serial_acc_snoc c jobs s l i :
  cc_serial_acc c jobs s (l ++ [i]) =
  let '(sf, infs) := cc_serial_acc c jobs s l in
  let '(s', inf) := step_accept c sf (snd (jobs i)) in
  (s', infs ++ [(i, inf)]).
Proof.
  revert s. induction l as [|j l IH]; intros s; cbn [cc_serial_acc app].
  - destruct (step_accept c s (snd (jobs i))); reflexivity.
  - destruct (step_accept c s (snd (jobs j))) as [s1 o1]. rewrite IH.
    destruct (cc_serial_acc c jobs s1 l) as [sf outs].
    destruct (step_accept c sf (snd (jobs i))); reflexivity.
Qed.

(* the state of the serial reference is CkState.run over the jobs in that order *)
Lemma cc_serial_run c jobs s l : fst (cc_serial c jobs s l) = run c s (map jobs l).
Proof.
  revert s. induction l as [|j l IH]; intros s; cbn [cc_serial map]; [reflexivity|].
  destruct (step c (fst (jobs j)) s (snd (jobs j))) as [s1 o1] eqn:E.
  specialize (IH s1). destruct (cc_serial c jobs s1 l) as [sf outs]. cbn [fst] in *.
  rewrite IH. unfold run. cbn [fold_left]. rewrite E. reflexivity.
Qed.

Lemma cc_serial_ids c jobs s l : map fst (snd (cc_serial c jobs s l)) = l.
Proof.
  revert s. induction l as [|j l IH]; intros s; cbn [cc_serial map snd]; [reflexivity|].
  destruct (step c (fst (jobs j)) s (snd (jobs j))) as [s1 o1].
  specialize (IH s1). destruct (cc_serial c jobs s1 l) as [sf outs]. cbn [map fst snd] in *. congruence.
Qed.

Lemma cc_serial_acc_ids c jobs s l : map fst (snd (cc_serial_acc c jobs s l)) = l.
Proof.
  revert s. induction l as [|j l IH]; intros s; cbn [cc_serial_acc map snd]; [reflexivity|].
  destruct (step_accept c s (snd (jobs j))) as [s1 o1].
  specialize (IH s1). destruct (cc_serial_acc c jobs s1 l) as [sf outs]. cbn [map fst snd] in *. congruence.
Qed.

(* ---------- ghost log ---------- *)

Definition cc_accs (lg : list (nat * option info)) : list (nat * info) :=
  flat_map (fun e => match snd e with Some inf => [(fst e, inf)] | None => [] end) lg.

Definition cc_entry_out (e : nat * option info) : nat * cc_out := (fst e, cc_out_of (snd e)).

Lemma cc_accs_app a b : cc_accs (a ++ b) = cc_accs a ++ cc_accs b.
Proof. unfold cc_accs. apply flat_map_app. Qed.

Lemma cc_accs_in i inf lg : In (i, inf) (cc_accs lg) <-> In (i, Some inf) lg.
Proof.
  unfold cc_accs. rewrite in_flat_map. split.
  - intros [[j [x|]] [Hin H]]; simpl in H; [|contradiction].
    destruct H as [H|[]]. inversion H; subst. exact Hin.
  - intros H. exists (i, Some inf). split; [exact H|]. simpl. auto.
Qed.

Lemma cc_accs_ids_incl lg x : In x (map fst (cc_accs lg)) -> In x (map fst lg).
Proof.
  rewrite !in_map_iff. intros [[j inf] [Hj Hin]]. simpl in Hj; subst.
  apply cc_accs_in in Hin. exists (x, Some inf). auto.
Qed.

Lemma cc_accs_nodup lg : NoDup (map fst lg) -> NoDup (map fst (cc_accs lg)).
Proof.
  induction lg as [|[j [inf|]] lg IH]; simpl; intros H; inversion H; subst; auto.
  - constructor; auto. intros Hin. apply H2. apply (cc_accs_ids_incl lg j). exact Hin.
Qed.

Lemma cc_nodup_fst_fun {A} (l : list (nat * A)) i a b :
  NoDup (map fst l) -> In (i, a) l -> In (i, b) l -> a = b.
Proof.
  induction l as [|[j x] l IH]; simpl; intros Hnd Ha Hb; [contradiction|].
  inversion Hnd; subst.
  destruct Ha as [Ha|Ha]; destruct Hb as [Hb|Hb].
  - congruence.
  - inversion Ha; subst. exfalso. apply H1. apply in_map_iff. exists (i, b). auto.
  - inversion Hb; subst. exfalso. apply H1. apply in_map_iff. exists (i, a). auto.
  - auto.
Qed.

Lemma NoDup_app_snoc {A} (l : list A) x : NoDup l -> ~ In x l -> NoDup (l ++ [x]).
Proof.
  intros H Hn. apply (Permutation_NoDup (l := x :: l)); [apply Permutation_cons_append|constructor; auto].
Qed.

(* ---------- the invariant (lock taken first) ---------- *)

Definition cc_holds (p : cc_pc) : bool :=
  match p with
  | CcRead | CcHave _ | CcWrite _ | CcRel1 _ | CcCr _ | CcRel2 _ => true
  | _ => false
  end.

Section Invariant.
Variable g : cc_cfg.
Variable c : cfg.
Variable jobs : nat -> Z * cres.
Variable s0 : st.
Variable k : nat.
Hypothesis Hlf : cc_lock_first g = true.

Definition cc_tinv (cur : st) (lg : list (nat * option info)) (i : nat) (p : cc_pc) : Prop :=
  match p with
  | CcIdle | CcStart | CcRead => ~ In i (map fst lg)
  | CcHave snap => snap = cur /\ ~ In i (map fst lg)
  | CcWantW _ => False
  | CcWrite snap => snap = cur /\ rejected (fst (jobs i)) snap (snd (jobs i)) = false /\ ~ In i (map fst lg)
  | CcRel1 inf | CcPost inf => In (i, Some inf) lg
  | CcWant2 inf | CcCr inf | CcRel2 inf => In (i, Some inf) lg /\ cc_cr_split g = true
  | CcDone CcRejected => In (i, None) lg
  | CcDone (CcAccepted e) =>
      exists inf, In (i, Some inf) lg /\
                  (if cc_ev_reread g then exists ty, e = cc_event c inf (snd (jobs i)) ty else e = i_event inf)
  end.

Record cc_inv (s : cc_state) : Prop := {
  inv_t : forall i, cc_tinv (cc_st s) (cc_log s) i (cc_pcs s i);
  inv_h1 : forall i, cc_holds (cc_pcs s i) = true -> cc_lock s = Some i;
  inv_h2 : forall i, cc_lock s = Some i -> cc_holds (cc_pcs s i) = true;
  inv_idle : forall i, (k <= i)%nat -> cc_pcs s i = CcIdle;
  inv_nodup : NoDup (map fst (cc_log s));
  inv_B : exists sB, cc_serial_acc c jobs s0 (map fst (cc_accs (cc_log s))) = (sB, cc_accs (cc_log s)) /\
                     cc_nf (cc_st s) = cc_nf sB;
  inv_A : cc_cr_split g = false ->
          cc_serial c jobs s0 (map fst (cc_log s)) = (cc_st s, map cc_entry_out (cc_log s))
}.

Lemma cc_tinv_stable cur lg cur' lg' i j p :
  cc_tinv cur lg j p -> j <> i ->
  (cc_holds p = true -> cur' = cur) ->
  (lg' = lg \/ exists x, lg' = lg ++ [(i, x)]) ->
  cc_tinv cur' lg' j p.
Proof.
  intros H Hne Hst Hlg.
  assert (Hin : forall e, In e lg -> In e lg').
  { intros e He. destruct Hlg as [->|[x ->]]; [exact He|apply in_or_app; auto]. }
  assert (Hnin : ~ In j (map fst lg) -> ~ In j (map fst lg')).
  { intros Hn. destruct Hlg as [->|[x ->]]; [exact Hn|].
    rewrite map_app, in_app_iff. simpl. intros [H1|[H1|[]]]; [auto|congruence]. }
  destruct p as [| | |snap|snap|snap|inf|inf|inf|inf|inf|[|e]]; simpl in *; auto.
  - destruct H as [H1 H2]. split; [rewrite Hst; auto|auto].
  - destruct H as [H1 [H2 H3]]. rewrite Hst by reflexivity. auto.
  - destruct H; auto.
  - destruct H; auto.
  - destruct H; auto.
  - destruct H as [inf [H1 H2]]. exists inf. auto.
Qed.

Lemma cc_inv_move s i p' st' l' lg' :
  cc_inv s ->
  cc_pcs s i <> CcIdle ->
  (l' = cc_lock s \/ (cc_lock s = None /\ l' = Some i) \/ (cc_lock s = Some i /\ l' = None)) ->
  (cc_holds p' = true <-> l' = Some i) ->
  (st' = cc_st s \/ cc_lock s = Some i) ->
  (lg' = cc_log s \/ exists x, lg' = cc_log s ++ [(i, x)] /\ ~ In i (map fst (cc_log s))) ->
  cc_tinv st' lg' i p' ->
  p' <> CcIdle ->
  (exists sB, cc_serial_acc c jobs s0 (map fst (cc_accs lg')) = (sB, cc_accs lg') /\ cc_nf st' = cc_nf sB) ->
  (cc_cr_split g = false -> cc_serial c jobs s0 (map fst lg') = (st', map cc_entry_out lg')) ->
  cc_inv {| cc_st := st'; cc_lock := l'; cc_pcs := cc_upd (cc_pcs s) i p'; cc_log := lg' |}.
Proof.
  intros I Hni Hl Hh Hst Hlg Ht Hp' HB HA.
  constructor; simpl.
  - intros j. unfold cc_upd. destruct (Nat.eqb_spec j i) as [->|Hne]; [exact Ht|].
    apply cc_tinv_stable with (cur := cc_st s) (lg := cc_log s) (i := i); auto.
    + apply (inv_t _ I).
    + intros Hj. destruct Hst as [->|Hli]; [reflexivity|].
      apply (inv_h1 _ I) in Hj. congruence.
    + destruct Hlg as [->|[x [-> _]]]; [auto|right; eauto].
  - intros j. unfold cc_upd. destruct (Nat.eqb_spec j i) as [->|Hne].
    + apply Hh.
    + intros Hj. apply (inv_h1 _ I) in Hj.
      destruct Hl as [->|[[H1 H2]|[H1 H2]]]; congruence.
  - intros j Hj. unfold cc_upd. destruct (Nat.eqb_spec j i) as [->|Hne].
    + apply Hh. exact Hj.
    + apply (inv_h2 _ I).
      destruct Hl as [->|[[H1 H2]|[H1 H2]]]; congruence.
  - intros j Hj. unfold cc_upd. destruct (Nat.eqb_spec j i) as [->|Hne].
    + exfalso. apply Hni. apply (inv_idle _ I). exact Hj.
    + apply (inv_idle _ I). exact Hj.
  - destruct Hlg as [->|[x [-> Hn]]]; [apply (inv_nodup _ I)|].
    rewrite map_app. simpl.
    apply NoDup_app_snoc; [apply (inv_nodup _ I)|exact Hn].
  - exact HB.
  - exact HA.
Qed.


Lemma cc_inv_init : cc_inv (cc_init s0 k).
Proof.
  constructor; simpl.
  - intros i. destruct (Nat.ltb i k); simpl; auto.
  - intros i. destruct (Nat.ltb i k); simpl; discriminate.
  - discriminate.
  - intros i Hi. destruct (Nat.ltb_spec i k); [lia|reflexivity].
  - constructor.
  - exists s0. auto.
  - auto.
Qed.

Lemma cc_inv_step s i : cc_inv s -> cc_inv (cc_step g c jobs s i).
Proof.
  intros I. pose proof (inv_t _ I i) as Ti.
  assert (Hh1 : cc_holds (cc_pcs s i) = true -> cc_lock s = Some i) by apply (inv_h1 _ I).
  assert (Hh2 : cc_lock s = Some i -> cc_holds (cc_pcs s i) = true) by apply (inv_h2 _ I).
  pose proof (inv_B _ I) as HB. pose proof (inv_A _ I) as HA.
  assert (Hni : forall p, cc_pcs s i = p -> p <> CcIdle -> cc_pcs s i <> CcIdle) by (intros; congruence).
  unfold cc_step.
  destruct (cc_pcs s i) as [| | |snap|snap|snap|inf|inf|inf|inf|inf|o] eqn:Hpc; cbn [cc_tinv cc_holds] in *.
  - exact I.
  - (* CcStart: take the lock *)
    rewrite Hlf. destruct (cc_lock s) as [h|] eqn:Hl; cbn [cc_free]; [exact I|].
    apply cc_inv_move;
      [exact I | rewrite Hpc; discriminate | rewrite Hl; right; left; auto | simpl; tauto | left; reflexivity
      | left; reflexivity | exact Ti | discriminate | exact HB | exact HA].
  - (* CcRead *)
    apply cc_inv_move;
      [exact I | rewrite Hpc; discriminate | left; reflexivity | simpl; split; auto | left; reflexivity
      | left; reflexivity | simpl; auto | discriminate | exact HB | exact HA].
  - (* CcHave *)
    destruct Ti as [-> Hn].
    destruct (rejected (fst (jobs i)) (cc_st s) (snd (jobs i))) eqn:Hrej; rewrite Hlf.
    + apply cc_inv_move;
        [exact I | rewrite Hpc; discriminate | right; right; auto | simpl; split; discriminate | left; reflexivity
        | right; exists None; auto | simpl; apply in_or_app; right; left; reflexivity | discriminate | | ].
      * rewrite cc_accs_app. cbn [cc_accs flat_map snd app]. rewrite app_nil_r. exact HB.
      * intros Hs. rewrite !map_app. cbn [map fst]. rewrite cc_serial_snoc, (HA Hs).
        unfold step. rewrite Hrej. reflexivity.
    + apply cc_inv_move;
        [exact I | rewrite Hpc; discriminate | left; reflexivity | simpl; split; auto | left; reflexivity
        | left; reflexivity | simpl; auto | discriminate | exact HB | exact HA].
  - contradiction.
  - (* CcWrite *)
    destruct Ti as [-> [Hrej Hn]]. rewrite cc_mix_same.
    destruct (step_accept c (cc_st s) (snd (jobs i))) as [s' inf] eqn:E.
    apply cc_inv_move;
      [exact I | rewrite Hpc; discriminate | left; reflexivity | simpl; split; auto | right; auto
      | right; exists (Some inf); auto | simpl; apply in_or_app; right; left; reflexivity | discriminate | | ].
    + destruct HB as [sB [HB1 HB2]].
      rewrite cc_accs_app. cbn [cc_accs flat_map snd fst app]. rewrite map_app. cbn [map fst].
      rewrite cc_serial_acc_snoc, HB1.
      rewrite <- (cc_step_accept_feq c (cc_st s) sB _ HB2), E.
      exists s'. split; [reflexivity|].
      destruct (cc_cr_split g); [apply cc_nf_keep|reflexivity].
    + intros Hs. rewrite Hs. rewrite !map_app. cbn [map fst]. rewrite cc_serial_snoc, (HA Hs).
      unfold step. rewrite Hrej, E. reflexivity.
  - (* CcRel1 *)
    apply cc_inv_move;
      [exact I | rewrite Hpc; discriminate | right; right; auto
      | destruct (cc_cr_split g); simpl; split; discriminate | left; reflexivity
      | left; reflexivity | destruct (cc_cr_split g) eqn:Hs; simpl; auto
      | destruct (cc_cr_split g); discriminate | exact HB | exact HA].
  - (* CcWant2 *)
    destruct (cc_lock s) as [h|] eqn:Hl; cbn [cc_free]; [exact I|].
    apply cc_inv_move;
      [exact I | rewrite Hpc; discriminate | rewrite Hl; right; left; auto | simpl; tauto | left; reflexivity
      | left; reflexivity | exact Ti | discriminate | exact HB | exact HA].
  - (* CcCr *)
    destruct Ti as [Hin Hs].
    apply cc_inv_move;
      [exact I | rewrite Hpc; discriminate | left; reflexivity | simpl; split; auto | right; auto
      | left; reflexivity | simpl; auto | discriminate | | intros Hs'; congruence].
    destruct HB as [sB [HB1 HB2]]. exists sB. split; [exact HB1|]. rewrite cc_nf_set_cr. exact HB2.
  - (* CcRel2 *)
    destruct Ti as [Hin Hs].
    apply cc_inv_move;
      [exact I | rewrite Hpc; discriminate | right; right; auto | simpl; split; discriminate | left; reflexivity
      | left; reflexivity | exact Hin | discriminate | exact HB | exact HA].
  - (* CcPost *)
    apply cc_inv_move;
      [exact I | rewrite Hpc; discriminate | left; reflexivity
      | simpl; split; [discriminate|intros Hl; apply Hh2 in Hl; discriminate] | left; reflexivity
      | left; reflexivity | | discriminate | exact HB | exact HA].
    simpl. exists inf. split; [exact Ti|].
    destruct (cc_ev_reread g); [eexists; reflexivity|reflexivity].
  - exact I.
Qed.

Lemma cc_inv_run sched : forall s, cc_inv s -> cc_inv (cc_run g c jobs s sched).
Proof.
  induction sched as [|i sched IH]; intros s I; [exact I|].
  unfold cc_run in *. cbn [fold_left]. apply IH. apply cc_inv_step. exact I.
Qed.

End Invariant.
