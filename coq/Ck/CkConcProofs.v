(* C01 - concurrent ProcessCheckResult at lock granularity: proofs about the model in CkConc.v. *)
From Coq Require Import Permutation.
From Icv Require Import Base.Tac Ck.CkState Ck.CkConc.
Local Open Scope Z_scope.

(* ---------- small facts about the state record ---------- *)

(* the state fields without last_check_result *)
Definition cc_nf (s : st) : st := cc_keep_cr pending s.

Lemma cc_mix_same s : cc_mix s s = s.
Proof. destruct s; reflexivity. Qed.

Lemma cc_nf_keep cur s : cc_nf (cc_keep_cr cur s) = cc_nf s.
Proof. reflexivity. Qed.

Lemma cc_nf_set_cr s r : cc_nf (cc_set_cr s r) = cc_nf s.
Proof. reflexivity. Qed.

(* step_accept does not look at last_check_result *)
Lemma cc_step_accept_nf c s r : step_accept c s r = step_accept c (cc_nf s) r.
Proof. reflexivity. Qed.

Lemma cc_step_accept_feq c a b r : cc_nf a = cc_nf b -> step_accept c a r = step_accept c b r.
Proof. intros H. rewrite (cc_step_accept_nf c a), (cc_step_accept_nf c b), H. reflexivity. Qed.

Lemma cc_nf_eq a b : cc_nf a = cc_nf b -> s_has_cr a = s_has_cr b -> s_cr_start a = s_cr_start b -> a = b.
Proof.
  destruct a, b; unfold cc_nf, cc_keep_cr; simpl. intros H H1 H2. inversion H; subst. reflexivity.
Qed.

Lemma cc_step_accept_cr c s r :
  s_has_cr (fst (step_accept c s r)) = true /\ s_cr_start (fst (step_accept c s r)) = r_start r.
Proof.
  unfold step_accept.
  destruct (if is_ok (c_kind c) (r_state r) then _ else _) as [[ty a] rc].
  simpl. auto.
Qed.

(* the event with the state type this very step wrote is the event of the step *)
Lemma cc_event_own c s r :
  cc_event c (snd (step_accept c s r)) r (s_type (fst (step_accept c s r))) = i_event (snd (step_accept c s r)).
Proof.
  unfold step_accept, cc_event.
  destruct (if is_ok (c_kind c) (r_state r) then _ else _) as [[ty a] rc].
  simpl. reflexivity.
Qed.

(* ---------- the serial references, extended at the end ---------- *)

Lemma cc_serial_snoc c jobs s l i :
  cc_serial c jobs s (l ++ [i]) =
  let '(sf, outs) := cc_serial c jobs s l in
  let '(s', oi) := step c (fst (jobs i)) sf (snd (jobs i)) in
  (s', outs ++ [(i, cc_out_of oi)]).
Proof.
  revert s. induction l as [|j l IH]; intros s; cbn [cc_serial app].
  - destruct (step c (fst (jobs i)) s (snd (jobs i))); reflexivity.
  - destruct (step c (fst (jobs j)) s (snd (jobs j))) as [s1 o1]. rewrite IH.
    destruct (cc_serial c jobs s1 l) as [sf outs].
    destruct (step c (fst (jobs i)) sf (snd (jobs i))); reflexivity.
Qed.

Lemma cc_serial_acc_snoc c jobs s l i :
  cc_serial_acc c jobs s (l ++ [i]) =
  let '(sf, infs) := cc_serial_acc c jobs s l in
  let '(s', inf) := step_accept c sf (snd (jobs i)) in
  (s', infs ++ [(i, inf)]).
Proof.
  revert s. induction l as [|j l IH]; intros s; cbn [cc_serial_acc app].
  - destruct (step_accept c s (snd (jobs i))); reflexivity.
  - destruct (step_accept c s (snd (jobs j))) as [s1 o1]. rewrite IH.
    destruct (cc_serial_acc c jobs s1 l) as [sf outs].
    destruct (step_accept c sf (snd (jobs i))); reflexivity.
Qed.

(* the state of the serial reference is CkState.run over the jobs in that order *)
Lemma cc_serial_run c jobs s l : fst (cc_serial c jobs s l) = run c s (map jobs l).
Proof.
  revert s. induction l as [|j l IH]; intros s; cbn [cc_serial map]; [reflexivity|].
  destruct (step c (fst (jobs j)) s (snd (jobs j))) as [s1 o1] eqn:E.
  specialize (IH s1). destruct (cc_serial c jobs s1 l) as [sf outs]. cbn [fst] in *.
  rewrite IH. unfold run. cbn [fold_left]. rewrite E. reflexivity.
Qed.

Lemma cc_serial_ids c jobs s l : map fst (snd (cc_serial c jobs s l)) = l.
Proof.
  revert s. induction l as [|j l IH]; intros s; cbn [cc_serial map snd]; [reflexivity|].
  destruct (step c (fst (jobs j)) s (snd (jobs j))) as [s1 o1].
  specialize (IH s1). destruct (cc_serial c jobs s1 l) as [sf outs]. cbn [map fst snd] in *. congruence.
Qed.

Lemma cc_serial_acc_ids c jobs s l : map fst (snd (cc_serial_acc c jobs s l)) = l.
Proof.
  revert s. induction l as [|j l IH]; intros s; cbn [cc_serial_acc map snd]; [reflexivity|].
  destruct (step_accept c s (snd (jobs j))) as [s1 o1].
  specialize (IH s1). destruct (cc_serial_acc c jobs s1 l) as [sf outs]. cbn [map fst snd] in *. congruence.
Qed.

(* ---------- ghost log ---------- *)

Definition cc_accs (lg : list (nat * option info)) : list (nat * info) :=
  flat_map (fun e => match snd e with Some inf => [(fst e, inf)] | None => [] end) lg.

Definition cc_entry_out (e : nat * option info) : nat * cc_out := (fst e, cc_out_of (snd e)).

Lemma cc_accs_app a b : cc_accs (a ++ b) = cc_accs a ++ cc_accs b.
Proof. unfold cc_accs. apply flat_map_app. Qed.

Lemma cc_accs_in i inf lg : In (i, inf) (cc_accs lg) <-> In (i, Some inf) lg.
Proof.
  unfold cc_accs. rewrite in_flat_map. split.
  - intros [[j [x|]] [Hin H]]; simpl in H; [|contradiction].
    destruct H as [H|[]]. inversion H; subst. exact Hin.
  - intros H. exists (i, Some inf). split; [exact H|]. simpl. auto.
Qed.

Lemma cc_accs_ids_incl lg x : In x (map fst (cc_accs lg)) -> In x (map fst lg).
Proof.
  rewrite !in_map_iff. intros [[j inf] [Hj Hin]]. simpl in Hj; subst.
  apply cc_accs_in in Hin. exists (x, Some inf). auto.
Qed.

Lemma cc_accs_nodup lg : NoDup (map fst lg) -> NoDup (map fst (cc_accs lg)).
Proof.
  induction lg as [|[j [inf|]] lg IH]; simpl; intros H; inversion H; subst; auto.
  - constructor; auto. intros Hin. apply H2. apply (cc_accs_ids_incl lg j). exact Hin.
Qed.

Lemma cc_nodup_fst_fun {A} (l : list (nat * A)) i a b :
  NoDup (map fst l) -> In (i, a) l -> In (i, b) l -> a = b.
Proof.
  induction l as [|[j x] l IH]; simpl; intros Hnd Ha Hb; [contradiction|].
  inversion Hnd; subst.
  destruct Ha as [Ha|Ha]; destruct Hb as [Hb|Hb].
  - congruence.
  - inversion Ha; subst. exfalso. apply H1. apply in_map_iff. exists (i, b). auto.
  - inversion Hb; subst. exfalso. apply H1. apply in_map_iff. exists (i, a). auto.
  - auto.
Qed.

Lemma NoDup_app_snoc {A} (l : list A) x : NoDup l -> ~ In x l -> NoDup (l ++ [x]).
Proof.
  intros H Hn. apply (Permutation_NoDup (l := x :: l)); [apply Permutation_cons_append|constructor; auto].
Qed.

(* ---------- the invariant (lock taken first) ---------- *)

Definition cc_holds (p : cc_pc) : bool :=
  match p with
  | CcRead | CcHave _ | CcWrite _ | CcRel1 _ | CcCr _ | CcRel2 _ => true
  | _ => false
  end.

Section Invariant.
Variable g : cc_cfg.
Variable c : cfg.
Variable jobs : nat -> Z * cres.
Variable s0 : st.
Variable k : nat.
Hypothesis Hlf : cc_lock_first g = true.

Definition cc_tinv (cur : st) (lg : list (nat * option info)) (i : nat) (p : cc_pc) : Prop :=
  match p with
  | CcIdle | CcStart | CcRead => ~ In i (map fst lg)
  | CcHave snap => snap = cur /\ ~ In i (map fst lg)
  | CcWantW _ => False
  | CcWrite snap => snap = cur /\ rejected (fst (jobs i)) snap (snd (jobs i)) = false /\ ~ In i (map fst lg)
  | CcRel1 inf | CcPost inf => In (i, Some inf) lg
  | CcWant2 inf | CcCr inf | CcRel2 inf => In (i, Some inf) lg /\ cc_cr_split g = true
  | CcDone CcRejected => In (i, None) lg
  | CcDone (CcAccepted e) =>
      exists inf, In (i, Some inf) lg /\
                  (if cc_ev_reread g then exists ty, e = cc_event c inf (snd (jobs i)) ty else e = i_event inf)
  end.

Record cc_inv (s : cc_state) : Prop := {
  inv_t : forall i, cc_tinv (cc_st s) (cc_log s) i (cc_pcs s i);
  inv_h1 : forall i, cc_holds (cc_pcs s i) = true -> cc_lock s = Some i;
  inv_h2 : forall i, cc_lock s = Some i -> cc_holds (cc_pcs s i) = true;
  inv_idle : forall i, (k <= i)%nat -> cc_pcs s i = CcIdle;
  inv_nodup : NoDup (map fst (cc_log s));
  inv_B : exists sB, cc_serial_acc c jobs s0 (map fst (cc_accs (cc_log s))) = (sB, cc_accs (cc_log s)) /\
                     cc_nf (cc_st s) = cc_nf sB;
  inv_A : cc_cr_split g = false ->
          cc_serial c jobs s0 (map fst (cc_log s)) = (cc_st s, map cc_entry_out (cc_log s))
}.

Lemma cc_tinv_stable cur lg cur' lg' i j p :
  cc_tinv cur lg j p -> j <> i ->
  (cc_holds p = true -> cur' = cur) ->
  (lg' = lg \/ exists x, lg' = lg ++ [(i, x)]) ->
  cc_tinv cur' lg' j p.
Proof.
  intros H Hne Hst Hlg.
  assert (Hin : forall e, In e lg -> In e lg').
  { intros e He. destruct Hlg as [->|[x ->]]; [exact He|apply in_or_app; auto]. }
  assert (Hnin : ~ In j (map fst lg) -> ~ In j (map fst lg')).
  { intros Hn. destruct Hlg as [->|[x ->]]; [exact Hn|].
    rewrite map_app, in_app_iff. simpl. intros [H1|[H1|[]]]; [auto|congruence]. }
  destruct p as [| | |snap|snap|snap|inf|inf|inf|inf|inf|[|e]]; simpl in *; auto.
  - destruct H as [H1 H2]. split; [rewrite Hst; auto|auto].
  - destruct H as [H1 [H2 H3]]. rewrite Hst by reflexivity. auto.
  - destruct H; auto.
  - destruct H; auto.
  - destruct H; auto.
  - destruct H as [inf [H1 H2]]. exists inf. auto.
Qed.

Lemma cc_inv_move s i p' st' l' lg' :
  cc_inv s ->
  cc_pcs s i <> CcIdle ->
  (l' = cc_lock s \/ (cc_lock s = None /\ l' = Some i) \/ (cc_lock s = Some i /\ l' = None)) ->
  (cc_holds p' = true <-> l' = Some i) ->
  (st' = cc_st s \/ cc_lock s = Some i) ->
  (lg' = cc_log s \/ exists x, lg' = cc_log s ++ [(i, x)] /\ ~ In i (map fst (cc_log s))) ->
  cc_tinv st' lg' i p' ->
  p' <> CcIdle ->
  (exists sB, cc_serial_acc c jobs s0 (map fst (cc_accs lg')) = (sB, cc_accs lg') /\ cc_nf st' = cc_nf sB) ->
  (cc_cr_split g = false -> cc_serial c jobs s0 (map fst lg') = (st', map cc_entry_out lg')) ->
  cc_inv {| cc_st := st'; cc_lock := l'; cc_pcs := cc_upd (cc_pcs s) i p'; cc_log := lg' |}.
Proof.
  intros I Hni Hl Hh Hst Hlg Ht Hp' HB HA.
  constructor; simpl.
  - intros j. unfold cc_upd. destruct (Nat.eqb_spec j i) as [->|Hne]; [exact Ht|].
    apply cc_tinv_stable with (cur := cc_st s) (lg := cc_log s) (i := i); auto.
    + apply (inv_t _ I).
    + intros Hj. destruct Hst as [->|Hli]; [reflexivity|].
      apply (inv_h1 _ I) in Hj. congruence.
    + destruct Hlg as [->|[x [-> _]]]; [auto|right; eauto].
  - intros j. unfold cc_upd. destruct (Nat.eqb_spec j i) as [->|Hne].
    + apply Hh.
    + intros Hj. apply (inv_h1 _ I) in Hj.
      destruct Hl as [->|[[H1 H2]|[H1 H2]]]; congruence.
  - intros j Hj. unfold cc_upd. destruct (Nat.eqb_spec j i) as [->|Hne].
    + apply Hh. exact Hj.
    + apply (inv_h2 _ I).
      destruct Hl as [->|[[H1 H2]|[H1 H2]]]; congruence.
  - intros j Hj. unfold cc_upd. destruct (Nat.eqb_spec j i) as [->|Hne].
    + exfalso. apply Hni. apply (inv_idle _ I). exact Hj.
    + apply (inv_idle _ I). exact Hj.
  - destruct Hlg as [->|[x [-> Hn]]]; [apply (inv_nodup _ I)|].
    rewrite map_app. simpl.
    apply NoDup_app_snoc; [apply (inv_nodup _ I)|exact Hn].
  - exact HB.
  - exact HA.
Qed.


Lemma cc_inv_init : cc_inv (cc_init s0 k).
Proof.
  constructor; simpl.
  - intros i. destruct (Nat.ltb i k); simpl; auto.
  - intros i. destruct (Nat.ltb i k); simpl; discriminate.
  - discriminate.
  - intros i Hi. destruct (Nat.ltb_spec i k); [lia|reflexivity].
  - constructor.
  - exists s0. auto.
  - auto.
Qed.

Lemma cc_inv_step s i : cc_inv s -> cc_inv (cc_step g c jobs s i).
Proof.
  intros I. pose proof (inv_t _ I i) as Ti.
  assert (Hh1 : cc_holds (cc_pcs s i) = true -> cc_lock s = Some i) by apply (inv_h1 _ I).
  assert (Hh2 : cc_lock s = Some i -> cc_holds (cc_pcs s i) = true) by apply (inv_h2 _ I).
  pose proof (inv_B _ I) as HB. pose proof (inv_A _ I) as HA.
  assert (Hni : forall p, cc_pcs s i = p -> p <> CcIdle -> cc_pcs s i <> CcIdle) by (intros; congruence).
  unfold cc_step.
  destruct (cc_pcs s i) as [| | |snap|snap|snap|inf|inf|inf|inf|inf|o] eqn:Hpc; cbn [cc_tinv cc_holds] in *.
  - exact I.
  - (* CcStart: take the lock *)
    rewrite Hlf. destruct (cc_lock s) as [h|] eqn:Hl; cbn [cc_free]; [exact I|].
    apply cc_inv_move;
      [exact I | rewrite Hpc; discriminate | rewrite Hl; right; left; auto | simpl; tauto | left; reflexivity
      | left; reflexivity | exact Ti | discriminate | exact HB | exact HA].
  - (* CcRead *)
    apply cc_inv_move;
      [exact I | rewrite Hpc; discriminate | left; reflexivity | simpl; split; auto | left; reflexivity
      | left; reflexivity | simpl; auto | discriminate | exact HB | exact HA].
  - (* CcHave *)
    destruct Ti as [-> Hn].
    destruct (rejected (fst (jobs i)) (cc_st s) (snd (jobs i))) eqn:Hrej; rewrite Hlf.
    + apply cc_inv_move;
        [exact I | rewrite Hpc; discriminate | right; right; auto | simpl; split; discriminate | left; reflexivity
        | right; exists None; auto | simpl; apply in_or_app; right; left; reflexivity | discriminate | | ].
      * rewrite cc_accs_app. cbn [cc_accs flat_map snd app]. rewrite app_nil_r. exact HB.
      * intros Hs. rewrite !map_app. cbn [map fst]. rewrite cc_serial_snoc, (HA Hs).
        unfold step. rewrite Hrej. reflexivity.
    + apply cc_inv_move;
        [exact I | rewrite Hpc; discriminate | left; reflexivity | simpl; split; auto | left; reflexivity
        | left; reflexivity | simpl; auto | discriminate | exact HB | exact HA].
  - contradiction.
  - (* CcWrite *)
    destruct Ti as [-> [Hrej Hn]]. rewrite cc_mix_same.
    destruct (step_accept c (cc_st s) (snd (jobs i))) as [s' inf] eqn:E.
    apply cc_inv_move;
      [exact I | rewrite Hpc; discriminate | left; reflexivity | simpl; split; auto | right; auto
      | right; exists (Some inf); auto | simpl; apply in_or_app; right; left; reflexivity | discriminate | | ].
    + destruct HB as [sB [HB1 HB2]].
      rewrite cc_accs_app. cbn [cc_accs flat_map snd fst app]. rewrite map_app. cbn [map fst].
      rewrite cc_serial_acc_snoc, HB1.
      rewrite <- (cc_step_accept_feq c (cc_st s) sB _ HB2), E.
      exists s'. split; [reflexivity|].
      destruct (cc_cr_split g); [apply cc_nf_keep|reflexivity].
    + intros Hs. rewrite Hs. rewrite !map_app. cbn [map fst]. rewrite cc_serial_snoc, (HA Hs).
      unfold step. rewrite Hrej, E. reflexivity.
  - (* CcRel1 *)
    apply cc_inv_move;
      [exact I | rewrite Hpc; discriminate | right; right; auto
      | destruct (cc_cr_split g); simpl; split; discriminate | left; reflexivity
      | left; reflexivity | destruct (cc_cr_split g) eqn:Hs; simpl; auto
      | destruct (cc_cr_split g); discriminate | exact HB | exact HA].
  - (* CcWant2 *)
    destruct (cc_lock s) as [h|] eqn:Hl; cbn [cc_free]; [exact I|].
    apply cc_inv_move;
      [exact I | rewrite Hpc; discriminate | rewrite Hl; right; left; auto | simpl; tauto | left; reflexivity
      | left; reflexivity | exact Ti | discriminate | exact HB | exact HA].
  - (* CcCr *)
    destruct Ti as [Hin Hs].
    apply cc_inv_move;
      [exact I | rewrite Hpc; discriminate | left; reflexivity | simpl; split; auto | right; auto
      | left; reflexivity | simpl; auto | discriminate | | intros Hs'; congruence].
    destruct HB as [sB [HB1 HB2]]. exists sB. split; [exact HB1|]. rewrite cc_nf_set_cr. exact HB2.
  - (* CcRel2 *)
    destruct Ti as [Hin Hs].
    apply cc_inv_move;
      [exact I | rewrite Hpc; discriminate | right; right; auto | simpl; split; discriminate | left; reflexivity
      | left; reflexivity | exact Hin | discriminate | exact HB | exact HA].
  - (* CcPost *)
    apply cc_inv_move;
      [exact I | rewrite Hpc; discriminate | left; reflexivity
      | simpl; split; [discriminate|intros Hl; apply Hh2 in Hl; discriminate] | left; reflexivity
      | left; reflexivity | | discriminate | exact HB | exact HA].
    simpl. exists inf. split; [exact Ti|].
    destruct (cc_ev_reread g); [eexists; reflexivity|reflexivity].
  - exact I.
Qed.

Lemma cc_inv_run sched : forall s, cc_inv s -> cc_inv (cc_run g c jobs s sched).
Proof.
  induction sched as [|i sched IH]; intros s I; [exact I|].
  unfold cc_run in *. cbn [fold_left]. apply IH. apply cc_inv_step. exact I.
Qed.

End Invariant.

(* ---------- consequences for a run in which every thread has finished ---------- *)

Definition cc_all_done (s : cc_state) (k : nat) : Prop :=
  forall i, (i < k)%nat -> exists o, cc_pcs s i = CcDone o.

Section Final.
Variable g : cc_cfg.
Variable c : cfg.
Variable jobs : nat -> Z * cres.
Variable s0 : st.
Variable k : nat.
Hypothesis Hlf : cc_lock_first g = true.
Variable s : cc_state.
Hypothesis I : cc_inv g c jobs s0 k s.
Hypothesis Hdone : cc_all_done s k.

Lemma cc_log_lt i : In i (map fst (cc_log s)) -> (i < k)%nat.
Proof.
  intros Hin. destruct (Nat.lt_ge_cases i k) as [H|H]; [exact H|].
  pose proof (inv_t _ _ _ _ _ _ I i) as T. rewrite (inv_idle _ _ _ _ _ _ I i H) in T. simpl in T. contradiction.
Qed.

Lemma cc_done_in_log i o : cc_pcs s i = CcDone o -> In i (map fst (cc_log s)).
Proof.
  intros Hp. pose proof (inv_t _ _ _ _ _ _ I i) as T. rewrite Hp in T. simpl in T.
  destruct o as [|e].
  - apply in_map_iff. exists (i, None). auto.
  - destruct T as [inf [Hin _]]. apply in_map_iff. exists (i, Some inf). auto.
Qed.

Lemma cc_order_perm : Permutation (map fst (cc_log s)) (seq 0 k).
Proof.
  apply NoDup_Permutation; [apply (inv_nodup _ _ _ _ _ _ I)|apply seq_NoDup|].
  intros i. rewrite in_seq. split.
  - intros H. apply cc_log_lt in H. lia.
  - intros [_ H]. destruct (Hdone i H) as [o Ho]. eapply cc_done_in_log; eauto.
Qed.

(* the log entry of a finished thread *)
Lemma cc_log_entry i oi :
  In (i, oi) (cc_log s) ->
  exists o, cc_pcs s i = CcDone o /\
    match oi with
    | None => o = CcRejected
    | Some inf => exists e, o = CcAccepted e /\
        (if cc_ev_reread g then exists ty, e = cc_event c inf (snd (jobs i)) ty else e = i_event inf)
    end.
Proof.
  intros Hin.
  assert (Hi : (i < k)%nat) by (apply cc_log_lt; apply in_map_iff; exists (i, oi); auto).
  destruct (Hdone i Hi) as [o Ho]. exists o. split; [exact Ho|].
  pose proof (inv_t _ _ _ _ _ _ I i) as T. rewrite Ho in T. simpl in T.
  pose proof (inv_nodup _ _ _ _ _ _ I) as Hnd.
  destruct o as [|e].
  - pose proof (cc_nodup_fst_fun _ _ _ _ Hnd Hin T) as ->. reflexivity.
  - destruct T as [inf [Hin2 He]].
    pose proof (cc_nodup_fst_fun _ _ _ _ Hnd Hin Hin2) as ->. exists e. auto.
Qed.

End Final.

(* infos of the accepted-only serial reference are infos of step_accept *)
Lemma cc_serial_acc_from c jobs s l i inf :
  In (i, inf) (snd (cc_serial_acc c jobs s l)) -> exists sp, inf = snd (step_accept c sp (snd (jobs i))).
Proof.
  revert s. induction l as [|j l IH]; intros s; cbn [cc_serial_acc]; [intros []|].
  destruct (step_accept c s (snd (jobs j))) as [s1 o1] eqn:E.
  specialize (IH s1). destruct (cc_serial_acc c jobs s1 l) as [sf infs]. cbn [snd] in *.
  intros [H|H]; [|auto]. inversion H; subst. exists s. rewrite E. reflexivity.
Qed.

Lemma cc_event_of_step c sp r : exists ty, i_event (snd (step_accept c sp r)) = cc_event c (snd (step_accept c sp r)) r ty.
Proof. eexists. symmetry. apply cc_event_own. Qed.

(* A. lock first, last_check_result stored in the same critical section, event from the computed type:
      every interleaving is equivalent to the serial execution in the order of the lock acquisitions *)
Theorem cc_serialisable g c jobs s0 k sched :
  cc_lock_first g = true -> cc_cr_split g = false -> cc_ev_reread g = false ->
  let s := cc_run g c jobs (cc_init s0 k) sched in
  cc_all_done s k ->
  exists order,
    order = map fst (cc_log s) /\
    Permutation order (seq 0 k) /\
    cc_st s = run c s0 (map jobs order) /\
    forall i o, cc_pcs s i = CcDone o -> In (i, o) (snd (cc_serial c jobs s0 order)).
Proof.
  intros Hlf Hsp Hrr s Hdone.
  assert (I : cc_inv g c jobs s0 k s) by (apply cc_inv_run; [exact Hlf|apply cc_inv_init]).
  exists (map fst (cc_log s)). split; [reflexivity|]. split; [eapply cc_order_perm; eauto|].
  pose proof (inv_A _ _ _ _ _ _ I Hsp) as HA.
  split.
  - rewrite <- cc_serial_run, HA. reflexivity.
  - intros i o Ho. rewrite HA. cbn [snd].
    pose proof (inv_t _ _ _ _ _ _ I i) as T. rewrite Ho in T. simpl in T. rewrite Hrr in T.
    destruct o as [|e].
    + apply in_map_iff. exists (i, None). auto.
    + destruct T as [inf [Hin ->]]. apply in_map_iff. exists (i, Some inf). auto.
Qed.

(* B. lock first, whatever happens to last_check_result and to the event test: the state fields are those of the
      ACCEPTED calls applied one after the other in the order of their critical sections, and every accepted call
      raises the event of its step in that order - computed with the state type as it is when the event is raised *)
Theorem cc_fields_serialisable g c jobs s0 k sched :
  cc_lock_first g = true ->
  let s := cc_run g c jobs (cc_init s0 k) sched in
  cc_all_done s k ->
  exists order sB,
    order = map fst (cc_accs (cc_log s)) /\
    NoDup order /\
    (forall i, In i order <-> (i < k)%nat /\ exists e, cc_pcs s i = CcDone (CcAccepted e)) /\
    fst (cc_serial_acc c jobs s0 order) = sB /\ cc_nf (cc_st s) = cc_nf sB /\
    forall i e, cc_pcs s i = CcDone (CcAccepted e) ->
      exists inf, In (i, inf) (snd (cc_serial_acc c jobs s0 order)) /\
                  (cc_ev_reread g = false -> e = i_event inf) /\
                  exists ty, e = cc_event c inf (snd (jobs i)) ty.
Proof.
  intros Hlf s Hdone.
  assert (I : cc_inv g c jobs s0 k s) by (apply cc_inv_run; [exact Hlf|apply cc_inv_init]).
  destruct (inv_B _ _ _ _ _ _ I) as [sB [HB1 HB2]].
  exists (map fst (cc_accs (cc_log s))), sB.
  split; [reflexivity|]. split; [apply cc_accs_nodup, (inv_nodup _ _ _ _ _ _ I)|].
  split; [|split; [rewrite HB1; reflexivity|split; [exact HB2|]]].
  - intros i. split.
    + intros Hin. apply in_map_iff in Hin. destruct Hin as [[j inf] [Hj Hin]]. simpl in Hj; subst j.
      apply cc_accs_in in Hin.
      split; [eapply cc_log_lt; eauto; apply in_map_iff; exists (i, Some inf); auto|].
      destruct (cc_log_entry _ _ _ _ _ _ I Hdone _ _ Hin) as [o [Ho [e [-> _]]]]. eauto.
    + intros [Hi [e He]]. pose proof (inv_t _ _ _ _ _ _ I i) as T. rewrite He in T. simpl in T.
      destruct T as [inf [Hin _]]. apply in_map_iff. exists (i, inf). split; [reflexivity|apply cc_accs_in; exact Hin].
  - intros i e He. rewrite HB1. cbn [snd].
    pose proof (inv_t _ _ _ _ _ _ I i) as T. rewrite He in T. simpl in T.
    destruct T as [inf [Hin Hev]]. exists inf. split; [apply cc_accs_in; exact Hin|].
    assert (Hfrom : exists sp, inf = snd (step_accept c sp (snd (jobs i)))).
    { apply (cc_serial_acc_from c jobs s0 (map fst (cc_accs (cc_log s)))). rewrite HB1. apply cc_accs_in. exact Hin. }
    destruct Hfrom as [sp ->].
    destruct (cc_ev_reread g).
    + split; [discriminate|exact Hev].
    + split; [auto|]. rewrite Hev. apply cc_event_of_step.
Qed.

(* ---------- the tree as it is (second critical section for last_check_result): results that are not
   outdated with respect to each other nor to the stored one ---------- *)

Section SameStamp.
Variable g : cc_cfg.
Variable c : cfg.
Variable jobs : nat -> Z * cres.
Variable s0 : st.
Variable k : nat.
Variable t : Z.
Hypothesis Hlf : cc_lock_first g = true.
Hypothesis Hstamp : forall i, r_start (snd (jobs i)) = t.
Hypothesis Hs0 : s_has_cr s0 = true -> s_cr_start s0 <= t.

Definition cc_crp (x : st) : bool * Z := (s_has_cr x, s_cr_start x).
Definition cc_cr_ok (x : st) : Prop := cc_crp x = cc_crp s0 \/ cc_crp x = (true, t).

Definition cc_past (p : cc_pc) : bool :=
  match p with
  | CcRel2 _ | CcPost _ | CcDone (CcAccepted _) => true
  | CcRel1 _ => negb (cc_cr_split g)
  | _ => false
  end.

Record cc_inv2 (s : cc_state) : Prop := {
  inv2_cr : cc_cr_ok (cc_st s);
  inv2_snap : forall i, match cc_pcs s i with CcHave snap => cc_cr_ok snap | _ => True end;
  inv2_past : forall i, cc_past (cc_pcs s i) = true -> cc_crp (cc_st s) = (true, t);
  inv2_norej : forall i, cc_pcs s i <> CcDone CcRejected
}.

Lemma cc_no_stale now x r : cc_cr_ok x -> r_start r = t -> rejected now x r = false.
Proof.
  unfold cc_cr_ok, cc_crp, rejected. intros [H|H] Hr; inversion H as [[H1 H2]]; rewrite Hr.
  - destruct (s_has_cr s0) eqn:E; rewrite H1; [|reflexivity].
    rewrite H2. specialize (Hs0 eq_refl). destruct (Z.ltb_spec t (s_cr_start s0)); [lia|].
    rewrite andb_false_r. reflexivity.
  - rewrite H1, H2, Z.ltb_irrefl, andb_false_r. reflexivity.
Qed.

Lemma cc_inv2_move s i p' st' l' lg' :
  cc_inv2 s ->
  cc_cr_ok st' ->
  (cc_crp (cc_st s) = (true, t) -> cc_crp st' = (true, t)) ->
  match p' with CcHave snap => cc_cr_ok snap | _ => True end ->
  (cc_past p' = true -> cc_crp st' = (true, t)) ->
  p' <> CcDone CcRejected ->
  cc_inv2 {| cc_st := st'; cc_lock := l'; cc_pcs := cc_upd (cc_pcs s) i p'; cc_log := lg' |}.
Proof.
  intros J H1 H2 H3 H4 H5. constructor; simpl.
  - exact H1.
  - intros j. unfold cc_upd. destruct (Nat.eqb_spec j i); [exact H3|apply (inv2_snap _ J)].
  - intros j. unfold cc_upd. destruct (Nat.eqb_spec j i); [exact H4|].
    intros Hp. apply H2. apply (inv2_past _ J j Hp).
  - intros j. unfold cc_upd. destruct (Nat.eqb_spec j i); [exact H5|apply (inv2_norej _ J)].
Qed.

Lemma cc_inv2_init : cc_inv2 (cc_init s0 k).
Proof.
  constructor; simpl.
  - left; reflexivity.
  - intros i. destruct (Nat.ltb i k); exact Logic.I.
  - intros i. destruct (Nat.ltb i k); discriminate.
  - intros i. destruct (Nat.ltb i k); discriminate.
Qed.

Lemma cc_inv2_step s i : cc_inv2 s -> cc_inv2 (cc_step g c jobs s i).
Proof.
  intros J. pose proof (inv2_snap _ J i) as Si. pose proof (inv2_past _ J i) as Pi.
  pose proof (inv2_cr _ J) as Hc.
  unfold cc_step.
  destruct (cc_pcs s i) as [| | |snap|snap|snap|inf|inf|inf|inf|inf|o] eqn:Hpc; cbn [cc_past] in *.
  - exact J.
  - rewrite Hlf. destruct (cc_free (cc_lock s)); [|exact J].
    apply cc_inv2_move; auto; try discriminate.
  - apply cc_inv2_move; auto; try discriminate.
  - rewrite (cc_no_stale _ _ _ Si (Hstamp i)), Hlf.
    apply cc_inv2_move; auto; try discriminate.
  - destruct (cc_free (cc_lock s)); [|exact J].
    apply cc_inv2_move; auto; try discriminate.
  - destruct (step_accept c (cc_mix snap (cc_st s)) (snd (jobs i))) as [s' inf] eqn:E.
    pose proof (cc_step_accept_cr c (cc_mix snap (cc_st s)) (snd (jobs i))) as [C1 C2].
    rewrite E in C1, C2. cbn [fst] in C1, C2. rewrite (Hstamp i) in C2.
    destruct (cc_cr_split g) eqn:Hs.
    + apply cc_inv2_move; auto; try discriminate.
      cbn [cc_past]. rewrite Hs. discriminate.
    + assert (Hx : cc_crp s' = (true, t)) by (unfold cc_crp; congruence).
      apply cc_inv2_move; auto; try discriminate.
      right; exact Hx.
  - destruct (cc_cr_split g) eqn:Hs.
    + apply cc_inv2_move; auto; try discriminate.
    + apply cc_inv2_move; auto; try discriminate.
  - destruct (cc_free (cc_lock s)); [|exact J].
    apply cc_inv2_move; auto; try discriminate.
  - assert (Hx : cc_crp (cc_set_cr (cc_st s) (snd (jobs i))) = (true, t)).
    { unfold cc_crp, cc_set_cr; simpl. rewrite (Hstamp i). reflexivity. }
    apply cc_inv2_move; auto; try discriminate.
    right; exact Hx.
  - apply cc_inv2_move; auto; try discriminate.
  - apply cc_inv2_move; auto; try discriminate.
  - exact J.
Qed.

Lemma cc_inv2_run sched : forall s, cc_inv2 s -> cc_inv2 (cc_run g c jobs s sched).
Proof.
  induction sched as [|i sched IH]; intros s J; [exact J|].
  unfold cc_run in *. cbn [fold_left]. apply IH. apply cc_inv2_step. exact J.
Qed.

(* in a serial run of such results none is rejected *)
Lemma cc_serial_no_stale l : forall x,
  (s_has_cr x = true -> s_cr_start x <= t) ->
  cc_serial c jobs x l =
  (fst (cc_serial_acc c jobs x l),
   map (fun e => (fst e, CcAccepted (i_event (snd e)))) (snd (cc_serial_acc c jobs x l))).
Proof.
  induction l as [|j l IH]; intros x Hx; cbn [cc_serial cc_serial_acc]; [reflexivity|].
  unfold step.
  assert (Hr : rejected (fst (jobs j)) x (snd (jobs j)) = false).
  { unfold rejected. rewrite (Hstamp j). destruct (s_has_cr x); [|reflexivity].
    specialize (Hx eq_refl). destruct (Z.ltb_spec t (s_cr_start x)); [lia|]. rewrite andb_false_r. reflexivity. }
  rewrite Hr.
  pose proof (cc_step_accept_cr c x (snd (jobs j))) as [C1 C2].
  destruct (step_accept c x (snd (jobs j))) as [s1 inf]. cbn [fst] in C1, C2.
  rewrite IH by (intros _; rewrite C2, (Hstamp j); lia).
  destruct (cc_serial_acc c jobs s1 l) as [sf infs]. reflexivity.
Qed.

Lemma cc_serial_acc_last_cr l : forall x, l <> [] -> cc_crp (fst (cc_serial_acc c jobs x l)) = (true, t).
Proof.
  induction l as [|j l IH] using rev_ind; intros x Hne; [congruence|].
  rewrite cc_serial_acc_snoc. destruct (cc_serial_acc c jobs x l) as [sf infs].
  pose proof (cc_step_accept_cr c sf (snd (jobs j))) as [C1 C2].
  destruct (step_accept c sf (snd (jobs j))) as [s1 inf]. cbn [fst] in *.
  unfold cc_crp. rewrite C1, C2, (Hstamp j). reflexivity.
Qed.

Lemma cc_accs_all_some lg : (forall e, In e lg -> snd e <> None) -> map fst (cc_accs lg) = map fst lg.
Proof.
  induction lg as [|[j [inf|]] lg IH]; intros H; simpl; [reflexivity| |].
  - f_equal. apply IH. intros e He. apply H. right; exact He.
  - exfalso. apply (H (j, None)); [left; reflexivity|reflexivity].
Qed.

(* B'. the tree as it is: lock first, second critical section, second load of the state type.  For results with one
       execution start that is not older than the stored one (every order of them is a non-decreasing history), every
       interleaving ends in the state of CkState.run over the order of the lock acquisitions; all calls are accepted;
       the event of a call is the event of its step - computed with the state type at the moment it is raised when
       the type is loaded again *)
Theorem cc_serialisable_same_stamp sched :
  (0 < k)%nat ->
  let s := cc_run g c jobs (cc_init s0 k) sched in
  cc_all_done s k ->
  exists order,
    order = map fst (cc_log s) /\
    Permutation order (seq 0 k) /\
    cc_st s = run c s0 (map jobs order) /\
    (forall i, (i < k)%nat -> exists e inf,
        cc_pcs s i = CcDone (CcAccepted e) /\ In (i, inf) (snd (cc_serial_acc c jobs s0 order)) /\
        In (i, CcAccepted (i_event inf)) (snd (cc_serial c jobs s0 order)) /\
        (cc_ev_reread g = false -> e = i_event inf) /\
        exists ty, e = cc_event c inf (snd (jobs i)) ty).
Proof.
  intros Hk s Hdone.
  assert (I : cc_inv g c jobs s0 k s) by (apply cc_inv_run; [exact Hlf|apply cc_inv_init]).
  assert (J : cc_inv2 s) by (apply cc_inv2_run; apply cc_inv2_init).
  assert (Hacc : forall i, (i < k)%nat -> exists e, cc_pcs s i = CcDone (CcAccepted e)).
  { intros i Hi. destruct (Hdone i Hi) as [[|e] Ho]; [|eauto]. exfalso. eapply (inv2_norej _ J); eauto. }
  assert (Hsome : forall e, In e (cc_log s) -> snd e <> None).
  { intros [i [inf|]] Hin; simpl; [discriminate|]. exfalso.
    destruct (cc_log_entry _ _ _ _ _ _ I Hdone _ _ Hin) as [o [Ho ->]]. eapply (inv2_norej _ J); eauto. }
  pose proof (cc_accs_all_some _ Hsome) as Hids.
  destruct (inv_B _ _ _ _ _ _ I) as [sB [HB1 HB2]]. rewrite Hids in HB1.
  pose proof (cc_order_perm _ _ _ _ _ _ I Hdone) as Hperm.
  exists (map fst (cc_log s)). split; [reflexivity|]. split; [exact Hperm|].
  assert (Hne : map fst (cc_log s) <> []).
  { intros E. rewrite E in Hperm. apply Permutation_length in Hperm. rewrite seq_length in Hperm. simpl in Hperm. lia. }
  split.
  - rewrite <- cc_serial_run, (cc_serial_no_stale _ _ Hs0), HB1. cbn [fst].
    apply cc_nf_eq; [exact HB2| |].
    + destruct (Hacc 0%nat Hk) as [e He].
      pose proof (inv2_past _ J 0%nat) as P. rewrite He in P. specialize (P eq_refl).
      pose proof (cc_serial_acc_last_cr _ s0 Hne) as Q. rewrite HB1 in Q. cbn [fst] in Q.
      unfold cc_crp in *. congruence.
    + destruct (Hacc 0%nat Hk) as [e He].
      pose proof (inv2_past _ J 0%nat) as P. rewrite He in P. specialize (P eq_refl).
      pose proof (cc_serial_acc_last_cr _ s0 Hne) as Q. rewrite HB1 in Q. cbn [fst] in Q.
      unfold cc_crp in *. congruence.
  - intros i Hi. destruct (Hacc i Hi) as [e He].
    pose proof (inv_t _ _ _ _ _ _ I i) as T. rewrite He in T. simpl in T.
    destruct T as [inf [Hin Hev]]. exists e, inf. split; [exact He|].
    rewrite (cc_serial_no_stale _ _ Hs0), HB1. cbn [snd].
    split; [apply cc_accs_in; exact Hin|].
    split; [apply in_map_iff; exists (i, inf); split; [reflexivity|apply cc_accs_in; exact Hin]|].
    assert (Hfrom : exists sp, inf = snd (step_accept c sp (snd (jobs i)))).
    { apply (cc_serial_acc_from c jobs s0 (map fst (cc_log s))). rewrite HB1. apply cc_accs_in. exact Hin. }
    destruct Hfrom as [sp ->].
    destruct (cc_ev_reread g).
    + split; [discriminate|exact Hev].
    + split; [auto|]. rewrite Hev. apply cc_event_of_step.
Qed.

End SameStamp.

(* ---------- the executable judgements accept what the model can do ---------- *)

Lemma cc_ins_in x l1 l2 : In (l1 ++ x :: l2) (cc_ins x (l1 ++ l2)).
Proof.
  induction l1 as [|y l1 IH]; simpl.
  - destruct l2; simpl; auto.
  - right. apply in_map. exact IH.
Qed.

Lemma cc_perms_complete l : forall l', Permutation l l' -> In l' (cc_perms l).
Proof.
  induction l as [|x t IH]; intros l' H; simpl.
  - apply Permutation_nil in H. subst. left; reflexivity.
  - assert (Hx : In x l') by (eapply Permutation_in; [exact H|left; reflexivity]).
    apply in_split in Hx. destruct Hx as [l1 [l2 ->]].
    apply Permutation_cons_app_inv in H.
    apply in_flat_map. exists (l1 ++ l2). split; [apply IH; exact H|apply cc_ins_in].
Qed.

Definition cc_outs_of (s : cc_state) (k : nat) : list cc_out :=
  map (fun i => match cc_pcs s i with CcDone o => o | _ => cc_out_default end) (seq 0 k).

Lemma cc_nth_map_seq {A} (f : nat -> A) k i d : (i < k)%nat -> nth i (map f (seq 0 k)) d = f i.
Proof.
  intros Hi. rewrite (nth_indep _ d (f 0%nat)) by (rewrite map_length, seq_length; exact Hi).
  rewrite map_nth, seq_nth by exact Hi. reflexivity.
Qed.

Lemma cc_outs_nth s k i o : (i < k)%nat -> cc_pcs s i = CcDone o -> nth i (cc_outs_of s k) cc_out_default = o.
Proof.
  intros Hi Ho. unfold cc_outs_of. rewrite cc_nth_map_seq by exact Hi. rewrite Ho. reflexivity.
Qed.

Lemma cc_event_eqb_refl e : cc_event_eqb e e = true.
Proof. destruct e; reflexivity. Qed.
Lemma cc_out_eqb_refl o : cc_out_eqb o o = true.
Proof. destruct o; simpl; [reflexivity|apply cc_event_eqb_refl]. Qed.
Lemma cc_proj_eqb_refl p : cc_proj_eqb p p = true.
Proof. destruct p as [[[a b] d] e]. simpl. rewrite !Z.eqb_refl. reflexivity. Qed.
Lemma cc_proj_nf c x : cc_proj c x = cc_proj c (cc_nf x).
Proof. reflexivity. Qed.

(* the strict judgement never fires on an interleaving of the one-critical-section shape *)
Theorem cc_strict_accepts g c js s0 sched :
  cc_lock_first g = true -> cc_cr_split g = false -> cc_ev_reread g = false ->
  let k := length js in
  let s := cc_run g c (cc_jobs_of js) (cc_init s0 k) sched in
  cc_all_done s k ->
  cc_strict_ok c s0 js (cc_proj c (cc_st s)) (cc_outs_of s k) = true.
Proof.
  intros Hlf Hsp Hrr k s Hdone.
  destruct (cc_serialisable g c (cc_jobs_of js) s0 k sched Hlf Hsp Hrr Hdone) as [order [_ [Hperm [Hst Houts]]]].
  fold s in Hst, Houts.
  unfold cc_strict_ok. apply existsb_exists. exists order.
  split; [apply cc_perms_complete; symmetry; exact Hperm|].
  pose proof (cc_serial_run c (cc_jobs_of js) s0 order) as Hr.
  pose proof (cc_serial_ids c (cc_jobs_of js) s0 order) as Hids.
  destruct (cc_serial c (cc_jobs_of js) s0 order) as [sf ser]. cbn [fst snd] in *.
  apply andb_true_intro. split.
  - rewrite Hr, <- Hst. apply cc_proj_eqb_refl.
  - unfold cc_outs_match. apply forallb_forall. intros [i o] Hin. cbn [fst snd].
    assert (Hio : In i order) by (rewrite <- Hids; apply in_map_iff; exists (i, o); auto).
    assert (Hi : (i < k)%nat) by (apply (Permutation_in _ Hperm) in Hio; apply in_seq in Hio; lia).
    destruct (Hdone i Hi) as [o' Ho'].
    assert (Hnd : NoDup (map fst ser)).
    { rewrite Hids. apply (Permutation_NoDup (l := seq 0 k)); [symmetry; exact Hperm|apply seq_NoDup]. }
    rewrite (cc_nodup_fst_fun _ _ _ _ Hnd Hin (Houts i o' Ho')).
    rewrite (cc_outs_nth s k i o' Hi Ho'). apply cc_out_eqb_refl.
Qed.

(* the relaxed judgement never fires on an interleaving of ANY shape that takes the lock first
   (in particular not on the tree as it is) *)
Theorem cc_relaxed_accepts g c js s0 sched :
  cc_lock_first g = true ->
  let k := length js in
  let s := cc_run g c (cc_jobs_of js) (cc_init s0 k) sched in
  cc_all_done s k ->
  cc_relaxed_ok c s0 js (cc_proj c (cc_st s)) (cc_outs_of s k) = true.
Proof.
  intros Hlf k s Hdone.
  destruct (cc_fields_serialisable g c (cc_jobs_of js) s0 k sched Hlf Hdone)
    as [order [sB [_ [Hnd [Hiff [HsB [Hnf Hev]]]]]]].
  fold s in Hiff, Hnf, Hev.
  unfold cc_relaxed_ok. fold k. apply existsb_exists. exists order.
  split.
  - apply cc_perms_complete. apply NoDup_Permutation; [apply NoDup_filter, seq_NoDup|exact Hnd|].
    intros i. rewrite filter_In, in_seq, Hiff. split.
    + intros [[_ Hi] Ha]. split; [exact Hi|]. destruct (Hdone i Hi) as [o Ho].
      rewrite (cc_outs_nth s k i o Hi Ho) in Ha. destruct o; [discriminate|eauto].
    + intros [Hi [e He]]. split; [lia|]. rewrite (cc_outs_nth s k i _ Hi He). reflexivity.
  - pose proof (cc_serial_acc_ids c (cc_jobs_of js) s0 order) as Hids.
    destruct (cc_serial_acc c (cc_jobs_of js) s0 order) as [sf infs]. cbn [fst snd] in *. subst sf.
    apply andb_true_intro. split.
    + rewrite (cc_proj_nf c sB), <- Hnf, <- cc_proj_nf. apply cc_proj_eqb_refl.
    + apply forallb_forall. intros [i inf] Hin. cbn [fst snd].
      assert (Hio : In i order) by (rewrite <- Hids; apply in_map_iff; exists (i, inf); auto).
      apply Hiff in Hio. destruct Hio as [Hi [e He]].
      rewrite (cc_outs_nth s k i _ Hi He).
      destruct (Hev i e He) as [inf' [Hin' [_ [ty Hty]]]].
      assert (Hnd' : NoDup (map fst infs)) by (rewrite Hids; exact Hnd).
      rewrite (cc_nodup_fst_fun _ _ _ _ Hnd' Hin Hin'). subst e. simpl.
      destruct ty; rewrite cc_event_eqb_refl; [reflexivity|apply orb_true_r].
Qed.

(* ---------- witnesses ---------- *)

Definition cc_w_cfg : cfg := {| c_kind := KService; c_max := 3; c_volatile := false |}.
Definition cc_w_res (x : sstate) (t : Z) : cres := {| r_state := x; r_start := t; r_end := t |}.
(* hard OK, last result stamped 10 *)
Definition cc_w_s0 : st := fst (step_accept cc_w_cfg pending (cc_w_res SOK 10)).

(* 1. late lock (the seeded shape): two CRITICAL results, both snapshot hard OK before either writes *)
Definition cc_g_late : cc_cfg := {| cc_lock_first := false; cc_cr_split := true; cc_ev_reread := true |}.
Definition cc_w_jobs1 : list (Z * cres) := [(20, cc_w_res SCritical 20); (20, cc_w_res SCritical 20)].
Definition cc_w_sched1 : list nat := ([0;0;0; 1;1;1] ++ repeat 0 7 ++ repeat 1 7)%nat.

Lemma cc_perm2 order : Permutation order [0;1]%nat -> order = [0;1]%nat \/ order = [1;0]%nat.
Proof.
  intros H. symmetry in H. apply cc_perms_complete in H. simpl in H.
  destruct H as [H|[H|[]]]; auto.
Qed.

Theorem cc_late_lock_refuted :
  let s := cc_run cc_g_late cc_w_cfg (cc_jobs_of cc_w_jobs1) (cc_init cc_w_s0 2) cc_w_sched1 in
  cc_all_done s 2 /\
  cc_pcs s 0%nat = CcDone (CcAccepted EvSoft) /\ cc_pcs s 1%nat = CcDone (CcAccepted EvSoft) /\
  s_type (cc_st s) = Soft /\ s_attempt (cc_st s) = 1 /\
  (forall order, Permutation order [0;1]%nat ->
     s_attempt (run cc_w_cfg cc_w_s0 (map (cc_jobs_of cc_w_jobs1) order)) = 2) /\
  cc_strict_ok cc_w_cfg cc_w_s0 cc_w_jobs1 (cc_proj cc_w_cfg (cc_st s)) (cc_outs_of s 2) = false /\
  cc_relaxed_ok cc_w_cfg cc_w_s0 cc_w_jobs1 (cc_proj cc_w_cfg (cc_st s)) (cc_outs_of s 2) = false.
Proof.
  cbv zeta. split.
  - intros i Hi. destruct i as [|[|i]]; [eexists; vm_compute; reflexivity|eexists; vm_compute; reflexivity|lia].
  - repeat split; try (vm_compute; reflexivity).
    intros order H. destruct (cc_perm2 _ H) as [->| ->]; vm_compute; reflexivity.
Qed.

(* 2. second critical section for last_check_result (the tree as it is): thread 0 (CRITICAL stamped 30) has written
      the state fields and released the lock; before it stores its result, thread 1 (WARNING stamped 20, newer than
      the stored 10 but older than 30) runs completely; then thread 0 stores its result.  The object ends in WARNING,
      attempt 2, with the CRITICAL result stored; no serial order ends in WARNING *)
Definition cc_g_tree : cc_cfg := {| cc_lock_first := true; cc_cr_split := true; cc_ev_reread := true |}.
Definition cc_g_split_only : cc_cfg := {| cc_lock_first := true; cc_cr_split := true; cc_ev_reread := false |}.
Definition cc_w_jobs2 : list (Z * cres) := [(30, cc_w_res SCritical 30); (30, cc_w_res SWarning 20)].
Definition cc_w_sched2 : list nat := (repeat 0 5 ++ repeat 1 10 ++ repeat 0 5)%nat.

Theorem cc_cr_gap_refuted :
  let s := cc_run cc_g_split_only cc_w_cfg (cc_jobs_of cc_w_jobs2) (cc_init cc_w_s0 2) cc_w_sched2 in
  cc_all_done s 2 /\
  cc_pcs s 0%nat = CcDone (CcAccepted EvSoft) /\ cc_pcs s 1%nat = CcDone (CcAccepted EvSoft) /\
  s_raw (cc_st s) = SWarning /\ s_attempt (cc_st s) = 2 /\ s_cr_start (cc_st s) = 30 /\
  (forall order, Permutation order [0;1]%nat ->
     s_raw (run cc_w_cfg cc_w_s0 (map (cc_jobs_of cc_w_jobs2) order)) = SCritical) /\
  cc_strict_ok cc_w_cfg cc_w_s0 cc_w_jobs2 (cc_proj cc_w_cfg (cc_st s)) (cc_outs_of s 2) = false /\
  cc_relaxed_ok cc_w_cfg cc_w_s0 cc_w_jobs2 (cc_proj cc_w_cfg (cc_st s)) (cc_outs_of s 2) = true.
Proof.
  cbv zeta. split.
  - intros i Hi. destruct i as [|[|i]]; [eexists; vm_compute; reflexivity|eexists; vm_compute; reflexivity|lia].
  - repeat split; try (vm_compute; reflexivity).
    intros order H. destruct (cc_perm2 _ H) as [->| ->]; vm_compute; reflexivity.
Qed.

(* 3. second load of the state type for the soft-event test (the tree as it is): thread 0 (OK on a hard-OK object: no
      event) has left its critical section; thread 1 (CRITICAL) runs completely and leaves the object SOFT; thread 0 then
      raises a soft state-change event for an OK -> OK result.  In no serial order does thread 0 raise a soft event *)
Definition cc_g_reread_only : cc_cfg := {| cc_lock_first := true; cc_cr_split := false; cc_ev_reread := true |}.
Definition cc_w_jobs3 : list (Z * cres) := [(20, cc_w_res SOK 20); (20, cc_w_res SCritical 20)].
Definition cc_w_sched3 : list nat := (repeat 0 5 ++ repeat 1 7 ++ repeat 0 2)%nat.

Theorem cc_event_reread_refuted :
  let s := cc_run cc_g_reread_only cc_w_cfg (cc_jobs_of cc_w_jobs3) (cc_init cc_w_s0 2) cc_w_sched3 in
  cc_all_done s 2 /\
  cc_pcs s 0%nat = CcDone (CcAccepted EvSoft) /\ cc_pcs s 1%nat = CcDone (CcAccepted EvSoft) /\
  (forall order, Permutation order [0;1]%nat ->
     ~ In (0%nat, CcAccepted EvSoft) (snd (cc_serial cc_w_cfg (cc_jobs_of cc_w_jobs3) cc_w_s0 order))) /\
  cc_strict_ok cc_w_cfg cc_w_s0 cc_w_jobs3 (cc_proj cc_w_cfg (cc_st s)) (cc_outs_of s 2) = false /\
  cc_relaxed_ok cc_w_cfg cc_w_s0 cc_w_jobs3 (cc_proj cc_w_cfg (cc_st s)) (cc_outs_of s 2) = true.
Proof.
  cbv zeta. split.
  - intros i Hi. destruct i as [|[|i]]; [eexists; vm_compute; reflexivity|eexists; vm_compute; reflexivity|lia].
  - repeat split; try (vm_compute; reflexivity).
    intros order H. destruct (cc_perm2 _ H) as [->| ->]; vm_compute; intros [E|[E|[]]]; discriminate.
Qed.

(* the same three schedules are harmless once the lock is taken first / the result is stored in the same critical
   section / the computed type is used: nothing to prove separately, cc_serialisable covers every schedule. *)
