(* C05 - proofs about the clean-up timer layer (Ck/CkDtTimer.v). *)
From Icv Require Import Base.Tac Ck.CkState Ck.CkFull Ck.CkDtDefs Ck.CkDtProofs Ck.CkDtChain Ck.CkDtObs Ck.CkDtTimer.
Local Open Scope Z_scope.
Arguments chain_fuel : simpl never.

(* ------------------------------------------------------------------ the timer table *)

(* every downtime has its timer entry; an armed timer is due at the downtime's expiry; an unpaused downtime's timer is armed *)
Definition TmOk (ds : list dt) (tms : list c5_tm) : Prop :=
  forall d, In d ds ->
    exists t, c5_tm_find (d_id d) tms = Some t /\
              (tm_armed t = true -> tm_due t = c5_expiry d) /\ (tm_paused t = false -> tm_armed t = true).
(* no entries of downtimes that no longer exist *)
Definition TmSub (ds : list dt) (tms : list c5_tm) : Prop :=
  forall t, In t tms -> c5_has (tm_id t) ds = true.

Lemma TmOk_chk s : TmOk (c5_post (ct_base s)) (ct_tm_post s) -> c5_chk_tm s = true.
Proof.
  intros H. unfold c5_chk_tm. apply forallb_forall. intros d Hd. destruct (H d Hd) as (t & -> & H1 & H2).
  destruct (tm_armed t) eqn:Ea; cbn.
  - rewrite (H1 eq_refl), Z.eqb_refl. cbn. apply orb_true_r.
  - destruct (tm_paused t) eqn:Ep; [reflexivity|]. specialize (H2 eq_refl). discriminate.
Qed.

Lemma tm_find_map g j tms :
  (forall t, tm_id (g t) = tm_id t) -> c5_tm_find j (map g tms) = option_map g (c5_tm_find j tms).
Proof.
  intros Hg. unfold c5_tm_find. induction tms as [|t tms IH]; cbn; [reflexivity|].
  rewrite Hg. destruct (tm_id t =? j); [reflexivity|exact IH].
Qed.

Lemma tm_find_filter (P : Z -> bool) j tms :
  P j = true -> c5_tm_find j (filter (fun t => P (tm_id t)) tms) = c5_tm_find j tms.
Proof.
  intros HP. unfold c5_tm_find. induction tms as [|t tms IH]; cbn; [reflexivity|].
  destruct (tm_id t =? j) eqn:E.
  - replace (P (tm_id t)) with true by (replace (tm_id t) with j by lia; symmetry; exact HP). cbn. rewrite E. reflexivity.
  - destruct (P (tm_id t)); cbn; [rewrite E|]; exact IH.
Qed.

Lemma tm_find_app j tms t0 :
  c5_tm_find j (tms ++ [t0]) =
  match c5_tm_find j tms with Some t => Some t | None => if tm_id t0 =? j then Some t0 else None end.
Proof.
  unfold c5_tm_find. induction tms as [|t tms IH]; cbn; [reflexivity|].
  destruct (tm_id t =? j); [reflexivity|exact IH].
Qed.

Lemma tm_find_some j tms t : c5_tm_find j tms = Some t -> In t tms /\ tm_id t = j.
Proof. unfold c5_tm_find. intros H. apply find_some in H. destruct H. split; [assumption|lia]. Qed.

(* one SetupCleanupTimer on the entry of downtime j *)
Definition setup_entry (ds : list dt) (j : Z) (t : c5_tm) : c5_tm :=
  match find_dt j ds with
  | Some d => {| tm_id := tm_id t; tm_armed := true; tm_paused := tm_paused t; tm_due := c5_expiry d |}
  | None => t
  end.

Lemma setup_entry_idem ds j t : setup_entry ds j (setup_entry ds j t) = setup_entry ds j t.
Proof. unfold setup_entry. destruct (find_dt j ds); reflexivity. Qed.

Lemma tm_find_setup ds i j tms :
  c5_tm_find j (c5_tm_setup ds i tms) =
  option_map (fun t => if j =? i then setup_entry ds j t else t) (c5_tm_find j tms).
Proof.
  unfold c5_tm_setup, c5_tm_find. induction tms as [|t tms IH]; cbn; [reflexivity|].
  destruct (tm_id t =? i) eqn:Ei.
  - assert (tm_id t = i) as Hi by lia.
    assert (tm_id (match find_dt i ds with
                   | Some d => {| tm_id := tm_id t; tm_armed := true; tm_paused := tm_paused t; tm_due := c5_expiry d |}
                   | None => t end) = tm_id t) as Hid by (destruct (find_dt i ds); reflexivity).
    rewrite Hid. destruct (tm_id t =? j) eqn:Ej; [|exact IH].
    assert (j = i) as -> by lia. cbn. rewrite Z.eqb_refl. unfold setup_entry. reflexivity.
  - destruct (tm_id t =? j) eqn:Ej; [|exact IH]. cbn.
    replace (j =? i) with false by lia. reflexivity.
Qed.

Lemma tm_find_setups ds l : forall tms j,
  c5_tm_find j (fold_left (fun acc i => c5_tm_setup ds i acc) l tms) =
  option_map (fun t => if c5_mem j l then setup_entry ds j t else t) (c5_tm_find j tms).
Proof.
  induction l as [|i l IH]; intros tms j; cbn [fold_left].
  - unfold c5_mem. cbn. destruct (c5_tm_find j tms); reflexivity.
  - rewrite IH, tm_find_setup. destruct (c5_tm_find j tms) as [t|]; [|reflexivity]. cbn [option_map].
    unfold c5_mem. cbn [existsb]. fold (c5_mem j l). f_equal.
    destruct (j =? i) eqn:E; cbn [orb].
    + destruct (c5_mem j l); [apply setup_entry_idem|reflexivity].
    + reflexivity.
Qed.

(* ConfigObject::SetAuthority on one entry *)
Definition auth_entry (ds : list dt) (id : Z) (auth : bool) (t : c5_tm) : c5_tm :=
  if tm_id t =? id then
    if auth then
      if tm_paused t then
        match find_dt id ds with
        | Some d => {| tm_id := tm_id t; tm_armed := true; tm_paused := false; tm_due := c5_expiry d |}
        | None => {| tm_id := tm_id t; tm_armed := tm_armed t; tm_paused := false; tm_due := tm_due t |}
        end
      else t
    else if tm_paused t then t
         else {| tm_id := tm_id t; tm_armed := false; tm_paused := true; tm_due := tm_due t |}
  else t.

Lemma auth_entry_id ds id auth t : tm_id (auth_entry ds id auth t) = tm_id t.
Proof.
  unfold auth_entry. destruct (tm_id t =? id); [|reflexivity].
  destruct auth; destruct (tm_paused t); try reflexivity. destruct (find_dt id ds); reflexivity.
Qed.

Lemma tm_find_authority ds id auth j tms :
  c5_tm_find j (c5_tm_authority ds id auth tms) = option_map (auth_entry ds id auth) (c5_tm_find j tms).
Proof. unfold c5_tm_authority. apply (tm_find_map (auth_entry ds id auth)). apply auth_entry_id. Qed.

Lemma has_true_In id ds : c5_has id ds = true -> In id (ids ds).
Proof.
  unfold c5_has. destruct (find_dt id ds) as [d|] eqn:F; [|discriminate]. intros _.
  destruct (find_dt_some _ _ _ F) as [H1 H2]. rewrite <- H2. unfold ids. apply in_map. exact H1.
Qed.

(* what an operation did to the downtimes, as far as the timers care *)
Definition StepRel (o : op) (outs : list out) (pre post : list dt) : Prop :=
  forall d', In d' post ->
    (exists d, In d pre /\ d_id d = d_id d' /\
               (c5_expiry d' = c5_expiry d \/ In (d_id d') (c5_trig_ids outs)))
    \/ match o with
       | OpDtAdd id _ _ _ _ _ _ _ => d_id d' = id /\ ~ In id (ids pre)
       | _ => False
       end.

Lemma tm_after_ok o outs pre post tms :
  NoDup (ids post) -> TmOk pre tms -> TmSub pre tms -> StepRel o outs pre post ->
  TmOk post (c5_tm_after o post outs tms) /\ TmSub post (c5_tm_after o post outs tms).
Proof.
  intros Hnd Hok Hsub Hrel. split.
  - intros d' Hd'. set (j := d_id d').
    assert (c5_has j post = true) as Hhas by (apply has_true_in; unfold ids; apply in_map; exact Hd').
    assert (find_dt j post = Some d') as Fd' by (apply find_dt_nodup; assumption).
    unfold c5_tm_after. rewrite (tm_find_filter (fun i => c5_has i post) j _ Hhas).
    destruct (Hrel d' Hd') as [(d & Hd & Hid & Hex)|Hnew].
    + (* existed before *)
      destruct (Hok d Hd) as (t & Ft & T1 & T2). rewrite Hid in Ft. fold j in Ft.
      assert (forall tms1 : list c5_tm, c5_tm_find j tms1 = Some t ->
                exists t2, c5_tm_find j (fold_left (fun acc i => c5_tm_setup post i acc) (c5_trig_ids outs) tms1) = Some t2 /\
                           (tm_armed t2 = true -> tm_due t2 = c5_expiry d') /\ (tm_paused t2 = false -> tm_armed t2 = true) /\
                           tm_paused t2 = tm_paused t) as Hfold.
      { intros tms1 F1. rewrite tm_find_setups, F1. cbn [option_map].
        destruct (c5_mem j (c5_trig_ids outs)) eqn:Em.
        - unfold setup_entry. rewrite Fd'. eexists. split; [reflexivity|]. cbn. repeat split; auto.
        - exists t. split; [reflexivity|]. repeat split; auto.
          intros Ha. rewrite (T1 Ha). destruct Hex as [Hex|Hex]; [symmetry; exact Hex|].
          apply mem_In in Hex. fold j in Hex. congruence. }
      destruct o; cbv iota; try (destruct (Hfold tms Ft) as (t2 & F2 & A & B & _); exists t2; split; [exact F2|split; assumption]).
      (* add: the new id is another one *)
      assert (c5_tm_find j (tms ++ [{| tm_id := id; tm_armed := false; tm_paused := true; tm_due := 0 |}]) = Some t) as F1.
      { rewrite tm_find_app, Ft. reflexivity. }
      destruct (Hfold _ F1) as (t2 & F2 & A & B & _).
      rewrite tm_find_authority, F2. cbn [option_map]. unfold auth_entry.
      destruct (tm_find_some _ _ _ F2) as [_ Hid2]. rewrite Hid2.
      destruct (j =? id) eqn:E; [|exists t2; split; [reflexivity|split; [exact A|exact B]]].
      (* j = id would mean the "new" name existed: then it is simply resumed if paused *)
      destruct (tm_paused t2) eqn:Ep; [|exists t2; split; [reflexivity|split; [exact A|intros _; exact (B eq_refl)]]].
      assert (id = j) as -> by lia. rewrite Fd'. eexists. split; [reflexivity|]. cbn. repeat split; auto.
    + (* created by this operation *)
      destruct o; try contradiction. destruct Hnew as [Hj Hfresh]. fold j in Hj. subst id.
      assert (c5_tm_find j tms = None) as Fn.
      { destruct (c5_tm_find j tms) as [t|] eqn:F; [|reflexivity]. exfalso.
        destruct (tm_find_some _ _ _ F) as [Ht Hidt]. apply Hfresh. apply has_true_In. rewrite <- Hidt. apply Hsub. exact Ht. }
      rewrite tm_find_authority, tm_find_setups, tm_find_app, Fn. cbn [tm_id]. rewrite Z.eqb_refl. cbn [option_map].
      set (e := if c5_mem j (c5_trig_ids outs) then _ else _).
      assert (tm_id e = j /\ tm_paused e = true) as [He1 He2].
      { unfold e, setup_entry. destruct (c5_mem j (c5_trig_ids outs)); [rewrite Fd'|]; split; reflexivity. }
      unfold auth_entry. rewrite He1, Z.eqb_refl, He2, Fd'. eexists. split; [reflexivity|]. cbn. repeat split; auto.
  - intros t Ht. unfold c5_tm_after in Ht. apply filter_In in Ht. tauto.
Qed.

(* ------------------------------------------------------------------ StepRel for the operations of CkFull *)
Lemma CmpEv_refl o ds : CmpEv o ds ds.
Proof. induction ds; constructor; [split; auto|assumption]. Qed.

Lemma CmpEv_in o a b d' : CmpEv o a b -> In d' b ->
  exists d, In d a /\ d_id d' = d_id d /\ (d_trigger d' = d_trigger d \/ In (d_id d) (c5_trig_ids o)).
Proof.
  induction 1 as [|x y l l' [H1 H2] _ IH]; intros Hin; [destruct Hin|]. destruct Hin as [<-|Hin].
  - exists x. split; [left; reflexivity|auto].
  - destruct (IH Hin) as (d & Hd & H). exists d. split; [right; exact Hd|exact H].
Qed.

Lemma expiry_static d d' : c5_same_static d d' = true -> d_trigger d' = d_trigger d -> c5_expiry d' = c5_expiry d.
Proof.
  unfold c5_same_static, c5_expiry. intros H Ht.
  repeat (apply andb_prop in H; destruct H as [H ?]).
  rewrite Ht. replace (d_fixed d') with (d_fixed d) by (destruct (d_fixed d), (d_fixed d'); try reflexivity; discriminate).
  replace (d_end d') with (d_end d) by lia. replace (d_duration d') with (d_duration d) by lia. reflexivity.
Qed.

Lemma step_CmpEv c now prev f o :
  DtInv now f -> c5_wf_step prev (c5_mk c now f o) = true ->
  (exists g, f_dts (fst (full_step c now f o)) = filter g (f_dts f)) \/
  CmpEv (snd (full_step c now f o)) (f_dts f ++ added_by now o) (f_dts (fst (full_step c now f o))).
Proof.
  intros [Hnd Hlsc] Hwf.
  unfold c5_wf_step in Hwf. cbn [c5_mk c5_now c5_op c5_pre] in Hwf.
  apply andb_prop in Hwf. destruct Hwf as [Hwf Hop]. apply andb_prop in Hwf. destruct Hwf as [Hwf Hsc].
  destruct o; cbn [c5_in_scope] in Hsc; try discriminate; cbn [full_step added_by]; rewrite ?app_nil_r.
  - (* result *)
    right. destruct (rejected now (f_st f) r) eqn:Hrej.
    + unfold do_result. rewrite Hrej. cbn [fst snd]. apply CmpEv_refl.
    + destruct (do_result_shape c now r f Hrej) as (Hd & _ & oa & ob & Ho & _ & _). cbn zeta in Hd, Ho. rewrite Hd, Ho.
      destruct (negb (is_ok (c_kind (fc_base c)) (r_state r))); cbn [fst snd]; [|apply CmpEv_refl].
      apply Rtol_cmp. eapply Rtol_mono; [|apply trigger_all_Rtol].
      intros i Hi. rewrite !trig_ids_app. apply in_or_app. right. apply in_or_app. left. exact Hi.
  - (* ack read *)
    right. pose proof (get_ack_facts now f) as (A1 & _). destruct (get_ack now f) as [[a f'] o']. cbn [fst snd] in *.
    rewrite A1. apply CmpEv_refl.
  - right. apply do_dt_add_CmpEv.
  - left. destruct (do_dt_remove_filter now id children r f) as (g & Hg & _). exists g. exact Hg.
  - right. apply Rtol_cmp. apply start_timer_Rtol.
  - left. destruct (do_dt_cleanup_filter now id f) as (g & Hg & _). exists g. exact Hg.
  - right. cbn. apply CmpEv_refl.
Qed.

Lemma step_rel c now prev f o :
  DtInv now f -> c5_wf_step prev (c5_mk c now f o) = true ->
  StepRel o (snd (full_step c now f o)) (f_dts f) (f_dts (fst (full_step c now f o))).
Proof.
  intros Hinv Hwf d' Hd'.
  destruct (step_Mono c now prev f o Hinv Hwf) as (HM & _ & Hnd0).
  destruct (step_CmpEv c now prev f o Hinv Hwf) as [(g & Hg)|HC].
  - left. rewrite Hg in Hd'. apply filter_In in Hd'. exists d'. repeat split; [tauto|left; reflexivity].
  - destruct (HM d' Hd') as (d & Hd & Hid & Hst & _).
    destruct (CmpEv_in _ _ _ _ HC Hd') as (d2 & Hd2 & Hid2 & Ht2).
    assert (d2 = d) as ->.
    { pose proof (find_dt_nodup _ d Hnd0 Hd) as F1. pose proof (find_dt_nodup _ d2 Hnd0 Hd2) as F2.
      rewrite <- Hid2, <- Hid in F2. rewrite F1 in F2. inversion F2. reflexivity. }
    assert (c5_expiry d' = c5_expiry d \/ In (d_id d') (c5_trig_ids (snd (full_step c now f o)))) as Hex.
    { destruct Ht2 as [Ht2|Ht2]; [left; apply expiry_static; assumption|right; rewrite Hid2; exact Ht2]. }
    apply in_app_or in Hd. destruct Hd as [Hd|Hd].
    + left. exists d. repeat split; assumption.
    + right. unfold c5_wf_step in Hwf. cbn [c5_mk c5_now c5_op c5_pre] in Hwf.
      apply andb_prop in Hwf. destruct Hwf as [_ Hop].
      destruct o; cbn [added_by] in Hd; try (destruct Hd; fail). destruct Hd as [<-|[]].
      apply andb_prop in Hop. destruct Hop as [Hfr _]. apply negb_true_iff in Hfr. apply has_false_notin in Hfr.
      split; [symmetry; exact Hid|exact Hfr].
Qed.

(* ------------------------------------------------------------------ one step of the timer layer *)

Definition TInv (now : Z) (ts : c5_tstate) : Prop :=
  DtInv3 now (ts_f ts) /\ TmOk (f_dts (ts_f ts)) (ts_tms ts) /\ TmSub (f_dts (ts_f ts)) (ts_tms ts).

Lemma TInv_later now now' ts : now <= now' -> TInv now ts -> TInv now' ts.
Proof. intros H (A & B & C). split; [eapply DtInv3_later; eassumption|split; assumption]. Qed.

Lemma TInv_init now : 0 <= now -> TInv now c5_tinit.
Proof.
  intros H. split; [apply DtInv3_init; exact H|]. split.
  - intros d [].
  - intros t [].
Qed.

(* all proved checks of a base step (copied out of the run theorem of CkDtObs) *)
Lemma step_all_ok c now prev f o :
  DtInv3 now f -> c5_wf_step prev (c5_mk c now f o) = true ->
  c5_sig_any (c_kind (fc_base c)) (c5_mk c now f o) = false ->
  c5_step_all (c_kind (fc_base c)) (c5_mk c now f o) = true /\ DtInv3 now (fst (full_step c now f o)).
Proof.
  intros [Hinv Hord] Hw S2. pose proof Hinv as (Hi & _ & _). unfold c5_sig_any in S2. split.
  - unfold c5_step_all.
    destruct (step_checks_mono_nolate c now prev f o Hi Hw) as [H1 H2].
    destruct (step_checks_removal c now prev f o Hi Hw) as (H3 & H4 & H5 & H6). cbn zeta in H3, H4, H5, H6.
    destruct (step_check_start_inv c now prev f o Hinv Hw) as (H9 & _). cbn zeta in H9.
    rewrite H1, H2, H3, H4, H5, H6, (step_check_result c now prev f o Hi Hw),
      (step_check_add c now prev f o Hi Hw), (H9 S2), (step_check_trigev c now prev f o Hi Hw), step_check_depth,
      (step_check_chain c now prev f o Hinv Hord Hw). reflexivity.
  - split; [apply (step_DtInv2 c now prev f o Hinv Hw)|apply (step_Ord c now prev f o Hi Hord Hw)].
Qed.

Lemma noop_chk c now f o : NoDup (ids (f_dts f)) -> c5_chk_noop (c5_noop_obs c now f o) = true.
Proof.
  intros Hnd. unfold c5_chk_noop, c5_noop_obs. cbn [c5_pre c5_post c5_outs].
  rewrite gone_nil by apply incl_refl. rewrite newly_incl; [|exact Hnd|apply incl_refl]. apply Z.eqb_refl.
Qed.

Lemma authority_ok ds id auth tms :
  NoDup (ids ds) -> TmOk ds tms -> TmSub ds tms ->
  TmOk ds (c5_tm_authority ds id auth tms) /\ TmSub ds (c5_tm_authority ds id auth tms).
Proof.
  intros Hnd Hok Hsub. split.
  - intros d Hd. destruct (Hok d Hd) as (t & Ft & T1 & T2).
    rewrite tm_find_authority, Ft. cbn [option_map]. unfold auth_entry.
    destruct (tm_find_some _ _ _ Ft) as [_ Hidt]. rewrite Hidt.
    destruct (d_id d =? id) eqn:E; [|exists t; split; [reflexivity|split; assumption]].
    assert (id = d_id d) as -> by lia.
    destruct auth.
    + destruct (tm_paused t) eqn:Ep; [|exists t; split; [reflexivity|split; [exact T1|intros _; exact (T2 eq_refl)]]].
      rewrite (find_dt_nodup ds d Hnd Hd). eexists. split; [reflexivity|]. cbn. split; auto.
    + destruct (tm_paused t) eqn:Ep; [exists t; split; [reflexivity|split; [exact T1|intros Hc; congruence]]|].
      eexists. split; [reflexivity|]. cbn. split; intros Hc; discriminate Hc.
  - intros t' Ht'. unfold c5_tm_authority in Ht'. apply in_map_iff in Ht'. destruct Ht' as (t & <- & Ht).
    fold (auth_entry ds id auth t). rewrite auth_entry_id. apply Hsub. exact Ht.
Qed.

(* every proved check of the base layer (when the step runs; otherwise: nothing changed) and the timer check *)
Definition c5_tstep_all (k : kind) (s : c5_tobs) : bool :=
  (if c5_runs (c5_now (ct_base s)) (ct_tm_pre s) (ct_xop s) then c5_step_all k (ct_base s) else c5_chk_noop (ct_base s))
  && c5_chk_tm s.

Definition c5_tclean (k : kind) (s : c5_tobs) : bool :=
  if c5_runs (c5_now (ct_base s)) (ct_tm_pre s) (ct_xop s) then negb (c5_sig_any k (ct_base s)) else true.

Lemma tstep_ok c now prev ts xo :
  TInv now ts -> c5_twf_step prev (c5_tmk c now ts xo) = true ->
  c5_tclean (c_kind (fc_base c)) (c5_tmk c now ts xo) = true ->
  c5_tstep_all (c_kind (fc_base c)) (c5_tmk c now ts xo) = true /\ TInv now (fst (c5_tstep c now ts xo)).
Proof.
  intros (Hinv & Hok & Hsub) Hwf Hcl. pose proof Hinv as (((Hnd & _) & _ & _) & _).
  unfold c5_tstep_all, c5_tclean, c5_twf_step in *. cbn [c5_tmk ct_base ct_xop ct_tm_pre ct_tm_post] in *.
  destruct xo as [o|id p].
  - (* an operation of CkFull *)
    assert (c5_now (if c5_runs now (ts_tms ts) (XOp o) then c5_mk c now (ts_f ts) o else c5_noop_obs c now (ts_f ts) o) = now) as Hn.
    { destruct (c5_runs now (ts_tms ts) (XOp o)); reflexivity. }
    rewrite Hn in *. unfold c5_tstep.
    destruct (c5_runs now (ts_tms ts) (XOp o)) eqn:Hr.
    + apply negb_true_iff in Hcl.
      destruct (step_all_ok c now prev (ts_f ts) o Hinv Hwf Hcl) as (Hall & Hinv').
      pose proof (step_rel c now prev (ts_f ts) o (proj1 (proj1 Hinv)) Hwf) as Hrel.
      destruct (full_step c now (ts_f ts) o) as [f' outs] eqn:Efs. cbn [fst snd] in *.
      pose proof Hinv' as (((Hnd' & _) & _ & _) & _).
      destruct (tm_after_ok o outs (f_dts (ts_f ts)) (f_dts f') (ts_tms ts) Hnd' Hok Hsub Hrel) as (Hok' & Hsub').
      split; [|split; [exact Hinv'|split; assumption]].
      rewrite Hall. cbn [andb]. apply TmOk_chk. unfold c5_tmk, c5_tstep. cbn [ct_base ct_tm_post]. rewrite Hr. cbn [c5_mk c5_post]. rewrite Efs. cbn [fst ts_tms]. exact Hok'.
    + cbn [fst]. split; [|split; [exact Hinv|split; assumption]].
      rewrite noop_chk by exact Hnd. cbn [andb]. apply TmOk_chk. unfold c5_tmk, c5_tstep. cbn [ct_base ct_tm_post]. rewrite Hr. cbn [c5_noop_obs c5_post fst]. exact Hok.
  - (* pause / resume of the Downtime object *)
    cbn [c5_runs c5_tstep fst]. destruct (authority_ok (f_dts (ts_f ts)) id (negb p) (ts_tms ts) Hnd Hok Hsub) as (Hok' & Hsub').
    split; [|split; [exact Hinv|split; assumption]].
    rewrite noop_chk by exact Hnd. cbn [andb]. apply TmOk_chk. unfold c5_tmk, c5_tstep. cbn [ct_base ct_tm_post c5_noop_obs c5_post fst ts_tms]. exact Hok'.
Qed.

(* ------------------------------------------------------------------ runs *)
Fixpoint c5_twf_run (c : fcfg) (prev : Z) (ts : c5_tstate) (h : list (Z * c5_xop)) : bool :=
  match h with
  | [] => true
  | (now, xo) :: rest =>
      c5_twf_step prev (c5_tmk c now ts xo) && c5_twf_run c now (fst (c5_tstep c now ts xo)) rest
  end.

Fixpoint c5_tclean_run (c : fcfg) (ts : c5_tstate) (h : list (Z * c5_xop)) : bool :=
  match h with
  | [] => true
  | (now, xo) :: rest =>
      c5_tclean (c_kind (fc_base c)) (c5_tmk c now ts xo) && c5_tclean_run c (fst (c5_tstep c now ts xo)) rest
  end.

Lemma twf_prev_le c prev now ts xo : c5_twf_step prev (c5_tmk c now ts xo) = true -> prev <= now.
Proof.
  unfold c5_twf_step. cbn [c5_tmk ct_xop ct_base]. destruct xo as [o|id p].
  - destruct (c5_runs now (ts_tms ts) (XOp o)); unfold c5_wf_step; cbn [c5_mk c5_noop_obs c5_now]; intros H;
      repeat (apply andb_prop in H; destruct H as [H ?]); lia.
  - cbn [c5_noop_obs c5_now]. intros H. apply andb_prop in H. lia.
Qed.

Theorem tmodel_trace_all_checks c : forall h prev ts,
  TInv prev ts -> c5_twf_run c prev ts h = true -> c5_tclean_run c ts h = true ->
  Forall (fun s => c5_tstep_all (c_kind (fc_base c)) s = true) (c5_tmodel_trace c ts h).
Proof.
  induction h as [|[now xo] h IH]; intros prev ts Hinv Hwf Hcl; cbn [c5_tmodel_trace]; [constructor|].
  cbn [c5_twf_run] in Hwf. apply andb_prop in Hwf. destruct Hwf as [Hw Hrest].
  cbn [c5_tclean_run] in Hcl. apply andb_prop in Hcl. destruct Hcl as [Hc Hcr].
  pose proof (TInv_later _ _ _ (twf_prev_le _ _ _ _ _ Hw) Hinv) as Hinv'.
  destruct (tstep_ok c now prev ts xo Hinv' Hw Hc) as (Hall & Hnext).
  constructor; [exact Hall|]. apply IH with now; assumption.
Qed.

(* ------------------------------------------------------------------ the timer pump *)
Lemma pump_fires now ds tms d :
  TmOk ds tms -> In d ds ->
  (forall t, c5_tm_find (d_id d) tms = Some t -> tm_paused t = false) ->
  c5_expiry d < now -> c5_tm_fires now (d_id d) tms = true.
Proof.
  intros Hok Hd Hp He. destruct (Hok d Hd) as (t & Ft & T1 & T2). unfold c5_tm_fires. rewrite Ft.
  rewrite (T2 (Hp t Ft)), (T1 (T2 (Hp t Ft))). cbn. lia.
Qed.

Lemma fires_expired now ds tms d :
  TmOk ds tms -> In d ds -> trig_sane now d -> c5_tm_fires now (d_id d) tms = true -> dt_is_expired now d = true.
Proof.
  intros Hok Hd Hs Hf. destruct (Hok d Hd) as (t & Ft & T1 & _). unfold c5_tm_fires in Hf. rewrite Ft in Hf.
  apply andb_prop in Hf. destruct Hf as [Ha Hdue]. specialize (T1 Ha). rewrite T1 in Hdue. revert Hdue.
  unfold c5_expiry, dt_is_expired, dt_is_triggered, dt_in_effect. destruct (d_fixed d); cbn [orb];
    destruct (d_trigger d <=? 0) eqn:E0; destruct Hs as [Hs|Hs]; try rewrite Hs in *; zb.
Qed.

(* a downtime whose object is not paused is removed by the first timer pump after its expiry *)
Theorem pump_removes c now ts d :
  TInv now ts -> In d (f_dts (ts_f ts)) ->
  (forall t, c5_tm_find (d_id d) (ts_tms ts) = Some t -> tm_paused t = false) ->
  c5_expiry d < now ->
  c5_runs now (ts_tms ts) (XOp (OpDtCleanup (d_id d))) = true /\
  c5_has (d_id d) (f_dts (ts_f (fst (c5_tstep c now ts (XOp (OpDtCleanup (d_id d))))))) = false /\
  c5_chk_end (c5_mk c now (ts_f ts) (OpDtCleanup (d_id d))) = true.
Proof.
  intros (Hinv & Hok & Hsub) Hd Hp He. pose proof Hinv as (((Hnd & _) & Hs & _) & _).
  pose proof (pump_fires now _ _ d Hok Hd Hp He) as Hf.
  assert (trig_sane now d) as Hsd by (unfold sane in Hs; rewrite Forall_forall in Hs; apply Hs; exact Hd).
  pose proof (fires_expired now _ _ d Hok Hd Hsd Hf) as Hex.
  split; [exact Hf|].
  destruct (cleanup_checks c now (ts_f ts) (d_id d) Hnd) as (_ & H4 & _ & H6). cbn zeta in H4, H6.
  split; [|exact H4].
  unfold c5_tstep. cbn [c5_runs]. rewrite Hf.
  unfold c5_chk_cleanup in H6. cbn [c5_mk c5_op c5_pre c5_now c5_post] in H6.
  rewrite (find_dt_nodup _ d Hnd Hd), Hex in H6. apply negb_true_iff in H6.
  destruct (full_step c now (ts_f ts) (OpDtCleanup (d_id d))) as [f' outs]. cbn [fst ts_f] in *. exact H6.
Qed.

(* ------------------------------------------------------------------ witnesses *)
(* fail-over and fail-back of the Downtime object before its expiry: the timer is armed again and the pump after
   end_time removes the downtime with one DowntimeEnd *)
Definition wit_failover : list (Z * c5_xop) :=
  [(1000, XOp (wit_cr SOK 1000)); (1000, XOp (OpDtAdd 1 true 1000 1100 0 0 0 false));
   (1010, XDtPause 1 true); (1020, XOp (OpDtCleanup 1)); (1030, XDtPause 1 false);
   (1100, XOp (OpDtCleanup 1)); (1101, XOp (OpDtCleanup 1))].
(* the same without the fail-back: the timer stays stopped, the pump does nothing (by design of Pause()) *)
Definition wit_paused : list (Z * c5_xop) :=
  [(1000, XOp (wit_cr SOK 1000)); (1000, XOp (OpDtAdd 1 true 1000 1100 0 0 0 false));
   (1010, XDtPause 1 true); (1101, XOp (OpDtCleanup 1))].

Fixpoint c5_trun (c : fcfg) (ts : c5_tstate) (h : list (Z * c5_xop)) : c5_tstate :=
  match h with [] => ts | (now, xo) :: rest => c5_trun c (fst (c5_tstep c now ts xo)) rest end.

Lemma failover_accepted :
  TInv 0 c5_tinit /\ c5_twf_run wit_cfg 0 c5_tinit wit_failover = true /\ c5_tclean_run wit_cfg c5_tinit wit_failover = true /\
  c5_toracle KService (c5_tmodel_trace wit_cfg c5_tinit wit_failover) = [] /\
  f_dts (ts_f (c5_trun wit_cfg c5_tinit wit_failover)) = [] /\
  fold_left (fun a s => a + c5_cnt c5_is_end (c5_outs (ct_base s))) (c5_tmodel_trace wit_cfg c5_tinit wit_failover) 0 = 1 /\
  map (fun s => c5_runs (c5_now (ct_base s)) (ct_tm_pre s) (ct_xop s)) (c5_tmodel_trace wit_cfg c5_tinit wit_failover)
    = [true; true; false; false; false; false; true] /\
  length (f_dts (ts_f (c5_trun wit_cfg c5_tinit wit_paused))) = 1%nat.
Proof. split; [apply TInv_init; lia|]. vm_compute. repeat split. Qed.
