(* C02 - exact description of Checkable::FireSuppressedNotifications on the model (valid in EVERY state). *)
From Icv Require Import Base.Tac Ck.CkState Ck.CkStateProofs Ck.CkFull Ck.CkSuppProofs Ck.CkSuppStep.
Local Open Scope Z_scope.

(* the four conditions under which pending state notifications are processed *)
Definition c02_release_cond (c : fcfg) (now : Z) (f : full) : bool :=
  negb (c02_reason now f) && stype_eqb (s_type (f_st f)) Hard && negb (likely_checked_soon c now f)
  && negb (parent_recovered_recently f).

Definition c02_fire_type (c : fcfg) (f : full) : ntype :=
  if s_has_cr (f_st f) && is_ok (c_kind (fc_base c)) (s_raw (f_st f)) then NRecovery else NProblem.

(* the state-bit part of do_fire (copied sub-term) *)
Definition c02_fire_state (c : fcfg) (now : Z) (f : full) : full * list out * bool :=
  let k := c_kind (fc_base c) in
  let has_cr := s_has_cr (f_st f) in
  let cur := s_raw (f_st f) in
      if f_sp_problem f || f_sp_recovery f then
        let t := if has_cr && is_ok k cur then NRecovery else NProblem in
        let nreach := notif_reachable f in
        let in_dt := in_downtime now f in
        let '(supp1, fa, oa) :=
          if negb nreach || in_dt then (true, f, [])
          else let '(a, fa, oa) := get_ack now f in (negb (ackt_eqb a AckNone), fa, oa) in
        let '(supp, fb, ob) :=
          if supp1 then (true, fa, oa)
          else
            let nreach2 := notif_reachable fa in
            let in_dt2 := in_downtime now fa in
            if negb nreach2 || in_dt2 then (true, fa, oa)
            else let '(a, fb, ob) := get_ack now fa in (negb (ackt_eqb a AckNone), fb, oa ++ ob) in
        if negb supp && stype_eqb (s_type (f_st fb)) Hard && negb (likely_checked_soon c now fb)
           && negb (parent_recovered_recently fb)
        then (fb, ob ++ (if negb (release_same_state k cur (f_sbs fb)) then [ONotify t] else []), true)
        else (fb, ob, false)
      else (f, [], false).

Ltac c02_split := repeat match goal with |- _ /\ _ => split end.

Lemma c02_env_same c now f f' :
  c02_same f f' -> f_dts f' = f_dts f ->
  notif_reachable f' = notif_reachable f /\ in_downtime now f' = in_downtime now f /\
  likely_checked_soon c now f' = likely_checked_soon c now f /\
  parent_recovered_recently f' = parent_recovered_recently f.
Proof.
  intros (A1&A2&A3&A4&A5&A6&A7&A8&A9&A10&A11&A12) D.
  unfold notif_reachable, in_downtime, likely_checked_soon, parent_recovered_recently.
  rewrite A1, A9, A10, A11, A12, D. repeat split.
Qed.

Lemma c02_fire_state_facts c now f :
  c02_pending f = true ->
  let '(fb, ob, sub) := c02_fire_state c now f in
  c02_same f fb /\ f_dts fb = f_dts f /\ c02_ack_live now fb = c02_ack_live now f /\
  sub = c02_release_cond c now f /\
  c02_flap_outs ob = [] /\
  c02_state_outs ob = (if c02_release_cond c now f && negb (release_same_state (c_kind (fc_base c)) (s_raw (f_st f)) (f_sbs f))
                       then [ONotify (c02_fire_type c f)] else []).
Proof.
  intros Hp. unfold c02_pending in Hp. unfold c02_fire_state. rewrite Hp.
  unfold c02_release_cond, c02_reason, c02_fire_type.
  destruct (negb (notif_reachable f) || in_downtime now f) eqn:E1.
  - cbn [negb andb]. c02_split; try reflexivity. apply c02_same_refl.
  - pose proof (get_ack_facts now f) as H. destruct (get_ack now f) as [[a fa] oa].
    destruct H as (S1 & Q1 & D1 & L1 & A1 & L1' & I1).
    destruct (c02_env_same c now f fa S1 D1) as (N1 & N2 & N3 & N4).
    rewrite <- L1.
    destruct (negb (ackt_eqb a AckNone)) eqn:Ea.
    + cbn [negb andb orb]. c02_split; try assumption; try congruence; try reflexivity;
        [apply c02_quiet_flap|apply c02_quiet_state]; assumption.
    + rewrite N1, N2, E1, I1, Ea. cbn [negb andb orb].
      pose proof S1 as S1'. destruct S1' as (B1&_&_&_&_&B6&_).
      rewrite N3, N4, B1, B6, app_nil_r.
      destruct (stype_eqb (s_type (f_st f)) Hard && negb (likely_checked_soon c now f) &&
                negb (parent_recovered_recently f)).
      * c02_split; try assumption; try congruence; try reflexivity.
        -- rewrite c02_flap_outs_app, (c02_quiet_flap _ Q1).
           destruct (negb (release_same_state _ _ _)); [|reflexivity].
           destruct (s_has_cr (f_st f) && _); reflexivity.
        -- rewrite c02_state_outs_app, (c02_quiet_state _ Q1).
           destruct (negb (release_same_state _ _ _)); [|reflexivity].
           destruct (s_has_cr (f_st f) && _); reflexivity.
      * c02_split; try assumption; try congruence; try reflexivity;
          [apply c02_quiet_flap|apply c02_quiet_state]; assumption.
Qed.

Lemma do_fire_eq c now f :
  do_fire c now f =
  if f_paused f then (f, [])
  else if negb (f_sp_problem f || f_sp_recovery f || f_sp_fstart f || f_sp_fend f) then (f, [])
  else
    let '(f1, o1, sub_state) := c02_fire_state c now f in
    let fl_now := is_flapping c (f_flap f1) in
    let in_dt1 := in_downtime now f1 in
    let go (bit applies : bool) (t : ntype) : bool * list out :=
      if bit then
        if applies then
          if negb in_dt1 && negb (likely_checked_soon c now f1) && negb (parent_recovered_recently f1)
          then (true, [ONotify t]) else (false, [])
        else (true, [])
      else (false, []) in
    let '(sub_fs, o_fs) := go (f_sp_fstart f) fl_now NFlapStart in
    let '(sub_fe, o_fe) := go (f_sp_fend f) (negb fl_now) NFlapEnd in
    let f2 := set_supp f1 (if sub_state then false else f_sp_problem f1)
                          (if sub_state then false else f_sp_recovery f1)
                          (if sub_fs then false else f_sp_fstart f1)
                          (if sub_fe then false else f_sp_fend f1) in
    (f2, o1 ++ o_fs ++ o_fe).
Proof. reflexivity. Qed.

Definition c02_flap_go (c : fcfg) (now : Z) (f : full) : bool :=
  negb (in_downtime now f) && negb (likely_checked_soon c now f) && negb (parent_recovered_recently f).

Record c02_fire_spec (c : fcfg) (now : Z) (f f' : full) (o : list out) : Prop := {
  fs_same : f_st f' = f_st f /\ f_sbs f' = f_sbs f /\ f_flap f' = f_flap f /\ f_paused f' = f_paused f /\
            f_dts f' = f_dts f /\ c02_reason now f' = c02_reason now f;
  fs_idle : f_paused f = true -> o = [] /\ f' = f;
  fs_state :
    let rel := negb (f_paused f) && c02_pending f && c02_release_cond c now f in
    c02_state_outs o = (if rel && negb (release_same_state (c_kind (fc_base c)) (s_raw (f_st f)) (f_sbs f)) then [ONotify (c02_fire_type c f)] else [])
    /\ f_sp_problem f' = (if rel then false else f_sp_problem f)
    /\ f_sp_recovery f' = (if rel then false else f_sp_recovery f);
  fs_flap :
    let fl := is_flapping c (f_flap f) in
    let go := negb (f_paused f) && c02_flap_go c now f in
    c02_flap_outs o = (if f_sp_fstart f && fl && go then [ONotify NFlapStart] else [])
                      ++ (if f_sp_fend f && negb fl && go then [ONotify NFlapEnd] else [])
    /\ f_sp_fstart f' = (if f_paused f then f_sp_fstart f else f_sp_fstart f && fl && negb (c02_flap_go c now f))
    /\ f_sp_fend f' = (if f_paused f then f_sp_fend f else f_sp_fend f && negb fl && negb (c02_flap_go c now f))
}.

Theorem do_fire_spec c now f : c02_fire_spec c now f (fst (do_fire c now f)) (snd (do_fire c now f)).
Proof.
  rewrite do_fire_eq.
  destruct (f_paused f) eqn:Epa.
  { constructor; cbn [fst snd]; cbv zeta; rewrite ?Epa; cbn [negb andb]; rewrite ?andb_false_r; cbn [app];
    repeat split; reflexivity. }
  destruct (negb (f_sp_problem f || f_sp_recovery f || f_sp_fstart f || f_sp_fend f)) eqn:Eb.
  { apply negb_true_iff in Eb. apply orb_false_iff in Eb. destruct Eb as [Eb E4].
    apply orb_false_iff in Eb. destruct Eb as [Eb E3]. apply orb_false_iff in Eb. destruct Eb as [E1 E2].
    constructor; cbn [fst snd negb andb]; unfold c02_pending; rewrite ?E1, ?E2, ?E3, ?E4, ?Epa;
      cbn [andb orb]; repeat split; try reflexivity; discriminate. }
  clear Eb.
  assert (exists fb ob sub, c02_fire_state c now f = (fb, ob, sub) /\
            c02_same f fb /\ f_dts fb = f_dts f /\ c02_ack_live now fb = c02_ack_live now f /\
            sub = (c02_pending f && c02_release_cond c now f) /\ c02_flap_outs ob = [] /\
            c02_state_outs ob = (if c02_pending f && c02_release_cond c now f && negb (release_same_state (c_kind (fc_base c)) (s_raw (f_st f)) (f_sbs f))
                                 then [ONotify (c02_fire_type c f)] else [])) as (fb & ob & sub & Efs & S & D & L & Hsub & Hfo & Hso).
  { destruct (c02_pending f) eqn:Ep.
    - pose proof (c02_fire_state_facts c now f Ep) as H. destruct (c02_fire_state c now f) as [[fb ob] sub].
      exists fb, ob, sub. cbn [andb]. destruct H as (H1&H2&H3&H4&H5&H6). c02_split; try reflexivity; assumption.
    - unfold c02_fire_state. unfold c02_pending in Ep. rewrite Ep.
      exists f, [], false. c02_split; try reflexivity. apply c02_same_refl. }
  rewrite Efs. cbv beta zeta iota.
  destruct (c02_env_same c now f fb S D) as (N1 & N2 & N3 & N4).
  pose proof S as S'. destruct S' as (B1&B2&B3&B4&B5&B6&B7&B8&_).
  rewrite N2, N3, N4, B7.
  set (fl := is_flapping c (f_flap f)).
  fold (c02_flap_go c now f).
  set (go := c02_flap_go c now f).
  assert (c02_reason now fb = c02_reason now f) as Hre by (unfold c02_reason; rewrite N1, N2, L; reflexivity).
  constructor.
  - destruct (f_sp_fstart f), (f_sp_fend f), fl, go; cbn [fst snd negb andb set_supp set_core f_st f_sbs f_flap f_paused f_dts];
      repeat split; assumption.
  - intros Hx; congruence.
  - cbv zeta. rewrite Epa. cbn [negb andb].
    destruct (f_sp_fstart f), (f_sp_fend f), fl, go; cbn [fst snd negb andb set_supp set_core f_sp_problem f_sp_recovery];
      rewrite ?c02_state_outs_app, Hso, Hsub, ?app_nil_r, B2, B3;
      cbn [c02_state_outs filter c02_sn app]; rewrite ?app_nil_r;
      (split; [reflexivity|destruct (c02_pending f && c02_release_cond c now f); split; reflexivity]).
  - cbv zeta. rewrite Epa. cbn [negb andb].
    change (is_flapping c (f_flap f)) with fl. change (c02_flap_go c now f) with go.
    destruct (f_sp_fstart f) eqn:E3, (f_sp_fend f) eqn:E4, fl, go;
      cbn [fst snd negb andb set_supp set_core f_sp_fstart f_sp_fend];
      rewrite ?c02_flap_outs_app, Hfo, ?B4, ?B5, ?E3, ?E4; cbn [c02_flap_outs filter c02_fn app];
      repeat split; reflexivity.
Qed.
