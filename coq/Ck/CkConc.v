(* C01 - Checkable::ProcessCheckResult at lock granularity, called concurrently for ONE checkable (model, no proofs).
   lib/icinga/checkable-check.cpp (line numbers of the tree as it is):

     163  ObjectLock olock(this);                                   -- CcStart  -> CcRead      (cc_lock_first = true)
     165  old_cr = GetLastCheckResult(); old_state = GetStateRaw();
          old_stateType = GetStateType(); old_attempt = GetCheckAttempt();          -- CcRead   -> CcHave snap
     175  if (old_cr && !(current > now) && new < current) return NewerCheckResultPresent;
                                                                    -- CcHave snap -> CcDone CcRejected (lock released)
     202-301  SetLastStateRaw .. SetStateType / SetCheckAttempt / SetStateRaw / SetLastHardStateRaw /
          SetLastHardStatesRaw / SetLastSoftStatesRaw  (= CkState.step_accept on the snapshot)
                                                                    -- CcWrite snap -> CcRel1 info
     327  olock.Unlock();                                           -- CcRel1   -> CcWant2     (cc_cr_split = true)
     329-342  RemoveAckComments, vars_after (no state field written)
     344  olock.Lock();                                             -- CcWant2  -> CcCr
     347  SetLastCheckResult(cr);                                   -- CcCr     -> CcRel2
     393  olock.Unlock();                                           -- CcRel2   -> CcPost
     435  OnNewCheckResult(...)
     444  if (hardChange || volatile ...) OnStateChange(Hard)
     450  else if (stateChange || GetStateType() == StateTypeSoft) OnStateChange(Soft)
                                                                    -- CcPost   -> CcDone (CcAccepted ev)
                                                                       (cc_ev_reread = true: the state type is LOADED AGAIN here)

   Switches (cc_cfg):
     cc_lock_first  true  = the lock is taken before the snapshot (the tree as it is);
                    false = the snapshot and the stale test are made unlocked, the lock is taken only for the writes
                            (the seeded shape C01d): CcStart -> CcRead -> CcHave -> CcWantW -> CcWrite
     cc_cr_split    true  = last_check_result is stored in a SECOND critical section (the tree as it is);
                    false = it is stored together with the state fields
     cc_ev_reread   true  = the soft-event test loads the state type again after the critical sections (the tree as it is);
                    false = it uses the type this call computed
   Atomicity the model relies on: ObjectLock is mutual exclusion (acquire only when free); everything a thread does
   between two lock operations is one step per line group above (under the lock nothing else can write; for
   cc_lock_first = false the unlocked snapshot is ONE atomic step, a coarsening that only makes the refuted shape
   better than it is).  In the late-lock shape the write step computes from the snapshot's state/type/attempt and the
   CURRENT last-hard/soft bookkeeping fields (those are loaded again by the code at the point of the write): cc_mix.
   Threads: ids 0..k-1 run one call each with job i = (now read at entry, result); a schedule is any list of
   thread ids; a scheduled thread that cannot move (waiting for the lock, finished) stutters.
   Ghost: cc_log records (thread, what it decided) at the moment of the decision under the first critical section
   (reject / write) - for cc_lock_first = true this is the order in which the threads acquired the lock. *)
From Icv Require Import Base.Tac Ck.CkState.
Local Open Scope Z_scope.

Record cc_cfg := { cc_lock_first : bool; cc_cr_split : bool; cc_ev_reread : bool }.

(* what a finished call reports: NewerCheckResultPresent, or Ok together with the state-change event it raised
   (an accepted call always raises the new-check-result event) *)
Inductive cc_out := CcRejected | CcAccepted (e : event).

Inductive cc_pc :=
  | CcIdle                      (* not a thread of this run *)
  | CcStart                     (* about to take the lock (lock first) / to snapshot (late lock) *)
  | CcRead                      (* about to snapshot the previous state *)
  | CcHave (snap : st)          (* snapshot made, about to test for an outdated result *)
  | CcWantW (snap : st)         (* late lock only: about to take the lock for the writes *)
  | CcWrite (snap : st)         (* holds the lock, about to write the state fields *)
  | CcRel1 (i : info)           (* about to release the lock *)
  | CcWant2 (i : info)          (* about to take the lock again *)
  | CcCr (i : info)             (* holds the lock, about to store last_check_result *)
  | CcRel2 (i : info)           (* about to release the lock *)
  | CcPost (i : info)           (* about to raise the events *)
  | CcDone (o : cc_out).

Record cc_state := {
  cc_st : st;
  cc_lock : option nat;                         (* holder *)
  cc_pcs : nat -> cc_pc;
  cc_log : list (nat * option info)             (* ghost: decisions in the order they were taken, oldest first *)
}.

Definition cc_upd (f : nat -> cc_pc) (i : nat) (p : cc_pc) : nat -> cc_pc :=
  fun j => if Nat.eqb j i then p else f j.

(* state/type/attempt as snapshotted, the bookkeeping fields and last_check_result as they are now *)
Definition cc_mix (snap cur : st) : st :=
  {| s_raw := s_raw snap; s_type := s_type snap; s_attempt := s_attempt snap;
     s_last_hard_raw := s_last_hard_raw cur; s_hard_states := s_hard_states cur; s_soft_states := s_soft_states cur;
     s_has_cr := s_has_cr cur; s_cr_start := s_cr_start cur |}.

(* the state fields of [s'], last_check_result of [cur] *)
Definition cc_keep_cr (cur s' : st) : st :=
  {| s_raw := s_raw s'; s_type := s_type s'; s_attempt := s_attempt s';
     s_last_hard_raw := s_last_hard_raw s'; s_hard_states := s_hard_states s'; s_soft_states := s_soft_states s';
     s_has_cr := s_has_cr cur; s_cr_start := s_cr_start cur |}.

(* SetLastCheckResult(cr) *)
Definition cc_set_cr (cur : st) (r : cres) : st :=
  {| s_raw := s_raw cur; s_type := s_type cur; s_attempt := s_attempt cur;
     s_last_hard_raw := s_last_hard_raw cur; s_hard_states := s_hard_states cur; s_soft_states := s_soft_states cur;
     s_has_cr := true; s_cr_start := r_start r |}.

(* lines 444-454 with the state type passed in: [ty] = GetStateType() at that moment *)
Definition cc_event (c : cfg) (i : info) (r : cres) (ty : stype) : event :=
  let k := c_kind c in
  if i_hard_change i || (c_volatile c && negb (is_ok k (i_old_raw i) && is_ok k (r_state r))) then EvHard
  else if i_state_change i || stype_eqb ty Soft then EvSoft
  else EvNone.

Definition cc_free (l : option nat) : bool := match l with None => true | Some _ => false end.

(* one step of thread i *)
Definition cc_step (g : cc_cfg) (c : cfg) (jobs : nat -> Z * cres) (s : cc_state) (i : nat) : cc_state :=
  let now := fst (jobs i) in
  let r := snd (jobs i) in
  let set st' lock' pc' log' :=
    {| cc_st := st'; cc_lock := lock'; cc_pcs := cc_upd (cc_pcs s) i pc'; cc_log := log' |} in
  let cur := cc_st s in
  let l := cc_lock s in
  let lg := cc_log s in
  match cc_pcs s i with
  | CcIdle => s
  | CcStart =>
      if cc_lock_first g then
        (if cc_free l then set cur (Some i) CcRead lg else s)
      else set cur l CcRead lg
  | CcRead => set cur l (CcHave cur) lg
  | CcHave snap =>
      if rejected now snap r then
        set cur (if cc_lock_first g then None else l) (CcDone CcRejected) (lg ++ [(i, None)])
      else if cc_lock_first g then set cur l (CcWrite snap) lg
      else set cur l (CcWantW snap) lg
  | CcWantW snap => if cc_free l then set cur (Some i) (CcWrite snap) lg else s
  | CcWrite snap =>
      let '(s', inf) := step_accept c (cc_mix snap cur) r in
      set (if cc_cr_split g then cc_keep_cr cur s' else s') l (CcRel1 inf) (lg ++ [(i, Some inf)])
  | CcRel1 inf => set cur None (if cc_cr_split g then CcWant2 inf else CcPost inf) lg
  | CcWant2 inf => if cc_free l then set cur (Some i) (CcCr inf) lg else s
  | CcCr inf => set (cc_set_cr cur r) l (CcRel2 inf) lg
  | CcRel2 inf => set cur None (CcPost inf) lg
  | CcPost inf =>
      set cur l (CcDone (CcAccepted (if cc_ev_reread g then cc_event c inf r (s_type cur) else i_event inf))) lg
  | CcDone _ => s
  end.

Definition cc_run (g : cc_cfg) (c : cfg) (jobs : nat -> Z * cres) (s : cc_state) (sched : list nat) : cc_state :=
  fold_left (cc_step g c jobs) sched s.

Definition cc_init (s0 : st) (k : nat) : cc_state :=
  {| cc_st := s0; cc_lock := None;
     cc_pcs := fun i => if Nat.ltb i k then CcStart else CcIdle;
     cc_log := [] |}.

(* ---- the serial reference: the same calls one after the other, in the given order of thread ids ---- *)
Definition cc_out_of (oi : option info) : cc_out :=
  match oi with None => CcRejected | Some inf => CcAccepted (i_event inf) end.

Fixpoint cc_serial (c : cfg) (jobs : nat -> Z * cres) (s : st) (order : list nat) : st * list (nat * cc_out) :=
  match order with
  | [] => (s, [])
  | i :: rest =>
      let '(s', oi) := step c (fst (jobs i)) s (snd (jobs i)) in
      let '(sf, outs) := cc_serial c jobs s' rest in
      (sf, (i, cc_out_of oi) :: outs)
  end.

(* the accepted calls only, one after the other (no stale test): state and the info of every step *)
Fixpoint cc_serial_acc (c : cfg) (jobs : nat -> Z * cres) (s : st) (order : list nat) : st * list (nat * info) :=
  match order with
  | [] => (s, [])
  | i :: rest =>
      let '(s', inf) := step_accept c s (snd (jobs i)) in
      let '(sf, infs) := cc_serial_acc c jobs s' rest in
      (sf, (i, inf) :: infs)
  end.

(* ---- what the real-thread run observes, and the two executable judgements over it ---- *)

(* all permutations of a list *)
Fixpoint cc_ins (x : nat) (l : list nat) : list (list nat) :=
  match l with
  | [] => [[x]]
  | y :: t => (x :: l) :: map (cons y) (cc_ins x t)
  end.
Fixpoint cc_perms (l : list nat) : list (list nat) :=
  match l with
  | [] => [[]]
  | x :: t => flat_map (cc_ins x) (cc_perms t)
  end.

Definition cc_event_eqb (a b : event) : bool :=
  match a, b with EvNone, EvNone | EvSoft, EvSoft | EvHard, EvHard => true | _, _ => false end.
Definition cc_out_eqb (a b : cc_out) : bool :=
  match a, b with
  | CcRejected, CcRejected => true
  | CcAccepted x, CcAccepted y => cc_event_eqb x y
  | _, _ => false
  end.

(* the fields the API shows: state, state type, attempt, last hard state (as numbers, hosts collapsed to Up/Down) *)
Definition cc_api_state (k : kind) (s : sstate) : Z :=
  match k with KHost => if host_up s then 0 else 1 | KService => sstate_num s end.
Definition cc_proj (c : cfg) (s : st) : Z * Z * Z * Z :=
  (cc_api_state (c_kind c) (s_raw s), match s_type s with Soft => 0 | Hard => 1 end, s_attempt s,
   cc_api_state (c_kind c) (s_last_hard_raw s)).
Definition cc_proj_eqb (a b : Z * Z * Z * Z) : bool :=
  let '(a1, a2, a3, a4) := a in let '(b1, b2, b3, b4) := b in
  (a1 =? b1) && (a2 =? b2) && (a3 =? b3) && (a4 =? b4).

Definition cc_jobs_of (js : list (Z * cres)) : nat -> Z * cres :=
  fun i => nth i js (0, {| r_state := SOK; r_start := 0; r_end := 0 |}).

Definition cc_out_default : cc_out := CcRejected.

(* every thread's report is the one the serial run gives it *)
Definition cc_outs_match (ser : list (nat * cc_out)) (outs : list cc_out) : bool :=
  forallb (fun e => cc_out_eqb (snd e) (nth (fst e) outs cc_out_default)) ser.

(* STRICT: the observation (shown fields after all threads joined, report of every thread) is that of SOME serial order *)
Definition cc_strict_ok (c : cfg) (s0 : st) (js : list (Z * cres)) (fin : Z * Z * Z * Z) (outs : list cc_out) : bool :=
  existsb (fun order =>
             let '(sf, ser) := cc_serial c (cc_jobs_of js) s0 order in
             cc_proj_eqb (cc_proj c sf) fin && cc_outs_match ser outs)
          (cc_perms (seq 0 (length js))).

Definition cc_is_acc (o : cc_out) : bool := match o with CcAccepted _ => true | CcRejected => false end.

(* the event of an accepted call up to the second load of the state type *)
Definition cc_ev_allowed (c : cfg) (inf : info) (r : cres) (o : cc_out) : bool :=
  match o with
  | CcRejected => false
  | CcAccepted e => cc_event_eqb e (cc_event c inf r Soft) || cc_event_eqb e (cc_event c inf r Hard)
  end.

(* RELAXED (what the lock around the state fields alone guarantees): the shown fields are those of the ACCEPTED calls
   applied one after the other in some order, and every accepted call raised the event of its step in that order,
   possibly with the state type as some other call left it *)
Definition cc_relaxed_ok (c : cfg) (s0 : st) (js : list (Z * cres)) (fin : Z * Z * Z * Z) (outs : list cc_out) : bool :=
  let acc := filter (fun i => cc_is_acc (nth i outs cc_out_default)) (seq 0 (length js)) in
  existsb (fun order =>
             let '(sf, infs) := cc_serial_acc c (cc_jobs_of js) s0 order in
             cc_proj_eqb (cc_proj c sf) fin &&
             forallb (fun e => cc_ev_allowed c (snd e) (snd (cc_jobs_of js (fst e))) (nth (fst e) outs cc_out_default)) infs)
          (cc_perms acc).

(* classification only (no theorem depends on it): some serial order explains the shown fields and which calls were
   accepted, the kind of state-change event left aside *)
Definition cc_outs_match_acc (ser : list (nat * cc_out)) (outs : list cc_out) : bool :=
  forallb (fun e => Bool.eqb (cc_is_acc (snd e)) (cc_is_acc (nth (fst e) outs cc_out_default))) ser.
Definition cc_strict_noev_ok (c : cfg) (s0 : st) (js : list (Z * cres)) (fin : Z * Z * Z * Z) (outs : list cc_out) : bool :=
  existsb (fun order =>
             let '(sf, ser) := cc_serial c (cc_jobs_of js) s0 order in
             cc_proj_eqb (cc_proj c sf) fin && cc_outs_match_acc ser outs)
          (cc_perms (seq 0 (length js))).
