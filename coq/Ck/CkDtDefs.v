(* C05 - definitions only (no proofs): counting functions over the event lists of the combined model,
   the per-step observation record, the executable per-step property check and the oracle that is run
   over IMPLEMENTATION traces.  Everything that can reach extraction carries the prefix c5_. *)
From Icv Require Import Base.Tac Ck.CkState Ck.CkFull.
Local Open Scope Z_scope.

(* ---- event counting (order-insensitive: the harness prints the events of one operation sorted) ---- *)
Definition c5_is_start (o : out) : bool := match o with ONotify NDowntimeStart => true | _ => false end.
Definition c5_is_end (o : out) : bool := match o with ONotify NDowntimeEnd => true | _ => false end.
Definition c5_is_ref4 (o : out) : bool := match o with ORefused 4 => true | _ => false end.
Definition c5_cnt (p : out -> bool) (l : list out) : Z := Z.of_nat (length (filter p l)).
Fixpoint c5_rem_ids (l : list out) : list Z :=
  match l with [] => [] | ODtRemoved i :: r => i :: c5_rem_ids r | _ :: r => c5_rem_ids r end.
Fixpoint c5_trig_ids (l : list out) : list Z :=
  match l with [] => [] | ODtTriggered i :: r => i :: c5_trig_ids r | _ :: r => c5_trig_ids r end.

Definition c5_mem (i : Z) (l : list Z) : bool := existsb (Z.eqb i) l.
Definition c5_has (i : Z) (ds : list dt) : bool := match find_dt i ds with Some _ => true | None => false end.
Definition c5_trig_of (i : Z) (ds : list dt) : Z := match find_dt i ds with Some d => d_trigger d | None => 0 end.

(* inside the window [start_time, end_time] *)
Definition c5_inwin (now : Z) (d : dt) : bool := (d_start d <=? now) && (now <=? d_end d).

(* same downtime (all configured attributes) up to trigger_time and the triggers list *)
Definition c5_same_static (a b : dt) : bool :=
  (d_id a =? d_id b) && Bool.eqb (d_fixed a) (d_fixed b) && (d_start a =? d_start b) && (d_end a =? d_end b)
  && (d_duration a =? d_duration b) && (d_entry a =? d_entry b) && (d_parent a =? d_parent b)
  && Bool.eqb (d_owned a) (d_owned b).

(* became triggered in this step: present afterwards with trigger_time <> 0, before absent or 0 *)
Definition c5_newly (pre post : list dt) : list dt :=
  filter (fun d' => negb (d_trigger d' =? 0) && (c5_trig_of (d_id d') pre =? 0)) post.

(* removed in this step *)
Definition c5_gone (pre post : list dt) : list dt := filter (fun d => negb (c5_has (d_id d) post)) pre.

Record c5_ostep := {
  c5_now : Z;
  c5_paused : bool;              (* the checkable is paused (not authoritative) during the operation *)
  c5_problem : bool;             (* before the operation: has a check result and it is not OK/Up *)
  c5_checked : bool;             (* before the operation: has a check result at all *)
  c5_accepted : bool;            (* for a result: it was processed (not dropped as stale) *)
  c5_op : op;
  c5_pre : list dt;              (* the downtimes before ... *)
  c5_post : list dt;             (* ... and after the operation *)
  c5_outs : list out;            (* events of the operation *)
  c5_depth : option Z            (* downtime_depth, when the operation reads it *)
}.

(* ---- per-step checks ------------------------------------------------------------------------------ *)

(* trigger_time once set never changes; configured attributes never change; nothing appears from nowhere *)
Definition c5_chk_mono (s : c5_ostep) : bool :=
  forallb (fun d' =>
             match find_dt (d_id d') (c5_pre s) with
             | Some d => c5_same_static d d' && ((d_trigger d =? 0) || (d_trigger d' =? d_trigger d))
             | None => match c5_op s with
                       | OpDtAdd id _ _ _ _ _ _ _ => d_id d' =? id
                       | _ => false
                       end
             end) (c5_post s).

(* a downtime only becomes triggered inside its window (hence not after it expired untriggered) *)
Definition c5_chk_nolate (s : c5_ostep) : bool :=
  forallb (c5_inwin (c5_now s)) (c5_newly (c5_pre s) (c5_post s)).

(* only dt_remove / the clean-up timer remove downtimes; OnDowntimeRemoved exactly for what disappeared *)
Definition c5_chk_removed (s : c5_ostep) : bool :=
  let gone := c5_gone (c5_pre s) (c5_post s) in
  let rem := c5_rem_ids (c5_outs s) in
  forallb (fun d => c5_mem (d_id d) rem) gone
  && forallb (fun i => c5_mem i (map d_id gone)) rem
  && (Z.of_nat (length rem) =? Z.of_nat (length gone))
  && match c5_op s with
     | OpDtRemove _ _ _ | OpDtCleanup _ => true
     | _ => match gone with [] => true | _ => false end
     end.

(* one DowntimeEnd per removed downtime that had taken effect, none for one that never triggered *)
Definition c5_chk_end (s : c5_ostep) : bool :=
  c5_cnt c5_is_end (c5_outs s) =?
  (if c5_paused s then 0
   else Z.of_nat (length (filter (dt_is_triggered (c5_now s)) (c5_gone (c5_pre s) (c5_post s))))).

(* downtimes owned by a schedule survive every removal "by user" *)
Definition c5_chk_owned (s : c5_ostep) : bool :=
  match c5_op s with
  | OpDtRemove id _ RByUser =>
      forallb (fun d => negb (d_owned d) || c5_has (d_id d) (c5_post s)) (c5_pre s)
      && match find_dt id (c5_pre s) with
         | Some d => if d_owned d
                     then (0 <? c5_cnt c5_is_ref4 (c5_outs s))
                          && match c5_gone (c5_pre s) (c5_post s) with [] => true | _ => false end
                     else true
         | None => true
         end
  | _ => true
  end.

(* the clean-up timer removes the downtime iff it is expired *)
Definition c5_chk_cleanup (s : c5_ostep) : bool :=
  match c5_op s with
  | OpDtCleanup id =>
      match find_dt id (c5_pre s) with
      | Some d => if dt_is_expired (c5_now s) d then negb (c5_has id (c5_post s))
                  else match c5_gone (c5_pre s) (c5_post s) with [] => true | _ => false end
      | None => true
      end
  | _ => true
  end.

(* a non-OK result triggers every not yet triggered downtime that is inside its window, with the
   result's execution_end; an OK result (or a dropped one) triggers nothing *)
Definition c5_chk_result (k : kind) (s : c5_ostep) : bool :=
  match c5_op s with
  | OpResult r =>
      if c5_accepted s && negb (is_ok k (r_state r)) then
        forallb (fun d => negb ((d_trigger d =? 0) && c5_inwin (c5_now s) d)
                          || (c5_trig_of (d_id d) (c5_post s) =? r_end r)) (c5_pre s)
      else match c5_newly (c5_pre s) (c5_post s) with [] => true | _ => false end
  | _ => true
  end.

(* adding a flexible downtime: triggered at once iff the object already has a problem and the
   window is open; adding a fixed one: triggered at once iff the window is open *)
Definition c5_chk_add (s : c5_ostep) : bool :=
  match c5_op s with
  | OpDtAdd id fixed start end_ dur _ _ _ =>
      let t := c5_trig_of id (c5_post s) in
      let inw := (start <=? c5_now s) && (c5_now s <=? end_) in
      c5_has id (c5_post s) && negb (c5_has id (c5_pre s)) &&
      (if fixed then (if inw then t =? c5_now s else t =? 0)
       else (if inw && c5_problem s then t =? c5_now s else t =? 0))
  | _ => true
  end.

(* one DowntimeStart request per downtime that becomes triggered *)
Definition c5_chk_start (s : c5_ostep) : bool :=
  c5_cnt c5_is_start (c5_outs s) =?
  (if c5_paused s then 0 else Z.of_nat (length (c5_newly (c5_pre s) (c5_post s)))).

(* OnDowntimeTriggered for everything that became triggered *)
Definition c5_chk_trigev (s : c5_ostep) : bool :=
  forallb (fun d => c5_mem (d_id d) (c5_trig_ids (c5_outs s))) (c5_newly (c5_pre s) (c5_post s)).

(* chained triggers, every level: whatever became triggered in this step has triggered each downtime chained to it
   that was untriggered and inside its own window - and that one, being newly triggered itself, its own chained
   downtimes, and so on.  Outside the start timer all of them carry the same trigger time (one TriggerDowntime(t) call
   per root; C05_chain proves the same-instant part for every single call, also inside the start timer, where the
   roots have different instants).  dt_add only triggers the new downtime, to which nothing is chained yet. *)
Definition c5_chk_chain (s : c5_ostep) : bool :=
  match c5_op s with
  | OpDtAdd _ _ _ _ _ _ _ _ => true
  | _ =>
    forallb (fun d' =>
               match find_dt (d_id d') (c5_pre s) with
               | Some x =>
                   forallb (fun cid =>
                              match find_dt cid (c5_pre s) with
                              | Some c =>
                                  if (d_trigger c =? 0) && c5_inwin (c5_now s) c then
                                    negb (c5_trig_of cid (c5_post s) =? 0)
                                    && match c5_op s with
                                       | OpDtStartTimer => true
                                       | _ => c5_trig_of cid (c5_post s) =? d_trigger d'
                                       end
                                  else true
                              | None => true
                              end) (d_triggers x)
               | None => true
               end)
            (c5_newly (c5_pre s) (c5_post s))
  end.

(* downtime_depth = number of downtimes in effect *)
Definition c5_chk_depth (s : c5_ostep) : bool :=
  match c5_depth s with
  | Some n => n =? Z.of_nat (length (filter (dt_in_effect (c5_now s)) (c5_post s)))
  | None => true
  end.

(* the step's checks, numbered for the report; all failing ones *)
Definition c5_step_fails (k : kind) (s : c5_ostep) : list Z :=
  (if c5_chk_mono s then [] else [1]) ++ (if c5_chk_nolate s then [] else [2])
  ++ (if c5_chk_removed s then [] else [3]) ++ (if c5_chk_end s then [] else [4])
  ++ (if c5_chk_owned s then [] else [5]) ++ (if c5_chk_cleanup s then [] else [6])
  ++ (if c5_chk_result k s then [] else [7]) ++ (if c5_chk_add s then [] else [8])
  ++ (if c5_chk_start s then [] else [9]) ++ (if c5_chk_trigev s then [] else [10])
  ++ (if c5_chk_depth s then [] else [11]) ++ (if c5_chk_chain s then [] else [12]).

(* ---- which operation sequences the statement quantifies over (checked by the oracle itself) ---- *)

(* the clock does not run backwards, is positive; results are not stamped in the future;
   a new downtime gets a fresh name and a chain parent that exists *)
Definition c5_in_scope (o : op) : bool :=
  match o with
  | OpResult _ | OpDtAdd _ _ _ _ _ _ _ _ | OpDtRemove _ _ _ | OpDtStartTimer | OpDtCleanup _ | OpPause _ | OpAckRead => true
  | _ => false
  end.

Definition c5_wf_step (prev_now : Z) (s : c5_ostep) : bool :=
  (prev_now <=? c5_now s) && (0 <? c5_now s) && c5_in_scope (c5_op s) &&
  match c5_op s with
  | OpResult r => (0 <? r_end r) && (r_end r <=? c5_now s)
  | OpDtAdd id _ _ _ _ trig_by _ _ => negb (c5_has id (c5_pre s)) && (negb (id =? 0) && negb (trig_by =? id))
  | _ => true
  end.

(* ---- the recorded findings' signatures (see known_findings.d/C05.json) --------------------------- *)

(* (pending-flexible - a flexible downtime added to a never-checked object triggered at once - was fixed in
   /repo 7c445bb; Downtime::Start now tests Checkable::GetProblem(), and so does do_dt_add) *)

(* lost-start: a fixed downtime that is not yet triggered is inside its window when something other than
   its own start (Downtime::Start / the start timer) triggers it: a non-OK result, or the chain of
   another downtime *)
Definition c5_chained_fixed (ds : list dt) : bool :=
  existsb (fun p => existsb (fun cid => match find_dt cid ds with Some c => d_fixed c | None => false end)
                            (d_triggers p)) ds.
Definition c5_sig_loststart (k : kind) (s : c5_ostep) : bool :=
  match c5_op s with
  | OpResult r =>
      c5_chained_fixed (c5_pre s) ||
      (negb (is_ok k (r_state r))
       && existsb (fun d => d_fixed d && (d_trigger d =? 0) && c5_inwin (c5_now s) d) (c5_pre s))
  | OpDtStartTimer => c5_chained_fixed (c5_pre s)
  | _ => false
  end.

(* ... and what the miscount of that finding looks like, so that any other DowntimeStart miscount is reported:
   DowntimeStart requests are MISSING, exactly one per fixed downtime that became triggered by a non-OK result,
   at most one per fixed chained downtime that became triggered in a start-timer run *)
Definition c5_chained_in (id : Z) (ds : list dt) : bool := existsb (fun p => c5_mem id (d_triggers p)) ds.
Definition c5_loststart_shape (s : c5_ostep) : bool :=
  let newly := c5_newly (c5_pre s) (c5_post s) in
  let n := Z.of_nat (length newly) in
  let cnt := c5_cnt c5_is_start (c5_outs s) in
  negb (c5_paused s) &&
  match c5_op s with
  | OpResult _ =>
      let lost := Z.of_nat (length (filter d_fixed newly)) in (0 <? lost) && (n - cnt =? lost)
  | OpDtStartTimer =>
      let lost := Z.of_nat (length (filter (fun d' => d_fixed d' && c5_chained_in (d_id d') (c5_pre s)) newly)) in
      (cnt <? n) && (n - cnt <=? lost)
  | _ => false
  end.

(* (start-at-end-instant - CanBeTriggered was true at exactly now = end_time of an already triggered fixed
   downtime, which was announced again - was fixed in /repo 51cd8e9) *)

Definition c5_sig_any (k : kind) (s : c5_ostep) : bool :=
  c5_sig_loststart k s.

(* ---- the observation record of one step of the MODEL ---- *)
Definition c5_mk (c : fcfg) (now : Z) (f : full) (o : op) : c5_ostep :=
  let r := full_step c now f o in
  {| c5_now := now; c5_paused := f_paused f;
     c5_problem := s_has_cr (f_st f) && negb (is_ok (c_kind (fc_base c)) (s_raw (f_st f)));
     c5_checked := s_has_cr (f_st f);
     c5_accepted := match o with OpResult cr => negb (rejected now (f_st f) cr) | _ => true end;
     c5_op := o; c5_pre := f_dts f; c5_post := f_dts (fst r); c5_outs := snd r;
     c5_depth := match o with OpAckRead => Some (downtime_depth now (fst r)) | _ => None end |}.

(* the trace of a run of the model over timed operations *)
Fixpoint c5_model_trace (c : fcfg) (f : full) (h : list (Z * op)) : list c5_ostep :=
  match h with
  | [] => []
  | (now, o) :: rest => c5_mk c now f o :: c5_model_trace c (fst (full_step c now f o)) rest
  end.

(* which recorded finding explains a failing check (0 = none): 2 lost-start
   (1 was pending-flexible, 3 was start-at-end-instant; both fixed) *)
Definition c5_explained (k : kind) (s : c5_ostep) (n : Z) : Z :=
  if (n =? 9) && c5_sig_loststart k s && c5_loststart_shape s then 2
  else 0.

(* ---- the oracle: every failing (step index, check number, explaining finding); [] = the trace
   satisfies C05.  A step outside the quantifier (c5_wf_step false) ends the evaluation of that trace. *)
Fixpoint c5_oracle_from (k : kind) (prev_now : Z) (idx : Z) (t : list c5_ostep) : list (Z * Z * Z) :=
  match t with
  | [] => []
  | s :: rest =>
      if negb (c5_wf_step prev_now s) then []
      else map (fun n => (idx, n, c5_explained k s n)) (c5_step_fails k s)
           ++ c5_oracle_from k (c5_now s) (idx + 1) rest
  end.

Definition c5_oracle (k : kind) (t : list c5_ostep) : list (Z * Z * Z) := c5_oracle_from k 0 0 t.
