(* C05 - the clean-up timer layer on top of Ck/CkFull.v (definitions only).
   Transcribes Downtime::SetupCleanupTimer / Pause / Resume (lib/icinga/downtime.cpp:170-183, 463-483),
   ConfigObject::SetAuthority, and what Timer::TimerThreadProc does with a one-shot timer:
     - SetupCleanupTimer: (create,) Reschedule((fixed || trigger_time <= 0 ? end_time : trigger_time + duration) + 0.1), Start
       called by Resume() and by TriggerDowntime() once it is past the CanBeTriggered gate (exactly when
       OnDowntimeTriggered is emitted, which is how this layer learns about it);
     - Pause: Stop the timer;  SetAuthority(a): Resume() only if paused, Pause() only if not paused;
     - the timer thread fires a started timer whose due time has passed: with whole-second virtual times,
       due + 0.1 <= now  <->  due < now.
   The per-downtime timer state is kept next to [full] (CkFull.v and [full_step] are unchanged); the operations of the
   combined fixture go through [c5_tstep], in which the clean-up handler runs only if the timer is armed and due. *)
From Icv Require Import Base.Tac Ck.CkState Ck.CkFull Ck.CkDtDefs.
Local Open Scope Z_scope.

Record c5_tm := { tm_id : Z; tm_armed : bool; tm_paused : bool; tm_due : Z }.

(* the instant SetupCleanupTimer schedules (without the 0.1 s) *)
Definition c5_expiry (d : dt) : Z :=
  if d_fixed d || (d_trigger d <=? 0) then d_end d else d_trigger d + d_duration d.

Definition c5_tm_find (id : Z) (tms : list c5_tm) : option c5_tm := find (fun t => tm_id t =? id) tms.

(* Downtime::SetupCleanupTimer of downtime [id], whose attributes are read from [ds] *)
Definition c5_tm_setup (ds : list dt) (id : Z) (tms : list c5_tm) : list c5_tm :=
  map (fun t => if tm_id t =? id then
                  match find_dt id ds with
                  | Some d => {| tm_id := tm_id t; tm_armed := true; tm_paused := tm_paused t; tm_due := c5_expiry d |}
                  | None => t
                  end
                else t) tms.

(* ConfigObject::SetAuthority(auth) on the Downtime object *)
Definition c5_tm_authority (ds : list dt) (id : Z) (auth : bool) (tms : list c5_tm) : list c5_tm :=
  map (fun t => if tm_id t =? id then
                  if auth then
                    if tm_paused t then
                      (* Resume(): SetupCleanupTimer *)
                      match find_dt id ds with
                      | Some d => {| tm_id := tm_id t; tm_armed := true; tm_paused := false; tm_due := c5_expiry d |}
                      | None => {| tm_id := tm_id t; tm_armed := tm_armed t; tm_paused := false; tm_due := tm_due t |}
                      end
                    else t
                  else
                    if tm_paused t then t
                    else (* Pause(): m_CleanupTimer->Stop() *)
                      {| tm_id := tm_id t; tm_armed := false; tm_paused := true; tm_due := tm_due t |}
                else t) tms.

(* the timer table after an operation of the fixture that ran [full_step]:
   a created object starts paused without a timer; every TriggerDowntime that got past its gate (one
   OnDowntimeTriggered each) set the timer up; the fixture then makes the new object authoritative;
   removed objects take their timer with them *)
Definition c5_tm_after (o : op) (ds' : list dt) (outs : list out) (tms : list c5_tm) : list c5_tm :=
  let tms1 := match o with
              | OpDtAdd id _ _ _ _ _ _ _ => tms ++ [{| tm_id := id; tm_armed := false; tm_paused := true; tm_due := 0 |}]
              | _ => tms
              end in
  let tms2 := fold_left (fun acc i => c5_tm_setup ds' i acc) (c5_trig_ids outs) tms1 in
  let tms3 := match o with
              | OpDtAdd id _ _ _ _ _ _ _ => c5_tm_authority ds' id true tms2
              | _ => tms2
              end in
  filter (fun t => c5_has (tm_id t) ds') tms3.

Definition c5_tm_fires (now : Z) (id : Z) (tms : list c5_tm) : bool :=
  match c5_tm_find id tms with
  | Some t => tm_armed t && (tm_due t <? now)
  | None => false
  end.

(* operations of the fixture: those of CkFull plus pause/resume of a Downtime object (HA failover / failback) *)
Inductive c5_xop := XOp (o : op) | XDtPause (id : Z) (p : bool).

Record c5_tstate := { ts_f : full; ts_tms : list c5_tm }.

Definition c5_tinit : c5_tstate := {| ts_f := init_full; ts_tms := [] |}.

(* does the operation run its CkFull step?  (the clean-up handler only when its timer is armed and due) *)
Definition c5_runs (now : Z) (tms : list c5_tm) (xo : c5_xop) : bool :=
  match xo with
  | XOp (OpDtCleanup id) => c5_tm_fires now id tms
  | XOp _ => true
  | XDtPause _ _ => false
  end.

Definition c5_tstep (c : fcfg) (now : Z) (ts : c5_tstate) (xo : c5_xop) : c5_tstate * list out :=
  match xo with
  | XDtPause id p =>
      ({| ts_f := ts_f ts; ts_tms := c5_tm_authority (f_dts (ts_f ts)) id (negb p) (ts_tms ts) |}, [])
  | XOp o =>
      if c5_runs now (ts_tms ts) xo then
        let '(f', outs) := full_step c now (ts_f ts) o in
        ({| ts_f := f'; ts_tms := c5_tm_after o (f_dts f') outs (ts_tms ts) |}, outs)
      else (ts, [])
  end.

(* ---- observation of one step of this layer, and its executable checks ---------------------------- *)

Record c5_tobs := {
  ct_base : c5_ostep;            (* as in CkDtDefs; for a step that does not run: pre = post, no events *)
  ct_xop : c5_xop;
  ct_tm_pre : list c5_tm;        (* the real timers before ... *)
  ct_tm_post : list c5_tm        (* ... and after the operation *)
}.

(* a step that must not have changed anything about the downtimes *)
Definition c5_chk_noop (s : c5_ostep) : bool :=
  match c5_gone (c5_pre s) (c5_post s), c5_newly (c5_pre s) (c5_post s), c5_outs s with
  | [], [], [] => Z.of_nat (length (c5_post s)) =? Z.of_nat (length (c5_pre s))
  | _, _, _ => false
  end.

(* every downtime has its timer; an armed timer is due at the downtime's expiry; the timer of a downtime object
   that is not paused is armed.  Hence an unpaused downtime is removed (and its DowntimeEnd requested) by the
   first timer pump after its expiry. *)
Definition c5_chk_tm (s : c5_tobs) : bool :=
  forallb (fun d => match c5_tm_find (d_id d) (ct_tm_post s) with
                    | Some t => (negb (tm_armed t) || (tm_due t =? c5_expiry d)) && (tm_paused t || tm_armed t)
                    | None => false
                    end) (c5_post (ct_base s)).

Definition c5_tstep_fails (k : kind) (s : c5_tobs) : list Z :=
  (if c5_runs (c5_now (ct_base s)) (ct_tm_pre s) (ct_xop s) then c5_step_fails k (ct_base s)
   else if c5_chk_noop (ct_base s) then [] else [13])
  ++ (if c5_chk_tm s then [] else [14]).

Definition c5_twf_step (prev_now : Z) (s : c5_tobs) : bool :=
  match ct_xop s with
  | XOp _ => c5_wf_step prev_now (ct_base s)
  | XDtPause _ _ => (prev_now <=? c5_now (ct_base s)) && (0 <? c5_now (ct_base s))
  end.

Definition c5_texplained (k : kind) (s : c5_tobs) (n : Z) : Z :=
  if c5_runs (c5_now (ct_base s)) (ct_tm_pre s) (ct_xop s) then c5_explained k (ct_base s) n else 0.

Fixpoint c5_toracle_from (k : kind) (prev_now : Z) (idx : Z) (t : list c5_tobs) : list (Z * Z * Z) :=
  match t with
  | [] => []
  | s :: rest =>
      if negb (c5_twf_step prev_now s) then []
      else map (fun n => (idx, n, c5_texplained k s n)) (c5_tstep_fails k s)
           ++ c5_toracle_from k (c5_now (ct_base s)) (idx + 1) rest
  end.

Definition c5_toracle (k : kind) (t : list c5_tobs) : list (Z * Z * Z) := c5_toracle_from k 0 0 t.

(* ---- the trace of the model ---- *)
Definition c5_noop_obs (c : fcfg) (now : Z) (f : full) (o : op) : c5_ostep :=
  {| c5_now := now; c5_paused := f_paused f;
     c5_problem := s_has_cr (f_st f) && negb (is_ok (c_kind (fc_base c)) (s_raw (f_st f)));
     c5_checked := s_has_cr (f_st f); c5_accepted := true; c5_op := o;
     c5_pre := f_dts f; c5_post := f_dts f; c5_outs := []; c5_depth := None |}.

Definition c5_tmk (c : fcfg) (now : Z) (ts : c5_tstate) (xo : c5_xop) : c5_tobs :=
  {| ct_base := match xo with
                | XOp o => if c5_runs now (ts_tms ts) xo then c5_mk c now (ts_f ts) o else c5_noop_obs c now (ts_f ts) o
                | XDtPause _ p => c5_noop_obs c now (ts_f ts) (OpPause p)
                end;
     ct_xop := xo; ct_tm_pre := ts_tms ts; ct_tm_post := ts_tms (fst (c5_tstep c now ts xo)) |}.

Fixpoint c5_tmodel_trace (c : fcfg) (ts : c5_tstate) (h : list (Z * c5_xop)) : list c5_tobs :=
  match h with
  | [] => []
  | (now, xo) :: rest => c5_tmk c now ts xo :: c5_tmodel_trace c (fst (c5_tstep c now ts xo)) rest
  end.
