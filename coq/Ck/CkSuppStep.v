(* C02 - exact description of what one check result / one firing of the suppressed-notification timer
   does to the C02 state and which state / flapping notifications it requests (valid in EVERY state). *)
From Icv Require Import Base.Tac Ck.CkState Ck.CkStateProofs Ck.CkFull Ck.CkSuppProofs.
Local Open Scope Z_scope.

(* ------------------------------------------------------------------ view of do_result *)

Record c02_rv := {
  rv_s : st; rv_i : info; rv_f5 : full; rv_indt : bool; rv_acked : bool; rv_nreach : bool;
  rv_o1 : list out; rv_o2 : list out; rv_o3 : list out; rv_o4 : list out }.

(* the prefix of ProcessCheckResult (C01 state machine, acknowledgement clearing, downtime triggering) *)
Definition c02_res_view (c : fcfg) (now : Z) (r : cres) (f : full) : c02_rv :=
  let b := fc_base c in
  let k := c_kind b in
  let nreach := notif_reachable f in
  let '(s', i) := step_accept b (f_st f) r in
  let new_state := r_state r in
  let lsc := if i_state_change i then r_end r else f_lsc f in
  let f0 := set_core f s' lsc (f_sp_problem f) (f_sp_recovery f) (f_sp_fstart f) (f_sp_fend f)
                     (f_sbs f) (f_flap f) (f_next_check f) in
  let '(f1, o1) := ack_on_change k now (i_state_change i) new_state f0 in
  let '(a3, f2, o2) := get_ack now f1 in
  let rm_comments := ackt_eqb a3 AckNone in
  let '(ds3, o3) :=
    if negb (is_ok k new_state) then trigger_all now (f_paused f2) (r_end r) (f_dts f2)
    else (f_dts f2, []) in
  let f3 := set_dts f2 ds3 in
  let in_dt := in_downtime now f3 in
  let '(a4, f4, o4) := get_ack now f3 in
  let f5 := if rm_comments then remove_ack_comments (Some (r_end r)) f4 else f4 in
  {| rv_s := s'; rv_i := i; rv_f5 := f5; rv_indt := in_dt; rv_acked := negb (ackt_eqb a4 AckNone);
     rv_nreach := nreach; rv_o1 := o1; rv_o2 := o2; rv_o3 := o3; rv_o4 := o4 |}.

(* send_notification, lines 309-325 *)
Definition c02_send (b : cfg) (i : info) (s' : st) (new_state : sstate) : bool :=
  let k := c_kind b in
  let ty := s_type s' in
  let vol := c_volatile b in
  let old_state := i_old_raw i in
  let old_type := i_old_type i in
  let send0 :=
    if i_hard_change i && negb (stype_eqb old_type Soft && is_ok k new_state) then true
    else if vol && stype_eqb ty Hard && negb (stype_eqb old_type Soft && is_ok k new_state) then true else false in   (* /repo b9a7cb5 *)
  let send1 := if is_ok k old_state && stype_eqb old_type Soft then false else send0 in
  if vol && is_ok k old_state && is_ok k new_state then false else send1.

(* the send / suppress / stash decision, lines 460-535 *)
Definition c02_flap_dec (was_fl is_fl paused in_dt : bool) : bool * bool * list out :=
  if negb was_fl && is_fl then
    if paused then (false, false, [])
    else if in_dt then (true, false, []) else (false, false, [ONotify NFlapStart])
  else if was_fl && negb is_fl then
    if paused then (false, false, [])
    else if in_dt then (false, true, []) else (false, false, [ONotify NFlapEnd])
  else (false, false, []).

Definition c02_state_dec (send is_fl paused held recovery : bool) : bool * bool * list out :=
  if send && negb is_fl then
    if paused then (false, false, [])
    else if held then (negb recovery, recovery, [])
    else (false, false, [ONotify (if recovery then NRecovery else NProblem)])
  else (false, false, []).

Definition c02_res_tail (c : fcfg) (now : Z) (r : cres) (v : c02_rv) : full * list out :=
  let b := fc_base c in
  let s' := rv_s v in
  let i := rv_i v in
  let f5 := rv_f5 v in
  let in_dt := rv_indt v in
  let new_state := r_state r in
  let old_state := i_old_raw i in
  let old_type := i_old_type i in
  let suppress := negb (rv_nreach v) || in_dt || rv_acked v in
  let send := c02_send b i s' new_state in
  let was_fl := is_flapping c (f_flap f5) in
  let fl' := update_flap c new_state (f_flap f5) in
  let is_fl := is_flapping c fl' in
  let nc := now + fc_check_interval c in
  let paused := f_paused f5 in
  let '(sup_fs, sup_fe, o_fl) := c02_flap_dec was_fl is_fl paused in_dt in
  let pending_bits := f_sp_problem f5 || f_sp_recovery f5 in
  let recovery := i_recovery i in
  let '(sup_p, sup_r, o_st) := c02_state_dec send is_fl paused (suppress || pending_bits) recovery in
  let any_sup := sup_fs || sup_fe || sup_p || sup_r in
  let after_fs0 := f_sp_fstart f5 || sup_fs in
  let after_fe0 := f_sp_fend f5 || sup_fe in
  let conflict := after_fs0 && after_fe0 in
  let after_fs := if conflict then false else after_fs0 in
  let after_fe := if conflict then false else after_fe0 in
  let after_p := f_sp_problem f5 || sup_p in
  let after_r := f_sp_recovery f5 || sup_r in
  let sbs' :=
    if any_sup && negb pending_bits && (sup_p || sup_r)
    then (if stype_eqb old_type Hard then old_state else SOK) else f_sbs f5 in
  let f6 :=
    if any_sup then set_core f5 (f_st f5) (f_lsc f5) after_p after_r after_fs after_fe sbs' fl' nc
    else set_core f5 (f_st f5) (f_lsc f5) (f_sp_problem f5) (f_sp_recovery f5) (f_sp_fstart f5)
                  (f_sp_fend f5) (f_sbs f5) fl' nc in
  (f6, rv_o1 v ++ rv_o2 v ++ rv_o3 v ++ rv_o4 v ++ [ONewResult] ++ [OStateChange (i_event i)] ++ o_fl ++ o_st).

Lemma do_result_view c now r f :
  do_result c now r f =
  if rejected now (f_st f) r then (f, [ORefused 5]) else c02_res_tail c now r (c02_res_view c now r f).
Proof.
  unfold do_result, c02_res_view.
  destruct (rejected now (f_st f) r); [reflexivity|].
  destruct (step_accept (fc_base c) (f_st f) r) as [s' i].
  destruct (ack_on_change _ _ _ _ _) as [f1 o1].
  destruct (get_ack now f1) as [[a3 f2] o2].
  destruct (if negb (is_ok _ _) then _ else _) as [ds3 o3].
  destruct (get_ack now (set_dts f2 ds3)) as [[a4 f4] o4].
  reflexivity.
Qed.

Lemma ack_on_change_same k now sc ns f :
  c02_same f (fst (ack_on_change k now sc ns f)) /\ c02_quiet (snd (ack_on_change k now sc ns f))
  /\ f_dts (fst (ack_on_change k now sc ns f)) = f_dts f.
Proof.
  unfold ack_on_change. destruct sc; [|split; [apply c02_same_refl|split; [c02_q|reflexivity]]].
  pose proof (get_ack_facts now f) as H. destruct (get_ack now f) as [[a fa] oa].
  destruct H as (S1 & Q1 & D1 & _).
  destruct (ackt_eqb a AckNormal).
  - destruct (clear_ack_same fa) as (S2 & Q2 & D2 & _). destruct (clear_ack fa) as [fb ob]. cbn [fst snd] in *.
    split; [eapply c02_same_trans; eassumption|]. split; [c02_q|congruence].
  - pose proof (get_ack_facts now fa) as H. destruct (get_ack now fa) as [[a2 fa2] oa2].
    destruct H as (S2 & Q2 & D2 & _).
    destruct (ackt_eqb a2 AckSticky && is_ok k ns).
    + destruct (clear_ack_same fa2) as (S3 & Q3 & D3 & _). destruct (clear_ack fa2) as [fb ob]. cbn [fst snd] in *.
      split; [eapply c02_same_trans; [eassumption|eapply c02_same_trans; eassumption]|].
      split; [c02_q|congruence].
    + cbn [fst snd]. split; [eapply c02_same_trans; eassumption|]. split; [c02_q|congruence].
Qed.

(* suppression reason evaluated on a state at an instant (acknowledgement with its lazy expiry) *)
Definition c02_reason (now : Z) (f : full) : bool :=
  negb (notif_reachable f) || in_downtime now f || c02_ack_live now f.

(* facts about the view *)
Lemma c02_res_view_facts c now r f :
  let v := c02_res_view c now r f in
  (rv_s v, rv_i v) = step_accept (fc_base c) (f_st f) r /\
  f_st (rv_f5 v) = rv_s v /\
  f_sp_problem (rv_f5 v) = f_sp_problem f /\ f_sp_recovery (rv_f5 v) = f_sp_recovery f /\
  f_sp_fstart (rv_f5 v) = f_sp_fstart f /\ f_sp_fend (rv_f5 v) = f_sp_fend f /\
  f_sbs (rv_f5 v) = f_sbs f /\ f_flap (rv_f5 v) = f_flap f /\ f_paused (rv_f5 v) = f_paused f /\
  notif_reachable (rv_f5 v) = notif_reachable f /\ rv_nreach v = notif_reachable f /\
  rv_indt v = in_downtime now (rv_f5 v) /\
  rv_acked v = c02_ack_live now (rv_f5 v) /\
  c02_quiet (rv_o1 v) /\ c02_quiet (rv_o2 v) /\ c02_quiet (rv_o3 v) /\ c02_quiet (rv_o4 v) /\
  f_parent_checked (rv_f5 v) = f_parent_checked f /\ f_parent_up (rv_f5 v) = f_parent_up f /\
  f_parent_lsc (rv_f5 v) = f_parent_lsc f.
Proof.
  unfold c02_res_view.
  destruct (step_accept (fc_base c) (f_st f) r) as [s' i].
  match goal with |- context [ack_on_change ?k ?n ?sc ?ns ?g] =>
    pose proof (ack_on_change_same k n sc ns g) as H1; destruct (ack_on_change k n sc ns g) as [f1 o1] end.
  cbn [fst snd] in H1. destruct H1 as (S1 & Q1 & D1).
  pose proof (get_ack_facts now f1) as H2. destruct (get_ack now f1) as [[a3 f2] o2].
  destruct H2 as (S2 & Q2 & D2 & _).
  assert (c02_quiet (snd (if negb (is_ok (c_kind (fc_base c)) (r_state r))
            then trigger_all now (f_paused f2) (r_end r) (f_dts f2) else (f_dts f2, [])))) as Q3.
  { destruct (negb _); [apply trigger_all_quiet|c02_q]. }
  destruct (if negb (is_ok _ _) then _ else _) as [ds3 o3]. cbn [snd] in Q3.
  pose proof (get_ack_facts now (set_dts f2 ds3)) as H4. destruct (get_ack now (set_dts f2 ds3)) as [[a4 f4] o4].
  destruct H4 as (S4 & Q4 & D4 & L4 & A4 & L4' & _).
  cbn zeta. cbn [rv_s rv_i rv_f5 rv_indt rv_acked rv_nreach rv_o1 rv_o2 rv_o3 rv_o4].
  assert (c02_same (set_core f s' (if i_state_change i then r_end r else f_lsc f) (f_sp_problem f) (f_sp_recovery f)
                     (f_sp_fstart f) (f_sp_fend f) (f_sbs f) (f_flap f) (f_next_check f)) f4) as S.
  { eapply c02_same_trans; [exact S1|]. eapply c02_same_trans; [exact S2|].
    eapply c02_same_trans; [|exact S4]. repeat split. }
  set (f5 := if ackt_eqb a3 AckNone then remove_ack_comments (Some (r_end r)) f4 else f4).
  assert (c02_same f4 f5 /\ f_dts f5 = f_dts f4 /\ f_ack f5 = f_ack f4 /\ f_ack_expiry f5 = f_ack_expiry f4) as S5.
  { unfold f5. destruct (ackt_eqb a3 AckNone); [apply remove_ack_comments_same|].
    split; [apply c02_same_refl|repeat split]. }
  destruct S5 as (S5 & D5 & A5 & E5).
  pose proof (c02_same_trans _ _ _ S S5) as SS.
  destruct SS as (T1&T2&T3&T4&T5&T6&T7&T8&T9&T10&T11&T12). cbn [set_core f_st f_sp_problem f_sp_recovery
    f_sp_fstart f_sp_fend f_sbs f_flap f_paused f_next_check f_parent_checked f_parent_up f_parent_lsc] in *.
  assert (notif_reachable f5 = notif_reachable f) as NR by (unfold notif_reachable; congruence).
  repeat split; try assumption.
  - unfold in_downtime. rewrite D5, D4. reflexivity.
  - rewrite L4. unfold c02_ack_live in *. rewrite A5, E5. exact (eq_sym L4').
Qed.

(* ------------------------------------------------------------------ what a check result does (every state) *)

Definition c02_hard_state (s : st) : sstate := if stype_eqb (s_type s) Hard then s_raw s else SOK.

Lemma step_accept_old c s r :
  i_old_raw (snd (step_accept c s r)) = s_raw s /\ i_old_type (snd (step_accept c s r)) = s_type s.
Proof.
  unfold step_accept. destruct (if is_ok _ _ then _ else _) as [[ty at_] rc]. split; reflexivity.
Qed.

Definition c02_cancel (a b : bool) : bool * bool := if a && b then (false, false) else (a, b).

Record c02_res_spec (c : fcfg) (now : Z) (r : cres) (f f' : full) (o : list out) : Prop := {
  rs_st : f_st f' = fst (step_accept (fc_base c) (f_st f) r);
  rs_paused : f_paused f' = f_paused f;
  rs_flap : f_flap f' = update_flap c (r_state r) (f_flap f);
  rs_nc : f_next_check f' = now + fc_check_interval c;
  rs_parent : f_parent_checked f' = f_parent_checked f /\ f_parent_up f' = f_parent_up f /\
              f_parent_lsc f' = f_parent_lsc f;
  rs_state_outs :
    let i := snd (step_accept (fc_base c) (f_st f) r) in
    let active := c02_send (fc_base c) i (f_st f') (r_state r) && negb (is_flapping c (f_flap f'))
                  && negb (f_paused f) in
    let held := c02_reason now f' || c02_pending f in
    c02_state_outs o = (if active && negb held then [ONotify (if i_recovery i then NRecovery else NProblem)] else [])
    /\ f_sp_problem f' = (f_sp_problem f || (active && held && negb (i_recovery i)))
    /\ f_sp_recovery f' = (f_sp_recovery f || (active && held && i_recovery i))
    /\ f_sbs f' = (if active && held && negb (c02_pending f) then c02_hard_state (f_st f) else f_sbs f);
  rs_flap_outs :
    let fl0 := is_flapping c (f_flap f) in
    let fl1 := is_flapping c (f_flap f') in
    let indt := in_downtime now f' in
    let ts := negb fl0 && fl1 && negb (f_paused f) in
    let te := fl0 && negb fl1 && negb (f_paused f) in
    c02_flap_outs o = (if ts && negb indt then [ONotify NFlapStart] else if te && negb indt then [ONotify NFlapEnd] else [])
    /\ ((f_sp_fstart f && f_sp_fend f = false) ->
        (f_sp_fstart f', f_sp_fend f') = c02_cancel (f_sp_fstart f || (ts && indt)) (f_sp_fend f || (te && indt)))
}.

Lemma c02_reason_set_core now f s l a b c d e g h :
  c02_reason now (set_core f s l a b c d e g h) = c02_reason now f.
Proof. reflexivity. Qed.

Lemma c02_flap_dec_facts w i p d :
  let '(a, b, o) := c02_flap_dec w i p d in
  c02_state_outs o = [] /\
  a = (negb w && i && negb p && d) /\ b = (w && negb i && negb p && d) /\
  c02_flap_outs o = (if negb w && i && negb p && negb d then [ONotify NFlapStart]
                     else if w && negb i && negb p && negb d then [ONotify NFlapEnd] else []).
Proof. destruct w, i, p, d; cbn; repeat split. Qed.

Lemma c02_state_dec_facts s i p h rc :
  let '(a, b, o) := c02_state_dec s i p h rc in
  c02_flap_outs o = [] /\
  a = (s && negb i && negb p && h && negb rc) /\ b = (s && negb i && negb p && h && rc) /\
  c02_state_outs o = (if s && negb i && negb p && negb h then [ONotify (if rc then NRecovery else NProblem)] else []).
Proof. destruct s, i, p, h, rc; cbn; repeat split. Qed.

Theorem do_result_spec c now r f :
  rejected now (f_st f) r = false ->
  c02_res_spec c now r f (fst (do_result c now r f)) (snd (do_result c now r f)).
Proof.
  intros Hrej. rewrite do_result_view, Hrej.
  pose proof (c02_res_view_facts c now r f) as H. cbv zeta in H.
  set (v := c02_res_view c now r f) in *.
  destruct H as (Hsa & Hst & Hp & Hr & Hfs & Hfe & Hsbs & Hfl & Hpa & Hnr & Hnr' & Hdt & Hack & Q1 & Q2 & Q3 & Q4
                 & P1 & P2 & P3).
  pose proof (step_accept_old (fc_base c) (f_st f) r) as [Hor Hot].
  assert (rv_s v = fst (step_accept (fc_base c) (f_st f) r)) as Hs by (rewrite <- Hsa; reflexivity).
  assert (rv_i v = snd (step_accept (fc_base c) (f_st f) r)) as Hi by (rewrite <- Hsa; reflexivity).
  unfold c02_res_tail.
  set (send := c02_send (fc_base c) (rv_i v) (rv_s v) (r_state r)).
  set (was_fl := is_flapping c (f_flap (rv_f5 v))).
  set (fl' := update_flap c (r_state r) (f_flap (rv_f5 v))).
  set (is_fl := is_flapping c fl').
  set (suppress := negb (rv_nreach v) || rv_indt v || rv_acked v).
  assert (suppress = c02_reason now (rv_f5 v)) as Hsup.
  { unfold suppress, c02_reason. rewrite Hnr', Hnr, Hdt, Hack. reflexivity. }
  assert (c02_pending f = (f_sp_problem (rv_f5 v) || f_sp_recovery (rv_f5 v))) as Hpend
    by (unfold c02_pending; rewrite Hp, Hr; reflexivity).
  assert (c02_hard_state (f_st f) = (if stype_eqb (i_old_type (rv_i v)) Hard then i_old_raw (rv_i v) else SOK)) as Hhs
    by (unfold c02_hard_state; rewrite Hi, Hor, Hot; reflexivity).
  assert (c02_state_outs (rv_o1 v) = [] /\ c02_state_outs (rv_o2 v) = [] /\ c02_state_outs (rv_o3 v) = [] /\
          c02_state_outs (rv_o4 v) = []) as (S1 & S2 & S3 & S4) by (repeat split; apply c02_quiet_state; assumption).
  assert (c02_flap_outs (rv_o1 v) = [] /\ c02_flap_outs (rv_o2 v) = [] /\ c02_flap_outs (rv_o3 v) = [] /\
          c02_flap_outs (rv_o4 v) = []) as (F1 & F2 & F3 & F4) by (repeat split; apply c02_quiet_flap; assumption).
  set (pend := f_sp_problem (rv_f5 v) || f_sp_recovery (rv_f5 v)) in *.
  pose proof (c02_flap_dec_facts was_fl is_fl (f_paused (rv_f5 v)) (rv_indt v)) as FD.
  destruct (c02_flap_dec was_fl is_fl (f_paused (rv_f5 v)) (rv_indt v)) as [[sfs sfe] ofl].
  destruct FD as (FD1 & FD2 & FD3 & FD4).
  pose proof (c02_state_dec_facts send is_fl (f_paused (rv_f5 v)) (suppress || pend) (i_recovery (rv_i v))) as SD.
  destruct (c02_state_dec send is_fl (f_paused (rv_f5 v)) (suppress || pend) (i_recovery (rv_i v))) as [[sp sr] ost].
  destruct SD as (SD1 & SD2 & SD3 & SD4).
  constructor.
  - destruct (sfs || sfe || sp || sr); cbn [fst set_core f_st]; congruence.
  - destruct (sfs || sfe || sp || sr); cbn [fst set_core f_paused]; congruence.
  - destruct (sfs || sfe || sp || sr); cbn [fst set_core f_flap]; unfold fl'; congruence.
  - destruct (sfs || sfe || sp || sr); cbn [fst set_core f_next_check]; reflexivity.
  - destruct (sfs || sfe || sp || sr); cbn [fst set_core f_parent_checked f_parent_up f_parent_lsc]; repeat split; assumption.
  - (* state notifications *)
    cbv zeta. rewrite <- Hi.
    match goal with |- context [c02_reason now (fst ?X)] =>
      assert (c02_reason now (fst X) = suppress /\ f_st (fst X) = rv_s v /\ f_flap (fst X) = fl') as (Hre & Hst' & Hfl') end.
    { destruct (sfs || sfe || sp || sr); cbn [fst]; rewrite c02_reason_set_core; cbn [set_core f_st f_flap]; repeat split; auto. }
    rewrite Hre, Hst', Hfl', Hpend, Hhs, <- Hpa. fold send is_fl.
    cbn [snd]. rewrite !c02_state_outs_app, S1, S2, S3, S4, FD1, SD4. cbn [app c02_state_outs filter c02_sn].
    rewrite <- Hp, <- Hr, <- Hsbs.
    set (active := send && negb is_fl && negb (f_paused (rv_f5 v))).
    assert (sp = (active && (suppress || pend) && negb (i_recovery (rv_i v)))) as Esp by (rewrite SD2; reflexivity).
    assert (sr = (active && (suppress || pend) && i_recovery (rv_i v))) as Esr by (rewrite SD3; reflexivity).
    split; [reflexivity|].
    clearbody active. clear SD2 SD3 SD4 Hre Hst' Hfl'.
    destruct sfs, sfe, active, (suppress || pend), pend, (i_recovery (rv_i v)); subst sp sr;
      cbn [andb orb negb fst set_core f_sp_problem f_sp_recovery f_sbs];
      rewrite ?orb_false_r, ?orb_true_r; repeat split; reflexivity.
  - (* flapping notifications *)
    cbv zeta.
    match goal with |- context [in_downtime now (fst ?X)] =>
      assert (in_downtime now (fst X) = rv_indt v /\ f_flap (fst X) = fl') as (Hre & Hfl') end.
    { destruct (sfs || sfe || sp || sr); cbn [fst]; rewrite Hdt; split; reflexivity. }
    rewrite Hre, Hfl', <- Hpa, <- Hfl, <- Hfs, <- Hfe. fold was_fl is_fl.
    cbn [snd]. rewrite !c02_flap_outs_app, F1, F2, F3, F4, FD4, SD1. cbn [app c02_flap_outs filter c02_fn].
    rewrite app_nil_r.
    split.
    + destruct was_fl, is_fl, (f_paused (rv_f5 v)), (rv_indt v); reflexivity.
    + intros Hx.
      assert (sfs = (negb was_fl && is_fl && negb (f_paused (rv_f5 v)) && rv_indt v)) as E1 by exact FD2.
      assert (sfe = (was_fl && negb is_fl && negb (f_paused (rv_f5 v)) && rv_indt v)) as E2 by exact FD3.
      rewrite <- E1, <- E2. clear FD2 FD3 FD4 E1 E2.
      destruct sfs, sfe, sp, sr, (f_sp_fstart (rv_f5 v)), (f_sp_fend (rv_f5 v));
        cbn [andb orb negb fst set_core f_sp_fstart f_sp_fend c02_cancel] in *; try discriminate; reflexivity.
Qed.
