(* C02 - what the correspondence run observes per operation, and the executable property oracle that is run over
   the IMPLEMENTATION's traces.  No proofs here (see CkSuppOracleProofs.v). *)
From Icv Require Import Base.Tac Ck.CkState Ck.CkStateProofs Ck.CkObs Ck.CkFull Ck.CkSuppProofs Ck.CkSuppStep
  Ck.CkSuppFire Ck.CkSuppThms.
Local Open Scope Z_scope.

Record c02_obs := {
  c2_kind : Z;              (* 1 accepted check result, 2 firing of the suppressed-notification timer, 3 anything else *)
  c2_new : sstate;          (* the result fed (kind 1) *)
  c2_paused : bool;         (* no authority at the step *)
  c2_reason : bool;         (* downtime / acknowledgement / unreachable after the step (= at the decision) *)
  c2_relcond : bool;        (* kind 2: no reason, hard, next check not imminent, no parent recovered recently *)
  c2_flapgo : bool;         (* kind 2: not in downtime, next check not imminent, no parent recovered recently *)
  c2_indt : bool;           (* in a downtime after the step *)
  c2_raw0 : sstate; c2_hard0 : bool; c2_hascr0 : bool; c2_hard1 : bool;
  c2_p0 : bool; c2_r0 : bool; c2_p1 : bool; c2_r1 : bool;
  c2_sbs0 : sstate; c2_sbs1 : sstate;
  c2_fs0 : bool; c2_fe0 : bool; c2_fs1 : bool; c2_fe1 : bool;
  c2_fl0 : bool; c2_fl1 : bool;      (* flapping (with enable_flapping) before / after *)
  c2_sn : list Z;           (* requested Problem (32) / Recovery (64) notifications *)
  c2_fn : list Z            (* requested FlappingStart (128) / FlappingEnd (256) notifications, ascending *)
}.

Definition c02_nums (l : list out) : list Z :=
  flat_map (fun o => match o with ONotify t => [ntype_num t] | _ => [] end) l.

Definition c02_kind_of (now : Z) (f : full) (o : op) : Z :=
  match o with
  | OpResult r => if rejected now (f_st f) r then 3 else 1
  | OpFire => 2
  | _ => 3
  end.

Definition c02_mk_obs (c : fcfg) (now : Z) (kind : Z) (new : sstate) (f f' : full) (sn fn : list Z) : c02_obs :=
  {| c2_kind := kind; c2_new := new; c2_paused := f_paused f; c2_reason := c02_reason now f';
     c2_relcond := c02_release_cond c now f; c2_flapgo := c02_flap_go c now f; c2_indt := in_downtime now f';
     c2_raw0 := s_raw (f_st f); c2_hard0 := stype_eqb (s_type (f_st f)) Hard; c2_hascr0 := s_has_cr (f_st f);
     c2_hard1 := stype_eqb (s_type (f_st f')) Hard;
     c2_p0 := f_sp_problem f; c2_r0 := f_sp_recovery f; c2_p1 := f_sp_problem f'; c2_r1 := f_sp_recovery f';
     c2_sbs0 := f_sbs f; c2_sbs1 := f_sbs f';
     c2_fs0 := f_sp_fstart f; c2_fe0 := f_sp_fend f; c2_fs1 := f_sp_fstart f'; c2_fe1 := f_sp_fend f';
     c2_fl0 := is_flapping c (f_flap f); c2_fl1 := is_flapping c (f_flap f');
     c2_sn := sn; c2_fn := fn |}.

Definition c02_op_new (o : op) : sstate := match o with OpResult r => r_state r | _ => SOK end.

Definition c02_model_obs (c : fcfg) (now : Z) (f : full) (o : op) : c02_obs :=
  let f' := fst (full_step c now f o) in
  let outs := snd (full_step c now f o) in
  c02_mk_obs c now (c02_kind_of now f o) (c02_op_new o) f f'
             (c02_nums (c02_state_outs outs)) (c02_nums (c02_flap_outs outs)).

(* ---- the checks ---- *)

Fixpoint c02_zs_eqb (a b : list Z) : bool :=
  match a, b with
  | [], [] => true
  | x :: a', y :: b' => (x =? y) && c02_zs_eqb a' b'
  | _, _ => false
  end.

Definition c02_pre_st (o : c02_obs) : st :=
  {| s_raw := c2_raw0 o; s_type := if c2_hard0 o then Hard else Soft; s_attempt := 0; s_last_hard_raw := SOK;
     s_hard_states := 0; s_soft_states := 0; s_has_cr := c2_hascr0 o; s_cr_start := 0 |}.

(* a check result under the decision (send, recovery) *)
Definition c02_res_ok (send rec : bool) (o : c02_obs) : bool :=
  let pend0 := c2_p0 o || c2_r0 o in
  let active := send && negb (c2_fl1 o) && negb (c2_paused o) in
  let held := c2_reason o || pend0 in
  c02_zs_eqb (c2_sn o) (if active && negb held then [if rec then 64 else 32] else [])
  && Bool.eqb (c2_p1 o) (c2_p0 o || (active && held && negb rec))
  && Bool.eqb (c2_r1 o) (c2_r0 o || (active && held && rec))
  && (if active && held && negb pend0
      then sstate_eqb (c2_sbs1 o) (if c2_hard0 o then c2_raw0 o else SOK) else true).

(* a timer firing; [differs]: does the state differ from the remembered one *)
Definition c02_fire_ok (k : kind) (differs : bool) (o : c02_obs) : bool :=
  let pend0 := c2_p0 o || c2_r0 o in
  let rel := negb (c2_paused o) && pend0 && c2_relcond o in
  let t := if c2_hascr0 o && is_ok k (c2_raw0 o) then 64 else 32 in
  c02_zs_eqb (c2_sn o) (if rel && differs then [t] else [])
  && Bool.eqb (c2_p1 o) (if rel then false else c2_p0 o)
  && Bool.eqb (c2_r1 o) (if rel then false else c2_r0 o).

Definition c02_check_state (b : cfg) (o : c02_obs) : Z :=
  let k := c_kind b in
  let pend0 := c2_p0 o || c2_r0 o in
  if negb (Z.of_nat (length (c2_sn o)) <=? 1) then 1
  else if negb (c02_zs_eqb (c2_sn o) []) && (c2_paused o || c2_reason o || (c2_kind o =? 3)) then 2
  else if pend0 && negb (sstate_eqb (c2_sbs1 o) (c2_sbs0 o)) then 3
  else if c2_kind o =? 1 then
    let pre := c02_pre_st o in
    if is_ok k (c2_raw0 o) && negb (c2_hard0 o) then 0
    else
      let ep := c02_spec_problem b pre (c2_new o) (if c2_hard1 o then Hard else Soft) in
      let er := c02_spec_recovery b pre (c2_new o) in
      if c02_res_ok (ep || er) er o then 0
      else if c02_vol_soft b pre (c2_new o) && c02_res_ok true true o then 11
      else 10
  else if c2_kind o =? 2 then
    if c02_fire_ok k (negb (api_state k (c2_raw0 o) =? api_state k (c2_sbs0 o))) o then 0
    else if c02_fire_ok k (negb (sstate_eqb (c2_raw0 o) (c2_sbs0 o))) o then 21
    else 22
  else
    if Bool.eqb (c2_p1 o) (c2_p0 o) && Bool.eqb (c2_r1 o) (c2_r0 o) then 0 else 4.

Definition c02_check_flap (o : c02_obs) : Z :=
  if c2_kind o =? 1 then
    let ts := negb (c2_fl0 o) && c2_fl1 o && negb (c2_paused o) in
    let te := c2_fl0 o && negb (c2_fl1 o) && negb (c2_paused o) in
    if negb (c02_zs_eqb (c2_fn o)
               (if ts && negb (c2_indt o) then [128] else if te && negb (c2_indt o) then [256] else [])) then 30
    else if c2_fs0 o && c2_fe0 o then 0
    else
      let '(a, b) := c02_cancel (c2_fs0 o || (ts && c2_indt o)) (c2_fe0 o || (te && c2_indt o)) in
      if Bool.eqb (c2_fs1 o) a && Bool.eqb (c2_fe1 o) b then 0 else 31
  else if c2_kind o =? 2 then
    let go := negb (c2_paused o) && c2_flapgo o in
    if negb (c02_zs_eqb (c2_fn o)
               ((if c2_fs0 o && c2_fl0 o && go then [128] else []) ++
                (if c2_fe0 o && negb (c2_fl0 o) && go then [256] else []))) then 32
    else if Bool.eqb (c2_fs1 o) (if c2_paused o then c2_fs0 o else c2_fs0 o && c2_fl0 o && negb (c2_flapgo o))
            && Bool.eqb (c2_fe1 o) (if c2_paused o then c2_fe0 o else c2_fe0 o && negb (c2_fl0 o) && negb (c2_flapgo o))
    then 0 else 33
  else
    if c02_zs_eqb (c2_fn o) [] && Bool.eqb (c2_fs1 o) (c2_fs0 o) && Bool.eqb (c2_fe1 o) (c2_fe0 o) then 0 else 34.

Definition c02_check (b : cfg) (o : c02_obs) : Z :=
  let s := c02_check_state b o in if s =? 0 then c02_check_flap o else s.

(* first step (index from 0) whose code satisfies [p], with that code *)
Fixpoint c02_first (p : Z -> bool) (b : cfg) (idx : Z) (l : list c02_obs) : option (Z * Z) :=
  match l with
  | [] => None
  | o :: t => let code := c02_check b o in
              if p code then Some (idx, code) else c02_first p b (idx + 1) t
  end.

(* the first failing step.  Codes 11 (Recovery requested from a soft state of a volatile object) and 21 (released by a raw-state
   comparison although the API state is the remembered one) are the shapes of the two defects fixed by /repo b9a7cb5 and 5e50b7a;
   they are ordinary failures now and only kept apart from 10 / 22 to name a regression precisely. *)
Definition oracle_c02 (b : cfg) (l : list c02_obs) : option (Z * Z) :=
  c02_first (fun code => negb (code =? 0)) b 0 l.
