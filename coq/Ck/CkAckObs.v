(* C06: what the correspondence run observes of the acknowledgement layer after every operation, and the
   statement of C06 as an executable check over an observed trace.  The check is run over the
   IMPLEMENTATION's traces; CkAckOracleProofs.v proves that it accepts every trace of the model.
   Definitions only. *)
From Icv Require Import Base.Tac Ck.CkState Ck.CkFull Ck.CkAck.
Local Open Scope Z_scope.

Definition cka_cm := (Z * bool * Z)%type.          (* entry time, persistent, expire time *)
Definition cka_cm_entry (c : cka_cm) : Z := fst (fst c).
Definition cka_cm_pers (c : cka_cm) : bool := snd (fst c).
Definition cka_cm_expire (c : cka_cm) : Z := snd c.

Record cka_obs := {
  ko_st : Z;              (* API state after the operation *)
  ko_ack : Z;             (* raw "acknowledgement" attribute *)
  ko_exp : Z;             (* "acknowledgement_expiry" *)
  ko_cms : list cka_cm;   (* Comment objects of entry type acknowledgement, any order *)
  ko_nset : Z;            (* OnAcknowledgementSet signals during the operation *)
  ko_settype : Z;         (* type carried by the (first) set signal, 0 if none *)
  ko_nclr : Z;            (* OnAcknowledgementCleared signals *)
  ko_nnack : Z;           (* OnNotificationsRequested(Acknowledgement) *)
  ko_nprob : Z;           (* OnNotificationsRequested(Problem) *)
  ko_ref : Z;             (* 0 = not refused, 1 = entry point refused, 4, 5 = stale result rejected *)
  ko_read : Z;            (* ackread only: value returned by GetAcknowledgement() *)
  ko_handled : bool;      (* ackread only: GetHandled() *)
  ko_depth : Z            (* ackread only: GetDowntimeDepth() *)
}.

(* what the check remembers from the previous observation *)
Record cka_os := {
  ks_st : Z; ks_hascr : bool; ks_ack : Z; ks_exp : Z; ks_cms : list cka_cm; ks_paused : bool
}.

Definition cka_os_init (k : kind) : cka_os :=
  {| ks_st := cka_api_state k SUnknown; ks_hascr := false; ks_ack := 0; ks_exp := 0; ks_cms := [];
     ks_paused := false |}.

Definition cka_cm_eqb (a b : cka_cm) : bool :=
  (cka_cm_entry a =? cka_cm_entry b) && Bool.eqb (cka_cm_pers a) (cka_cm_pers b) && (cka_cm_expire a =? cka_cm_expire b).

Definition cka_cm_count (x : cka_cm) (l : list cka_cm) : Z := Z.of_nat (length (filter (cka_cm_eqb x) l)).

(* equality as multisets: the order in which Comment objects are listed is not part of the property *)
Definition cka_cms_eqb (l1 l2 : list cka_cm) : bool :=
  forallb (fun x => cka_cm_count x l1 =? cka_cm_count x l2) (l1 ++ l2).

Definition cka_o_expired (now : Z) (s : cka_os) : bool :=
  negb (ks_ack s =? 0) && negb (ks_exp s =? 0) && (ks_exp s <? now).

(* nothing of the acknowledgement layer moved *)
Definition cka_frame (s : cka_os) (b : cka_obs) : bool :=
  (ko_ack b =? ks_ack s) && (ko_exp b =? ks_exp s) && cka_cms_eqb (ko_cms b) (ks_cms s)
  && (ko_nclr b =? 0) && (ko_nset b =? 0) && (ko_nnack b =? 0).

(* the only thing that happened is the lazy expiry *)
Definition cka_only_expiry (now : Z) (s : cka_os) (b : cka_obs) : bool :=
  cka_o_expired now s && (ko_ack b =? 0) && (ko_exp b =? 0) && cka_cms_eqb (ko_cms b) (ks_cms s)
  && (ko_nclr b =? 1) && (ko_nset b =? 0) && (ko_nnack b =? 0).

Definition cka_b2z (b : bool) : Z := if b then 1 else 0.

(* first failing conjunct of a list of (code, holds) pairs; 0 = all hold *)
Fixpoint cka_first (l : list (Z * bool)) : Z :=
  match l with
  | [] => 0
  | (code, ok) :: t => if ok then cka_first t else code
  end.

(* ---- failure codes (texts in ocaml/ops_cka.ml) ----
   10 rejected result moved the acknowledgement layer
   20 acknowledgement attribute after a result
   21 expired acknowledgement survived a result      22 cleared by a result that did not change the state
   23 normal acknowledgement survived a state change 24 sticky acknowledgement cleared by a change to a problem state
   25 sticky acknowledgement survived the recovery   26 expiry attribute wrong after a result
   27 cleared-event count wrong after a result       28 set/acknowledgement-notification event during a result
   29 acknowledgement comments after a result        30 Problem notification requested while acknowledged
   40 refused acknowledgement changed something      41 acknowledgement of an OK/Up object accepted
   42 acknowledgement with expiry in the past accepted  43 double acknowledgement accepted
   44 accepted acknowledgement: type                 45 accepted acknowledgement: expiry attribute
   46 set-event count                                47 Acknowledgement notification count (exactly one iff notify)
   48 cleared-event count                            49 acknowledgement comment not created as requested
   50 acknowledgement wrongly refused
   60 remove-acknowledgement: still set              61 cleared-event count   62 comments   63 other events
   70 read: value                                    71 read: expiry not applied / applied early   72 handled
   73 read: other effects
   80 comment timer                                  90 operation outside the acknowledgement layer moved it *)

Definition cka_chk_result (now : Z) (r_end : Z) (s : cka_os) (b : cka_obs) : Z :=
  if ko_ref b =? 5 then (if cka_frame s b then 0 else 10)
  else
    let sc := negb (ko_st b =? ks_st s) in
    let ok_new := ko_st b =? 0 in
    let expd := cka_o_expired now s in
    let a := ks_ack s in
    let clears := expd || (sc && ((a =? 1) || ((a =? 2) && ok_new))) in
    let a_exp := if clears then 0 else a in
    let cms_exp :=
      if a_exp =? 0 then filter (fun c => cka_cm_pers c || (r_end <? cka_cm_entry c)) (ks_cms s) else ks_cms s in
    cka_first [
      (21, negb (expd && negb (ko_ack b =? 0)));
      (22, negb (negb expd && negb sc && negb (a =? 0) && (ko_ack b =? 0)));
      (23, negb (sc && (a =? 1) && negb (ko_ack b =? 0)));
      (24, negb (negb expd && sc && (a =? 2) && negb ok_new && (ko_ack b =? 0)));
      (25, negb (sc && (a =? 2) && ok_new && negb (ko_ack b =? 0)));
      (20, ko_ack b =? a_exp);
      (26, ko_exp b =? (if a_exp =? 0 then 0 else ks_exp s));
      (27, ko_nclr b =? cka_b2z (negb (a =? 0) && (a_exp =? 0)));
      (28, (ko_nset b =? 0) && (ko_nnack b =? 0));
      (29, cka_cms_eqb (ko_cms b) cms_exp);
      (30, (a_exp =? 0) || (ko_nprob b =? 0))
    ].

Definition cka_expiry_bad (now : Z) (v : via) (eg : bool) (expiry : Z) : bool :=
  match v with
  | ViaApi => eg && (expiry <=? now)
  | ViaExt => false
  | ViaExtExpire => negb (expiry =? 0) && (expiry <=? now)
  end.

Definition cka_expiry_eff (v : via) (eg : bool) (expiry : Z) : Z :=
  match v with ViaApi => if eg then expiry else 0 | ViaExt => 0 | ViaExtExpire => expiry end.

(* API action / external command *)
Definition cka_chk_ack (now : Z) (v : via) (sticky notify pers eg : bool) (expiry : Z) (s : cka_os) (b : cka_obs) : Z :=
  let ebad := cka_expiry_bad now v eg expiry in
  let e' := cka_expiry_eff v eg expiry in
  let entry_ok := ks_st s =? 0 in
  let expd := cka_o_expired now s in
  let ty := if sticky then 2 else 1 in
  let accepted := negb (ko_nset b =? 0) || (negb (ko_ack b =? 0) && negb (ko_ack b =? ks_ack s)) in
  if entry_ok || ebad then
    (* must be refused before the acknowledgement is even read *)
    cka_first [ (41, negb (entry_ok && accepted)); (42, negb (ebad && accepted));
                (40, cka_frame s b); (40, ko_ref b =? 1) ]
  else if negb (ks_ack s =? 0) && negb expd then
    cka_first [ (43, negb accepted); (40, cka_frame s b); (40, ko_ref b =? 1) ]
  else
    cka_first [
      (50, ko_ref b =? 0);
      (44, ko_ack b =? ty); (45, ko_exp b =? e');
      (46, (ko_nset b =? 1) && (ko_settype b =? ty));
      (47, ko_nnack b =? cka_b2z (notify && negb (ks_paused s)));
      (48, ko_nclr b =? cka_b2z expd);
      (49, cka_cms_eqb (ko_cms b) (ks_cms s ++ [(now, pers, e')]))
    ].

(* cluster event.  Returns (code, signature of finding F-C06-a met). *)
Definition cka_chk_cluster_set (now : Z) (sticky notify : bool) (expiry : Z) (s : cka_os) (b : cka_obs) : Z * bool :=
  let entry_ok := ks_st s =? 0 in
  let expd := cka_o_expired now s in
  let ty := if sticky then 2 else 1 in
  if negb (ks_ack s =? 0) && negb expd then
    (cka_first [ (43, (ko_nset b =? 0) && (ko_ack b =? ks_ack s)); (40, cka_frame s b) ], false)
  else if entry_ok && (ko_nset b =? 0) && (ko_nnack b =? 0) && (ko_ack b =? (if expd then 0 else ks_ack s)) then
    (* an OK/Up object and the message was discarded: what the property demands *)
    (cka_first [ (40, cka_frame s b || cka_only_expiry now s b) ], false)
  else
    (cka_first [
      (44, ko_ack b =? ty); (45, ko_exp b =? expiry);
      (46, (ko_nset b =? 1) && (ko_settype b =? ty));
      (47, ko_nnack b =? cka_b2z (notify && negb (ks_paused s)));
      (48, ko_nclr b =? cka_b2z expd);
      (49, cka_cms_eqb (ko_cms b) (ks_cms s))
     ], entry_ok).

Definition cka_chk_unack (cluster : bool) (s : cka_os) (b : cka_obs) : Z :=
  cka_first [
    (60, (ko_ack b =? 0) && (ko_exp b =? 0));
    (61, ko_nclr b =? cka_b2z (negb (ks_ack s =? 0)));
    (62, cka_cms_eqb (ko_cms b) (if cluster then ks_cms s else filter cka_cm_pers (ks_cms s)));
    (63, (ko_nset b =? 0) && (ko_nnack b =? 0))
  ].

Definition cka_chk_read (now : Z) (s : cka_os) (b : cka_obs) : Z :=
  let expd := cka_o_expired now s in
  let a := if expd then 0 else ks_ack s in
  let problem := ks_hascr s && negb (ks_st s =? 0) in
  cka_first [
    (70, ko_read b =? a);
    (71, (ko_ack b =? a) && (ko_exp b =? (if expd then 0 else ks_exp s)) && (ko_nclr b =? cka_b2z expd));
    (72, Bool.eqb (ko_handled b) (problem && ((0 <? ko_depth b) || negb (a =? 0))));
    (73, (ko_nset b =? 0) && (ko_nnack b =? 0) && cka_cms_eqb (ko_cms b) (ks_cms s))
  ].

Definition cka_chk_cmtimer (now : Z) (s : cka_os) (b : cka_obs) : Z :=
  cka_first [
    (80, (ko_ack b =? ks_ack s) && (ko_exp b =? ks_exp s) && (ko_nclr b =? 0) && (ko_nset b =? 0) && (ko_nnack b =? 0));
    (80, cka_cms_eqb (ko_cms b)
           (filter (fun c => negb (negb (cka_cm_expire c =? 0) && (cka_cm_expire c <? now)) || cka_cm_pers c) (ks_cms s)))
  ].

(* operations that may at most perform the lazy expiry (the suppressed-notification timer reads the
   acknowledgement under conditions that belong to C02) *)
Definition cka_chk_other (now : Z) (may_read : bool) (s : cka_os) (b : cka_obs) : Z :=
  cka_first [
    (90, cka_frame s b || (may_read && cka_only_expiry now s b));
    (30, (ko_ack b =? 0) || (ko_nprob b =? 0))
  ].

Definition cka_check (now : Z) (o : cka_op) (s : cka_os) (b : cka_obs) : Z * bool :=
  match o with
  | CkaBase (OpResult r) => (cka_chk_result now (r_end r) s b, false)
  | CkaBase (OpAck v sticky notify pers eg expiry) => (cka_chk_ack now v sticky notify pers eg expiry s b, false)
  | CkaClusterSet sticky notify expiry => cka_chk_cluster_set now sticky notify expiry s b
  | CkaBase OpUnack => (cka_chk_unack false s b, false)
  | CkaClusterClear => (cka_chk_unack true s b, false)
  | CkaBase OpAckRead => (cka_chk_read now s b, false)
  | CkaBase OpCommentTimer => (cka_chk_cmtimer now s b, false)
  | CkaBase OpFire => (cka_chk_other now true s b, false)
  | CkaBase _ => (cka_chk_other now false s b, false)
  end.

Definition cka_os_next (o : cka_op) (s : cka_os) (b : cka_obs) : cka_os :=
  {| ks_st := ko_st b;
     ks_hascr := ks_hascr s || match o with CkaBase (OpResult _) => negb (ko_ref b =? 5) | _ => false end;
     ks_ack := ko_ack b; ks_exp := ko_exp b; ks_cms := ko_cms b;
     ks_paused := match o with CkaBase (OpPause p) => p | _ => ks_paused s end |}.

(* -> (finding F-C06-a seen, first other failure as (step index, code)) *)
Fixpoint cka_oracle_from (s : cka_os) (known : bool) (idx : Z) (t : list (Z * cka_op * cka_obs))
  : bool * option (Z * Z) :=
  match t with
  | [] => (known, None)
  | (now, o, b) :: rest =>
      let '(code, kn) := cka_check now o s b in
      if code =? 0 then cka_oracle_from (cka_os_next o s b) (known || kn) (idx + 1) rest
      else (known, Some (idx, code))
  end.

Definition cka_oracle (k : kind) (t : list (Z * cka_op * cka_obs)) : bool * option (Z * Z) :=
  cka_oracle_from (cka_os_init k) false 0 t.

(* ---- the observation the model makes ---- *)

Definition cka_cm_of (c : comment) : cka_cm := (cm_entry c, cm_persistent c, cm_expire c).

Definition cka_ref_code (o : list out) : Z :=
  match find (fun x => match x with ORefused _ => true | _ => false end) o with
  | Some (ORefused n) => if n <=? 3 then 1 else n
  | _ => 0
  end.

Definition cka_settype_of (o : list out) : Z :=
  match find cka_is_set o with Some (OAckSet a) => ackt_num a | _ => 0 end.

Definition cka_observe (c : fcfg) (now : Z) (pre post : full) (o : list out) : cka_obs :=
  {| ko_st := cka_api_state (c_kind (fc_base c)) (s_raw (f_st post));
     ko_ack := ackt_num (f_ack post); ko_exp := f_ack_expiry post;
     ko_cms := map cka_cm_of (f_comments post);
     ko_nset := cka_count cka_is_set o; ko_settype := cka_settype_of o;
     ko_nclr := cka_count cka_is_clr o; ko_nnack := cka_count cka_is_nack o; ko_nprob := cka_count cka_is_nprob o;
     ko_ref := cka_ref_code o;
     ko_read := ackt_num (cka_eff_ack now pre);
     ko_handled := get_handled c now pre;
     ko_depth := downtime_depth now pre |}.

Fixpoint cka_model_trace (c : fcfg) (f : full) (h : list (Z * cka_op)) : list (Z * cka_op * cka_obs) :=
  match h with
  | [] => []
  | (now, o) :: t =>
      let '(f', outs) := cka_step c now f o in
      (now, o, cka_observe c now f f' outs) :: cka_model_trace c f' t
  end.
