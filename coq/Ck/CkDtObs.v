(* C05 - the model's per-step observation records satisfy the (proved part of the) oracle's checks;
   in-effect characterisation; refutation witnesses of the recorded findings. *)
From Icv Require Import Base.Tac Ck.CkState Ck.CkFull Ck.CkDtDefs Ck.CkDtProofs Ck.CkDtChain.
Local Open Scope Z_scope.
Arguments chain_fuel : simpl never.

(* ------------------------------------------------------------------ one step of the model *)

(* what is carried along a run: names are unique, last_state_change is not in the future *)
Definition DtInv (now : Z) (f : full) : Prop := NoDup (ids (f_dts f)) /\ f_lsc f <= now.

Lemma DtInv_later now now' f : now <= now' -> DtInv now f -> DtInv now' f.
Proof. intros H [A B]. split; [exact A|lia]. Qed.

Lemma DtInv_init now : 0 <= now -> DtInv now init_full.
Proof. intros H. split; [constructor|cbn; lia]. Qed.

Definition added_by (now : Z) (o : op) : list dt :=
  match o with
  | OpDtAdd id fixed start end_ dur _ parent owned => [new_dt now id fixed start end_ dur parent owned]
  | _ => []
  end.

Lemma incl_Mono now pre post g : post = filter g pre -> Mono now pre post.
Proof. intros ->. apply Mono_filter, Mono_refl. Qed.

Lemma has_false_notin id ds : c5_has id ds = false -> ~ In id (ids ds).
Proof. unfold c5_has. destruct (find_dt id ds) eqn:E; [discriminate|]. intros _. apply find_dt_none. exact E. Qed.

(* every in-scope operation: Mono w.r.t. (pre ++ what it adds), names stay unique, lsc stays sane *)
Lemma step_Mono c now prev f o :
  DtInv now f -> c5_wf_step prev (c5_mk c now f o) = true ->
  Mono now (f_dts f ++ added_by now o) (f_dts (fst (full_step c now f o))) /\
  DtInv now (fst (full_step c now f o)) /\
  NoDup (ids (f_dts f ++ added_by now o)).
Proof.
  intros [Hnd Hlsc] Hwf. unfold c5_wf_step in Hwf. cbn [c5_mk c5_now c5_op c5_pre] in Hwf.
  apply andb_prop in Hwf. destruct Hwf as [Hwf Hop]. apply andb_prop in Hwf. destruct Hwf as [Hwf Hsc].
  destruct o; cbn [c5_in_scope] in Hsc; try discriminate; cbn [full_step added_by].
  - (* result *)
    rewrite app_nil_r.
    destruct (rejected now (f_st f) r) eqn:Hrej.
    + unfold do_result. rewrite Hrej. cbn [fst]. repeat split; [apply Mono_refl|exact Hnd|exact Hlsc|exact Hnd].
    + destruct (do_result_shape c now r f Hrej) as (Hd & Hl & _). cbn zeta in Hd.
      assert (Rwl now (f_dts f) (f_dts (fst (do_result c now r f)))) as HR.
      { rewrite Hd. destruct (negb (is_ok (c_kind (fc_base c)) (r_state r))); [|apply Rwl_refl].
        eapply Rl_Rwl. apply trigger_all_Rl. exact Hnd. }
      repeat split; [apply Rwl_Mono; exact HR|rewrite (Rwl_ids _ _ _ HR); exact Hnd| |exact Hnd].
      cbn [c5_op c5_mk] in Hop. destruct Hl as [->| ->]; lia.
  - (* ack read *)
    rewrite app_nil_r. pose proof (get_ack_facts now f) as (A1 & A2 & A3 & A4).
    destruct (get_ack now f) as [[a f'] o']. cbn [fst snd] in *.
    repeat split; [rewrite A1; apply Mono_refl|rewrite A1; exact Hnd|rewrite A3; exact Hlsc|exact Hnd].
  - (* add *)
    cbn [c5_op c5_mk c5_pre] in Hop. apply andb_prop in Hop. destruct Hop as [Hfr _].
    apply negb_true_iff in Hfr. apply has_false_notin in Hfr.
    destruct (do_dt_add_Rwl c now id fixed start end_ duration trig_by parent owned f Hnd Hfr) as (ds2 & HR & Hd & Hl).
    assert (NoDup (ids (f_dts f ++ [new_dt now id fixed start end_ duration parent owned]))) as Hnd0.
    { rewrite ids_app. apply nodup_snoc; assumption. }
    repeat split; [| |rewrite Hl; exact Hlsc|exact Hnd0].
    + rewrite Hd. destruct (trig_by =? 0); [apply Rwl_Mono; exact HR|apply Mono_add_trigger, Rwl_Mono; exact HR].
    + rewrite Hd. destruct (trig_by =? 0); [|rewrite add_trigger_ids]; rewrite (Rwl_ids _ _ _ HR); exact Hnd0.
  - (* remove *)
    rewrite app_nil_r. destruct (do_dt_remove_filter now id children r f) as (g & Hg & Hl).
    repeat split; [eapply incl_Mono; exact Hg|rewrite Hg; apply nodup_ids_filter; exact Hnd|rewrite Hl; exact Hlsc|exact Hnd].
  - (* start timer *)
    rewrite app_nil_r. destruct (do_dt_start_timer_Rwl now f Hnd) as (HR & Hl).
    repeat split; [apply Rwl_Mono; exact HR|rewrite (Rwl_ids _ _ _ HR); exact Hnd|rewrite Hl; exact Hlsc|exact Hnd].
  - (* cleanup *)
    rewrite app_nil_r. destruct (do_dt_cleanup_filter now id f) as (g & Hg & Hl).
    repeat split; [eapply incl_Mono; exact Hg|rewrite Hg; apply nodup_ids_filter; exact Hnd|rewrite Hl; exact Hlsc|exact Hnd].
  - (* pause *)
    rewrite app_nil_r. cbn. repeat split; [apply Mono_refl|exact Hnd|exact Hlsc|exact Hnd].
Qed.

Lemma added_untriggered now o : Forall (fun d => d_trigger d = 0) (added_by now o).
Proof. destruct o; cbn; repeat constructor. Qed.

(* checks 1 and 2: trigger time / attributes never change, no trigger outside the window *)
Lemma step_checks_mono_nolate c now prev f o :
  DtInv now f -> c5_wf_step prev (c5_mk c now f o) = true ->
  c5_chk_mono (c5_mk c now f o) = true /\ c5_chk_nolate (c5_mk c now f o) = true.
Proof.
  intros Hinv Hwf. destruct (step_Mono c now prev f o Hinv Hwf) as (HM & _ & Hnd0).
  destruct (Mono_checks now (f_dts f) (added_by now o) _ Hnd0 (added_untriggered now o) HM) as [H1 H2].
  split; [|exact H2].
  unfold c5_chk_mono. cbn [c5_mk c5_post c5_pre c5_op].
  apply forallb_forall. intros d' Hin. pose proof (proj1 (forallb_forall _ _) H1 d' Hin) as H. cbn beta in H.
  destruct (find_dt (d_id d') (f_dts f)); [exact H|].
  destruct o; cbn [added_by existsb] in H; try discriminate.
  rewrite orb_false_r in H. exact H.
Qed.

Lemma newly_same ds : NoDup (ids ds) -> c5_newly ds ds = [].
Proof.
  intros Hnd. unfold c5_newly.
  assert (forall l, incl l ds ->
            filter (fun d' => negb (d_trigger d' =? 0) && (c5_trig_of (d_id d') ds =? 0)) l = []) as H.
  { induction l as [|x l IH]; intros Hi; cbn; [reflexivity|].
    assert (In x ds) as Hx by (apply Hi; left; reflexivity).
    unfold c5_trig_of at 1. rewrite (find_dt_nodup ds x Hnd Hx).
    destruct (d_trigger x =? 0); cbn; apply IH; intros y Hy; apply Hi; right; exact Hy. }
  apply H. apply incl_refl.
Qed.

(* check 7: a non-OK result triggers every untriggered downtime inside its window, with execution_end *)
Lemma step_check_result c now prev f o :
  DtInv now f -> c5_wf_step prev (c5_mk c now f o) = true ->
  c5_chk_result (c_kind (fc_base c)) (c5_mk c now f o) = true.
Proof.
  intros [Hnd Hlsc] Hwf. unfold c5_chk_result. cbn [c5_mk c5_op c5_accepted c5_pre c5_post c5_now].
  destruct o; try reflexivity. cbn [full_step].
  destruct (rejected now (f_st f) r) eqn:Hrej; cbn [negb andb].
  - unfold do_result. rewrite Hrej. cbn [fst]. rewrite newly_same by exact Hnd. reflexivity.
  - destruct (do_result_shape c now r f Hrej) as (Hd & _ & _). cbn zeta in Hd. rewrite Hd.
    destruct (negb (is_ok (c_kind (fc_base c)) (r_state r))); cbn [fst].
    + apply forallb_forall. intros d Hin.
      destruct ((d_trigger d =? 0) && c5_inwin now d) eqn:E; [|reflexivity]. cbn [negb orb].
      apply andb_prop in E. destruct E as [E1 E2].
      unfold c5_trig_of.
      rewrite (trigger_all_complete now (f_paused f) (r_end r) (f_dts f) d Hnd Hin); [|lia|exact E2].
      cbn. apply Z.eqb_refl.
    + rewrite newly_same by exact Hnd. reflexivity.
Qed.

(* check 11: downtime_depth is the number of downtimes in effect *)
Lemma step_check_depth c now f o : c5_chk_depth (c5_mk c now f o) = true.
Proof.
  unfold c5_chk_depth. cbn [c5_mk c5_depth c5_post c5_now]. destruct o; try reflexivity.
  unfold downtime_depth. apply Z.eqb_refl.
Qed.

(* the part of the oracle that is proved for every model step *)
Definition c5_step_proved (k : kind) (s : c5_ostep) : bool :=
  c5_chk_mono s && c5_chk_nolate s && c5_chk_result k s && c5_chk_depth s.

Fixpoint c5_wf_run (c : fcfg) (prev : Z) (f : full) (h : list (Z * op)) : bool :=
  match h with
  | [] => true
  | (now, o) :: rest => c5_wf_step prev (c5_mk c now f o) && c5_wf_run c now (fst (full_step c now f o)) rest
  end.

Lemma wf_prev_le c prev now f o : c5_wf_step prev (c5_mk c now f o) = true -> prev <= now.
Proof.
  unfold c5_wf_step. cbn [c5_mk c5_now]. intros H.
  repeat (apply andb_prop in H; destruct H as [H ?]). lia.
Qed.

Theorem model_trace_proved_checks c : forall h prev f,
  DtInv prev f -> c5_wf_run c prev f h = true ->
  Forall (fun s => c5_step_proved (c_kind (fc_base c)) s = true) (c5_model_trace c f h).
Proof.
  induction h as [|[now o] h IH]; intros prev f Hinv Hwf; cbn [c5_model_trace]; [constructor|].
  cbn [c5_wf_run] in Hwf. apply andb_prop in Hwf. destruct Hwf as [Hw Hrest].
  pose proof (wf_prev_le _ _ _ _ _ Hw) as Hle.
  pose proof (DtInv_later _ _ _ Hle Hinv) as Hinv'.
  constructor.
  - unfold c5_step_proved.
    destruct (step_checks_mono_nolate c now prev f o Hinv' Hw) as [H1 H2].
    rewrite H1, H2, (step_check_result c now prev f o Hinv' Hw), step_check_depth. reflexivity.
  - apply IH with now; [|exact Hrest].
    destruct (step_Mono c now prev f o Hinv' Hw) as (_ & H & _). exact H.
Qed.

(* ------------------------------------------------------------------ in effect / depth *)
Lemma in_effect_char now d :
  dt_in_effect now d = true <->
  (d_fixed d = true /\ d_start d <= now < d_end d) \/
  (d_fixed d = false /\ d_trigger d <> 0 /\ now < d_trigger d + d_duration d).
Proof.
  unfold dt_in_effect. destruct (d_fixed d).
  - split; [intros H; left; split; [reflexivity|lia]|intros [[_ H]|[H _]]; [lia|discriminate]].
  - destruct (d_trigger d =? 0) eqn:E.
    + split; [discriminate|intros [[H _]|(_ & H & _)]; [discriminate|lia]].
    + split; [intros H; right; repeat split; lia|intros [[H _]|(_ & _ & H)]; [discriminate|lia]].
Qed.

Lemma in_downtime_char now f :
  in_downtime now f = true <-> exists d, In d (f_dts f) /\ dt_in_effect now d = true.
Proof. unfold in_downtime. apply existsb_exists. Qed.

Lemma depth_char now f :
  downtime_depth now f = Z.of_nat (length (filter (dt_in_effect now) (f_dts f))) /\
  (0 < downtime_depth now f <-> in_downtime now f = true).
Proof.
  split; [reflexivity|]. unfold downtime_depth, in_downtime.
  induction (f_dts f) as [|d l IH]; cbn [filter existsb length].
  - cbn. split; [lia|discriminate].
  - destruct (dt_in_effect now d); cbn [length orb].
    + split; [reflexivity|lia].
    + exact IH.
Qed.

(* ------------------------------------------------------------------ refutation witnesses *)
Definition wit_cfg : fcfg :=
  {| fc_base := {| c_kind := KService; c_max := 3; c_volatile := false |}; fc_flap_enabled := false;
     fc_flap_high := 3005; fc_flap_low := 2505; fc_active_checks := false; fc_check_interval := 300 |}.
Definition wit_cr (s : sstate) (t : Z) : op := OpResult {| r_state := s; r_start := t; r_end := t |}.

(* pending-flexible: never-checked service, flexible downtime [1000,1100] added at 1010 *)
Definition wit_pending : list (Z * op) := [(1010, OpDtAdd 1 false 1000 1100 30 0 0 false)].
(* lost-start: fixed downtime [1010,1100] added at 1000, CRITICAL at 1011, start timer at 1011, clean-up at 1101 *)
Definition wit_loststart : list (Z * op) :=
  [(1000, wit_cr SOK 1000); (1000, OpDtAdd 1 true 1010 1100 0 0 0 false); (1011, wit_cr SCritical 1011);
   (1011, OpDtStartTimer); (1101, OpDtCleanup 1)].
(* start-at-end-instant: fixed downtime [1000,1100] added at 1000, start timer twice at 1100 *)
Definition wit_endinstant : list (Z * op) :=
  [(1000, wit_cr SOK 1000); (1000, OpDtAdd 1 true 1000 1100 0 0 0 false); (1100, OpDtStartTimer); (1100, OpDtStartTimer)].

Definition total_cnt (p : out -> bool) (t : list c5_ostep) : Z :=
  fold_left (fun a s => a + c5_cnt p (c5_outs s)) t 0.

(* the former finding pending-flexible (fixed in /repo 7c445bb): the downtime stays untriggered, no
   DowntimeStart, depth 0, and the whole oracle accepts the run *)
Lemma pending_flexible_fixed :
  c5_wf_run wit_cfg 0 init_full wit_pending = true /\
  c5_oracle KService (c5_model_trace wit_cfg init_full wit_pending) = [] /\
  total_cnt c5_is_start (c5_model_trace wit_cfg init_full wit_pending) = 0 /\
  exists s, In s (c5_model_trace wit_cfg init_full wit_pending) /\
            c5_checked s = false /\ c5_problem s = false /\ c5_trig_of 1 (c5_post s) = 0 /\
            length (filter (dt_in_effect (c5_now s)) (c5_post s)) = 0%nat.
Proof.
  split; [vm_compute; reflexivity|]. split; [vm_compute; reflexivity|]. split; [vm_compute; reflexivity|].
  eexists. split; [left; reflexivity|]. vm_compute. repeat split.
Qed.

Lemma lost_start_refuted :
  c5_wf_run wit_cfg 0 init_full wit_loststart = true /\
  total_cnt c5_is_start (c5_model_trace wit_cfg init_full wit_loststart) = 0 /\
  total_cnt c5_is_end (c5_model_trace wit_cfg init_full wit_loststart) = 1 /\
  exists s, In s (c5_model_trace wit_cfg init_full wit_loststart) /\
            c5_chk_start s = false /\ c5_sig_loststart KService s = true.
Proof.
  split; [vm_compute; reflexivity|]. split; [vm_compute; reflexivity|]. split; [vm_compute; reflexivity|].
  eexists. split; [right; right; left; reflexivity|]. vm_compute. split; reflexivity.
Qed.

(* the former finding start-at-end-instant (fixed in /repo 51cd8e9): one DowntimeStart only, the oracle accepts *)
Lemma start_at_end_instant_fixed :
  c5_wf_run wit_cfg 0 init_full wit_endinstant = true /\
  total_cnt c5_is_start (c5_model_trace wit_cfg init_full wit_endinstant) = 1 /\
  c5_oracle KService (c5_model_trace wit_cfg init_full wit_endinstant) = [].
Proof. split; [vm_compute; reflexivity|]. split; vm_compute; reflexivity. Qed.

(* without the findings' signatures the whole oracle accepts these runs' clean counterparts (non-vacuity) *)
Definition wit_clean : list (Z * op) :=
  [(1000, wit_cr SOK 1000); (1000, OpDtAdd 1 true 1010 1100 0 0 0 false); (1000, OpDtAdd 2 false 1000 1100 30 1 0 false);
   (1011, OpDtStartTimer); (1012, wit_cr SCritical 1012); (1041, OpAckRead); (1042, OpDtCleanup 2);
   (1050, OpDtRemove 1 false RByUser)].
Lemma clean_run_accepted :
  c5_wf_run wit_cfg 0 init_full wit_clean = true /\
  c5_oracle KService (c5_model_trace wit_cfg init_full wit_clean) = [] /\
  total_cnt c5_is_start (c5_model_trace wit_cfg init_full wit_clean) = 2 /\
  total_cnt c5_is_end (c5_model_trace wit_cfg init_full wit_clean) = 2 /\
  forallb (fun s => negb (c5_sig_any KService s)) (c5_model_trace wit_cfg init_full wit_clean) = true.
Proof. vm_compute. repeat split. Qed.

(* ------------------------------------------------------------------ checks 3-6 on a model step *)

Lemma removal_checks_quiet s :
  c5_gone (c5_pre s) (c5_post s) = [] -> quiet (c5_outs s) ->
  (match c5_op s with OpDtRemove _ _ RByUser => False | OpDtCleanup _ => False | _ => True end) ->
  c5_chk_removed s = true /\ c5_chk_end s = true /\ c5_chk_owned s = true /\ c5_chk_cleanup s = true.
Proof.
  intros Hg (Q1 & Q2 & Q3) Hop.
  unfold c5_chk_removed, c5_chk_end, c5_chk_owned, c5_chk_cleanup. rewrite Hg, Q1, Q2. cbn.
  repeat split; try (destruct (c5_paused s); reflexivity);
    destruct (c5_op s); try reflexivity; try contradiction; destruct r; try reflexivity; contradiction.
Qed.

Lemma remove_checks c now f id ch r :
  NoDup (ids (f_dts f)) ->
  let s := c5_mk c now f (OpDtRemove id ch r) in
  c5_chk_removed s = true /\ c5_chk_end s = true /\ c5_chk_owned s = true /\ c5_chk_cleanup s = true.
Proof.
  intros Hnd s.
  pose proof (remove_dt_spec (chain_fuel (f_dts f)) now (f_paused f) id ch r (f_dts f) Hnd) as Hs. cbn zeta in Hs.
  assert (c5_post s = fst (fst (remove_dt (chain_fuel (f_dts f)) now (f_paused f) id ch r (f_dts f))) /\
          exists x, c5_outs s = snd (fst (remove_dt (chain_fuel (f_dts f)) now (f_paused f) id ch r (f_dts f))) ++ [x] /\
                    (x = ODone \/ x = ORefused 4)) as (Hpost & x & Houts & Hx).
  { unfold s, c5_mk. cbn [c5_post c5_outs full_step]. unfold do_dt_remove.
    destruct (remove_dt (chain_fuel (f_dts f)) now (f_paused f) id ch r (f_dts f)) as [[ds o] ok]. cbn [fst snd set_dts f_dts].
    split; [reflexivity|]. eexists. split; [reflexivity|]. destruct ok; auto. }
  assert (c5_rem_ids [x] = [] /\ c5_cnt c5_is_end [x] = 0) as (Hx1 & Hx2) by (destruct Hx as [->| ->]; split; reflexivity).
  destruct (RemSpec_checks now (f_paused f) r (f_dts f) _ _ [x] Hnd Hs Hx1 Hx2) as (C1 & C2 & C3).
  cbn zeta in C1, C2. rewrite <- Hpost, <- Houts in *.
  change (f_dts f) with (c5_pre s) in C1, C2, C3. change (f_paused f) with (c5_paused s) in C2. change now with (c5_now s) in C2.
  split; [|split; [|split]].
  - unfold c5_chk_removed. rewrite C1. reflexivity.
  - unfold c5_chk_end. rewrite C2. apply Z.eqb_refl.
  - unfold c5_chk_owned. change (c5_op s) with (OpDtRemove id ch r). destruct r; try reflexivity.
    apply andb_true_intro. split.
    + apply forallb_forall. intros d Hd. pose proof (proj1 (forallb_forall _ _) C3 d Hd) as H. cbn in H.
      rewrite andb_true_r in H. exact H.
    + change (c5_pre s) with (f_dts f). destruct (find_dt id (f_dts f)) as [d|] eqn:Hf; [|reflexivity].
      destruct (d_owned d) eqn:Ho; [|reflexivity].
      (* the call returns at once *)
      assert (remove_dt (chain_fuel (f_dts f)) now (f_paused f) id ch RByUser (f_dts f) = (f_dts f, [], false)) as E.
      { unfold chain_fuel. cbn [remove_dt]. rewrite Hf, Ho. reflexivity. }
      rewrite E in Hpost, Houts. cbn [fst snd app] in Hpost, Houts.
      rewrite Houts, Hpost. change (c5_pre s) with (f_dts f).
      rewrite gone_nil by apply incl_refl.
      destruct Hx as [->| ->].
      * exfalso. unfold s, c5_mk in Houts. cbn [c5_outs full_step] in Houts. unfold do_dt_remove in Houts.
        rewrite E in Houts. cbn in Houts. discriminate.
      * reflexivity.
  - reflexivity.
Qed.

Lemma has_filter_out id ds : c5_has id (filter (fun x => negb (d_id x =? id)) ds) = false.
Proof.
  unfold c5_has. destruct (find_dt id (filter (fun x => negb (d_id x =? id)) ds)) as [x|] eqn:F; [|reflexivity].
  apply find_dt_some in F. destruct F as [Fx Fid]. apply filter_In in Fx. destruct Fx as [_ Fx]. lia.
Qed.

Lemma cleanup_checks c now f id :
  NoDup (ids (f_dts f)) ->
  let s := c5_mk c now f (OpDtCleanup id) in
  c5_chk_removed s = true /\ c5_chk_end s = true /\ c5_chk_owned s = true /\ c5_chk_cleanup s = true.
Proof.
  intros Hnd s.
  destruct (find_dt id (f_dts f)) as [d|] eqn:Hf.
  - destruct (dt_is_expired now d) eqn:He.
    + (* behaves as dt_remove id children=false reason=expired *)
      assert (c5_post s = c5_post (c5_mk c now f (OpDtRemove id false RExpired)) /\
              c5_outs s = c5_outs (c5_mk c now f (OpDtRemove id false RExpired))) as (E1 & E2).
      { unfold s, c5_mk. cbn [c5_post c5_outs full_step]. unfold do_dt_cleanup. rewrite Hf, He. split; reflexivity. }
      destruct (remove_checks c now f id false RExpired Hnd) as (C1 & C2 & _ & _). cbn zeta in C1, C2.
      unfold c5_chk_removed, c5_chk_end, c5_chk_owned, c5_chk_cleanup in *.
      change (c5_op s) with (OpDtCleanup id).
      change (c5_pre s) with (f_dts f) in *. change (c5_paused s) with (f_paused f). change (c5_now s) with now.
      cbn [c5_mk c5_pre c5_paused c5_now c5_op] in C1, C2. rewrite E1, E2.
      repeat split; [exact C1|exact C2|].
      rewrite Hf, He.
      (* the downtime itself is gone *)
      cbn [c5_mk c5_post full_step]. unfold do_dt_remove, chain_fuel. cbn [remove_dt]. rewrite Hf.
      cbn [andb filter map fold_left negb]. rewrite andb_false_r. cbn [fold_left negb]. rewrite Hf.
      cbn [fst set_dts f_dts]. rewrite has_filter_out. reflexivity.
    + assert (c5_post s = f_dts f /\ c5_outs s = []) as (E1 & E2).
      { unfold s, c5_mk. cbn [c5_post c5_outs full_step]. unfold do_dt_cleanup. rewrite Hf, He. split; reflexivity. }
      unfold c5_chk_removed, c5_chk_end, c5_chk_owned, c5_chk_cleanup.
      change (c5_op s) with (OpDtCleanup id). change (c5_pre s) with (f_dts f). change (c5_now s) with now. rewrite E1, E2, Hf, He.
      rewrite gone_nil by apply incl_refl. cbn. destruct (f_paused f); repeat split.
  - assert (c5_post s = f_dts f /\ c5_outs s = []) as (E1 & E2).
    { unfold s, c5_mk. cbn [c5_post c5_outs full_step]. unfold do_dt_cleanup. rewrite Hf. split; reflexivity. }
    unfold c5_chk_removed, c5_chk_end, c5_chk_owned, c5_chk_cleanup.
    change (c5_op s) with (OpDtCleanup id). change (c5_pre s) with (f_dts f). rewrite E1, E2, Hf.
    rewrite gone_nil by apply incl_refl. cbn. destruct (f_paused f); repeat split.
Qed.

(* checks 3-6 for every operation of the quantifier *)
Lemma step_checks_removal c now prev f o :
  DtInv now f -> c5_wf_step prev (c5_mk c now f o) = true ->
  let s := c5_mk c now f o in
  c5_chk_removed s = true /\ c5_chk_end s = true /\ c5_chk_owned s = true /\ c5_chk_cleanup s = true.
Proof.
  intros [Hnd Hlsc] Hwf s.
  pose proof Hwf as Hwf0.
  unfold c5_wf_step in Hwf. cbn [c5_mk c5_now c5_op c5_pre] in Hwf.
  apply andb_prop in Hwf. destruct Hwf as [Hwf Hop]. apply andb_prop in Hwf. destruct Hwf as [Hwf Hsc].
  destruct o; cbn [c5_in_scope] in Hsc; try discriminate.
  - (* result *)
    apply removal_checks_quiet; [| |exact I].
    + apply gone_nil. unfold s, c5_mk. cbn [c5_pre c5_post full_step].
      destruct (rejected now (f_st f) r) eqn:Hrej.
      * unfold do_result. rewrite Hrej. apply incl_refl.
      * destruct (do_result_shape c now r f Hrej) as (Hd & _ & _). cbn zeta in Hd. rewrite Hd.
        destruct (negb (is_ok (c_kind (fc_base c)) (r_state r))); [|apply incl_refl].
        rewrite (Rl_ids _ _ _ _ (trigger_all_Rl now (f_paused f) (r_end r) (f_dts f) Hnd)). apply incl_refl.
    + apply result_outs_quiet.
  - (* ack read *)
    apply removal_checks_quiet; [| |exact I]; unfold s, c5_mk; cbn [c5_pre c5_post c5_outs full_step];
      pose proof (get_ack_facts now f) as (A1 & _ & _ & A4); destruct (get_ack now f) as [[a f'] o']; cbn [fst snd] in *.
    + apply gone_nil. rewrite A1. apply incl_refl.
    + apply plain_quiet. exact A4.
  - (* add *)
    apply removal_checks_quiet; [| |exact I].
    + cbn [c5_op c5_mk c5_pre] in Hop. apply andb_prop in Hop. destruct Hop as [Hfr _].
      apply negb_true_iff in Hfr. apply has_false_notin in Hfr.
      destruct (do_dt_add_Rwl c now id fixed start end_ duration trig_by parent owned f Hnd Hfr) as (ds2 & HR & Hd & _).
      apply gone_nil. unfold s, c5_mk. cbn [c5_pre c5_post full_step]. rewrite Hd.
      assert (ids (if trig_by =? 0 then ds2 else add_trigger trig_by id ds2) = ids (f_dts f) ++ [id]) as ->.
      { destruct (trig_by =? 0); [|rewrite add_trigger_ids]; rewrite (Rwl_ids _ _ _ HR), ids_app; reflexivity. }
      apply incl_appl, incl_refl.
    + apply trigger_fold_outs_add.
  - (* remove *)
    apply remove_checks. exact Hnd.
  - (* start timer *)
    apply removal_checks_quiet; [| |exact I].
    + apply gone_nil. unfold s, c5_mk. cbn [c5_pre c5_post full_step].
      destruct (do_dt_start_timer_Rwl now f Hnd) as (HR & _). rewrite (Rwl_ids _ _ _ HR). apply incl_refl.
    + apply trig_out_quiet, start_timer_outs.
  - (* cleanup *)
    apply cleanup_checks. exact Hnd.
  - (* pause *)
    apply removal_checks_quiet; [| |exact I].
    + apply gone_nil. apply incl_refl.
    + apply quiet_nil.
Qed.

(* ------------------------------------------------------------------ check 8: trigger on add *)
Lemma find_dt_add_trigger i p c ds :
  c5_trig_of i (add_trigger p c ds) = c5_trig_of i ds /\ c5_has i (add_trigger p c ds) = c5_has i ds.
Proof.
  unfold c5_trig_of, c5_has, find_dt, add_trigger. induction ds as [|x ds IH]; cbn; [split; reflexivity|].
  destruct ((d_id x =? p) && negb (existsb (Z.eqb c) (d_triggers x))); cbn;
    (destruct (d_id x =? i); [split; reflexivity|exact IH]).
Qed.

Lemma add_new_trigger c now id fixed start end_ dur trig_by parent owned f :
  NoDup (ids (f_dts f)) -> ~ In id (ids (f_dts f)) ->
  let dnew := new_dt now id fixed start end_ dur parent owned in
  let post := f_dts (fst (do_dt_add c now id fixed start end_ dur trig_by parent owned f)) in
  c5_has id post = true /\
  c5_trig_of id post =
    (if c5_inwin now dnew then
       if fixed then Z.max start now
       else if s_has_cr (f_st f) && negb (is_ok (c_kind (fc_base c)) (s_raw (f_st f))) then Z.max (Z.max start now) (f_lsc f) else 0
     else 0).
Proof.
  intros Hnd Hfresh dnew post. unfold post.
  set (ds0 := f_dts f ++ [dnew]).
  assert (NoDup (ids ds0)) as Hnd0 by (unfold ds0; rewrite ids_app; apply nodup_snoc; assumption).
  assert (find_dt id ds0 = Some dnew) as F0 by (apply find_dt_app_fresh; [exact Hfresh|reflexivity]).
  assert (dt_can_be_triggered now dnew = c5_inwin now dnew) as Hcan by (apply can_untriggered; reflexivity).
  (* the list after both stages, and what it holds for id *)
  assert (exists ds2 o12,
            do_dt_add c now id fixed start end_ dur trig_by parent owned f
            = (set_dts f (if trig_by =? 0 then ds2 else add_trigger trig_by id ds2), o12) /\
            find_dt id ds2 =
              Some (if c5_inwin now dnew then
                      if fixed then set_trig dnew (Z.max start now)
                      else if s_has_cr (f_st f) && negb (is_ok (c_kind (fc_base c)) (s_raw (f_st f)))
                           then set_trig dnew (Z.max (Z.max start now) (f_lsc f)) else dnew
                    else dnew)) as (ds2 & o12 & E & F2).
  { unfold do_dt_add. cbv zeta.
    change (f_dts f ++ [{| d_id := id; d_fixed := fixed; d_start := start; d_end := end_; d_duration := dur;
                           d_entry := now; d_trigger := 0; d_triggers := []; d_parent := parent; d_owned := owned |}])
      with ds0.
    destruct fixed; cbn [negb andb].
    - (* fixed *)
      rewrite F0, Hcan. destruct (c5_inwin now dnew) eqn:Hw.
      + pose proof (trigger_dt_self (length ds0) now (f_paused f) id (Z.max start now) ds0 dnew Hnd0 F0 Hcan eq_refl) as Hs.
        unfold chain_fuel.
        destruct (trigger_dt (S (length ds0)) now (f_paused f) id (Z.max start now) ds0) as [dsx ox]. cbn [fst] in Hs.
        eexists _, _. split; [reflexivity|exact Hs].
      + eexists _, _. split; [reflexivity|exact F0].
    - (* flexible *)
      destruct (s_has_cr (f_st f) && negb (is_ok (c_kind (fc_base c)) (s_raw (f_st f)))) eqn:Hnok.
      + destruct (c5_inwin now dnew) eqn:Hw.
        * pose proof (trigger_dt_self (length ds0) now (f_paused f) id (Z.max (Z.max start now) (f_lsc f)) ds0 dnew Hnd0 F0 Hcan eq_refl) as Hs.
          unfold chain_fuel.
          destruct (trigger_dt (S (length ds0)) now (f_paused f) id (Z.max (Z.max start now) (f_lsc f)) ds0) as [ds1 o1].
          cbn [fst] in Hs. rewrite Hs. eexists _, _. split; [reflexivity|exact Hs].
        * unfold chain_fuel. rewrite (trigger_dt_noop _ _ _ _ _ _ dnew F0) by exact Hcan.
          rewrite F0. eexists _, _. split; [reflexivity|exact F0].
      + rewrite F0. eexists _, _. split; [reflexivity|]. rewrite F0. destruct (c5_inwin now dnew); reflexivity. }
  rewrite E. cbn [fst set_dts f_dts].
  assert (c5_has id ds2 = true /\ c5_trig_of id ds2 =
            (if c5_inwin now dnew then
               if fixed then Z.max start now
               else if s_has_cr (f_st f) && negb (is_ok (c_kind (fc_base c)) (s_raw (f_st f))) then Z.max (Z.max start now) (f_lsc f) else 0
             else 0)) as (G1 & G2).
  { unfold c5_has, c5_trig_of. rewrite F2. split; [reflexivity|].
    destruct (c5_inwin now dnew); [|reflexivity]. destruct fixed; [reflexivity|].
    destruct (s_has_cr (f_st f) && negb (is_ok (c_kind (fc_base c)) (s_raw (f_st f)))); reflexivity. }
  destruct (trig_by =? 0); [split; assumption|].
  destruct (find_dt_add_trigger id trig_by id ds2) as [-> ->]. split; assumption.
Qed.

Lemma step_check_add c now prev f o :
  DtInv now f -> c5_wf_step prev (c5_mk c now f o) = true ->
  c5_chk_add (c5_mk c now f o) = true.
Proof.
  intros [Hnd Hlsc] Hwf. unfold c5_chk_add. destruct o; try reflexivity.
  unfold c5_wf_step in Hwf. cbn [c5_mk c5_now c5_op c5_pre] in Hwf.
  apply andb_prop in Hwf. destruct Hwf as [_ Hop]. apply andb_prop in Hop. destruct Hop as [Hfr _].
  cbn [c5_mk c5_op c5_post c5_pre c5_now c5_problem full_step].
  rewrite Hfr. pose proof Hfr as Hfr'. apply negb_true_iff in Hfr'. apply has_false_notin in Hfr'.
  destruct (add_new_trigger c now id fixed start end_ duration trig_by parent owned f Hnd Hfr') as (G1 & G2).
  cbn zeta in G1, G2. rewrite G1, G2. cbn [andb].
  unfold c5_inwin. cbn [new_dt d_start d_end].
  destruct ((start <=? now) && (now <=? end_)) eqn:Hw; [|destruct fixed; reflexivity].
  destruct fixed.
  - apply Z.eqb_eq. lia.
  - cbn [andb].
    destruct (s_has_cr (f_st f) && negb (is_ok (c_kind (fc_base c)) (s_raw (f_st f)))); [apply Z.eqb_eq; lia|reflexivity].
Qed.


(* ------------------------------------------------------------------ check 9: one DowntimeStart per newly triggered downtime *)

(* the stronger invariant: additionally every trigger time and entry time lies in (0, now] *)
Definition DtInv2 (now : Z) (f : full) : Prop :=
  DtInv now f /\ sane now (f_dts f) /\ entries_sane now (f_dts f).

Lemma DtInv2_later now now' f : now <= now' -> DtInv2 now f -> DtInv2 now' f.
Proof.
  intros H (A & B & C). split; [eapply DtInv_later; eassumption|]. unfold sane, entries_sane in *. split.
  - eapply Forall_impl; [|exact B]. intros d [Hd|Hd]; [left; exact Hd|right; lia].
  - eapply Forall_impl; [|exact C]. intros d Hd. cbn in Hd. lia.
Qed.

Lemma DtInv2_init now : 0 <= now -> DtInv2 now init_full.
Proof. intros H. split; [apply DtInv_init; exact H|]. split; constructor. Qed.

Lemma newly_incl ds l : NoDup (ids ds) -> incl l ds -> c5_newly ds l = [].
Proof.
  intros Hnd. unfold c5_newly. induction l as [|x l IH]; intros Hi; cbn; [reflexivity|].
  assert (In x ds) as Hx by (apply Hi; left; reflexivity).
  unfold c5_trig_of at 1. rewrite (find_dt_nodup ds x Hnd Hx).
  destruct (d_trigger x =? 0); cbn; apply IH; intros y Hy; apply Hi; right; exact Hy.
Qed.

Lemma chained_fixed_false ds : c5_chained_fixed ds = false -> nofixedchain ds.
Proof.
  intros H p cid c Hp Hcid Hf. unfold c5_chained_fixed in H.
  destruct (d_fixed c) eqn:E; [|reflexivity]. exfalso.
  assert (existsb (fun p => existsb (fun cid => match find_dt cid ds with Some c => d_fixed c | None => false end)
                                    (d_triggers p)) ds = true) as Ht.
  { apply existsb_exists. exists p. split; [exact Hp|]. apply existsb_exists. exists cid. split; [exact Hcid|].
    rewrite Hf. exact E. }
  congruence.
Qed.


Lemma Forall_filter {A} (P : A -> Prop) g l : Forall P l -> Forall P (filter g l).
Proof. intros H. apply Forall_forall. intros x Hx. apply filter_In in Hx. rewrite Forall_forall in H. apply H. tauto. Qed.

Lemma start_check_of_count s n :
  c5_cnt c5_is_start (c5_outs s) = (if c5_paused s then 0 else n) ->
  Z.of_nat (length (c5_newly (c5_pre s) (c5_post s))) = n -> c5_chk_start s = true.
Proof. intros H1 H2. unfold c5_chk_start. rewrite H1, H2. apply Z.eqb_refl. Qed.

Lemma step_check_start_inv c now prev f o :
  DtInv2 now f -> c5_wf_step prev (c5_mk c now f o) = true ->
  let s := c5_mk c now f o in
  (c5_sig_loststart (c_kind (fc_base c)) s = false -> c5_chk_start s = true) /\
  sane now (f_dts (fst (full_step c now f o))).
Proof.
  intros ([Hnd Hlsc] & Hs & He) Hwf s.
  pose proof Hwf as Hwf0.
  unfold c5_wf_step in Hwf. cbn [c5_mk c5_now c5_op c5_pre] in Hwf.
  apply andb_prop in Hwf. destruct Hwf as [Hwf Hop]. apply andb_prop in Hwf. destruct Hwf as [Hwf Hsc].
  assert (0 < now) as Hnow by lia.
  destruct o; cbn [c5_in_scope] in Hsc; try discriminate.
  - (* result *)
    unfold s, c5_sig_loststart. cbn [c5_mk c5_op c5_pre c5_now full_step].
    destruct (rejected now (f_st f) r) eqn:Hrej.
    + unfold do_result. rewrite Hrej. cbn [fst]. split; [|exact Hs]. intros _.
      apply start_check_of_count with 0.
      * cbn [c5_mk c5_outs c5_paused full_step]. unfold do_result. rewrite Hrej. cbn [snd].
        change (c5_cnt c5_is_start [ORefused 5]) with 0. destruct (f_paused f); reflexivity.
      * cbn [c5_mk c5_pre c5_post full_step]. unfold do_result. rewrite Hrej. cbn [fst].
        rewrite newly_incl; [reflexivity|exact Hnd|apply incl_refl].
    + destruct (do_result_shape c now r f Hrej) as (Hd & _ & oa & ob & Ho & Ha & Hb). cbn zeta in Hd, Ho.
      assert (0 < r_end r <= now) as Ht by lia.
      destruct (negb (is_ok (c_kind (fc_base c)) (r_state r))) eqn:Hnok.
      * pose proof (trigger_all_Rl now (f_paused f) (r_end r) (f_dts f) Hnd) as HR.
        split; [|rewrite Hd; apply (Rl_sane now _ _ _ Ht Hs HR)].
        intros Hsig. apply orb_false_iff in Hsig. destruct Hsig as [Hcf Hex]. cbn [andb] in Hex.
        apply start_check_of_count with (U (f_dts f) - U (f_dts (fst (do_result c now r f)))).
        -- cbn [c5_mk c5_outs c5_paused full_step]. rewrite Ho, !cnt_app.
           destruct (plain_quiet _ Ha) as (_ & -> & _). destruct (plain_quiet _ Hb) as (_ & -> & _).
           rewrite (start_count_trigger_all now (f_paused f) (r_end r) (f_dts f) Hnd Hs Ht (chained_fixed_false _ Hcf) Hex).
           rewrite Hd. destruct (f_paused f); lia.
        -- cbn [c5_mk c5_pre c5_post full_step]. apply newly_count; [exact Hnd|].
           rewrite Hd. eapply Rwl_Cmp, Rl_Rwl. exact HR.
      * split; [|rewrite Hd; exact Hs]. intros _.
        apply start_check_of_count with 0.
        -- cbn [c5_mk c5_outs c5_paused full_step]. rewrite Ho, !cnt_app.
           destruct (plain_quiet _ Ha) as (_ & -> & _). destruct (plain_quiet _ Hb) as (_ & -> & _).
           cbn [snd]. change (c5_cnt c5_is_start []) with 0. destruct (f_paused f); reflexivity.
        -- cbn [c5_mk c5_pre c5_post full_step]. rewrite Hd. cbn [fst].
           rewrite newly_incl; [reflexivity|exact Hnd|apply incl_refl].
  - (* ack read *)
    pose proof (get_ack_facts now f) as (A1 & _ & _ & A4).
    unfold s. cbn [c5_mk full_step]. 
    split.
    + intros _. apply start_check_of_count with 0; cbn [c5_mk c5_outs c5_paused c5_pre c5_post full_step];
        destruct (get_ack now f) as [[a f'] o']; cbn [fst snd] in *.
      * destruct (plain_quiet _ A4) as (_ & -> & _). destruct (f_paused f); reflexivity.
      * rewrite A1. rewrite newly_incl; [reflexivity|exact Hnd|apply incl_refl].
    + destruct (get_ack now f) as [[a f'] o']; cbn [fst snd] in *. rewrite A1. exact Hs.
  - (* add *)
    cbn [c5_op c5_mk c5_pre] in Hop. apply andb_prop in Hop. destruct Hop as [Hfr _].
    apply negb_true_iff in Hfr. apply has_false_notin in Hfr.
    destruct (add_count c now id fixed start end_ duration trig_by parent owned f Hnd Hfr Hnow Hlsc) as (Hc & Hsn).
    cbn zeta in Hc, Hsn.
    assert (sane now (f_dts f ++ [new_dt now id fixed start end_ duration parent owned])) as Hs0.
    { unfold sane. apply Forall_app. split; [exact Hs|]. constructor; [left; reflexivity|constructor]. }
    split; [|apply Hsn; exact Hs0].
    intros _.
    apply start_check_of_count with (U (f_dts f ++ [new_dt now id fixed start end_ duration parent owned])
                                     - U (f_dts (fst (do_dt_add c now id fixed start end_ duration trig_by parent owned f)))).
    + exact Hc.
    + unfold s. cbn [c5_mk c5_pre c5_post full_step].
      rewrite (newly_app_fresh (f_dts f) (new_dt now id fixed start end_ duration parent owned)) by (cbn; auto).
      apply newly_count.
      * rewrite ids_app. apply nodup_snoc; assumption.
      * destruct (do_dt_add_Rwl c now id fixed start end_ duration trig_by parent owned f Hnd Hfr) as (ds2 & HR & Hd & _).
        rewrite Hd. destruct (trig_by =? 0); [|apply Cmp_add_trigger]; eapply Rwl_Cmp; exact HR.
  - (* remove *)
    pose proof (remove_dt_spec (chain_fuel (f_dts f)) now (f_paused f) id children r (f_dts f) Hnd) as Hsp. cbn zeta in Hsp.
    destruct (remove_dt (chain_fuel (f_dts f)) now (f_paused f) id children r (f_dts f)) as [[ds o] ok] eqn:Erm.
    cbn [fst snd] in Hsp. destruct Hsp as (A1 & _ & _ & _ & A5 & _).
    assert (c5_post s = ds /\ c5_outs s = o ++ [if ok then ODone else ORefused 4]) as (Ep & Eo).
    { unfold s. cbn [c5_mk c5_post c5_outs full_step]. unfold do_dt_remove. rewrite Erm. split; reflexivity. }
    change (f_dts (fst (full_step c now f (OpDtRemove id children r)))) with (c5_post s).
    split; [|rewrite Ep, A1; apply Forall_filter; exact Hs].
    intros _. apply start_check_of_count with 0.
    + rewrite Eo, cnt_app, A5. destruct ok; cnt_eval; destruct (c5_paused s); reflexivity.
    + rewrite Ep. change (c5_pre s) with (f_dts f). rewrite A1, newly_incl; [reflexivity|exact Hnd|].
      intros x Hx. apply filter_In in Hx. tauto.
  - (* start timer *)
    unfold s, c5_sig_loststart. cbn [c5_mk c5_op c5_pre c5_now full_step].
    split.
    + intros Hsig.
      destruct (start_count_timer now f Hnd Hs He (chained_fixed_false _ Hsig)) as (Hc & _).
      apply start_check_of_count with (U (f_dts f) - U (f_dts (fst (do_dt_start_timer now f)))).
      * exact Hc.
      * cbn [c5_mk c5_pre c5_post full_step]. apply newly_count; [exact Hnd|].
        eapply Rwl_Cmp. apply do_dt_start_timer_Rwl. exact Hnd.
    + (* sanity does not depend on the chain hypothesis: every trigger time set is max(start, entry) of a downtime in its window *)
      clear s. unfold do_dt_start_timer.
      match goal with |- context [fold_left ?g ?l ?a] =>
        assert (let r := fold_left g l a in Rwl now (f_dts f) (fst r) /\ sane now (fst r)) as H end.
      { apply fold_left_inv with (Q := fun acc => Rwl now (f_dts f) (fst acc) /\ sane now (fst acc)).
        - split; [apply Rwl_refl|exact Hs].
        - intros [dsa oa] i _ (Ha & Hsa). cbn [fst] in Ha, Hsa.
          destruct (find_dt i dsa) as [da|] eqn:Fa; [|split; assumption].
          destruct (dt_can_be_triggered now da && d_fixed da) eqn:E; [|split; assumption].
          apply andb_prop in E. destruct E as [Ec Ef].
          assert (NoDup (ids dsa)) as Hnda by (rewrite (Rwl_ids _ _ _ Ha); exact Hnd).
          destruct (find_dt_some _ _ _ Fa) as [Hda _].
          destruct (Rwl_in _ _ _ _ Ha Hda) as (d & Hd & HRd). destruct (Rw_static _ _ _ HRd) as (_ & _ & _ & Sn).
          assert (0 < Z.max (d_start da) (d_entry da) <= now) as Ht.
          { pose proof (can_inwin _ _ Ec) as Hw. unfold c5_inwin in Hw.
            unfold entries_sane in He. rewrite Forall_forall in He. pose proof (He d Hd) as Hen. rewrite <- Sn in Hen. lia. }
          pose proof (trigger_dt_Rl (chain_fuel dsa) now (f_paused f) i (Z.max (d_start da) (d_entry da)) dsa Hnda) as HRi.
          destruct (trigger_dt (chain_fuel dsa) now (f_paused f) i (Z.max (d_start da) (d_entry da)) dsa) as [dsb ob].
          cbn [fst] in *. split; [eapply Rwl_trans; [exact Ha|eapply Rl_Rwl; exact HRi]|].
          apply (Rl_sane now _ dsa dsb Ht Hsa HRi). }
      match goal with |- context [fold_left ?g ?l ?a] => destruct (fold_left g l a) as [ds2 o2] end.
      cbn zeta in H. cbn [fst set_dts f_dts] in *. apply H.
  - (* cleanup *)
    change (f_dts (fst (full_step c now f (OpDtCleanup id)))) with (c5_post s).
    destruct (find_dt id (f_dts f)) as [d|] eqn:Hf.
    + destruct (dt_is_expired now d) eqn:Hex.
      * pose proof (remove_dt_spec (chain_fuel (f_dts f)) now (f_paused f) id false RExpired (f_dts f) Hnd) as Hsp. cbn zeta in Hsp.
        destruct (remove_dt (chain_fuel (f_dts f)) now (f_paused f) id false RExpired (f_dts f)) as [[ds o] ok] eqn:Erm.
        cbn [fst snd] in Hsp. destruct Hsp as (A1 & _ & _ & _ & A5 & _).
        assert (c5_post s = ds /\ c5_outs s = o ++ [if ok then ODone else ORefused 4]) as (Ep & Eo).
        { unfold s. cbn [c5_mk c5_post c5_outs full_step]. unfold do_dt_cleanup. rewrite Hf, Hex.
          unfold do_dt_remove. rewrite Erm. split; reflexivity. }
        split; [|rewrite Ep, A1; apply Forall_filter; exact Hs].
        intros _. apply start_check_of_count with 0.
        -- rewrite Eo, cnt_app, A5. destruct ok; cnt_eval; destruct (c5_paused s); reflexivity.
        -- rewrite Ep. change (c5_pre s) with (f_dts f). rewrite A1, newly_incl; [reflexivity|exact Hnd|].
           intros x Hx. apply filter_In in Hx. tauto.
      * assert (c5_post s = f_dts f /\ c5_outs s = []) as (Ep & Eo).
        { unfold s. cbn [c5_mk c5_post c5_outs full_step]. unfold do_dt_cleanup. rewrite Hf, Hex. split; reflexivity. }
        split; [|rewrite Ep; exact Hs]. intros _.
        apply start_check_of_count with 0.
        -- rewrite Eo. cnt_eval. destruct (c5_paused s); reflexivity.
        -- rewrite Ep. change (c5_pre s) with (f_dts f). rewrite newly_incl; [reflexivity|exact Hnd|apply incl_refl].
    + assert (c5_post s = f_dts f /\ c5_outs s = []) as (Ep & Eo).
      { unfold s. cbn [c5_mk c5_post c5_outs full_step]. unfold do_dt_cleanup. rewrite Hf. split; reflexivity. }
      split; [|rewrite Ep; exact Hs]. intros _.
      apply start_check_of_count with 0.
      * rewrite Eo. cnt_eval. destruct (c5_paused s); reflexivity.
      * rewrite Ep. change (c5_pre s) with (f_dts f). rewrite newly_incl; [reflexivity|exact Hnd|apply incl_refl].
  - (* pause *)
    split; [|exact Hs]. intros _.
    apply start_check_of_count with 0.
    + change (c5_outs s) with (@nil out). cnt_eval. destruct (c5_paused s); reflexivity.
    + change (c5_post s) with (f_dts f). change (c5_pre s) with (f_dts f).
      rewrite newly_incl; [reflexivity|exact Hnd|apply incl_refl].
Qed.


(* ------------------------------------------------------------------ check 10: OnDowntimeTriggered for everything that became triggered *)
Definition CmpEv (o : list out) : list dt -> list dt -> Prop :=
  Forall2 (fun d d' => d_id d' = d_id d /\ (d_trigger d' = d_trigger d \/ In (d_id d) (c5_trig_ids o))).

Lemma CmpEv_add_trigger o pre post p c : CmpEv o pre post -> CmpEv o pre (add_trigger p c post).
Proof.
  induction 1; cbn; constructor; [|assumption].
  destruct ((d_id y =? p) && negb (existsb (Z.eqb c) (d_triggers y))); assumption.
Qed.

Lemma do_dt_add_CmpEv c now id fixed start end_ dur trig_by parent owned f :
  let r := do_dt_add c now id fixed start end_ dur trig_by parent owned f in
  CmpEv (snd r) (f_dts f ++ [new_dt now id fixed start end_ dur parent owned]) (f_dts (fst r)).
Proof.
  cbn zeta. unfold do_dt_add. fold (new_dt now id fixed start end_ dur parent owned).
  set (d := new_dt now id fixed start end_ dur parent owned). set (ds0 := f_dts f ++ [d]).
  match goal with |- context [let '(ds1, o1) := ?X in _] => remember X as x1 eqn:E1 end.
  assert (Rtol (snd x1) ds0 (fst x1)) as H1.
  { subst x1. destruct (negb fixed && s_has_cr (f_st f) && negb (is_ok (c_kind (fc_base c)) (s_raw (f_st f))));
      [apply trigger_dt_Rtol|apply Rtol_refl]. }
  clear E1. destruct x1 as [ds1 o1]. cbn [fst snd] in H1.
  match goal with |- context [let '(ds2, o2) := ?X in _] => remember X as x2 eqn:E2 end.
  assert (Rtol (snd x2) ds1 (fst x2)) as H2.
  { subst x2. destruct (find_dt id ds1) as [d1|]; [|apply Rtol_refl].
    destruct (fixed && dt_can_be_triggered now d1); [|apply Rtol_refl].
    pose proof (trigger_dt_Rtol (chain_fuel ds1) now (f_paused f) id (Z.max start now) ds1) as Hi.
    destruct (trigger_dt (chain_fuel ds1) now (f_paused f) id (Z.max start now) ds1) as [dsx ox]. cbn [fst snd] in *.
    eapply Rtol_mono; [|exact Hi]. intros i Hi'. rewrite trig_ids_app. apply in_or_app. right. exact Hi'. }
  clear E2. destruct x2 as [ds2 o2]. cbn [fst snd set_dts f_dts] in *.
  assert (CmpEv (o1 ++ o2 ++ [ODone]) ds0 ds2) as HC.
  { apply Rtol_cmp. rewrite app_assoc. eapply Rtol_mono; [|eapply Rtol_app; eassumption].
    intros i Hi. rewrite trig_ids_app. apply in_or_app. left. exact Hi. }
  destruct (trig_by =? 0); [exact HC|apply CmpEv_add_trigger; exact HC].
Qed.

Lemma step_check_trigev c now prev f o :
  DtInv now f -> c5_wf_step prev (c5_mk c now f o) = true -> c5_chk_trigev (c5_mk c now f o) = true.
Proof.
  intros [Hnd Hlsc] Hwf. unfold c5_chk_trigev.
  unfold c5_wf_step in Hwf. cbn [c5_mk c5_now c5_op c5_pre] in Hwf.
  apply andb_prop in Hwf. destruct Hwf as [Hwf Hop]. apply andb_prop in Hwf. destruct Hwf as [Hwf Hsc].
  destruct o; cbn [c5_in_scope] in Hsc; try discriminate; cbn [c5_mk c5_pre c5_post c5_outs full_step].
  - (* result *)
    destruct (rejected now (f_st f) r) eqn:Hrej.
    + unfold do_result. rewrite Hrej. cbn [fst snd]. rewrite newly_incl; [reflexivity|exact Hnd|apply incl_refl].
    + destruct (do_result_shape c now r f Hrej) as (Hd & _ & oa & ob & Ho & _ & _). cbn zeta in Hd, Ho.
      rewrite Hd, Ho.
      destruct (negb (is_ok (c_kind (fc_base c)) (r_state r))); cbn [fst snd].
      * apply (Rtol_trigev _ (f_dts f)); [exact Hnd|reflexivity|]. apply Rtol_cmp.
        eapply Rtol_mono; [|apply trigger_all_Rtol].
        intros i Hi. rewrite !trig_ids_app. apply in_or_app. right. apply in_or_app. left. exact Hi.
      * rewrite newly_incl; [reflexivity|exact Hnd|apply incl_refl].
  - (* ack read *)
    pose proof (get_ack_facts now f) as (A1 & _). destruct (get_ack now f) as [[a f'] o']. cbn [fst snd] in *.
    rewrite A1, newly_incl; [reflexivity|exact Hnd|apply incl_refl].
  - (* add *)
    cbn [c5_op c5_mk c5_pre] in Hop. apply andb_prop in Hop. destruct Hop as [Hfr _].
    apply negb_true_iff in Hfr. apply has_false_notin in Hfr.
    apply (Rtol_trigev _ (f_dts f ++ [new_dt now id fixed start end_ duration parent owned])).
    + rewrite ids_app. apply nodup_snoc; assumption.
    + intros i. unfold c5_trig_of. destruct (Z.eq_dec id i) as [<-|E].
      * rewrite (find_dt_app_fresh id (f_dts f) (new_dt now id fixed start end_ duration parent owned) Hfr eq_refl). cbn [new_dt d_trigger].
        destruct (find_dt id (f_dts f)) eqn:F; [|reflexivity]. exfalso. apply find_dt_some in F.
        destruct F as [F1 F2]. apply Hfr. rewrite <- F2. unfold ids. apply in_map. exact F1.
      * rewrite (find_dt_app_old i (f_dts f) (new_dt now id fixed start end_ duration parent owned)); [reflexivity|exact E].
    + apply do_dt_add_CmpEv.
  - (* remove *)
    destruct (do_dt_remove_filter now id children r f) as (g & Hg & _).
    rewrite Hg, newly_incl; [reflexivity|exact Hnd|]. intros x Hx. apply filter_In in Hx. tauto.
  - (* start timer *)
    apply (Rtol_trigev _ (f_dts f)); [exact Hnd|reflexivity|]. apply Rtol_cmp. apply start_timer_Rtol.
  - (* cleanup *)
    destruct (do_dt_cleanup_filter now id f) as (g & Hg & _).
    rewrite Hg, newly_incl; [reflexivity|exact Hnd|]. intros x Hx. apply filter_In in Hx. tauto.
  - (* pause *)
    cbn [fst snd set_paused f_dts]. rewrite newly_incl; [reflexivity|exact Hnd|apply incl_refl].
Qed.


(* ------------------------------------------------------------------ check 12: chained triggers at every level *)
Lemma add_trigger_same p c a b : SameChain a b -> SameChain (add_trigger p c a) (add_trigger p c b).
Proof.
  induction 1 as [|x y l l' [H1 H2] _ IH]; cbn; constructor; [|exact IH].
  rewrite H1, H2. destruct ((d_id x =? p) && negb (existsb (Z.eqb c) (d_triggers x))); cbn; rewrite ?H1, ?H2; split; reflexivity.
Qed.

(* creation order is an invariant of every operation *)
Lemma step_Ord c now prev f o :
  DtInv now f -> Ord (f_dts f) -> c5_wf_step prev (c5_mk c now f o) = true -> Ord (f_dts (fst (full_step c now f o))).
Proof.
  intros [Hnd Hlsc] Hord Hwf. unfold c5_wf_step in Hwf. cbn [c5_mk c5_now c5_op c5_pre] in Hwf.
  apply andb_prop in Hwf. destruct Hwf as [Hwf Hop]. apply andb_prop in Hwf. destruct Hwf as [Hwf Hsc].
  destruct o; cbn [c5_in_scope] in Hsc; try discriminate; cbn [full_step].
  - destruct (rejected now (f_st f) r) eqn:Hrej.
    + unfold do_result. rewrite Hrej. exact Hord.
    + destruct (do_result_shape c now r f Hrej) as (Hd & _ & _). cbn zeta in Hd. rewrite Hd.
      destruct (negb (is_ok (c_kind (fc_base c)) (r_state r))); [|exact Hord].
      apply (OrdF_same [] (f_dts f)); [|exact Hord]. eapply Rl_SameChain. apply trigger_all_Rl. exact Hnd.
  - pose proof (get_ack_facts now f) as (A1 & _). destruct (get_ack now f) as [[a f'] o']. cbn [fst snd] in *.
    rewrite A1. exact Hord.
  - apply andb_prop in Hop. destruct Hop as [Hfr Hop2]. apply andb_prop in Hop2. destruct Hop2 as [_ Hself].
    apply negb_true_iff in Hfr. apply has_false_notin in Hfr.
    destruct (do_dt_add_Rwl c now id fixed start end_ duration trig_by parent owned f Hnd Hfr) as (ds2 & HR & Hd & _).
    rewrite Hd. set (dnew := new_dt now id fixed start end_ duration parent owned) in *.
    destruct (trig_by =? 0).
    + apply (OrdF_same [] (f_dts f ++ [dnew])); [eapply Rwl_SameChain; exact HR|]. apply OrdF_snoc; [exact Hord|reflexivity].
    + apply (OrdF_same [] (add_trigger trig_by id (f_dts f ++ [dnew]))).
      * apply add_trigger_same. eapply Rwl_SameChain. exact HR.
      * apply (OrdF_add [] (f_dts f) dnew trig_by Hord eq_refl); [intros []|exact Hfr|cbn; lia].
  - destruct (do_dt_remove_filter now id children r f) as (g & Hg & _). rewrite Hg. apply OrdF_filter. exact Hord.
  - apply (OrdF_same [] (f_dts f)); [|exact Hord]. eapply Rwl_SameChain. apply do_dt_start_timer_Rwl. exact Hnd.
  - destruct (do_dt_cleanup_filter now id f) as (g & Hg & _). rewrite Hg. apply OrdF_filter. exact Hord.
  - exact Hord.
Qed.

Lemma step_check_chain c now prev f o :
  DtInv2 now f -> Ord (f_dts f) -> c5_wf_step prev (c5_mk c now f o) = true -> c5_chk_chain (c5_mk c now f o) = true.
Proof.
  intros ([Hnd Hlsc] & Hs & He) Hord Hwf. unfold c5_chk_chain.
  unfold c5_wf_step in Hwf. cbn [c5_mk c5_now c5_op c5_pre] in Hwf.
  apply andb_prop in Hwf. destruct Hwf as [Hwf Hop]. apply andb_prop in Hwf. destruct Hwf as [Hwf Hsc].
  destruct o; cbn [c5_in_scope] in Hsc; try discriminate; cbn [c5_mk c5_op c5_pre c5_post c5_now full_step]; try reflexivity.
  - (* result *)
    destruct (rejected now (f_st f) r) eqn:Hrej.
    + unfold do_result. rewrite Hrej. cbn [fst]. rewrite newly_incl; [reflexivity|exact Hnd|apply incl_refl].
    + destruct (do_result_shape c now r f Hrej) as (Hd & _ & _). cbn zeta in Hd. rewrite Hd.
      destruct (negb (is_ok (c_kind (fc_base c)) (r_state r))); cbn [fst];
        [|rewrite newly_incl; [reflexivity|exact Hnd|apply incl_refl]].
      pose proof (trigger_all_Rl now (f_paused f) (r_end r) (f_dts f) Hnd) as HR.
      apply forallb_forall. intros d' Hd'. unfold c5_newly in Hd'. apply filter_In in Hd'. destruct Hd' as [Hd' Hp].
      apply andb_prop in Hp. destruct Hp as [Hp1 Hp2].
      destruct (find_dt (d_id d') (f_dts f)) as [x|] eqn:Fx; [|reflexivity].
      (* d' carries execution_end *)
      assert (d_trigger d' = r_end r) as Ht.
      { destruct (Rl_in _ _ _ _ _ HR Hd') as (x0 & Hx0 & HR0).
        destruct HR0 as [->|(_ & _ & ->)]; [|reflexivity]. exfalso.
        unfold c5_trig_of in Hp2. rewrite (find_dt_nodup _ x0 Hnd Hx0) in Hp2. lia. }
      apply forallb_forall. intros cid Hcid. destruct (find_dt cid (f_dts f)) as [cc|] eqn:Fc; [|reflexivity].
      destruct ((d_trigger cc =? 0) && c5_inwin now cc) eqn:E; [|reflexivity].
      apply andb_prop in E. destruct E as [E1 E2]. destruct (find_dt_some _ _ _ Fc) as [Hcc Hidc].
      pose proof (trigger_all_complete now (f_paused f) (r_end r) (f_dts f) cc Hnd Hcc ltac:(lia) E2) as Fpost.
      unfold c5_trig_of. rewrite <- Hidc, Fpost. cbn [d_trigger set_trig]. rewrite Ht.
      apply andb_true_intro. split; [apply negb_true_iff; lia|apply Z.eqb_refl].
  - (* ack read *)
    pose proof (get_ack_facts now f) as (A1 & _). destruct (get_ack now f) as [[a f'] o']. cbn [fst snd] in *.
    rewrite A1, newly_incl; [reflexivity|exact Hnd|apply incl_refl].
  - (* remove *)
    destruct (do_dt_remove_filter now id children r f) as (g & Hg & _).
    rewrite Hg, newly_incl; [reflexivity|exact Hnd|]. intros x Hx. apply filter_In in Hx. tauto.
  - (* start timer *)
    pose proof (start_timer_closed now f Hnd Hord He) as HC.
    apply forallb_forall. intros d' Hd'. unfold c5_newly in Hd'. apply filter_In in Hd'. destruct Hd' as [Hd' Hp].
    apply andb_prop in Hp. destruct Hp as [Hp1 Hp2].
    destruct (find_dt (d_id d') (f_dts f)) as [x|] eqn:Fx; [|reflexivity].
    destruct (find_dt_some _ _ _ Fx) as [Hx Hidx].
    unfold c5_trig_of in Hp2. rewrite Fx in Hp2.
    apply forallb_forall. intros cid Hcid. destruct (find_dt cid (f_dts f)) as [cc|] eqn:Fc; [|reflexivity].
    destruct ((d_trigger cc =? 0) && c5_inwin now cc) eqn:E; [|reflexivity].
    apply andb_prop in E. destruct E as [E1 E2]. rewrite andb_true_r. apply negb_true_iff. apply Z.eqb_neq.
    apply (HC x d' cid cc Hx Hd'); try assumption; lia.
  - (* cleanup *)
    destruct (do_dt_cleanup_filter now id f) as (g & Hg & _).
    rewrite Hg, newly_incl; [reflexivity|exact Hnd|]. intros x Hx. apply filter_In in Hx. tauto.
  - (* pause *)
    cbn [fst set_paused f_dts]. rewrite newly_incl; [reflexivity|exact Hnd|apply incl_refl].
Qed.

(* the invariant of the run theorems: DtInv2 plus creation order *)
Definition DtInv3 (now : Z) (f : full) : Prop := DtInv2 now f /\ Ord (f_dts f).
Lemma DtInv3_later now now' f : now <= now' -> DtInv3 now f -> DtInv3 now' f.
Proof. intros H [A B]. split; [eapply DtInv2_later; eassumption|exact B]. Qed.
Lemma DtInv3_init now : 0 <= now -> DtInv3 now init_full.
Proof. intros H. split; [apply DtInv2_init; exact H|exact I]. Qed.

(* ------------------------------------------------------------------ all proved checks along a run *)

Lemma same_static_entry a b : c5_same_static a b = true -> d_entry b = d_entry a.
Proof.
  unfold c5_same_static. intros H. repeat (apply andb_prop in H; destruct H as [H ?]). lia.
Qed.

Lemma step_DtInv2 c now prev f o :
  DtInv2 now f -> c5_wf_step prev (c5_mk c now f o) = true ->
  DtInv2 now (fst (full_step c now f o)).
Proof.
  intros Hinv Hwf. pose proof Hinv as (Hi & Hs & He).
  destruct (step_Mono c now prev f o Hi Hwf) as (HM & Hi' & _).
  destruct (step_check_start_inv c now prev f o Hinv Hwf) as (_ & Hsane). cbn zeta in Hsane.
  split; [exact Hi'|]. split; [exact Hsane|].
  unfold entries_sane in *. apply Forall_forall. intros d' Hd'.
  destruct (HM d' Hd') as (d & Hd & _ & Hst & _). rewrite (same_static_entry _ _ Hst).
  apply in_app_or in Hd. destruct Hd as [Hd|Hd].
  - rewrite Forall_forall in He. apply He. exact Hd.
  - unfold c5_wf_step in Hwf. cbn [c5_mk c5_now] in Hwf.
    repeat (apply andb_prop in Hwf; destruct Hwf as [Hwf ?]).
    destruct o; cbn [added_by] in Hd; try destruct Hd as [<-|[]]; try destruct Hd. cbn. lia.
Qed.

(* every check of the base oracle *)
Definition c5_step_all (k : kind) (s : c5_ostep) : bool :=
  c5_chk_mono s && c5_chk_nolate s && c5_chk_removed s && c5_chk_end s && c5_chk_owned s && c5_chk_cleanup s
  && c5_chk_result k s && c5_chk_add s && c5_chk_start s && c5_chk_trigev s && c5_chk_depth s && c5_chk_chain s.

(* none of the recorded findings' signatures along the run *)
Fixpoint c5_clean_run (c : fcfg) (f : full) (h : list (Z * op)) : bool :=
  match h with
  | [] => true
  | (now, o) :: rest =>
      negb (c5_sig_any (c_kind (fc_base c)) (c5_mk c now f o)) && c5_clean_run c (fst (full_step c now f o)) rest
  end.

Theorem model_trace_all_checks c : forall h prev f,
  DtInv3 prev f -> c5_wf_run c prev f h = true -> c5_clean_run c f h = true ->
  Forall (fun s => c5_step_all (c_kind (fc_base c)) s = true) (c5_model_trace c f h).
Proof.
  induction h as [|[now o] h IH]; intros prev f Hinv Hwf Hcl; cbn [c5_model_trace]; [constructor|].
  cbn [c5_wf_run] in Hwf. apply andb_prop in Hwf. destruct Hwf as [Hw Hrest].
  cbn [c5_clean_run] in Hcl. apply andb_prop in Hcl. destruct Hcl as [Hsig Hclr].
  apply negb_true_iff in Hsig. unfold c5_sig_any in Hsig.
  pose proof Hsig as S2.
  pose proof (wf_prev_le _ _ _ _ _ Hw) as Hle.
  pose proof (DtInv3_later _ _ _ Hle Hinv) as [Hinv' Hord]. pose proof Hinv' as (Hi & _ & _).
  constructor.
  - unfold c5_step_all.
    destruct (step_checks_mono_nolate c now prev f o Hi Hw) as [H1 H2].
    destruct (step_checks_removal c now prev f o Hi Hw) as (H3 & H4 & H5 & H6). cbn zeta in H3, H4, H5, H6.
    destruct (step_check_start_inv c now prev f o Hinv' Hw) as (H9 & _). cbn zeta in H9.
    rewrite H1, H2, H3, H4, H5, H6, (step_check_result c now prev f o Hi Hw),
      (step_check_add c now prev f o Hi Hw), (H9 S2), (step_check_trigev c now prev f o Hi Hw), step_check_depth,
      (step_check_chain c now prev f o Hinv' Hord Hw). reflexivity.
  - apply IH with now; [|exact Hrest|exact Hclr].
    split; [apply (step_DtInv2 c now prev f o Hinv' Hw)|apply (step_Ord c now prev f o Hi Hord Hw)].
Qed.

Lemma clean_run_premises :
  DtInv3 0 init_full /\ c5_wf_run wit_cfg 0 init_full wit_clean = true /\ c5_clean_run wit_cfg init_full wit_clean = true.
Proof. split; [apply DtInv3_init; lia|]. split; vm_compute; reflexivity. Qed.

Lemma start_end_once_step c now prev f o :
  DtInv2 now f -> c5_wf_step prev (c5_mk c now f o) = true ->
  let s := c5_mk c now f o in
  (c5_sig_loststart (c_kind (fc_base c)) s = false -> c5_chk_start s = true) /\
  c5_chk_removed s = true /\ c5_chk_end s = true.
Proof.
  intros Hinv Hwf s. pose proof Hinv as (Hi & _).
  destruct (step_check_start_inv c now prev f o Hinv Hwf) as (H9 & _).
  destruct (step_checks_removal c now prev f o Hi Hwf) as (H3 & H4 & _).
  exact (conj H9 (conj H3 H4)).
Qed.

Lemma cleanup_owned_step c now prev f o :
  DtInv now f -> c5_wf_step prev (c5_mk c now f o) = true ->
  c5_chk_owned (c5_mk c now f o) = true /\ c5_chk_cleanup (c5_mk c now f o) = true.
Proof.
  intros Hi Hwf. destruct (step_checks_removal c now prev f o Hi Hwf) as (_ & _ & H5 & H6).
  exact (conj H5 H6).
Qed.
