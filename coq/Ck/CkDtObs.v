(* C05 - the model's per-step observation records satisfy the (proved part of the) oracle's checks;
   in-effect characterisation; refutation witnesses of the recorded findings. *)
From Icv Require Import Base.Tac Ck.CkState Ck.CkFull Ck.CkDtDefs Ck.CkDtProofs.
Local Open Scope Z_scope.
Arguments chain_fuel : simpl never.

(* ------------------------------------------------------------------ one step of the model *)

(* what is carried along a run: names are unique, last_state_change is not in the future *)
Definition DtInv (now : Z) (f : full) : Prop := NoDup (ids (f_dts f)) /\ f_lsc f <= now.

Lemma DtInv_later now now' f : now <= now' -> DtInv now f -> DtInv now' f.
Proof. intros H [A B]. split; [exact A|lia]. Qed.

Lemma DtInv_init now : 0 <= now -> DtInv now init_full.
Proof. intros H. split; [constructor|cbn; lia]. Qed.

Definition added_by (now : Z) (o : op) : list dt :=
  match o with
  | OpDtAdd id fixed start end_ dur _ parent owned => [new_dt now id fixed start end_ dur parent owned]
  | _ => []
  end.

Lemma incl_Mono now pre post g : post = filter g pre -> Mono now pre post.
Proof. intros ->. apply Mono_filter, Mono_refl. Qed.

Lemma has_false_notin id ds : c5_has id ds = false -> ~ In id (ids ds).
Proof. unfold c5_has. destruct (find_dt id ds) eqn:E; [discriminate|]. intros _. apply find_dt_none. exact E. Qed.

(* every in-scope operation: Mono w.r.t. (pre ++ what it adds), names stay unique, lsc stays sane *)
Lemma step_Mono c now prev f o :
  DtInv now f -> c5_wf_step prev (c5_mk c now f o) = true ->
  Mono now (f_dts f ++ added_by now o) (f_dts (fst (full_step c now f o))) /\
  DtInv now (fst (full_step c now f o)) /\
  NoDup (ids (f_dts f ++ added_by now o)).
Proof.
  intros [Hnd Hlsc] Hwf. unfold c5_wf_step in Hwf. cbn [c5_mk c5_now c5_op c5_pre] in Hwf.
  apply andb_prop in Hwf. destruct Hwf as [Hwf Hop]. apply andb_prop in Hwf. destruct Hwf as [Hwf Hsc].
  destruct o; cbn [c5_in_scope] in Hsc; try discriminate; cbn [full_step added_by].
  - (* result *)
    rewrite app_nil_r.
    destruct (rejected now (f_st f) r) eqn:Hrej.
    + unfold do_result. rewrite Hrej. cbn [fst]. repeat split; [apply Mono_refl|exact Hnd|exact Hlsc|exact Hnd].
    + destruct (do_result_shape c now r f Hrej) as (Hd & Hl & _). cbn zeta in Hd.
      assert (Rwl now (f_dts f) (f_dts (fst (do_result c now r f)))) as HR.
      { rewrite Hd. destruct (negb (is_ok (c_kind (fc_base c)) (r_state r))); [|apply Rwl_refl].
        eapply Rl_Rwl. apply trigger_all_Rl. exact Hnd. }
      repeat split; [apply Rwl_Mono; exact HR|rewrite (Rwl_ids _ _ _ HR); exact Hnd| |exact Hnd].
      cbn [c5_op c5_mk] in Hop. destruct Hl as [->| ->]; lia.
  - (* ack read *)
    rewrite app_nil_r. pose proof (get_ack_facts now f) as (A1 & A2 & A3 & A4).
    destruct (get_ack now f) as [[a f'] o']. cbn [fst snd] in *.
    repeat split; [rewrite A1; apply Mono_refl|rewrite A1; exact Hnd|rewrite A3; exact Hlsc|exact Hnd].
  - (* add *)
    cbn [c5_op c5_mk c5_pre] in Hop. apply andb_prop in Hop. destruct Hop as [Hfr _].
    apply negb_true_iff in Hfr. apply has_false_notin in Hfr.
    destruct (do_dt_add_Rwl c now id fixed start end_ duration trig_by parent owned f Hnd Hfr) as (ds2 & HR & Hd & Hl).
    assert (NoDup (ids (f_dts f ++ [new_dt now id fixed start end_ duration parent owned]))) as Hnd0.
    { rewrite ids_app. apply nodup_snoc; assumption. }
    repeat split; [| |rewrite Hl; exact Hlsc|exact Hnd0].
    + rewrite Hd. destruct (trig_by =? 0); [apply Rwl_Mono; exact HR|apply Mono_add_trigger, Rwl_Mono; exact HR].
    + rewrite Hd. destruct (trig_by =? 0); [|rewrite add_trigger_ids]; rewrite (Rwl_ids _ _ _ HR); exact Hnd0.
  - (* remove *)
    rewrite app_nil_r. destruct (do_dt_remove_filter now id children r f) as (g & Hg & Hl).
    repeat split; [eapply incl_Mono; exact Hg|rewrite Hg; apply nodup_ids_filter; exact Hnd|rewrite Hl; exact Hlsc|exact Hnd].
  - (* start timer *)
    rewrite app_nil_r. destruct (do_dt_start_timer_Rwl now f Hnd) as (HR & Hl).
    repeat split; [apply Rwl_Mono; exact HR|rewrite (Rwl_ids _ _ _ HR); exact Hnd|rewrite Hl; exact Hlsc|exact Hnd].
  - (* cleanup *)
    rewrite app_nil_r. destruct (do_dt_cleanup_filter now id f) as (g & Hg & Hl).
    repeat split; [eapply incl_Mono; exact Hg|rewrite Hg; apply nodup_ids_filter; exact Hnd|rewrite Hl; exact Hlsc|exact Hnd].
  - (* pause *)
    rewrite app_nil_r. cbn. repeat split; [apply Mono_refl|exact Hnd|exact Hlsc|exact Hnd].
Qed.

Lemma added_untriggered now o : Forall (fun d => d_trigger d = 0) (added_by now o).
Proof. destruct o; cbn; repeat constructor. Qed.

(* checks 1 and 2: trigger time / attributes never change, no trigger outside the window *)
Lemma step_checks_mono_nolate c now prev f o :
  DtInv now f -> c5_wf_step prev (c5_mk c now f o) = true ->
  c5_chk_mono (c5_mk c now f o) = true /\ c5_chk_nolate (c5_mk c now f o) = true.
Proof.
  intros Hinv Hwf. destruct (step_Mono c now prev f o Hinv Hwf) as (HM & _ & Hnd0).
  destruct (Mono_checks now (f_dts f) (added_by now o) _ Hnd0 (added_untriggered now o) HM) as [H1 H2].
  split; [|exact H2].
  unfold c5_chk_mono. cbn [c5_mk c5_post c5_pre c5_op].
  apply forallb_forall. intros d' Hin. pose proof (proj1 (forallb_forall _ _) H1 d' Hin) as H. cbn beta in H.
  destruct (find_dt (d_id d') (f_dts f)); [exact H|].
  destruct o; cbn [added_by existsb] in H; try discriminate.
  rewrite orb_false_r in H. exact H.
Qed.

Lemma newly_same ds : NoDup (ids ds) -> c5_newly ds ds = [].
Proof.
  intros Hnd. unfold c5_newly.
  assert (forall l, incl l ds ->
            filter (fun d' => negb (d_trigger d' =? 0) && (c5_trig_of (d_id d') ds =? 0)) l = []) as H.
  { induction l as [|x l IH]; intros Hi; cbn; [reflexivity|].
    assert (In x ds) as Hx by (apply Hi; left; reflexivity).
    unfold c5_trig_of at 1. rewrite (find_dt_nodup ds x Hnd Hx).
    destruct (d_trigger x =? 0); cbn; apply IH; intros y Hy; apply Hi; right; exact Hy. }
  apply H. apply incl_refl.
Qed.

(* check 7: a non-OK result triggers every untriggered downtime inside its window, with execution_end *)
Lemma step_check_result c now prev f o :
  DtInv now f -> c5_wf_step prev (c5_mk c now f o) = true ->
  c5_chk_result (c_kind (fc_base c)) (c5_mk c now f o) = true.
Proof.
  intros [Hnd Hlsc] Hwf. unfold c5_chk_result. cbn [c5_mk c5_op c5_accepted c5_pre c5_post c5_now].
  destruct o; try reflexivity. cbn [full_step].
  destruct (rejected now (f_st f) r) eqn:Hrej; cbn [negb andb].
  - unfold do_result. rewrite Hrej. cbn [fst]. rewrite newly_same by exact Hnd. reflexivity.
  - destruct (do_result_shape c now r f Hrej) as (Hd & _ & _). cbn zeta in Hd. rewrite Hd.
    destruct (negb (is_ok (c_kind (fc_base c)) (r_state r))); cbn [fst].
    + apply forallb_forall. intros d Hin.
      destruct ((d_trigger d =? 0) && c5_inwin now d) eqn:E; [|reflexivity]. cbn [negb orb].
      apply andb_prop in E. destruct E as [E1 E2].
      unfold c5_trig_of.
      rewrite (trigger_all_complete now (f_paused f) (r_end r) (f_dts f) d Hnd Hin); [|lia|exact E2].
      cbn. apply Z.eqb_refl.
    + rewrite newly_same by exact Hnd. reflexivity.
Qed.

(* check 11: downtime_depth is the number of downtimes in effect *)
Lemma step_check_depth c now f o : c5_chk_depth (c5_mk c now f o) = true.
Proof.
  unfold c5_chk_depth. cbn [c5_mk c5_depth c5_post c5_now]. destruct o; try reflexivity.
  unfold downtime_depth. apply Z.eqb_refl.
Qed.

(* the part of the oracle that is proved for every model step *)
Definition c5_step_proved (k : kind) (s : c5_ostep) : bool :=
  c5_chk_mono s && c5_chk_nolate s && c5_chk_result k s && c5_chk_depth s.

Fixpoint c5_wf_run (c : fcfg) (prev : Z) (f : full) (h : list (Z * op)) : bool :=
  match h with
  | [] => true
  | (now, o) :: rest => c5_wf_step prev (c5_mk c now f o) && c5_wf_run c now (fst (full_step c now f o)) rest
  end.

Lemma wf_prev_le c prev now f o : c5_wf_step prev (c5_mk c now f o) = true -> prev <= now.
Proof.
  unfold c5_wf_step. cbn [c5_mk c5_now]. intros H.
  repeat (apply andb_prop in H; destruct H as [H ?]). lia.
Qed.

Theorem model_trace_proved_checks c : forall h prev f,
  DtInv prev f -> c5_wf_run c prev f h = true ->
  Forall (fun s => c5_step_proved (c_kind (fc_base c)) s = true) (c5_model_trace c f h).
Proof.
  induction h as [|[now o] h IH]; intros prev f Hinv Hwf; cbn [c5_model_trace]; [constructor|].
  cbn [c5_wf_run] in Hwf. apply andb_prop in Hwf. destruct Hwf as [Hw Hrest].
  pose proof (wf_prev_le _ _ _ _ _ Hw) as Hle.
  pose proof (DtInv_later _ _ _ Hle Hinv) as Hinv'.
  constructor.
  - unfold c5_step_proved.
    destruct (step_checks_mono_nolate c now prev f o Hinv' Hw) as [H1 H2].
    rewrite H1, H2, (step_check_result c now prev f o Hinv' Hw), step_check_depth. reflexivity.
  - apply IH with now; [|exact Hrest].
    destruct (step_Mono c now prev f o Hinv' Hw) as (_ & H & _). exact H.
Qed.

(* ------------------------------------------------------------------ in effect / depth *)
Lemma in_effect_char now d :
  dt_in_effect now d = true <->
  (d_fixed d = true /\ d_start d <= now < d_end d) \/
  (d_fixed d = false /\ d_trigger d <> 0 /\ now < d_trigger d + d_duration d).
Proof.
  unfold dt_in_effect. destruct (d_fixed d).
  - split; [intros H; left; split; [reflexivity|lia]|intros [[_ H]|[H _]]; [lia|discriminate]].
  - destruct (d_trigger d =? 0) eqn:E.
    + split; [discriminate|intros [[H _]|(_ & H & _)]; [discriminate|lia]].
    + split; [intros H; right; repeat split; lia|intros [[H _]|(_ & _ & H)]; [discriminate|lia]].
Qed.

Lemma in_downtime_char now f :
  in_downtime now f = true <-> exists d, In d (f_dts f) /\ dt_in_effect now d = true.
Proof. unfold in_downtime. apply existsb_exists. Qed.

Lemma depth_char now f :
  downtime_depth now f = Z.of_nat (length (filter (dt_in_effect now) (f_dts f))) /\
  (0 < downtime_depth now f <-> in_downtime now f = true).
Proof.
  split; [reflexivity|]. unfold downtime_depth, in_downtime.
  induction (f_dts f) as [|d l IH]; cbn [filter existsb length].
  - cbn. split; [lia|discriminate].
  - destruct (dt_in_effect now d); cbn [length orb].
    + split; [reflexivity|lia].
    + exact IH.
Qed.

(* ------------------------------------------------------------------ refutation witnesses *)
Definition wit_cfg : fcfg :=
  {| fc_base := {| c_kind := KService; c_max := 3; c_volatile := false |}; fc_flap_enabled := false;
     fc_flap_high := 3005; fc_flap_low := 2505; fc_active_checks := false; fc_check_interval := 300 |}.
Definition wit_cr (s : sstate) (t : Z) : op := OpResult {| r_state := s; r_start := t; r_end := t |}.

(* pending-flexible: never-checked service, flexible downtime [1000,1100] added at 1010 *)
Definition wit_pending : list (Z * op) := [(1010, OpDtAdd 1 false 1000 1100 30 0 0 false)].
(* lost-start: fixed downtime [1010,1100] added at 1000, CRITICAL at 1011, start timer at 1011, clean-up at 1101 *)
Definition wit_loststart : list (Z * op) :=
  [(1000, wit_cr SOK 1000); (1000, OpDtAdd 1 true 1010 1100 0 0 0 false); (1011, wit_cr SCritical 1011);
   (1011, OpDtStartTimer); (1101, OpDtCleanup 1)].
(* start-at-end-instant: fixed downtime [1000,1100] added at 1000, start timer twice at 1100 *)
Definition wit_endinstant : list (Z * op) :=
  [(1000, wit_cr SOK 1000); (1000, OpDtAdd 1 true 1000 1100 0 0 0 false); (1100, OpDtStartTimer); (1100, OpDtStartTimer)].

Definition total_cnt (p : out -> bool) (t : list c5_ostep) : Z :=
  fold_left (fun a s => a + c5_cnt p (c5_outs s)) t 0.

Lemma pending_flexible_refuted :
  c5_wf_run wit_cfg 0 init_full wit_pending = true /\
  exists s, In s (c5_model_trace wit_cfg init_full wit_pending) /\
            c5_checked s = false /\ c5_problem s = false /\ c5_chk_add s = false /\ c5_sig_pending s = true /\
            c5_trig_of 1 (c5_post s) = 1010.
Proof. split; [vm_compute; reflexivity|]. eexists. split; [left; reflexivity|]. vm_compute. repeat split. Qed.

Lemma lost_start_refuted :
  c5_wf_run wit_cfg 0 init_full wit_loststart = true /\
  total_cnt c5_is_start (c5_model_trace wit_cfg init_full wit_loststart) = 0 /\
  total_cnt c5_is_end (c5_model_trace wit_cfg init_full wit_loststart) = 1 /\
  exists s, In s (c5_model_trace wit_cfg init_full wit_loststart) /\
            c5_chk_start s = false /\ c5_sig_loststart KService s = true.
Proof.
  split; [vm_compute; reflexivity|]. split; [vm_compute; reflexivity|]. split; [vm_compute; reflexivity|].
  eexists. split; [right; right; left; reflexivity|]. vm_compute. split; reflexivity.
Qed.

Lemma start_at_end_instant_refuted :
  c5_wf_run wit_cfg 0 init_full wit_endinstant = true /\
  total_cnt c5_is_start (c5_model_trace wit_cfg init_full wit_endinstant) = 3 /\
  exists s, In s (c5_model_trace wit_cfg init_full wit_endinstant) /\
            c5_chk_start s = false /\ c5_sig_endinstant s = true /\ c5_chk_depth s = true /\
            length (filter (dt_in_effect (c5_now s)) (c5_post s)) = 0%nat.
Proof.
  split; [vm_compute; reflexivity|]. split; [vm_compute; reflexivity|].
  eexists. split; [right; right; left; reflexivity|]. vm_compute. repeat split.
Qed.

(* without the findings' signatures the whole oracle accepts these runs' clean counterparts (non-vacuity) *)
Definition wit_clean : list (Z * op) :=
  [(1000, wit_cr SOK 1000); (1000, OpDtAdd 1 true 1010 1100 0 0 0 false); (1000, OpDtAdd 2 false 1000 1100 30 1 0 false);
   (1011, OpDtStartTimer); (1012, wit_cr SCritical 1012); (1041, OpAckRead); (1042, OpDtCleanup 2);
   (1050, OpDtRemove 1 false RByUser)].
Lemma clean_run_accepted :
  c5_wf_run wit_cfg 0 init_full wit_clean = true /\
  c5_oracle KService (c5_model_trace wit_cfg init_full wit_clean) = [] /\
  total_cnt c5_is_start (c5_model_trace wit_cfg init_full wit_clean) = 2 /\
  total_cnt c5_is_end (c5_model_trace wit_cfg init_full wit_clean) = 2 /\
  forallb (fun s => negb (c5_sig_any KService s)) (c5_model_trace wit_cfg init_full wit_clean) = true.
Proof. vm_compute. repeat split. Qed.
