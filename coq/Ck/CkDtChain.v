(* C05 - chained triggers at every level.
   Invariant: a chained downtime is created after the downtime it is triggered by (Downtime::AddDowntime takes the
   trigger downtime as an existing object and appends the new name to its `triggers` only after the new object was
   created), i.e. in creation order the names in d.triggers never refer to d itself or to anything before d.
   Consequence: the recursion of TriggerDowntime along `triggers` only moves forward in the list, so the fuel
   (number of downtimes + 1) is never exhausted, and one TriggerDowntime(t) call gives every downtime reachable
   through `triggers` from a downtime it triggers - and inside its own window - the same trigger time t. *)
From Icv Require Import Base.Tac Ck.CkState Ck.CkFull Ck.CkDtDefs Ck.CkDtProofs.
Local Open Scope Z_scope.
Arguments chain_fuel : simpl never.

(* ------------------------------------------------------------------ creation order *)
Fixpoint OrdF (seen : list Z) (ds : list dt) : Prop :=
  match ds with
  | [] => True
  | p :: rest => (forall cid, In cid (d_triggers p) -> cid <> d_id p /\ ~ In cid seen) /\ OrdF (d_id p :: seen) rest
  end.
Definition Ord (ds : list dt) : Prop := OrdF [] ds.

Lemma OrdF_weaken seen seen' ds : incl seen' seen -> OrdF seen ds -> OrdF seen' ds.
Proof.
  revert seen seen'. induction ds as [|p rest IH]; intros seen seen' Hi H; [exact I|]. destruct H as [H1 H2]. split.
  - intros cid Hc. destruct (H1 cid Hc) as [A B]. split; [exact A|]. intros Hin. apply B, Hi, Hin.
  - apply (IH (d_id p :: seen)); [|exact H2]. intros x [->|Hx]; [left; reflexivity|right; apply Hi, Hx].
Qed.

Lemma OrdF_filter g seen ds : OrdF seen ds -> OrdF seen (filter g ds).
Proof.
  revert seen. induction ds as [|p rest IH]; intros seen H; [exact I|]. destruct H as [H1 H2]. cbn [filter].
  destruct (g p).
  - split; [exact H1|apply IH; exact H2].
  - apply IH. eapply OrdF_weaken; [|exact H2]. intros x Hx. right. exact Hx.
Qed.

(* same names and same triggers lists, position by position *)
Definition SameChain (a b : list dt) : Prop := Forall2 (fun d d' => d_id d' = d_id d /\ d_triggers d' = d_triggers d) a b.

Lemma OrdF_same seen a b : SameChain a b -> OrdF seen a -> OrdF seen b.
Proof.
  intros H. revert seen. induction H as [|x y l l' [H1 H2] _ IH]; intros seen Ho; [exact I|].
  destruct Ho as [A B]. split; [rewrite H1, H2; exact A|rewrite H1; apply IH; exact B].
Qed.

Lemma Rl_SameChain now t a b : Rl now t a b -> SameChain a b.
Proof. induction 1; constructor; [|assumption]. destruct H as [->|(_ & _ & ->)]; split; reflexivity. Qed.
Lemma Rwl_SameChain now a b : Rwl now a b -> SameChain a b.
Proof. induction 1; constructor; [|assumption]. destruct H as [->|(_ & _ & t & ->)]; split; reflexivity. Qed.

(* AddDowntime: the new object goes last and its name is appended to the triggers of an existing downtime *)
Lemma OrdF_add seen ds dnew p :
  OrdF seen ds -> d_triggers dnew = [] -> ~ In (d_id dnew) seen -> ~ In (d_id dnew) (ids ds) -> p <> d_id dnew ->
  OrdF seen (add_trigger p (d_id dnew) (ds ++ [dnew])).
Proof.
  revert seen. induction ds as [|x rest IH]; intros seen Ho Ht Hs Hf Hp.
  - cbn [app add_trigger map]. replace (d_id dnew =? p) with false by lia. cbn [andb]. cbn [OrdF]. rewrite Ht.
    split; [intros cid []|exact I].
  - destruct Ho as [A B]. cbn [app add_trigger map].
    assert (~ In (d_id dnew) (d_id x :: seen)) as Hs'.
    { intros [E|E]; [apply Hf; left; exact E|exact (Hs E)]. }
    assert (~ In (d_id dnew) (ids rest)) as Hf' by (intros E; apply Hf; right; exact E).
    fold (add_trigger p (d_id dnew) (rest ++ [dnew])).
    destruct ((d_id x =? p) && negb (existsb (Z.eqb (d_id dnew)) (d_triggers x))); cbn [OrdF d_id d_triggers].
    + split; [|apply IH; assumption].
      intros cid Hc. apply in_app_or in Hc. destruct Hc as [Hc|[<-|[]]]; [apply A; exact Hc|].
      split; [intros E; apply Hf; left; symmetry; exact E|exact Hs].
    + split; [exact A|apply IH; assumption].
Qed.

Lemma OrdF_snoc seen ds dnew :
  OrdF seen ds -> d_triggers dnew = [] -> OrdF seen (ds ++ [dnew]).
Proof.
  revert seen. induction ds as [|x rest IH]; intros seen Ho Ht; cbn.
  - rewrite Ht. split; [intros cid []|exact I].
  - destruct Ho as [A B]. split; [exact A|apply IH; assumption].
Qed.

(* ------------------------------------------------------------------ positions: length of the part after a name *)
Fixpoint sfx (id : Z) (ds : list dt) : nat :=
  match ds with
  | [] => O
  | x :: r => if d_id x =? id then length r else sfx id r
  end.

Lemma sfx_same id a b : SameChain a b -> sfx id a = sfx id b.
Proof.
  induction 1 as [|x y l l' [H1 _] HF IH]; [reflexivity|]. cbn. rewrite H1, IH.
  destruct (d_id x =? id); [|reflexivity]. clear - HF. induction HF; cbn; congruence.
Qed.

Lemma sfx_lt id ds : In id (ids ds) -> (sfx id ds < length ds)%nat.
Proof.
  unfold ids. induction ds as [|x r IH]; cbn; intros H; [destruct H|].
  destruct (d_id x =? id) eqn:E; [lia|]. destruct H as [H|H]; [lia|]. specialize (IH H). lia.
Qed.

Lemma OrdF_seen seen ds d cid : OrdF seen ds -> In d ds -> In cid (d_triggers d) -> ~ In cid seen.
Proof.
  revert seen. induction ds as [|x r IH]; intros seen Ho Hd Hc; [destruct Hd|]. destruct Ho as [A B].
  destruct Hd as [<-|Hd]; [apply A; exact Hc|].
  intros Hs. apply (IH (d_id x :: seen) B Hd Hc). right. exact Hs.
Qed.

(* a chained name that exists lies strictly behind the downtime that lists it *)
Lemma ord_child_sfx seen ds id d cid :
  OrdF seen ds -> NoDup (ids ds) -> find_dt id ds = Some d -> In cid (d_triggers d) -> In cid (ids ds) ->
  (sfx cid ds < sfx id ds)%nat.
Proof.
  revert seen. unfold find_dt, ids. induction ds as [|x r IH]; intros seen Ho Hnd Hf Hc Hin; [discriminate|].
  destruct Ho as [A B]. cbn in Hf, Hnd, Hin |- *. inversion Hnd; subst.
  destruct (d_id x =? id) eqn:E.
  - inversion Hf; subst. destruct (A cid Hc) as [Hne _].
    replace (d_id d =? cid) with false by lia. destruct Hin as [Hin|Hin]; [congruence|].
    apply sfx_lt. exact Hin.
  - assert (In d r) as Hd by (apply find_some in Hf; tauto).
    assert (d_id x <> cid) as Hne.
    { intros Ee. apply (OrdF_seen _ _ _ _ B Hd Hc). left. exact Ee. }
    replace (d_id x =? cid) with false by lia. destruct Hin as [Hin|Hin]; [congruence|].
    apply (IH (d_id x :: seen)); assumption.
Qed.

(* ------------------------------------------------------------------ closure of one TriggerDowntime call *)

(* everything a changed downtime lists in `triggers`, and that was untriggered and inside its own window, carries t afterwards *)
Definition Closed (now t : Z) (ds ds' : list dt) : Prop :=
  forall x x' cid c,
    In x ds -> In x' ds' -> d_id x' = d_id x -> d_trigger x' <> d_trigger x ->
    In cid (d_triggers x) -> find_dt cid ds = Some c -> d_trigger c = 0 -> c5_inwin now c = true ->
    c5_trig_of cid ds' = t.

Lemma Closed_refl now t ds : NoDup (ids ds) -> Closed now t ds ds.
Proof.
  intros Hnd x x' cid c Hx Hx' Hid Hne. exfalso. apply Hne.
  pose proof (find_dt_nodup ds x Hnd Hx) as F1. pose proof (find_dt_nodup ds x' Hnd Hx') as F2.
  rewrite Hid in F2. rewrite F1 in F2. inversion F2. reflexivity.
Qed.

Lemma trig_persist now t a b i :
  NoDup (ids a) -> Rl now t a b -> c5_has i a = true -> c5_trig_of i a = t -> c5_trig_of i b = t.
Proof.
  intros Hnd HR Hh Ht. unfold c5_has, c5_trig_of in *. destruct (find_dt i a) as [ca|] eqn:Fa; [|discriminate].
  destruct (find_dt_some _ _ _ Fa) as [Hca Hida].
  destruct (Rl_in_l _ _ _ _ _ HR Hca) as (cb & Hcb & HRc).
  assert (NoDup (ids b)) as Hndb by (rewrite (Rl_ids _ _ _ _ HR); exact Hnd).
  pose proof (find_dt_nodup b cb Hndb Hcb) as Fb. rewrite (R1_id _ _ _ _ HRc), Hida in Fb. rewrite Fb.
  destruct HRc as [->|(_ & _ & ->)]; [exact Ht|reflexivity].
Qed.

Lemma inwin_set now c t : c5_inwin now (set_trig c t) = c5_inwin now c.
Proof. reflexivity. Qed.

Lemma Closed_trans now t ds0 a b :
  NoDup (ids ds0) -> Rl now t ds0 a -> Rl now t a b -> Closed now t ds0 a -> Closed now t a b -> Closed now t ds0 b.
Proof.
  intros Hnd H0a Hab C0a Cab x x'' cid c Hx Hx'' Hid Hne Hcid Fc Hc0 Hcw.
  assert (NoDup (ids a)) as Hnda by (rewrite (Rl_ids _ _ _ _ H0a); exact Hnd).
  destruct (Rl_in_l _ _ _ _ _ H0a Hx) as (xa & Hxa & HRx).
  destruct (find_dt_some _ _ _ Fc) as [Hc Hidc].
  destruct (Rl_in_l _ _ _ _ _ H0a Hc) as (ca & Hca & HRc).
  assert (find_dt cid a = Some ca) as Fca.
  { pose proof (find_dt_nodup a ca Hnda Hca) as F. rewrite (R1_id _ _ _ _ HRc), Hidc in F. exact F. }
  assert (c5_has cid a = true) as Hha by (unfold c5_has; rewrite Fca; reflexivity).
  destruct (Z.eq_dec (d_trigger xa) (d_trigger x)) as [E|E].
  - (* x changes between a and b *)
    assert (d_triggers xa = d_triggers x /\ d_id xa = d_id x) as [Tx Ix].
    { destruct HRx as [->|(_ & _ & ->)]; split; reflexivity. }
    destruct (Z.eq_dec (d_trigger ca) 0) as [E0|E0].
    + apply (Cab xa x'' cid ca Hxa Hx''); try congruence.
      destruct HRc as [->|(_ & _ & ->)]; [exact Hcw|exact Hcw].
    + apply (trig_persist now t a b cid Hnda Hab Hha). unfold c5_trig_of. rewrite Fca.
      destruct HRc as [->|(_ & _ & ->)]; [congruence|reflexivity].
  - (* x changed already in a *)
    apply (trig_persist now t a b cid Hnda Hab Hha).
    apply (C0a x xa cid c Hx Hxa); try assumption. apply (R1_id _ _ _ _ HRx).
Qed.

Lemma upd_other id t ds x : In x ds -> d_id x <> id -> In x (upd_trigger id t ds).
Proof.
  intros Hx Hne. unfold upd_trigger. apply in_map_iff. exists x. split; [|exact Hx].
  replace (d_id x =? id) with false by lia. reflexivity.
Qed.

Lemma find_upd_other id cid t ds : cid <> id -> find_dt cid (upd_trigger id t ds) = find_dt cid ds.
Proof.
  intros Hne. unfold find_dt, upd_trigger. induction ds as [|x r IH]; cbn; [reflexivity|].
  destruct (d_id x =? id) eqn:E; cbn [d_id].
  - replace (d_id x =? cid) with false by lia. exact IH.
  - destruct (d_id x =? cid); [reflexivity|exact IH].
Qed.

Lemma find_upd_same id t ds d : find_dt id ds = Some d -> find_dt id (upd_trigger id t ds) = Some (set_trig d t).
Proof.
  unfold find_dt, upd_trigger. induction ds as [|x r IH]; cbn; [discriminate|].
  destruct (d_id x =? id) eqn:E; cbn [d_id]; rewrite E; [|exact IH].
  intros H. inversion H; subst. reflexivity.
Qed.

Theorem trigger_dt_closed fuel : forall now p id t ds,
  NoDup (ids ds) -> Ord ds -> (forall d, find_dt id ds = Some d -> (sfx id ds < fuel)%nat) ->
  Closed now t ds (fst (trigger_dt fuel now p id t ds)).
Proof.
  induction fuel as [|fuel IH]; intros now p id t ds Hnd Hord Hfu; cbn [trigger_dt]; [apply Closed_refl; exact Hnd|].
  destruct (find_dt id ds) as [d|] eqn:Hf; [|apply Closed_refl; exact Hnd].
  destruct (dt_can_be_triggered now d) eqn:Hc; cbn [negb]; [|apply Closed_refl; exact Hnd].
  specialize (Hfu d eq_refl).
  destruct (find_dt_some _ _ _ Hf) as [Hd Hidd].
  set (ds1 := if d_trigger d =? 0 then upd_trigger id t ds else ds).
  assert (Rl now t ds ds1) as H1.
  { unfold ds1. destruct (d_trigger d =? 0) eqn:E; [|apply Rl_refl].
    apply upd_trigger_Rl with d; try assumption; [lia|apply can_inwin; exact Hc]. }
  assert (NoDup (ids ds1)) as Hnd1 by (rewrite (Rl_ids _ _ _ _ H1); exact Hnd).
  (* (A) the loop over the chained downtimes keeps the closure w.r.t. ds1 *)
  match goal with |- context [fold_left ?g ?l ?a] =>
    assert (let r := fold_left g l a in Rl now t ds1 (fst r) /\ Closed now t ds1 (fst r)) as HA end.
  { apply fold_left_inv with (Q := fun acc => Rl now t ds1 (fst acc) /\ Closed now t ds1 (fst acc)).
    - split; [apply Rl_refl|apply Closed_refl; exact Hnd1].
    - intros [dsa oa] cid Hcid [Ha Ca]. cbn [fst] in Ha, Ca.
      assert (Rl now t ds dsa) as Ha0 by (apply (Rl_trans _ _ _ _ _ H1 Ha)).
      assert (NoDup (ids dsa)) as Hnda by (rewrite (Rl_ids _ _ _ _ Ha0); exact Hnd).
      assert (Ord dsa) as Horda by (apply (OrdF_same [] ds dsa (Rl_SameChain _ _ _ _ Ha0) Hord)).
      assert (forall c, find_dt cid dsa = Some c -> (sfx cid dsa < fuel)%nat) as Hfua.
      { intros c Fc. rewrite <- (sfx_same cid ds dsa (Rl_SameChain _ _ _ _ Ha0)).
        assert (In cid (ids ds)) as Hin.
        { rewrite <- (Rl_ids _ _ _ _ Ha0). destruct (find_dt_some _ _ _ Fc) as [Hc1 Hc2]. rewrite <- Hc2. unfold ids. apply in_map. exact Hc1. }
        pose proof (ord_child_sfx [] ds id d cid Hord Hnd Hf Hcid Hin). lia. }
      pose proof (IH now p cid t dsa Hnda Horda Hfua) as Hi.
      pose proof (trigger_dt_Rl fuel now p cid t dsa Hnda) as HRi.
      destruct (trigger_dt fuel now p cid t dsa) as [dsb ob]. cbn [fst] in *.
      split; [eapply Rl_trans; eassumption|]. apply (Closed_trans now t ds1 dsa dsb Hnd1 Ha HRi Ca Hi). }
  (* (B) the downtimes chained directly to d *)
  assert (forall cid c, In cid (d_triggers d) -> find_dt cid ds = Some c -> d_trigger c = 0 -> c5_inwin now c = true ->
            forall F, F = fold_left (fun acc cid0 => let '(dsa, oa) := acc in
                                                     let '(dsb, ob) := trigger_dt fuel now p cid0 t dsa in (dsb, oa ++ ob))
                                    (d_triggers d) (ds1, @nil out) ->
            c5_trig_of cid (fst F) = t) as HB.
  { intros cid c Hcid Fc Hc0 Hcw F ->.
    destruct (find_dt_some _ _ _ Fc) as [Hcin Hcid'].
    assert (In cid (ids ds)) as Hin by (rewrite <- Hcid'; unfold ids; apply in_map; exact Hcin).
    pose proof (ord_child_sfx [] ds id d cid Hord Hnd Hf Hcid Hin) as Hlt.
    destruct fuel as [|n]; [lia|].
    assert (In (d_id c) (d_triggers d)) as Hcid2 by (rewrite Hcid'; exact Hcid).
    destruct (fold_trigger_complete (fun _ => S n) now p t ds c (fun _ => ex_intro _ n eq_refl) Hnd Hcin Hc0 Hcw
                (d_triggers d) (ds1, []) H1 (or_introl Hcid2)) as [HF _].
    unfold c5_trig_of. rewrite <- Hcid'.
    match goal with |- context [fold_left ?g ?l ?a] => set (FF := fold_left g l a) end.
    change (find_dt (d_id c) (fst FF) = Some (set_trig c t)) in HF. rewrite HF. reflexivity. }
  match goal with |- context [fold_left ?g ?l ?a] => set (F := fold_left g l a) in * end.
  specialize (fun cid c h1 h2 h3 h4 => HB cid c h1 h2 h3 h4 F eq_refl).
  cbn zeta in HA. destruct HA as [HR12 HC12].
  assert (Closed now t ds (fst F)) as HC.
  { intros x x' cid c Hx Hx' Hid Hne Hcid Fc Hc0 Hcw.
    destruct (Z.eq_dec (d_id x) id) as [E|E].
    - (* x is d itself *)
      assert (x = d) as ->.
      { pose proof (find_dt_nodup ds x Hnd Hx) as F1. rewrite E, Hf in F1. inversion F1. reflexivity. }
      apply (HB cid c Hcid Fc Hc0 Hcw).
    - (* x is changed by the loop *)
      assert (In x ds1) as Hx1.
      { unfold ds1. destruct (d_trigger d =? 0); [apply upd_other; assumption|exact Hx]. }
      destruct (Z.eq_dec cid id) as [Ec|Ec].
      + (* x lists d *)
        subst cid. rewrite Hf in Fc. inversion Fc; subst c.
        assert (c5_has id ds1 = true /\ c5_trig_of id ds1 = t) as [Hh Ht1].
        { unfold ds1. replace (d_trigger d =? 0) with true by lia. unfold c5_has, c5_trig_of.
          rewrite (find_upd_same _ t _ _ Hf). split; reflexivity. }
        apply (trig_persist now t ds1 (fst F) id Hnd1 HR12); [exact Hh|exact Ht1].
      + assert (find_dt cid ds1 = Some c) as Fc1.
        { unfold ds1. destruct (d_trigger d =? 0); [rewrite find_upd_other by exact Ec|]; exact Fc. }
        apply (HC12 x x' cid c Hx1 Hx' Hid Hne Hcid Fc1 Hc0 Hcw). }
  destruct F as [ds2 o2]. exact HC.
Qed.

(* ------------------------------------------------------------------ every level, as reachability *)
Inductive chain_path (now : Z) (ds : list dt) (id : Z) : Z -> Prop :=
| cp_self d : find_dt id ds = Some d -> d_trigger d = 0 -> c5_inwin now d = true -> chain_path now ds id id
| cp_step mid cid m c :
    chain_path now ds id mid -> find_dt mid ds = Some m -> In cid (d_triggers m) ->
    find_dt cid ds = Some c -> d_trigger c = 0 -> c5_inwin now c = true -> chain_path now ds id cid.

Theorem chain_all_levels fuel now p id t ds cid :
  NoDup (ids ds) -> Ord ds -> t <> 0 -> (sfx id ds < fuel)%nat ->
  chain_path now ds id cid -> c5_trig_of cid (fst (trigger_dt fuel now p id t ds)) = t.
Proof.
  intros Hnd Hord Ht Hfu Hp.
  pose proof (trigger_dt_closed fuel now p id t ds Hnd Hord (fun _ _ => Hfu)) as HC.
  pose proof (trigger_dt_Rl fuel now p id t ds Hnd) as HR.
  induction Hp as [d Hf H0 Hw|mid cid m c Hp IH Hm Hcid Hc H0 Hw].
  - destruct fuel as [|n]; [lia|].
    pose proof (trigger_dt_self n now p id t ds d Hnd Hf) as Hs. rewrite can_untriggered in Hs by exact H0.
    unfold c5_trig_of. rewrite (Hs Hw H0). reflexivity.
  - destruct (find_dt_some _ _ _ Hm) as [Hmin Hmid].
    destruct (Rl_in_l _ _ _ _ _ HR Hmin) as (m' & Hm' & HRm).
    assert (NoDup (ids (fst (trigger_dt fuel now p id t ds)))) as Hnd' by (rewrite (Rl_ids _ _ _ _ HR); exact Hnd).
    assert (d_trigger m' = t) as Hmt.
    { pose proof (find_dt_nodup _ m' Hnd' Hm') as F. rewrite (R1_id _ _ _ _ HRm), Hmid in F.
      unfold c5_trig_of in IH. rewrite F in IH. exact IH. }
    assert (d_trigger m = 0) as Hm0.
    { clear - Hp Hm. inversion Hp; congruence. }
    apply (HC m m' cid c Hmin Hm' (R1_id _ _ _ _ HRm)); try assumption. lia.
Qed.

(* ------------------------------------------------------------------ several calls with different instants: "became triggered" *)
Definition ClosedNZ (now : Z) (ds ds' : list dt) : Prop :=
  forall x x' cid c,
    In x ds -> In x' ds' -> d_id x' = d_id x -> d_trigger x' <> d_trigger x ->
    In cid (d_triggers x) -> find_dt cid ds = Some c -> d_trigger c = 0 -> c5_inwin now c = true ->
    c5_trig_of cid ds' <> 0.

Lemma Closed_NZ now t ds ds' : t <> 0 -> Closed now t ds ds' -> ClosedNZ now ds ds'.
Proof. intros Ht H x x' cid c A B C D E F G I. rewrite (H x x' cid c A B C D E F G I). exact Ht. Qed.

Lemma ClosedNZ_refl now ds : NoDup (ids ds) -> ClosedNZ now ds ds.
Proof.
  intros Hnd x x' cid c Hx Hx' Hid Hne. exfalso. apply Hne.
  pose proof (find_dt_nodup ds x Hnd Hx) as F1. pose proof (find_dt_nodup ds x' Hnd Hx') as F2.
  rewrite Hid in F2. rewrite F1 in F2. inversion F2. reflexivity.
Qed.

Lemma nz_persist now a b i :
  NoDup (ids a) -> Rwl now a b -> c5_trig_of i a <> 0 -> c5_trig_of i b <> 0.
Proof.
  intros Hnd HR Ht. unfold c5_trig_of in *. destruct (find_dt i a) as [ca|] eqn:Fa; [|congruence].
  destruct (find_dt_some _ _ _ Fa) as [Hca Hida].
  destruct (Rwl_in_l _ _ _ _ HR Hca) as (cb & Hcb & HRc).
  assert (NoDup (ids b)) as Hndb by (rewrite (Rwl_ids _ _ _ HR); exact Hnd).
  pose proof (find_dt_nodup b cb Hndb Hcb) as Fb. rewrite (Rw_id _ _ _ HRc), Hida in Fb. rewrite Fb.
  destruct HRc as [->|(H0 & _ & _)]; [exact Ht|congruence].
Qed.

Lemma ClosedNZ_trans now ds0 a b :
  NoDup (ids ds0) -> Rwl now ds0 a -> Rwl now a b -> ClosedNZ now ds0 a -> ClosedNZ now a b -> ClosedNZ now ds0 b.
Proof.
  intros Hnd H0a Hab C0a Cab x x'' cid c Hx Hx'' Hid Hne Hcid Fc Hc0 Hcw.
  assert (NoDup (ids a)) as Hnda by (rewrite (Rwl_ids _ _ _ H0a); exact Hnd).
  destruct (Rwl_in_l _ _ _ _ H0a Hx) as (xa & Hxa & HRx).
  destruct (find_dt_some _ _ _ Fc) as [Hc Hidc].
  destruct (Rwl_in_l _ _ _ _ H0a Hc) as (ca & Hca & HRc).
  assert (find_dt cid a = Some ca) as Fca.
  { pose proof (find_dt_nodup a ca Hnda Hca) as F. rewrite (Rw_id _ _ _ HRc), Hidc in F. exact F. }
  destruct (Z.eq_dec (d_trigger xa) (d_trigger x)) as [E|E].
  - assert (d_triggers xa = d_triggers x /\ d_id xa = d_id x) as [Tx Ix].
    { destruct HRx as [->|(_ & _ & tt & ->)]; split; reflexivity. }
    destruct (Z.eq_dec (d_trigger ca) 0) as [E0|E0].
    + apply (Cab xa x'' cid ca Hxa Hx''); try congruence.
      destruct HRc as [->|(_ & _ & tt & ->)]; exact Hcw.
    + apply (nz_persist now a b cid Hnda Hab). unfold c5_trig_of. rewrite Fca. exact E0.
  - apply (nz_persist now a b cid Hnda Hab).
    apply (C0a x xa cid c Hx Hxa); try assumption. apply (Rw_id _ _ _ HRx).
Qed.

(* the start timer: every downtime chained (at any level) to one that became triggered, and inside its own
   window, became triggered too *)
Lemma start_timer_closed now f :
  NoDup (ids (f_dts f)) -> Ord (f_dts f) -> entries_sane now (f_dts f) ->
  ClosedNZ now (f_dts f) (f_dts (fst (do_dt_start_timer now f))).
Proof.
  intros Hnd Hord He. unfold do_dt_start_timer. set (ds := f_dts f) in *.
  match goal with |- context [fold_left ?g ?l ?a] =>
    assert (let r := fold_left g l a in Rwl now ds (fst r) /\ ClosedNZ now ds (fst r)) as H end.
  { apply fold_left_inv with (Q := fun acc => Rwl now ds (fst acc) /\ ClosedNZ now ds (fst acc)).
    - split; [apply Rwl_refl|apply ClosedNZ_refl; exact Hnd].
    - intros [dsa oa] id _ (Ha & Ca). cbn [fst] in Ha, Ca.
      destruct (find_dt id dsa) as [da|] eqn:Fa; [|split; assumption].
      destruct (dt_can_be_triggered now da && d_fixed da) eqn:E; [|split; assumption].
      apply andb_prop in E. destruct E as [Ec Ef].
      assert (NoDup (ids dsa)) as Hnda by (rewrite (Rwl_ids _ _ _ Ha); exact Hnd).
      assert (Ord dsa) as Horda by (apply (OrdF_same [] ds dsa (Rwl_SameChain _ _ _ Ha) Hord)).
      destruct (find_dt_some _ _ _ Fa) as [Hda Hida].
      destruct (Rwl_in _ _ _ _ Ha Hda) as (d & Hd & HRd). destruct (Rw_static _ _ _ HRd) as (_ & _ & _ & Sn).
      assert (Z.max (d_start da) (d_entry da) <> 0) as Ht.
      { unfold entries_sane in He. rewrite Forall_forall in He. pose proof (He d Hd) as Hen. rewrite <- Sn in Hen. lia. }
      assert (forall d0, find_dt id dsa = Some d0 -> (sfx id dsa < chain_fuel dsa)%nat) as Hfu.
      { intros d0 _. unfold chain_fuel. assert (In id (ids dsa)) as Hin by (rewrite <- Hida; unfold ids; apply in_map; exact Hda).
        pose proof (sfx_lt id dsa Hin). lia. }
      pose proof (trigger_dt_closed (chain_fuel dsa) now (f_paused f) id (Z.max (d_start da) (d_entry da)) dsa Hnda Horda Hfu) as Hi.
      pose proof (trigger_dt_Rl (chain_fuel dsa) now (f_paused f) id (Z.max (d_start da) (d_entry da)) dsa Hnda) as HRi.
      destruct (trigger_dt (chain_fuel dsa) now (f_paused f) id (Z.max (d_start da) (d_entry da)) dsa) as [dsb ob]. cbn [fst] in *.
      split; [eapply Rwl_trans; [exact Ha|eapply Rl_Rwl; exact HRi]|].
      apply (ClosedNZ_trans now ds dsa dsb Hnd Ha (Rl_Rwl _ _ _ _ HRi) Ca). apply (Closed_NZ _ _ _ _ Ht Hi). }
  match goal with |- context [fold_left ?g ?l ?a] => destruct (fold_left g l a) as [ds2 o2] end.
  cbn zeta in H. cbn [fst set_dts f_dts] in *. apply H.
Qed.
