(* C02 - the property-level theorems over the combined checkable model. *)
From Icv Require Import Base.Tac Ck.CkState Ck.CkStateProofs Ck.CkObs Ck.CkFull Ck.CkSuppProofs Ck.CkSuppStep Ck.CkSuppFire.
Local Open Scope Z_scope.

(* ------------------------------------------------------------------ the request rule in the property's words *)

(* enters a hard problem state (from a soft one or directly from OK/Up), moves between hard problem states,
   or - volatile - any further non-OK result while hard *)
Definition c02_spec_problem (b : cfg) (pre : st) (new : sstate) (post_type : stype) : bool :=
  let k := c_kind b in
  negb (is_ok k new) && stype_eqb post_type Hard &&
  (stype_eqb (s_type pre) Soft || negb (api_state k (s_raw pre) =? api_state k new) || c_volatile b).

(* returns to OK/Up from a HARD problem state *)
Definition c02_spec_recovery (b : cfg) (pre : st) (new : sstate) : bool :=
  let k := c_kind b in
  is_ok k new && negb (is_ok k (s_raw pre)) && stype_eqb (s_type pre) Hard.

(* shape of the former finding "volatile-soft-recovery" (fixed by /repo b9a7cb5): a volatile object goes OK/Up from a SOFT
   (or never-checked) non-OK state; no longer sent, kept to describe the old behaviour and as a diagnostic in the oracle *)
Definition c02_vol_soft (b : cfg) (pre : st) (new : sstate) : bool :=
  let k := c_kind b in
  c_volatile b && is_ok k new && negb (is_ok k (s_raw pre)) && stype_eqb (s_type pre) Soft.

Lemma c02_send_char b pre r :
  let s' := fst (step_accept b pre r) in
  let i := snd (step_accept b pre r) in
  c02_send b i s' (r_state r) =
    ((c02_spec_problem b pre (r_state r) (s_type s') || c02_spec_recovery b pre (r_state r))
     && negb (is_ok (c_kind b) (s_raw pre) && stype_eqb (s_type pre) Soft))
  /\ i_recovery i = (is_ok (c_kind b) (r_state r) && negb (is_ok (c_kind b) (s_raw pre)))
  /\ (s_type s' = Soft -> is_ok (c_kind b) (r_state r) = false).
Proof.
  destruct b as [k mx vol], pre as [raw ty at_ lh hs ss hc cs], r as [new rs re].
  unfold c02_send, c02_spec_problem, c02_spec_recovery, step_accept.
  cbn [c_kind c_max c_volatile s_raw s_type s_attempt r_state].
  destruct k, raw, ty, vol, new; cbn;
    repeat match goal with |- context [?a <=? ?b] => destruct (a <=? b) end; cbn;
    repeat split; try reflexivity; intros; discriminate.
Qed.

(* the send decision BEFORE /repo b9a7cb5 (volatile branch without the soft -> OK exclusion) *)
Definition c02_send_old (b : cfg) (i : info) (s' : st) (new_state : sstate) : bool :=
  let k := c_kind b in
  let ty := s_type s' in
  let vol := c_volatile b in
  let old_state := i_old_raw i in
  let old_type := i_old_type i in
  let send0 :=
    if i_hard_change i && negb (stype_eqb old_type Soft && is_ok k new_state) then true
    else if vol && stype_eqb ty Hard then true else false in
  let send1 := if is_ok k old_state && stype_eqb old_type Soft then false else send0 in
  if vol && is_ok k old_state && is_ok k new_state then false else send1.

(* what the fix changed: exactly the volatile soft -> OK/Up case *)
Lemma c02_send_old_char b pre r :
  let s' := fst (step_accept b pre r) in
  let i := snd (step_accept b pre r) in
  c02_send_old b i s' (r_state r) = (c02_send b i s' (r_state r) || c02_vol_soft b pre (r_state r)).
Proof.
  destruct b as [k mx vol], pre as [raw ty at_ lh hs ss hc cs], r as [new rs re].
  unfold c02_send, c02_send_old, c02_vol_soft, step_accept.
  cbn [c_kind c_max c_volatile s_raw s_type s_attempt r_state].
  destruct k, raw, ty, vol, new; cbn;
    repeat match goal with |- context [?a <=? ?b] => destruct (a <=? b) end; cbn; reflexivity.
Qed.

Definition c02_shape (b : cfg) (s : st) : Prop := is_ok (c_kind b) (s_raw s) = true -> s_type s = Hard.

Definition c02_expected (b : cfg) (pre : st) (new : sstate) (post_type : stype) : list out :=
  if c02_spec_problem b pre new post_type then [ONotify NProblem]
  else if c02_spec_recovery b pre new then [ONotify NRecovery] else [].

Theorem request_rule c now r f :
  rejected now (f_st f) r = false ->
  let f' := fst (do_result c now r f) in
  let o := snd (do_result c now r f) in
  (* nothing for soft states, nothing while flapping *)
  (s_type (f_st f') = Soft \/ is_flapping c (f_flap f') = true ->
     c02_state_outs o = [] /\ f_sp_problem f' = f_sp_problem f /\ f_sp_recovery f' = f_sp_recovery f) /\
  (* the rule, when nothing withholds the request *)
  (c02_shape (fc_base c) (f_st f) ->
   f_paused f = false -> is_flapping c (f_flap f') = false ->
   c02_reason now f' = false -> c02_pending f = false ->
     c02_state_outs o = c02_expected (fc_base c) (f_st f) (r_state r) (s_type (f_st f')) /\
     c02_pending f' = false).
Proof.
  intros Hrej f' o. destruct (do_result_spec c now r f Hrej) as [Hst _ _ _ _ Hso _].
  fold f' o in Hst, Hso. cbv zeta in Hso.
  pose proof (c02_send_char (fc_base c) (f_st f) r) as (Hsend & Hrec & Hsoft). cbv zeta in Hsend.
  rewrite Hst in Hso. rewrite Hsend, Hrec in Hso. rewrite <- Hst in Hso.
  destruct Hso as (O1 & O2 & O3 & O4).
  split.
  - intros [Hs|Hf].
    + assert (c02_spec_problem (fc_base c) (f_st f) (r_state r) (s_type (f_st f')) = false) as E1.
      { unfold c02_spec_problem. rewrite Hs. cbn [stype_eqb]. rewrite andb_false_r. reflexivity. }
      rewrite Hst in Hs. specialize (Hsoft Hs).
      assert (c02_spec_recovery (fc_base c) (f_st f) (r_state r) = false) as E2
        by (unfold c02_spec_recovery; rewrite Hsoft; reflexivity).
      rewrite E1, E2 in *. cbn [orb andb] in *.
      rewrite O1, O2, O3, !orb_false_r. repeat split.
    + rewrite Hf in *. cbn [negb] in *. rewrite !andb_false_r in *. cbn [andb] in *.
      rewrite O1, O2, O3, !orb_false_r. repeat split.
  - intros Hshape Hpa Hfl Hre Hpe.
    assert (negb (is_ok (c_kind (fc_base c)) (s_raw (f_st f)) && stype_eqb (s_type (f_st f)) Soft) = true) as Hg.
    { destruct (is_ok _ _) eqn:E; [|reflexivity]. rewrite (Hshape E). reflexivity. }
    rewrite Hg, Hpa, Hfl, Hre, Hpe in *. cbn [negb andb orb] in *. rewrite !andb_true_r in *.
    unfold c02_pending in *. rewrite O2, O3. apply orb_false_iff in Hpe. destruct Hpe as [-> ->].
    rewrite !andb_false_r. split; [|reflexivity].
    rewrite O1. unfold c02_expected.
    destruct (c02_spec_problem _ _ _ _) eqn:E1.
    + cbn [orb]. unfold c02_spec_problem in E1. apply andb_prop in E1. destruct E1 as [E1 _].
      apply andb_prop in E1. destruct E1 as [E1 _]. apply negb_true_iff in E1. rewrite E1. reflexivity.
    + cbn [orb]. destruct (c02_spec_recovery _ _ _) eqn:E2; [|reflexivity].
      unfold c02_spec_recovery in E2. apply andb_prop in E2. destruct E2 as [E2 _]. rewrite E2. reflexivity.
Qed.

Theorem stash_rule c now r f :
  rejected now (f_st f) r = false ->
  let f' := fst (do_result c now r f) in
  let o := snd (do_result c now r f) in
  let i := snd (step_accept (fc_base c) (f_st f) r) in
  c02_send (fc_base c) i (f_st f') (r_state r) = true ->
  f_paused f = false -> is_flapping c (f_flap f') = false ->
  c02_reason now f' = true \/ c02_pending f = true ->
    c02_state_outs o = [] /\
    f_sp_problem f' = (f_sp_problem f || negb (i_recovery i)) /\
    f_sp_recovery f' = (f_sp_recovery f || i_recovery i) /\
    c02_pending f' = true /\
    (c02_pending f = false -> f_sbs f' = c02_hard_state (f_st f)) /\
    (c02_pending f = true -> f_sbs f' = f_sbs f).
Proof.
  intros Hrej f' o i Hsend Hpa Hfl Hheld.
  destruct (do_result_spec c now r f Hrej) as [_ _ _ _ _ Hso _]. fold f' o i in Hso. cbv zeta in Hso.
  rewrite Hsend, Hpa, Hfl in Hso. cbn [negb andb] in Hso.
  assert (c02_reason now f' || c02_pending f = true) as Hh by (destruct Hheld as [-> | ->]; [reflexivity|apply orb_true_r]).
  rewrite Hh in Hso. cbn [negb andb] in Hso. destruct Hso as (O1 & O2 & O3 & O4).
  repeat split; try assumption.
  - unfold c02_pending. rewrite O2, O3. destruct (i_recovery i); cbn [negb]; rewrite ?orb_true_r; reflexivity.
  - intros E. rewrite E in O4. exact O4.
  - intros E. rewrite E in O4. exact O4.
Qed.

(* ------------------------------------------------------------------ safety, for every operation in every state *)

Lemma c02_state_outs_len_if (b : bool) x : (length (if b then [x] else @nil out) <= 1)%nat.
Proof. destruct b; cbn; lia. Qed.

Theorem safety_step c now f op :
  let f' := fst (full_step c now f op) in
  let o := snd (full_step c now f op) in
  (length (c02_state_outs o) <= 1)%nat /\
  (c02_state_outs o <> [] -> f_paused f = false /\ c02_reason now f' = false /\ c02_is_core_op op = true) /\
  (c02_pending f = true -> f_sbs f' = f_sbs f) /\
  (c02_pending f = true -> c02_state_outs o <> [] ->
     op = OpFire /\ c02_pending f' = false /\
     release_same_state (c_kind (fc_base c)) (s_raw (f_st f)) (f_sbs f) = false) /\
  (c02_pending f = true -> c02_pending f' = false ->
     op = OpFire /\ f_paused f = false /\ c02_release_cond c now f = true) /\
  (c02_pending f = false -> c02_pending f' = true ->
     (exists r, op = OpResult r) /\ c02_state_outs o = [] /\ f_sbs f' = c02_hard_state (f_st f)).
Proof.
  intros f' o.
  destruct (c02_is_core_op op) eqn:Hcore.
  - destruct op; try discriminate; cbn [full_step] in f', o.
    + (* result *)
      destruct (rejected now (f_st f) r) eqn:Hrej.
      { assert (f' = f /\ o = [ORefused 5]) as [-> ->] by (unfold f', o, do_result; rewrite Hrej; split; reflexivity).
        cbn. repeat split; try lia; try congruence; intros; congruence. }
      destruct (do_result_spec c now r f Hrej) as [Hst Hpa _ _ _ Hso _]. fold f' o in Hst, Hpa, Hso. cbv zeta in Hso.
      set (i := snd (step_accept (fc_base c) (f_st f) r)) in *.
      set (active := c02_send (fc_base c) i (f_st f') (r_state r) && negb (is_flapping c (f_flap f')) && negb (f_paused f)) in *.
      destruct Hso as (O1 & O2 & O3 & O4).
      unfold c02_pending in *.
      split; [rewrite O1; apply c02_state_outs_len_if|].
      split.
      { rewrite O1. destruct (active && negb _) eqn:E; [|congruence]. intros _.
        apply andb_prop in E. destruct E as [E1 E2]. apply negb_true_iff in E2. apply orb_false_iff in E2.
        unfold active in E1. apply andb_prop in E1. destruct E1 as [_ E1]. apply negb_true_iff in E1.
        repeat split; tauto. }
      split; [intros Hp; rewrite Hp in O4; rewrite O4, andb_false_r; reflexivity|].
      split.
      { intros Hp. rewrite O1, Hp, orb_true_r, andb_false_r. congruence. }
      split.
      { intros Hp. rewrite O2, O3. intros Hx. exfalso.
        destruct (f_sp_problem f), (f_sp_recovery f); cbn [orb] in Hx, Hp; rewrite ?orb_true_r in Hx; congruence. }
      { intros Hp Hp'. split; [eexists; reflexivity|].
        rewrite O1, O4, Hp in *. rewrite orb_false_r in *. cbn [negb] in *. rewrite andb_true_r in *.
        apply orb_false_iff in Hp. destruct Hp as [Hp1 Hp2]. rewrite Hp1, Hp2, O2, O3 in *. cbn [orb] in *.
        destruct active, (c02_reason now f'); cbn [andb negb] in *; try discriminate; split; reflexivity. }
    + (* fire *)
      destruct (do_fire_spec c now f) as [Hsame Hidle Hs _]. fold f' o in Hsame, Hidle, Hs. cbv zeta in Hs.
      destruct Hsame as (S1 & S2 & S3 & S4 & S5 & S6). destruct Hs as (O1 & O2 & O3).
      split; [rewrite O1; apply c02_state_outs_len_if|].
      split.
      { rewrite O1. destruct (negb (f_paused f) && c02_pending f && c02_release_cond c now f) eqn:E; [|cbn; congruence].
        intros _. apply andb_prop in E. destruct E as [E E3]. apply andb_prop in E. destruct E as [E1 E2].
        apply negb_true_iff in E1. unfold c02_release_cond in E3. rewrite S6.
        repeat split; try assumption.
        destruct (c02_reason now f); [discriminate|reflexivity]. }
      split; [intros; assumption|].
      split.
      { intros Hp. rewrite O1. destruct (negb (f_paused f) && c02_pending f && c02_release_cond c now f) eqn:E; [|cbn; congruence].
        cbn [andb]. destruct (release_same_state (c_kind (fc_base c)) (s_raw (f_st f)) (f_sbs f)) eqn:E2; [cbn; congruence|]. intros _.
        split; [reflexivity|]. split; [unfold c02_pending; rewrite O2, O3; reflexivity|reflexivity]. }
      split.
      { intros Hp Hp'. split; [reflexivity|].
        destruct (negb (f_paused f) && c02_pending f && c02_release_cond c now f) eqn:E.
        - apply andb_prop in E. destruct E as [E E3]. apply andb_prop in E. destruct E as [E1 E2].
          apply negb_true_iff in E1. split; assumption.
        - unfold c02_pending in *. rewrite O2, O3 in Hp'. congruence. }
      { intros Hp Hp'. exfalso. unfold c02_pending in *.
        destruct (negb (f_paused f) && (f_sp_problem f || f_sp_recovery f) && c02_release_cond c now f);
          rewrite O2, O3 in Hp'; [discriminate|congruence]. }
  - destruct (c02_other_ops c now f op Hcore) as [Hq Hb]. fold f' o in Hq, Hb.
    destruct Hb as (B1 & B2 & B3 & B4 & B5 & B6 & B7).
    rewrite (c02_quiet_state _ Hq). unfold c02_pending. rewrite B1, B2.
    cbn. repeat split; try lia; try congruence; intros; congruence.
Qed.

(* a firing of the timer with no state bits pending requests no state notification: the second of two
   firings after a release is silent *)
Theorem fire_idle c now f :
  c02_pending f = false -> c02_state_outs (snd (do_fire c now f)) = [] /\ c02_pending (fst (do_fire c now f)) = false.
Proof.
  intros Hp. destruct (do_fire_spec c now f) as [_ _ Hs _]. cbv zeta in Hs. destruct Hs as (O1 & O2 & O3).
  rewrite Hp, andb_false_r in *. cbn [andb] in *. split; [assumption|].
  unfold c02_pending in *. rewrite O2, O3. assumption.
Qed.

(* ------------------------------------------------------------------ release *)

Theorem release_step c now f :
  f_paused f = false -> c02_pending f = true ->
  let f' := fst (do_fire c now f) in
  let o := snd (do_fire c now f) in
  (c02_release_cond c now f = true ->
     c02_pending f' = false /\
     c02_state_outs o = (if release_same_state (c_kind (fc_base c)) (s_raw (f_st f)) (f_sbs f) then [] else [ONotify (c02_fire_type c f)]) /\
     (forall now', c02_state_outs (snd (do_fire c now' f')) = [])) /\
  (c02_release_cond c now f = false ->
     c02_state_outs o = [] /\ f_sp_problem f' = f_sp_problem f /\ f_sp_recovery f' = f_sp_recovery f /\
     f_sbs f' = f_sbs f).
Proof.
  intros Hpa Hp f' o. destruct (do_fire_spec c now f) as [Hsame _ Hs _]. fold f' o in Hsame, Hs. cbv zeta in Hs.
  rewrite Hpa, Hp in Hs. cbn [negb andb] in Hs. destruct Hs as (O1 & O2 & O3).
  split; intros Hc; rewrite Hc in *; cbn [andb] in *.
  - assert (c02_pending f' = false) as Hp' by (unfold c02_pending; rewrite O2, O3; reflexivity).
    split; [assumption|]. split.
    + rewrite O1. destruct (release_same_state _ _ _); reflexivity.
    + intros now'. apply fire_idle. assumption.
  - repeat split; try assumption. apply Hsame.
Qed.

(* since /repo 5e50b7a the comparison is the one of the API-visible state: Up/Down for hosts, the service state for services *)
Lemma c02_release_same_api k a b : release_same_state k a b = (api_state k a =? api_state k b).
Proof. destruct k, a, b; reflexivity. Qed.

(* the comparison BEFORE the fix was on raw states; it differs exactly for hosts, on raw states that collapse *)
Lemma c02_release_old_differs :
  (forall a b, sstate_eqb a b = release_same_state KService a b) /\
  (forall a b, sstate_eqb a b = true -> release_same_state KHost a b = true) /\
  sstate_eqb SWarning SOK = false /\ release_same_state KHost SWarning SOK = true /\
  sstate_eqb SUnknown SCritical = false /\ release_same_state KHost SUnknown SCritical = true.
Proof. repeat split; try reflexivity; intros a b; destruct a, b; try reflexivity; discriminate. Qed.

Theorem release_step_api c now f :
  f_paused f = false -> c02_pending f = true -> c02_release_cond c now f = true ->
  let k := c_kind (fc_base c) in
  c02_pending (fst (do_fire c now f)) = false /\
  c02_state_outs (snd (do_fire c now f)) =
    (if api_state k (s_raw (f_st f)) =? api_state k (f_sbs f) then [] else [ONotify (c02_fire_type c f)]).
Proof.
  intros Hpa Hp Hc k. destruct (release_step c now f Hpa Hp) as [H _]. destruct (H Hc) as (A & B & _).
  split; [assumption|]. rewrite B, c02_release_same_api. reflexivity.
Qed.

(* ------------------------------------------------------------------ runs: all interleavings of operations *)

Definition c02_run (c : fcfg) (f : full) (l : list (Z * op)) : full :=
  fold_left (fun f no => fst (full_step c (fst no) f (snd no))) l f.

Lemma c02_run_snoc c f l no : c02_run c f (l ++ [no]) = fst (full_step c (fst no) (c02_run c f l) (snd no)).
Proof. unfold c02_run. rewrite fold_left_app. reflexivity. Qed.

Lemma c02_step_st c now f op :
  f_st (fst (full_step c now f op)) = f_st f \/
  exists r, op = OpResult r /\ rejected now (f_st f) r = false /\
            f_st (fst (full_step c now f op)) = fst (step_accept (fc_base c) (f_st f) r).
Proof.
  destruct (c02_is_core_op op) eqn:Hcore.
  - destruct op; try discriminate; cbn [full_step].
    + destruct (rejected now (f_st f) r) eqn:Hrej.
      * left. unfold do_result. rewrite Hrej. reflexivity.
      * right. exists r. destruct (do_result_spec c now r f Hrej) as [Hst _ _ _ _ _ _]. auto.
    + left. destruct (do_fire_spec c now f) as [Hsame _ _ _]. apply Hsame.
  - left. destruct (c02_other_ops c now f op Hcore) as [_ Hb]. apply Hb.
Qed.

Lemma c02_step_sbs c now f op :
  f_sbs (fst (full_step c now f op)) = f_sbs f \/ f_sbs (fst (full_step c now f op)) = c02_hard_state (f_st f).
Proof.
  destruct (c02_is_core_op op) eqn:Hcore.
  - destruct op; try discriminate; cbn [full_step].
    + destruct (rejected now (f_st f) r) eqn:Hrej.
      * left. unfold do_result. rewrite Hrej. reflexivity.
      * destruct (do_result_spec c now r f Hrej) as [_ _ _ _ _ Hso _]. cbv zeta in Hso.
        destruct Hso as (_ & _ & _ & O4). rewrite O4. destruct (_ && _ && negb _); auto.
    + left. destruct (do_fire_spec c now f) as [Hsame _ _ _]. apply Hsame.
  - left. destruct (c02_other_ops c now f op Hcore) as [_ Hb]. apply Hb.
Qed.

(* main release theorem: over ALL interleavings from the never-checked start, hosts and services, any raw results *)
Theorem release_rule c l now :
  let f := c02_run c init_full l in
  let k := c_kind (fc_base c) in
  f_paused f = false -> c02_pending f = true -> c02_release_cond c now f = true ->
  c02_pending (fst (do_fire c now f)) = false /\
  c02_state_outs (snd (do_fire c now f)) =
    (if api_state k (s_raw (f_st f)) =? api_state k (f_sbs f) then [] else [ONotify (c02_fire_type c f)]) /\
  (forall now', c02_state_outs (snd (do_fire c now' (fst (do_fire c now f)))) = []).
Proof.
  intros f k Hpa Hp Hc. destruct (release_step_api c now f Hpa Hp Hc) as [A B].
  destruct (release_step c now f Hpa Hp) as [H _]. destruct (H Hc) as (_ & _ & C). auto.
Qed.

(* ------------------------------------------------------------------ the remembered state *)

(* ghost: the hard state before the step that withheld the first event of the current episode *)
Definition c02_ghost_step (f f' : full) (g : option sstate) : option sstate :=
  if c02_pending f' then (if c02_pending f then g else Some (c02_hard_state (f_st f))) else None.

Definition c02_run_ghost (c : fcfg) (fg : full * option sstate) (l : list (Z * op)) : full * option sstate :=
  fold_left (fun fg no => let f' := fst (full_step c (fst no) (fst fg) (snd no)) in
                          (f', c02_ghost_step (fst fg) f' (snd fg))) l fg.

Theorem remembered c l :
  let fg := c02_run_ghost c (init_full, None) l in
  snd fg = if c02_pending (fst fg) then Some (f_sbs (fst fg)) else None.
Proof.
  induction l as [|no l IH] using rev_ind; [reflexivity|].
  cbv zeta in *. unfold c02_run_ghost in *. rewrite fold_left_app. cbn [fold_left].
  set (fg := fold_left _ l (init_full, None)) in *. cbn [fst snd].
  pose proof (safety_step c (fst no) (fst fg) (snd no)) as H. cbv zeta in H.
  set (f' := fst (full_step c (fst no) (fst fg) (snd no))) in *.
  destruct H as (_ & _ & H3 & _ & _ & H6).
  unfold c02_ghost_step. destruct (c02_pending f') eqn:E'; [|reflexivity].
  destruct (c02_pending (fst fg)) eqn:E.
  - rewrite IH, (H3 eq_refl). reflexivity.
  - destruct (H6 eq_refl eq_refl) as (_ & _ & ->). reflexivity.
Qed.

(* while events are pending nothing is sent and the remembered state stays, whatever happens in between *)
Fixpoint c02_trace (c : fcfg) (f : full) (l : list (Z * op)) : list (full * list out) :=
  match l with
  | [] => []
  | no :: t => let '(f', o) := full_step c (fst no) f (snd no) in (f', o) :: c02_trace c f' t
  end.

Theorem episode c l : forall f,
  c02_pending f = true ->
  Forall (fun fo => c02_pending (fst fo) = true) (c02_trace c f l) ->
  Forall (fun fo => c02_state_outs (snd fo) = [] /\ f_sbs (fst fo) = f_sbs f) (c02_trace c f l).
Proof.
  induction l as [|no l IH]; intros f Hp Hall; [constructor|].
  cbn [c02_trace] in *.
  pose proof (safety_step c (fst no) f (snd no)) as H. cbv zeta in H.
  destruct (full_step c (fst no) f (snd no)) as [f' o]. cbn [fst snd] in *.
  inversion Hall as [|? ? Hp' Hall']; subst. cbn [fst] in Hp'.
  destruct H as (_ & _ & H3 & H4 & _).
  assert (c02_state_outs o = []) as Ho.
  { destruct (c02_state_outs o) eqn:E; [reflexivity|]. exfalso.
    assert (c02_state_outs o <> []) as Hne by congruence. rewrite <- E in *.
    destruct (H4 Hp Hne) as (_ & Hx & _). congruence. }
  constructor; [cbn [fst snd]; split; [assumption|apply H3; assumption]|].
  specialize (IH f' Hp' Hall'). rewrite (H3 Hp) in IH. exact IH.
Qed.

(* ------------------------------------------------------------------ the shape premise of the request rule is an
   invariant of all runs: an OK/Up state is always hard (the never-checked object is UNKNOWN/soft) *)
Theorem shape_reachable c l : c02_shape (fc_base c) (f_st (c02_run c init_full l)).
Proof.
  induction l as [|no l IH] using rev_ind.
  - unfold c02_shape. cbn. destruct (c_kind (fc_base c)); discriminate.
  - rewrite c02_run_snoc. set (f := c02_run c init_full l) in *.
    destruct (c02_step_st c (fst no) f (snd no)) as [-> | (r & _ & _ & ->)]; [assumption|].
    unfold c02_shape. rewrite step_accept_raw. intros H. apply step_accept_ok. assumption.
Qed.

(* the request rule along runs from the never-checked start: no shape premise left *)
Theorem request_rule_run c l now r :
  let f := c02_run c init_full l in
  rejected now (f_st f) r = false ->
  let f' := fst (do_result c now r f) in
  let o := snd (do_result c now r f) in
  f_paused f = false -> is_flapping c (f_flap f') = false ->
  c02_reason now f' = false -> c02_pending f = false ->
  c02_state_outs o = c02_expected (fc_base c) (f_st f) (r_state r) (s_type (f_st f')) /\ c02_pending f' = false.
Proof.
  intros f Hrej f' o. destruct (request_rule c now r f Hrej) as [_ H]. apply H. apply shape_reachable.
Qed.

(* FlappingStart / FlappingEnd: requested exactly when the detector toggles (with authority, outside a downtime);
   inside a downtime nothing is requested and the toggle is stashed, Start and End cancelling each other *)
Theorem flapping_toggle c now r f :
  rejected now (f_st f) r = false -> f_paused f = false ->
  let f' := fst (do_result c now r f) in
  let o := snd (do_result c now r f) in
  let fl0 := is_flapping c (f_flap f) in
  let fl1 := is_flapping c (f_flap f') in
  (in_downtime now f' = false ->
     c02_flap_outs o = (if negb fl0 && fl1 then [ONotify NFlapStart] else if fl0 && negb fl1 then [ONotify NFlapEnd] else [])) /\
  (in_downtime now f' = true ->
     c02_flap_outs o = [] /\
     (f_sp_fstart f && f_sp_fend f = false ->
      (f_sp_fstart f', f_sp_fend f') = c02_cancel (f_sp_fstart f || (negb fl0 && fl1)) (f_sp_fend f || (fl0 && negb fl1)))) /\
  (fl0 = fl1 -> c02_flap_outs o = []).
Proof.
  intros Hrej Hpa f' o fl0 fl1.
  destruct (do_result_spec c now r f Hrej) as [_ _ _ _ _ _ Hfo]. fold f' o in Hfo. cbv zeta in Hfo.
  fold fl0 fl1 in Hfo. rewrite Hpa in Hfo. cbn [negb] in Hfo. rewrite !andb_true_r in Hfo.
  destruct Hfo as [G1 G2].
  split; [|split].
  - intros Hd. rewrite Hd in G1. cbn [negb] in G1. rewrite !andb_true_r in G1. exact G1.
  - intros Hd. rewrite Hd in G1, G2. cbn [negb] in G1. rewrite !andb_false_r in G1. rewrite !andb_true_r in G2.
    split; assumption.
  - intros E. rewrite G1, E. destruct fl1; cbn [negb andb]; reflexivity.
Qed.
