(* C06: the oracle that is run over implementation traces (CkAckObs.cka_oracle) accepts every trace of the
   model: its failure component is None for all histories from the initial state.  So the oracle can only
   fire where the implementation leaves what the theorems establish for the model (or on finding F-C06-a,
   which it reports through its separate flag). *)
From Icv Require Import Base.Tac Ck.CkState Ck.CkStateProofs Ck.CkFull Ck.CkAck Ck.CkAckObs Ck.CkAckProofs Ck.CkAckThms.
Local Open Scope Z_scope.

Lemma cms_eqb_refl l : cka_cms_eqb l l = true.
Proof. unfold cka_cms_eqb. apply forallb_forall. intros x _. apply Z.eqb_refl. Qed.

Lemma filter_map_cm (p : cka_cm -> bool) l :
  filter p (map cka_cm_of l) = map cka_cm_of (filter (fun c => p (cka_cm_of c)) l).
Proof. induction l as [|a l IH]; cbn; [reflexivity|]. destruct (p (cka_cm_of a)); cbn; congruence. Qed.

Lemma settype_through_ev o : cka_settype_of o = cka_settype_of (filter cka_is_ev o).
Proof.
  unfold cka_settype_of. induction o as [|x o IH]; [reflexivity|].
  destruct x as [[]| | | | | | | |]; cbn [filter cka_is_ev find cka_is_set]; try exact IH; reflexivity.
Qed.

Definition ak_obs (st : Z) (s' : akst) (evs : list out) (nprob ref read : Z) (handled : bool) (depth : Z) : cka_obs :=
  {| ko_st := st; ko_ack := ackt_num (ak_ack s'); ko_exp := ak_exp s'; ko_cms := map cka_cm_of (ak_cms s');
     ko_nset := cka_count cka_is_set evs; ko_settype := cka_settype_of evs; ko_nclr := cka_count cka_is_clr evs;
     ko_nnack := cka_count cka_is_nack evs; ko_nprob := nprob; ko_ref := ref; ko_read := read;
     ko_handled := handled; ko_depth := depth |}.

Definition ak_os (st : Z) (hascr : bool) (s : akst) : cka_os :=
  {| ks_st := st; ks_hascr := hascr; ks_ack := ackt_num (ak_ack s); ks_exp := ak_exp s;
     ks_cms := map cka_cm_of (ak_cms s); ks_paused := ak_paused s |}.

Lemma observe_ak c now f f' outs :
  cka_observe c now f f' outs =
  ak_obs (cka_api_state (c_kind (fc_base c)) (s_raw (f_st f'))) (ak_of f') (filter cka_is_ev outs)
         (cka_count cka_is_nprob outs) (cka_ref_code outs) (ackt_num (cka_eff_ack now f))
         (get_handled c now f) (downtime_depth now f).
Proof.
  unfold cka_observe, ak_obs.
  rewrite <- (count_through_ev cka_is_set _ set_is_ev), <- (count_through_ev cka_is_clr _ clr_is_ev),
          <- (count_through_ev cka_is_nack _ nack_is_ev), <- settype_through_ev. reflexivity.
Qed.

#[global] Arguments cka_cms_eqb : simpl never.

Ltac or_crush :=
  repeat (cbn; rewrite ?map_app, ?cms_eqb_refl;
          match goal with
          | |- context [?a =? ?b] => is_var a; destruct (a =? b) eqn:?
          | |- context [?a <? ?b] => is_var a; destruct (a <? b) eqn:?
          | |- context [?a <=? ?b] => is_var a; destruct (a <=? b) eqn:?
          | |- context [if ?b then _ else _] => is_var b; destruct b
          | |- context [?b && _] => is_var b; destruct b
          | |- context [_ && ?b] => is_var b; destruct b
          | |- context [?b || _] => is_var b; destruct b
          | |- context [negb ?b] => is_var b; destruct b
          end);
  cbn; rewrite ?map_app, ?cms_eqb_refl; try reflexivity; try congruence; try lia.

(* reachable states: no expiry without an acknowledgement *)
Definition ak_wf (s : akst) : Prop := ak_ack s = AckNone -> ak_exp s = 0.

Lemma nprob_cases (a : ackt) nprob : (a <> AckNone -> nprob = 0) -> nprob = 0 \/ a = AckNone.
Proof. intros H. destruct a; [right; reflexivity|left; apply H; discriminate|left; apply H; discriminate]. Qed.

Lemma chk_result_ok now sc okn rend st st' hascr s nprob read handled depth :
  ak_wf s -> sc = negb (st' =? st) -> okn = (st' =? 0) ->
  (ak_ack (fst (ak_step now (AkResult sc okn rend) s)) <> AckNone -> nprob = 0) ->
  cka_chk_result now rend (ak_os st hascr s)
    (ak_obs st' (fst (ak_step now (AkResult sc okn rend) s)) (snd (ak_step now (AkResult sc okn rend) s))
            nprob 0 read handled depth) = 0.
Proof.
  intros Hwf -> -> Hnp. apply nprob_cases in Hnp. revert Hnp. destruct s as [a e cms n p].
  unfold ak_wf in Hwf. cbn [ak_ack ak_exp] in Hwf.
  unfold cka_chk_result, cka_o_expired, ak_os, ak_obs. cbn [ko_ref ks_ack ks_exp ks_cms ks_st ko_st Z.eqb].
  unfold ak_step, ak_read, ak_expired, ak_clear, ak_set_cms. cbn [ak_ack ak_exp ak_cms ak_next ak_paused].
  rewrite filter_map_cm.
  change (fun c : comment => cka_cm_pers (cka_cm_of c) || (rend <? cka_cm_entry (cka_cm_of c)))
    with (fun c : comment => cm_persistent c || (rend <? cm_entry c)).
  destruct a; [rewrite (Hwf eq_refl)|..]; intros [-> | Hd]; revert Hd || idtac; or_crush.
Qed.

Ltac ak_unfold :=
  unfold cka_o_expired, cka_frame, cka_only_expiry, ak_os, ak_obs;
  cbn [ko_ref ks_ack ks_exp ks_cms ks_st ks_paused ks_hascr ko_st ko_read ko_handled ko_depth];
  unfold ak_step, ak_read, ak_expired, ak_clear, ak_set_cms; cbn [ak_ack ak_exp ak_cms ak_next ak_paused].

Lemma chk_ack_ok now v sticky notify pers eg expiry st hascr s nprob read handled depth :
  ak_wf s ->
  let r := ak_step now (AkAck v (st =? 0) sticky notify pers eg expiry) s in
  cka_chk_ack now v sticky notify pers eg expiry (ak_os st hascr s)
    (ak_obs st (fst r) (snd r) nprob (if cka_count cka_is_set (snd r) =? 0 then 1 else 0) read handled depth) = 0.
Proof.
  intros Hwf. cbv zeta. destruct s as [a e cms n p]. unfold ak_wf in Hwf. cbn [ak_ack ak_exp] in Hwf.
  unfold cka_chk_ack, cka_expiry_bad, cka_expiry_eff. ak_unfold.
  destruct a; [rewrite (Hwf eq_refl)|..]; destruct v, sticky; or_crush.
Qed.

Lemma chk_cluster_set_ok now sticky notify expiry st hascr s nprob ref read handled depth :
  ak_wf s ->
  let r := ak_step now (AkClusterSet sticky notify expiry) s in
  fst (cka_chk_cluster_set now sticky notify expiry (ak_os st hascr s)
         (ak_obs st (fst r) (snd r) nprob ref read handled depth)) = 0.
Proof.
  intros Hwf. cbv zeta. destruct s as [a e cms n p]. unfold ak_wf in Hwf. cbn [ak_ack ak_exp] in Hwf.
  unfold cka_chk_cluster_set. ak_unfold.
  destruct a; [rewrite (Hwf eq_refl)|..]; destruct sticky; or_crush.
Qed.

Lemma chk_unack_ok now (cluster : bool) st hascr s nprob ref read handled depth :
  let r := ak_step now (if cluster then AkClusterClear else AkUnack) s in
  cka_chk_unack cluster (ak_os st hascr s) (ak_obs st (fst r) (snd r) nprob ref read handled depth) = 0.
Proof.
  cbv zeta. destruct s as [a e cms n p]. unfold cka_chk_unack. destruct cluster; ak_unfold.
  - destruct a; or_crush.
  - replace (filter cka_cm_pers (map cka_cm_of cms)) with (map cka_cm_of (filter cm_persistent cms))
      by (rewrite filter_map_cm; reflexivity).
    destruct a; or_crush.
Qed.

