(* C01 layer of the combined checkable model.
   Transcription of Checkable::ProcessCheckResult (lib/icinga/checkable-check.cpp),
   the part that computes state / state type / attempt and the state-change event.
   Branch order and comparisons follow the C++ text; nothing here is "what it should do". *)
From Icv Require Import Base.Tac.
Local Open Scope Z_scope.

Inductive sstate := SOK | SWarning | SCritical | SUnknown.
Inductive stype := Soft | Hard.
Inductive kind := KHost | KService.
Inductive event := EvNone | EvSoft | EvHard.

Definition sstate_eqb (a b : sstate) : bool :=
  match a, b with
  | SOK, SOK | SWarning, SWarning | SCritical, SCritical | SUnknown, SUnknown => true
  | _, _ => false
  end.

Definition stype_eqb (a b : stype) : bool :=
  match a, b with Soft, Soft | Hard, Hard => true | _, _ => false end.

(* enum ServiceState / HostState numeric values (Facts: checkresult.ti, host.hpp) *)
Definition sstate_num (s : sstate) : Z :=
  match s with SOK => 0 | SWarning => 1 | SCritical => 2 | SUnknown => 3 end.

(* Host::CalculateState: true = HostUp *)
Definition host_up (s : sstate) : bool :=
  match s with SOK | SWarning => true | _ => false end.

(* Host::IsStateOK / Service::IsStateOK *)
Definition is_ok (k : kind) (s : sstate) : bool :=
  match k with
  | KHost => host_up s
  | KService => sstate_eqb s SOK
  end.

Record cfg := { c_kind : kind; c_max : Z; c_volatile : bool }.

Record st := {
  s_raw : sstate;              (* state_raw *)
  s_type : stype;              (* state_type *)
  s_attempt : Z;               (* check_attempt *)
  s_last_hard_raw : sstate;    (* last_hard_state_raw *)
  s_hard_states : Z;           (* last_hard_states_raw: current*100 + previous *)
  s_soft_states : Z;           (* last_soft_states_raw *)
  s_has_cr : bool;             (* last_check_result != null *)
  s_cr_start : Z               (* last_check_result.execution_start *)
}.

(* checkable.ti defaults: never-checked object *)
Definition pending : st :=
  {| s_raw := SUnknown; s_type := Soft; s_attempt := 1; s_last_hard_raw := SUnknown;
     s_hard_states := 99 * 100 + 99; s_soft_states := 99 * 100 + 99;
     s_has_cr := false; s_cr_start := 0 |}.

Record cres := { r_state : sstate; r_start : Z; r_end : Z }.

(* Everything later layers (C02/C05/C06) need to know about what this step did. *)
Record info := {
  i_old_raw : sstate;
  i_old_type : stype;
  i_state_change : bool;
  i_hard_change : bool;
  i_recovery : bool;
  i_event : event;
  i_prev_hard : Z               (* cr->previous_hard_state = last_hard_states_raw % 100 *)
}.

(* stale-result test, checkable-check.cpp:170-196 *)
Definition rejected (now : Z) (s : st) (r : cres) : bool :=
  s_has_cr s && negb (now <? s_cr_start s) && (r_start r <? s_cr_start s).

Definition step_accept (c : cfg) (s : st) (r : cres) : st * info :=
  let k := c_kind c in
  let old_state := s_raw s in
  let old_type := s_type s in
  let old_attempt := s_attempt s in
  let new_state := r_state r in
  (* state type / attempt, lines 215-250 *)
  let '(ty, attempt, recovery) :=
    if is_ok k new_state then
      (Hard, 1, negb (is_ok k old_state))
    else
      let ty0 := old_type in
      let at0 := 1 in
      let '(ty1, at1) := if is_ok k old_state then (Soft, 1) else (ty0, at0) in
      let '(ty2, at2) :=
        if stype_eqb old_type Soft && negb (is_ok k old_state)
        then (Soft, old_attempt + 1) else (ty1, at1) in
      let '(ty3, at3) := if c_max c <=? at2 then (Hard, 1) else (ty2, at2) in
      (ty3, at3, false) in
  (* stateChange, lines 262-266 *)
  let state_change :=
    match k with
    | KService => negb (sstate_eqb old_state new_state)
    | KHost => negb (Bool.eqb (host_up old_state) (host_up new_state))
    end in
  (* hardChange, lines 286-289 *)
  let hard_change :=
    (stype_eqb ty Hard && stype_eqb old_type Soft)
    || (state_change && stype_eqb old_type Hard && stype_eqb ty Hard) in
  let vol := c_volatile c in
  let upd_hard := hard_change || vol in
  let last_hard := if upd_hard then new_state else s_last_hard_raw s in
  let hard_states :=
    if upd_hard then s_hard_states s / 100 + sstate_num new_state * 100 else s_hard_states s in
  let soft_states :=
    if state_change then s_soft_states s / 100 + sstate_num new_state * 100 else s_soft_states s in
  (* event, lines 443-454 *)
  let ev :=
    if hard_change || (vol && negb (is_ok k old_state && is_ok k new_state)) then EvHard
    else if state_change || stype_eqb ty Soft then EvSoft
    else EvNone in
  ({| s_raw := new_state; s_type := ty; s_attempt := attempt; s_last_hard_raw := last_hard;
      s_hard_states := hard_states; s_soft_states := soft_states;
      s_has_cr := true; s_cr_start := r_start r |},
   {| i_old_raw := old_state; i_old_type := old_type; i_state_change := state_change;
      i_hard_change := hard_change; i_recovery := recovery; i_event := ev;
      i_prev_hard := hard_states mod 100 |}).

Definition step (c : cfg) (now : Z) (s : st) (r : cres) : st * option info :=
  if rejected now s r then (s, None)
  else let '(s', i) := step_accept c s r in (s', Some i).

(* run a history of (now, result) pairs *)
Definition run (c : cfg) (s : st) (h : list (Z * cres)) : st :=
  fold_left (fun s nr => fst (step c (fst nr) s (snd nr))) h s.
