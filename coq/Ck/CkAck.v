(* C06 layer on top of the combined checkable model: the cluster entry points for acknowledgements
   (not part of CkFull.v, which models the API action and the external commands) and the operation
   language the C06 theorems quantify over.  Definitions only.
     ClusterEvents::AcknowledgementSetAPIHandler       lib/icinga/clusterevents.cpp:802-848
     ClusterEvents::AcknowledgementClearedAPIHandler   lib/icinga/clusterevents.cpp:874-910
   The message is taken to come from an authenticated endpoint that may access the object (the
   origin checks are C13's subject). *)
From Icv Require Import Base.Tac Ck.CkState Ck.CkFull.
Local Open Scope Z_scope.

(* AcknowledgementSetAPIHandler: the ONLY precondition is "not already acknowledged" (IsAcknowledged(),
   which performs the lazy expiry); no state test, no expiry test, no comment is created here
   (the Comment object travels separately as a config object). *)
Definition cka_cluster_set (now : Z) (sticky notify : bool) (expiry : Z) (f : full) : full * list out :=
  let '(a, f1, o1) := get_ack now f in
  if negb (ackt_eqb a AckNone) then (f1, o1)
  else
    let ty := if sticky then AckSticky else AckNormal in
    let f2 := set_ack f1 ty expiry in
    (f2, o1 ++ (if notify && negb (f_paused f2) then [ONotify NAck] else []) ++ [OAckSet ty]).

(* AcknowledgementClearedAPIHandler: ClearAcknowledgement only, comments are not touched *)
Definition cka_cluster_clear (f : full) : full * list out := clear_ack f.

Inductive cka_op :=
| CkaBase (o : op)
| CkaClusterSet (sticky notify : bool) (expiry : Z)
| CkaClusterClear.

Definition cka_step (c : fcfg) (now : Z) (f : full) (o : cka_op) : full * list out :=
  match o with
  | CkaBase b => full_step c now f b
  | CkaClusterSet sticky notify expiry => cka_cluster_set now sticky notify expiry f
  | CkaClusterClear => cka_cluster_clear f
  end.

(* a history: every operation comes with the clock value at which it runs (no monotonicity assumed) *)
Fixpoint cka_run (c : fcfg) (f : full) (h : list (Z * cka_op)) : full :=
  match h with
  | [] => f
  | (now, o) :: t => cka_run c (fst (cka_step c now f o)) t
  end.

(* all events emitted along a history, oldest first *)
Fixpoint cka_outs (c : fcfg) (f : full) (h : list (Z * cka_op)) : list out :=
  match h with
  | [] => []
  | (now, o) :: t => snd (cka_step c now f o) ++ cka_outs c (fst (cka_step c now f o)) t
  end.

(* ---- vocabulary of the C06 statements ---- *)

(* the acknowledgement is set and its expiry time has passed (what the next read will clear) *)
Definition cka_expired (now : Z) (f : full) : bool :=
  negb (ackt_eqb (f_ack f) AckNone) && negb (f_ack_expiry f =? 0) && (f_ack_expiry f <? now).

(* the acknowledgement as every reader sees it *)
Definition cka_eff_ack (now : Z) (f : full) : ackt := if cka_expired now f then AckNone else f_ack f.

Definition cka_is_clr (x : out) : bool := match x with OAckCleared => true | _ => false end.
Definition cka_is_set (x : out) : bool := match x with OAckSet _ => true | _ => false end.
Definition cka_is_nack (x : out) : bool := match x with ONotify NAck => true | _ => false end.
Definition cka_is_nprob (x : out) : bool := match x with ONotify NProblem => true | _ => false end.
Definition cka_is_ackev (x : out) : bool := cka_is_clr x || cka_is_set x || cka_is_nack x.
Definition cka_count (p : out -> bool) (o : list out) : Z := Z.of_nat (length (filter p o)).

(* the state change of a result as the API shows it: Up/Down for hosts, the service state for services *)
Definition cka_api_state (k : kind) (s : sstate) : Z :=
  match k with
  | KHost => if host_up s then 0 else 1
  | KService => sstate_num s
  end.

(* set/cleared events alternate along a history; [acked] = is it set at the start *)
Fixpoint cka_alternates (acked : bool) (o : list out) : option bool :=
  match o with
  | [] => Some acked
  | OAckSet _ :: t => if acked then None else cka_alternates true t
  | OAckCleared :: t => if acked then cka_alternates false t else None
  | _ :: t => cka_alternates acked t
  end.

(* the three entry points of the property *)
Definition cka_is_ack_op (o : cka_op) : bool :=
  match o with CkaBase (OpAck _ _ _ _ _ _) | CkaClusterSet _ _ _ => true | _ => false end.
