(* C02 - lemmas about the suppression layer of the combined checkable model (Ck/CkFull.v).
   Part 1: which operations can touch the C02 state (suppressed bits, state_before_suppression) and
   which can emit Problem/Recovery/FlappingStart/FlappingEnd requests; a "view" of do_result that separates
   the C01/C05/C06 prefix of ProcessCheckResult from the send/suppress/stash decision. *)
From Icv Require Import Base.Tac Ck.CkState Ck.CkStateProofs Ck.CkFull.
Local Open Scope Z_scope.

(* ------------------------------------------------------------------ outputs relevant to C02 *)

Definition c02_sn (o : out) : bool :=
  match o with ONotify NProblem | ONotify NRecovery => true | _ => false end.
Definition c02_fn (o : out) : bool :=
  match o with ONotify NFlapStart | ONotify NFlapEnd => true | _ => false end.
Definition c02_state_outs (l : list out) : list out := filter c02_sn l.
Definition c02_flap_outs (l : list out) : list out := filter c02_fn l.
Definition c02_quiet (l : list out) : Prop := Forall (fun o => c02_sn o = false /\ c02_fn o = false) l.

Lemma c02_quiet_app a b : c02_quiet a -> c02_quiet b -> c02_quiet (a ++ b).
Proof. intros; apply Forall_app; split; assumption. Qed.

Lemma c02_quiet_state l : c02_quiet l -> c02_state_outs l = [].
Proof.
  induction 1 as [|x l [Hx _] _ IH]; [reflexivity|]. unfold c02_state_outs in *. cbn [filter]. rewrite Hx. exact IH.
Qed.

Lemma c02_quiet_flap l : c02_quiet l -> c02_flap_outs l = [].
Proof.
  induction 1 as [|x l [_ Hx] _ IH]; [reflexivity|]. unfold c02_flap_outs in *. cbn [filter]. rewrite Hx. exact IH.
Qed.

Lemma c02_state_outs_app a b : c02_state_outs (a ++ b) = c02_state_outs a ++ c02_state_outs b.
Proof. apply filter_app. Qed.
Lemma c02_flap_outs_app a b : c02_flap_outs (a ++ b) = c02_flap_outs a ++ c02_flap_outs b.
Proof. apply filter_app. Qed.

Ltac c02_q :=
  repeat first [ apply c02_quiet_app | apply Forall_nil
               | (apply Forall_cons; [split; reflexivity|]) | assumption ].

(* ------------------------------------------------------------------ the C02 part of the state *)

Definition c02_pending (f : full) : bool := f_sp_problem f || f_sp_recovery f.

(* everything C02 reads except acknowledgement and downtimes *)
Definition c02_same (f f' : full) : Prop :=
  f_st f' = f_st f /\ f_sp_problem f' = f_sp_problem f /\ f_sp_recovery f' = f_sp_recovery f /\
  f_sp_fstart f' = f_sp_fstart f /\ f_sp_fend f' = f_sp_fend f /\ f_sbs f' = f_sbs f /\
  f_flap f' = f_flap f /\ f_paused f' = f_paused f /\ f_next_check f' = f_next_check f /\
  f_parent_checked f' = f_parent_checked f /\ f_parent_up f' = f_parent_up f /\
  f_parent_lsc f' = f_parent_lsc f.

Lemma c02_same_refl f : c02_same f f.
Proof. repeat split. Qed.

Lemma c02_same_trans a b c : c02_same a b -> c02_same b c -> c02_same a c.
Proof.
  intros (A1&A2&A3&A4&A5&A6&A7&A8&A9&A10&A11&A12) (B1&B2&B3&B4&B5&B6&B7&B8&B9&B10&B11&B12).
  repeat split; congruence.
Qed.

Ltac c02_use H :=
  let A1 := fresh in let A2 := fresh in let A3 := fresh in let A4 := fresh in let A5 := fresh in
  let A6 := fresh in let A7 := fresh in let A8 := fresh in let A9 := fresh in let A10 := fresh in
  let A11 := fresh in let A12 := fresh in
  destruct H as (A1&A2&A3&A4&A5&A6&A7&A8&A9&A10&A11&A12);
  rewrite ?A1, ?A2, ?A3, ?A4, ?A5, ?A6, ?A7, ?A8, ?A9, ?A10, ?A11, ?A12 in *.

Lemma clear_ack_same f : c02_same f (fst (clear_ack f)) /\ c02_quiet (snd (clear_ack f))
  /\ f_dts (fst (clear_ack f)) = f_dts f /\ f_ack (fst (clear_ack f)) = AckNone.
Proof.
  unfold clear_ack. cbn [fst snd]. split; [repeat split|]. split; [|split; reflexivity].
  destruct (negb (ackt_eqb (f_ack f) AckNone)); c02_q.
Qed.

Definition c02_ack_live (now : Z) (f : full) : bool :=
  negb (ackt_eqb (f_ack f) AckNone) && negb (negb (f_ack_expiry f =? 0) && (f_ack_expiry f <? now)).

Lemma get_ack_facts now f :
  let '(a, f', o) := get_ack now f in
  c02_same f f' /\ c02_quiet o /\ f_dts f' = f_dts f /\
  negb (ackt_eqb a AckNone) = c02_ack_live now f /\ f_ack f' = a /\
  c02_ack_live now f' = c02_ack_live now f /\ get_ack now f' = (a, f', []).
Proof.
  unfold get_ack, c02_ack_live.
  destruct (negb (ackt_eqb (f_ack f) AckNone)) eqn:E1;
  destruct (negb (f_ack_expiry f =? 0)) eqn:E2;
  destruct (f_ack_expiry f <? now) eqn:E3; cbn [andb negb];
  try (repeat split; try c02_q; try (rewrite E1, ?E2, ?E3; reflexivity);
       try (destruct (f_ack f); reflexivity || discriminate); fail).
  unfold clear_ack. cbn [fst snd]. rewrite E1. repeat split; c02_q.
Qed.

Lemma set_comments_same f cs n : c02_same f (set_comments f cs n) /\ f_dts (set_comments f cs n) = f_dts f
  /\ f_ack (set_comments f cs n) = f_ack f /\ f_ack_expiry (set_comments f cs n) = f_ack_expiry f.
Proof. repeat split. Qed.

Lemma set_dts_same f ds : c02_same f (set_dts f ds) /\ f_dts (set_dts f ds) = ds
  /\ f_ack (set_dts f ds) = f_ack f /\ f_ack_expiry (set_dts f ds) = f_ack_expiry f.
Proof. repeat split. Qed.

Lemma set_ack_same f a e : c02_same f (set_ack f a e) /\ f_dts (set_ack f a e) = f_dts f.
Proof. repeat split. Qed.

Lemma remove_ack_comments_same b f : c02_same f (remove_ack_comments b f)
  /\ f_dts (remove_ack_comments b f) = f_dts f
  /\ f_ack (remove_ack_comments b f) = f_ack f /\ f_ack_expiry (remove_ack_comments b f) = f_ack_expiry f.
Proof. repeat split. Qed.

(* ------------------------------------------------------------------ downtime machinery emits nothing of C02 *)

Lemma fold_pair_quiet {A} (g : list dt -> A -> list dt * list out) (l : list A) :
  (forall ds a, c02_quiet (snd (g ds a))) ->
  forall acc : list dt * list out, c02_quiet (snd acc) ->
  c02_quiet (snd (fold_left (fun acc a => let '(dsa, oa) := acc in
                                           let '(dsb, ob) := g dsa a in (dsb, oa ++ ob)) l acc)).
Proof.
  intros Hg. induction l as [|a l IH]; intros [dsa oa] Hacc; cbn [fold_left]; [exact Hacc|].
  apply IH. specialize (Hg dsa a). destruct (g dsa a) as [dsb ob]. cbn [snd] in *. c02_q.
Qed.

Lemma trigger_dt_quiet fuel : forall now p id t ds, c02_quiet (snd (trigger_dt fuel now p id t ds)).
Proof.
  induction fuel as [|fuel IH]; intros; cbn [trigger_dt]; [c02_q|].
  destruct (find_dt id ds) as [d|]; [|c02_q].
  destruct (negb (dt_can_be_triggered now d)); [c02_q|].
  match goal with
  | |- context [fold_left ?F ?L ?A] =>
      pose proof (fold_pair_quiet (fun dsa cid => trigger_dt fuel now p cid t dsa) L
                    (fun ds a => IH now p a t ds) A) as H
  end.
  cbn [snd] in H. specialize (H (Forall_nil _)).
  match goal with |- context [fold_left ?F ?L ?A] => destruct (fold_left F L A) as [ds2 o2] end.
  cbn [snd] in *.
  destruct (negb (d_fixed d) && negb p); c02_q.
Qed.

Lemma trigger_all_quiet now p t ds : c02_quiet (snd (trigger_all now p t ds)).
Proof.
  unfold trigger_all.
  apply (fold_pair_quiet (fun dsa id => trigger_dt (chain_fuel dsa) now p id t dsa)).
  - intros. apply trigger_dt_quiet.
  - c02_q.
Qed.

Lemma remove_dt_quiet fuel : forall now p id ch r ds, c02_quiet (snd (fst (remove_dt fuel now p id ch r ds))).
Proof.
  induction fuel as [|fuel IH]; intros; cbn [remove_dt]; [c02_q|].
  destruct (find_dt id ds) as [d|]; [|c02_q].
  destruct (d_owned d && match r with RByUser => true | _ => false end); [c02_q|].
  set (kids := if ch then map d_id (filter (fun x => d_parent x =? id) ds) else []).
  assert (forall (l : list Z) (acc : list dt * list out * bool), c02_quiet (snd (fst acc)) ->
          c02_quiet (snd (fst (fold_left (fun (acc : list dt * list out * bool) (k : Z) =>
                           let '(dsa, oa, oka) := acc in
                           if (oka : bool) then
                             let '(dsb, ob, okb) := remove_dt fuel now p k true r dsa in
                             (dsb, oa ++ ob, okb)
                           else acc) l acc)))) as Hf.
  { induction l as [|k l IHl]; intros [[dsa oa] oka] Hacc; cbn [fold_left]; [exact Hacc|].
    apply IHl. destruct oka; [|exact Hacc].
    specialize (IH now p k true r dsa). destruct (remove_dt fuel now p k true r dsa) as [[dsb ob] okb].
    cbn [fst snd] in *. c02_q. }
  specialize (Hf kids (ds, @nil out, true) (Forall_nil _)).
  match goal with |- context [fold_left ?F ?L ?A] => destruct (fold_left F L A) as [[ds1 o1] ok1] end.
  cbn [fst snd] in Hf.
  destruct (negb ok1); cbn [fst snd]; [assumption|].
  destruct (find_dt id ds1) as [d1|]; cbn [fst snd]; [|assumption].
  destruct (dt_is_triggered now d1 && negb p); c02_q.
Qed.

(* ------------------------------------------------------------------ operations other than Result / Fire *)

Definition c02_is_core_op (o : op) : bool :=
  match o with OpResult _ | OpFire => true | _ => false end.

Definition c02_bits_same (f f' : full) : Prop :=
  f_sp_problem f' = f_sp_problem f /\ f_sp_recovery f' = f_sp_recovery f /\
  f_sp_fstart f' = f_sp_fstart f /\ f_sp_fend f' = f_sp_fend f /\ f_sbs f' = f_sbs f /\
  f_st f' = f_st f /\ f_flap f' = f_flap f.

Lemma c02_same_bits f f' : c02_same f f' -> c02_bits_same f f'.
Proof. intros (A1&A2&A3&A4&A5&A6&A7&_). repeat split; assumption. Qed.

Lemma do_ack_other c now v sticky notify pers eg expiry f :
  c02_same f (fst (do_ack c now v sticky notify pers eg expiry f)) /\
  c02_quiet (snd (do_ack c now v sticky notify pers eg expiry f)).
Proof.
  unfold do_ack.
  assert (forall g, c02_same g (fst (let '(a, f1, o1) := get_ack now g in
      if negb (ackt_eqb a AckNone) then (f1, o1 ++ [ORefused 3])
      else
        let cm := {| cm_id := f_next_cm f1; cm_persistent := pers; cm_entry := now;
                     cm_expire := match v with ViaApi => if eg then expiry else 0 | ViaExt => 0 | ViaExtExpire => expiry end |} in
        let f2 := set_comments f1 (f_comments f1 ++ [cm]) (f_next_cm f1 + 1) in
        let f3 := set_ack f2 (if sticky then AckSticky else AckNormal)
                     match v with ViaApi => if eg then expiry else 0 | ViaExt => 0 | ViaExtExpire => expiry end in
        (f3, o1 ++ (if notify && negb (f_paused f3) then [ONotify NAck] else [])
              ++ [OAckSet (if sticky then AckSticky else AckNormal)])))
      /\ c02_quiet (snd (let '(a, f1, o1) := get_ack now g in
      if negb (ackt_eqb a AckNone) then (f1, o1 ++ [ORefused 3])
      else
        let cm := {| cm_id := f_next_cm f1; cm_persistent := pers; cm_entry := now;
                     cm_expire := match v with ViaApi => if eg then expiry else 0 | ViaExt => 0 | ViaExtExpire => expiry end |} in
        let f2 := set_comments f1 (f_comments f1 ++ [cm]) (f_next_cm f1 + 1) in
        let f3 := set_ack f2 (if sticky then AckSticky else AckNormal)
                     match v with ViaApi => if eg then expiry else 0 | ViaExt => 0 | ViaExtExpire => expiry end in
        (f3, o1 ++ (if notify && negb (f_paused f3) then [ONotify NAck] else [])
              ++ [OAckSet (if sticky then AckSticky else AckNormal)])))) as Hp.
  { intros g. pose proof (get_ack_facts now g) as H. destruct (get_ack now g) as [[a f1] o1].
    destruct H as (Hs & Hq & _).
    destruct (negb (ackt_eqb a AckNone)); cbn [fst snd].
    - split; [assumption|c02_q].
    - split.
      + eapply c02_same_trans; [exact Hs|]. repeat split.
      + destruct (notify && _); c02_q. }
  destruct v.
  - destruct (eg && (expiry <=? now)); [split; [apply c02_same_refl|c02_q]|].
    destruct (entry_state_ok c f); [split; [apply c02_same_refl|c02_q]|]. apply Hp.
  - destruct (entry_state_ok c f); [split; [apply c02_same_refl|c02_q]|]. cbn [negb andb]. apply Hp.
  - destruct (entry_state_ok c f); [split; [apply c02_same_refl|c02_q]|].
    destruct (negb (expiry =? 0) && (expiry <=? now)); [split; [apply c02_same_refl|c02_q]|]. apply Hp.
Qed.

Lemma do_dt_remove_other now id ch r f :
  c02_same f (fst (do_dt_remove now id ch r f)) /\ c02_quiet (snd (do_dt_remove now id ch r f)).
Proof.
  unfold do_dt_remove.
  pose proof (remove_dt_quiet (chain_fuel (f_dts f)) now (f_paused f) id ch r (f_dts f)) as H.
  destruct (remove_dt _ _ _ _ _ _ _) as [[ds o] ok]. cbn [fst snd] in *.
  split; [repeat split|]. destruct ok; c02_q.
Qed.

Lemma c02_other_ops c now f o :
  c02_is_core_op o = false ->
  c02_quiet (snd (full_step c now f o)) /\ c02_bits_same f (fst (full_step c now f o)).
Proof.
  destruct o; cbn [c02_is_core_op full_step]; try discriminate; intros _.
  - (* parent *) cbn [fst snd]. split; [c02_q|repeat split].
  - (* ack *) destruct (do_ack_other c now v sticky notify persistent expiry_given expiry f) as [A B].
    split; [assumption|apply c02_same_bits; assumption].
  - (* unack *) unfold do_unack. destruct (clear_ack_same f) as (A & B & _).
    destruct (clear_ack f) as [f1 o]. cbn [fst snd] in *.
    split; [c02_q|]. apply c02_same_bits. eapply c02_same_trans; [exact A|]. repeat split.
  - (* ack read *) pose proof (get_ack_facts now f) as H. destruct (get_ack now f) as [[a f'] o].
    destruct H as (A & B & _). cbn [fst snd]. split; [assumption|apply c02_same_bits; assumption].
  - (* comment timer *) cbn [fst snd]. split; [c02_q|repeat split].
  - (* dt add *) unfold do_dt_add.
    set (d := {| d_id := id; d_fixed := fixed; d_start := start; d_end := end_; d_duration := duration;
                 d_entry := now; d_trigger := 0; d_triggers := []; d_parent := parent; d_owned := owned |}).
    set (ds0 := f_dts f ++ [d]).
    assert (c02_quiet (snd (if negb fixed && s_has_cr (f_st f) && negb (is_ok (c_kind (fc_base c)) (s_raw (f_st f)))
              then trigger_dt (chain_fuel ds0) now (f_paused f) id (Z.max (Z.max start now) (f_lsc f)) ds0
              else (ds0, [])))) as H1.
    { destruct (negb fixed && _ && _); [apply trigger_dt_quiet|c02_q]. }
    destruct (if negb fixed && _ && _ then _ else _) as [ds1 o1]. cbn [snd] in H1.
    assert (c02_quiet (snd (match find_dt id ds1 with
        | Some d1 =>
            if fixed && dt_can_be_triggered now d1
            then let '(dsx, ox) := trigger_dt (chain_fuel ds1) now (f_paused f) id (Z.max start now) ds1 in
                 (dsx, (if negb (f_paused f) then [ONotify NDowntimeStart] else []) ++ ox)
            else (ds1, [])
        | None => (ds1, [])
        end))) as H2.
    { destruct (find_dt id ds1) as [d1|]; [|c02_q].
      destruct (fixed && dt_can_be_triggered now d1); [|c02_q].
      pose proof (trigger_dt_quiet (chain_fuel ds1) now (f_paused f) id (Z.max start now) ds1) as H.
      destruct (trigger_dt _ _ _ _ _ _) as [dsx ox]. cbn [snd] in *.
      destruct (negb (f_paused f)); c02_q. }
    match type of H2 with c02_quiet (snd ?X) => destruct X as [ds2 o2] end. cbn [fst snd] in *.
    split; [c02_q|repeat split].
  - (* dt remove *) destruct (do_dt_remove_other now id children r f) as [A B].
    split; [assumption|apply c02_same_bits; assumption].
  - (* dt start timer *) unfold do_dt_start_timer.
    assert (forall (l : list Z) (acc : list dt * list out), c02_quiet (snd acc) ->
      c02_quiet (snd (fold_left (fun acc id =>
                 let '(dsa, oa) := acc in
                 match find_dt id dsa with
                 | Some d =>
                     if dt_can_be_triggered now d && d_fixed d
                     then let '(dsb, ob) := trigger_dt (chain_fuel dsa) now (f_paused f) id
                                                       (Z.max (d_start d) (d_entry d)) dsa in
                          (dsb, oa ++ (if negb (f_paused f) then [ONotify NDowntimeStart] else []) ++ ob)
                     else acc
                 | None => acc
                 end) l acc))) as Hf.
    { induction l as [|k l IHl]; intros [dsa oa] Hacc; cbn [fold_left]; [exact Hacc|].
      apply IHl. destruct (find_dt k dsa) as [d|]; [|exact Hacc].
      destruct (dt_can_be_triggered now d && d_fixed d); [|exact Hacc].
      pose proof (trigger_dt_quiet (chain_fuel dsa) now (f_paused f) k (Z.max (d_start d) (d_entry d)) dsa) as H.
      destruct (trigger_dt _ _ _ _ _ _) as [dsb ob]. cbn [snd] in *.
      destruct (negb (f_paused f)); c02_q. }
    specialize (Hf (map d_id (f_dts f)) (f_dts f, []) (Forall_nil _)).
    destruct (fold_left _ _ _) as [ds o]. cbn [fst snd] in *. split; [assumption|repeat split].
  - (* dt cleanup *) unfold do_dt_cleanup.
    destruct (find_dt id (f_dts f)) as [d|]; [|split; [c02_q|repeat split]].
    destruct (dt_is_expired now d); [|split; [c02_q|repeat split]].
    destruct (do_dt_remove_other now id false RExpired f) as [A B].
    split; [assumption|apply c02_same_bits; assumption].
  - (* pause *) cbn [fst snd]. split; [c02_q|repeat split].
  - (* next check *) cbn [fst snd]. split; [c02_q|repeat split].
Qed.
