(* The combined checkable model (C02, C05, C06 on top of the C01 layer).
   Transcribes, statement by statement:
     Checkable::ProcessCheckResult           lib/icinga/checkable-check.cpp:99-541
     Checkable::FireSuppressedNotifications  lib/icinga/checkable-notification.cpp:132-239
     NotificationReasonApplies/Suppressed, IsLikelyToBeCheckedSoon   ibid. 260-336
     Checkable::GetAcknowledgement/AcknowledgeProblem/ClearAcknowledgement  lib/icinga/checkable.cpp:139-193
     RemoveAckComments                       lib/icinga/checkable-comment.cpp:22-44
     ApiActions::AcknowledgeProblem/RemoveAcknowledgement, ExternalCommandProcessor::Acknowledge*Problem[Expire]
     Downtime::Start/IsInEffect/IsTriggered/IsExpired/CanBeTriggered/TriggerDowntime/RemoveDowntime,
     DowntimesStartTimerHandler, the per-downtime clean-up timer      lib/icinga/downtime.cpp
     Checkable::UpdateFlappingStatus         lib/icinga/checkable-flapping.cpp (exact arithmetic in 1/100 %)
   The clock, timer firings, the parent's state (reachability) and authority are explicit operations. *)
From Icv Require Import Base.Tac Ck.CkState.
Local Open Scope Z_scope.

Inductive ackt := AckNone | AckNormal | AckSticky.
Definition ackt_num (a : ackt) : Z := match a with AckNone => 0 | AckNormal => 1 | AckSticky => 2 end.
Definition ackt_eqb (a b : ackt) : bool := ackt_num a =? ackt_num b.

(* notification types (bit values come from notification.hpp; see Facts_enums) *)
Inductive ntype := NDowntimeStart | NDowntimeEnd | NAck | NProblem | NRecovery | NFlapStart | NFlapEnd.
Definition ntype_num (t : ntype) : Z :=
  match t with
  | NDowntimeStart => 1 | NDowntimeEnd => 2 | NAck => 16 | NProblem => 32 | NRecovery => 64
  | NFlapStart => 128 | NFlapEnd => 256
  end.

Record comment := { cm_id : Z; cm_persistent : bool; cm_entry : Z; cm_expire : Z }.

Record dt := {
  d_id : Z; d_fixed : bool; d_start : Z; d_end : Z; d_duration : Z; d_entry : Z;
  d_trigger : Z;                 (* trigger_time, 0 = not triggered *)
  d_triggers : list Z;           (* names of downtimes chained to this one *)
  d_parent : Z;                  (* parent downtime id, 0 = none *)
  d_owned : bool                 (* config_owner non-empty *)
}.

Record flap := { fl_buf : list bool; fl_index : Z; fl_last : sstate; fl_flapping : bool }.

Record fcfg := {
  fc_base : cfg;
  fc_flap_enabled : bool;
  fc_flap_high : Z; fc_flap_low : Z;      (* thresholds in 1/100 % *)
  fc_active_checks : bool;                (* enable_active_checks *)
  fc_check_interval : Z
}.

Record full := {
  f_st : st;
  f_lsc : Z;                              (* last_state_change; 0 stands for "process start" *)
  f_ack : ackt; f_ack_expiry : Z;
  f_comments : list comment; f_next_cm : Z;
  f_dts : list dt;                        (* creation order *)
  f_sp_problem : bool; f_sp_recovery : bool; f_sp_fstart : bool; f_sp_fend : bool;
  f_sbs : sstate;                         (* state_before_suppression *)
  f_flap : flap;
  f_paused : bool;
  f_next_check : Z;
  f_parent_checked : bool; f_parent_up : bool; f_parent_lsc : Z
}.

Definition init_flap : flap :=
  {| fl_buf := repeat false 20; fl_index := 0; fl_last := SUnknown; fl_flapping := false |}.

Definition init_full : full :=
  {| f_st := pending; f_lsc := 0; f_ack := AckNone; f_ack_expiry := 0; f_comments := []; f_next_cm := 1;
     f_dts := []; f_sp_problem := false; f_sp_recovery := false; f_sp_fstart := false; f_sp_fend := false;
     f_sbs := SOK; f_flap := init_flap; f_paused := false; f_next_check := 0;
     f_parent_checked := false; f_parent_up := true; f_parent_lsc := 0 |}.

Inductive out :=
| ONotify (t : ntype)
| OAckSet (a : ackt)
| OAckCleared
| ODtTriggered (id : Z)
| ODtRemoved (id : Z)
| OStateChange (e : event)
| ONewResult
| ORefused (code : Z)
| ODone.

(* ------------------------------------------------------------------ acknowledgement *)

(* Checkable::ClearAcknowledgement *)
Definition clear_ack (f : full) : full * list out :=
  let was := negb (ackt_eqb (f_ack f) AckNone) in
  ({| f_st := f_st f; f_lsc := f_lsc f; f_ack := AckNone; f_ack_expiry := 0;
      f_comments := f_comments f; f_next_cm := f_next_cm f; f_dts := f_dts f;
      f_sp_problem := f_sp_problem f; f_sp_recovery := f_sp_recovery f; f_sp_fstart := f_sp_fstart f;
      f_sp_fend := f_sp_fend f; f_sbs := f_sbs f; f_flap := f_flap f; f_paused := f_paused f;
      f_next_check := f_next_check f;
      f_parent_checked := f_parent_checked f; f_parent_up := f_parent_up f; f_parent_lsc := f_parent_lsc f |},
   if was then [OAckCleared] else []).

(* Checkable::GetAcknowledgement: the lazy expiry happens on the read *)
Definition get_ack (now : Z) (f : full) : ackt * full * list out :=
  if negb (ackt_eqb (f_ack f) AckNone) && negb (f_ack_expiry f =? 0) && (f_ack_expiry f <? now)
  then let '(f', o) := clear_ack f in (AckNone, f', o)
  else (f_ack f, f, []).

Definition set_comments (f : full) (cs : list comment) (next : Z) : full :=
  {| f_st := f_st f; f_lsc := f_lsc f; f_ack := f_ack f; f_ack_expiry := f_ack_expiry f;
     f_comments := cs; f_next_cm := next; f_dts := f_dts f;
     f_sp_problem := f_sp_problem f; f_sp_recovery := f_sp_recovery f; f_sp_fstart := f_sp_fstart f;
     f_sp_fend := f_sp_fend f; f_sbs := f_sbs f; f_flap := f_flap f; f_paused := f_paused f;
     f_next_check := f_next_check f;
     f_parent_checked := f_parent_checked f; f_parent_up := f_parent_up f; f_parent_lsc := f_parent_lsc f |}.

(* Checkable::RemoveAckComments(removedBy, createdBefore): None = no bound *)
Definition remove_ack_comments (before : option Z) (f : full) : full :=
  set_comments f
    (filter (fun c => cm_persistent c ||
                      match before with Some b => b <? cm_entry c | None => false end)
            (f_comments f))
    (f_next_cm f).

Definition set_ack (f : full) (a : ackt) (expiry : Z) : full :=
  {| f_st := f_st f; f_lsc := f_lsc f; f_ack := a; f_ack_expiry := expiry;
     f_comments := f_comments f; f_next_cm := f_next_cm f; f_dts := f_dts f;
     f_sp_problem := f_sp_problem f; f_sp_recovery := f_sp_recovery f; f_sp_fstart := f_sp_fstart f;
     f_sp_fend := f_sp_fend f; f_sbs := f_sbs f; f_flap := f_flap f; f_paused := f_paused f;
     f_next_check := f_next_check f;
     f_parent_checked := f_parent_checked f; f_parent_up := f_parent_up f; f_parent_lsc := f_parent_lsc f |}.

Inductive via := ViaApi | ViaExt | ViaExtExpire.

(* the state test of the entry points: host->GetState() == HostUp / service->GetState() == ServiceOK *)
Definition entry_state_ok (c : fcfg) (f : full) : bool :=
  match c_kind (fc_base c) with
  | KHost => host_up (s_raw (f_st f))
  | KService => sstate_eqb (s_raw (f_st f)) SOK
  end.

(* ApiActions::AcknowledgeProblem / ExternalCommandProcessor::Acknowledge{Host,Svc}Problem[Expire].
   [expiry_given]: the API call carried an "expiry" parameter.  Refusal codes: 1 expiry not in the future,
   2 object is OK/Up, 3 already acknowledged. *)
Definition do_ack (c : fcfg) (now : Z) (v : via) (sticky notify persistent expiry_given : bool) (expiry : Z)
           (f : full) : full * list out :=
  let expiry_bad :=
    match v with
    | ViaApi => expiry_given && (expiry <=? now)
    | ViaExt => false
    | ViaExtExpire => negb (expiry =? 0) && (expiry <=? now)
    end in
  let expiry' := match v with ViaApi => if expiry_given then expiry else 0 | ViaExt => 0 | ViaExtExpire => expiry end in
  let proceed (f : full) : full * list out :=
    let '(a, f1, o1) := get_ack now f in
    if negb (ackt_eqb a AckNone) then (f1, o1 ++ [ORefused 3])
    else
      let cm := {| cm_id := f_next_cm f1; cm_persistent := persistent; cm_entry := now; cm_expire := expiry' |} in
      let f2 := set_comments f1 (f_comments f1 ++ [cm]) (f_next_cm f1 + 1) in
      let f3 := set_ack f2 (if sticky then AckSticky else AckNormal) expiry' in
      (f3, o1 ++ (if notify && negb (f_paused f3) then [ONotify NAck] else [])
              ++ [OAckSet (if sticky then AckSticky else AckNormal)]) in
  match v with
  | ViaApi =>
      if expiry_bad then (f, [ORefused 1])
      else if entry_state_ok c f then (f, [ORefused 2])
      else proceed f
  | _ =>
      if entry_state_ok c f then (f, [ORefused 2])
      else if expiry_bad then (f, [ORefused 1])
      else proceed f
  end.

(* ApiActions::RemoveAcknowledgement / ExternalCommandProcessor::Remove*Acknowledgement *)
Definition do_unack (f : full) : full * list out :=
  let '(f1, o) := clear_ack f in
  (remove_ack_comments None f1, o ++ [ODone]).

(* Comment::CommentsExpireTimerHandler *)
Definition comments_expire (now : Z) (f : full) : full :=
  set_comments f
    (filter (fun c => negb (negb (cm_expire c =? 0) && (cm_expire c <? now)) || cm_persistent c) (f_comments f))
    (f_next_cm f).

(* ------------------------------------------------------------------ downtimes *)

Definition dt_in_effect (now : Z) (d : dt) : bool :=
  if d_fixed d then (d_start d <=? now) && (now <? d_end d)
  else if d_trigger d =? 0 then false
  else now <? d_trigger d + d_duration d.

Definition dt_is_triggered (now : Z) (d : dt) : bool := (0 <? d_trigger d) && (d_trigger d <=? now).

Definition dt_is_expired (now : Z) (d : dt) : bool :=
  if d_fixed d then d_end d <? now
  else if dt_is_triggered now d && negb (dt_in_effect now d) then true
  else if negb (dt_is_triggered now d) && (d_end d <? now) then true
  else false.

Definition dt_can_be_triggered (now : Z) (d : dt) : bool :=
  if dt_is_triggered now d && (d_fixed d || dt_in_effect now d) then false   (* /repo 51cd8e9 fix: triggered fixed downtimes never again *)
  else if dt_is_expired now d then false
  else if (now <? d_start d) || (d_end d <? now) then false
  else true.

Definition set_dts (f : full) (ds : list dt) : full :=
  {| f_st := f_st f; f_lsc := f_lsc f; f_ack := f_ack f; f_ack_expiry := f_ack_expiry f;
     f_comments := f_comments f; f_next_cm := f_next_cm f; f_dts := ds;
     f_sp_problem := f_sp_problem f; f_sp_recovery := f_sp_recovery f; f_sp_fstart := f_sp_fstart f;
     f_sp_fend := f_sp_fend f; f_sbs := f_sbs f; f_flap := f_flap f; f_paused := f_paused f;
     f_next_check := f_next_check f;
     f_parent_checked := f_parent_checked f; f_parent_up := f_parent_up f; f_parent_lsc := f_parent_lsc f |}.

Definition find_dt (id : Z) (ds : list dt) : option dt := find (fun d => d_id d =? id) ds.

Definition upd_trigger (id t : Z) (ds : list dt) : list dt :=
  map (fun d => if d_id d =? id then
                  {| d_id := d_id d; d_fixed := d_fixed d; d_start := d_start d; d_end := d_end d;
                     d_duration := d_duration d; d_entry := d_entry d; d_trigger := t;
                     d_triggers := d_triggers d; d_parent := d_parent d; d_owned := d_owned d |}
                else d) ds.

(* Downtime::TriggerDowntime, recursion over the chain on explicit fuel *)
Fixpoint trigger_dt (fuel : nat) (now : Z) (paused : bool) (id t : Z) (ds : list dt) : list dt * list out :=
  match fuel with
  | O => (ds, [])
  | S fuel' =>
      match find_dt id ds with
      | None => (ds, [])
      | Some d =>
          if negb (dt_can_be_triggered now d) then (ds, [])
          else
            let ds1 := if d_trigger d =? 0 then upd_trigger id t ds else ds in
            let '(ds2, o2) :=
              fold_left (fun acc cid => let '(dsa, oa) := acc in
                                        let '(dsb, ob) := trigger_dt fuel' now paused cid t dsa in
                                        (dsb, oa ++ ob))
                        (d_triggers d) (ds1, []) in
            (* OnDowntimeTriggered -> NotifyFlexibleDowntimeStart *)
            (ds2, o2 ++ (if negb (d_fixed d) && negb paused then [ONotify NDowntimeStart] else [])
                     ++ [ODtTriggered id])
      end
  end.

Definition chain_fuel (ds : list dt) : nat := S (length ds).

(* Checkable::TriggerDowntimes *)
Definition trigger_all (now : Z) (paused : bool) (t : Z) (ds : list dt) : list dt * list out :=
  fold_left (fun acc id => let '(dsa, oa) := acc in
                           let '(dsb, ob) := trigger_dt (chain_fuel dsa) now paused id t dsa in
                           (dsb, oa ++ ob))
            (map d_id ds) (ds, []).

Definition in_downtime (now : Z) (f : full) : bool := existsb (dt_in_effect now) (f_dts f).
Definition downtime_depth (now : Z) (f : full) : Z := Z.of_nat (length (filter (dt_in_effect now) (f_dts f))).

Definition add_trigger (pid cid : Z) (ds : list dt) : list dt :=
  map (fun d => if (d_id d =? pid) && negb (existsb (Z.eqb cid) (d_triggers d)) then
                  {| d_id := d_id d; d_fixed := d_fixed d; d_start := d_start d; d_end := d_end d;
                     d_duration := d_duration d; d_entry := d_entry d; d_trigger := d_trigger d;
                     d_triggers := d_triggers d ++ [cid]; d_parent := d_parent d; d_owned := d_owned d |}
                else d) ds.

(* Downtime::AddDowntime + Downtime::Start(runtimeCreated = true).
   [trig_by] = id of the downtime this one is chained to (0 = none). *)
Definition do_dt_add (c : fcfg) (now : Z) (id : Z) (fixed : bool) (start end_ duration : Z)
           (trig_by parent : Z) (owned : bool) (f : full) : full * list out :=
  let d := {| d_id := id; d_fixed := fixed; d_start := start; d_end := end_; d_duration := duration;
              d_entry := now; d_trigger := 0; d_triggers := []; d_parent := parent; d_owned := owned |} in
  let ds0 := f_dts f ++ [d] in
  let k := c_kind (fc_base c) in
  (* flexible and already NOT-OK: trigger now *)
  let '(ds1, o1) :=
    if negb fixed && s_has_cr (f_st f) && negb (is_ok k (s_raw (f_st f)))   (* Checkable::GetProblem(), /repo 7c445bb *)
    then trigger_dt (chain_fuel ds0) now (f_paused f) id (Z.max (Z.max start now) (f_lsc f)) ds0
    else (ds0, []) in
  let '(ds2, o2) :=
    match find_dt id ds1 with
    | Some d1 =>
        if fixed && dt_can_be_triggered now d1
        then let '(dsx, ox) := trigger_dt (chain_fuel ds1) now (f_paused f) id (Z.max start now) ds1 in
             (dsx, (if negb (f_paused f) then [ONotify NDowntimeStart] else []) ++ ox)
        else (ds1, [])
    | None => (ds1, [])
    end in
  let ds3 := if trig_by =? 0 then ds2 else add_trigger trig_by id ds2 in
  (set_dts f ds3, o1 ++ o2 ++ [ODone]).

Inductive rreason := RByUser | RExpired | RByOwner.

(* Downtime::RemoveDowntime; children = downtimes whose parent is this one.
   Returns the new list, the events and whether the call completed (false = an exception was thrown
   for an owned downtime; removals done before it persist, as in the code). *)
Fixpoint remove_dt (fuel : nat) (now : Z) (paused : bool) (id : Z) (children : bool) (r : rreason)
         (ds : list dt) : list dt * list out * bool :=
  match fuel with
  | O => (ds, [], true)
  | S fuel' =>
      match find_dt id ds with
      | None => (ds, [], true)
      | Some d =>
          if d_owned d && match r with RByUser => true | _ => false end then (ds, [], false)
          else
            let kids := if children then map d_id (filter (fun x => d_parent x =? id) ds) else [] in
            let '(ds1, o1, ok1) :=
              fold_left (fun (acc : list dt * list out * bool) (k : Z) =>
                           let '(dsa, oa, oka) := acc in
                           if (oka : bool) then
                             let '(dsb, ob, okb) := remove_dt fuel' now paused k true r dsa in
                             (dsb, oa ++ ob, okb)
                           else acc)
                        kids (ds, @nil out, true) in
            if negb ok1 then (ds1, o1, false)
            else
              match find_dt id ds1 with
              | None => (ds1, o1, true)
              | Some d1 =>
                  let ds2 := filter (fun x => negb (d_id x =? id)) ds1 in
                  (ds2, o1 ++ [ODtRemoved id]
                          ++ (if dt_is_triggered now d1 && negb paused then [ONotify NDowntimeEnd] else []),
                   true)
              end
      end
  end.

Definition do_dt_remove (now : Z) (id : Z) (children : bool) (r : rreason) (f : full) : full * list out :=
  let '(ds, o, ok) := remove_dt (chain_fuel (f_dts f)) now (f_paused f) id children r (f_dts f) in
  (set_dts f ds, o ++ [if ok then ODone else ORefused 4]).

(* Downtime::DowntimesStartTimerHandler *)
Definition do_dt_start_timer (now : Z) (f : full) : full * list out :=
  let '(ds, o) :=
    fold_left (fun acc id =>
                 let '(dsa, oa) := acc in
                 match find_dt id dsa with
                 | Some d =>
                     if dt_can_be_triggered now d && d_fixed d
                     then let '(dsb, ob) := trigger_dt (chain_fuel dsa) now (f_paused f) id
                                                       (Z.max (d_start d) (d_entry d)) dsa in
                          (dsb, oa ++ (if negb (f_paused f) then [ONotify NDowntimeStart] else []) ++ ob)
                     else acc
                 | None => acc
                 end)
              (map d_id (f_dts f)) (f_dts f, []) in
  (set_dts f ds, o).

(* the per-downtime clean-up timer callback *)
Definition do_dt_cleanup (now : Z) (id : Z) (f : full) : full * list out :=
  match find_dt id (f_dts f) with
  | Some d => if dt_is_expired now d then do_dt_remove now id false RExpired f else (f, [])
  | None => (f, [])
  end.

(* ------------------------------------------------------------------ flapping (exact) *)

Fixpoint set_nth (n : nat) (b : bool) (l : list bool) : list bool :=
  match l, n with
  | [], _ => []
  | _ :: t, O => b :: t
  | h :: t, S n' => h :: set_nth n' b t
  end.

(* weighted total in 1/100 %:  sum over i of (400 + 10 i) for set bits at (oldest + i) mod 20 *)
Definition flap_value (buf : list bool) (oldest : Z) : Z :=
  fold_left (fun acc i => if nth (Z.to_nat ((oldest + Z.of_nat i) mod 20)) buf false
                          then acc + 400 + 10 * Z.of_nat i else acc)
            (seq 0 20) 0.

Definition update_flap (c : fcfg) (new_state : sstate) (fl : flap) : flap :=
  let change := negb (sstate_eqb new_state (fl_last fl)) in
  let buf := set_nth (Z.to_nat (fl_index fl)) change (fl_buf fl) in
  let oldest := (fl_index fl + 1) mod 20 in
  let v := flap_value buf oldest in
  let flapping := if fl_flapping fl then fc_flap_low c <? v else fc_flap_high c <? v in
  {| fl_buf := buf; fl_index := oldest; fl_last := new_state; fl_flapping := flapping |}.

Definition is_flapping (c : fcfg) (fl : flap) : bool := fc_flap_enabled c && fl_flapping fl.

(* ------------------------------------------------------------------ reachability of the subject *)

(* one parent host (max_check_attempts 1) behind a Dependency with default attributes *)
Definition notif_reachable (f : full) : bool := negb (f_parent_checked f) || f_parent_up f.

(* ------------------------------------------------------------------ check result *)

Definition set_core (f : full) (s : st) (lsc : Z) (spp spr spfs spfe : bool) (sbs : sstate) (fl : flap)
           (nc : Z) : full :=
  {| f_st := s; f_lsc := lsc; f_ack := f_ack f; f_ack_expiry := f_ack_expiry f;
     f_comments := f_comments f; f_next_cm := f_next_cm f; f_dts := f_dts f;
     f_sp_problem := spp; f_sp_recovery := spr; f_sp_fstart := spfs; f_sp_fend := spfe;
     f_sbs := sbs; f_flap := fl; f_paused := f_paused f; f_next_check := nc;
     f_parent_checked := f_parent_checked f; f_parent_up := f_parent_up f; f_parent_lsc := f_parent_lsc f |}.

(* ProcessCheckResult lines 271-277: "remove acknowledgements" on a state change *)
Definition ack_on_change (k : kind) (now : Z) (state_change : bool) (new_state : sstate) (f0 : full)
  : full * list out :=
  if state_change then
    let '(a, fa, oa) := get_ack now f0 in
    if ackt_eqb a AckNormal then let '(fb, ob) := clear_ack fa in (fb, oa ++ ob)
    else
      (* the second GetAcknowledgement() of the || is evaluated on the possibly expired value *)
      let '(a2, fa2, oa2) := get_ack now fa in
      if ackt_eqb a2 AckSticky && is_ok k new_state
      then let '(fb, ob) := clear_ack fa2 in (fb, oa ++ oa2 ++ ob)
      else (fa2, oa ++ oa2)
  else (f0, []).

(* Checkable::GetHandled, read through the API *)
Definition get_handled (c : fcfg) (now : Z) (f : full) : bool :=
  let k := c_kind (fc_base c) in
  let problem := s_has_cr (f_st f) && negb (is_ok k (s_raw (f_st f))) in
  problem && (existsb (dt_in_effect now) (f_dts f) || negb (ackt_eqb (fst (fst (get_ack now f))) AckNone)).

(* Checkable::ProcessCheckResult for a passive result without ttl *)
Definition do_result (c : fcfg) (now : Z) (r : cres) (f : full) : full * list out :=
  let b := fc_base c in
  let k := c_kind b in
  if rejected now (f_st f) r then (f, [ORefused 5])
  else
    let nreach := notif_reachable f in                       (* computed before the update *)
    let '(s', i) := step_accept b (f_st f) r in
    let new_state := r_state r in
    let old_state := i_old_raw i in
    let old_type := i_old_type i in
    let lsc := if i_state_change i then r_end r else f_lsc f in
    let f0 := set_core f s' lsc (f_sp_problem f) (f_sp_recovery f) (f_sp_fstart f) (f_sp_fend f)
                       (f_sbs f) (f_flap f) (f_next_check f) in
    (* remove acknowledgements on state change (lines 271-277) *)
    let '(f1, o1) := ack_on_change k now (i_state_change i) new_state f0 in
    (* remove_acknowledgement_comments (line 281) *)
    let '(a3, f2, o2) := get_ack now f1 in
    let rm_comments := ackt_eqb a3 AckNone in
    (* TriggerDowntimes (line 304) *)
    let '(ds3, o3) :=
      if negb (is_ok k new_state) then trigger_all now (f_paused f2) (r_end r) (f_dts f2)
      else (f_dts f2, []) in
    let f3 := set_dts f2 ds3 in
    let in_dt := in_downtime now f3 in
    let '(a4, f4, o4) := get_ack now f3 in
    let suppress := negb nreach || in_dt || negb (ackt_eqb a4 AckNone) in
    let ty := s_type s' in
    let vol := c_volatile b in
    let send0 :=
      if i_hard_change i && negb (stype_eqb old_type Soft && is_ok k new_state) then true
      else if vol && stype_eqb ty Hard && negb (stype_eqb old_type Soft && is_ok k new_state) then true else false in   (* /repo b9a7cb5 *)
    let send1 := if is_ok k old_state && stype_eqb old_type Soft then false else send0 in
    let send := if vol && is_ok k old_state && is_ok k new_state then false else send1 in
    let f5 := if rm_comments then remove_ack_comments (Some (r_end r)) f4 else f4 in
    (* flapping (lines 365-369) *)
    let was_fl := is_flapping c (f_flap f5) in
    let fl' := update_flap c new_state (f_flap f5) in
    let is_fl := is_flapping c fl' in
    (* next check for a passive result (lines 385-396) *)
    let nc := now + fc_check_interval c in
    let paused := f_paused f5 in
    (* flapping notifications (lines 460-488) *)
    let '(sup_fs, sup_fe, o_fl) :=
      if negb was_fl && is_fl then
        if paused then (false, false, [])
        else if in_dt then (true, false, []) else (false, false, [ONotify NFlapStart])
      else if was_fl && negb is_fl then
        if paused then (false, false, [])
        else if in_dt then (false, true, []) else (false, false, [ONotify NFlapEnd])
      else (false, false, []) in
    (* state notification (lines 490-505) *)
    let pending_bits := f_sp_problem f5 || f_sp_recovery f5 in
    let recovery := i_recovery i in
    let '(sup_p, sup_r, o_st) :=
      if send && negb is_fl then
        if paused then (false, false, [])
        else if suppress || pending_bits then
          (negb recovery, recovery, [])
        else (false, false, [ONotify (if recovery then NRecovery else NProblem)])
      else (false, false, []) in
    (* stash (lines 507-535) *)
    let any_sup := sup_fs || sup_fe || sup_p || sup_r in
    let after_fs0 := f_sp_fstart f5 || sup_fs in
    let after_fe0 := f_sp_fend f5 || sup_fe in
    let conflict := after_fs0 && after_fe0 in
    let after_fs := if conflict then false else after_fs0 in
    let after_fe := if conflict then false else after_fe0 in
    let after_p := f_sp_problem f5 || sup_p in
    let after_r := f_sp_recovery f5 || sup_r in
    let sbs' :=
      if any_sup && negb pending_bits && (sup_p || sup_r)
      then (if stype_eqb old_type Hard then old_state else SOK) else f_sbs f5 in
    let f6 :=
      if any_sup then set_core f5 (f_st f5) (f_lsc f5) after_p after_r after_fs after_fe sbs' fl' nc
      else set_core f5 (f_st f5) (f_lsc f5) (f_sp_problem f5) (f_sp_recovery f5) (f_sp_fstart f5)
                    (f_sp_fend f5) (f_sbs f5) fl' nc in
    (f6, o1 ++ o2 ++ o3 ++ o4 ++ [ONewResult] ++ [OStateChange (i_event i)] ++ o_fl ++ o_st).

(* a result processed by the parent host (max_check_attempts = 1: always hard) *)
Definition do_parent (now : Z) (up : bool) (f : full) : full :=
  (* Host: stateChange compares Up/Down; a never-checked host counts as Down (state_raw UNKNOWN) *)
  let state_change := if f_parent_checked f then negb (Bool.eqb up (f_parent_up f)) else up in
  {| f_st := f_st f; f_lsc := f_lsc f; f_ack := f_ack f; f_ack_expiry := f_ack_expiry f;
     f_comments := f_comments f; f_next_cm := f_next_cm f; f_dts := f_dts f;
     f_sp_problem := f_sp_problem f; f_sp_recovery := f_sp_recovery f; f_sp_fstart := f_sp_fstart f;
     f_sp_fend := f_sp_fend f; f_sbs := f_sbs f; f_flap := f_flap f; f_paused := f_paused f;
     f_next_check := f_next_check f;
     f_parent_checked := true; f_parent_up := up;
     f_parent_lsc := if state_change then now else f_parent_lsc f |}.

(* ------------------------------------------------------------------ suppressed-notification timer *)

Definition likely_checked_soon (c : fcfg) (now : Z) (f : full) : bool :=
  if negb (fc_active_checks c) then false
  else
    let th0 := fc_check_interval c - 10 in
    let th := if 60 <? th0 then 60 else if th0 <? 0 then 0 else th0 in
    f_next_check f <=? now + th.

Definition parent_recovered_recently (f : full) : bool :=
  if negb (s_has_cr (f_st f)) then true
  else
    (* !parent->GetProblem() && parent->GetLastStateChange() >= threshold *)
    negb (f_parent_checked f && negb (f_parent_up f)) && (s_cr_start (f_st f) <=? f_parent_lsc f).

Definition set_supp (f : full) (spp spr spfs spfe : bool) : full :=
  set_core f (f_st f) (f_lsc f) spp spr spfs spfe (f_sbs f) (f_flap f) (f_next_check f).

(* Checkable::FireSuppressedNotifications *)
(* /repo 5e50b7a: hosts compare what they report (Up/Down), services the raw state *)
Definition release_same_state (k : kind) (cur sbs : sstate) : bool :=
  match k with
  | KHost => Bool.eqb (is_ok k cur) (is_ok k sbs)
  | KService => sstate_eqb cur sbs
  end.

Definition do_fire (c : fcfg) (now : Z) (f : full) : full * list out :=
  let k := c_kind (fc_base c) in
  if f_paused f then (f, [])
  else if negb (f_sp_problem f || f_sp_recovery f || f_sp_fstart f || f_sp_fend f) then (f, [])
  else
    let has_cr := s_has_cr (f_st f) in
    let cur := s_raw (f_st f) in
    (* state bits *)
    let '(f1, o1, sub_state) :=
      if f_sp_problem f || f_sp_recovery f then
        let t := if has_cr && is_ok k cur then NRecovery else NProblem in
        (* NotificationReasonSuppressed(Problem) || ...(Recovery): each reads the acknowledgement *)
        let nreach := notif_reachable f in
        let in_dt := in_downtime now f in
        let '(supp1, fa, oa) :=
          if negb nreach || in_dt then (true, f, [])
          else let '(a, fa, oa) := get_ack now f in (negb (ackt_eqb a AckNone), fa, oa) in
        let '(supp, fb, ob) :=
          if supp1 then (true, fa, oa)
          else
            let nreach2 := notif_reachable fa in
            let in_dt2 := in_downtime now fa in
            if negb nreach2 || in_dt2 then (true, fa, oa)
            else let '(a, fb, ob) := get_ack now fa in (negb (ackt_eqb a AckNone), fb, oa ++ ob) in
        if negb supp && stype_eqb (s_type (f_st fb)) Hard && negb (likely_checked_soon c now fb)
           && negb (parent_recovered_recently fb)
        then (fb, ob ++ (if negb (release_same_state k cur (f_sbs fb)) then [ONotify t] else []), true)
        else (fb, ob, false)
      else (f, [], false) in
    (* flapping bits *)
    let fl_now := is_flapping c (f_flap f1) in
    let in_dt1 := in_downtime now f1 in
    let go (bit applies : bool) (t : ntype) : bool * list out :=
      if bit then
        if applies then
          if negb in_dt1 && negb (likely_checked_soon c now f1) && negb (parent_recovered_recently f1)
          then (true, [ONotify t]) else (false, [])
        else (true, [])
      else (false, []) in
    let '(sub_fs, o_fs) := go (f_sp_fstart f) fl_now NFlapStart in
    let '(sub_fe, o_fe) := go (f_sp_fend f) (negb fl_now) NFlapEnd in
    let f2 := set_supp f1 (if sub_state then false else f_sp_problem f1)
                          (if sub_state then false else f_sp_recovery f1)
                          (if sub_fs then false else f_sp_fstart f1)
                          (if sub_fe then false else f_sp_fend f1) in
    (f2, o1 ++ o_fs ++ o_fe).

(* ------------------------------------------------------------------ operations *)

Inductive op :=
| OpResult (r : cres)
| OpParent (up : bool)
| OpAck (v : via) (sticky notify persistent expiry_given : bool) (expiry : Z)
| OpUnack
| OpAckRead                                  (* an API read of "acknowledgement"/"handled" *)
| OpCommentTimer
| OpDtAdd (id : Z) (fixed : bool) (start end_ duration trig_by parent : Z) (owned : bool)
| OpDtRemove (id : Z) (children : bool) (r : rreason)
| OpDtStartTimer
| OpDtCleanup (id : Z)
| OpFire
| OpPause (p : bool)
| OpNextCheck (t : Z).

Definition set_paused (f : full) (p : bool) : full :=
  {| f_st := f_st f; f_lsc := f_lsc f; f_ack := f_ack f; f_ack_expiry := f_ack_expiry f;
     f_comments := f_comments f; f_next_cm := f_next_cm f; f_dts := f_dts f;
     f_sp_problem := f_sp_problem f; f_sp_recovery := f_sp_recovery f; f_sp_fstart := f_sp_fstart f;
     f_sp_fend := f_sp_fend f; f_sbs := f_sbs f; f_flap := f_flap f; f_paused := p;
     f_next_check := f_next_check f;
     f_parent_checked := f_parent_checked f; f_parent_up := f_parent_up f; f_parent_lsc := f_parent_lsc f |}.

Definition full_step (c : fcfg) (now : Z) (f : full) (o : op) : full * list out :=
  match o with
  | OpResult r => do_result c now r f
  | OpParent up => (do_parent now up f, [])
  | OpAck v sticky notify persistent eg expiry => do_ack c now v sticky notify persistent eg expiry f
  | OpUnack => do_unack f
  | OpAckRead => let '(_, f', o') := get_ack now f in (f', o')
  | OpCommentTimer => (comments_expire now f, [])
  | OpDtAdd id fixed start end_ duration trig_by parent owned =>
      do_dt_add c now id fixed start end_ duration trig_by parent owned f
  | OpDtRemove id children r => do_dt_remove now id children r f
  | OpDtStartTimer => do_dt_start_timer now f
  | OpDtCleanup id => do_dt_cleanup now id f
  | OpFire => do_fire c now f
  | OpPause p => (set_paused f p, [])
  | OpNextCheck t =>
      (set_core f (f_st f) (f_lsc f) (f_sp_problem f) (f_sp_recovery f) (f_sp_fstart f) (f_sp_fend f)
                (f_sbs f) (f_flap f) t, [])
  end.

(* pure observation after every operation (reads raw attributes, never GetAcknowledgement) *)
Definition supp_mask (f : full) : Z :=
  (if f_sp_problem f then 32 else 0) + (if f_sp_recovery f then 64 else 0)
  + (if f_sp_fstart f then 128 else 0) + (if f_sp_fend f then 256 else 0).
