(* The shape of Checkable::ProcessCheckResult the concurrency model is instantiated with, selected by the facts
   srcfacts regenerates from /repo on every run (tools/facts_c01.py, lock structure).  An unrecognised fact (None)
   degrades: lock-first is then only covered by the real-thread run, and for the other two the weaker shape (second
   critical section, second load of the state type) is assumed, for which only the weaker theorems apply.  A
   recognised `Some false' for the lock makes C01_source_lock_first and C01_concurrent_now stop checking. *)
From Icv Require Import Base.Tac Ck.CkState Ck.CkConc Facts.Facts_c01.

Definition cc_lock_first_now : bool := match f_pcr_lock_covers_rmw with Some b => b | None => true end.
Definition cc_cr_split_now : bool := match f_pcr_cr_in_rmw_section with Some b => negb b | None => true end.
Definition cc_ev_reread_now : bool := match f_pcr_event_type_reread with Some b => b | None => true end.

Definition cc_cfg_now : cc_cfg :=
  {| cc_lock_first := cc_lock_first_now; cc_cr_split := cc_cr_split_now; cc_ev_reread := cc_ev_reread_now |}.
