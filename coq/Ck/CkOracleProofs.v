(* The oracle that is run over implementation traces accepts every trace of the model:
   it can only fire where the implementation's observations differ from what the theorems
   establish for the model.  (Guards the oracle against raising false alarms.) *)
From Icv Require Import Base.Tac Ck.CkState Ck.CkStateProofs Ck.CkObs.
Local Open Scope Z_scope.

Definition mk_ostep (c : cfg) (post : st) (r : cres) (i : info) : ostep :=
  {| os_result := r_state r; os_type := stype_num (s_type post); os_attempt := s_attempt post;
     os_state := api_state (c_kind c) (s_raw post); os_event := event_num (i_event i) |}.

Fixpoint model_trace (c : cfg) (s : st) (h : list cres) : list ostep :=
  match h with
  | [] => []
  | r :: t => let '(s', i) := step_accept c s r in mk_ostep c s' r i :: model_trace c s' t
  end.

Definition OInv (c : cfg) (s : st) (seen : bool) (n run : Z) (prev : option (sstate * Z)) : Prop :=
  1 <= s_attempt s /\
  (seen = true -> Char c s n) /\
  (match prev with Some (praw, pty) => praw = s_raw s /\ pty = stype_num (s_type s) | None => True end) /\
  0 <= run /\
  (1 <= run -> is_ok (c_kind c) (s_raw s) = false /\
               (s_type s = Hard \/ (s_type s = Soft /\ run <= s_attempt s < c_max c))).

Lemma stype_num_hard t : (stype_num t =? 1) = stype_eqb t Hard.
Proof. destruct t; reflexivity. Qed.

Lemma stype_of_num t : (if stype_num t =? 1 then Hard else Soft) = t.
Proof. destruct t; reflexivity. Qed.

Lemma spec_event_pre c s1 s2 r t :
  s_raw s1 = s_raw s2 -> s_type s1 = s_type s2 -> spec_event c s1 r t = spec_event c s2 r t.
Proof. intros H1 H2. unfold spec_event. rewrite H1, H2. reflexivity. Qed.

Ltac bsolve :=
  repeat (apply andb_true_intro; split);
  try reflexivity; try (apply Z.eqb_eq; lia); try (apply Z.leb_le; lia).

Lemma ostep_ok c s seen n run prev r :
  1 <= c_max c -> OInv c s seen n run prev ->
  let s' := fst (step_accept c s r) in
  let i := snd (step_accept c s r) in
  let okr := is_ok (c_kind c) (r_state r) in
  let run' := if okr then 0 else run + 1 in
  ok_step c seen n prev (mk_ostep c s' r i) = true /\
  (if c_max c <=? run' then os_type (mk_ostep c s' r i) =? 1 else true) = true /\
  OInv c s' (seen || okr) (if okr then 0 else n + 1) run' (Some (r_state r, stype_num (s_type s'))).
Proof.
  intros Hmax (Hat & Hchar & Hprev & Hrun0 & Hrun). cbv zeta.
  pose proof (univ_step c s r Hmax Hat) as (Hu1 & Hu2 & Hu3).
  pose proof (step_accept_raw c s r) as Hraw.
  set (s' := fst (step_accept c s r)) in *.
  set (i := snd (step_accept c s r)).
  (* the new characterisation *)
  assert ((seen || is_ok (c_kind c) (r_state r)) = true ->
          Char c s' (if is_ok (c_kind c) (r_state r) then 0 else n + 1)) as Hchar'.
  { intros Hs. destruct (is_ok (c_kind c) (r_state r)) eqn:Hr.
    - apply char_after_ok. assumption.
    - rewrite orb_false_r in Hs. pose proof (char_step c s r n Hmax (Hchar Hs)) as H.
      rewrite Hr in H. exact H. }
  (* the non-OK run *)
  assert (let run' := if is_ok (c_kind c) (r_state r) then 0 else run + 1 in
          1 <= run' -> is_ok (c_kind c) (s_raw s') = false /\
          (s_type s' = Hard \/ (s_type s' = Soft /\ run' <= s_attempt s' < c_max c))) as Hrun'.
  { cbv zeta. destruct (is_ok (c_kind c) (r_state r)) eqn:Hr; [lia|]. intros _.
    rewrite Hraw. split; [assumption|].
    pose proof (step_accept_nonok c s r Hr) as Hs. cbv zeta in Hs. fold s' in Hs.
    destruct Hs as [Hh Hsf].
    set (at2 := if stype_eqb (s_type s) Soft && negb (is_ok (c_kind c) (s_raw s)) then s_attempt s + 1 else 1) in *.
    destruct (Z.le_gt_cases (c_max c) at2) as [Hle|Hgt]; [left; apply Hh; assumption|].
    destruct (Hsf Hgt) as [A B]. rewrite A, B.
    destruct (Z.le_gt_cases 1 run) as [H1|H0].
    - destruct (Hrun H1) as [Hnok Hc]. unfold at2 in *. rewrite Hnok in *.
      destruct Hc as [Hc|[Hc1 Hc2]]; [left; assumption|].
      right. rewrite Hc1 in *. cbn [stype_eqb negb andb] in *. split; [reflexivity|lia].
    - assert (run = 0) by lia. subst run. unfold at2 in *.
      destruct (is_ok (c_kind c) (s_raw s)).
      + right. rewrite andb_false_r in *. split; [reflexivity|lia].
      + destruct (s_type s); cbn [stype_eqb negb andb] in *; [right; split; [reflexivity|lia]|left; reflexivity]. }
  split; [|split].
  - (* ok_step *)
    unfold ok_step, mk_ostep. cbn [os_result os_type os_attempt os_state os_event].
    rewrite Hraw.
    apply andb_true_intro; split; [apply andb_true_intro; split|].
    + (* univ *)
      rewrite !stype_num_hard.
      rewrite Hraw in Hu1.
      destruct (is_ok (c_kind c) (r_state r)) eqn:Hr.
      * destruct (Hu1 eq_refl) as [A B]. rewrite A, B. cbn [stype_eqb]. bsolve.
      * destruct (s_type s') eqn:Hty; cbn [stype_eqb].
        -- bsolve.
        -- rewrite (Hu2 eq_refl). bsolve.
    + (* characterisation *)
      destruct (seen || is_ok (c_kind c) (r_state r)) eqn:Hs; [|reflexivity].
      destruct (Hchar' eq_refl) as (_ & _ & A & B). rewrite A, B, !Z.eqb_refl. reflexivity.
    + (* event *)
      destruct prev as [[praw pty]|]; [|reflexivity].
      destruct Hprev as [-> ->].
      destruct (seen && (negb (c_volatile c) || (stype_num (s_type s) =? 1))) eqn:Hg; [|reflexivity].
      apply andb_prop in Hg. destruct Hg as [Hseen Hv].
      rewrite stype_of_num.
      pose proof (events c s r (char_post_ok_shape c s n (Hchar Hseen))) as He.
      assert (c_volatile c = true -> s_type s = Hard) as Hvol.
      { intros Hvt. rewrite Hvt in Hv. cbn in Hv. rewrite stype_num_hard in Hv.
        destruct (s_type s); [discriminate|reflexivity]. }
      specialize (He Hvol). destruct (step_accept c s r) as [sx ix] eqn:E.
      subst s' i. cbn [fst snd]. rewrite He.
      match goal with
      | |- (_ =? event_num (spec_event c ?p _ _)) = true => rewrite (spec_event_pre c p s)
      end; [rewrite stype_of_num; apply Z.eqb_refl| |]; cbn [s_raw s_type].
      * reflexivity.
      * first [reflexivity | apply stype_of_num].
  - (* within *)
    cbn [mk_ostep os_type]. cbv zeta in Hrun'.
    rewrite stype_num_hard.
    destruct (is_ok (c_kind c) (r_state r)) eqn:Hr.
    + rewrite Hraw in Hu1. destruct (Hu1 Hr) as [A _]. rewrite A. dmatch; reflexivity.
    + destruct (c_max c <=? run + 1) eqn:Hc; [|reflexivity].
      apply Z.leb_le in Hc.
      assert (1 <= run + 1) as Hp by lia.
      destruct (Hrun' Hp) as [_ [Hx|[_ Hx]]]; [rewrite Hx; reflexivity|lia].
  - (* invariant *)
    unfold OInv.
    split; [lia|]. split; [exact Hchar'|]. split; [split; [symmetry; exact Hraw|reflexivity]|].
    split; [destruct (is_ok (c_kind c) (r_state r)); lia|].
    exact Hrun'.
Qed.

Lemma oracle_from_model c h : forall s seen n run prev idx,
  1 <= c_max c -> OInv c s seen n run prev ->
  oracle_from c seen n run prev idx (model_trace c s h) = None.
Proof.
  induction h as [|r t IH]; intros s seen n run prev idx Hmax Hinv; [reflexivity|].
  cbn [model_trace].
  pose proof (ostep_ok c s seen n run prev r Hmax Hinv) as H. cbv zeta in H.
  destruct (step_accept c s r) as [s' i] eqn:E. cbn [fst snd] in H.
  destruct H as (H1 & H2 & H3).
  cbn [oracle_from].
  assert (os_result (mk_ostep c s' r i) = r_state r) as Hres by reflexivity.
  rewrite Hres, H1.
  cbn [andb]. rewrite H2.
  apply IH; assumption.
Qed.

Theorem oracle_accepts_model c h :
  1 <= c_max c -> oracle_c01 c (model_trace c pending h) = None.
Proof.
  intros Hmax. unfold oracle_c01. apply oracle_from_model; [assumption|].
  unfold OInv. cbn. repeat split; try lia; intros; try discriminate.
Qed.
